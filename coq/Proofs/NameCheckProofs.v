(* Proofs for C24 (Lang/NameCheck.v): every syntactic defect class makes the
   checker's walk end with a non-empty error list, in every context. *)
From Coq Require Import List Bool NArith ZArith Lia.
From V Require Import Base.Bytes Lang.NameCheck.
Import ListNotations.
Local Open Scope N_scope.

Scheme node_ind2 := Induction for node Sort Prop
  with nodes_ind2 := Induction for nodes Sort Prop.
Combined Scheme node_nodes_ind from node_ind2, nodes_ind2.

(* a local predicate holds at every node of a tree *)
Section AllNodes.
Variable P : node -> Prop.
Fixpoint all_nodes (n : node) : Prop :=
  P n /\
  match n with
  | NStmtList cs | NOther cs => all_nodess cs
  | NCond c t e => all_nodes c /\ all_nodes t /\ all_nodes e
  | NConst _ p => all_nodes p
  | NDecoDecl _ b | NDecoStmt _ b => all_nodes b
  | NIndexed ix lhs => all_nodess ix /\ all_nodes lhs
  | NBin _ l r => all_nodes l /\ all_nodes r
  | NPattern e | NUnary e | NDel e => all_nodes e
  | NBuiltin _ args => all_nodess args
  | _ => True
  end
with all_nodess (ns : nodes) : Prop :=
  match ns with
  | NNil => True
  | NCons n r => all_nodes n /\ all_nodess r
  end.
Lemma all_nodes_here n : all_nodes n -> P n.
Proof. destruct n; cbn; tauto. Qed.
End AllNodes.

Section Walk.
Variable re_caps : bytes -> option (list (list bytes)).
Variable max_re : N.
Notation walk := (walk re_caps max_re).
Notation walks := (walks re_caps max_re).
Notation pre := pre.
Notation post := (post re_caps max_re).

(* ---- unfolding equations ---- *)
Definition body (n : node) (s1 : st) : st :=
  match n with
  | NStmtList cs => walks cs s1
  | NCond c t e => walk e (walk t (walk c s1))
  | NConst _ p => walk p s1
  | NDecoDecl _ b => walk b s1
  | NDecoStmt _ b => walk b s1
  | NIndexed ix lhs => walk lhs (walks ix s1)
  | NBin _ l r => walk r (walk l s1)
  | NPattern e => walk e s1
  | NBuiltin _ args => walks args s1
  | NUnary e => walk e s1
  | NDel e => walk e s1
  | NOther cs => walks cs s1
  | _ => s1
  end.

Lemma walk_eq n s :
  walk n s = let (s1, go) := pre n s in if negb go then s1 else post n (body n s1).
Proof. destruct n; reflexivity. Qed.

Lemma walks_cons n r s : walks (NCons n r) s = walks r (walk n s).
Proof. reflexivity. Qed.

(* ---- errors only accumulate ---- *)
Definition le (s s' : st) : Prop := exists l, errs s' = l ++ errs s.
Lemma le_refl s : le s s. Proof. exists []. reflexivity. Qed.
Lemma le_trans a b c : le a b -> le b c -> le a c.
Proof. intros [l1 H1] [l2 H2]. exists (l2 ++ l1). rewrite H2, H1, app_assoc. reflexivity. Qed.
Lemma le_add s e : le s (add_err s e). Proof. exists [e]. reflexivity. Qed.
Lemma le_ne s s' : le s s' -> errs s <> [] -> errs s' <> [].
Proof. intros [l H] Hn. rewrite H. destruct l; [exact Hn|discriminate]. Qed.
Lemma add_ne s e : errs (add_err s e) <> []. Proof. discriminate. Qed.

Lemma le_same s s' : errs s' = errs s -> le s s'.
Proof. intros H. exists []. exact H. Qed.

Lemma fold_le {A} (f : st -> A -> st) (l : list A) :
  (forall a x, le a (f a x)) -> forall s, le s (fold_left f l s).
Proof.
  intros H. induction l as [|x l IH]; intros s; cbn; [apply le_refl|].
  eapply le_trans; [apply H|apply IH].
Qed.

Lemma le_check_symtab s : le s (check_symtab s).
Proof.
  unfold check_symtab. apply fold_le. intros a y.
  destruct (is_used s y); [apply le_refl|]. destruct (sy_kind y); try apply le_add; apply le_refl.
Qed.

Lemma le_declare s name k ar : le s (fst (declare s name k ar)).
Proof.
  unfold declare. destruct (insert _ _); cbn; apply le_same; reflexivity.
Qed.

Lemma le_pat_eval e : forall s0, le s0 (fst (pat_eval e s0)).
Proof.
  induction e using node_ind2 with (P0 := fun _ => True); try (intros; exact I); intros s0; cbn [pat_eval]; try apply le_refl; auto.
  - destruct (resolve_id s0 name) as [y|]; [|apply le_refl].
    destruct (sy_kind y); cbn; try apply le_add.
    destruct (assoc _ _); cbn; [apply le_refl|apply le_add].
  - destruct o; cbn; try apply le_refl.
    specialize (IHe1 s0). destruct (pat_eval e1 s0) as [s1 a]. cbn in IHe1.
    specialize (IHe2 s1). destruct (pat_eval e2 s1) as [s2 b]. cbn in *.
    eapply le_trans; eassumption.
Qed.

Lemma le_add_groups gs : forall i s, le s (add_groups gs i s).
Proof.
  induction gs as [|keys r IH]; intros i s; cbn [add_groups]; [apply le_refl|].
  eapply le_trans; [|apply IH].
  eapply le_trans; [|apply fold_le].
  - apply le_same. reflexivity.
  - intros a key. destruct (insert _ _); [apply le_same; reflexivity|apply le_add].
Qed.

Lemma le_check_regex p s : le s (check_regex re_caps max_re p s).
Proof.
  unfold check_regex. destruct (max_re <? _); [apply le_add|].
  destruct (re_caps p); [|apply le_add]. destruct (nosym s); [apply le_refl|apply le_add_groups].
Qed.

Lemma le_post_pattern e s : le s (post_pattern re_caps max_re e s).
Proof.
  unfold post_pattern. pose proof (le_pat_eval e s) as H.
  destruct (pat_eval e s) as [s1 p]. cbn in H. destruct p; [exact H|].
  eapply le_trans; [exact H|apply le_check_regex].
Qed.

Lemma le_pre n s : le s (fst (pre n s)).
Proof.
  destruct n; cbn [pre]; try apply le_refl; try (apply le_same; reflexivity).
  - pose proof (le_declare s name KVar nkeys) as H. destruct (declare s name KVar nkeys) as [s1 ok].
    cbn in H. destruct ok; cbn; [exact H|eapply le_trans; [exact H|apply le_add]].
  - pose proof (le_declare s name KPattern 0) as H. destruct (declare s name KPattern 0) as [s1 ok].
    cbn in H. destruct ok; cbn; [exact H|eapply le_trans; [exact H|apply le_add]].
  - pose proof (le_declare s name KDeco 0) as H. destruct (declare s name KDeco 0) as [s1 ok].
    cbn in H. destruct ok; cbn; [eapply le_trans; [exact H|apply le_same; reflexivity]
                                |eapply le_trans; [exact H|apply le_add]].
  - destruct (lookup name KDeco (scopes s)) as [y|]; cbn; [|apply le_add].
    destruct (assoc _ _); cbn; [apply le_same; reflexivity|].
    eapply le_trans; [|apply le_add]. apply le_same. reflexivity.
  - destruct (resolve_id s name); cbn; [apply le_same; reflexivity|apply le_add].
  - destruct (lookup name KCapref (scopes s)); cbn; [apply le_same; reflexivity|apply le_add].
  - destruct f; cbn; try apply le_refl. apply le_same. reflexivity.
Qed.

Lemma le_post n s : le s (post n s).
Proof.
  destruct n; cbn [NameCheck.post]; try apply le_refl.
  - eapply le_trans; [apply le_check_symtab|apply le_same; reflexivity].
  - eapply le_trans; [apply le_check_symtab|apply le_same; reflexivity].
  - pose proof (le_pat_eval n s) as H. destruct (pat_eval n s) as [s1 pat]. cbn in H.
    destruct pat; [exact H|]. destruct (find_name _ _); [|exact H].
    eapply le_trans; [exact H|apply le_same; reflexivity].
  - destruct (decos s) as [|d r]; [apply le_refl|].
    destruct d; cbn.
    + destruct (find_name _ _); cbn; (eapply le_trans; [apply le_add|apply le_same; reflexivity]).
    + destruct (find_name _ _); cbn; apply le_same; reflexivity.
  - apply le_same. reflexivity.
  - destruct (decos s) as [|d r]; [apply le_add|]. destruct d; [apply le_same; reflexivity|apply le_add].
  - destruct n; try apply le_refl.
    destruct (resolve_id s name) as [y|]; [|apply le_refl].
    destruct (sy_kind y); try (destruct (sy_arity y =? 0); [destruct (nlen ix =? 0)|destruct (sy_arity y =? nlen ix)];
                               try apply le_refl; apply le_add).
    eapply le_trans; [|apply le_post_pattern]. apply le_same. reflexivity.
  - destruct o; try apply le_refl; destruct (is_zero_lit n2 && syn_int n1); try apply le_refl; apply le_add.
  - apply le_post_pattern.
  - destruct f; try apply le_refl. apply le_same. reflexivity.
Qed.

Lemma le_walk_both :
  (forall n s, le s (walk n s)) /\ (forall ns s, le s (walks ns s)).
Proof.
  apply node_nodes_ind; intros;
    try (rewrite walk_eq;
         match goal with |- le ?s (let (_, _) := pre ?n ?s in _) =>
           pose proof (le_pre n s) as Hp; destruct (pre n s) as [s1 go]; cbn [fst] in Hp;
           destruct go; cbn [negb]; [|exact Hp];
           eapply le_trans; [exact Hp|]; eapply le_trans; [|apply le_post]; cbn [body]
         end);
    try apply le_refl; eauto using le_trans.
Qed.
Definition le_walk := proj1 le_walk_both.
Definition le_walks := proj2 le_walk_both.

Lemma ne_walk n s : errs s <> [] -> errs (walk n s) <> [].
Proof. apply le_ne, le_walk. Qed.
Lemma ne_walks ns s : errs s <> [] -> errs (walks ns s) <> [].
Proof. apply le_ne, le_walks. Qed.
Lemma ne_post n s : errs s <> [] -> errs (post n s) <> [].
Proof. apply le_ne, le_post. Qed.

(* a pruned visit has reported an error *)
Lemma pre_false n s s1 : pre n s = (s1, false) -> errs s1 <> [].
Proof.
  destruct n; cbn [NameCheck.pre]; try discriminate.
  - destruct (declare s name KVar nkeys) as [s2 ok]. destruct ok; intros H; inversion H. discriminate.
  - destruct (declare s name KPattern 0) as [s2 ok]. destruct ok; intros H; inversion H. discriminate.
  - destruct (declare s name KDeco 0) as [s2 ok]. destruct ok; intros H; inversion H. discriminate.
  - destruct (lookup name KDeco (scopes s)); [destruct (assoc _ _)|]; intros H; inversion H; discriminate.
  - destruct (resolve_id s name); intros H; inversion H. discriminate.
  - destruct (lookup name KCapref (scopes s)); intros H; inversion H. discriminate.
  - destruct f; discriminate.
Qed.

(* ---- the generic argument: an invariant carried to the defective node ---- *)
Section Reach.
Variable Inv : st -> Prop.
Variable P : node -> Prop.          (* local condition on every node of the program *)
Variable onpath : node -> Prop.     (* condition on the ancestors of the defect *)
Variable d : node.
Hypothesis ok_walk : forall n s, all_nodes P n -> Inv s -> Inv (walk n s).
Hypothesis ok_walks : forall ns s, all_nodess P ns -> Inv s -> Inv (walks ns s).
Hypothesis pre_inv : forall n s s1, onpath n -> P n -> Inv s -> pre n s = (s1, true) -> Inv s1.
Hypothesis d_err : forall s, Inv s -> errs (walk d s) <> [].

Inductive occ : node -> Prop :=
| occ_here : occ d
| occ_stmts cs : onpath (NStmtList cs) -> occs cs -> occ (NStmtList cs)
| occ_other cs : onpath (NOther cs) -> occs cs -> occ (NOther cs)
| occ_cond_c c t e : onpath (NCond c t e) -> occ c -> occ (NCond c t e)
| occ_cond_t c t e : onpath (NCond c t e) -> occ t -> occ (NCond c t e)
| occ_cond_e c t e : onpath (NCond c t e) -> occ e -> occ (NCond c t e)
| occ_const x p : onpath (NConst x p) -> occ p -> occ (NConst x p)
| occ_decl x b : onpath (NDecoDecl x b) -> occ b -> occ (NDecoDecl x b)
| occ_deco x b : onpath (NDecoStmt x b) -> occ b -> occ (NDecoStmt x b)
| occ_ix ix lhs : onpath (NIndexed ix lhs) -> occs ix -> occ (NIndexed ix lhs)
| occ_ix_lhs ix lhs : onpath (NIndexed ix lhs) -> occ lhs -> occ (NIndexed ix lhs)
| occ_bin_l o l r : onpath (NBin o l r) -> occ l -> occ (NBin o l r)
| occ_bin_r o l r : onpath (NBin o l r) -> occ r -> occ (NBin o l r)
| occ_pattern e : onpath (NPattern e) -> occ e -> occ (NPattern e)
| occ_builtin f args : onpath (NBuiltin f args) -> occs args -> occ (NBuiltin f args)
| occ_unary e : onpath (NUnary e) -> occ e -> occ (NUnary e)
| occ_del e : onpath (NDel e) -> occ e -> occ (NDel e)
with occs : nodes -> Prop :=
| occs_head n r : occ n -> occs (NCons n r)
| occs_tail n r : occs r -> occs (NCons n r).

Scheme occ_ind2 := Induction for occ Sort Prop
  with occs_ind2 := Induction for occs Sort Prop.
Combined Scheme occ_occs_ind from occ_ind2, occs_ind2.

Ltac enter n s :=
  rewrite walk_eq; destruct (pre n s) as [s1 go] eqn:Ep; destruct go; cbn [negb];
  [ assert (Inv s1) as Hi1 by (eapply pre_inv; [eassumption|eapply all_nodes_here; eassumption|eassumption|eassumption])
  | exact (pre_false _ _ _ Ep) ];
  apply ne_post; cbn [body].

Lemma reach_both :
  (forall n, occ n -> all_nodes P n -> forall s, Inv s -> errs (walk n s) <> []) /\
  (forall ns, occs ns -> all_nodess P ns -> forall s, Inv s -> errs (walks ns s) <> []).
Proof.
  apply occ_occs_ind.
  - intros _ s Hi. apply d_err, Hi.
  - intros cs Hp _ IH Ha s Hi. enter (NStmtList cs) s. apply IH; [apply Ha|exact Hi1].
  - intros cs Hp _ IH Ha s Hi. enter (NOther cs) s. apply IH; [apply Ha|exact Hi1].
  - intros c t e Hp _ IH Ha s Hi. enter (NCond c t e) s.
    apply ne_walk, ne_walk, IH; [apply Ha|exact Hi1].
  - intros c t e Hp _ IH Ha s Hi. enter (NCond c t e) s.
    apply ne_walk, IH; [apply Ha|]. apply ok_walk; [apply Ha|exact Hi1].
  - intros c t e Hp _ IH Ha s Hi. enter (NCond c t e) s.
    apply IH; [apply Ha|]. apply ok_walk; [apply Ha|]. apply ok_walk; [apply Ha|exact Hi1].
  - intros x p Hp _ IH Ha s Hi. enter (NConst x p) s. apply IH; [apply Ha|exact Hi1].
  - intros x b Hp _ IH Ha s Hi. enter (NDecoDecl x b) s. apply IH; [apply Ha|exact Hi1].
  - intros x b Hp _ IH Ha s Hi. enter (NDecoStmt x b) s. apply IH; [apply Ha|exact Hi1].
  - intros ix lhs Hp _ IH Ha s Hi. enter (NIndexed ix lhs) s.
    apply ne_walk, IH; [apply Ha|exact Hi1].
  - intros ix lhs Hp _ IH Ha s Hi. enter (NIndexed ix lhs) s.
    apply IH; [apply Ha|]. apply ok_walks; [apply Ha|exact Hi1].
  - intros o l r Hp _ IH Ha s Hi. enter (NBin o l r) s.
    apply ne_walk, IH; [apply Ha|exact Hi1].
  - intros o l r Hp _ IH Ha s Hi. enter (NBin o l r) s.
    apply IH; [apply Ha|]. apply ok_walk; [apply Ha|exact Hi1].
  - intros e Hp _ IH Ha s Hi. enter (NPattern e) s. apply IH; [apply Ha|exact Hi1].
  - intros f args Hp _ IH Ha s Hi. enter (NBuiltin f args) s. apply IH; [apply Ha|exact Hi1].
  - intros e Hp _ IH Ha s Hi. enter (NUnary e) s. apply IH; [apply Ha|exact Hi1].
  - intros e Hp _ IH Ha s Hi. enter (NDel e) s. apply IH; [apply Ha|exact Hi1].
  - intros n r _ IH Ha s Hi. rewrite walks_cons. apply ne_walks, IH; [apply Ha|exact Hi].
  - intros n r _ IH Ha s Hi. rewrite walks_cons. apply IH; [apply Ha|].
    apply ok_walk; [apply Ha|exact Hi].
Qed.

Theorem reach p : occ p -> all_nodes P p -> Inv st0 -> check re_caps max_re p <> [].
Proof.
  intros Ho Ha Hi. unfold check. pose proof (proj1 reach_both p Ho Ha st0 Hi) as H.
  intros E. apply H. apply (f_equal (@rev err)) in E. rewrite rev_involutive in E. exact E.
Qed.

End Reach.

(* an invariant kept by every VisitBefore and VisitAfter is kept by the walk *)
Section InvByParts.
Variable Inv : st -> Prop.
Variable P : node -> Prop.
Hypothesis pre_ok : forall n s, P n -> Inv s -> Inv (fst (pre n s)).
Hypothesis post_ok : forall n s, P n -> Inv s -> Inv (post n s).

Lemma inv_walk_both :
  (forall n s, all_nodes P n -> Inv s -> Inv (walk n s)) /\
  (forall ns s, all_nodess P ns -> Inv s -> Inv (walks ns s)).
Proof.
  apply node_nodes_ind; intros;
    try (rewrite walk_eq;
         match goal with Ha : all_nodes P ?n, Hi : Inv ?s |- _ =>
           pose proof (pre_ok n s (all_nodes_here P n Ha) Hi) as Hp;
           destruct (pre n s) as [s1 go]; cbn [fst] in Hp; destruct go; cbn [negb]; [|exact Hp];
           apply post_ok; [exact (all_nodes_here P n Ha)|]; cbn [body]; cbn in Ha
         end);
    try assumption; try (intuition eauto; fail).
  - cbn in H1. rewrite walks_cons. apply H0; [tauto|]. apply H; tauto.
Qed.
End InvByParts.

End Walk.

(* ====================================================================== *)
(* Defect classes                                                          *)

Section Defects.
Variable re_caps : bytes -> option (list (list bytes)).
Variable max_re : N.
Notation walk := (walk re_caps max_re).
Notation walks := (walks re_caps max_re).
Notation post := (post re_caps max_re).
Notation check := (check re_caps max_re).
Definition anywhere (_ : node) : Prop := True.
Definition notrue (_ : st) : Prop := True.

(* ---- classes with no state condition: regex validity, regex length, literal-zero divisor ---- *)

Lemma trivial_reach d p :
  (forall s, errs (walk d s) <> []) ->
  occ anywhere d p -> check p <> [].
Proof.
  intros Hd Ho.
  apply (reach re_caps max_re notrue anywhere anywhere d); unfold notrue, anywhere; auto.
  clear. induction p using node_ind2 with (P0 := fun ns => all_nodess (fun _ => True) ns); cbn; auto.
Qed.

Lemma invalid_regex_err p s :
  p <> [] -> (max_re <? N.of_nat (length p)) = false -> re_caps p = None ->
  errs (walk (NPattern (NPatLit p)) s) <> [].
Proof.
  intros Hp Hl Hr. rewrite walk_eq. cbn [NameCheck.pre negb body]. rewrite walk_eq. cbn [NameCheck.pre negb body NameCheck.post].
  unfold post_pattern. cbn [pat_eval]. destruct p; [congruence|].
  unfold check_regex. rewrite Hl, Hr. discriminate.
Qed.

Lemma long_regex_err p s :
  p <> [] -> (max_re <? N.of_nat (length p)) = true ->
  errs (walk (NPattern (NPatLit p)) s) <> [].
Proof.
  intros Hp Hl. rewrite walk_eq. cbn [NameCheck.pre negb body]. rewrite walk_eq. cbn [NameCheck.pre negb body NameCheck.post].
  unfold post_pattern. cbn [pat_eval]. destruct p; [congruence|].
  unfold check_regex. rewrite Hl. discriminate.
Qed.

Lemma zero_div_err o l s :
  (o = BDiv \/ o = BMod) -> syn_int l = true ->
  errs (walk (NBin o l (NIntLit 0)) s) <> [].
Proof.
  intros Ho Hl. rewrite walk_eq. cbn [NameCheck.pre negb body].
  rewrite (walk_eq _ _ (NIntLit 0)). cbn [NameCheck.pre negb body].
  destruct Ho as [-> | ->]; cbn [NameCheck.post is_zero_lit]; rewrite Hl; discriminate.
Qed.

(* ---- classes decided by what symbols can exist: every symbol in every
        scope, pending decorator scope and decorator zygote satisfies phi ---- *)
Section Syms.
Variable phi : sym -> Prop.
Definition syms_ok (s : st) : Prop :=
  Forall (Forall phi) (scopes s) /\ Forall (Forall phi) (decos s) /\
  Forall (fun p => Forall phi (snd p)) (zyg s).
Definition same_syms (s s' : st) : Prop :=
  scopes s' = scopes s /\ decos s' = decos s /\ zyg s' = zyg s.

Lemma same_ok s s' : same_syms s s' -> syms_ok s -> syms_ok s'.
Proof. intros (A & B & C). unfold syms_ok. rewrite A, B, C. tauto. Qed.
Lemma same_refl s : same_syms s s. Proof. repeat split. Qed.
Lemma same_trans a b c : same_syms a b -> same_syms b c -> same_syms a c.
Proof. intros (A & B & C) (A' & B' & C'). repeat split; congruence. Qed.

Lemma fold_same {A} (f : st -> A -> st) (l : list A) :
  (forall a x, same_syms a (f a x)) -> forall s, same_syms s (fold_left f l s).
Proof.
  intros H. induction l as [|x l IH]; intros s; cbn; [apply same_refl|].
  eapply same_trans; [apply H|apply IH].
Qed.

Lemma same_check_symtab s : same_syms s (check_symtab s).
Proof.
  unfold check_symtab. apply fold_same. intros a y.
  destruct (is_used s y); [apply same_refl|]. destruct (sy_kind y); repeat split.
Qed.

Lemma same_pat_eval e : forall s0, same_syms s0 (fst (pat_eval e s0)).
Proof.
  induction e using node_ind2 with (P0 := fun _ => True); try (intros; exact I); intros s0; cbn [pat_eval]; try apply same_refl; auto.
  - destruct (resolve_id s0 name) as [y|]; [|apply same_refl].
    destruct (sy_kind y); cbn; try (repeat split; fail).
    destruct (assoc _ _); cbn; repeat split.
  - destruct o; cbn; try apply same_refl.
    specialize (IHe1 s0). destruct (pat_eval e1 s0) as [s1 a]. cbn in IHe1.
    specialize (IHe2 s1). destruct (pat_eval e2 s1) as [s2 b]. cbn in *.
    eapply same_trans; eassumption.
Qed.

Lemma find_name_in n sc y : find_name n sc = Some y -> In y sc /\ sy_name y = n.
Proof.
  induction sc as [|z r IH]; cbn; [discriminate|].
  destruct (bytes_eqb (sy_name z) n) eqn:E.
  - intros H. injection H as <-. split; [left; reflexivity|]. apply bytes_eqb_spec, E.
  - intros H. apply IH in H as [H1 H2]. split; [right; exact H1|exact H2].
Qed.

Lemma lookup_in n k ss y :
  lookup n k ss = Some y -> (exists sc, In sc ss /\ In y sc) /\ sy_name y = n /\ sy_kind y = k.
Proof.
  induction ss as [|sc r IH]; cbn; [discriminate|].
  destruct (find_name n sc) as [z|] eqn:Ef.
  - destruct (kind_eqb (sy_kind z) k) eqn:Ek.
    + intros H. injection H as <-. apply find_name_in in Ef as [Hi Hn].
      split; [exists sc; split; [left; reflexivity|exact Hi]|]. split; [exact Hn|].
      destruct (sy_kind z), k; try discriminate; reflexivity.
    + intros H. apply IH in H as ((sc' & H1 & H2) & H3). split; [exists sc'; split; [right; exact H1|exact H2]|exact H3].
  - intros H. apply IH in H as ((sc' & H1 & H2) & H3). split; [exists sc'; split; [right; exact H1|exact H2]|exact H3].
Qed.

Lemma lookup_phi n k ss y : Forall (Forall phi) ss -> lookup n k ss = Some y -> phi y.
Proof.
  intros Hf H. apply lookup_in in H as ((sc & H1 & H2) & _).
  rewrite Forall_forall in Hf. specialize (Hf sc H1). rewrite Forall_forall in Hf. apply Hf, H2.
Qed.

Lemma insert_quiet_phi y sc : phi y -> Forall phi sc -> Forall phi (insert_quiet y sc).
Proof.
  intros Hy Hs. unfold insert_quiet, insert. destruct (find_name _ _); [exact Hs|constructor; assumption].
Qed.

Lemma copy_from_phi stack : forall target,
  Forall phi target -> Forall (Forall phi) stack -> Forall phi (copy_from target stack).
Proof.
  unfold copy_from. induction stack as [|sc r IH]; intros target Ht Hs; cbn; [exact Ht|].
  inversion Hs as [|? ? Hsc Hr]; subst. apply IH; [|exact Hr].
  clear IH Hs Hr. revert target Ht. induction sc as [|y sc IH2]; intros target Ht; cbn; [exact Ht|].
  inversion Hsc; subst. apply IH2; [assumption|]. apply insert_quiet_phi; assumption.
Qed.

Lemma assoc_in {A} i (l : list (N * A)) v : assoc i l = Some v -> exists j, In (j, v) l.
Proof.
  induction l as [|[j w] r IH]; cbn; [discriminate|].
  destruct (i =? j).
  - intros H. injection H as <-. exists j. left. reflexivity.
  - intros H. apply IH in H as [j' H]. exists j'. right. exact H.
Qed.

Lemma tl_ok {A} (Q : A -> Prop) l : Forall Q l -> Forall Q (tl l).
Proof. destruct l; cbn; [auto|]. intros H. inversion H. assumption. Qed.

Lemma declare_ok s name k ar :
  (forall id, phi {| sy_id := id; sy_name := name; sy_kind := k; sy_arity := ar |}) ->
  syms_ok s -> syms_ok (fst (declare s name k ar)).
Proof.
  intros Hy (A & B & C). unfold declare, insert.
  destruct (find_name _ _); cbn; [repeat split; assumption|].
  repeat split; cbn; try assumption.
  constructor; [|apply tl_ok, A].
  constructor; [apply Hy|]. unfold top_scope. cbn. destruct (scopes s); cbn; [constructor|]. inversion A. assumption.
Qed.

(* node-local condition: what a declaration may declare *)
Definition decl_ok (n : node) : Prop :=
  match n with
  | NVarDecl name k => forall id, phi {| sy_id := id; sy_name := name; sy_kind := KVar; sy_arity := k |}
  | NConst name _ => forall id, phi {| sy_id := id; sy_name := name; sy_kind := KPattern; sy_arity := 0 |}
  | NDecoDecl name _ => forall id, phi {| sy_id := id; sy_name := name; sy_kind := KDeco; sy_arity := 0 |}
  | _ => True
  end.

(* what the regular expressions may define *)
Hypothesis groups_ok : forall p gs keys key id i,
  re_caps p = Some gs -> In keys gs -> In key keys ->
  phi {| sy_id := id; sy_name := key; sy_kind := KCapref; sy_arity := i |}.

Lemma pre_ok n s : decl_ok n -> syms_ok s -> syms_ok (fst (pre n s)).
Proof.
  intros Hd Hs. destruct n; cbn [NameCheck.pre]; try exact Hs.
  - destruct Hs as (A & B & C). repeat split; cbn; try assumption. constructor; [constructor|exact A].
  - destruct Hs as (A & B & C). repeat split; cbn; try assumption. constructor; [constructor|exact A].
  - pose proof (declare_ok s name KVar nkeys Hd Hs) as H. destruct (declare s name KVar nkeys) as [s1 ok].
    cbn in H. destruct ok; cbn; [exact H|]. eapply same_ok; [|exact H]. repeat split.
  - pose proof (declare_ok s name KPattern 0 Hd Hs) as H. destruct (declare s name KPattern 0) as [s1 ok].
    cbn in H. destruct ok; cbn; [exact H|]. eapply same_ok; [|exact H]. repeat split.
  - pose proof (declare_ok s name KDeco 0 Hd Hs) as H. destruct (declare s name KDeco 0) as [s1 ok].
    cbn in H. destruct ok; cbn; [|eapply same_ok; [|exact H]; repeat split].
    destruct H as (A & B & C). repeat split; cbn; try assumption. constructor; [constructor|exact B].
  - destruct (lookup name KDeco (scopes s)) as [y|]; cbn; [|eapply same_ok; [|exact Hs]; repeat split].
    destruct (assoc (sy_id y) (zyg s)) as [z|] eqn:Ez; cbn; [|eapply same_ok; [|exact Hs]; repeat split].
    destruct Hs as (A & B & C). repeat split; cbn; try assumption.
    constructor; [|exact A]. apply (copy_from_phi [z] []); [constructor|]. constructor; [|constructor].
    apply assoc_in in Ez as [j Hj]. rewrite Forall_forall in C. apply (C _ Hj).
  - destruct (resolve_id s name); cbn; eapply same_ok; try exact Hs; repeat split.
  - destruct (lookup name KCapref (scopes s)); cbn; eapply same_ok; try exact Hs; repeat split.
  - destruct f; cbn; exact Hs.
Qed.

Lemma add_groups_ok gs : forall i s,
  (forall keys key id j, In keys gs -> In key keys ->
     phi {| sy_id := id; sy_name := key; sy_kind := KCapref; sy_arity := j |}) ->
  syms_ok s -> syms_ok (add_groups gs i s).
Proof.
  induction gs as [|keys r IH]; intros i s Hk Hs; cbn [add_groups]; [exact Hs|].
  apply IH; [intros; eapply Hk; [right; eassumption|eassumption]|].
  assert (forall ks a, (forall key, In key ks -> In key keys) -> syms_ok a ->
            syms_ok (fold_left (fun a key =>
                     match insert {| sy_id := nid s; sy_name := key; sy_kind := KCapref; sy_arity := i |} (top_scope a) with
                     | Some sc => set_top a sc
                     | None => add_err a ERedeclCapref
                     end) ks a)) as Hfold.
  { induction ks as [|key ks IHk]; intros a Hin Ha; cbn; [exact Ha|].
    apply IHk; [intros; apply Hin; right; assumption|].
    unfold insert. destruct (find_name _ _); [eapply same_ok; [|exact Ha]; repeat split|].
    destruct Ha as (A & B & C). repeat split; cbn; try assumption.
    constructor; [|apply tl_ok, A]. constructor.
    - eapply Hk; [left; reflexivity|apply Hin; left; reflexivity].
    - unfold top_scope. destruct (scopes a); cbn; [constructor|]. inversion A. assumption. }
  apply Hfold; [auto|]. eapply same_ok; [|exact Hs]. repeat split.
Qed.

Lemma post_pattern_ok e s : syms_ok s -> syms_ok (post_pattern re_caps max_re e s).
Proof.
  intros Hs. unfold post_pattern. pose proof (same_pat_eval e s) as H.
  destruct (pat_eval e s) as [s1 p]. cbn in H. pose proof (same_ok _ _ H Hs) as H1.
  destruct p; [exact H1|]. unfold check_regex.
  destruct (max_re <? _); [eapply same_ok; [|exact H1]; repeat split|].
  destruct (re_caps (b :: p)) as [gs|] eqn:Er; [|eapply same_ok; [|exact H1]; repeat split].
  destruct (nosym s1); [exact H1|]. apply add_groups_ok; [|exact H1].
  intros. eapply groups_ok; eassumption.
Qed.

Lemma post_ok n s : syms_ok s -> syms_ok (post n s).
Proof.
  intros Hs. destruct n; cbn [NameCheck.post]; try exact Hs.
  - pose proof (same_ok _ _ (same_check_symtab s) Hs) as (A & B & C). repeat split; cbn; try assumption. apply tl_ok, A.
  - pose proof (same_ok _ _ (same_check_symtab s) Hs) as (A & B & C). repeat split; cbn; try assumption. apply tl_ok, A.
  - pose proof (same_pat_eval n s) as H. destruct (pat_eval n s) as [s1 pat]. cbn in H.
    pose proof (same_ok _ _ H Hs) as H1. destruct pat; [exact H1|]. destruct (find_name _ _); [|exact H1].
    eapply same_ok; [|exact H1]. repeat split.
  - destruct (decos s) as [|d r] eqn:Ed; [exact Hs|].
    destruct Hs as (A & B & C). rewrite Ed in B. inversion B as [|? ? Hd Hr]; subst.
    assert (syms_ok (set_decos (match d with [] => add_err s EDecoNoNext | _ :: _ => s end) r)) as H2.
    { destruct d; repeat split; cbn; assumption. }
    destruct (find_name _ _); [|exact H2].
    destruct H2 as (A2 & B2 & C2). repeat split; cbn; try assumption. constructor; [exact Hd|exact C2].
  - destruct Hs as (A & B & C). repeat split; cbn; try assumption. apply tl_ok, A.
  - destruct (decos s) as [|d r] eqn:Ed; [eapply same_ok; [|exact Hs]; repeat split|].
    destruct d; [|eapply same_ok; [|exact Hs]; repeat split].
    destruct Hs as (A & B & C). rewrite Ed in B. inversion B; subst.
    repeat split; cbn; try assumption. constructor; [|assumption]. apply (copy_from_phi (scopes s) []); [constructor|exact A].
  - destruct n; try exact Hs.
    destruct (resolve_id s name) as [y|]; [|exact Hs].
    destruct (sy_kind y);
      try (destruct (sy_arity y =? 0); [destruct (nlen ix =? 0)|destruct (sy_arity y =? nlen ix)]; exact Hs).
    apply post_pattern_ok. exact Hs.
  - destruct o; try exact Hs; destruct (is_zero_lit n2 && syn_int n1); exact Hs.
  - apply post_pattern_ok, Hs.
  - destruct f; exact Hs.
Qed.

Lemma syms_walk n s : all_nodes decl_ok n -> syms_ok s -> syms_ok (walk n s).
Proof.
  apply (proj1 (inv_walk_both re_caps max_re syms_ok decl_ok pre_ok (fun n s _ => post_ok n s))).
Qed.
Lemma syms_walks ns s : all_nodess decl_ok ns -> syms_ok s -> syms_ok (walks ns s).
Proof.
  apply (proj2 (inv_walk_both re_caps max_re syms_ok decl_ok pre_ok (fun n s _ => post_ok n s))).
Qed.

Lemma syms_ok0 : syms_ok st0.
Proof. repeat split; constructor. Qed.

Theorem syms_reach d p :
  (forall s, syms_ok s -> errs (walk d s) <> []) ->
  occ anywhere d p -> all_nodes decl_ok p -> check p <> [].
Proof.
  intros Hd Ho Ha.
  apply (reach re_caps max_re syms_ok decl_ok anywhere d); auto using syms_walk, syms_walks, syms_ok0.
  intros n s s1 _ Hn Hs E. pose proof (pre_ok n s Hn Hs) as H. rewrite E in H. exact H.
Qed.

End Syms.

Lemma all_nodes_impl (P Q : node -> Prop) (H : forall n, P n -> Q n) :
  (forall n, all_nodes P n -> all_nodes Q n) /\ (forall ns, all_nodess P ns -> all_nodess Q ns).
Proof.
  apply node_nodes_ind; cbn; intros; intuition auto.
Qed.

Lemma lookup_none (phi : sym -> Prop) x k ss :
  Forall (Forall phi) ss ->
  (forall y, phi y -> sy_name y = x -> sy_kind y = k -> False) ->
  lookup x k ss = None.
Proof.
  intros Hf Hc. destruct (lookup x k ss) as [y|] eqn:E; [|reflexivity].
  pose proof (lookup_phi phi _ _ _ _ Hf E) as Hy.
  apply lookup_in in E as (_ & Hn & Hk). exfalso. eapply Hc; eassumption.
Qed.

(* -- class: undeclared metric / pattern constant -- *)
Definition phi_id (x : bytes) (y : sym) : Prop :=
  ~ (sy_name y = x /\ (sy_kind y = KVar \/ sy_kind y = KPattern)).
Definition no_decl_id (x : bytes) (n : node) : Prop :=
  match n with NVarDecl name _ | NConst name _ => name <> x | _ => True end.

Lemma no_decl_id_ok x n : no_decl_id x n -> decl_ok (phi_id x) n.
Proof. destruct n; cbn; auto; intros Hne id [Hn Hk]; cbn in *; try congruence; destruct Hk; discriminate. Qed.

Theorem undeclared_id x p :
  all_nodes (no_decl_id x) p -> occ anywhere (NId x) p -> check p <> [].
Proof.
  intros Ha Ho. apply (syms_reach (phi_id x)) with (d := NId x); auto.
  - intros ? ? ? ? ? ? _ _ _ [_ [H|H]]; discriminate H.
  - intros s (A & _). rewrite walk_eq. cbn [NameCheck.pre]. unfold resolve_id.
    rewrite (lookup_none (phi_id x) x KVar (scopes s) A) by (intros y Hy Hn Hk; apply Hy; auto).
    rewrite (lookup_none (phi_id x) x KPattern (scopes s) A) by (intros y Hy Hn Hk; apply Hy; auto).
    cbn. discriminate.
  - revert Ha. apply (proj1 (all_nodes_impl (no_decl_id x) (decl_ok (phi_id x)) (no_decl_id_ok x))).
Qed.

(* -- class: capture group no regular expression defines -- *)
Definition phi_cap (x : bytes) (y : sym) : Prop := ~ (sy_name y = x /\ sy_kind y = KCapref).

Theorem undefined_capref x p :
  (forall q gs keys, re_caps q = Some gs -> In keys gs -> ~ In x keys) ->
  occ anywhere (NCapref x) p -> check p <> [].
Proof.
  intros Hg Ho. apply (syms_reach (phi_cap x)) with (d := NCapref x); auto.
  - intros q gs keys key id i Hq Hk Hkey [Hn _]. cbn in Hn. subst key. eapply Hg; eassumption.
  - intros s (A & _). rewrite walk_eq. cbn [NameCheck.pre].
    rewrite (lookup_none (phi_cap x) x KCapref (scopes s) A) by (intros y Hy Hn Hk; apply Hy; auto).
    cbn. discriminate.
  - clear. induction p using node_ind2 with (P0 := fun ns => all_nodess (decl_ok (phi_cap x)) ns); cbn; auto;
      split; auto; intros id [_ H]; discriminate H.
Qed.

(* -- class: decorator that is never defined -- *)
Definition phi_deco (x : bytes) (y : sym) : Prop := ~ (sy_name y = x /\ sy_kind y = KDeco).
Definition no_decl_deco (x : bytes) (n : node) : Prop :=
  match n with NDecoDecl name _ => name <> x | _ => True end.

Lemma no_decl_deco_ok x n : no_decl_deco x n -> decl_ok (phi_deco x) n.
Proof.
  destruct n; cbn; auto; try (intros _ id [_ H]; discriminate H).
  intros Hne id [Hn _]; cbn in Hn; congruence.
Qed.

Theorem undefined_deco x b p :
  all_nodes (no_decl_deco x) p -> occ anywhere (NDecoStmt x b) p -> check p <> [].
Proof.
  intros Ha Ho. apply (syms_reach (phi_deco x)) with (d := NDecoStmt x b); auto.
  - intros ? ? ? ? ? ? _ _ _ [_ H]; discriminate H.
  - intros s (A & _). rewrite walk_eq. cbn [NameCheck.pre].
    rewrite (lookup_none (phi_deco x) x KDeco (scopes s) A) by (intros y Hy Hn Hk; apply Hy; auto).
    cbn. discriminate.
  - revert Ha. apply (proj1 (all_nodes_impl (no_decl_deco x) (decl_ok (phi_deco x)) (no_decl_deco_ok x))).
Qed.

(* -- class: wrong number of index keys -- *)
Definition phi_keys (m : bytes) (k : N) (y : sym) : Prop :=
  sy_name y = m -> sy_kind y <> KPattern /\ (sy_kind y = KVar -> sy_arity y <> k).
Definition decl_keys (m : bytes) (k : N) (n : node) : Prop :=
  match n with
  | NVarDecl name a => name = m -> a <> k
  | NConst name _ => name <> m
  | _ => True
  end.

Lemma decl_keys_ok m k :
  (forall n, all_nodes (decl_keys m k) n -> all_nodes (decl_ok (phi_keys m k)) n) /\
  (forall ns, all_nodess (decl_keys m k) ns -> all_nodess (decl_ok (phi_keys m k)) ns).
Proof.
  apply all_nodes_impl. intros n. destruct n; cbn; auto.
  - intros H id Hn. cbn in *. split; [discriminate|]. intros _. auto.
  - intros H id Hn. cbn in *. congruence.
  - intros _ id Hn. cbn. split; [discriminate|]. discriminate.
Qed.

Theorem wrong_key_count m ix p :
  all_nodes (decl_keys m (nlen ix)) p ->
  all_nodess (decl_keys m (nlen ix)) ix ->
  occ anywhere (NIndexed ix (NId m)) p -> check p <> [].
Proof.
  intros Ha Hix Ho.
  assert (Hg : forall q gs keys key id i, re_caps q = Some gs -> In keys gs -> In key keys ->
               phi_keys m (nlen ix) {| sy_id := id; sy_name := key; sy_kind := KCapref; sy_arity := i |}).
  { intros ? ? ? ? ? ? _ _ _ _. cbn. split; discriminate. }
  apply (syms_reach (phi_keys m (nlen ix))) with (d := NIndexed ix (NId m)); auto.
  - intros s Hs. rewrite walk_eq. cbn [NameCheck.pre negb body].
    pose proof (syms_walks (phi_keys m (nlen ix)) Hg ix s (proj2 (decl_keys_ok m (nlen ix)) ix Hix) Hs) as Hs'.
    set (s' := walks ix s) in *. rewrite (walk_eq _ _ (NId m)). cbn [NameCheck.pre].
    destruct (resolve_id s' m) as [y|] eqn:Er.
    + cbn [negb body NameCheck.post].
      assert (resolve_id (mark_used s' y) m = Some y) as -> by exact Er.
      assert (phi_keys m (nlen ix) y /\ sy_name y = m /\ (sy_kind y = KVar \/ sy_kind y = KPattern)) as (Hy & Hn & Hk).
      { unfold resolve_id in Er. destruct Hs' as (A & _).
        destruct (lookup m KVar (scopes s')) as [z|] eqn:E1.
        - injection Er as <-. pose proof (lookup_phi _ _ _ _ _ A E1). apply lookup_in in E1 as (_ & ? & ?). auto.
        - pose proof (lookup_phi _ _ _ _ _ A Er). apply lookup_in in Er as (_ & ? & ?). auto. }
      destruct (Hy Hn) as [Hnp Har]. destruct Hk as [Hk|Hk]; [|contradiction].
      rewrite Hk. specialize (Har Hk).
      destruct (N.eqb_spec (sy_arity y) 0) as [E0|E0].
      * destruct (N.eqb_spec (nlen ix) 0) as [E1|E1]; [congruence|discriminate].
      * destruct (N.eqb_spec (sy_arity y) (nlen ix)); [contradiction|discriminate].
    + cbn [negb]. apply ne_post. discriminate.
  - apply (proj1 (decl_keys_ok m (nlen ix))), Ha.
Qed.

(* -- class: the same name declared twice in one block -- *)
Fixpoint napp (a b : nodes) : nodes :=
  match a with NNil => b | NCons n r => NCons n (napp r b) end.
Lemma walks_app a : forall b s, walks (napp a b) s = walks b (walks a s).
Proof. induction a as [|n r IH]; intros b s; cbn [napp]; [reflexivity|]. rewrite !walks_cons. apply IH. Qed.

(* a declaration without sub-blocks: a metric, or a constant given by one literal *)
Definition simple_decl (x : bytes) (n : node) : Prop :=
  (exists k, n = NVarDecl x k) \/ (exists q, n = NConst x (NPatLit q)).

Lemma simple_decl_top x n s :
  simple_decl x n -> errs (walk n s) <> [] \/ find_name x (top_scope (walk n s)) <> None.
Proof.
  intros [[k ->]|[q ->]]; rewrite walk_eq; cbn [NameCheck.pre].
  - unfold declare, insert. cbn [sy_name].
    destruct (find_name x (top_scope (set_nid s (nid s + 1)))) eqn:E; cbn [negb body NameCheck.post].
    + left. discriminate.
    + right. cbn. rewrite bytes_eqb_refl. discriminate.
  - unfold declare, insert. cbn [sy_name].
    destruct (find_name x (top_scope (set_nid s (nid s + 1)))) eqn:E; cbn [negb body].
    + left. discriminate.
    + right. rewrite walk_eq. cbn [NameCheck.pre negb body NameCheck.post pat_eval].
      destruct q; cbn; rewrite bytes_eqb_refl; cbn; try rewrite bytes_eqb_refl; discriminate.
Qed.

Lemma decl_again x n s :
  (exists k, n = NVarDecl x k) \/ (exists q, n = NConst x q) \/ (exists b, n = NDecoDecl x b) ->
  find_name x (top_scope s) <> None -> errs (walk n s) <> [].
Proof.
  intros H Hf.
  assert (forall k ar, snd (declare s x k ar) = false) as Hd.
  { intros k ar. unfold declare, insert. cbn [sy_name].
    change (top_scope (set_nid s (nid s + 1))) with (top_scope s).
    destruct (find_name x (top_scope s)); [reflexivity|congruence]. }
  destruct H as [[k ->]|[[q ->]|[b ->]]]; rewrite walk_eq; cbn [NameCheck.pre].
  - specialize (Hd KVar k). destruct (declare s x KVar k) as [s1 ok]. cbn in Hd. subst ok. cbn. discriminate.
  - specialize (Hd KPattern 0). destruct (declare s x KPattern 0) as [s1 ok]. cbn in Hd. subst ok. cbn. discriminate.
  - specialize (Hd KDeco 0). destruct (declare s x KDeco 0) as [s1 ok]. cbn in Hd. subst ok. cbn. discriminate.
Qed.

Theorem redeclared x d1 d2 before after p :
  simple_decl x d1 ->
  ((exists k, d2 = NVarDecl x k) \/ (exists q, d2 = NConst x q) \/ (exists b, d2 = NDecoDecl x b)) ->
  occ anywhere (NStmtList (napp before (NCons d1 (NCons d2 after)))) p -> check p <> [].
Proof.
  intros H1 H2. apply trivial_reach. intros s.
  rewrite walk_eq. cbn [NameCheck.pre negb body]. apply ne_post.
  rewrite walks_app, !walks_cons. apply ne_walks.
  destruct (simple_decl_top x d1 (walks before (push_scope s [])) H1) as [He|Hf].
  - apply ne_walk, He.
  - apply (decl_again x); assumption.
Qed.


(* -- class: `next` outside every decorator definition -- *)
Definition is_decl (n : node) : bool := match n with NDecoDecl _ _ => true | _ => false end.

Lemma decos_fold {A} (f : st -> A -> st) (l : list A) :
  (forall a x, decos (f a x) = decos a) -> forall s, decos (fold_left f l s) = decos s.
Proof.
  intros H. induction l as [|x l IH]; intros s; cbn; [reflexivity|]. rewrite IH. apply H.
Qed.

Lemma decos_add_groups gs : forall i s, decos (add_groups gs i s) = decos s.
Proof.
  induction gs as [|keys r IH]; intros i s; cbn [add_groups]; [reflexivity|].
  rewrite IH. rewrite decos_fold; [reflexivity|].
  intros a key. destruct (insert _ _); reflexivity.
Qed.

Lemma decos_post_pattern e s : decos (post_pattern re_caps max_re e s) = decos s.
Proof.
  unfold post_pattern. pose proof (same_pat_eval e s) as (_ & H & _).
  destruct (pat_eval e s) as [s1 p]. cbn in H. destruct p; [exact H|].
  unfold check_regex. destruct (max_re <? _); [exact H|].
  destruct (re_caps _); [|exact H]. destruct (nosym s1); [exact H|]. rewrite decos_add_groups. exact H.
Qed.

Lemma decos_declare s name k ar : decos (fst (declare s name k ar)) = decos s.
Proof. unfold declare. destruct (insert _ _); reflexivity. Qed.

Lemma pre_decos n s s1 go :
  NameCheck.pre n s = (s1, go) ->
  decos s1 = if go && is_decl n then [] :: decos s else decos s.
Proof.
  destruct n; cbn [NameCheck.pre is_decl]; rewrite ?andb_false_r;
    try (intros H; injection H as <- <-; reflexivity).
  - pose proof (decos_declare s name KVar nkeys) as H. destruct (declare s name KVar nkeys) as [s2 ok].
    cbn in H. destruct ok; intros E; injection E as <- <-; exact H.
  - pose proof (decos_declare s name KPattern 0) as H. destruct (declare s name KPattern 0) as [s2 ok].
    cbn in H. destruct ok; intros E; injection E as <- <-; exact H.
  - pose proof (decos_declare s name KDeco 0) as H. destruct (declare s name KDeco 0) as [s2 ok].
    cbn in H. destruct ok; intros E; injection E as <- <-; cbn; rewrite H; reflexivity.
  - destruct (lookup name KDeco (scopes s)); [destruct (assoc _ _)|]; intros E; injection E as <- <-; reflexivity.
  - destruct (resolve_id s name); intros E; injection E as <- <-; reflexivity.
  - destruct (lookup name KCapref (scopes s)); intros E; injection E as <- <-; reflexivity.
  - destruct f; intros E; injection E as <- <-; reflexivity.
Qed.

Lemma post_len n s :
  length (decos (post n s)) =
  if is_decl n then pred (length (decos s)) else length (decos s).
Proof.
  destruct n; cbn [NameCheck.post is_decl]; try reflexivity.
  - cbn. f_equal. apply (same_check_symtab s).
  - cbn. f_equal. apply (same_check_symtab s).
  - pose proof (same_pat_eval n s) as (_ & H & _). destruct (pat_eval n s) as [s1 pat]. cbn in H.
    destruct pat; [rewrite H; reflexivity|]. destruct (find_name _ _); cbn; rewrite H; reflexivity.
  - destruct (decos s) as [|d r] eqn:Ed; [rewrite Ed; reflexivity|].
    destruct (find_name _ _); destruct d; reflexivity.
  - destruct (decos s) as [|d r] eqn:Ed; [cbn; rewrite Ed; reflexivity|].
    destruct d; cbn; rewrite ?Ed; reflexivity.
  - destruct n; try reflexivity.
    destruct (resolve_id s name) as [y|]; [|reflexivity].
    destruct (sy_kind y);
      try (destruct (sy_arity y =? 0); [destruct (nlen ix =? 0)|destruct (sy_arity y =? nlen ix)]; reflexivity).
    rewrite decos_post_pattern. reflexivity.
  - destruct o; try reflexivity; destruct (is_zero_lit n2 && syn_int n1); reflexivity.
  - rewrite decos_post_pattern. reflexivity.
  - destruct f; reflexivity.
Qed.

Lemma len_walk_both :
  (forall n s, length (decos (walk n s)) = length (decos s)) /\
  (forall ns s, length (decos (walks ns s)) = length (decos s)).
Proof.
  apply node_nodes_ind; intros;
    try (rewrite walk_eq;
         match goal with |- context [NameCheck.pre ?n ?s] =>
           destruct (NameCheck.pre n s) as [s1 go] eqn:Ep; apply pre_decos in Ep;
           destruct go; cbn [negb andb is_decl] in *;
           [rewrite post_len; cbn [is_decl body]|rewrite Ep; reflexivity]
         end);
    try (rewrite Ep; reflexivity);
    try (repeat match goal with H : forall s, length (decos _) = _ |- _ => rewrite H; clear H end;
         rewrite Ep; reflexivity).
  - reflexivity.
  - rewrite walks_cons, H0, H. reflexivity.
Qed.

Definition no_pending (s : st) : Prop := decos s = [].
Definition not_decl (n : node) : Prop := is_decl n = false.

Theorem next_outside p : occ not_decl NNext p -> check p <> [].
Proof.
  intros Ho.
  apply (reach re_caps max_re no_pending anywhere not_decl NNext); unfold no_pending, anywhere; auto.
  - intros n s _ H. pose proof (proj1 len_walk_both n s) as L. rewrite H in L.
    destruct (decos (walk n s)); [reflexivity|discriminate].
  - intros ns s _ H. pose proof (proj2 len_walk_both ns s) as L. rewrite H in L.
    destruct (decos (walks ns s)); [reflexivity|discriminate].
  - intros n s s1 Hn _ H E. apply pre_decos in E. unfold not_decl in Hn. rewrite Hn, andb_false_r in E. congruence.
  - intros s H. rewrite walk_eq. cbn [NameCheck.pre negb body NameCheck.post]. rewrite H. discriminate.
  - clear. induction p using node_ind2 with (P0 := fun ns => all_nodess (fun _ => True) ns); cbn; auto.
Qed.


(* ---- scopes are a stack: walking a node leaves the enclosing scopes in place
        and only adds symbols to the current one ---- *)
Definition grow (s s' : st) : Prop :=
  forall top rest, scopes s = top :: rest -> exists ext, scopes s' = (ext ++ top) :: rest.
Lemma grow_refl s : grow s s.
Proof. intros top rest H. exists []. exact H. Qed.
Lemma grow_same s s' : scopes s' = scopes s -> grow s s'.
Proof. intros E top rest H. exists []. rewrite E. exact H. Qed.
Lemma grow_trans a b c : grow a b -> grow b c -> grow a c.
Proof.
  intros H1 H2 top rest H. destruct (H1 _ _ H) as [e1 E1]. destruct (H2 _ _ E1) as [e2 E2].
  exists (e2 ++ e1). rewrite E2, app_assoc. reflexivity.
Qed.
Lemma grow_fold {A} (f : st -> A -> st) (l : list A) :
  (forall a x, grow a (f a x)) -> forall s, grow s (fold_left f l s).
Proof.
  intros H. induction l as [|x l IH]; intros s; cbn; [apply grow_refl|].
  eapply grow_trans; [apply H|apply IH].
Qed.

Lemma grow_set_top s y : grow s (set_top s (y :: top_scope s)).
Proof. intros top rest H. exists [y]. unfold set_top, top_scope. cbn. rewrite H. reflexivity. Qed.

Lemma grow_declare s name k ar : grow s (fst (declare s name k ar)).
Proof.
  unfold declare, insert. destruct (find_name _ _); cbn [fst]; [apply grow_same; reflexivity|].
  intros top rest H. exists [{| sy_id := nid s; sy_name := name; sy_kind := k; sy_arity := ar |}].
  unfold set_top, top_scope. cbn. rewrite H. reflexivity.
Qed.

Lemma grow_add_groups gs : forall i s, grow s (add_groups gs i s).
Proof.
  induction gs as [|keys r IH]; intros i s; cbn [add_groups]; [apply grow_refl|].
  eapply grow_trans; [|apply IH].
  apply (grow_trans _ (set_nid s (nid s + 1))); [apply grow_same; reflexivity|]. apply grow_fold.
  intros a key. unfold insert. destruct (find_name _ _); [apply grow_same; reflexivity|].
  apply grow_set_top.
Qed.

Lemma grow_post_pattern e s : grow s (post_pattern re_caps max_re e s).
Proof.
  unfold post_pattern. pose proof (same_pat_eval e s) as (H & _).
  destruct (pat_eval e s) as [s1 p]. cbn in H. destruct p; [apply grow_same, H|].
  eapply grow_trans; [apply grow_same, H|].
  unfold check_regex. destruct (max_re <? _); [apply grow_same; reflexivity|].
  destruct (re_caps _); [|apply grow_same; reflexivity].
  destruct (nosym s1); [apply grow_refl|apply grow_add_groups].
Qed.

Definition is_push (n : node) : bool :=
  match n with NStmtList _ | NCond _ _ _ | NDecoStmt _ _ => true | _ => false end.

Lemma pre_scopes n s s1 go :
  NameCheck.pre n s = (s1, go) ->
  if go && is_push n then exists new, scopes s1 = new :: scopes s else grow s s1.
Proof.
  destruct n; cbn [NameCheck.pre is_push]; rewrite ?andb_false_r, ?andb_true_r;
    try (intros H; injection H as <- <-; try apply grow_refl; try (apply grow_same; reflexivity); fail).
  - intros H; injection H as <- <-. exists []. reflexivity.
  - intros H; injection H as <- <-. exists []. reflexivity.
  - pose proof (grow_declare s name KVar nkeys) as H. destruct (declare s name KVar nkeys) as [s2 ok].
    cbn in H. destruct ok; intros E; injection E as <- <-; [exact H|].
    eapply grow_trans; [exact H|apply grow_same; reflexivity].
  - pose proof (grow_declare s name KPattern 0) as H. destruct (declare s name KPattern 0) as [s2 ok].
    cbn in H. destruct ok; intros E; injection E as <- <-; [exact H|].
    eapply grow_trans; [exact H|apply grow_same; reflexivity].
  - pose proof (grow_declare s name KDeco 0) as H. destruct (declare s name KDeco 0) as [s2 ok].
    cbn in H. destruct ok; intros E; injection E as <- <-;
      (eapply grow_trans; [exact H|apply grow_same; reflexivity]).
  - destruct (lookup name KDeco (scopes s)); [destruct (assoc _ _)|]; intros E; injection E as <- <-; cbn.
    + eexists. reflexivity.
    + apply grow_same. reflexivity.
    + apply grow_same. reflexivity.
  - destruct (resolve_id s name); intros E; injection E as <- <-; apply grow_same; reflexivity.
  - destruct (lookup name KCapref (scopes s)); intros E; injection E as <- <-; apply grow_same; reflexivity.
  - destruct f; intros E; injection E as <- <-; try apply grow_refl. apply grow_same. reflexivity.
Qed.

Lemma post_scopes n s :
  if is_push n then scopes (post n s) = tl (scopes s) else grow s (post n s).
Proof.
  destruct n; cbn [NameCheck.post is_push]; try apply grow_refl.
  - cbn. f_equal. apply (same_check_symtab s).
  - cbn. f_equal. apply (same_check_symtab s).
  - pose proof (same_pat_eval n s) as (H & _). destruct (pat_eval n s) as [s1 pat]. cbn in H.
    destruct pat; [apply grow_same, H|]. destruct (find_name _ _); apply grow_same; cbn; exact H.
  - destruct (decos s) as [|d r]; [apply grow_refl|].
    destruct (find_name _ _); destruct d; apply grow_same; reflexivity.
  - reflexivity.
  - destruct (decos s) as [|d r]; [apply grow_same; reflexivity|].
    destruct d; apply grow_same; reflexivity.
  - destruct n; try apply grow_refl.
    destruct (resolve_id s name) as [y|]; [|apply grow_refl].
    destruct (sy_kind y);
      try (destruct (sy_arity y =? 0); [destruct (nlen ix =? 0)|destruct (sy_arity y =? nlen ix)];
           apply grow_same; reflexivity).
    eapply grow_trans; [|apply grow_post_pattern]. apply grow_same. reflexivity.
  - destruct o; try apply grow_refl; destruct (is_zero_lit n2 && syn_int n1); apply grow_same; reflexivity.
  - apply grow_post_pattern.
  - destruct f; try apply grow_refl. apply grow_same. reflexivity.
Qed.

Lemma grow_walk_both :
  (forall n s, grow s (walk n s)) /\ (forall ns s, grow s (walks ns s)).
Proof.
  apply node_nodes_ind; intros;
    try (rewrite walk_eq;
         match goal with |- context [NameCheck.pre ?n ?s] =>
           destruct (NameCheck.pre n s) as [s1 go] eqn:Ep; apply pre_scopes in Ep;
           pose proof (post_scopes n (body re_caps max_re n s1)) as Hq;
           destruct go; cbn [negb andb is_push] in *; [cbn [body] in *|try exact Ep]
         end);
    try apply grow_refl;
    try (eapply grow_trans; [exact Ep|]; eapply grow_trans; [|exact Hq]; eauto using grow_trans, grow_refl; fail).
  all: try (rewrite walks_cons; eauto using grow_trans; fail).
  all: destruct Ep as [new En]; intros top rest Hs;
       match type of Hq with scopes _ = tl (scopes ?b) =>
         assert (grow s1 b) as G by eauto 6 using grow_trans, grow_refl end;
       destruct (G new (scopes s) En) as [ext Ee]; exists []; rewrite Hq, Ee; cbn; exact Hs.
Qed.
Definition grow_walk := proj1 grow_walk_both.
Definition grow_walks := proj2 grow_walk_both.

Lemma find_name_app_some x ext top : find_name x top <> None -> find_name x (ext ++ top) <> None.
Proof.
  intros H. induction ext as [|y r IH]; cbn; [exact H|]. destruct (bytes_eqb (sy_name y) x); [discriminate|exact IH].
Qed.

Lemma in_find_name x y sc : In y sc -> sy_name y = x -> find_name x sc <> None.
Proof.
  induction sc as [|z r IH]; cbn; [tauto|]. intros [->|Hi] Hn.
  - rewrite Hn, bytes_eqb_refl. discriminate.
  - destruct (bytes_eqb (sy_name z) x); [discriminate|auto].
Qed.

(* a declaration of the name x with kind k *)
Inductive declares (x : bytes) : kind -> node -> Prop :=
| decl_var a : declares x KVar (NVarDecl x a)
| decl_const q : declares x KPattern (NConst x q)
| decl_deco b : declares x KDeco (NDecoDecl x b).

Lemma declare_sym s x k ar top rest :
  scopes s = top :: rest ->
  let r := declare s x k ar in
  (snd r = false /\ find_name x top <> None) \/
  (snd r = true /\ exists y, scopes (fst r) = (y :: top) :: rest /\ sy_name y = x /\ sy_kind y = k).
Proof.
  intros Hs. unfold declare, insert. cbn [sy_name].
  change (top_scope (set_nid s (nid s + 1))) with (top_scope s). unfold top_scope. rewrite Hs. cbn [hd].
  destruct (find_name x top) eqn:E; cbn.
  - left. split; [reflexivity|discriminate].
  - right. split; [reflexivity|]. eexists. split; [unfold set_top; cbn; rewrite Hs; reflexivity|]. split; reflexivity.
Qed.

Lemma decl_sym x k d s top rest :
  declares x k d -> scopes s = top :: rest ->
  errs (walk d s) <> [] \/
  exists y ext, scopes (walk d s) = (ext ++ y :: top) :: rest /\ sy_name y = x /\ sy_kind y = k.
Proof.
  intros Hd Hs. destruct Hd; rewrite walk_eq; cbn [NameCheck.pre].
  - destruct (declare_sym s x KVar a top rest Hs) as [[Hf _]|[Ht (y & Hy & Hn & Hk)]];
      destruct (declare s x KVar a) as [s1 ok]; cbn [fst snd] in *; subst ok; cbn [negb].
    + left. discriminate.
    + right. exists y, []. cbn. auto.
  - destruct (declare_sym s x KPattern 0 top rest Hs) as [[Hf _]|[Ht (y & Hy & Hn & Hk)]];
      destruct (declare s x KPattern 0) as [s1 ok]; cbn [fst snd] in *; subst ok; cbn [negb body].
    + left. discriminate.
    + right. destruct (grow_walk q s1 _ _ Hy) as [ext He].
      pose proof (post_scopes (NConst x q) (walk q s1)) as Hq. cbn [is_push] in Hq.
      destruct (Hq _ _ He) as [ext2 He2]. exists y, (ext2 ++ ext). rewrite He2, <- app_assoc. auto.
  - destruct (declare_sym s x KDeco 0 top rest Hs) as [[Hf _]|[Ht (y & Hy & Hn & Hk)]];
      destruct (declare s x KDeco 0) as [s1 ok]; cbn [fst snd] in *; subst ok; cbn [negb body].
    + left. discriminate.
    + right.
      assert (scopes (set_decos s1 ([] :: decos s1)) = (y :: top) :: rest) as Hy' by exact Hy.
      destruct (grow_walk b _ _ _ Hy') as [ext He].
      pose proof (post_scopes (NDecoDecl x b) (walk b (set_decos s1 ([] :: decos s1)))) as Hq. cbn [is_push] in Hq.
      destruct (Hq _ _ He) as [ext2 He2]. exists y, (ext2 ++ ext). rewrite He2, <- app_assoc. auto.
Qed.

Lemma decl_again_gen x k d s :
  declares x k d -> find_name x (top_scope s) <> None -> errs (walk d s) <> [].
Proof.
  intros Hd. apply (decl_again x). destruct Hd; eauto.
Qed.

(* -- class: the same name declared twice in one block, anything in between -- *)
Theorem redeclared_gen x k1 k2 d1 d2 before mid after p :
  declares x k1 d1 -> declares x k2 d2 ->
  occ anywhere (NStmtList (napp before (NCons d1 (napp mid (NCons d2 after))))) p -> check p <> [].
Proof.
  intros H1 H2. apply trivial_reach. intros s.
  rewrite walk_eq. cbn [NameCheck.pre negb body]. apply ne_post.
  rewrite walks_app, walks_cons, walks_app, walks_cons. apply ne_walks.
  set (s0 := walks before (push_scope s [])).
  assert (exists top rest, scopes s0 = top :: rest) as (top & rest & Hs0).
  { destruct (grow_walks before (push_scope s []) [] (scopes s) eq_refl) as [ext He]. eauto. }
  destruct (decl_sym x k1 d1 s0 top rest H1 Hs0) as [He|(y & ext & Hy & Hn & _)].
  - apply ne_walk, ne_walks, He.
  - destruct (grow_walks mid _ _ _ Hy) as [ext2 He2].
    apply (decl_again_gen x k2); [exact H2|].
    unfold top_scope. rewrite He2. cbn [hd]. rewrite app_assoc.
    apply find_name_app_some. cbn. rewrite Hn, bytes_eqb_refl. discriminate.
Qed.


(* -- class: a declaration whose name is used nowhere -- *)
Section Unused.
Variable x : bytes.
Variable k : kind.
Hypothesis k_decl : k <> KCapref.

Definition psi (u : sym) : Prop := ~ (sy_name u = x /\ sy_kind u = k).
Definition used_ok (s : st) : Prop := Forall psi (used s).

(* the name x is used nowhere: no identifier, no indexed name, no decoration *)
Definition no_use (n : node) : Prop :=
  match n with
  | NId m => m <> x
  | NIndexed _ (NId m) => m <> x
  | NDecoStmt m _ => m <> x
  | _ => True
  end.

Lemma used_fold {A} (f : st -> A -> st) (l : list A) :
  (forall a y, used (f a y) = used a) -> forall s, used (fold_left f l s) = used s.
Proof.
  intros H. induction l as [|y l IH]; intros s; cbn; [reflexivity|]. rewrite IH. apply H.
Qed.
Lemma used_check_symtab s : used (check_symtab s) = used s.
Proof.
  unfold check_symtab. apply used_fold. intros a y.
  destruct (is_used s y); [reflexivity|]. destruct (sy_kind y); reflexivity.
Qed.
Lemma used_pat_eval e : forall s0, used (fst (pat_eval e s0)) = used s0.
Proof.
  induction e using node_ind2 with (P0 := fun _ => True); try (intros; exact I); intros s0; cbn [pat_eval]; try reflexivity; auto.
  - destruct (resolve_id s0 name) as [y|]; [|reflexivity].
    destruct (sy_kind y); cbn; try reflexivity. destruct (assoc _ _); reflexivity.
  - destruct o; cbn; try reflexivity.
    specialize (IHe1 s0). destruct (pat_eval e1 s0) as [s1 a]. cbn in IHe1.
    specialize (IHe2 s1). destruct (pat_eval e2 s1) as [s2 b]. cbn in *. congruence.
Qed.
Lemma used_add_groups gs : forall i s, used (add_groups gs i s) = used s.
Proof.
  induction gs as [|keys r IH]; intros i s; cbn [add_groups]; [reflexivity|].
  rewrite IH. rewrite used_fold; [reflexivity|].
  intros a key. destruct (insert _ _); reflexivity.
Qed.
Lemma used_post_pattern e s : used (post_pattern re_caps max_re e s) = used s.
Proof.
  unfold post_pattern. pose proof (used_pat_eval e s) as H.
  destruct (pat_eval e s) as [s1 p]. cbn in H. destruct p; [exact H|].
  unfold check_regex. destruct (max_re <? _); [exact H|].
  destruct (re_caps _); [|exact H]. destruct (nosym s1); [exact H|]. rewrite used_add_groups. exact H.
Qed.
Lemma used_declare s name kk ar : used (fst (declare s name kk ar)) = used s.
Proof. unfold declare. destruct (insert _ _); reflexivity. Qed.

Lemma resolve_name s m y : resolve_id s m = Some y -> sy_name y = m.
Proof.
  unfold resolve_id. destruct (lookup m KVar (scopes s)) eqn:E.
  - intros H. injection H as <-. apply (lookup_in _ _ _ _ E).
  - intros H. apply (lookup_in _ _ _ _ H).
Qed.

Lemma used_pre n s : no_use n -> used_ok s -> used_ok (fst (NameCheck.pre n s)).
Proof.
  intros Hn Hs. destruct n; cbn [NameCheck.pre]; try exact Hs.
  - pose proof (used_declare s name KVar nkeys) as H. destruct (declare s name KVar nkeys) as [s1 ok].
    cbn in H. unfold used_ok. destruct ok; cbn; rewrite H; exact Hs.
  - pose proof (used_declare s name KPattern 0) as H. destruct (declare s name KPattern 0) as [s1 ok].
    cbn in H. unfold used_ok. destruct ok; cbn; rewrite H; exact Hs.
  - pose proof (used_declare s name KDeco 0) as H. destruct (declare s name KDeco 0) as [s1 ok].
    cbn in H. unfold used_ok. destruct ok; cbn; rewrite H; exact Hs.
  - destruct (lookup name KDeco (scopes s)) as [y|] eqn:E; cbn; [|exact Hs].
    assert (used_ok (mark_used s y)) as Hm.
    { constructor; [|exact Hs]. intros [Hx _]. cbn in Hn.
      destruct (lookup_in _ _ _ _ E) as (_ & Hy & _). congruence. }
    destruct (assoc _ _); cbn; exact Hm.
  - destruct (resolve_id s name) as [y|] eqn:E; cbn; [|exact Hs].
    constructor; [|exact Hs]. intros [Hx _]. apply resolve_name in E. cbn in Hn. congruence.
  - destruct (lookup name KCapref (scopes s)) as [y|] eqn:E; cbn; [|exact Hs].
    constructor; [|exact Hs]. intros [_ Hk]. destruct (lookup_in _ _ _ _ E) as (_ & _ & Hy). congruence.
  - destruct f; cbn; exact Hs.
Qed.

Lemma used_post n s : no_use n -> used_ok s -> used_ok (post n s).
Proof.
  intros Hn Hs. unfold used_ok in *. destruct n; cbn [NameCheck.post]; try exact Hs.
  - cbn. rewrite used_check_symtab. exact Hs.
  - cbn. rewrite used_check_symtab. exact Hs.
  - pose proof (used_pat_eval n s) as H. destruct (pat_eval n s) as [s1 pat]. cbn in H.
    destruct pat; [rewrite H; exact Hs|]. destruct (find_name _ _); cbn; rewrite H; exact Hs.
  - destruct (decos s) as [|d r]; [exact Hs|].
    destruct (find_name _ _); destruct d; exact Hs.
  - destruct (decos s) as [|d r]; [exact Hs|]. destruct d; exact Hs.
  - destruct n; try exact Hs.
    destruct (resolve_id s name) as [y|] eqn:E; [|exact Hs].
    destruct (sy_kind y);
      try (destruct (sy_arity y =? 0); [destruct (nlen ix =? 0)|destruct (sy_arity y =? nlen ix)]; exact Hs).
    rewrite used_post_pattern. cbn. constructor; [|exact Hs].
    intros [Hx _]. apply resolve_name in E. cbn in Hn. congruence.
  - destruct o; try exact Hs; destruct (is_zero_lit n2 && syn_int n1); exact Hs.
  - rewrite used_post_pattern. exact Hs.
  - destruct f; exact Hs.
Qed.

Lemma used_walks ns s : all_nodess no_use ns -> used_ok s -> used_ok (walks ns s).
Proof. apply (proj2 (inv_walk_both re_caps max_re used_ok no_use used_pre used_post)). Qed.
Lemma used_walk n s : all_nodes no_use n -> used_ok s -> used_ok (walk n s).
Proof. apply (proj1 (inv_walk_both re_caps max_re used_ok no_use used_pre used_post)). Qed.

Lemma check_symtab_err s y :
  In y (top_scope s) -> is_used s y = false -> sy_kind y <> KCapref -> errs (check_symtab s) <> [].
Proof.
  intros Hi Hu Hk. unfold check_symtab.
  assert (forall l a, (errs a <> [] \/ In y l) ->
            errs (fold_left (fun a y0 => if is_used s y0 then a
                                         else match sy_kind y0 with KCapref => a | _ => add_err a EUnused end) l a) <> []) as H.
  { induction l as [|z l IH]; intros a [Ha|Hin]; cbn.
    - exact Ha.
    - destruct Hin.
    - apply IH. left. destruct (is_used s z); [exact Ha|]. destruct (sy_kind z); try exact Ha; discriminate.
    - destruct Hin as [->|Hin].
      + apply IH. left. rewrite Hu. destruct (sy_kind y); try discriminate. congruence.
      + apply IH. right. exact Hin. }
  apply H. right. exact Hi.
Qed.

Lemma not_used s y : used_ok s -> sy_name y = x -> sy_kind y = k -> is_used s y = false.
Proof.
  intros Hs Hn Hk. unfold is_used. destruct (existsb (sym_eqb y) (used s)) eqn:E; [|reflexivity].
  apply existsb_exists in E as (u & Hu & He). exfalso.
  unfold used_ok in Hs. rewrite Forall_forall in Hs. apply (Hs u Hu).
  unfold sym_eqb in He. apply andb_true_iff in He as [He Hk']. apply andb_true_iff in He as [_ Hn'].
  apply bytes_eqb_spec in Hn'. split; [congruence|].
  destruct (sy_kind y), (sy_kind u); try discriminate; congruence.
Qed.

Theorem unused_decl d before after p :
  declares x k d ->
  all_nodes no_use p ->
  all_nodess no_use (napp before (NCons d after)) ->
  occ anywhere (NStmtList (napp before (NCons d after))) p -> check p <> [].
Proof.
  intros Hd Ha Hcs Ho.
  apply (reach re_caps max_re used_ok no_use anywhere (NStmtList (napp before (NCons d after))));
    auto using used_walk, used_walks.
  - intros n s s1 _ Hn Hs E. pose proof (used_pre n s Hn Hs) as H. rewrite E in H. exact H.
  - intros s Hs. rewrite walk_eq. cbn [NameCheck.pre negb body NameCheck.post].
    set (s0 := push_scope s []).
    assert (used_ok s0) as Hs0 by exact Hs.
    pose proof (used_walks _ s0 Hcs Hs0) as Hend.
    rewrite walks_app, walks_cons in *.
    set (s1 := walks before s0) in *.
    assert (exists top rest, scopes s1 = top :: rest) as (top & rest & Ht).
    { destruct (grow_walks before s0 [] (scopes s) eq_refl) as [ext He]. eauto. }
    destruct (decl_sym x k d s1 top rest Hd Ht) as [He|(y & ext & Hy & Hn & Hk)].
    + apply le_ne with (s := walk d s1); [|exact He].
      eapply le_trans; [apply le_walks|]. eapply le_trans; [apply le_check_symtab|]. apply le_same. reflexivity.
    + destruct (grow_walks after _ _ _ Hy) as [ext2 He2].
      set (s2 := walks after (walk d s1)) in *.
      assert (errs (check_symtab s2) <> []) as Hc.
      { apply (check_symtab_err s2 y).
        - unfold top_scope. rewrite He2. cbn [hd]. apply in_or_app. right. apply in_or_app. right. left. reflexivity.
        - apply not_used; assumption.
        - congruence. }
      exact Hc.
  - repeat split; constructor.
Qed.

End Unused.

End Defects.
