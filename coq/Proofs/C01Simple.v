(* Stage (c)/(d) of C01: the block-free statements against the VM's store. *)
From V Require Import Lang.RefSem Lang.Codegen Lang.Vm Lang.Observe Lang.Wt Proofs.C01Sim Proofs.C01Expr Proofs.C01Flags.
From V Require Import Proofs.C01Store Proofs.C01Gen Proofs.C01Cases Proofs.C01Stmt Proofs.C01Pure.
From Coq Require Import Lia.
Local Open Scope Z_scope.

Section Simple.
Variable E : env.
Variable decls : list mdecl.
Variable file line : bytes.
Variable o : object.
Hypothesis Hmets : o_metrics o = map mdesc_of decls.

Notation ll := (mklogline file line).
Notation step := (Vm.step E o ll).
Notation nsteps := (C01Sim.nsteps E o ll).
Notation eval := (RefSem.eval E decls file line).
Notation eval_keys := (RefSem.eval_keys E decls file line).
Notation cexpr := (Codegen.cexpr decls).
Notation cexprs := (Codegen.cexprs decls).
Notation cstmt := (Codegen.cstmt decls).
Notation rbind := RefSem.bind.
Notation etype := (Wt.etype decls (o_strs o) (o_nre o)).
Notation keys_ok := (Wt.keys_ok decls (o_strs o) (o_nre o)).
Notation rel := (C01Gen.rel E decls).
Notation ssim := (C01Stmt.ssim E decls file line o).
Notation run_post := (C01Stmt.run_post E decls file line o).
Notation exec_simple := (RefSem.exec_simple E decls file line).
Notation gexec_stmt := (RefSem.gexec_stmt E decls file line).
Notation mty := (RefSem.mty decls).

(* a simple statement: its result decides the run, the flag is kept *)
Lemma ssim_simple s :
  simple s = true ->
  (forall pc stk g ms tm rs vs, at_pc o pc (cstmt pc s) -> rel rs ms tm vs ->
     run_post (length (cstmt pc s)) pc stk g ms tm vs (rbind (exec_simple s rs) (fun _ s1 => ROk g s1))) ->
  ssim s.
Proof.
  intros Hs H pc stk g ms tm rs vs Hat Hrel. rewrite (gexec_simple_eq E decls file line s g rs Hs). apply H; auto.
Qed.

Lemma ssim_stop : ssim SStop.
Proof.
  apply ssim_simple; [reflexivity|]. intros pc stk g ms tm rs vs Hat Hrel. cbn.
  exists 0%nat, (mkthread pc stk g ms tm), vs. split; [lia|]. split; [reflexivity|].
  split; [|destruct Hrel; auto].
  unfold Vm.step. cbn [t_pc]. rewrite (at_pc_head _ _ _ _ Hat). reflexivity.
Qed.

Lemma ssim_settime e : Wt.opt_ty_is (etype e) TInt = true -> i64 e = true -> ssim (SSettime e).
Proof.
  intros Ht Hi. apply ssim_simple; [reflexivity|]. intros pc stk g ms tm rs vs Hat Hrel.
  change (cstmt pc (SSettime e)) with (cexpr pc e ++ [ins Settime (OInt 1)]) in *.
  apply at_pc_app in Hat as [Hat1 Hat2]. rewrite app_length. cbn [length].
  pose proof (proj1 (esim_all E decls file line o Hmets) e TInt (opt_is _ _ Ht) pc stk g ms tm rs vs Hat1 Hrel) as H.
  cbn [RefSem.exec_simple].
  destruct (eval e rs) as [v rs1|[|x] rs1]; cbn [RefSem.bind]; [| contradiction | ].
  2:{ destruct H as (n & t1 & e' & vs' & Hn & Hst & Hx). cbn. exists n, t1, e', vs'. split; [lia|]. auto. }
  destruct H as (Hv & stk' & ms1 & vs1 & n & (w & [Hw Hinj] & ->) & Hn & Hst & Hrel1 & _).
  apply vty_int in Hv as [z ->]. rewrite (Hinj Hi) in *. cbn [inj RefSem.bind run_post].
  exists stk, ms1, (z, 0), vs1, (n + 1)%nat. split; [lia|]. split.
  - eapply nsteps_snoc; [exact Hst|]. replace (pc + (length (cexpr pc e) + 1))%nat with (S (pc + length (cexpr pc e))) by lia.
    eapply step_next; [exact (at_pc_head _ _ _ _ Hat2) | reflexivity].
  - destruct Hrel1 as [Hm Htm Hs Hmm]. constructor; cbn; auto.
Qed.

Lemma wt_lval m ks :
  metric_ok decls m (exprs_len ks) = true -> keys_ok ks = true -> ksim E decls file line o ks.
Proof. intros _ Hk. exact (proj2 (esim_all E decls file line o Hmets) ks Hk). Qed.

(* ++ and -- *)
Lemma ssim_incdec (dec : bool) m ks :
  metric_ok decls m (exprs_len ks) = true -> keys_ok ks = true -> ty_eqb (wmty decls m) TInt = true ->
  ssim (if dec then SDec m ks else SInc m ks).
Proof.
  intros Hmok Hk Hty.
  assert (Hmt : mty m = TInt) by (change (mty m) with (wmty decls m); destruct (wmty decls m); cbn in Hty; congruence).
  apply ssim_simple; [destruct dec; reflexivity|]. intros pc stk g ms tm rs vs Hat Hrel.
  set (i := if dec then ins Dec ONil else ins Inc ONil).
  assert (Hc : forall pc, cstmt pc (if dec then SDec m ks else SInc m ks) = clval decls pc m ks ++ [i]) by (intros; destruct dec; reflexivity).
  rewrite Hc in *. apply at_pc_app in Hat as [Hat1 Hat2]. rewrite app_length. cbn [length].
  pose proof (sim_lval E decls file line o Hmets m ks Hmok (wt_lval m ks Hmok Hk) pc stk g ms tm rs vs Hat1 Hrel) as H.
  assert (He : exec_simple (if dec then SDec m ks else SInc m ks) rs =
               rbind (target E decls file line m ks rs) (fun kv s1 =>
                 match snd kv with
                 | RInt z => ROk tt (RefSem.write m (fst kv) (RInt (if dec then i_sub z 1 else i_add z 1)) s1)
                 | _ => RefSem.fail REType s1
                 end)) by (destruct dec; reflexivity).
  rewrite He. clear He.
  destruct (target E decls file line m ks rs) as [[keys v] rs1|[|x] rs1]; cbn [RefSem.bind]; [| contradiction | ].
  2:{ destruct H as (n & t1 & e' & vs' & Hn & Hst & Hx). cbn. exists n, t1, e', vs'. split; [lia|]. auto. }
  destruct H as (p & ms1 & vs1 & n & Hn & Hst & Hrel1 & _ & Hpts & c & Hcp & Hcv & Hvt). cbn [fst snd] in *.
  rewrite Hmt in Hvt. apply vty_int in Hvt as [z ->]. cbn [RefSem.bind run_post].
  set (z' := if dec then i_sub z 1 else i_add z 1).
  set (c' := mkdcell (DInt z') (Vm.stamp tm)).
  exists (VI64 z' :: stk), ms1, tm,
    (Vm.with_store vs1 (mkstore (list_set (s_heap (vs_store vs1)) p c') (s_mets (vs_store vs1)))), (n + 1)%nat.
  split; [lia|]. split.
  - eapply nsteps_snoc; [exact Hst|].
    replace (pc + (length (clval decls pc m ks) + 1))%nat with (S (pc + length (clval decls pc m ks))) by lia.
    eapply step_next; [exact (at_pc_head _ _ _ _ Hat2)|].
    assert (Hup : forall d, (d = 1 /\ dec = false) \/ (d = wrap64 (-1) /\ dec = true) ->
              heap_upd (vs_store vs1) p (cell_inc d tm) =
              Ok (mkstore (list_set (s_heap (vs_store vs1)) p c') (s_mets (vs_store vs1)))).
    { intros d Hd. eapply heap_upd_ok; [exact Hcp|]. unfold cell_inc. rewrite Hcv. cbn [dval_of]. unfold c', z'.
      destruct Hd as [[-> ->] | [-> ->]]; [reflexivity|].
      unfold i_sub. replace (wrap64 (-1)) with (-1) by reflexivity. replace (z + -1) with (z - 1) by lia. reflexivity. }
    unfold i. destruct dec; cbn -[wrap64].
    + rewrite (Hup (wrap64 (-1))) by auto. cbn. unfold datum_int. cbn [s_heap].
      rewrite nth_error_list_set_same by (apply nth_error_Some; congruence). reflexivity.
    + rewrite (Hup 1) by auto. cbn. unfold datum_int. cbn [s_heap].
      rewrite nth_error_list_set_same by (apply nth_error_Some; congruence). reflexivity.
  - apply (rel_write E decls rs1 ms1 tm vs1 m keys p (RInt z')); [exact Hrel1 | exact Hpts | rewrite Hmt; reflexivity].
Qed.

Lemma mty_nb m n : metric_ok decls m n = true -> mty m <> TBool.
Proof.
  unfold metric_ok, RefSem.mty. destruct (nth_error decls (N.to_nat m)); [|discriminate].
  intros H. apply andb_prop in H as [_ H]. destruct (md_ty m0); cbn in H; congruence.
Qed.

(* the value v (related to w) stored through the pointer p *)
Lemma exec_set t v w p c pc' stk g ms tm vs :
  t <> TBool -> vty v = t -> vrel v w ->
  nth_error (s_heap (vs_store vs)) p = Some c -> dval_type (d_val c) = mtype_of t ->
  exec E o ll (ins (set_op t) ONil) (mkthread pc' (w :: VDatum p :: stk) g ms tm) vs =
  Ok (XNext (mkthread pc' stk g ms tm)
        (Vm.with_store vs (mkstore (list_set (s_heap (vs_store vs)) p (mkdcell (dval_of v) (Vm.stamp tm)))
                                   (s_mets (vs_store vs))))).
Proof.
  intros Hnb Hv Hw Hc Hct. destruct t; try congruence.
  - apply vty_int in Hv as [z ->]. destruct (d_val c) eqn:Hd; cbn in Hct; try discriminate.
    inversion Hw; subst; cbn; unfold heap_upd; rewrite Hc; unfold cell_set_int; rewrite Hd; reflexivity.
  - apply vty_float in Hv as [z ->]. destruct (d_val c) eqn:Hd; cbn in Hct; try discriminate.
    inversion Hw; subst; cbn; unfold heap_upd; rewrite Hc; unfold cell_set_float; rewrite Hd; reflexivity.
  - apply vty_str in Hv as [z ->]. destruct (d_val c) eqn:Hd; cbn in Hct; try discriminate.
    inversion Hw; subst; cbn; unfold heap_upd; rewrite Hc; unfold cell_set_str; rewrite Hd; reflexivity.
Qed.

Lemma cell_type_of d t : vty (rd_val d) = t -> t <> TBool -> dval_type (d_val (cell_of d)) = mtype_of t.
Proof. destruct d as [l v tt e]. cbn. destruct v, t; cbn; congruence. Qed.

Lemma ssim_set t m ks e :
  metric_ok decls m (exprs_len ks) = true -> keys_ok ks = true -> ty_eqb (wmty decls m) t = true ->
  Wt.opt_ty_is (etype e) t = true -> ssim (SSet t m ks e).
Proof.
  intros Hmok Hk Hty Hte.
  assert (Hmt : mty m = t) by (change (mty m) with (wmty decls m); destruct (wmty decls m), t; cbn in Hty; congruence).
  pose proof (mty_nb _ _ Hmok) as Hnb. rewrite Hmt in Hnb.
  apply ssim_simple; [reflexivity|]. intros pc stk g ms tm rs vs Hat Hrel.
  change (cstmt pc (SSet t m ks e)) with
    (clval decls pc m ks ++ cexpr (pc + length (clval decls pc m ks)) e ++ [ins (set_op t) ONil]) in *.
  apply at_pc_app in Hat as [Hat1 Hat2]. apply at_pc_app in Hat2 as [Hat2 Hat3].
  set (L1 := length (clval decls pc m ks)) in *. set (L2 := length (cexpr (pc + L1) e)) in *.
  replace (length (clval decls pc m ks ++ cexpr (pc + L1) e ++ [ins (set_op t) ONil])) with (L1 + L2 + 1)%nat
    by (rewrite !app_length; cbn; lia).
  pose proof (sim_lval E decls file line o Hmets m ks Hmok (wt_lval m ks Hmok Hk) pc stk g ms tm rs vs Hat1 Hrel) as H.
  change (exec_simple (SSet t m ks e) rs) with
    (rbind (target E decls file line m ks rs) (fun kv s1 =>
       rbind (eval e s1) (fun v s2 => ROk tt (RefSem.write m (fst kv) v s2)))).
  destruct (target E decls file line m ks rs) as [[keys v0] rs1|[|x] rs1]; cbn [RefSem.bind]; [| contradiction | ].
  2:{ destruct H as (n & t1 & e' & vs' & Hn & Hst & Hx). cbn. exists n, t1, e', vs'. split; [fold L1 in Hn; lia|]. auto. }
  destruct H as (p & ms1 & vs1 & n1 & Hn1 & Hst1 & Hrel1 & _ & Hpts & _). cbn [fst snd] in *. fold L1 in Hn1, Hst1.
  pose proof (proj1 (esim_all E decls file line o Hmets) e t (opt_is _ _ Hte) (pc + L1)%nat (VDatum p :: stk) g ms1 tm rs1 vs1 Hat2 Hrel1) as H2.
  fold L2 in H2.
  destruct (eval e rs1) as [v rs2|[|x] rs2]; cbn [RefSem.bind]; [| contradiction | ].
  2:{ destruct H2 as (n & t1 & e' & vs' & Hn & Hst & Hx). cbn. exists (n1 + n)%nat, t1, e', vs'. split; [lia|].
      split; [|exact Hx]. rewrite (nsteps_app _ _ _ _ _ _ _ _ _ Hst1). exact Hst. }
  destruct H2 as (Hv & stk' & ms2 & vs2 & n2 & (w & [Hw _] & ->) & Hn2 & Hst2 & Hrel2 & Hext).
  pose proof (Hext _ _ _ Hpts) as Hpts2.
  destruct (points_cell decls _ _ m keys p (r_s _ _ _ _ _ _ Hrel2) Hpts2) as (d & Hfd & Hcell & Hdt).
  cbn [run_post].
  exists stk, ms2, tm,
    (Vm.with_store vs2 (mkstore (list_set (s_heap (vs_store vs2)) p (mkdcell (dval_of v) (Vm.stamp tm))) (s_mets (vs_store vs2)))),
    (n1 + n2 + 1)%nat.
  split; [lia|]. split.
  - eapply nsteps_snoc.
    + rewrite (nsteps_app _ _ _ _ _ _ _ _ _ Hst1). exact Hst2.
    + replace (pc + (L1 + L2 + 1))%nat with (S (pc + L1 + L2)) by lia.
      eapply step_next; [exact (at_pc_head _ _ _ _ Hat3)|].
      eapply exec_set; [exact Hnb | exact Hv | exact Hw | exact Hcell |].
      apply cell_type_of; [rewrite Hdt; exact Hmt | exact Hnb].
  - apply rel_write; [exact Hrel2 | exact Hpts2 | rewrite Hmt; exact Hv].
Qed.

(* += on an Int metric: inc with the delta on the stack *)
Lemma ssim_addto m ks e :
  metric_ok decls m (exprs_len ks) = true -> keys_ok ks = true -> ty_eqb (wmty decls m) TInt = true ->
  Wt.opt_ty_is (etype e) TInt = true -> ssim (SAddTo TInt m ks e).
Proof.
  intros Hmok Hk Hty Hte.
  assert (Hmt : mty m = TInt) by (change (mty m) with (wmty decls m); destruct (wmty decls m); cbn in Hty; congruence).
  apply ssim_simple; [reflexivity|]. intros pc stk g ms tm rs vs Hat Hrel.
  change (cstmt pc (SAddTo TInt m ks e)) with
    (clval decls pc m ks ++ cexpr (pc + length (clval decls pc m ks)) e ++ [ins Inc (OInt 0)]) in *.
  apply at_pc_app in Hat as [Hat1 Hat2]. apply at_pc_app in Hat2 as [Hat2 Hat3].
  set (L1 := length (clval decls pc m ks)) in *. set (L2 := length (cexpr (pc + L1) e)) in *.
  replace (length (clval decls pc m ks ++ cexpr (pc + L1) e ++ [ins Inc (OInt 0)])) with (L1 + L2 + 1)%nat
    by (rewrite !app_length; cbn; lia).
  pose proof (sim_lval E decls file line o Hmets m ks Hmok (wt_lval m ks Hmok Hk) pc stk g ms tm rs vs Hat1 Hrel) as H.
  change (exec_simple (SAddTo TInt m ks e) rs) with
    (rbind (target E decls file line m ks rs) (fun kv s1 =>
       rbind (eval e s1) (fun v s2 =>
         rbind (add_vals E TInt (current decls m (fst kv) s2) v s2) (fun r s3 => ROk tt (RefSem.write m (fst kv) r s3))))).
  destruct (target E decls file line m ks rs) as [[keys v0] rs1|[|x] rs1]; cbn [RefSem.bind]; [| contradiction | ].
  2:{ destruct H as (n & t1 & e' & vs' & Hn & Hst & Hx). cbn. exists n, t1, e', vs'. split; [fold L1 in Hn; lia|]. auto. }
  destruct H as (p & ms1 & vs1 & n1 & Hn1 & Hst1 & Hrel1 & _ & Hpts & _). cbn [fst snd] in *. fold L1 in Hn1, Hst1.
  pose proof (proj1 (esim_all E decls file line o Hmets) e TInt (opt_is _ _ Hte) (pc + L1)%nat (VDatum p :: stk) g ms1 tm rs1 vs1 Hat2 Hrel1) as H2.
  fold L2 in H2.
  destruct (eval e rs1) as [v rs2|[|x] rs2]; cbn [RefSem.bind]; [| contradiction | ].
  2:{ destruct H2 as (n & t1 & e' & vs' & Hn & Hst & Hx). cbn. exists (n1 + n)%nat, t1, e', vs'. split; [lia|].
      split; [|exact Hx]. rewrite (nsteps_app _ _ _ _ _ _ _ _ _ Hst1). exact Hst. }
  destruct H2 as (Hv & stk' & ms2 & vs2 & n2 & (w & [Hw _] & ->) & Hn2 & Hst2 & Hrel2 & Hext).
  pose proof (Hext _ _ _ Hpts) as Hpts2.
  destruct (points_cell decls _ _ m keys p (r_s _ _ _ _ _ _ Hrel2) Hpts2) as (d & Hfd & Hcell & Hdt).
  apply vty_int in Hv as [y ->]. rewrite Hmt in Hdt. apply vty_int in Hdt as [z Hz].
  unfold current. rewrite Hfd, Hz. cbn [add_vals RefSem.bind run_post].
  exists (VI64 (i_add z y) :: stk), ms2, tm,
    (Vm.with_store vs2 (mkstore (list_set (s_heap (vs_store vs2)) p (mkdcell (DInt (i_add z y)) (Vm.stamp tm))) (s_mets (vs_store vs2)))),
    (n1 + n2 + 1)%nat.
  split; [lia|]. split.
  - eapply nsteps_snoc.
    + rewrite (nsteps_app _ _ _ _ _ _ _ _ _ Hst1). exact Hst2.
    + replace (pc + (L1 + L2 + 1))%nat with (S (pc + L1 + L2)) by lia.
      eapply step_next; [exact (at_pc_head _ _ _ _ Hat3)|].
      assert (Hup : heap_upd (vs_store vs2) p (cell_inc y tm) =
                Ok (mkstore (list_set (s_heap (vs_store vs2)) p (mkdcell (DInt (i_add z y)) (Vm.stamp tm))) (s_mets (vs_store vs2)))).
      { eapply heap_upd_ok; [exact Hcell|]. unfold cell_inc, cell_of. cbn [d_val]. rewrite Hz. reflexivity. }
      inversion Hw; subst; cbn; rewrite Hup; cbn; unfold datum_int; cbn [s_heap];
        rewrite nth_error_list_set_same by (apply nth_error_Some; congruence); reflexivity.
  - apply (rel_write E decls rs2 ms2 tm vs2 m keys p (RInt (i_add z y))); [exact Hrel2 | exact Hpts2 | rewrite Hmt; reflexivity].
Qed.

Lemma str_index sid x : str_ok (o_strs o) sid x = true ->
  index_in (zn sid) (length (o_strs o)) = Ok (N.to_nat sid) /\ nth (N.to_nat sid) (o_strs o) [] = x.
Proof.
  unfold str_ok, index_in. intros H. destruct (nth_error (o_strs o) (N.to_nat sid)) as [s'|] eqn:Hn; [|discriminate].
  apply bytes_eqb_spec in H. subst s'.
  assert (Hlt : (N.to_nat sid < length (o_strs o))%nat) by (apply nth_error_Some; congruence).
  replace ((0 <=? zn sid) && (zn sid <? Z.of_nat (length (o_strs o)))) with true
    by (symmetry; apply andb_true_iff; unfold zn; split; [apply Z.leb_le|apply Z.ltb_lt]; lia).
  rewrite to_nat_zn. split; [reflexivity | apply (nth_error_nth _ _ _ Hn)].
Qed.

Lemma ssim_strptime e sid layout :
  Wt.opt_ty_is (etype e) TStr = true -> str_ok (o_strs o) sid layout = true -> ssim (SStrptime e sid layout).
Proof.
  intros Ht Hs. apply ssim_simple; [reflexivity|]. intros pc stk g ms tm rs vs Hat Hrel.
  change (cstmt pc (SStrptime e sid layout)) with (cexpr pc e ++ [ins Str (OInt (zn sid)); ins Strptime (OInt 2)]) in *.
  apply at_pc_app in Hat as [Hat1 Hat2]. rewrite app_length. cbn [length].
  set (L := length (cexpr pc e)) in *.
  pose proof (proj1 (esim_all E decls file line o Hmets) e TStr (opt_is _ _ Ht) pc stk g ms tm rs vs Hat1 Hrel) as H.
  fold L in H. cbn [RefSem.exec_simple].
  destruct (eval e rs) as [v rs1|[|x] rs1]; cbn [RefSem.bind]; [| contradiction | ].
  2:{ destruct H as (n & t1 & e' & vs' & Hn & Hst & Hx). cbn. exists n, t1, e', vs'. split; [lia|]. auto. }
  destruct H as (Hv & stk' & ms1 & vs1 & n & (w & [Hw _] & ->) & Hn & Hst & Hrel1 & _).
  apply vty_str in Hv as [x ->]. inversion Hw; subst. cbn [RefSem.as_str RefSem.bind].
  destruct (str_index sid layout Hs) as [Hidx Hnth].
  pose proof (at_pc_head _ _ _ _ Hat2) as H0. pose proof (fetch_off _ _ 1 _ _ Hat2 eq_refl) as H1.
  assert (Hst2 : nsteps (n + 1) (mkthread pc stk g ms tm) vs =
                 Some (mkthread (pc + L + 1) (VStr layout :: VStr x :: stk) g ms1 tm, vs1)).
  { eapply nsteps_snoc; [exact Hst|]. rewrite Nat.add_1_r. eapply step_next; [exact H0|].
    cbn. rewrite Hidx. cbn. rewrite Hnth. reflexivity. }
  destruct Hrel1 as [Hm Htm Hsr Hmm].
  destruct (memo_get (layout, x) (vs_memo vs1)) as [[tmm mm]|] eqn:Hmg.
  - destruct (memo_ok_get E _ _ _ _ Hmm Hmg) as [Hp Hmm']. cbn [fst snd] in Hp. rewrite Hp. cbn [RefSem.bind run_post].
    exists stk, ms1, tmm, (mkvm (vs_store vs1) mm), (n + 1 + 1)%nat. split; [lia|]. split.
    + eapply nsteps_snoc; [exact Hst2|]. replace (pc + (L + 2))%nat with (S (pc + L + 1)) by lia.
      eapply step_next; [exact H1|]. cbn. rewrite Hmg. reflexivity.
    + constructor; cbn; auto.
  - destruct (time_parse E layout x) as [tmm|] eqn:Hp; cbn [RefSem.bind run_post].
    + exists stk, ms1, tmm, (mkvm (vs_store vs1) (memo_add (layout, x) tmm (vs_memo vs1))), (n + 1 + 1)%nat.
      split; [lia|]. split.
      * eapply nsteps_snoc; [exact Hst2|]. replace (pc + (L + 2))%nat with (S (pc + L + 1)) by lia.
        eapply step_next; [exact H1|]. cbn. rewrite Hmg, Hp. reflexivity.
      * constructor; cbn; auto. apply memo_ok_add; auto.
    + exists (n + 1)%nat, (mkthread (pc + L + 1) (VStr layout :: VStr x :: stk) g ms1 tm), EStrptime, vs1.
      split; [lia|]. split; [exact Hst2|]. split; [|auto].
      eapply step_err; [exact H1|]. cbn. rewrite Hmg, Hp. reflexivity.
Qed.

Lemma pop_mk h m n keys stk :
  length keys = n ->
  pop_metric_keys E h (OInt (zl n)) (VMetric m :: map VStr (rev keys) ++ stk) = Ok (m, keys, stk).
Proof.
  intros Hl. unfold pop_metric_keys. cbn -[zl]. rewrite zl_nonneg, zl_to_nat.
  rewrite <- Hl, <- (rev_length keys). rewrite pop_strs_rev, rev_involutive, app_nil_r. reflexivity.
Qed.

Lemma ssim_del m ks :
  metric_ok decls m (exprs_len ks) = true -> keys_ok ks = true -> ssim (SDel m ks).
Proof.
  intros Hmok Hk. apply ssim_simple; [reflexivity|]. intros pc stk g ms tm rs vs Hat Hrel.
  change (cstmt pc (SDel m ks)) with (cexprs pc ks ++ [ins Mload (OInt (zn m)); ins Del (OInt (zl (exprs_len ks)))]) in *.
  apply at_pc_app in Hat as [Hat1 Hat2]. rewrite app_length. cbn [length].
  set (L := length (cexprs pc ks)) in *.
  pose proof (wt_lval m ks Hmok Hk pc stk g ms tm rs vs Hat1 Hrel) as H. fold L in H.
  cbn [RefSem.exec_simple].
  destruct (eval_keys ks rs) as [keys rs1|[|x] rs1]; cbn [RefSem.bind]; [| contradiction | ].
  2:{ destruct H as (n & t1 & e' & vs' & Hn & Hst & Hx). cbn. exists n, t1, e', vs'. split; [lia|]. auto. }
  destruct H as (Hlen & stk' & ms1 & vs1 & n & -> & Hn & Hst & Hrel1 & _).
  assert (Hmok' : metric_ok decls m (length keys) = true) by (rewrite Hlen; exact Hmok).
  destruct (del_sim decls o Hmets _ _ m keys (r_s _ _ _ _ _ _ Hrel1) Hmok') as (st' & Hrm & Hsr).
  pose proof (at_pc_head _ _ _ _ Hat2) as H0. pose proof (fetch_off _ _ 1 _ _ Hat2 eq_refl) as H1.
  cbn [run_post].
  assert (Hst2 : nsteps (n + 1) (mkthread pc stk g ms tm) vs =
     Some (mkthread (pc + L + 1) (VMetric (N.to_nat m) :: map VStr (rev keys) ++ stk) g ms1 tm, vs1)).
  { eapply nsteps_snoc; [exact Hst|]. rewrite (Nat.add_1_r (pc + L)). eapply step_next; [exact H0|].
    cbn. rewrite (metric_index decls o Hmets _ _ Hmok). reflexivity. }
  exists stk, ms1, tm, (Vm.with_store vs1 st'), (n + 1 + 1)%nat. split; [lia|]. split.
  - eapply nsteps_snoc; [exact Hst2|]. replace (pc + (L + 2))%nat with (S (pc + L + 1)) by lia.
    eapply step_next; [exact H1|]. cbn -[zl pop_metric_keys]. rewrite (pop_mk _ _ _ keys stk Hlen). cbn. rewrite Hrm. reflexivity.
  - destruct Hrel1 as [Hm Htm _ Hmm]. constructor; cbn; auto.
Qed.

Lemma ssim_expire m ks d :
  metric_ok decls m (exprs_len ks) = true -> keys_ok ks = true -> ssim (SExpire m ks d).
Proof.
  intros Hmok Hk. apply ssim_simple; [reflexivity|]. intros pc stk g ms tm rs vs Hat Hrel.
  change (cstmt pc (SExpire m ks d)) with
    ([ins Push (ODur d)] ++ cexprs (pc + 1) ks ++ [ins Mload (OInt (zn m)); ins Expire (OInt (zl (exprs_len ks)))]) in *.
  apply at_pc_app in Hat as [Hat0 Hat1]. cbn [length] in Hat1. apply at_pc_app in Hat1 as [Hat1 Hat2].
  set (L := length (cexprs (pc + 1) ks)) in *.
  replace (length ([ins Push (ODur d)] ++ cexprs (pc + 1) ks ++ [ins Mload (OInt (zn m)); ins Expire (OInt (zl (exprs_len ks)))]))
    with (1 + L + 2)%nat by (rewrite !app_length; cbn; lia).
  assert (Hst0 : nsteps 1 (mkthread pc stk g ms tm) vs = Some (mkthread (pc + 1) (VDur d :: stk) g ms tm, vs)).
  { cbn [C01Sim.nsteps]. erewrite step_push; [| exact (at_pc_head _ _ _ _ Hat0)]. rewrite Nat.add_1_r. reflexivity. }
  pose proof (wt_lval m ks Hmok Hk (pc + 1)%nat (VDur d :: stk) g ms tm rs vs Hat1 Hrel) as H. fold L in H.
  cbn [RefSem.exec_simple].
  destruct (eval_keys ks rs) as [keys rs1|[|x] rs1]; cbn [RefSem.bind]; [| contradiction | ].
  2:{ destruct H as (n & t1 & e' & vs' & Hn & Hst & Hx). cbn. exists (1 + n)%nat, t1, e', vs'. split; [lia|].
      split; [|exact Hx]. rewrite (nsteps_app _ _ _ _ _ _ _ _ _ Hst0). exact Hst. }
  destruct H as (Hlen & stk' & ms1 & vs1 & n & -> & Hn & Hst & Hrel1 & _).
  assert (Hmok' : metric_ok decls m (length keys) = true) by (rewrite Hlen; exact Hmok).
  pose proof (expire_sim decls o Hmets _ _ m keys d (r_s _ _ _ _ _ _ Hrel1) Hmok') as Hex.
  pose proof (at_pc_head _ _ _ _ Hat2) as H0. pose proof (fetch_off _ _ 1 _ _ Hat2 eq_refl) as H1.
  assert (Hst2 : nsteps (1 + n + 1) (mkthread pc stk g ms tm) vs =
     Some (mkthread (pc + 1 + L + 1) (VMetric (N.to_nat m) :: map VStr (rev keys) ++ VDur d :: stk) g ms1 tm, vs1)).
  { eapply nsteps_snoc; [rewrite (nsteps_app _ _ _ _ _ _ _ _ _ Hst0); exact Hst|].
    rewrite (Nat.add_1_r (pc + 1 + L)). eapply step_next; [exact H0|]. cbn. rewrite (metric_index decls o Hmets _ _ Hmok). reflexivity. }
  destruct (find_datum keys (mdata (rs_store rs1) m)) as [d0|] eqn:Hfd.
  - destruct Hex as (st' & Hxp & Hsr). cbn [run_post].
    exists stk, ms1, tm, (Vm.with_store vs1 st'), (1 + n + 1 + 1)%nat. split; [lia|]. split.
    + eapply nsteps_snoc; [exact Hst2|]. replace (pc + (1 + L + 2))%nat with (S (pc + 1 + L + 1)) by lia.
      eapply step_next; [exact H1|]. cbn -[zl pop_metric_keys]. rewrite (pop_mk _ _ _ keys _ Hlen). cbn. rewrite Hxp. reflexivity.
    + destruct Hrel1 as [Hm Htm _ Hmm]. constructor; cbn; auto.
  - cbn [run_post]. exists (1 + n + 1)%nat, (mkthread (pc + 1 + L + 1) (VMetric (N.to_nat m) :: map VStr (rev keys) ++ VDur d :: stk) g ms1 tm), ENoDatum, vs1.
    split; [lia|]. split; [exact Hst2|]. split; [|destruct Hrel1; auto].
    eapply step_err; [exact H1|]. cbn -[zl pop_metric_keys]. rewrite (pop_mk _ _ _ keys _ Hlen). cbn. rewrite Hex. reflexivity.
Qed.

(* += on a Float or text metric: the target is emitted (and its keys evaluated) twice *)
Lemma ws_id s : RefSem.with_store s (rs_store s) = s.
Proof. destruct s; reflexivity. Qed.

Lemma points_fun st m ks p p' : points st m ks p -> points st m ks p' -> p = p'.
Proof. intros (l1 & v1 & H1 & H2 & H3) (l2 & v2 & H4 & H5 & H6). congruence. Qed.

Lemma exec_addop t x y w p c pc' stk g ms tm vs :
  (t = TFloat \/ t = TStr) -> vty x = t -> vty y = t -> vrel y w ->
  nth_error (s_heap (vs_store vs)) p = Some c -> d_val c = dval_of x ->
  exists r, add_vals E t x y = (fun s => ROk r s) /\ vty r = t /\
    exec E o ll (ins (arith_op AAdd t) ONil) (mkthread pc' (w :: VDatum p :: stk) g ms tm) vs =
    Ok (XNext (mkthread pc' (inj r :: stk) g ms tm) vs).
Proof.
  intros [-> | ->] Hx Hy Hw Hc Hd.
  - apply vty_float in Hx as [a ->]. apply vty_float in Hy as [b ->]. inversion Hw; subst.
    exists (RFloat (fl_add E a b)). split; [reflexivity|]. split; [reflexivity|].
    cbn. unfold datum_float. rewrite Hc, Hd. reflexivity.
  - apply vty_str in Hx as [a ->]. apply vty_str in Hy as [b ->]. inversion Hw; subst.
    exists (RStr (a ++ b)). split; [reflexivity|]. split; [reflexivity|].
    cbn. unfold datum_str. rewrite Hc, Hd. reflexivity.
Qed.

Lemma shift_len d ks : exprs_len (shift_exprs d ks) = exprs_len ks.
Proof.
  induction ks as [|e0 r IH]; [reflexivity|].
  change (shift_exprs d (XCons e0 r)) with (XCons (shift_expr d e0) (shift_exprs d r)). cbn [exprs_len]. congruence.
Qed.

Lemma ssim_addto_dup t m ks e :
  (t = TFloat \/ t = TStr) ->
  metric_ok decls m (exprs_len ks) = true -> keys_ok ks = true -> ty_eqb (wmty decls m) t = true ->
  Wt.opt_ty_is (etype e) t = true -> keys_ok (shift_exprs (nstr_exprs ks) ks) = true -> pure_keys ks = true ->
  ssim (SAddTo t m ks e).
Proof.
  intros Ht Hmok Hk Hty Hte Hk2 Hpure.
  assert (Hmt : mty m = t) by (change (mty m) with (wmty decls m); destruct (wmty decls m), t; cbn in Hty; congruence).
  assert (Hnb : t <> TBool) by (destruct Ht; subst; discriminate).
  set (ks' := shift_exprs (nstr_exprs ks) ks) in *.
  assert (Hlen' : exprs_len ks' = exprs_len ks) by apply shift_len.
  apply ssim_simple; [reflexivity|]. intros pc stk g ms tm rs vs Hat Hrel.
  assert (Hcode : cstmt pc (SAddTo t m ks e) =
            clval decls pc m ks ++ clval decls (pc + length (clval decls pc m ks)) m ks' ++
            cexpr (pc + length (clval decls pc m ks) + length (clval decls (pc + length (clval decls pc m ks)) m ks')) e ++
            [ins (arith_op AAdd t) ONil; ins (set_op t) ONil]) by (destruct Ht; subst; reflexivity).
  rewrite Hcode in *. clear Hcode.
  set (L1 := length (clval decls pc m ks)) in *.
  set (L2 := length (clval decls (pc + L1) m ks')) in *.
  set (L3 := length (cexpr (pc + L1 + L2) e)) in *.
  apply at_pc_app in Hat as [Hat1 Hat2]. apply at_pc_app in Hat2 as [Hat2 Hat3]. apply at_pc_app in Hat3 as [Hat3 Hat4].
  fold L1 in Hat2. fold L2 in Hat3. fold L3 in Hat4.
  replace (length (clval decls pc m ks ++ clval decls (pc + L1) m ks' ++ cexpr (pc + L1 + L2) e ++ [ins (arith_op AAdd t) ONil; ins (set_op t) ONil]))
    with (L1 + L2 + L3 + 2)%nat by (rewrite !app_length; cbn; lia).
  change (exec_simple (SAddTo t m ks e) rs) with
    (rbind (target E decls file line m ks rs) (fun kv s1 =>
       rbind (eval e s1) (fun v s2 =>
         rbind (add_vals E t (current decls m (fst kv) s2) v s2) (fun r s3 => ROk tt (RefSem.write m (fst kv) r s3))))).
  pose proof (sim_lval E decls file line o Hmets m ks Hmok (wt_lval m ks Hmok Hk) pc stk g ms tm rs vs Hat1 Hrel) as H.
  fold L1 in H.
  (* the keys are effect free *)
  pose proof (pure_keys_eval E decls file line ks Hpure rs) as Hpk.
  unfold target in *.
  destruct (eval_keys ks rs) as [keys rsk|[|x] rsk]; cbn [RefSem.bind] in *; [| contradiction | ].
  2:{ destruct H as (n & t1 & e' & vs' & Hn & Hst & Hx). cbn. exists n, t1, e', vs'. split; [lia|]. auto. }
  destruct Hpk as [-> Hsh].
  destruct (obtain decls m keys (rs_store rs)) as [v0 st0] eqn:Hob. cbn [fst snd RefSem.bind] in *.
  set (rs1 := RefSem.with_store rs st0) in *.
  destruct H as (p & ms1 & vs1 & n1 & Hn1 & Hst1 & Hrel1 & _ & Hpts & _).
  (* second evaluation of the target *)
  assert (Hmok2 : metric_ok decls m (exprs_len ks') = true) by (rewrite Hlen'; exact Hmok).
  pose proof (sim_lval E decls file line o Hmets m ks' Hmok2 (wt_lval m ks' Hmok2 Hk2) (pc + L1)%nat (VDatum p :: stk) g ms1 tm rs1 vs1 Hat2 Hrel1) as H2.
  fold L2 in H2. unfold target in H2. unfold ws in Hsh.
  change (eval_keys ks' rs1) with (eval_keys (shift_exprs (nstr_exprs ks) ks) (RefSem.with_store rs st0)) in H2.
  rewrite (Hsh (nstr_exprs ks) st0) in H2. fold rs1 in H2. cbn [RefSem.bind] in H2.
  destruct (points_cell decls _ _ m keys p (r_s _ _ _ _ _ _ Hrel1) Hpts) as (d1 & Hfd1 & _ & _).
  unfold obtain in H2. rewrite Hfd1 in H2. cbn [fst snd] in H2. rewrite ws_id in H2.
  destruct H2 as (p' & ms1' & vs1' & n2 & Hn2 & Hst2 & Hrel1' & Hext1 & Hpts' & _).
  assert (p' = p) by (eapply points_fun; [exact Hpts' | apply Hext1; exact Hpts]). subst p'.
  (* the right side *)
  pose proof (proj1 (esim_all E decls file line o Hmets) e t (opt_is _ _ Hte) (pc + L1 + L2)%nat (VDatum p :: VDatum p :: stk) g ms1' tm rs1 vs1' Hat3 Hrel1') as H3.
  fold L3 in H3.
  destruct (eval e rs1) as [v rs2|[|x] rs2]; cbn [RefSem.bind]; [| contradiction | ].
  2:{ destruct H3 as (n & t1 & e' & vs' & Hn & Hst & Hx). cbn. exists (n1 + n2 + n)%nat, t1, e', vs'. split; [lia|].
      split; [|exact Hx]. replace (n1 + n2 + n)%nat with (n1 + (n2 + n))%nat by lia.
      rewrite (nsteps_app _ _ _ _ _ _ _ _ _ Hst1), (nsteps_app _ _ _ _ _ _ _ _ _ Hst2). exact Hst. }
  destruct H3 as (Hv & stk' & ms2 & vs2 & n3 & (w & [Hw _] & ->) & Hn3 & Hst3 & Hrel2 & Hext2).
  pose proof (Hext2 _ _ _ Hpts') as Hpts2.
  destruct (points_cell decls _ _ m keys p (r_s _ _ _ _ _ _ Hrel2) Hpts2) as (d2 & Hfd2 & Hcell2 & Hdt2).
  rewrite Hmt in Hdt2.
  unfold current. rewrite Hfd2.
  destruct (exec_addop t (rd_val d2) v w p (cell_of d2) (S (pc + L1 + L2 + L3)) (VDatum p :: stk) g ms2 tm vs2 Ht Hdt2 Hv Hw Hcell2 eq_refl)
    as (r & Hadd & Hr & Hx1).
  rewrite Hadd. cbn [RefSem.bind run_post].
  exists stk, ms2, tm,
    (Vm.with_store vs2 (mkstore (list_set (s_heap (vs_store vs2)) p (mkdcell (dval_of r) (Vm.stamp tm))) (s_mets (vs_store vs2)))),
    (n1 + n2 + n3 + 1 + 1)%nat.
  split; [lia|]. split.
  - assert (Hst123 : nsteps (n1 + n2 + n3) (mkthread pc stk g ms tm) vs =
        Some (mkthread (pc + L1 + L2 + L3) (w :: VDatum p :: VDatum p :: stk) g ms2 tm, vs2)).
    { replace (n1 + n2 + n3)%nat with (n1 + (n2 + n3))%nat by lia.
      rewrite (nsteps_app _ _ _ _ _ _ _ _ _ Hst1), (nsteps_app _ _ _ _ _ _ _ _ _ Hst2). exact Hst3. }
    eapply nsteps_snoc.
    + eapply nsteps_snoc; [exact Hst123|]. eapply step_next; [exact (at_pc_head _ _ _ _ Hat4) | exact Hx1].
    + replace (pc + (L1 + L2 + L3 + 2))%nat with (S (S (pc + L1 + L2 + L3))) by lia.
      eapply step_next; [replace (S (pc + L1 + L2 + L3)) with (pc + L1 + L2 + L3 + 1)%nat by lia; exact (fetch_off _ _ 1 _ _ Hat4 eq_refl)|].
      eapply exec_set; [exact Hnb | exact Hr | apply vrel_inj | exact Hcell2 |].
      apply cell_type_of; [exact Hdt2 | exact Hnb].
  - apply rel_write; [exact Hrel2 | exact Hpts2 | rewrite Hmt; exact Hr].
Qed.

End Simple.
