(* Lemmas about Metrics/StoreAdd.v: association lists, the frame of Store.Add
   (what it leaves alone), and the fact that Add on the bucket of a name only
   depends on the entries of the adding program. *)
From V Require Import Metrics.StoreAdd.
Local Open Scope N_scope.

Lemma bytes_eqb_false a b : bytes_eqb a b = false <-> a <> b.
Proof.
  split; intros H.
  - intros E. subst. rewrite bytes_eqb_refl in H. discriminate.
  - destruct (bytes_eqb a b) eqn:E; [|reflexivity]. apply bytes_eqb_spec in E. contradiction.
Qed.

Lemma bytes_eqb_sym a b : bytes_eqb a b = bytes_eqb b a.
Proof.
  destruct (bytes_eqb a b) eqn:E.
  - apply bytes_eqb_spec in E. subst. symmetry. apply bytes_eqb_refl.
  - symmetry. apply bytes_eqb_false. apply bytes_eqb_false in E. congruence.
Qed.

(* ---- blookup / bupdate ---- *)
Lemma blookup_bupdate_same {A} k (x : A) l : blookup k (bupdate k x l) = Some x.
Proof.
  induction l as [|[k' y] r IH]; cbn [bupdate blookup].
  - rewrite bytes_eqb_refl. reflexivity.
  - destruct (bytes_eqb k k') eqn:E; cbn [blookup].
    + rewrite bytes_eqb_refl. reflexivity.
    + rewrite E. exact IH.
Qed.

Lemma blookup_bupdate_other {A} k k' (x : A) l : k' <> k -> blookup k' (bupdate k x l) = blookup k' l.
Proof.
  intros N. induction l as [|[k2 y] r IH]; cbn [bupdate blookup].
  - apply bytes_eqb_false in N. rewrite N. reflexivity.
  - destruct (bytes_eqb k k2) eqn:E; cbn [blookup].
    + apply bytes_eqb_spec in E. subst k2. apply bytes_eqb_false in N. rewrite N. reflexivity.
    + destruct (bytes_eqb k' k2); [reflexivity|exact IH].
Qed.

Lemma entries_of_bupdate_same n l idx : entries_of (bupdate n l idx) n = l.
Proof. unfold entries_of. rewrite blookup_bupdate_same. reflexivity. Qed.

Lemma entries_of_bupdate_other n n' l idx : n' <> n -> entries_of (bupdate n l idx) n' = entries_of idx n'.
Proof. intros N. unfold entries_of. rewrite blookup_bupdate_other by exact N. reflexivity. Qed.

Lemma blookup_map_keyed {A} (f : bytes -> A -> A) k l :
  blookup k (map (fun px => (fst px, f (fst px) (snd px))) l) = option_map (f k) (blookup k l).
Proof.
  induction l as [|[k' y] r IH]; cbn [map blookup fst snd]; [reflexivity|].
  destruct (bytes_eqb k k') eqn:E.
  - apply bytes_eqb_spec in E. subst. reflexivity.
  - exact IH.
Qed.

(* ---- remove_nth ---- *)
Lemma remove_nth_app_length {A} (a : list A) x b : remove_nth (length a) (a ++ x :: b) = a ++ b.
Proof. induction a as [|y a IH]; cbn [length app remove_nth]; [reflexivity|]. rewrite IH. reflexivity. Qed.

Lemma remove_nth_incl {A} n (l : list A) x : In x (remove_nth n l) -> In x l.
Proof.
  revert n. induction l as [|y l IH]; intros [|n]; cbn [remove_nth]; intros H; try exact H.
  - right. exact H.
  - destruct H as [H|H]; [left; exact H|right; exact (IH _ H)].
Qed.

(* ---- the scan only looks at the adding program's entries ---- *)
Section Scan.
Variable copy_expiry : bool.
Variable h : pheap.
Variable p : bytes.
Variable d : decl.

Definition isP (e : entry) : bool := bytes_eqb (e_prog e) p.
Definition notP (e : entry) : bool := negb (isP e).

Notation scan_from := (scan_from copy_expiry h p d).
Notation scan_step := (scan_step copy_expiry h p d).

Lemma scan_step_notP i v s : isP v = false -> scan_step i v s = s.
Proof.
  intros H. unfold scan_step. unfold isP in H. rewrite H. cbn [negb].
  destruct (sc_broke s); reflexivity.
Qed.

(* same decisions on both sides; only the recorded index differs *)
Lemma scan_step_rel i j v s s' :
  sc_mlvs s = sc_mlvs s' -> sc_broke s = sc_broke s' ->
  let r := scan_step i v s in let r' := scan_step j v s' in
  sc_mlvs r = sc_mlvs r' /\ sc_broke r = sc_broke r' /\
  ((r = s /\ r' = s') \/ (sc_dupe r = Some i /\ sc_dupe r' = Some j /\ isP v = true)).
Proof.
  intros Hm Hb. cbn zeta. unfold scan_step. rewrite <- Hb.
  destruct (sc_broke s) eqn:B.
  { cbv iota. split; [exact Hm|]. split; [congruence|]. left. auto. }
  assert (T : sc_mlvs s = sc_mlvs s' /\ sc_broke s = sc_broke s' /\
              ((s = s /\ s' = s') \/ (sc_dupe s = Some i /\ sc_dupe s' = Some j /\ isP v = true))).
  { split; [exact Hm|]. split; [congruence|]. left. auto. }
  destruct (bytes_eqb (e_prog v) p) eqn:E1; cbn [negb]; [|exact T].
  destruct (N.eqb (d_type (e_decl v)) (d_type d)); cbn [negb]; [|exact T].
  destruct (bytes_eqb (d_source (e_decl v)) (d_source d)); cbn [negb]; [|exact T].
  destruct (keys_eqb (d_keys (e_decl v)) (d_keys d)); cbn [negb sc_mlvs sc_broke sc_dupe].
  - rewrite Hm. split; [reflexivity|]. split; [reflexivity|]. right. unfold isP. auto.
  - split; [exact Hm|]. split; [reflexivity|]. right. unfold isP. auto.
Qed.

Lemma filter_app_cons_notP (pre : list entry) v suf :
  isP v = false -> filter isP (pre ++ v :: suf) = filter isP (pre ++ suf).
Proof. intros H. rewrite !filter_app. cbn [filter]. rewrite H. reflexivity. Qed.

(* The scan over a bucket and the scan over its P-part agree on the new
   metric's label values, and removing the recorded entry commutes with
   taking the P-part. *)
Lemma scan_filter l : forall pre s s',
  sc_mlvs s = sc_mlvs s' -> sc_broke s = sc_broke s' ->
  (forall suf, filter isP (replace_dupe (pre ++ suf) s) = replace_dupe (filter isP (pre ++ suf)) s') ->
  let r := scan_from (length pre) l s in
  let r' := scan_from (length (filter isP pre)) (filter isP l) s' in
  sc_mlvs r = sc_mlvs r' /\ sc_broke r = sc_broke r' /\
  (forall suf, filter isP (replace_dupe (pre ++ l ++ suf) r) = replace_dupe (filter isP (pre ++ l ++ suf)) r').
Proof.
  induction l as [|v l IH]; intros pre s s' Hm Hb Hd; cbn zeta.
  - cbn [scan_from filter app]. auto.
  - cbn [StoreAdd.scan_from filter].
    destruct (isP v) eqn:EP.
    + cbn [StoreAdd.scan_from].
      pose proof (scan_step_rel (length pre) (length (filter isP pre)) v s s' Hm Hb) as R.
      cbn zeta in R. destruct R as (Rm & Rb & Rd).
      specialize (IH (pre ++ [v]) (scan_step (length pre) v s)
                     (scan_step (length (filter isP pre)) v s') Rm Rb).
      rewrite app_length in IH. cbn [length] in IH. rewrite Nat.add_1_r in IH.
      rewrite filter_app in IH. cbn [filter] in IH. rewrite EP in IH.
      rewrite app_length in IH. cbn [length] in IH. rewrite Nat.add_1_r in IH.
      assert (Hd' : forall suf,
        filter isP (replace_dupe ((pre ++ [v]) ++ suf) (scan_step (length pre) v s)) =
        replace_dupe (filter isP ((pre ++ [v]) ++ suf)) (scan_step (length (filter isP pre)) v s')).
      { intros suf. rewrite <- app_assoc. cbn [app].
        destruct Rd as [[E1 E2]|(E1 & E2 & _)].
        - rewrite E1, E2. apply Hd.
        - unfold replace_dupe. rewrite E1, E2.
          rewrite remove_nth_app_length.
          rewrite (filter_app isP pre (v :: suf)). cbn [filter]. rewrite EP.
          rewrite remove_nth_app_length. rewrite filter_app. reflexivity. }
      specialize (IH Hd'). cbn zeta in IH. destruct IH as (I1 & I2 & I3).
      split; [exact I1|]. split; [exact I2|].
      intros suf. specialize (I3 suf). rewrite <- app_assoc in I3. cbn [app] in I3. exact I3.
    + rewrite scan_step_notP by exact EP.
      specialize (IH (pre ++ [v]) s s' Hm Hb).
      rewrite app_length in IH. cbn [length] in IH. rewrite Nat.add_1_r in IH.
      rewrite filter_app in IH. cbn [filter] in IH. rewrite EP in IH. rewrite app_nil_r in IH.
      assert (Hd' : forall suf,
        filter isP (replace_dupe ((pre ++ [v]) ++ suf) s) =
        replace_dupe (filter isP ((pre ++ [v]) ++ suf)) s').
      { intros suf. rewrite <- app_assoc. cbn [app]. apply Hd. }
      specialize (IH Hd'). cbn zeta in IH. destruct IH as (I1 & I2 & I3).
      split; [exact I1|]. split; [exact I2|].
      intros suf. specialize (I3 suf). rewrite <- app_assoc in I3. cbn [app] in I3. exact I3.
Qed.

(* the entry recorded as the duplicate always belongs to the adding program:
   entries of other programs survive *)
Lemma scan_notP l : forall pre s,
  (forall suf, filter notP (replace_dupe (pre ++ suf) s) = filter notP (pre ++ suf)) ->
  forall suf, filter notP (replace_dupe (pre ++ l ++ suf) (scan_from (length pre) l s)) = filter notP (pre ++ l ++ suf).
Proof.
  induction l as [|v l IH]; intros pre s Hd suf.
  - cbn [StoreAdd.scan_from app]. apply Hd.
  - cbn [StoreAdd.scan_from].
    assert (Hd' : forall suf0,
      filter notP (replace_dupe ((pre ++ [v]) ++ suf0) (scan_step (length pre) v s)) =
      filter notP ((pre ++ [v]) ++ suf0)).
    { intros suf0. rewrite <- app_assoc. cbn [app].
      pose proof (scan_step_rel (length pre) (length pre) v s s eq_refl eq_refl) as R.
      cbn zeta in R. destruct R as (_ & _ & [[E _]|(E & _ & EP)]).
      - rewrite E. apply Hd.
      - unfold replace_dupe. rewrite E. rewrite remove_nth_app_length.
        rewrite !filter_app. cbn [filter].
        replace (notP v) with false by (unfold notP; rewrite EP; reflexivity). reflexivity. }
    specialize (IH (pre ++ [v]) (scan_step (length pre) v s)).
    rewrite app_length in IH. cbn [length] in IH. rewrite Nat.add_1_r in IH.
    specialize (IH Hd' suf). rewrite <- app_assoc in IH. cbn [app] in IH. exact IH.
Qed.
End Scan.
