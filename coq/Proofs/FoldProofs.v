(* Proofs for C02 (Lang/Fold.v). *)
From Coq Require Import ZArith List Bool NArith Lia.
From V Require Import Base.Int64 Lang.Fold.
Import ListNotations.
Local Open Scope Z_scope.

Scheme tree_ind2 := Induction for tree Sort Prop
  with trees_ind2 := Induction for trees Sort Prop.
Combined Scheme tree_trees_ind from tree_ind2, trees_ind2.

Section Proofs.
Context {F : Type} (fo : fops F).
Variable st : Type.
Variable leaf_sem : N -> den_t (F:=F) st.
Variable node_sem : N -> list (den_t (F:=F) st) -> den_t (F:=F) st.
Variable nowalk_sem : N -> den_t (F:=F) st -> den_t (F:=F) st.
Variable other_bin : op -> den_t (F:=F) st -> den_t (F:=F) st -> den_t (F:=F) st.
Variable other_int : N -> option Z.
Variable other_float : N -> option F.

Notation arith' := (arith fo st other_bin other_int other_float).
Notation den' := (den fo st leaf_sem node_sem nowalk_sem other_bin other_int other_float).
Notation dens' := (dens fo st leaf_sem node_sem nowalk_sem other_bin other_int other_float).
Notation shape_ok' := (shape_ok fo st leaf_sem node_sem nowalk_sem other_bin other_int other_float).
Notation shapes_ok' := (shapes_ok fo st leaf_sem node_sem nowalk_sem other_bin other_int other_float).
Notation lit_den' := (lit_den (F:=F) st).


(* unfolding equations across the mutual fixpoints *)
Lemma fold_tree_node (fb : op -> lit F -> lit F -> option (lit F)) keep tag cs :
  fold_tree fb keep (TNode tag cs) =
  let (cs', e) := fold_trees fb (N.eqb tag cond_tag) cs in (TNode tag cs', e).
Proof. reflexivity. Qed.
Lemma fold_trees_cons (fb : op -> lit F -> lit F -> option (lit F)) kf t r :
  fold_trees fb kf (TCons t r) =
  let (t', e1) := fold_tree fb kf t in let (r', e2) := fold_trees fb false r in (TCons t' r', (e1 + e2)%N).
Proof. reflexivity. Qed.
Lemma den_node tag cs : den' (TNode tag cs) = node_sem tag (dens' cs).
Proof. reflexivity. Qed.
Lemma dens_cons t r : dens' (TCons t r) = den' t :: dens' r.
Proof. reflexivity. Qed.
Lemma shape_ok_node tag cs :
  shape_ok' (TNode tag cs) =
  shapes_ok' cs && (if N.eqb tag cond_tag then
                      match cs with TCons c _ => negb (is_lit c) | TNil => true end
                    else true).
Proof. reflexivity. Qed.
Lemma shapes_ok_cons t r : shapes_ok' (TCons t r) = shape_ok' t && shapes_ok' r.
Proof. reflexivity. Qed.

(* ---- the table against the VM, all literal pairs, all six operators ---- *)

Lemma fold_bin_sound o a b v :
  fold_bin fo o a b = Some v -> arith' o (lit_den' a) (lit_den' b) = lit_den' v.
Proof.
  destruct a as [x|x], b as [y|y]; cbn [fold_bin];
    unfold arith, lit_den, bin_int, bin_float, i2f; cbn [fst snd pop_int pop_float];
    destruct o; cbn [fold_int_int fold_int_float fold_float_int fold_float_float vm_iop vm_fop];
    intros H;
    repeat match type of H with
           | (if ?c then _ else _) = _ => destruct c eqn:?; try discriminate
           end;
    injection H as <-; unfold go_add, go_sub, go_mul, go_quo, go_rem; reflexivity.
Qed.

Lemma fold_bin_none o a b :
  fold_bin fo o a b = None <-> is_divmod o = true /\ lit_is_zero fo b = true.
Proof.
  destruct a as [x|x], b as [y|y]; cbn [fold_bin lit_is_zero]; destruct o;
    cbn [fold_int_int fold_int_float fold_float_int fold_float_float is_divmod];
    try (split; [discriminate | intros [? ?]; discriminate]);
    match goal with |- context [if ?c then _ else _] => destruct c end;
    split; try discriminate; try (intros [? ?]; discriminate); auto.
Qed.

(* the table before the repair disagrees with the VM whenever
   math.Mod(float64(a), b) is not +0 *)
Lemma fold_bin_old_unsound a b :
  f_is_zero fo b = false ->
  f_mod fo (f_of_int fo a) b <> f_of_int fo 0 ->
  exists v, fold_bin_old fo Mod (LInt a) (LFloat b) = Some v /\
            forall s, snd (arith' Mod (lit_den' (LInt a)) (lit_den' (LFloat b))) s <> snd (lit_den' v) s.
Proof.
  intros Hz Hne. exists (LFloat (f_of_int fo 0)). split.
  - cbn. rewrite Hz. reflexivity.
  - intros s. unfold arith, lit_den, bin_float, i2f; cbn. intros E.
    injection E as E. apply Hne. exact E.
Qed.

(* ---- folding anywhere preserves the denotation (type and behaviour) ---- *)

Section WithFb.
Variable fb : op -> lit F -> lit F -> option (lit F).
Hypothesis fb_sound : forall o a b v,
  fb o a b = Some v -> arith' o (lit_den' a) (lit_den' b) = lit_den' v.

Lemma fold_den_both :
  (forall t keep, den' (fst (fold_tree fb keep t)) = den' t) /\
  (forall ts kf, dens' (fst (fold_trees fb kf ts)) = dens' ts).
Proof.
  apply tree_trees_ind.
  - reflexivity.
  - reflexivity.
  - intros o l IHl r IHr keep. cbn [fold_tree].
    specialize (IHl false). specialize (IHr false).
    destruct (fold_tree fb false l) as [l' el]. destruct (fold_tree fb false r) as [r' er].
    cbn [fst] in IHl, IHr.
    assert (Hdef : den' (TBin o l' r') = den' (TBin o l r)).
    { cbn [den]. rewrite IHl, IHr. reflexivity. }
    destruct keep; [exact Hdef|].
    destruct l' as [a| | | |]; try exact Hdef.
    destruct r' as [b| | | |]; try exact Hdef.
    destruct (fb o a b) as [v|] eqn:Ef; [|exact Hdef].
    cbn [fst]. rewrite <- Hdef. cbn [den]. symmetry. apply fb_sound. exact Ef.
  - intros tag cs IH keep. rewrite fold_tree_node. specialize (IH (N.eqb tag cond_tag)).
    destruct (fold_trees fb (N.eqb tag cond_tag) cs) as [cs' e].
    cbn [fst] in *. rewrite !den_node. f_equal. exact IH.
  - reflexivity.
  - reflexivity.
  - intros t IHt ts IHts kf. rewrite fold_trees_cons. specialize (IHt kf). specialize (IHts false).
    destruct (fold_tree fb kf t) as [t' e1]. destruct (fold_trees fb false ts) as [ts' e2].
    cbn [fst] in *. rewrite !dens_cons. f_equal; assumption.
Qed.

Lemma fold_tree_den keep t : den' (fst (fold_tree fb keep t)) = den' t.
Proof. apply fold_den_both. Qed.

Lemma fold_prog_den t t' : fold_prog fb t = Some t' -> den' t' = den' t.
Proof.
  unfold fold_prog. pose proof (fold_tree_den false t) as H.
  destruct (fold_tree fb false t) as [t1 e]. cbn [fst] in H.
  destruct (e =? 0)%N; [|discriminate]. intros E. injection E as <-. exact H.
Qed.

End WithFb.

Lemma fold_expr_preserves keep t : den' (fst (fold_tree (fold_bin fo) keep t)) = den' t.
Proof. apply fold_tree_den. intros. apply fold_bin_sound. assumption. Qed.

Lemma fold_prog_preserves (set_line : N -> st -> st) p p' :
  fold_prog (fold_bin fo) p = Some p' ->
  forall lines s,
    run_lines fo st leaf_sem node_sem nowalk_sem other_bin other_int other_float set_line p' lines s =
    run_lines fo st leaf_sem node_sem nowalk_sem other_bin other_int other_float set_line p lines s.
Proof.
  intros H lines. apply fold_prog_den in H; [|intros; apply fold_bin_sound; assumption].
  unfold run_lines.
  induction lines as [|ln r IH]; intros s; cbn [fold_left]; [reflexivity|].
  unfold run_line at 2 4. rewrite H. apply IH.
Qed.

(* ---- errors: only a division or modulus by a constant zero ---- *)

Section Errors.
Let fb := fold_bin fo.

(* a `/` or `%` both of whose operands are constant (fold to literals) and
   whose divisor's constant is zero (Int 0, Float +0 or -0) *)
(* a `/` or `%` that is not itself a block's condition, both of whose operands
   are constant (fold to literals) and whose divisor's constant is zero
   (Int 0, Float +0 or -0).  The flag says: this node is a block's condition. *)
Inductive zero_div : bool -> tree F -> Prop :=
| ZD_here o l r a b :
    fst (fold_tree fb false l) = TLit a -> fst (fold_tree fb false r) = TLit b ->
    is_divmod o = true -> lit_is_zero fo b = true -> zero_div false (TBin o l r)
| ZD_left keep o l r : zero_div false l -> zero_div keep (TBin o l r)
| ZD_right keep o l r : zero_div false r -> zero_div keep (TBin o l r)
| ZD_node keep tag cs : zero_divs (N.eqb tag cond_tag) cs -> zero_div keep (TNode tag cs)
with zero_divs : bool -> trees F -> Prop :=
| ZD_head kf t ts : zero_div kf t -> zero_divs kf (TCons t ts)
| ZD_tail kf t ts : zero_divs false ts -> zero_divs kf (TCons t ts).

Lemma fold_errors_both :
  (forall t keep, snd (fold_tree fb keep t) <> 0%N <-> zero_div keep t) /\
  (forall ts kf, snd (fold_trees fb kf ts) <> 0%N <-> zero_divs kf ts).
Proof.
  apply tree_trees_ind.
  - intros l keep. cbn. split; [congruence|inversion 1].
  - intros i keep. cbn. split; [congruence|inversion 1].
  - intros o l IHl r IHr keep. cbn [fold_tree].
    specialize (IHl false). specialize (IHr false).
    destruct (fold_tree fb false l) as [l' el] eqn:El. destruct (fold_tree fb false r) as [r' er] eqn:Er.
    cbn [snd] in IHl, IHr.
    assert (Hsub : (el + er)%N <> 0%N -> zero_div keep (TBin o l r)).
    { intros H. destruct (N.eq_dec el 0) as [->|Hl].
      - apply ZD_right, IHr. lia.
      - apply ZD_left, IHl. exact Hl. }
    assert (Hinv : zero_div keep (TBin o l r) ->
                   (el + er)%N <> 0%N \/
                   (keep = false /\ exists a b, l' = TLit a /\ r' = TLit b /\ is_divmod o = true /\ lit_is_zero fo b = true)).
    { inversion 1; subst.
      - right. rewrite El in *. rewrite Er in *. cbn [fst] in *. eauto 10.
      - left. match goal with H : zero_div false l |- _ => apply IHl in H end. lia.
      - left. match goal with H : zero_div false r |- _ => apply IHr in H end. lia. }
    destruct keep.
    { cbn [snd]. split; [exact Hsub|]. intros H. apply Hinv in H as [H|[H _]]; [exact H|discriminate]. }
    assert (Hdef : snd (TBin o l' r', (el + er)%N) <> 0%N -> zero_div false (TBin o l r)) by exact Hsub.
    destruct l' as [a| | | |];
      try (split; [exact Hdef | intros H; apply Hinv in H as [H|(_ & a0 & b0 & Ha & _)]; [exact H|discriminate]]).
    destruct r' as [b| | | |];
      try (split; [exact Hdef | intros H; apply Hinv in H as [H|(_ & a0 & b0 & _ & Hb & _)]; [exact H|discriminate]]).
    destruct (fb o a b) as [v|] eqn:Ef.
    + split; [exact Hsub|]. cbn [snd]. intros H. apply Hinv in H as [H|(_ & a0 & b0 & Ha & Hb & Hd & Hz)]; [exact H|].
      injection Ha as <-. injection Hb as <-.
      assert (fb o a b = None) as Hn by (apply fold_bin_none; auto). congruence.
    + cbn [snd]. split; [|lia]. intros _.
      apply fold_bin_none in Ef as [Hd Hz].
      apply ZD_here with a b; auto; [rewrite El|rewrite Er]; reflexivity.
  - intros tag cs IH keep. rewrite fold_tree_node. specialize (IH (N.eqb tag cond_tag)).
    destruct (fold_trees fb (N.eqb tag cond_tag) cs) as [cs' e].
    cbn [snd] in *. split.
    + intros H. apply ZD_node, IH, H.
    + inversion 1; subst. apply IH. assumption.
  - intros tag t _ keep. cbn. split; [congruence|inversion 1].
  - intros kf. cbn. split; [congruence|inversion 1].
  - intros t IHt ts IHts kf. rewrite fold_trees_cons. specialize (IHt kf). specialize (IHts false).
    destruct (fold_tree fb kf t) as [t' e1]. destruct (fold_trees fb false ts) as [ts' e2].
    cbn [snd] in *. split.
    + intros H. destruct (N.eq_dec e1 0) as [->|H1].
      * apply ZD_tail, IHts. lia.
      * apply ZD_head, IHt, H1.
    + inversion 1; subst;
        [match goal with H : zero_div _ _ |- _ => apply IHt in H end
        |match goal with H : zero_divs _ _ |- _ => apply IHts in H end]; lia.
Qed.

Lemma fold_prog_none_iff t : fold_prog fb t = None <-> zero_div false t.
Proof.
  unfold fold_prog. pose proof (proj1 fold_errors_both t false) as H.
  destruct (fold_tree fb false t) as [t' e]. cbn [snd] in H.
  destruct (N.eqb_spec e 0) as [->|Hne].
  - split; [discriminate|]. intros Z. apply H in Z. congruence.
  - split; [|reflexivity]. intros _. apply H, Hne.
Qed.

End Errors.

(* ---- the checker's two literal-sensitive shape rules after folding ---- *)

Section Shape.
Let fb := fold_bin fo.

(* the (folded) tree has a `/` or `%` whose divisor is the literal Int 0 *)
Fixpoint has_izd (t : tree F) : bool :=
  match t with
  | TLit _ | TLeaf _ => false
  | TBin o l r => has_izd l || has_izd r || (is_divmod o && is_int_zero r)
  | TNode _ cs => has_izds cs
  | TNoWalk _ t => has_izd t
  end
with has_izds (ts : trees F) : bool :=
  match ts with TNil => false | TCons t r => has_izd t || has_izds r end.

(* the (source) tree has a CondStmt whose condition is a constant arithmetic
   expression: not a literal, but folding to one under the OLD folder *)
Fixpoint has_const_cond (t : tree F) : bool :=
  match t with
  | TLit _ | TLeaf _ | TNoWalk _ _ => false
  | TBin _ l r => has_const_cond l || has_const_cond r
  | TNode tag cs =>
      has_const_conds cs ||
      (N.eqb tag cond_tag &&
       match cs with
       | TCons c _ => negb (is_lit c) && is_lit (fst (fold_tree_old fb c))
       | TNil => false
       end)
  end
with has_const_conds (ts : trees F) : bool :=
  match ts with TNil => false | TCons t r => has_const_cond t || has_const_conds r end.

Lemma has_izd_node tag cs : has_izd (TNode tag cs) = has_izds cs.
Proof. reflexivity. Qed.
Lemma has_izds_cons t r : has_izds (TCons t r) = has_izd t || has_izds r.
Proof. reflexivity. Qed.

Lemma keep_is_lit t : is_lit (fst (fold_tree fb true t)) = is_lit t.
Proof.
  destruct t; try reflexivity.
  - cbn [fold_tree]. destruct (fold_tree fb false t1), (fold_tree fb false t2). reflexivity.
  - rewrite fold_tree_node. destruct (fold_trees fb _ cs). reflexivity.
Qed.

Lemma shape_both :
  (forall t keep, shape_ok' t = true ->
             has_izd (fst (fold_tree fb keep t)) = false ->
             shape_ok' (fst (fold_tree fb keep t)) = true) /\
  (forall ts kf, shapes_ok' ts = true ->
              has_izds (fst (fold_trees fb kf ts)) = false ->
              shapes_ok' (fst (fold_trees fb kf ts)) = true).
Proof.
  apply tree_trees_ind.
  - reflexivity.
  - reflexivity.
  - intros o l IHl r IHr keep Hs. cbn [fold_tree].
    specialize (IHl false). specialize (IHr false).
    pose proof (fold_expr_preserves false l) as Dl.
    destruct (fold_tree fb false l) as [l' el] eqn:El. destruct (fold_tree fb false r) as [r' er] eqn:Er.
    cbn [fst] in *.
    cbn [shape_ok] in Hs. apply andb_true_iff in Hs as [Hs _]. apply andb_true_iff in Hs as [Hsl Hsr].
    assert (Hdef : has_izd (TBin o l' r') = false -> shape_ok' (TBin o l' r') = true).
    { cbn [has_izd shape_ok]. intros H. apply orb_false_iff in H as [H Hz].
      apply orb_false_iff in H as [Hl Hr].
      rewrite (IHl Hsl Hl), (IHr Hsr Hr), Hz. reflexivity. }
    destruct keep; [exact Hdef|].
    destruct l' as [a| | | |]; try exact Hdef.
    destruct r' as [b| | | |]; try exact Hdef.
    destruct (fb o a b); [reflexivity|exact Hdef].
  - intros tag cs IH keep Hs. rewrite fold_tree_node. specialize (IH (N.eqb tag cond_tag)).
    destruct (fold_trees fb (N.eqb tag cond_tag) cs) as [cs' e] eqn:Ec. cbn [fst] in *.
    rewrite shape_ok_node in Hs. apply andb_true_iff in Hs as [Hs Hcond].
    rewrite has_izd_node, shape_ok_node. intros Hz. rewrite (IH Hs Hz). cbn [andb].
    destruct (N.eqb tag cond_tag) eqn:Et; [|reflexivity].
    destruct cs as [|c rest].
    + cbn in Ec. injection Ec as <- _. reflexivity.
    + rewrite fold_trees_cons in Ec. pose proof (keep_is_lit c) as Hk.
      destruct (fold_tree fb true c) as [c' e1]. destruct (fold_trees fb false rest) as [rest' e2].
      injection Ec as <- _. cbn [fst] in Hk. rewrite Hk. exact Hcond.
  - intros tag t _ keep Hs _. exact Hs.
  - reflexivity.
  - intros t IHt ts IHts kf Hs. rewrite fold_trees_cons. specialize (IHt kf). specialize (IHts false).
    destruct (fold_tree fb kf t) as [t' e1]. destruct (fold_trees fb false ts) as [ts' e2].
    cbn [fst] in *. rewrite shapes_ok_cons in Hs. apply andb_true_iff in Hs as [H1 H2].
    rewrite has_izds_cons, shapes_ok_cons. intros Hz. apply orb_false_iff in Hz as [Z1 Z2].
    rewrite (IHt H1 Z1), (IHts H2 Z2). reflexivity.
Qed.

Lemma shape_after_fold t :
  shape_ok' t = true -> shape_ok' (fst (fold_tree fb false t)) = false ->
  has_izd (fst (fold_tree fb false t)) = true.
Proof.
  intros Hs Hf.
  destruct (has_izd (fst (fold_tree fb false t))) eqn:Hz; [reflexivity|].
  rewrite (proj1 shape_both t false Hs Hz) in Hf. discriminate.
Qed.

End Shape.

End Proofs.
