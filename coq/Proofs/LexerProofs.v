(* Proofs about Lang/Lexer.v: the lexer model always reaches its final state
   with an EOF token last, within a linear number of state-function calls and
   rune reads; INVALID tokens become parser errors; the Compile glue returns an
   object xor a non-empty error list. *)
From V Require Import Base.Bytes Lang.Lexer.
Local Open Scope Z_scope.

Section LexerProofs.
Variable cls : Z -> N.

Notation next := Lexer.next.
Notation step := (Lexer.step cls).

Definition len (s : st) : Z := Z.of_nat (length (inp s)).
(* 1 if the current rune would be pushed back by backup *)
Definition ne (s : st) : Z := if cur_r s =? eof then 0 else 1.

Lemma len_nonneg s : 0 <= len s.
Proof. unfold len. lia. Qed.
Lemma ne_range s : 0 <= ne s <= 1.
Proof. unfold ne. destruct (cur_r s =? eof); lia. Qed.
Lemma ne_one s : cur_r s <> eof -> ne s = 1.
Proof. unfold ne. intros H. destruct (Z.eqb_spec (cur_r s) eof); [contradiction|reflexivity]. Qed.
Lemma ne_zero s : cur_r s = eof -> ne s = 0.
Proof. unfold ne. intros ->. reflexivity. Qed.

Lemma isDigit_not_eof r : isDigit cls r = true -> r <> eof.
Proof. unfold isDigit, eof. intros H ->. discriminate. Qed.
Lemma isAlpha_not_eof r : isAlpha cls r = true -> r <> eof.
Proof. unfold isAlpha, eof. intros H ->. discriminate. Qed.

(* ---- the primitives, seen through the fields the argument needs ---- *)

(* cursor/text/token operations leave input, read counter, current rune and
   InRegex alone *)
Definition same (s s' : st) : Prop :=
  inp s' = inp s /\ reads s' = reads s /\ cur_r s' = cur_r s /\ inregex s' = inregex s.

Lemma same_refl s : same s s.
Proof. repeat split. Qed.
Lemma same_trans a b c : same a b -> same b c -> same a c.
Proof. unfold same. intros (A1 & A2 & A3 & A4) (B1 & B2 & B3 & B4). repeat split; congruence. Qed.

Lemma same_step_cursor s : same s (step_cursor s).
Proof. unfold step_cursor, same. destruct (cur_r s =? 10); cbn; repeat split. Qed.
Lemma same_push_text r s : same s (push_text r s).
Proof. unfold push_text, same. cbn. repeat split. Qed.
Lemma same_accept s : same s (accept s).
Proof. unfold accept. eapply same_trans; [apply same_push_text|]. apply same_step_cursor. Qed.
Lemma same_skip s : same s (skip s).
Proof. apply same_step_cursor. Qed.
Lemma same_ignore s : same s (ignore s).
Proof.
  unfold ignore. eapply same_trans; [apply same_step_cursor|].
  unfold same. cbn. repeat split.
Qed.
Lemma same_send k sp s : same s (send k sp s).
Proof. unfold send, same. cbn. repeat split. Qed.
Lemma same_emit k s : same s (emit k s).
Proof. apply same_send. Qed.
Lemma same_errorf_unexpected r s : same s (errorf_unexpected r s).
Proof. apply same_send. Qed.
Lemma same_errorf_unterm e s : same s (errorf_unterm e s).
Proof. apply same_send. Qed.

Lemma same_len s s' : same s s' -> len s' = len s.
Proof. intros (H & _). unfold len. rewrite H. reflexivity. Qed.
Lemma same_ne s s' : same s s' -> ne s' = ne s.
Proof. intros (_ & _ & H & _). unfold ne. rewrite H. reflexivity. Qed.
Lemma same_reads s s' : same s s' -> reads s' = reads s.
Proof. intros (_ & H & _). exact H. Qed.
Lemma same_cur s s' : same s s' -> cur_r s' = cur_r s.
Proof. intros (_ & _ & H & _). exact H. Qed.
Lemma same_inregex s s' : same s s' -> inregex s' = inregex s.
Proof. intros (_ & _ & _ & H). exact H. Qed.

(* next: one more read; the input shrinks by the rune that is now current *)
Lemma next_spec s :
  reads (next s) = reads s + 1 /\ len (next s) + ne (next s) <= len s /\
  len (next s) <= len s /\ inregex (next s) = inregex s /\
  (inp s = [] -> cur_r (next s) = eof).
Proof.
  unfold Lexer.next, len, ne. destruct (inp s) as [|[r w] tl] eqn:E; cbn.
  - repeat split; lia.
  - destruct (r =? SYMNL); cbn.
    + repeat split; try lia; try discriminate.
    + destruct (r =? eof); repeat split; try lia; try discriminate.
Qed.

Lemma next_cons s r w tl :
  inp s = (r, w) :: tl ->
  inp (next s) = tl /\ cur_r (next s) = (if r =? SYMNL then eof else r).
Proof. intros E. unfold Lexer.next. rewrite E. cbn. split; reflexivity. Qed.

Lemma next_nil s : inp s = [] -> inp (next s) = [].
Proof. intros E. unfold Lexer.next. rewrite E. reflexivity. Qed.

Lemma backup_spec s :
  reads (backup s) = reads s /\ len (backup s) = len s + ne s /\ inregex (backup s) = inregex s.
Proof.
  unfold backup, len, ne. destruct (cur_r s =? eof); cbn; repeat split; lia.
Qed.

Lemma backup_inp s : cur_r s <> eof -> inp (backup s) = (cur_r s, cur_w s) :: inp s.
Proof.
  intros H. unfold backup. destruct (Z.eqb_spec (cur_r s) eof); [contradiction|reflexivity].
Qed.

(* ---- loops ---- *)

(* [bnd s s']: s' was reached from s by reading ahead; the last rune read is
   still current (not yet accepted or backed up) *)
Definition bnd (s s' : st) : Prop :=
  reads s <= reads s' /\ reads s' + len s' + ne s' <= reads s + len s + 1 /\
  len s' + ne s' <= len s /\ inregex s' = inregex s.

Lemma bnd_next s : bnd s (next s).
Proof.
  destruct (next_spec s) as (R & L & L' & I & _). pose proof (ne_range (next s)).
  unfold bnd. repeat split; try lia. exact I.
Qed.

Lemma take_while_bnd p l : forall s, inp s = l -> bnd s (take_while p l s).
Proof.
  induction l as [|it tl IH]; intros s E; cbn [take_while].
  - apply bnd_next.
  - destruct it as [r w]. destruct (next_cons s r w tl E) as (E1 & _).
    destruct (p (cur_r (next s))) eqn:P; [|apply bnd_next].
    pose proof (same_accept (next s)) as SA.
    assert (Ea : inp (accept (next s)) = tl) by (destruct SA as (H & _); congruence).
    specialize (IH _ Ea). destruct IH as (R & M & L & I).
    rewrite (same_reads _ _ SA), (same_len _ _ SA) in *.
    rewrite (same_inregex _ _ SA) in I.
    destruct (next_spec s) as (R1 & L1 & L1' & I1 & _).
    assert (len (next s) + 1 <= len s).
    { unfold len. rewrite E, E1. cbn [length]. lia. }
    unfold bnd. split; [lia|]. split; [lia|]. split; [lia|]. congruence.
Qed.

(* results of loops that have finished their token: nothing is pending *)
Definition fin (s s' : st) : Prop :=
  reads s <= reads s' /\ reads s' + len s' <= reads s + len s + 1 /\
  len s' <= len s /\ inregex s' = inregex s.

Lemma fin_of_same s s1 s' : fin s s1 -> same s1 s' -> fin s s'.
Proof.
  intros (R & M & L & I) S. unfold fin.
  rewrite (same_reads _ _ S), (same_len _ _ S), (same_inregex _ _ S). auto.
Qed.

Lemma fin_of_bnd_backup s s' : bnd s s' -> fin s (backup s').
Proof.
  intros (R & M & L & I). destruct (backup_spec s') as (R1 & L1 & I1).
  unfold fin. rewrite R1, L1, I1. repeat split; try lia. exact I.
Qed.

Lemma fin_of_bnd s s' : bnd s s' -> fin s s'.
Proof.
  intros (R & M & L & I). pose proof (ne_range s'). unfold fin. repeat split; try lia. exact I.
Qed.

Lemma comment_loop_fin l : forall s, inp s = l -> fin s (comment_loop l s).
Proof.
  induction l as [|it tl IH]; intros s E; cbn [comment_loop].
  - apply fin_of_bnd, bnd_next.
  - destruct it as [r w]. destruct (next_cons s r w tl E) as (E1 & _).
    destruct (cur_r (next s) =? 10).
    { eapply fin_of_same; [apply fin_of_bnd, bnd_next|apply same_skip]. }
    destruct (cur_r (next s) =? eof).
    { apply fin_of_bnd, bnd_next. }
    pose proof (same_ignore (next s)) as SA.
    assert (Ea : inp (ignore (next s)) = tl) by (destruct SA as (H & _); congruence).
    specialize (IH _ Ea). destruct IH as (R & M & L & I).
    rewrite (same_reads _ _ SA), (same_len _ _ SA) in *. rewrite (same_inregex _ _ SA) in I.
    destruct (next_spec s) as (R1 & L1 & L1' & I1 & _).
    assert (len (next s) + 1 <= len s).
    { unfold len. rewrite E, E1. cbn [length]. lia. }
    unfold fin. repeat split; try lia. congruence.
Qed.

Lemma unterm_same b s : same s (unterm b s).
Proof. unfold unterm. apply same_errorf_unterm. Qed.

Lemma close_quoted_fin b s s1 : bnd s s1 -> cur_r s1 <> eof -> fin s (close_quoted b s1).
Proof.
  intros B H. unfold close_quoted. destruct b.
  - eapply fin_of_same; [apply fin_of_bnd_backup, B|apply same_emit].
  - eapply fin_of_same; [apply fin_of_bnd, B|].
    eapply same_trans; [apply same_skip|apply same_emit].
Qed.

Lemma quoted_loop_fin_n b q n :
  forall l, (length l <= n)%nat -> forall s, inp s = l -> fin s (quoted_loop b q l s).
Proof.
  induction n as [|n IH]; intros l Hn s E.
  { destruct l; [|cbn in Hn; lia]. cbn [quoted_loop].
    eapply fin_of_same; [apply fin_of_bnd, bnd_next|apply unterm_same]. }
  destruct l as [|it tl]; cbn [quoted_loop].
  - eapply fin_of_same; [apply fin_of_bnd, bnd_next|apply unterm_same].
  - destruct it as [r w]. destruct (next_cons s r w tl E) as (E1 & C1).
    destruct (next_spec s) as (R1 & L1 & L1' & I1 & _).
    assert (Lc : len (next s) + 1 <= len s).
    { unfold len. rewrite E, E1. cbn [length]. lia. }
    destruct (cur_r (next s) =? 92) eqn:Q92.
    + (* escape *)
      pose proof (same_skip (next s)) as SS.
      set (s2 := skip (next s)) in *.
      assert (E2 : inp s2 = tl) by (destruct SS as (H0 & _); congruence).
      destruct tl as [|it2 tl2].
      * eapply fin_of_same; [|apply unterm_same].
        destruct (bnd_next s2) as (Ra & Ma & La & Ia).
        rewrite (same_reads _ _ SS), (same_len _ _ SS), (same_inregex _ _ SS) in *.
        pose proof (ne_range (next s2)). unfold fin. repeat split; try lia. congruence.
      * destruct it2 as [r2 w2]. destruct (next_cons s2 r2 w2 tl2 E2) as (E3 & C3).
        destruct (next_spec s2) as (R3 & L3 & L3' & I3 & _).
        rewrite (same_reads _ _ SS), (same_len _ _ SS), (same_inregex _ _ SS) in *.
        assert (Lc3 : len (next s2) + 1 <= len (next s)).
        { rewrite <- (same_len _ _ SS). unfold len. rewrite E2, E3. cbn [length]. lia. }
        destruct (negb (cur_r (next s2) =? eof) && negb (cur_r (next s2) =? 10)).
        -- set (s4 := accept (if cur_r (next s2) =? q then next s2 else push_text 92 (next s2))).
           assert (S4 : same (next s2) s4).
           { unfold s4. destruct (cur_r (next s2) =? q).
             - apply same_accept.
             - eapply same_trans; [apply same_push_text|apply same_accept]. }
           assert (E4 : inp s4 = tl2) by (destruct S4 as (H0 & _); congruence).
           assert (Hlt : (length tl2 <= n)%nat) by (cbn in Hn; lia).
           destruct (IH tl2 Hlt s4 E4) as (R & M & L & I).
           rewrite (same_reads _ _ S4), (same_len _ _ S4), (same_inregex _ _ S4) in *.
           unfold fin. repeat split; try lia. congruence.
        -- eapply fin_of_same; [|apply unterm_same].
           unfold fin. repeat split; try lia. congruence.
    + destruct ((cur_r (next s) =? eof) || (cur_r (next s) =? 10)) eqn:Qe.
      { eapply fin_of_same; [apply fin_of_bnd, bnd_next|apply unterm_same]. }
      destruct (cur_r (next s) =? q).
      { apply close_quoted_fin; [apply bnd_next|].
        apply Bool.orb_false_iff in Qe. destruct Qe as (Qe & _).
        apply Z.eqb_neq in Qe. exact Qe. }
      pose proof (same_accept (next s)) as SA.
      assert (Ea : inp (accept (next s)) = tl) by (destruct SA as (H0 & _); congruence).
      assert (Hlt : (length tl <= n)%nat) by (cbn in Hn; lia).
      destruct (IH tl Hlt _ Ea) as (R & M & L & I).
      rewrite (same_reads _ _ SA), (same_len _ _ SA), (same_inregex _ _ SA) in *.
      unfold fin. repeat split; try lia. congruence.
Qed.

Lemma quoted_loop_fin b q s : fin s (quoted_loop b q (inp s) s).
Proof. eapply quoted_loop_fin_n; [apply le_n|reflexivity]. Qed.

Lemma mode_eq_dec_done (m : mode) : {m = MDone} + {m <> MDone}.
Proof. destruct m; (left; reflexivity) || (right; discriminate). Qed.

(* ---- the potential ---- *)

Definition wgt (m : mode) (b : bool) : Z :=
  match m with
  | MDone => 0
  | MRegex => 4
  | MNumeric => if b then 3 else 0
  | MProg => 2 + (if b then 3 else 0)
  | _ => 4 + (if b then 3 else 0)
  end.
Definition phi (m : mode) (s : st) : Z := 5 * len s + wgt m (inregex s).

(* lexNumeric is only entered with a digit or '.' pushed back *)
Definition inv (m : mode) (s : st) : Prop :=
  m = MNumeric ->
  exists r wd tl, inp s = (r, wd) :: tl /\ r <> SYMNL /\ (isDigit cls r = true \/ r = 46).
Definition eof_last (s : st) : Prop := exists t rest, out s = t :: rest /\ t_kind t = EOF.

Definition good (m : mode) (s : st) (m' : mode) (s' : st) : Prop :=
  reads s <= reads s' /\ reads s' + 1 + phi m' s' <= reads s + phi m s /\
  inv m' s' /\ (m' = MDone -> eof_last s').

Lemma inv_trivial m s : m <> MNumeric -> inv m s.
Proof. intros H E. contradiction. Qed.

Lemma cur_next_not_symnl s : cur_r (next s) <> SYMNL.
Proof.
  unfold Lexer.next. destruct (inp s) as [|[r w] tl]; cbn; [discriminate|].
  destruct (Z.eqb_spec r SYMNL); [discriminate|assumption].
Qed.

(* a sub-state function that finishes its token and returns lexProg *)
Lemma good_fin m s s' :
  fin s s' -> wgt m (inregex s) = 4 + (if inregex s then 3 else 0) -> good m s MProg s'.
Proof.
  intros (R & M & L & I) W. unfold good, phi. rewrite I, W. cbn [wgt].
  split; [exact R|]. split; [lia|]. split; [apply inv_trivial; discriminate|discriminate].
Qed.

(* ---- lexProg ---- *)

Section Prog.
Variable s : st.
Hypothesis Hreg : inregex s = false.
Let s1 := next s.
Hypothesis Hne : cur_r s1 <> eof.

Lemma s1_facts : reads s1 = reads s + 1 /\ len s1 + 1 <= len s /\ inregex s1 = false.
Proof.
  destruct (next_spec s) as (R & L & _ & I & _). pose proof (ne_one _ Hne) as N1.
  fold s1 in R, L, I. repeat split; try lia. congruence.
Qed.

Lemma good_same_prog s' : same s1 s' -> good MProg s MProg s'.
Proof.
  intros S. destruct s1_facts as (R & L & I).
  unfold good, phi. rewrite (same_reads _ _ S), (same_len _ _ S), (same_inregex _ _ S), I, Hreg.
  cbn [wgt]. split; [lia|]. split; [lia|]. split; [apply inv_trivial; discriminate|discriminate].
Qed.

Lemma good_one k : good MProg s MProg (snd (one k s1)).
Proof.
  apply good_same_prog. cbn. eapply same_trans; [apply same_accept|apply same_emit].
Qed.

Lemma good_sub m : wgt m false = 4 -> m <> MNumeric -> m <> MDone -> good MProg s m s1.
Proof.
  intros W N D. destruct s1_facts as (R & L & I).
  unfold good, phi. rewrite I, Hreg, W. cbn [wgt].
  split; [lia|]. split; [lia|]. split; [apply inv_trivial; exact N|intros; contradiction].
Qed.

(* after a second read: the token ends with that rune or before it *)
Lemma good_second s' :
  (same (next (accept s1)) s' \/ same (backup (next (accept s1))) s') -> good MProg s MProg s'.
Proof.
  intros S. destruct s1_facts as (R & L & I).
  pose proof (same_accept s1) as SA.
  destruct (next_spec (accept s1)) as (R2 & L2 & L2' & I2 & _).
  destruct (backup_spec (next (accept s1))) as (R3 & L3 & I3).
  rewrite (same_reads _ _ SA), (same_len _ _ SA), (same_inregex _ _ SA) in *.
  unfold good, phi. rewrite Hreg.
  destruct S as [S|S];
    rewrite (same_reads _ _ S), (same_len _ _ S), (same_inregex _ _ S); cbn [wgt].
  - rewrite I2, I. split; [lia|]. split; [lia|]. split; [apply inv_trivial; discriminate|discriminate].
  - rewrite I3, I2, I, R3, L3. split; [lia|]. split; [lia|].
    split; [apply inv_trivial; discriminate|discriminate].
Qed.

Lemma good_two alts dflt : good MProg s MProg (two alts dflt s1).
Proof.
  apply good_second. unfold two. destruct (alt_kind _ alts).
  - left. eapply same_trans; [apply same_accept|apply same_emit].
  - right. apply same_emit.
Qed.

Lemma good_div : good MProg s MProg (after_div (emit DIV (accept s1))).
Proof.
  destruct s1_facts as (R & L & I).
  assert (S : same s1 (emit DIV (accept s1))).
  { eapply same_trans; [apply same_accept|apply same_emit]. }
  set (s2 := emit DIV (accept s1)) in *.
  assert (A : reads (after_div s2) = reads s2 /\ len (after_div s2) = len s2).
  { unfold after_div, len. destruct (rx s2); cbn; split; reflexivity. }
  destruct A as (A1 & A2).
  unfold good, phi. rewrite A1, A2, (same_reads _ _ S), (same_len _ _ S), Hreg. cbn [wgt].
  split; [lia|]. split; [destruct (inregex (after_div s2)); lia|].
  split; [apply inv_trivial; discriminate|discriminate].
Qed.

Lemma inv_backup_numeric s2 :
  cur_r s2 <> SYMNL -> (isDigit cls (cur_r s2) = true \/ cur_r s2 = 46) -> inv MNumeric (backup s2).
Proof.
  intros H1 H2 _. exists (cur_r s2), (cur_w s2), (inp s2). split; [|split; assumption].
  apply backup_inp. destruct H2 as [H2|H2]; [apply isDigit_not_eof; exact H2|rewrite H2; discriminate].
Qed.

Lemma good_numeric : (isDigit cls (cur_r s1) = true \/ cur_r s1 = 46) -> good MProg s MNumeric (backup s1).
Proof.
  intros H. destruct s1_facts as (R & L & I).
  destruct (backup_spec s1) as (R3 & L3 & I3). pose proof (ne_one _ Hne).
  unfold good, phi. rewrite R3, L3, I3, I, Hreg. cbn [wgt].
  split; [lia|]. split; [lia|]. split; [|discriminate].
  apply inv_backup_numeric; [apply cur_next_not_symnl|exact H].
Qed.

Lemma good_minus_numeric :
  isDigit cls (cur_r (next (accept s1))) = true -> good MProg s MNumeric (backup (next (accept s1))).
Proof.
  intros H. destruct s1_facts as (R & L & I).
  pose proof (same_accept s1) as SA.
  destruct (next_spec (accept s1)) as (R2 & L2 & L2' & I2 & _).
  destruct (backup_spec (next (accept s1))) as (R3 & L3 & I3).
  rewrite (same_reads _ _ SA), (same_len _ _ SA), (same_inregex _ _ SA) in *.
  unfold good, phi. rewrite R3, L3, I3, I2, I, Hreg. cbn [wgt].
  split; [lia|]. split; [lia|]. split; [|discriminate].
  apply inv_backup_numeric; [apply cur_next_not_symnl|left; exact H].
Qed.

End Prog.

Lemma isSpace_not_eof r : isSpace cls r = true -> r <> eof.
Proof. unfold isSpace, eof. intros H ->. discriminate. Qed.

Lemma lex_prog_good s : let (m', s') := lex_prog cls s in good MProg s m' s'.
Proof.
  unfold lex_prog. destruct (inregex s) eqn:Hreg.
  { (* straight to lexRegex *)
    unfold good, phi. rewrite Hreg. cbn [wgt].
    split; [lia|]. split; [lia|]. split; [apply inv_trivial; discriminate|discriminate]. }
  set (s1 := next s). unfold one.
  repeat match goal with
  | |- context [if cur_r s1 =? eof then _ else _] =>
      let H := fresh "Heof" in destruct (Z.eqb_spec (cur_r s1) eof) as [H|H]
  | |- context [if cur_r s1 =? ?c then _ else _] =>
      let H := fresh "H" in
      destruct (Z.eqb_spec (cur_r s1) c) as [H|H];
      [ assert (cur_r s1 <> eof) by (rewrite H; discriminate) | ]
  | |- context [if isSpace cls (cur_r s1) then _ else _] =>
      let H := fresh "H" in
      destruct (isSpace cls (cur_r s1)) eqn:H;
      [ assert (cur_r s1 <> eof) by (apply isSpace_not_eof; exact H) | ]
  | |- context [if isDigit cls (cur_r s1) then _ else _] =>
      let H := fresh "H" in
      destruct (isDigit cls (cur_r s1)) eqn:H;
      [ assert (cur_r s1 <> eof) by (apply isDigit_not_eof; exact H) | ]
  | |- context [if isAlpha cls (cur_r s1) then _ else _] =>
      let H := fresh "H" in
      destruct (isAlpha cls (cur_r s1)) eqn:H;
      [ assert (cur_r s1 <> eof) by (apply isAlpha_not_eof; exact H) | ]
  end;
  cbv beta iota;
  try (exfalso; congruence);
  try match goal with
  | Hne : cur_r s1 <> eof |- good MProg s MProg (emit ?k (accept s1)) =>
      exact (good_one s Hreg Hne k)
  | Hne : cur_r s1 <> eof |- good MProg s MProg (two ?a ?d s1) => exact (good_two s Hreg Hne a d)
  | Hne : cur_r s1 <> eof |- good MProg s MNumeric (backup s1) =>
      apply (good_numeric s Hreg Hne); auto
  | Hne : cur_r s1 <> eof |- good MProg s MProg (after_div _) => exact (good_div s Hreg Hne)
  | Hne : cur_r s1 <> eof |- good MProg s MProg (ignore s1) =>
      apply (good_same_prog s Hreg Hne); apply same_ignore
  | Hne : cur_r s1 <> eof |- good MProg s ?m s1 =>
      apply (good_sub s Hreg Hne); [reflexivity|discriminate|discriminate]
  end.
  - (* eof *)
    destruct (next_spec s) as (R & L & L' & I & _). fold s1 in R, L, L', I.
    assert (S : same s1 (emit EOF (skip s1))).
    { eapply same_trans; [apply same_skip|apply same_emit]. }
    unfold good, phi. rewrite (same_reads _ _ S), (same_len _ _ S), Hreg. cbn [wgt].
    split; [lia|]. split; [lia|]. split; [apply inv_trivial; discriminate|].
    intros _. unfold eof_last, emit, send. cbn. eexists _, _. split; reflexivity.
  - (* '-' *)
    match goal with Hne : cur_r s1 <> eof |- _ =>
      destruct (cur_r (next (accept s1)) =? 45); cbv beta iota;
      [ apply (good_second s Hreg Hne); left; eapply same_trans; [apply same_accept|apply same_emit] | ];
      destruct (isDigit cls (cur_r (next (accept s1)))) eqn:D; cbv beta iota;
      [ apply (good_minus_numeric s Hreg Hne D) | ];
      apply (good_second s Hreg Hne); right; apply same_emit
    end.
  - (* '!' *)
    match goal with Hne : cur_r s1 <> eof |- _ =>
      destruct (cur_r (next (accept s1)) =? 61); cbv beta iota;
      [ apply (good_second s Hreg Hne); left; eapply same_trans; [apply same_accept|apply same_emit] | ];
      destruct (cur_r (next (accept s1)) =? 126); cbv beta iota;
      [ apply (good_second s Hreg Hne); left; eapply same_trans; [apply same_accept|apply same_emit] | ];
      apply (good_second s Hreg Hne); right; apply same_errorf_unexpected
    end.
  - (* unexpected input *)
    apply (good_same_prog s Hreg); [assumption|].
    eapply same_trans; [apply same_accept|apply same_errorf_unexpected].
Qed.

(* ---- the token-finishing state functions ---- *)

Lemma wgt_sub b m :
  m = MComment \/ m = MDuration \/ m = MString \/ m = MCapref \/ m = MDeco \/ m = MIdent ->
  wgt m b = 4 + (if b then 3 else 0).
Proof. intros [H|[H|[H|[H|[H|H]]]]]; rewrite H; reflexivity. Qed.

Lemma fin_same_l s s0 s' : same s s0 -> fin s0 s' -> fin s s'.
Proof.
  intros S (R & M & L & I). unfold fin.
  rewrite (same_reads _ _ S), (same_len _ _ S), (same_inregex _ _ S) in *. auto.
Qed.

Lemma lex_comment_good s : let (m', s') := lex_comment s in good MComment s m' s'.
Proof.
  unfold lex_comment. apply good_fin; [|apply wgt_sub; auto].
  eapply fin_same_l; [apply same_ignore|]. apply comment_loop_fin. reflexivity.
Qed.

Lemma lex_string_good s : let (m', s') := lex_string s in good MString s m' s'.
Proof.
  unfold lex_string. apply good_fin; [|apply wgt_sub; auto 10].
  eapply fin_same_l; [apply same_skip|]. apply quoted_loop_fin.
Qed.

Lemma tw_backup_fin p s : fin s (backup (take_while p (inp s) s)).
Proof. apply fin_of_bnd_backup, take_while_bnd. reflexivity. Qed.

Lemma lex_duration_good s : let (m', s') := lex_duration cls s in good MDuration s m' s'.
Proof.
  unfold lex_duration. apply good_fin; [|apply wgt_sub; auto 10].
  eapply fin_of_same; [apply tw_backup_fin|apply same_emit].
Qed.

Lemma lex_capref_good s : let (m', s') := lex_capref cls s in good MCapref s m' s'.
Proof.
  unfold lex_capref. apply good_fin; [|apply wgt_sub; auto 10].
  eapply fin_same_l; [apply same_skip|].
  eapply fin_of_same; [apply tw_backup_fin|apply same_emit].
Qed.

Lemma lex_deco_good s : let (m', s') := lex_deco cls s in good MDeco s m' s'.
Proof.
  unfold lex_deco. apply good_fin; [|apply wgt_sub; auto 10].
  eapply fin_same_l; [apply same_skip|].
  eapply fin_of_same; [apply tw_backup_fin|apply same_emit].
Qed.

Lemma lex_ident_good s : let (m', s') := lex_ident cls s in good MIdent s m' s'.
Proof.
  unfold lex_ident. apply good_fin; [|apply wgt_sub; auto 10].
  eapply fin_same_l; [apply same_accept|].
  eapply fin_of_same; [apply tw_backup_fin|apply same_emit].
Qed.

Lemma lex_regex_good s : let (m', s') := lex_regex s in good MRegex s m' s'.
Proof.
  unfold lex_regex. destruct (quoted_loop_fin true 47 s) as (R & M & L & I).
  set (s2 := quoted_loop true 47 (inp s) s) in *.
  assert (A : reads (set_inregex false s2) = reads s2 /\ len (set_inregex false s2) = len s2
              /\ inregex (set_inregex false s2) = false).
  { unfold set_inregex, len. cbn. repeat split. }
  destruct A as (A1 & A2 & A3).
  unfold good, phi. rewrite A1, A2, A3. cbn [wgt].
  split; [lia|]. split; [lia|]. split; [apply inv_trivial; discriminate|discriminate].
Qed.

(* ---- lexNumeric ---- *)

(* from y, with its current rune still pending, to z, likewise *)
Definition pend (y z : st) : Prop :=
  reads y <= reads z /\ reads z + len z + ne z <= reads y + len y + ne y /\
  len z + ne z <= len y + ne y /\ inregex z = inregex y.
(* ... after the pending rune of y was accepted *)
Definition spend (y z : st) : Prop :=
  reads y <= reads z /\ reads z + len z + ne z <= reads y + len y + ne y /\
  len z + ne z + 1 <= len y + ne y /\ inregex z = inregex y.
(* bnd with at least one rune consumed for good *)
Definition sb (s y : st) : Prop := bnd s y /\ len y + ne y + 1 <= len s.

Lemma pend_refl y : pend y y.
Proof. unfold pend. repeat split; lia. Qed.
Lemma pend_trans a b c : pend a b -> pend b c -> pend a c.
Proof.
  intros (A1 & A2 & A3 & A4) (B1 & B2 & B3 & B4). unfold pend. repeat split; try lia. congruence.
Qed.
Lemma spend_pend y z : spend y z -> pend y z.
Proof. intros (A1 & A2 & A3 & A4). unfold pend. repeat split; try lia. exact A4. Qed.
Lemma sb_pend s y z : sb s y -> pend y z -> sb s z.
Proof.
  intros ((B1 & B2 & B3 & B4) & B5) (A1 & A2 & A3 & A4). unfold sb, bnd.
  repeat split; try lia. congruence.
Qed.
Lemma bnd_spend s y z : bnd s y -> spend y z -> sb s z.
Proof.
  intros (B1 & B2 & B3 & B4) (A1 & A2 & A3 & A4). unfold sb, bnd.
  repeat split; try lia. congruence.
Qed.

Lemma spend_of_bnd_accept y z : cur_r y <> eof -> bnd (accept y) z -> spend y z.
Proof.
  intros H (B1 & B2 & B3 & B4). pose proof (same_accept y) as SA.
  rewrite (same_reads _ _ SA), (same_len _ _ SA), (same_inregex _ _ SA) in *.
  pose proof (ne_one _ H). unfold spend. repeat split; try lia. exact B4.
Qed.

Lemma spend_accept_next y : cur_r y <> eof -> spend y (next (accept y)).
Proof. intros H. apply spend_of_bnd_accept; [exact H|apply bnd_next]. Qed.

Lemma spend_accept_tw p y :
  cur_r y <> eof -> spend y (take_while p (inp (accept y)) (accept y)).
Proof. intros H. apply spend_of_bnd_accept; [exact H|apply take_while_bnd; reflexivity]. Qed.

Lemma pend_tw_cur_digit y : pend y (take_while_cur (isDigit cls) y).
Proof.
  unfold take_while_cur. destruct (isDigit cls (cur_r y)) eqn:D; [|apply pend_refl].
  apply spend_pend, spend_accept_tw, isDigit_not_eof, D.
Qed.

Lemma isDur_not_eof r : isDurationSuffix r = true -> r <> eof.
Proof. unfold isDurationSuffix, eof. intros H ->. discriminate. Qed.

Lemma good_numeric_prog s z :
  sb s z -> good MNumeric s MProg (backup z).
Proof.
  intros ((B1 & B2 & B3 & B4) & B5). destruct (backup_spec z) as (R & L & I).
  unfold good, phi. rewrite R, L, I, B4. cbn [wgt].
  split; [lia|]. split; [destruct (inregex s); lia|].
  split; [apply inv_trivial; discriminate|discriminate].
Qed.

Lemma lex_numeric_good s :
  inv MNumeric s -> let (m', s') := lex_numeric cls s in good MNumeric s m' s'.
Proof.
  intros Hinv. destruct (Hinv eq_refl) as (r & wd & tl & E & Hsym & Hr).
  unfold lex_numeric.
  set (s1 := take_while (isDigit cls) (inp s) s).
  assert (B1 : bnd s s1) by (apply take_while_bnd; reflexivity).
  assert (C1 : sb s s1 \/ cur_r s1 = 46).
  { unfold s1. rewrite E. cbn [take_while].
    destruct (next_cons s r wd tl E) as (E1 & C).
    assert (Cr : cur_r (next s) = r).
    { rewrite C. destruct (Z.eqb_spec r SYMNL); [contradiction|reflexivity]. }
    rewrite Cr.
    destruct (isDigit cls r) eqn:D.
    - left. apply bnd_spend with (y := next s); [apply bnd_next|].
      pose proof (same_accept (next s)) as SA.
      assert (Ea : inp (accept (next s)) = tl) by (destruct SA as (H0 & _); congruence).
      rewrite <- Ea. apply spend_accept_tw. rewrite Cr. apply isDigit_not_eof, D.
    - right. destruct Hr as [Hr|Hr]; [congruence|]. rewrite Cr. exact Hr. }
  destruct (negb ((cur_r s1 =? 46) || (cur_r s1 =? 69) || (cur_r s1 =? 101)
                  || isDurationSuffix (cur_r s1))) eqn:T.
  { (* INTLITERAL *)
    destruct C1 as [C1|C1].
    - apply (good_numeric_prog s) in C1. destruct C1 as (G1 & G2 & G3 & G4).
      pose proof (same_emit INTLITERAL (backup s1)) as SE.
      unfold good, phi in *. rewrite (same_reads _ _ SE), (same_len _ _ SE), (same_inregex _ _ SE).
      split; [exact G1|]. split; [exact G2|]. split; [apply inv_trivial; discriminate|discriminate].
    - rewrite C1 in T. discriminate. }
  (* after the optional fraction *)
  set (y := if cur_r s1 =? 46
            then take_while (isDigit cls) (inp (accept s1)) (accept s1) else s1).
  assert (Y : sb s y).
  { unfold y. destruct (Z.eqb_spec (cur_r s1) 46) as [H46|H46].
    - apply bnd_spend with (y := s1); [exact B1|]. apply spend_accept_tw. rewrite H46. discriminate.
    - destruct C1 as [C1|C1]; [exact C1|contradiction]. }
  clearbody y.
  (* after the optional exponent *)
  set (z := if (cur_r y =? 101) || (cur_r y =? 69)
            then take_while_cur (isDigit cls)
                   (if (cur_r (next (accept y)) =? 43) || (cur_r (next (accept y)) =? 45)
                    then next (accept (next (accept y))) else next (accept y))
            else y).
  assert (Z0 : sb s z).
  { unfold z. destruct ((cur_r y =? 101) || (cur_r y =? 69)) eqn:He; [|exact Y].
    assert (Hy : cur_r y <> eof).
    { apply Bool.orb_true_iff in He. destruct He as [He|He]; apply Z.eqb_eq in He; rewrite He; discriminate. }
    eapply sb_pend; [|apply pend_tw_cur_digit].
    eapply sb_pend; [exact Y|].
    destruct ((cur_r (next (accept y)) =? 43) || (cur_r (next (accept y)) =? 45)) eqn:Hs.
    - eapply pend_trans; [apply spend_pend, spend_accept_next, Hy|].
      apply spend_pend, spend_accept_next.
      apply Bool.orb_true_iff in Hs. destruct Hs as [Hs|Hs]; apply Z.eqb_eq in Hs; rewrite Hs; discriminate.
    - apply spend_pend, spend_accept_next, Hy. }
  clearbody z.
  destruct (isDurationSuffix (cur_r z)) eqn:Hd.
  - (* on to lexDuration *)
    destruct Z0 as ((A1 & A2 & A3 & A4) & A5).
    pose proof (ne_one _ (isDur_not_eof _ Hd)) as N1.
    pose proof (same_accept z) as SA.
    unfold good, phi. rewrite (same_reads _ _ SA), (same_len _ _ SA), (same_inregex _ _ SA), A4.
    cbn [wgt]. split; [lia|]. split; [destruct (inregex s); lia|].
    split; [apply inv_trivial; discriminate|discriminate].
  - apply (good_numeric_prog s) in Z0. destruct Z0 as (G1 & G2 & G3 & G4).
    pose proof (same_emit FLOATLITERAL (backup z)) as SE.
    unfold good, phi in *. rewrite (same_reads _ _ SE), (same_len _ _ SE), (same_inregex _ _ SE).
    split; [exact G1|]. split; [exact G2|]. split; [apply inv_trivial; discriminate|discriminate].
Qed.

(* ---- every state function ---- *)

Lemma step_good m s :
  inv m s -> m <> MDone -> let (m', s') := step m s in good m s m' s'.
Proof.
  intros Hinv Hm. destruct m; cbn [Lexer.step].
  - apply lex_prog_good.
  - apply lex_comment_good.
  - apply lex_numeric_good, Hinv.
  - apply lex_duration_good.
  - apply lex_string_good.
  - apply lex_capref_good.
  - apply lex_deco_good.
  - apply lex_ident_good.
  - apply lex_regex_good.
  - contradiction.
Qed.

Lemma phi_pos m s : inv m s -> m <> MDone -> 1 <= phi m s.
Proof.
  intros Hinv Hm. unfold phi. pose proof (len_nonneg s).
  destruct m; cbn [wgt]; try (destruct (inregex s); lia); try contradiction.
  destruct (Hinv eq_refl) as (r & wd & tl & E & _). unfold len in *. rewrite E in *.
  cbn [length] in *. destruct (inregex s); lia.
Qed.

(* the NextToken loop: with enough fuel it stops in MDone, an EOF token last,
   and calls + reads stay below the initial potential *)
Lemma run_good fuel : forall m s c B,
  inv m s -> (m = MDone -> eof_last s) -> 0 <= reads s ->
  reads s + c + phi m s <= B -> B <= c + Z.of_nat fuel ->
  let '(m', s', c') := run cls fuel m s c in
  m' = MDone /\ eof_last s' /\ reads s' + c' <= B /\ 0 <= reads s' /\ c <= c'.
Proof.
  induction fuel as [|f IH]; intros m s c B Hinv Hd Hr HB Hf.
  - cbn [run]. destruct (mode_eq_dec_done m) as [->|Hm].
    + unfold phi in HB. cbn [wgt] in HB. pose proof (len_nonneg s).
      repeat split; auto; lia.
    + pose proof (phi_pos m s Hinv Hm). lia.
  - cbn [run]. destruct (mode_eq_dec_done m) as [->|Hm].
    + unfold phi in HB. cbn [wgt] in HB. pose proof (len_nonneg s).
      repeat split; auto; lia.
    + pose proof (step_good m s Hinv Hm) as G.
      assert (Hrun : run cls (S f) m s c =
                     let (m', s') := step m s in run cls f m' s' (c + 1)).
      { destruct m; try reflexivity. contradiction. }
      cbn [run] in Hrun |- *.
      replace (match m with MDone => (m, s, c) | _ => let (m', s') := step m s in run cls f m' s' (c + 1) end)
        with (let (m', s') := step m s in run cls f m' s' (c + 1))
        by (destruct m; try reflexivity; contradiction).
      destruct (step m s) as [m1 s1]. destruct G as (G1 & G2 & G3 & G4).
      specialize (IH m1 s1 (c + 1) B G3 G4 ltac:(lia) ltac:(lia) ltac:(lia)).
      destruct (run cls f m1 s1 (c + 1)) as [[m2 s2] c2].
      destruct IH as (I1 & I2 & I3 & I4 & I5). repeat split; auto; lia.
Qed.

Lemma lex_items_total rxs items :
  let r := lex_items cls rxs items in
  l_done r = true /\
  (exists toks t, l_toks r = toks ++ [t] /\ t_kind t = EOF) /\
  0 <= l_reads r /\ 0 <= l_calls r /\
  l_calls r + l_reads r <= 5 * Z.of_nat (length items) + 2.
Proof.
  unfold lex_items.
  pose proof (run_good (fuel_for items) MProg (init items rxs) 0 (5 * Z.of_nat (length items) + 2)) as H.
  assert (I : inv MProg (init items rxs)) by (apply inv_trivial; discriminate).
  specialize (H I ltac:(discriminate) ltac:(cbn; lia)).
  assert (P : reads (init items rxs) + 0 + phi MProg (init items rxs) <= 5 * Z.of_nat (length items) + 2).
  { unfold phi, len, init. cbn. lia. }
  specialize (H P). unfold fuel_for in *.
  specialize (H ltac:(lia)).
  destruct (run cls (5 * length items + 3) MProg (init items rxs) 0) as [[m s] c].
  destruct H as (-> & (t & rest & Eo & Ek) & Hb & Hr & Hc). cbn [l_done l_toks l_reads l_calls].
  split; [reflexivity|]. split.
  - exists (rev rest), t. rewrite Eo. cbn [rev]. split; [reflexivity|exact Ek].
  - repeat split; lia.
Qed.

End LexerProofs.

(* ---- decoding never yields more runes than bytes ---- *)

Lemma decode_length_n n : forall l, (length l <= n)%nat -> (length (decode l) <= length l)%nat.
Proof.
  induction n as [|n IH]; intros l Hn.
  { destruct l; [cbn; lia|cbn in Hn; lia]. }
  destruct l as [|b0 t0]; [cbn; lia|].
  assert (H0 : (length (decode t0) <= length t0)%nat) by (apply IH; cbn in Hn; lia).
  cbn [decode].
  destruct (N.ltb b0 128); [cbn [length]; lia|].
  destruct t0 as [|b1 t1]; [cbn; lia|].
  assert (H1 : (length (decode t1) <= length t1)%nat) by (apply IH; cbn in Hn; lia).
  destruct (inr 194 223 b0).
  { destruct (inr 128 191 b1); cbn [length] in *; lia. }
  match goal with |- context [if ?c then _ else _] => destruct c end; [cbn [length] in *; lia|].
  destruct t1 as [|b2 t2]; [cbn [length] in *; lia|].
  assert (H2 : (length (decode t2) <= length t2)%nat) by (apply IH; cbn in Hn; lia).
  destruct (negb (inr 128 191 b2)); [cbn [length] in *; lia|].
  destruct (inr 224 239 b0); [cbn [length] in *; lia|].
  destruct t2 as [|b3 t3]; [cbn [length] in *; lia|].
  assert (H3 : (length (decode t3) <= length t3)%nat) by (apply IH; cbn in Hn; lia).
  destruct (negb (inr 128 191 b3)); cbn [length] in *; lia.
Qed.

Lemma decode_length l : (length (decode l) <= length l)%nat.
Proof. apply (decode_length_n (length l)). apply le_n. Qed.

Theorem lexer_total cls rxs (src : bytes) :
  let r := lex cls rxs src in
  l_done r = true /\
  (exists toks t, l_toks r = toks ++ [t] /\ t_kind t = EOF) /\
  0 <= l_reads r /\ 0 <= l_calls r /\
  l_calls r + l_reads r <= 5 * Z.of_nat (length src) + 2.
Proof.
  unfold lex. destruct (lex_items_total cls rxs (decode src)) as (D & T & R & C & B).
  pose proof (decode_length src).
  repeat split; auto. lia.
Qed.

(* ---- driver.go ---- *)

Section DriverProofs.
Variable A : Type.
Variables pi pf pd : list Z -> bool.

(* every INVALID token handed out by the lexer makes Lex add an error and hand
   INVALID to goyacc *)
Lemma drv_lex_invalid t :
  is_invalid (t_kind t) = true -> drv_lex pi pf pd t = ([PErrToken t], true).
Proof. unfold drv_lex. destruct (t_kind t); cbn; intros H; try discriminate. reflexivity. Qed.

(* p.errors only grows: whatever Lex added for the consumed tokens is still in
   the final list [es].  Then a consumed INVALID token makes Parse return no AST
   and a non-empty error list, whatever goyacc returned. *)
Theorem invalid_token_is_error (consumed : list tok) (es : list perr) (r : Z) (root : A) t :
  In t consumed -> is_invalid (t_kind t) = true ->
  (forall e, In e (flat_map (fun t => fst (drv_lex pi pf pd t)) consumed) -> In e es) ->
  parse_glue A r es root = (None, Some es) /\ es <> [].
Proof.
  intros Hin Hinv Hkeep.
  assert (He : In (PErrToken t) es).
  { apply Hkeep. apply in_flat_map. exists t. split; [exact Hin|].
    rewrite (drv_lex_invalid t Hinv). left. reflexivity. }
  destruct es as [|e0 es']; [contradiction|].
  split; [|discriminate]. unfold parse_glue. destruct (r =? 0); reflexivity.
Qed.

End DriverProofs.

(* ---- compiler.go ---- *)

Section GlueProofs.
Variables A O E : Type.
Variable disable_opt : bool.
Variable yacc : bytes -> Z * list E * A.
Variable opt_walk check_walk : A -> A * list E.
Variable gen_walk : A -> O * list E.

(* goyacc's skeleton returns non-zero only after it called Error *)
Hypothesis yacc_contract : forall src r es root, yacc src = (r, es, root) -> r <> 0 -> es <> [].

Definition shape_ok (res : option O * option (list E)) : Prop :=
  (exists o, res = (Some o, None)) \/ (exists l, res = (None, Some l) /\ l <> []).

Lemma nonempty_true {X} (l : list X) : nonempty l = true -> l <> [].
Proof. destruct l; [discriminate|discriminate]. Qed.

Lemma g_optimise_shape a :
  match g_optimise A E opt_walk a with (_, Some l) => l <> [] | _ => True end.
Proof.
  unfold g_optimise. destruct (opt_walk a) as [a' es]. destruct (nonempty es) eqn:N; [|exact I].
  apply nonempty_true, N.
Qed.

Theorem exactly_one src :
  shape_ok (compile A O E disable_opt yacc opt_walk check_walk gen_walk src).
Proof.
  unfold compile, g_parse.
  destruct (yacc src) as [[r es] root] eqn:Y.
  destruct (negb (r =? 0) || nonempty es) eqn:C.
  { right. exists es. split; [reflexivity|].
    apply Bool.orb_true_iff in C. destruct C as [C|C].
    - apply (yacc_contract src r es root Y). apply Bool.negb_true_iff, Z.eqb_neq in C. exact C.
    - apply nonempty_true, C. }
  assert (Hopt : forall a, match (if disable_opt then (a, None) else g_optimise A E opt_walk a)
                           with (_, Some l) => l <> [] | _ => True end).
  { intros a. destruct disable_opt; [exact I|apply g_optimise_shape]. }
  pose proof (Hopt root) as H1.
  destruct (if disable_opt then (root, None) else g_optimise A E opt_walk root) as [a1 [e1|]].
  { right. exists e1. split; [reflexivity|exact H1]. }
  unfold g_check. destruct (check_walk a1) as [a2 ce]. destruct (nonempty ce) eqn:Nc.
  { right. exists ce. split; [reflexivity|apply nonempty_true, Nc]. }
  pose proof (Hopt a2) as H2.
  destruct (if disable_opt then (a2, None) else g_optimise A E opt_walk a2) as [a3 [e3|]].
  { right. exists e3. split; [reflexivity|exact H2]. }
  unfold g_codegen. destruct (gen_walk a3) as [o ge]. destruct (nonempty ge) eqn:Ng.
  - right. exists ge. split; [reflexivity|apply nonempty_true, Ng].
  - left. exists o. reflexivity.
Qed.

End GlueProofs.

(* without the goyacc contract the shape can fail: a non-zero result with no
   recorded error gives neither an object nor a non-empty list *)
Lemma exactly_one_needs_contract :
  exists (yacc : bytes -> Z * list unit * unit),
    compile unit unit unit false yacc (fun a => (a, [])) (fun a => (a, [])) (fun a => (tt, [])) []
    = (None, Some []).
Proof. exists (fun _ => (1, [], tt)). reflexivity. Qed.
