(* Parsing what the (repaired) unparser prints gives the tree back.  *)
From V Require Import Base.Bytes Lang.Grammar Lang.Unparse.
From Coq Require Import Arith.

(* [ev g R]: with enough fuel, g returns R *)
Definition ev {X} (g : nat -> option X) (R : X) : Prop :=
  exists n, forall f, n <= f -> g f = Some R.

Ltac ev_intro n := exists n; intros f Hf; destruct f as [|f]; [lia|]; cbn [pexp ploop punary pprimary pidx pargs].

(* ---- one rule per clause of the parser ---- *)

Lemma R_pexp min ts e lv ts1 R :
  ev (fun f => punary f ts) (e, lv, ts1) -> ev (fun f => ploop f min e lv ts1) R ->
  ev (fun f => pexp f min ts) R.
Proof.
  intros [n1 H1] [n2 H2]. ev_intro (S (max n1 n2)).
  rewrite H1 by lia. apply H2. lia.
Qed.

Lemma R_loop_stop min lhs lv ts :
  match ts with TOp o :: _ => Nat.leb min (lvl o) && Nat.leb (lreq o) lv = false | _ => True end ->
  ev (fun f => ploop f min lhs lv ts) (lhs, ts).
Proof.
  intros H. ev_intro 1. destruct ts as [|[] ts']; try reflexivity. rewrite H. reflexivity.
Qed.

Lemma R_loop_op min lhs lv o ts' rhs ts'' R :
  min <= lvl o -> lreq o <= lv -> rhs_pattern o ts' = None ->
  ev (fun f => pexp f (rreq o) ts') (rhs, ts'') ->
  ev (fun f => ploop f min (Bin o lhs rhs) (lvl o) ts'') R ->
  ev (fun f => ploop f min lhs lv (TOp o :: ts')) R.
Proof.
  intros L1 L2 P [n1 H1] [n2 H2]. ev_intro (S (max n1 n2)).
  apply Nat.leb_le in L1. apply Nat.leb_le in L2. rewrite L1, L2. cbn [andb].
  rewrite P. rewrite H1 by lia. apply H2. lia.
Qed.

Lemma R_loop_pat min lhs lv o ts' rhs ts'' R :
  min <= lvl o -> lreq o <= lv -> rhs_pattern o ts' = Some (rhs, ts'') ->
  ev (fun f => ploop f min (Bin o lhs rhs) (lvl o) ts'') R ->
  ev (fun f => ploop f min lhs lv (TOp o :: ts')) R.
Proof.
  intros L1 L2 P [n2 H2]. ev_intro (S n2).
  apply Nat.leb_le in L1. apply Nat.leb_le in L2. rewrite L1, L2. cbn [andb].
  rewrite P. apply H2. lia.
Qed.

Lemma R_unary_not ts' e lv r :
  ev (fun f => punary f ts') (e, lv, r) -> ev (fun f => punary f (TNot :: ts')) (Not e, 8, r).
Proof. intros [n H]. ev_intro (S n). rewrite H by lia. reflexivity. Qed.

Lemma R_unary_prim ts p r :
  match ts with TNot :: _ => False | _ => True end ->
  ev (fun f => pprimary f ts) (p, r) -> ev (fun f => punary f ts) (postloop p 10 r).
Proof.
  intros Hn [n H]. ev_intro (S n). destruct ts as [|[] ts']; try contradiction; rewrite H by lia; reflexivity.
Qed.

Lemma R_prim_atom a r : ev (fun f => pprimary f (TAtom a :: r)) (Atom a, r).
Proof. ev_intro 1. reflexivity. Qed.

Lemma R_prim_id x r R :
  ev (fun f => pidx f x ENil r) R -> ev (fun f => pprimary f (TId x :: r)) R.
Proof. intros [n H]. ev_intro (S n). apply H. lia. Qed.

Lemma R_idx_stop x acc ts :
  match ts with TLB :: _ => False | _ => True end -> ev (fun f => pidx f x acc ts) (Id x acc, ts).
Proof. intros H. ev_intro 1. destruct ts as [|[] ts']; try contradiction; reflexivity. Qed.

Lemma R_idx_group x acc r es r' R :
  ev (fun f => pargs f r) (es, TRB :: r') -> ev (fun f => pidx f x (eapp acc es) r') R ->
  ev (fun f => pidx f x acc (TLB :: r)) R.
Proof.
  intros [n1 H1] [n2 H2]. ev_intro (S (max n1 n2)). rewrite H1 by lia. apply H2. lia.
Qed.

Lemma R_prim_call0 g r : ev (fun f => pprimary f (TBuiltin g :: TLP :: TRP :: r)) (Call g ENil, r).
Proof. ev_intro 1. reflexivity. Qed.

Lemma R_prim_call g r es r' :
  match r with TRP :: _ => False | _ => True end ->
  ev (fun f => pargs f r) (es, TRP :: r') ->
  ev (fun f => pprimary f (TBuiltin g :: TLP :: r)) (Call g es, r').
Proof.
  intros Hr [n H]. ev_intro (S n).
  destruct r as [|[] r0]; try contradiction; rewrite H by lia; reflexivity.
Qed.

Lemma R_prim_paren r e r' :
  ev (fun f => pexp f 1 r) (e, TRP :: r') -> ev (fun f => pprimary f (TLP :: r)) (e, r').
Proof. intros [n H]. ev_intro (S n). rewrite H by lia. reflexivity. Qed.

Lemma R_args_one ts e r :
  match r with TComma :: _ => False | _ => True end ->
  ev (fun f => pexp f 1 ts) (e, r) -> ev (fun f => pargs f ts) (ECons e ENil, r).
Proof.
  intros Hr [n H]. ev_intro (S n). rewrite H by lia.
  destruct r as [|[] r0]; try contradiction; reflexivity.
Qed.

Lemma R_args_more ts e r es r' :
  ev (fun f => pexp f 1 ts) (e, TComma :: r) -> ev (fun f => pargs f r) (es, r') ->
  ev (fun f => pargs f ts) (ECons e es, r').
Proof.
  intros [n1 H1] [n2 H2]. ev_intro (S (max n1 n2)). rewrite H1 by lia. rewrite H2 by lia. reflexivity.
Qed.

(* ---- conditions on what follows a printed expression ---- *)

(* not absorbed by the postfix loop or as an index *)
Definition clean (rest : list tk) : Prop :=
  match rest with TPost _ :: _ => False | TLB :: _ => False | _ => True end.
Definition nolb (rest : list tk) : Prop := match rest with TLB :: _ => False | _ => True end.
(* the loops still open inside e stop at rest *)
Definition follow (e : expr) (rest : list tk) : Prop :=
  clean rest /\ match rest with TOp o :: _ => lvl o <= level e | _ => True end.
(* rest closes an argument list *)
Definition closing (rest : list tk) : Prop :=
  match rest with TRP :: _ => True | TRB :: _ => True | _ => False end.

Lemma lvl_range o : 1 <= lvl o <= 7.
Proof. destruct o; cbn; lia. Qed.
Lemma lreq_ge o : lvl o <= lreq o.
Proof. unfold lreq. destruct (is_match o) eqn:M; [destruct o; cbn in *; try discriminate; lia|lia]. Qed.
Lemma rreq_gt o : lvl o < rreq o.
Proof. unfold rreq. destruct (is_match o) eqn:M; [destruct o; cbn in *; try discriminate; lia|lia]. Qed.
Lemma lreq_le o : lreq o <= 10.
Proof. destruct o; cbn; lia. Qed.
Lemma level_range e : 1 <= level e <= 10.
Proof. destruct e; cbn; try lia. pose proof (lvl_range o). lia. Qed.

Lemma pr_eq req x : pr req x = if Nat.ltb (level x) req then TLP :: raw x ++ [TRP] else raw x.
Proof. reflexivity. Qed.

(* unfolding of raw on each constructor in terms of pr *)
Definition rhs_text (o : binop) (r : expr) : list tk :=
  if is_match o && is_concat r then raw r else pr (rreq o) r.
Lemma raw_bin o l r : raw (Bin o l r) = pr (lreq o) l ++ TOp o :: rhs_text o r.
Proof. reflexivity. Qed.
Lemma raw_not x : raw (Not x) = TNot :: pr 8 x.
Proof. reflexivity. Qed.
Lemma raw_post b x : raw (Post b x) = pr 9 x ++ [TPost b].
Proof. reflexivity. Qed.

(* what is proved of every expression, by mutual induction *)
Definition main (e : expr) : Prop :=
  (* the binary loop resumes after the printed expression *)
  (forall min rest R, min <= level e -> follow e rest ->
     ev (fun f => ploop f min e (level e) rest) R -> ev (fun f => pexp f min (raw e ++ rest)) R) /\
  (* postfix level *)
  (9 <= level e -> forall rest, nolb rest ->
     ev (fun f => punary f (raw e ++ rest)) (postloop e (level e) rest)) /\
  (* unary level *)
  (8 <= level e -> forall rest, clean rest ->
     ev (fun f => punary f (raw e ++ rest)) (e, level e, rest)) /\
  (* first token *)
  (9 <= level e -> forall rest, match raw e ++ rest with TNot :: _ => False | _ => True end).

Definition mainl (es : exprs) : Prop :=
  es <> ENil -> forall rest, closing rest -> ev (fun f => pargs f (rawl es ++ rest)) (es, rest).

Lemma postloop_clean e lv rest : clean rest -> postloop e lv rest = (e, lv, rest).
Proof. destruct rest as [|[] r]; cbn; intros H; try contradiction; reflexivity. Qed.

Lemma clean_nolb rest : clean rest -> nolb rest.
Proof. destruct rest as [|[] r]; cbn; auto. Qed.

(* whole expression at level 1 up to a token that stops every loop *)
Lemma full_at_1 e rest :
  main e -> clean rest -> match rest with TOp _ :: _ => False | _ => True end ->
  ev (fun f => pexp f 1 (raw e ++ rest)) (e, rest).
Proof.
  intros (K & _) C T. apply K.
  - pose proof (level_range e). lia.
  - split; [exact C|]. destruct rest as [|[] r]; auto. contradiction.
  - apply R_loop_stop. destruct rest as [|[] r]; auto. contradiction.
Qed.

(* a parenthesised expression is a primary *)
Lemma paren_primary e rest :
  main e -> ev (fun f => pprimary f (TLP :: raw e ++ TRP :: rest)) (e, rest).
Proof.
  intros M. apply R_prim_paren. apply full_at_1; [exact M| |]; cbn; auto.
Qed.

Lemma paren_unary e rest :
  main e -> ev (fun f => punary f ((TLP :: raw e ++ [TRP]) ++ rest)) (postloop e 10 rest).
Proof.
  intros M. cbn [app]. rewrite <- app_assoc. cbn [app].
  apply R_unary_prim; [exact I|]. apply paren_primary, M.
Qed.

Lemma paren_unary_clean e rest :
  main e -> clean rest ->
  ev (fun f => punary f ((TLP :: raw e ++ [TRP]) ++ rest)) (e, 10, rest).
Proof. intros M C. rewrite <- (postloop_clean e 10 rest C). apply paren_unary, M. Qed.

(* an operand printed for a position requiring level req, as a right operand *)
Lemma right_operand e req rest :
  main e -> 1 <= req -> clean rest ->
  match rest with TOp o :: _ => lvl o < req | _ => True end ->
  ev (fun f => pexp f req (pr req e ++ rest)) (e, rest).
Proof.
  intros M Hreq C T. rewrite pr_eq. destruct (Nat.ltb_spec (level e) req) as [Hlt|Hge].
  - eapply R_pexp.
    + apply paren_unary_clean; [exact M|exact C].
    + apply R_loop_stop.
      destruct rest as [|[] r]; auto. apply Bool.andb_false_iff. left. apply Nat.leb_gt. exact T.
  - destruct M as (K & _). apply K; [exact Hge| |].
    + split; [exact C|]. destruct rest as [|[] r]; auto. lia.
    + apply R_loop_stop. destruct rest as [|[] r]; auto.
      apply Bool.andb_false_iff. left. apply Nat.leb_gt. exact T.
Qed.

Lemma main_atom a : main (Atom a).
Proof.
  assert (U : forall rest, nolb rest ->
     ev (fun f => punary f ([TAtom a] ++ rest)) (postloop (Atom a) 10 rest)).
  { intros rest _. apply R_unary_prim; [exact I|]. apply R_prim_atom. }
  unfold main. cbn [level raw]. split; [|split; [|split]].
  - intros min rest R _ (C & _) HL. eapply R_pexp; [|exact HL].
    rewrite <- (postloop_clean (Atom a) 10 rest C). apply U, clean_nolb, C.
  - intros _. exact U.
  - intros _ rest C. rewrite <- (postloop_clean (Atom a) 10 rest C). apply U, clean_nolb, C.
  - intros _ rest. exact I.
Qed.

(* common shape of the primaries Id and Call *)
Lemma main_of_primary e :
  level e = 10 ->
  (forall rest, nolb rest -> ev (fun f => pprimary f (raw e ++ rest)) (e, rest)) ->
  (forall rest, match raw e ++ rest with TNot :: _ => False | _ => True end) ->
  main e.
Proof.
  intros L P N.
  assert (U : forall rest, nolb rest ->
     ev (fun f => punary f (raw e ++ rest)) (postloop e 10 rest)).
  { intros rest Hn. apply R_unary_prim; [apply N|]. apply P, Hn. }
  unfold main. rewrite L. split; [|split; [|split]].
  - intros min rest R _ (C & _) HL. eapply R_pexp; [|exact HL].
    rewrite <- (postloop_clean e 10 rest C). apply U, clean_nolb, C.
  - intros _. exact U.
  - intros _ rest C. rewrite <- (postloop_clean e 10 rest C). apply U, clean_nolb, C.
  - intros _. exact N.
Qed.

Lemma rawl_cons_nil e : rawl (ECons e ENil) = raw e.
Proof. reflexivity. Qed.
Lemma rawl_cons_cons e e2 r : rawl (ECons e (ECons e2 r)) = raw e ++ TComma :: rawl (ECons e2 r).
Proof. reflexivity. Qed.

Lemma main_id x idx : mainl idx -> main (Id x idx).
Proof.
  intros ML. apply main_of_primary; [reflexivity| |].
  - intros rest Hn. destruct idx as [|e0 r0].
    + cbn [raw app]. apply R_prim_id. apply R_idx_stop. exact Hn.
    + change (raw (Id x (ECons e0 r0))) with (TId x :: TLB :: rawl (ECons e0 r0) ++ [TRB]).
      cbn [app]. rewrite <- app_assoc. cbn [app].
      apply R_prim_id. eapply R_idx_group.
      * apply ML; [discriminate|exact I].
      * cbn [eapp]. apply R_idx_stop. exact Hn.
  - intros rest. destruct idx; exact I.
Qed.

Lemma rawl_not_rp es rest :
  es <> ENil -> (forall e, match raw e ++ rest with TRP :: _ => False | _ => True end) -> True.
Proof. auto. Qed.

Lemma main_call g args :
  mainl args ->
  (forall rest, args <> ENil -> match rawl args ++ rest with TRP :: _ => False | _ => True end) ->
  main (Call g args).
Proof.
  intros ML NR. apply main_of_primary; [reflexivity| |].
  - intros rest _. destruct args as [|e0 r0].
    + cbn [raw app]. apply R_prim_call0.
    + change (raw (Call g (ECons e0 r0))) with (TBuiltin g :: TLP :: rawl (ECons e0 r0) ++ [TRP]).
      cbn [app]. rewrite <- app_assoc. cbn [app].
      apply R_prim_call; [apply NR; discriminate|]. apply ML; [discriminate|exact I].
  - intros rest. destruct args; exact I.
Qed.

Lemma main_not x : main x -> main (Not x).
Proof.
  intros M.
  assert (U : forall rest, clean rest ->
     ev (fun f => punary f (raw (Not x) ++ rest)) (Not x, 8, rest)).
  { intros rest C. rewrite raw_not. cbn [app]. rewrite pr_eq.
    destruct (Nat.ltb_spec (level x) 8) as [Hlt|Hge].
    - eapply R_unary_not. rewrite <- (postloop_clean x 10 rest C). apply paren_unary, M.
    - destruct M as (_ & _ & U & _). eapply R_unary_not. apply U; assumption. }
  unfold main. cbn [level]. split; [|split; [|split]].
  - intros min rest R _ (C & _) HL. eapply R_pexp; [apply U, C|exact HL].
  - intros H. lia.
  - intros _. exact U.
  - intros H. lia.
Qed.

Lemma main_post b x : main x -> main (Post b x).
Proof.
  intros M.
  assert (PF : forall rest, nolb rest ->
     ev (fun f => punary f (raw (Post b x) ++ rest)) (postloop (Post b x) 9 rest)).
  { intros rest Hn. rewrite raw_post, <- app_assoc. cbn [app]. rewrite pr_eq.
    destruct (Nat.ltb_spec (level x) 9) as [Hlt|Hge].
    - change (postloop (Post b x) 9 rest) with (postloop x 10 (TPost b :: rest)).
      apply paren_unary, M.
    - destruct M as (_ & PFx & _).
      change (postloop (Post b x) 9 rest) with (postloop x (level x) (TPost b :: rest)).
      apply PFx; [exact Hge|exact I]. }
  assert (N : forall rest, match raw (Post b x) ++ rest with TNot :: _ => False | _ => True end).
  { intros rest. rewrite raw_post, <- app_assoc, pr_eq.
    destruct (Nat.ltb_spec (level x) 9) as [Hlt|Hge]; [exact I|].
    destruct M as (_ & _ & _ & Nx). apply Nx, Hge. }
  unfold main. cbn [level]. split; [|split; [|split]].
  - intros min rest R _ (C & _) HL. eapply R_pexp; [|exact HL].
    rewrite <- (postloop_clean (Post b x) 9 rest C). apply PF, clean_nolb, C.
  - intros _. exact PF.
  - intros _ rest C. rewrite <- (postloop_clean (Post b x) 9 rest C). apply PF, clean_nolb, C.
  - intros _. exact N.
Qed.

(* ---- a pattern concatenation as the right operand of a match operator ---- *)

Lemma concat_resume r : is_concat r = true -> forall tail,
  exists s r0, raw r ++ tail = TAtom (ARegex s) :: r0 /\
               pconcat (Atom (ARegex s)) r0 = pconcat r tail.
Proof.
  induction r as [a| | |o l IHl x _| |]; cbn [is_concat]; intros Hc tail; try discriminate.
  - destruct a; try discriminate. exists s, tail. split; reflexivity.
  - destruct o; try discriminate. apply Bool.andb_true_iff in Hc. destruct Hc as (Hl & Hx).
    assert (Lv : Nat.ltb (level l) (lreq OPlus) = false).
    { destruct l as [a0| | |o0 ? ?| |]; cbn [is_concat] in Hl; try discriminate.
      - reflexivity.
      - destruct o0; try discriminate. reflexivity. }
    rewrite raw_bin, <- app_assoc. cbn [app]. rewrite pr_eq, Lv.
    destruct (IHl Hl (TOp OPlus :: rhs_text OPlus x ++ tail)) as (s & r0 & E & P).
    exists s, r0. split; [exact E|]. rewrite P.
    unfold rhs_text. cbn [is_match andb]. rewrite pr_eq.
    destruct x as [a0|y idx| | | |]; cbn [simple_part] in Hx; try discriminate.
    + destruct a0; try discriminate. reflexivity.
    + destruct idx; try discriminate. reflexivity.
Qed.

Lemma pconcat_stop acc rest :
  match rest with TOp OPlus :: _ => False | _ => True end -> pconcat acc rest = (acc, rest).
Proof.
  intros H. destruct rest as [|[] r]; try reflexivity. destruct o; try reflexivity. contradiction.
Qed.

Lemma rhs_pattern_concat o r rest :
  is_match o = true -> is_concat r = true ->
  match rest with TOp OPlus :: _ => False | _ => True end ->
  rhs_pattern o (raw r ++ rest) = Some (r, rest).
Proof.
  intros PM PC Hr. destruct (concat_resume r PC rest) as (s & r0 & E & P).
  unfold rhs_pattern. rewrite PM, E, P. rewrite (pconcat_stop r rest Hr). reflexivity.
Qed.

Lemma rhs_pattern_none o r rest :
  is_match o && is_concat r = false -> rhs_pattern o (pr (rreq o) r ++ rest) = None.
Proof.
  intros H. unfold rhs_pattern. destruct (is_match o) eqn:PM; [|reflexivity].
  cbn [andb] in H. assert (Rq : rreq o = 10) by (unfold rreq; rewrite PM; reflexivity).
  rewrite Rq, pr_eq. destruct (Nat.ltb_spec (level r) 10) as [Hlt|Hge]; [reflexivity|].
  destruct r as [a|x idx|g args|o0 l0 r0|x|b x]; cbn [level] in Hge.
  - destruct a; cbn [is_concat] in H; try discriminate; reflexivity.
  - destruct idx; reflexivity.
  - destruct args; reflexivity.
  - pose proof (lvl_range o0). lia.
  - lia.
  - lia.
Qed.

Lemma main_bin o l r : main l -> main r -> main (Bin o l r).
Proof.
  intros Ml Mr. pose proof (lvl_range o) as Ho. pose proof (lreq_ge o) as Hl. pose proof (rreq_gt o) as Hr.
  unfold main. cbn [level]. split; [|split; [|split]]; try (intros H; lia).
  intros min rest R Hmin (C & F) HL. cbn [level] in F.
  rewrite raw_bin, <- app_assoc. cbn [app].
  (* what happens once the left operand is the loop's tree, at syntactic level lv *)
  assert (Step : forall lv, lreq o <= lv ->
     ev (fun f => ploop f min l lv (TOp o :: rhs_text o r ++ rest)) R).
  { intros lv Hlv. unfold rhs_text.
    destruct (is_match o && is_concat r) eqn:PC.
    - apply Bool.andb_true_iff in PC. destruct PC as (PM & PCc).
      eapply R_loop_pat; [exact Hmin|exact Hlv| |exact HL].
      apply rhs_pattern_concat; [exact PM|exact PCc|].
      destruct rest as [|t0 r0]; [exact I|].
      destruct t0 as [a0|x0|g0|ob| |b0|b1| | | | | ]; try exact I.
      destruct ob; try exact I.
      (* a following `+` would have level 6 > level of the match expression *)
      destruct o; cbn in PM; try discriminate; cbn in F; lia.
    - eapply R_loop_op; [exact Hmin|exact Hlv| | |exact HL].
      + apply rhs_pattern_none. exact PC.
      + apply right_operand; [exact Mr|lia|exact C|].
        destruct rest as [|[] r0]; auto. lia. }
  rewrite pr_eq. destruct (Nat.ltb_spec (level l) (lreq o)) as [Hlt|Hge].
  - eapply R_pexp.
    + apply paren_unary_clean; [exact Ml|exact I].
    + apply Step. apply lreq_le.
  - destruct Ml as (Kl & _). apply Kl.
    + lia.
    + split; [exact I|]. lia.
    + apply Step, Hge.
Qed.

Scheme expr_mut := Induction for expr Sort Prop
  with exprs_mut := Induction for exprs Sort Prop.
Combined Scheme expr_exprs_ind from expr_mut, exprs_mut.

(* the first token of a printed argument list is not a closing parenthesis *)
Lemma raw_head e : forall rest,
  match raw e ++ rest with TRP :: _ => False | TComma :: _ => False | _ => True end.
Proof.
  induction e using expr_mut with (P0 := fun _ => True); try exact I; intros rest.
  - exact I.
  - destruct idx; exact I.
  - destruct args; exact I.
  - rewrite raw_bin, <- app_assoc, pr_eq. destruct (Nat.ltb (level e1) (lreq o)); [exact I|apply IHe1].
  - exact I.
  - rewrite raw_post, <- app_assoc, pr_eq. destruct (Nat.ltb (level e) 9); [exact I|apply IHe].
Qed.

Theorem main_all : (forall e, main e) /\ (forall es, mainl es).
Proof.
  apply expr_exprs_ind.
  - apply main_atom.
  - intros x idx H. apply main_id, H.
  - intros g args H. apply main_call; [exact H|].
    intros rest Hne. destruct args as [|e0 r0]; [contradiction|].
    destruct r0; [rewrite rawl_cons_nil|rewrite rawl_cons_cons, <- app_assoc];
      pose proof (raw_head e0) as RH.
    + specialize (RH rest). destruct (raw e0 ++ rest) as [|[] ?]; auto.
    + specialize (RH ((TComma :: rawl (ECons e r0)) ++ rest)).
      destruct (raw e0 ++ (TComma :: rawl (ECons e r0)) ++ rest) as [|[] ?]; auto.
  - intros o l Hl r Hr. apply main_bin; assumption.
  - intros e H. apply main_not, H.
  - intros b e H. apply main_post, H.
  - intros H. contradiction.
  - intros e He r Hr _ rest Cl. destruct r as [|e2 r2].
    + rewrite rawl_cons_nil. apply R_args_one.
      * destruct rest as [|[] ?]; cbn in Cl; auto.
      * apply full_at_1; [exact He| |]; destruct rest as [|[] ?]; cbn in Cl; cbn; auto.
    + rewrite rawl_cons_cons, <- app_assoc. cbn [app]. eapply R_args_more.
      * apply full_at_1; [exact He| |]; cbn; auto.
      * apply Hr; [discriminate|exact Cl].
Qed.

(* ---- statements ---- *)

Lemma ev_pexp_all e : ev (fun f => pexp f 1 (raw e)) (e, []).
Proof.
  rewrite <- (app_nil_r (raw e)). apply full_at_1; [apply main_all| |]; exact I.
Qed.

Definition evs (ts : list tk) (s : estmt) : Prop := exists n, forall f, n <= f -> pstmt f ts = Some s.

Theorem roundtrip_expr e : evs (unparse (SExpr e)) (SExpr e).
Proof.
  destruct (ev_pexp_all e) as [n H]. exists n. intros f Hf. unfold pstmt, unparse.
  rewrite (H f Hf). reflexivity.
Qed.

(* an operand printed for level req, parsed by a loop with a lower minimum *)
Lemma operand_min e min req rest :
  main e -> 1 <= min -> min <= req -> clean rest ->
  match rest with TOp o :: _ => lvl o < min | _ => True end ->
  ev (fun f => pexp f min (pr req e ++ rest)) (e, rest).
Proof.
  intros M Hmin Hreq C T. rewrite pr_eq. destruct (Nat.ltb_spec (level e) req) as [Hlt|Hge].
  - eapply R_pexp.
    + apply paren_unary_clean; [exact M|exact C].
    + apply R_loop_stop.
      destruct rest as [|[] r]; auto. apply Bool.andb_false_iff. left. apply Nat.leb_gt. exact T.
  - destruct M as (K & _). apply K; [lia| |].
    + split; [exact C|]. destruct rest as [|[] r]; auto. lia.
    + apply R_loop_stop. destruct rest as [|[] r]; auto.
      apply Bool.andb_false_iff. left. apply Nat.leb_gt. exact T.
Qed.

Lemma unary_operand e rest :
  main e -> clean rest -> exists lv, ev (fun f => punary f (pr 8 e ++ rest)) (e, lv, rest).
Proof.
  intros M C. rewrite pr_eq. destruct (Nat.ltb_spec (level e) 8) as [Hlt|Hge].
  - exists 10. apply paren_unary_clean; assumption.
  - exists (level e). destruct M as (_ & _ & U & _). apply U; assumption.
Qed.

Theorem roundtrip_assign add l r : evs (unparse (SAssign add l r)) (SAssign add l r).
Proof.
  destruct main_all as (MA & _).
  destruct (operand_min l 1 8 (TAssign add :: raw r) (MA l)) as [n1 H1]; try exact I; try lia.
  destruct (unary_operand l (TAssign add :: raw r) (MA l) I) as (lv & [n2 H2]).
  destruct (ev_pexp_all r) as [n3 H3].
  exists (max n1 (max n2 n3)). intros f Hf. unfold pstmt, unparse.
  rewrite H1 by lia. rewrite H2 by lia. rewrite H3 by lia. reflexivity.
Qed.

Theorem roundtrip a : evs (unparse a) a.
Proof. destruct a; [apply roundtrip_expr|apply roundtrip_assign]. Qed.

Lemma evs_functional ts s1 s2 : evs ts s1 -> evs ts s2 -> s1 = s2.
Proof.
  intros [n1 H1] [n2 H2]. specialize (H1 (max n1 n2) ltac:(lia)). specialize (H2 (max n1 n2) ltac:(lia)).
  congruence.
Qed.

(* formatting the reparsed output again gives the same token list *)
Theorem idempotent a s' : evs (unparse a) s' -> unparse s' = unparse a.
Proof. intros H. rewrite (evs_functional _ _ _ H (roundtrip a)). reflexivity. Qed.

(* ---- more fuel never changes an answer ---- *)

Lemma mono f :
  (forall min ts r, pexp f min ts = Some r -> pexp (S f) min ts = Some r) /\
  (forall min l lv ts r, ploop f min l lv ts = Some r -> ploop (S f) min l lv ts = Some r) /\
  (forall ts r, punary f ts = Some r -> punary (S f) ts = Some r) /\
  (forall ts r, pprimary f ts = Some r -> pprimary (S f) ts = Some r) /\
  (forall x acc ts r, pidx f x acc ts = Some r -> pidx (S f) x acc ts = Some r) /\
  (forall ts r, pargs f ts = Some r -> pargs (S f) ts = Some r).
Proof.
  induction f as [|f (IH1 & IH2 & IH3 & IH4 & IH5 & IH6)].
  { repeat split; intros; discriminate. }
  split; [|split; [|split; [|split; [|split]]]].
  - intros min ts r H. cbn [pexp] in H. 
    destruct (punary f ts) as [[[e lv] ts1]|] eqn:E; [|discriminate].
    change (pexp (S (S f)) min ts) with
      (match punary (S f) ts with Some (e, lv, ts1) => ploop (S f) min e lv ts1 | None => None end).
    rewrite (IH3 _ _ E). apply IH2, H.
  - intros min l lv ts r H. cbn [ploop] in H.
    change (ploop (S (S f)) min l lv ts) with
      (match ts with
       | TOp o :: ts' =>
           if Nat.leb min (lvl o) && Nat.leb (lreq o) lv then
             match (match rhs_pattern o ts' with
                    | Some x => Some x
                    | None => pexp (S f) (rreq o) ts'
                    end) with
             | Some (rhs, ts'') => ploop (S f) min (Bin o l rhs) (lvl o) ts''
             | None => None
             end
           else Some (l, ts)
       | _ => Some (l, ts)
       end).
    destruct ts as [|[] ts']; try exact H.
    destruct (Nat.leb min (lvl o) && Nat.leb (lreq o) lv); [|exact H].
    destruct (rhs_pattern o ts') as [[rhs0 ts0]|] eqn:P; [apply IH2, H|].
    destruct (pexp f (rreq o) ts') as [[rhs ts'']|] eqn:E; [|discriminate].
    rewrite (IH1 _ _ _ E). apply IH2, H.
  - intros ts r H. cbn [punary] in H.
    change (punary (S (S f)) ts) with
      (match ts with
       | TNot :: ts' => match punary (S f) ts' with Some (e, _, r) => Some (Not e, 8, r) | None => None end
       | _ => match pprimary (S f) ts with Some (p, r) => Some (postloop p 10 r) | None => None end
       end).
    destruct ts as [|[] ts'];
      try (destruct (pprimary f _) as [[p0 r0]|] eqn:E; [|discriminate]; rewrite (IH4 _ _ E); exact H).
    destruct (punary f ts') as [[[e lv] r0]|] eqn:E; [|discriminate]. rewrite (IH3 _ _ E). exact H.
  - intros ts r H. cbn [pprimary] in H.
    change (pprimary (S (S f)) ts) with
      (match ts with
       | TAtom a :: r => Some (Atom a, r)
       | TId x :: r => pidx (S f) x ENil r
       | TBuiltin g :: TLP :: TRP :: r => Some (Call g ENil, r)
       | TBuiltin g :: TLP :: r =>
           match pargs (S f) r with Some (es, TRP :: r') => Some (Call g es, r') | _ => None end
       | TLP :: r => match pexp (S f) 1 r with Some (e, TRP :: r') => Some (e, r') | _ => None end
       | _ => None
       end).
    destruct ts as [|[] ts']; try exact H.
    + apply IH5, H.
    + destruct ts' as [|[] ts2]; try exact H.
      destruct ts2 as [|[] ts3]; try exact H;
        (destruct (pargs f _) as [[es r0]|] eqn:E; [|discriminate]; rewrite (IH6 _ _ E); exact H).
    + destruct (pexp f 1 ts') as [[e r0]|] eqn:E; [|discriminate]. rewrite (IH1 _ _ _ E). exact H.
  - intros x acc ts r H. cbn [pidx] in H.
    change (pidx (S (S f)) x acc ts) with
      (match ts with
       | TLB :: r => match pargs (S f) r with
                     | Some (es, TRB :: r') => pidx (S f) x (eapp acc es) r'
                     | _ => None end
       | _ => Some (Id x acc, ts)
       end).
    destruct ts as [|[] ts']; try exact H.
    destruct (pargs f ts') as [[es r0]|] eqn:E; [|discriminate]. rewrite (IH6 _ _ E).
    destruct r0 as [|[] r1]; try discriminate. apply IH5, H.
  - intros ts r H. cbn [pargs] in H.
    change (pargs (S (S f)) ts) with
      (match pexp (S f) 1 ts with
       | Some (e, TComma :: r) =>
           match pargs (S f) r with Some (es, r') => Some (ECons e es, r') | None => None end
       | Some (e, r) => Some (ECons e ENil, r)
       | None => None
       end).
    destruct (pexp f 1 ts) as [[e r0]|] eqn:E; [|discriminate]. rewrite (IH1 _ _ _ E).
    destruct r0 as [|[] r1]; try exact H.
    destruct (pargs f r1) as [[es r2]|] eqn:E2; [|discriminate]. rewrite (IH6 _ _ E2). exact H.
Qed.

Lemma pexp_mono f f' min ts r : f <= f' -> pexp f min ts = Some r -> pexp f' min ts = Some r.
Proof. induction 1 as [|m Hle IH]; [auto|]. intros E. apply (mono m), IH, E. Qed.
Lemma punary_mono f f' ts r : f <= f' -> punary f ts = Some r -> punary f' ts = Some r.
Proof. induction 1 as [|m Hle IH]; [auto|]. intros E. apply (mono m), IH, E. Qed.

Lemma punary_unique f k ts x y : punary f ts = Some x -> punary k ts = Some y -> x = y.
Proof.
  intros A B.
  pose proof (punary_mono f (max f k) ts x ltac:(lia) A) as A'.
  pose proof (punary_mono k (max f k) ts y ltac:(lia) B) as B'. congruence.
Qed.

(* left of an assignment sign, the expression parser returns the unary or nothing *)
Lemma pexp_before_assign f ts l lv a r :
  punary f ts = Some (l, lv, TAssign a :: r) ->
  forall k, pexp k 1 ts = None \/ pexp k 1 ts = Some (l, TAssign a :: r).
Proof.
  intros U k. destruct k as [|k]; [left; reflexivity|]. cbn [pexp].
  destruct (punary k ts) as [[[l0 lv0] r0]|] eqn:E; [|left; reflexivity].
  pose proof (punary_unique _ _ _ _ _ U E) as Q. injection Q as <- <- <-.
  destruct k as [|k]; [left; reflexivity|]. right. reflexivity.
Qed.

Lemma pstmt_assign_stable f f' ts l lv a r e :
  f <= f' -> punary f ts = Some (l, lv, TAssign a :: r) -> pexp f 1 r = Some (e, []) ->
  pstmt f' ts = Some (SAssign a l e).
Proof.
  intros Hf U E. unfold pstmt.
  rewrite (punary_mono f f' ts _ Hf U), (pexp_mono f f' 1 r _ Hf E).
  destruct (pexp_before_assign f ts l lv a r U f') as [Q|Q]; rewrite Q; reflexivity.
Qed.

(* an answer of the statement parser at some fuel is its answer from then on *)
Lemma pstmt_mono f f' ts s : f <= f' -> pstmt f ts = Some s -> pstmt f' ts = Some s.
Proof.
  intros Hf H.
  assert (H' := H). unfold pstmt in H'.
  destruct (pexp f 1 ts) as [[e r]|] eqn:E1.
  - destruct r as [|t0 r0].
    + unfold pstmt. rewrite (pexp_mono f f' 1 ts _ Hf E1). exact H'.
    + destruct (punary f ts) as [[[l lv] r1]|] eqn:E2; [|discriminate].
      destruct r1 as [|[] r2]; try discriminate.
      destruct (pexp f 1 r2) as [[e2 r3]|] eqn:E3; [|discriminate].
      destruct r3; [|discriminate]. injection H' as <-.
      eapply pstmt_assign_stable; eassumption.
  - destruct (punary f ts) as [[[l lv] r1]|] eqn:E2; [|discriminate].
    destruct r1 as [|[] r2]; try discriminate.
    destruct (pexp f 1 r2) as [[e2 r3]|] eqn:E3; [|discriminate].
    destruct r3; [|discriminate]. injection H' as <-.
    eapply pstmt_assign_stable; eassumption.
Qed.

Lemma pstmt_stable f ts s : pstmt f ts = Some s -> evs ts s.
Proof. intros H. exists f. intros f' Hf. exact (pstmt_mono f f' ts s Hf H). Qed.

(* whenever the fixed-fuel parser answers on the formatter's output, it answers
   with the tree that was formatted *)
Theorem parse_unparse_sound a s' : parse (unparse a) = Some s' -> s' = a.
Proof.
  intros H. apply pstmt_stable in H. exact (evs_functional _ _ _ H (roundtrip a)).
Qed.

(* ---- the printer before the repair ---- *)

Definition one := Atom (AInt 1).
Definition two := Atom (AInt 2).
Definition three := Atom (AInt 3).

(* (1 + 2) * 3 is printed 1 + 2 * 3 and comes back as 1 + (2 * 3); printing that
   again gives the same text, so an idempotence test does not notice *)
Lemma old_drops_parens :
  let a := SExpr (Bin OMul (Bin OPlus one two) three) in
  let b := SExpr (Bin OPlus one (Bin OMul two three)) in
  parse (unparse_old a) = Some b /\ b <> a /\ unparse_old b = unparse_old a.
Proof. cbv zeta. split; [vm_compute; reflexivity|]. split; [discriminate|reflexivity]. Qed.

Lemma old_drops_parens_right :
  let a := SExpr (Bin OMinus one (Bin OMinus two three)) in
  let b := SExpr (Bin OMinus (Bin OMinus one two) three) in
  parse (unparse_old a) = Some b /\ b <> a.
Proof. cbv zeta. split; [vm_compute; reflexivity|discriminate]. Qed.

Lemma old_drops_parens_unary :
  let a := SExpr (Not (Bin OPlus one two)) in
  let b := SExpr (Bin OPlus (Not one) two) in
  parse (unparse_old a) = Some b /\ b <> a.
Proof. cbv zeta. split; [vm_compute; reflexivity|discriminate]. Qed.

(* the repaired printer on the same trees, with the fixed fuel of [parse] *)
Lemma new_keeps_parens :
  let a := SExpr (Bin OMul (Bin OPlus one two) three) in
  let c := SAssign false (Id [99%N] ENil)
             (Bin OAnd (Bin OMatch (Atom (ACapref true [120%N])) (Atom (ARegex [97%N])))
                       (Not (Bin OMinus one (Bin OMinus two (Post true three))))) in
  parse (unparse a) = Some a /\ parse (unparse c) = Some c.
Proof. cbv zeta. split; vm_compute; reflexivity. Qed.
