(* Stages (b) and (c) of C01, expressions: the general simulation.  Code for
   [e], run from any stack, ends with the value of [e] on top of that stack and
   with thread registers and VM state related to the reference state after
   evaluating [e] — or in [Err] with related stores — for EVERY well-typed
   expression: comparisons (typed and generic), && || with their forward
   jumps, =~ !~ and pattern matches (capture state), metric reads (store). *)
From V Require Import Lang.RefSem Lang.Codegen Lang.Vm Lang.Observe Lang.Wt Proofs.C01Sim Proofs.C01Expr.
From V Require Import Proofs.C01Store.
From Coq Require Import Lia.
Local Open Scope Z_scope.

Definition inj (v : rval) : val :=
  match v with RInt z => VI64 z | RFloat b => VF64 b | RStr s => VStr s | RBool b => VBool b end.

Definition wrel (e : expr) (v : rval) (w : val) : Prop := vrel v w /\ (i64 e = true -> w = inj v).

Lemma vrel_inj v : vrel v (inj v). Proof. destruct v; constructor. Qed.
Lemma wrel_inj e v : wrel e v (inj v). Proof. split; [apply vrel_inj | reflexivity]. Qed.

Section Gen.
Variable E : env.
Variable decls : list mdecl.
Variable file line : bytes.
Variable o : object.
Hypothesis Hmets : o_metrics o = map mdesc_of decls.

Notation ll := (mklogline file line).
Notation step := (Vm.step E o ll).
Notation nsteps := (C01Sim.nsteps E o ll).
Notation eval := (RefSem.eval E decls file line).
Notation eval_keys := (RefSem.eval_keys E decls file line).
Notation cexpr := (Codegen.cexpr decls).
Notation cexprs := (Codegen.cexprs decls).
Notation rbind := RefSem.bind.

Record rel (rs : rstate) (ms : list (Z * list bytes)) (tm : timeval) (vs : vmstate) : Prop := mk_rel {
  r_m : mrel rs ms;
  r_t : tm = time_reg rs;
  r_s : srel decls (rs_store rs) (vs_store vs);
  r_memo : memo_ok E (vs_memo vs)
}.

Definition sim_gen {A} (r : rstate -> RefSem.res A) (code : nat -> list instr)
    (Wr : A -> list val -> list val -> Prop) (P : A -> Prop) : Prop :=
  forall pc stk mt ms tm rs vs, at_pc o pc (code pc) -> rel rs ms tm vs ->
  match r rs with
  | ROk v rs' =>
      P v /\ exists stk' ms' vs' n, Wr v stk stk' /\ (n <= length (code pc))%nat /\
        nsteps n (mkthread pc stk mt ms tm) vs =
          Some (mkthread (pc + length (code pc)) stk' mt ms' tm, vs') /\
        rel rs' ms' tm vs' /\ ext (vs_store vs) (vs_store vs')
  | RAbort (AErr _) rs' =>
      exists n t1 e' vs', (n < length (code pc))%nat /\
        nsteps n (mkthread pc stk mt ms tm) vs = Some (t1, vs') /\
        step t1 vs' = SEnd (Err e') vs' /\
        srel decls (rs_store rs') (vs_store vs') /\ memo_ok E (vs_memo vs')
  | RAbort AStop _ => False
  end.

(* an expression pushes one value *)
Definition push1 (W : rval -> val -> Prop) : rval -> list val -> list val -> Prop :=
  fun v stk stk' => exists w, W v w /\ stk' = w :: stk.

Definition esim (e : expr) (t : ty) : Prop :=
  sim_gen (eval e) (fun pc => cexpr pc e) (push1 (wrel e)) (fun v => vty v = t).

(* ---- small facts ---- *)
Lemma zl_nonneg n : (zl n <? 0) = false.
Proof. unfold zl. apply Z.ltb_ge. lia. Qed.
Lemma zl_to_nat n : Z.to_nat (zl n) = n.
Proof. unfold zl. apply Nat2Z.id. Qed.

Lemma rel_store rs ms tm vs st' rst' :
  rel rs ms tm vs -> srel decls rst' st' ->
  rel (RefSem.with_store rs rst') ms tm (Vm.with_store vs st').
Proof. intros [H1 H2 H3 H4] H. constructor; cbn; auto. Qed.

Lemma step_at pc stk mt ms tm vs i t' vs' :
  at_pc o pc [i] ->
  exec E o ll i (mkthread (S pc) stk mt ms tm) vs = Ok (XNext t' vs') ->
  step (mkthread pc stk mt ms tm) vs = SNext t' vs'.
Proof. intros Ha Hx. eapply step_next; [exact (at_pc_head _ _ _ _ Ha) | exact Hx]. Qed.

Lemma step_at_err pc stk mt ms tm vs i e0 :
  at_pc o pc [i] ->
  exec E o ll i (mkthread (S pc) stk mt ms tm) vs = Er e0 ->
  step (mkthread pc stk mt ms tm) vs = SEnd (Err e0) vs.
Proof. intros Ha Hx. eapply step_err; [exact (at_pc_head _ _ _ _ Ha) | exact Hx]. Qed.

Lemma nsteps_snoc n t vs t1 vs1 t2 vs2 :
  nsteps n t vs = Some (t1, vs1) -> step t1 vs1 = SNext t2 vs2 ->
  nsteps (n + 1) t vs = Some (t2, vs2).
Proof. intros H1 H2. rewrite (nsteps_app _ _ _ _ _ _ _ _ _ H1). cbn. rewrite H2. reflexivity. Qed.

Lemma at_pc_one pc i r : at_pc o pc (i :: r) -> at_pc o pc [i].
Proof. intros H k j Hk. destruct k; [|destruct k; discriminate]. apply H. exact Hk. Qed.
Lemma at_pc_S pc i r : at_pc o pc (i :: r) -> at_pc o (pc + 1) r.
Proof. intros H. rewrite Nat.add_1_r. eapply at_pc_tail; eauto. Qed.

(* ---- unary and binary operations whose last instruction is pure ---- *)

Definition pure1 (k : rval -> rstate -> RefSem.res rval) (i : instr)
    (Wa : rval -> val -> Prop) (ta : ty) (Wr : rval -> val -> Prop) (t : ty) : Prop :=
  forall va wa rs pc' stk mt ms tm vs, vty va = ta -> Wa va wa ->
    match k va rs with
    | ROk v rs' => rs' = rs /\ vty v = t /\ exists w, Wr v w /\
        exec E o ll i (mkthread pc' (wa :: stk) mt ms tm) vs = Ok (XNext (mkthread pc' (w :: stk) mt ms tm) vs)
    | RAbort (AErr _) rs' => rs' = rs /\ exists e', exec E o ll i (mkthread pc' (wa :: stk) mt ms tm) vs = Er e'
    | RAbort AStop _ => False
    end.

Lemma sim_unop ra ca Wa ta k i Wr t :
  sim_gen ra ca (push1 Wa) (fun v => vty v = ta) -> pure1 k i Wa ta Wr t ->
  sim_gen (fun rs => rbind (ra rs) k) (fun pc => ca pc ++ [i]) (push1 Wr) (fun v => vty v = t).
Proof.
  intros IH Hk pc stk mt ms tm rs vs Hat Hrel.
  apply at_pc_app in Hat as [Hat1 Hat2].
  specialize (IH pc stk mt ms tm rs vs Hat1 Hrel).
  destruct (ra rs) as [va rs1|[|x] rs1]; cbn [RefSem.bind]; [| contradiction | ].
  - destruct IH as (Hva & stk' & ms' & vs' & n & (wa & Hwa & ->) & Hn & Hst & Hrel' & Hext).
    specialize (Hk va wa rs1 (S (pc + length (ca pc))) stk mt ms' tm vs' Hva Hwa).
    rewrite app_length. cbn [length].
    destruct (k va rs1) as [v rs2|[|x] rs2]; [| contradiction | ].
    + destruct Hk as (-> & Hv & w & Hw & Hx). split; [exact Hv|].
      exists (w :: stk), ms', vs', (n + 1)%nat. split; [exists w; auto|]. split; [lia|]. split; [|auto].
      replace (pc + (length (ca pc) + 1))%nat with (S (pc + length (ca pc))) by lia.
      eapply nsteps_snoc; [exact Hst|]. eapply step_at; [exact Hat2 | exact Hx].
    + destruct Hk as (-> & e' & Hx).
      exists n, (mkthread (pc + length (ca pc)) (wa :: stk) mt ms' tm), e', vs'.
      split; [lia|]. split; [exact Hst|]. split; [eapply step_at_err; eauto|].
      destruct Hrel'; auto.
  - destruct IH as (n & t1 & e' & vs' & Hn & Hst & Hs & Hr).
    exists n, t1, e', vs'. rewrite app_length. split; [lia|]. auto.
Qed.

Definition pure2 (k : rval -> rval -> rstate -> RefSem.res rval) (i : instr)
    (Wa Wb : rval -> val -> Prop) (ta tb : ty) (Wr : rval -> val -> Prop) (t : ty) : Prop :=
  forall va wa vb wb rs pc' stk mt ms tm vs, vty va = ta -> Wa va wa -> vty vb = tb -> Wb vb wb ->
    match k va vb rs with
    | ROk v rs' => rs' = rs /\ vty v = t /\ exists w, Wr v w /\
        exec E o ll i (mkthread pc' (wb :: wa :: stk) mt ms tm) vs = Ok (XNext (mkthread pc' (w :: stk) mt ms tm) vs)
    | RAbort (AErr _) rs' => rs' = rs /\ exists e', exec E o ll i (mkthread pc' (wb :: wa :: stk) mt ms tm) vs = Er e'
    | RAbort AStop _ => False
    end.

(* two operands evaluated one after the other *)
Lemma sim_seq2 ra ca Wa ta rb cb Wb tb :
  sim_gen ra ca (push1 Wa) (fun v => vty v = ta) ->
  sim_gen rb cb (push1 Wb) (fun v => vty v = tb) ->
  sim_gen (fun rs => rbind (ra rs) (fun va s1 => rbind (rb s1) (fun vb s2 => ROk (va, vb) s2)))
          (fun pc => ca pc ++ cb (pc + length (ca pc))%nat)
          (fun v stk stk' => exists wa wb, Wa (fst v) wa /\ Wb (snd v) wb /\ stk' = wb :: wa :: stk)
          (fun v => vty (fst v) = ta /\ vty (snd v) = tb).
Proof.
  intros IHa IHb pc stk mt ms tm rs vs Hat Hrel.
  apply at_pc_app in Hat as [Hat1 Hat2].
  specialize (IHa pc stk mt ms tm rs vs Hat1 Hrel).
  destruct (ra rs) as [va rs1|[|x] rs1]; cbn [RefSem.bind]; [| contradiction | ].
  - destruct IHa as (Hva & stk' & ms1 & vs1 & n1 & (wa & Hwa & ->) & Hn1 & Hst1 & Hrel1 & Hext1).
    specialize (IHb (pc + length (ca pc))%nat (wa :: stk) mt ms1 tm rs1 vs1 Hat2 Hrel1).
    rewrite app_length.
    destruct (rb rs1) as [vb rs2|[|x] rs2]; cbn [RefSem.bind]; [| contradiction | ].
    + destruct IHb as (Hvb & stk'' & ms2 & vs2 & n2 & (wb & Hwb & ->) & Hn2 & Hst2 & Hrel2 & Hext2).
      split; [auto|]. exists (wb :: wa :: stk), ms2, vs2, (n1 + n2)%nat.
      split; [exists wa, wb; auto|]. split; [lia|]. split; [|split; [exact Hrel2 | eapply ext_trans; eauto]].
      rewrite (nsteps_app _ _ _ _ _ _ _ _ _ Hst1), Nat.add_assoc. exact Hst2.
    + destruct IHb as (n2 & t1 & e' & vs2 & Hn2 & Hst2 & Hs & Hr).
      exists (n1 + n2)%nat, t1, e', vs2. split; [lia|]. split; [|auto].
      rewrite (nsteps_app _ _ _ _ _ _ _ _ _ Hst1). exact Hst2.
  - destruct IHa as (n & t1 & e' & vs' & Hn & Hst & Hs & Hr).
    exists n, t1, e', vs'. rewrite app_length. split; [lia|]. auto.
Qed.

Lemma sim_binop ra ca Wa ta rb cb Wb tb k i Wr t :
  sim_gen ra ca (push1 Wa) (fun v => vty v = ta) ->
  sim_gen rb cb (push1 Wb) (fun v => vty v = tb) ->
  pure2 k i Wa Wb ta tb Wr t ->
  sim_gen (fun rs => rbind (ra rs) (fun va s1 => rbind (rb s1) (fun vb s2 => k va vb s2)))
          (fun pc => ca pc ++ cb (pc + length (ca pc))%nat ++ [i]) (push1 Wr) (fun v => vty v = t).
Proof.
  intros IHa IHb Hk pc stk mt ms tm rs vs Hat Hrel.
  rewrite app_assoc in Hat. apply at_pc_app in Hat as [Hat12 Hat3].
  pose proof (sim_seq2 _ _ _ _ _ _ _ _ IHa IHb pc stk mt ms tm rs vs Hat12 Hrel) as IH. cbn beta in IH.
  rewrite app_assoc, app_length. cbn [length].
  destruct (ra rs) as [va rs1|[|x] rs1]; cbn [RefSem.bind] in *; [| contradiction | ].
  - destruct (rb rs1) as [vb rs2|[|x] rs2]; cbn [RefSem.bind] in *; [| contradiction | ].
    + destruct IH as ((Hva & Hvb) & stk' & ms' & vs' & n & (wa & wb & Hwa & Hwb & ->) & Hn & Hst & Hrel' & Hext).
      cbn [fst snd] in *.
      set (L := length (ca pc ++ cb (pc + length (ca pc))%nat)) in *.
      specialize (Hk va wa vb wb rs2 (S (pc + L)) stk mt ms' tm vs' Hva Hwa Hvb Hwb).
      destruct (k va vb rs2) as [v rs3|[|x] rs3]; [| contradiction | ].
      * destruct Hk as (-> & Hv & w & Hw & Hx). split; [exact Hv|].
        exists (w :: stk), ms', vs', (n + 1)%nat. split; [exists w; auto|]. split; [lia|]. split; [|auto].
        replace (pc + (L + 1))%nat with (S (pc + L)) by lia.
        eapply nsteps_snoc; [exact Hst|]. eapply step_at; [exact Hat3 | exact Hx].
      * destruct Hk as (-> & e' & Hx).
        exists n, (mkthread (pc + L) (wb :: wa :: stk) mt ms' tm), e', vs'.
        split; [lia|]. split; [exact Hst|]. split; [eapply step_at_err; eauto|].
        destruct Hrel'; auto.
    + destruct IH as (n & t1 & e' & vs' & Hn & Hst & Hs & Hr).
      exists n, t1, e', vs'. split; [lia|]. auto.
  - destruct IH as (n & t1 & e' & vs' & Hn & Hst & Hs & Hr).
    exists n, t1, e', vs'. split; [lia|]. auto.
Qed.

(* ---- forward jumps ---- *)

Definition truth (w : val) : option bool :=
  match w with VBool b => Some b | VI64 z => Some (negb (z =? 0)) | _ => None end.

Lemma fetch_off p k i code : at_pc o p code -> nth_error code k = Some i -> nth_error (o_prog o) (p + k) = Some i.
Proof. intros H Hk. apply H. exact Hk. Qed.

Definition jop (jm : bool) : opcode := if jm then Jm else Jnm.

(* the conditional jump taken *)
Lemma jump_taken p q stk mt ms tm vs w r jm :
  truth w = Some r -> Bool.eqb r jm = true ->
  nth_error (o_prog o) p = Some (ins (jop jm) (OInt (zl q))) ->
  step (mkthread p (w :: stk) mt ms tm) vs = SNext (mkthread q stk mt ms tm) vs.
Proof.
  intros Hw Hj Hf. eapply step_next; [exact Hf|].
  destruct w; try discriminate; cbn in Hw; inversion Hw; subst r; destruct jm; cbn -[zl];
    try (destruct b; try discriminate; cbn -[zl]);
    try (destruct (z =? 0); try discriminate; cbn -[zl]);
    rewrite zl_nonneg, zl_to_nat; reflexivity.
Qed.

Lemma jump_not_taken p q stk mt ms tm vs w r jm :
  truth w = Some r -> Bool.eqb r jm = false ->
  nth_error (o_prog o) p = Some (ins (jop jm) (OInt (zl q))) ->
  step (mkthread p (w :: stk) mt ms tm) vs = SNext (mkthread (S p) stk mt ms tm) vs.
Proof.
  intros Hw Hj Hf. eapply step_next; [exact Hf|].
  destruct w; try discriminate; cbn in Hw; inversion Hw; subst r; destruct jm; cbn -[zl];
    try (destruct b; try discriminate; reflexivity);
    try (destruct (z =? 0); try discriminate; reflexivity).
Qed.

Lemma step_push p stk mt ms tm vs a :
  nth_error (o_prog o) p = Some (ins Push a) ->
  step (mkthread p stk mt ms tm) vs = SNext (mkthread (S p) (operand_val a :: stk) mt ms tm) vs.
Proof. intros Hf. eapply step_next; [exact Hf | reflexivity]. Qed.

Lemma step_jmp p q stk mt ms tm vs :
  nth_error (o_prog o) p = Some (ins Jmp (OInt (zl q))) ->
  step (mkthread p stk mt ms tm) vs = SNext (mkthread q stk mt ms tm) vs.
Proof.
  intros Hf. eapply step_next; [exact Hf|]. cbn -[zl]. rewrite zl_nonneg, zl_to_nat. reflexivity.
Qed.

Definition tail4 (jm bt bf : bool) (p : nat) : list instr :=
  [ins (jop jm) (OInt (zl (p + 3))); ins Push (OBool bt); ins Jmp (OInt (zl (p + 4))); ins Push (OBool bf)].

Lemma bool_tail p stk mt ms tm vs w r jm bt bf :
  truth w = Some r -> at_pc o p (tail4 jm bt bf p) ->
  exists n, (n <= 3)%nat /\
    nsteps n (mkthread p (w :: stk) mt ms tm) vs =
    Some (mkthread (p + 4) (VBool (if Bool.eqb r jm then bf else bt) :: stk) mt ms tm, vs).
Proof.
  intros Hw Hat.
  pose proof (fetch_off _ 0 _ _ Hat eq_refl) as H0. rewrite Nat.add_0_r in H0.
  pose proof (fetch_off _ 1 _ _ Hat eq_refl) as H1.
  pose proof (fetch_off _ 2 _ _ Hat eq_refl) as H2.
  pose proof (fetch_off _ 3 _ _ Hat eq_refl) as H3.
  destruct (Bool.eqb r jm) eqn:Hj.
  - exists 2%nat. split; [lia|]. cbn [C01Sim.nsteps].
    rewrite (jump_taken _ _ _ _ _ _ _ _ _ _ Hw Hj H0), (step_push _ _ _ _ _ _ _ H3).
    replace (S (p + 3)) with (p + 4)%nat by lia. reflexivity.
  - exists 3%nat. split; [lia|]. cbn [C01Sim.nsteps].
    rewrite (jump_not_taken _ _ _ _ _ _ _ _ _ _ Hw Hj H0).
    replace (S p) with (p + 1)%nat by lia. rewrite (step_push _ _ _ _ _ _ _ H1).
    replace (S (p + 1)) with (p + 2)%nat by lia. rewrite (step_jmp _ _ _ _ _ _ _ H2). reflexivity.
Qed.

Lemma sim_gen_ext {A} (r1 r2 : rstate -> RefSem.res A) code Wr P :
  (forall rs, r1 rs = r2 rs) -> sim_gen r2 code Wr P -> sim_gen r1 code Wr P.
Proof. intros He H pc stk mt ms tm rs vs Hat Hrel. rewrite He. apply H; auto. Qed.

(* short-circuit logic: a; J L; b; J L; push bt; jmp End; L: push bf; End: *)
Lemma sim_logic ra ca Wa (Pa : rval -> Prop) rb cb Wb (Pb : rval -> Prop) jm bt bf (Wr : rval -> val -> Prop) :
  sim_gen ra ca (push1 Wa) Pa -> sim_gen rb cb (push1 Wb) Pb ->
  (forall v w, Pa v -> Wa v w -> truth w = Some (truthy E v)) ->
  (forall v w, Pb v -> Wb v w -> truth w = Some (truthy E v)) ->
  (forall b, Wr (RBool b) (VBool b)) ->
  sim_gen (fun rs => rbind (ra rs) (fun va s1 =>
             if Bool.eqb (truthy E va) jm then ROk (RBool bf) s1
             else rbind (rb s1) (fun vb s2 => ROk (RBool (if Bool.eqb (truthy E vb) jm then bf else bt)) s2)))
          (fun pc => let la := length (ca pc) in
                     let cb' := cb (pc + la + 1)%nat in
                     let p := (pc + la + 1 + length cb')%nat in
                     ca pc ++ [ins (jop jm) (OInt (zl (p + 3)))] ++ cb' ++ tail4 jm bt bf p)
          (push1 Wr) (fun v => vty v = TBool).
Proof.
  intros IHa IHb Ta Tb HWr pc stk mt ms tm rs vs Hat Hrel. cbn zeta in *.
  set (la := length (ca pc)) in *. set (cb' := cb (pc + la + 1)%nat) in *.
  set (p := (pc + la + 1 + length cb')%nat) in *.
  apply at_pc_app in Hat as [Hat1 Hat2]. fold la in Hat2.
  apply at_pc_app in Hat2 as [HatJ Hat3]. cbn [length] in Hat3.
  apply at_pc_app in Hat3 as [Hat3 Hat4]. replace (pc + la + 1 + length cb')%nat with p in Hat4 by reflexivity.
  assert (Hlen : length (ca pc ++ [ins (jop jm) (OInt (zl (p + 3)))] ++ cb' ++ tail4 jm bt bf p)
                 = (la + 1 + length cb' + 4)%nat).
  { rewrite !app_length. cbn [length tail4]. fold la. lia. }
  rewrite Hlen.
  specialize (IHa pc stk mt ms tm rs vs Hat1 Hrel).
  destruct (ra rs) as [va rs1|[|x] rs1]; cbn [RefSem.bind]; [| contradiction | ].
  2:{ destruct IHa as (n & t1 & e' & vs' & Hn & Hst & Hs & Hr). exists n, t1, e', vs'.
      fold la in Hn. split; [lia|]. auto. }
  destruct IHa as (Hva & stk' & ms1 & vs1 & n1 & (wa & Hwa & ->) & Hn1 & Hst1 & Hrel1 & Hext1).
  fold la in Hn1, Hst1.
  pose proof (Ta _ _ Hva Hwa) as Htw.
  pose proof (at_pc_head _ _ _ _ HatJ) as HfJ.
  destruct (Bool.eqb (truthy E va) jm) eqn:Hj.
  - (* short circuit: jump to L, push bf *)
    split; [reflexivity|].
    exists (VBool bf :: stk), ms1, vs1, (n1 + 2)%nat.
    split; [exists (VBool bf); auto|]. split; [lia|]. split; [|auto].
    rewrite (nsteps_app _ _ _ _ _ _ _ _ _ Hst1). cbn [C01Sim.nsteps].
    rewrite (jump_taken _ _ _ _ _ _ _ _ _ _ Htw Hj HfJ).
    pose proof (fetch_off _ 3 _ _ Hat4 eq_refl) as H3.
    rewrite (step_push _ _ _ _ _ _ _ H3).
    replace (S (p + 3)) with (pc + (la + 1 + length cb' + 4))%nat by (unfold p; lia). reflexivity.
  - (* evaluate b, then the tail *)
    replace (pc + la + 1)%nat with (S (pc + la)) in Hat3 by lia.
    assert (Hst1' : nsteps (n1 + 1) (mkthread pc stk mt ms tm) vs =
                    Some (mkthread (S (pc + la)) stk mt ms1 tm, vs1)).
    { eapply nsteps_snoc; [exact Hst1|]. exact (jump_not_taken _ _ _ _ _ _ _ _ _ _ Htw Hj HfJ). }
    assert (Hcb : cb' = cb (S (pc + la))) by (unfold cb'; f_equal; lia).
    rewrite Hcb in Hat3.
    specialize (IHb (S (pc + la)) stk mt ms1 tm rs1 vs1 Hat3 Hrel1).
    rewrite <- Hcb in IHb.
    destruct (rb rs1) as [vb rs2|[|x] rs2]; cbn [RefSem.bind]; [| contradiction | ].
    + destruct IHb as (Hvb & stk'' & ms2 & vs2 & n2 & (wb & Hwb & ->) & Hn2 & Hst2 & Hrel2 & Hext2).
      pose proof (Tb _ _ Hvb Hwb) as Htb.
      replace (S (pc + la) + length cb')%nat with p in Hst2 by (unfold p; lia).
      destruct (bool_tail p stk mt ms2 tm vs2 wb _ jm bt bf Htb Hat4) as (n3 & Hn3 & Hst3).
      split; [reflexivity|].
      eexists. exists ms2, vs2, (n1 + 1 + n2 + n3)%nat.
      split; [eexists; split; [apply HWr | reflexivity]|]. split; [lia|].
      split; [|split; [exact Hrel2 | eapply ext_trans; eauto]].
      rewrite <- Nat.add_assoc, (nsteps_app _ _ _ _ _ _ _ _ _ Hst1'), (nsteps_app _ _ _ _ _ _ _ _ _ Hst2).
      replace (pc + (la + 1 + length cb' + 4))%nat with (p + 4)%nat by (unfold p; lia). exact Hst3.
    + destruct IHb as (n2 & t1 & e' & vs2 & Hn2 & Hst2 & Hs & Hr).
      exists (n1 + 1 + n2)%nat, t1, e', vs2. split; [lia|]. split; [|auto].
      rewrite (nsteps_app _ _ _ _ _ _ _ _ _ Hst1'). exact Hst2.
Qed.

(* comparison: a; b; cmp; J L; push true; jmp End; L: push false; End: *)
Definition cmp_spec (k : rval -> rval -> bool) (i : instr) (Wa Wb : rval -> val -> Prop) (t : ty) : Prop :=
  forall va wa vb wb pc' stk mt ms tm vs, vty va = t -> Wa va wa -> vty vb = t -> Wb vb wb ->
    exec E o ll i (mkthread pc' (wb :: wa :: stk) mt ms tm) vs =
    Ok (XNext (mkthread pc' (VBool (k va vb) :: stk) mt ms tm) vs).

Lemma sim_cmp ra ca Wa rb cb Wb t k kk i jm (Wr : rval -> val -> Prop) :
  sim_gen ra ca (push1 Wa) (fun v => vty v = t) ->
  sim_gen rb cb (push1 Wb) (fun v => vty v = t) ->
  cmp_spec k i Wa Wb t ->
  (forall b, Wr (RBool b) (VBool b)) ->
  (forall va vb s, vty va = t -> vty vb = t ->
     kk va vb s = ROk (RBool (if Bool.eqb (k va vb) jm then false else true)) s) ->
  sim_gen (fun rs => rbind (ra rs) (fun va s1 => rbind (rb s1) (fun vb s2 => kk va vb s2)))
          (fun pc => let cb' := cb (pc + length (ca pc))%nat in
                     let p := (pc + length (ca pc) + length cb')%nat in
                     ca pc ++ cb' ++ [i; ins (jop jm) (OInt (zl (p + 4))); ins Push (OBool true);
                                      ins Jmp (OInt (zl (p + 5))); ins Push (OBool false)])
          (push1 Wr) (fun v => vty v = TBool).
Proof.
  intros IHa IHb Hk HWr Hkk pc stk mt ms tm rs vs Hat Hrel. cbn zeta in *.
  set (cb' := cb (pc + length (ca pc))%nat) in *.
  set (p := (pc + length (ca pc) + length cb')%nat) in *.
  assert (Hc : [i; ins (jop jm) (OInt (zl (p + 4))); ins Push (OBool true);
                ins Jmp (OInt (zl (p + 5))); ins Push (OBool false)] = i :: tail4 jm true false (p + 1)).
  { unfold tail4. replace (p + 1 + 3)%nat with (p + 4)%nat by lia.
    replace (p + 1 + 4)%nat with (p + 5)%nat by lia. reflexivity. }
  rewrite Hc in *. clear Hc.
  rewrite app_assoc in Hat. apply at_pc_app in Hat as [Hat12 Hat3].
  rewrite app_length in Hat3. replace (pc + (length (ca pc) + length cb'))%nat with p in Hat3 by (unfold p; lia).
  pose proof (sim_seq2 _ _ _ _ _ _ _ _ IHa IHb pc stk mt ms tm rs vs Hat12 Hrel) as IH. cbn beta in IH.
  fold cb' in IH.
  assert (Hlen : length (ca pc ++ cb' ++ i :: tail4 jm true false (p + 1)) = (length (ca pc ++ cb') + 5)%nat).
  { rewrite !app_length. cbn [length tail4]. lia. }
  rewrite Hlen.
  destruct (ra rs) as [va rs1|[|x] rs1]; cbn [RefSem.bind] in *; [| contradiction | ].
  2:{ destruct IH as (n & t1 & e' & vs' & Hn & Hst & Hs & Hr). exists n, t1, e', vs'. split; [lia|]. auto. }
  destruct (rb rs1) as [vb rs2|[|x] rs2]; cbn [RefSem.bind] in *; [| contradiction | ].
  2:{ destruct IH as (n & t1 & e' & vs' & Hn & Hst & Hs & Hr). exists n, t1, e', vs'. split; [lia|]. auto. }
  destruct IH as ((Hva & Hvb) & stk' & ms' & vs' & n & (wa & wb & Hwa & Hwb & ->) & Hn & Hst & Hrel' & Hext).
  cbn [fst snd] in *. rewrite app_length in Hst, Hn. rewrite (Hkk va vb rs2 Hva Hvb).
  replace (pc + (length (ca pc) + length cb'))%nat with p in Hst by (unfold p; lia).
  pose proof (Hk va wa vb wb (S p) stk mt ms' tm vs' Hva Hwa Hvb Hwb) as Hx.
  assert (Hst' : nsteps (n + 1) (mkthread pc stk mt ms tm) vs =
                 Some (mkthread (S p) (VBool (k va vb) :: stk) mt ms' tm, vs')).
  { eapply nsteps_snoc; [exact Hst|]. eapply step_at; [eapply at_pc_one; exact Hat3 | exact Hx]. }
  apply at_pc_S in Hat3.
  destruct (bool_tail (p + 1) stk mt ms' tm vs' (VBool (k va vb)) _ jm true false eq_refl Hat3) as (n3 & Hn3 & Hst3).
  split; [reflexivity|].
  eexists. exists ms', vs', (n + 1 + n3)%nat.
  split; [eexists; split; [apply HWr | reflexivity]|]. split; [rewrite app_length; lia|]. split; [|auto].
  rewrite (nsteps_app _ _ _ _ _ _ _ _ _ Hst').
  replace (S p) with (p + 1)%nat by lia.
  replace (pc + (length (ca pc ++ cb') + 5))%nat with (p + 1 + 4)%nat by (rewrite app_length; unfold p; lia).
  exact Hst3.
Qed.

(* ---- weakening ---- *)
Lemma sim_weaken {A} (r : rstate -> RefSem.res A) code (W1 W2 : A -> list val -> list val -> Prop) P :
  (forall v s s', W1 v s s' -> W2 v s s') -> sim_gen r code W1 P -> sim_gen r code W2 P.
Proof.
  intros HW H pc stk mt ms tm rs vs Hat Hrel. specialize (H pc stk mt ms tm rs vs Hat Hrel).
  destruct (r rs) as [v rs'|[|x] rs']; auto.
  destruct H as (HP & stk' & ms' & vs' & n & Hw & Hrest). split; [exact HP|].
  exists stk', ms', vs', n. split; [apply HW; exact Hw | exact Hrest].
Qed.

Lemma push1_mono (W1 W2 : rval -> val -> Prop) :
  (forall v w, W1 v w -> W2 v w) -> forall v s s', push1 W1 v s s' -> push1 W2 v s s'.
Proof. intros H v s s' (w & Hw & ->). exists w; auto. Qed.

Lemma esim_vrel e t : esim e t -> sim_gen (eval e) (fun pc => cexpr pc e) (push1 vrel) (fun v => vty v = t).
Proof. apply sim_weaken. apply push1_mono. intros v w [H _]; exact H. Qed.

Lemma vrel_not_int v w : vty v <> TInt -> vrel v w -> w = inj v.
Proof. intros Hn H. inversion H; subst; cbn in *; congruence. Qed.

Definition isinj (v : rval) (w : val) : Prop := w = inj v.
Lemma isinj_wrel e : forall v w, isinj v w -> wrel e v w.
Proof. intros v w ->. apply wrel_inj. Qed.

Lemma from_inj e r code t :
  sim_gen r code (push1 isinj) (fun v => vty v = t) -> sim_gen r code (push1 (wrel e)) (fun v => vty v = t).
Proof. apply sim_weaken. apply push1_mono. apply isinj_wrel. Qed.

(* ---- specifications of the single final instructions ---- *)

Lemma spec_neg :
  pure1 (fun va s1 => match va with RInt z => ROk (RInt (i_not z)) s1 | _ => RefSem.fail REType s1 end)
        (ins Neg ONil) vrel TInt isinj TInt.
Proof.
  intros va wa rs pc' stk mt ms tm vs Hv Hw. apply vty_int in Hv as [z ->].
  repeat split. exists (VI64 (i_not z)). split; [reflexivity|]. inversion Hw; subst; reflexivity.
Qed.

Lemma spec_len :
  pure1 (fun va s1 => rbind (RefSem.as_str va s1) (fun x s2 => ROk (RInt (Z.of_nat (length x))) s2))
        (ins Length (OInt 1)) vrel TStr vrel TInt.
Proof.
  intros va wa rs pc' stk mt ms tm vs Hv Hw. apply vty_str in Hv as [z ->]. cbn.
  repeat split. exists (VInt (Z.of_nat (length z))). split; [constructor|]. inversion Hw; subst; reflexivity.
Qed.

Lemma spec_tolower :
  pure1 (fun va s1 => rbind (RefSem.as_str va s1) (fun x s2 => ROk (RStr (to_lower E x)) s2))
        (ins Tolower (OInt 1)) vrel TStr isinj TStr.
Proof.
  intros va wa rs pc' stk mt ms tm vs Hv Hw. apply vty_str in Hv as [z ->]. cbn.
  repeat split. exists (VStr (to_lower E z)). split; [reflexivity|]. inversion Hw; subst; reflexivity.
Qed.

Lemma spec_conv f t i : conv_code f t = [i] -> conv_ok f t = true ->
  pure1 (fun va s1 => RefSem.conv E f t va s1) i vrel f isinj t.
Proof.
  intros Hc Hok va wa rs pc' stk mt ms tm vs Hv Hw.
  destruct f, t; try discriminate; cbn in Hc; inversion Hc; subst i;
    try (apply vty_int in Hv as [z ->]); try (apply vty_float in Hv as [z ->]); try (apply vty_str in Hv as [z ->]);
    cbn [RefSem.conv].
  - repeat split. eexists. split; [reflexivity|]. inversion Hw; subst; reflexivity.
  - repeat split. eexists. split; [reflexivity|]. inversion Hw; subst; reflexivity.
  - repeat split. eexists. split; [reflexivity|]. inversion Hw; subst; reflexivity.
  - inversion Hw; subst. destruct (parse_int E z 10 64) as [i|] eqn:Hp.
    + repeat split. eexists. split; [reflexivity|]. cbn. rewrite Hp. reflexivity.
    + split; [reflexivity|]. eexists. cbn. rewrite Hp. reflexivity.
  - inversion Hw; subst. destruct (parse_float E z) as [i|] eqn:Hp.
    + repeat split. eexists. split; [reflexivity|]. cbn. rewrite Hp. reflexivity.
    + split; [reflexivity|]. eexists. cbn. rewrite Hp. reflexivity.
Qed.

Lemma spec_arith_int op :
  pure2 (fun va vb s => do_arith E op TInt va vb s) (ins (arith_op op TInt) ONil) vrel vrel TInt TInt isinj TInt.
Proof.
  intros va wa vb wb rs pc' stk mt ms tm vs Hva Hwa Hvb Hwb.
  apply vty_int in Hva as [x ->]. apply vty_int in Hvb as [y ->]. cbn [do_arith].
  assert (Hop : is_int_op (arith_op op TInt) = true) by (destruct op; reflexivity).
  destruct op; cbn [arith_int];
    try (repeat split; eexists; split; [reflexivity|];
         eapply exec_int_binop; [exact Hop | exact Hwa | exact Hwb | reflexivity]).
  - destruct (y =? 0) eqn:Hz.
    + split; [reflexivity|]. eexists. eapply exec_int_binop_err; [exact Hop | exact Hwa | exact Hwb | cbn; rewrite Hz; reflexivity].
    + repeat split; eexists; split; [reflexivity|].
      eapply exec_int_binop; [exact Hop | exact Hwa | exact Hwb | cbn; rewrite Hz; reflexivity].
  - destruct (y =? 0) eqn:Hz.
    + split; [reflexivity|]. eexists. eapply exec_int_binop_err; [exact Hop | exact Hwa | exact Hwb | cbn; rewrite Hz; reflexivity].
    + repeat split; eexists; split; [reflexivity|].
      eapply exec_int_binop; [exact Hop | exact Hwa | exact Hwb | cbn; rewrite Hz; reflexivity].
Qed.

Lemma spec_arith_float op :
  pure2 (fun va vb s => do_arith E op TFloat va vb s) (ins (arith_op op TFloat) ONil) vrel vrel TFloat TFloat isinj TFloat.
Proof.
  intros va wa vb wb rs pc' stk mt ms tm vs Hva Hwa Hvb Hwb.
  apply vty_float in Hva as [x ->]. apply vty_float in Hvb as [y ->]. cbn [do_arith].
  assert (Hop : is_float_op (arith_op op TFloat) = true) by (destruct op; reflexivity).
  repeat split; eexists; split; [reflexivity|].
  eapply exec_float_binop; [exact Hop | exact Hwa | exact Hwb | destruct op; reflexivity].
Qed.

Lemma spec_bit op :
  pure2 (fun va vb s => do_bit op va vb s) (ins (bit_op op) ONil) vrel vrel TInt TInt isinj TInt.
Proof.
  intros va wa vb wb rs pc' stk mt ms tm vs Hva Hwa Hvb Hwb.
  apply vty_int in Hva as [x ->]. apply vty_int in Hvb as [y ->]. cbn [do_bit].
  assert (Hop : is_int_op (bit_op op) = true) by (destruct op; reflexivity).
  destruct op;
    try (repeat split; eexists; split; [reflexivity|];
         eapply exec_int_binop; [exact Hop | exact Hwa | exact Hwb | reflexivity]).
  - destruct ((y <? 0) || (max_int32 <=? y)) eqn:Hz.
    + split; [reflexivity|]. eexists. eapply exec_int_binop_err; [exact Hop | exact Hwa | exact Hwb | cbn; rewrite Hz; reflexivity].
    + repeat split; eexists; split; [reflexivity|].
      eapply exec_int_binop; [exact Hop | exact Hwa | exact Hwb | cbn; rewrite Hz; reflexivity].
  - destruct ((y <? 0) || (max_int32 <=? y)) eqn:Hz.
    + split; [reflexivity|]. eexists. eapply exec_int_binop_err; [exact Hop | exact Hwa | exact Hwb | cbn; rewrite Hz; reflexivity].
    + repeat split; eexists; split; [reflexivity|].
      eapply exec_int_binop; [exact Hop | exact Hwa | exact Hwb | cbn; rewrite Hz; reflexivity].
Qed.

Lemma spec_strtol :
  pure2 (fun va vb s => do_strtol E va vb s) (ins S2i (OInt 2)) vrel vrel TStr TInt isinj TInt.
Proof.
  intros va wa vb wb rs pc' stk mt ms tm vs Hva Hwa Hvb Hwb.
  apply vty_str in Hva as [x ->]. apply vty_int in Hvb as [b ->]. cbn [do_strtol].
  inversion Hwa; subst.
  destruct ((b <=? 0) || (max_int32 <=? b)) eqn:Hr.
  - split; [reflexivity|]. eexists. inversion Hwb; subst; cbn; rewrite Hr; reflexivity.
  - destruct (parse_int E x b 64) as [z|] eqn:Hp.
    + repeat split. eexists. split; [reflexivity|]. inversion Hwb; subst; cbn; rewrite Hr; cbn; rewrite Hp; reflexivity.
    + split; [reflexivity|]. eexists. inversion Hwb; subst; cbn; rewrite Hr; cbn; rewrite Hp; reflexivity.
Qed.

(* ---- comparisons ---- *)
Definition raw_cmp (t : ty) (arg : Z) (va vb : rval) : bool :=
  match t, va, vb with
  | TInt, RInt x, RInt y => if arg =? -1 then x <? y else if arg =? 0 then x =? y else y <? x
  | TFloat, RFloat x, RFloat y =>
      if arg =? -1 then fl_lt E x y else if arg =? 0 then fl_eq E x y else fl_lt E y x
  | TStr, RStr x, RStr y =>
      if arg =? -1 then bytes_ltb x y else if arg =? 0 then bytes_eqb x y else bytes_ltb y x
  | _, _, _ => false
  end.

Lemma spec_cmp t typed arg :
  (arg = -1 \/ arg = 0 \/ arg = 1) -> t <> TBool -> (t = TStr -> typed = true) ->
  cmp_spec (raw_cmp t arg) (ins (cmp_opcode t typed) (OInt arg)) vrel vrel t.
Proof.
  intros Harg Hnb Hs va wa vb wb pc' stk mt ms tm vs Hva Hwa Hvb Hwb.
  destruct t; try congruence.
  - apply vty_int in Hva as [x ->]. apply vty_int in Hvb as [y ->].
    destruct typed; inversion Hwa; subst; inversion Hwb; subst;
      destruct Harg as [-> | [-> | ->]]; reflexivity.
  - apply vty_float in Hva as [x ->]. apply vty_float in Hvb as [y ->].
    destruct typed; inversion Hwa; subst; inversion Hwb; subst;
      destruct Harg as [-> | [-> | ->]]; reflexivity.
  - apply vty_str in Hva as [x ->]. apply vty_str in Hvb as [y ->]. rewrite (Hs eq_refl).
    inversion Hwa; subst; inversion Hwb; subst; destruct Harg as [-> | [-> | ->]]; reflexivity.
Qed.

Definition jm_of (op : cmpop) : bool := match op with CLe | CGe | CNe => true | _ => false end.

Lemma do_cmp_raw op t va vb s : t <> TBool -> vty va = t -> vty vb = t ->
  do_cmp E op t va vb s =
  ROk (RBool (if Bool.eqb (raw_cmp t (fst (cmp_arg op)) va vb) (jm_of op) then false else true)) s.
Proof.
  intros Hnb Hva Hvb. destruct t; try congruence.
  - apply vty_int in Hva as [x ->]. apply vty_int in Hvb as [y ->]. cbn [do_cmp raw_cmp].
    destruct op; cbn; repeat match goal with |- context [?a <? ?b] => destruct (a <? b) | |- context [?a =? ?b] => destruct (a =? b) end; reflexivity.
  - apply vty_float in Hva as [x ->]. apply vty_float in Hvb as [y ->]. cbn [do_cmp raw_cmp].
    destruct op; cbn; repeat match goal with |- context [fl_lt E ?a ?b] => destruct (fl_lt E a b) | |- context [fl_eq E ?a ?b] => destruct (fl_eq E a b) end; reflexivity.
  - apply vty_str in Hva as [x ->]. apply vty_str in Hvb as [y ->]. cbn [do_cmp raw_cmp].
    destruct op; cbn; repeat match goal with |- context [bytes_ltb ?a ?b] => destruct (bytes_ltb a b) | |- context [bytes_eqb ?a ?b] => destruct (bytes_eqb a b) end; reflexivity.
Qed.

Lemma cond_truth e t v w :
  is_cond e (Some t) = true -> vty v = t -> wrel e v w -> truth w = Some (truthy E v).
Proof.
  intros Hc Hv [Hr Hi]. destruct t; cbn in Hc; try discriminate.
  - apply vty_int in Hv as [z ->]. rewrite (Hi Hc). reflexivity.
  - destruct v; cbn in Hv; try discriminate. inversion Hr; subst. reflexivity.
Qed.

(* ---- general sequencing and a final pure instruction ---- *)
Lemma sim_seq {A B} (ra : rstate -> RefSem.res A) ca (Wa : A -> list val -> list val -> Prop) (Pa : A -> Prop)
    (rb : rstate -> RefSem.res B) cb (Wb : B -> list val -> list val -> Prop) (Pb : B -> Prop) :
  sim_gen ra ca Wa Pa -> sim_gen rb cb Wb Pb ->
  sim_gen (fun rs => rbind (ra rs) (fun va s1 => rbind (rb s1) (fun vb s2 => ROk (va, vb) s2)))
          (fun pc => ca pc ++ cb (pc + length (ca pc))%nat)
          (fun v stk stk' => exists stk1, Wa (fst v) stk stk1 /\ Wb (snd v) stk1 stk')
          (fun v => Pa (fst v) /\ Pb (snd v)).
Proof.
  intros IHa IHb pc stk mt ms tm rs vs Hat Hrel.
  apply at_pc_app in Hat as [Hat1 Hat2].
  specialize (IHa pc stk mt ms tm rs vs Hat1 Hrel).
  destruct (ra rs) as [va rs1|[|x] rs1]; cbn [RefSem.bind]; [| contradiction | ].
  - destruct IHa as (Hva & stk1 & ms1 & vs1 & n1 & Hwa & Hn1 & Hst1 & Hrel1 & Hext1).
    specialize (IHb (pc + length (ca pc))%nat stk1 mt ms1 tm rs1 vs1 Hat2 Hrel1).
    rewrite app_length.
    destruct (rb rs1) as [vb rs2|[|x] rs2]; cbn [RefSem.bind]; [| contradiction | ].
    + destruct IHb as (Hvb & stk2 & ms2 & vs2 & n2 & Hwb & Hn2 & Hst2 & Hrel2 & Hext2).
      split; [auto|]. exists stk2, ms2, vs2, (n1 + n2)%nat.
      split; [exists stk1; auto|]. split; [lia|]. split; [|split; [exact Hrel2 | eapply ext_trans; eauto]].
      rewrite (nsteps_app _ _ _ _ _ _ _ _ _ Hst1), Nat.add_assoc. exact Hst2.
    + destruct IHb as (n2 & t1 & e' & vs2 & Hn2 & Hst2 & Hs & Hr).
      exists (n1 + n2)%nat, t1, e', vs2. split; [lia|]. split; [|auto].
      rewrite (nsteps_app _ _ _ _ _ _ _ _ _ Hst1). exact Hst2.
  - destruct IHa as (n & t1 & e' & vs' & Hn & Hst & Hs & Hr).
    exists n, t1, e', vs'. rewrite app_length. split; [lia|]. auto.
Qed.

Definition fin_spec {A} (k : A -> rstate -> RefSem.res rval) (i : instr)
    (W : A -> list val -> list val -> Prop) (P : A -> Prop) (Wr : rval -> val -> Prop) (t : ty) : Prop :=
  forall a stk stk1 rs pc' mt ms tm vs, P a -> W a stk stk1 ->
    match k a rs with
    | ROk v rs' => rs' = rs /\ vty v = t /\ exists w, Wr v w /\
        exec E o ll i (mkthread pc' stk1 mt ms tm) vs = Ok (XNext (mkthread pc' (w :: stk) mt ms tm) vs)
    | RAbort (AErr _) rs' => rs' = rs /\ exists e', exec E o ll i (mkthread pc' stk1 mt ms tm) vs = Er e'
    | RAbort AStop _ => False
    end.

Lemma sim_fin {A} (r : rstate -> RefSem.res A) code W P k i Wr t :
  sim_gen r code W P -> fin_spec k i W P Wr t ->
  sim_gen (fun rs => rbind (r rs) k) (fun pc => code pc ++ [i]) (push1 Wr) (fun v => vty v = t).
Proof.
  intros IH Hk pc stk mt ms tm rs vs Hat Hrel.
  apply at_pc_app in Hat as [Hat1 Hat2].
  specialize (IH pc stk mt ms tm rs vs Hat1 Hrel).
  destruct (r rs) as [va rs1|[|x] rs1]; cbn [RefSem.bind]; [| contradiction | ].
  - destruct IH as (Hva & stk1 & ms' & vs' & n & Hwa & Hn & Hst & Hrel' & Hext).
    specialize (Hk va stk stk1 rs1 (S (pc + length (code pc))) mt ms' tm vs' Hva Hwa).
    rewrite app_length. cbn [length].
    destruct (k va rs1) as [v rs2|[|x] rs2]; [| contradiction | ].
    + destruct Hk as (-> & Hv & w & Hw & Hx). split; [exact Hv|].
      exists (w :: stk), ms', vs', (n + 1)%nat. split; [exists w; auto|]. split; [lia|]. split; [|auto].
      replace (pc + (length (code pc) + 1))%nat with (S (pc + length (code pc))) by lia.
      eapply nsteps_snoc; [exact Hst|]. eapply step_at; [exact Hat2 | exact Hx].
    + destruct Hk as (-> & e' & Hx).
      exists n, (mkthread (pc + length (code pc)) stk1 mt ms' tm), e', vs'.
      split; [lia|]. split; [exact Hst|]. split; [eapply step_at_err; eauto|].
      destruct Hrel'; auto.
  - destruct IH as (n & t1 & e' & vs' & Hn & Hst & Hs & Hr).
    exists n, t1, e', vs'. rewrite app_length. split; [lia|]. auto.
Qed.

Lemma sim_code_ext {A} (r : rstate -> RefSem.res A) c1 c2 W P :
  (forall pc, c1 pc = c2 pc) -> sim_gen r c2 W P -> sim_gen r c1 W P.
Proof. intros He H pc stk mt ms tm rs vs Hat Hrel. rewrite He in *. apply H; auto. Qed.

(* a constant pushed by one instruction, as a pseudo operand *)
Lemma sim_push a :
  sim_gen (fun rs => ROk tt rs) (fun _ => [ins Push a]) (fun _ stk stk' => stk' = operand_val a :: stk) (fun _ => True).
Proof.
  intros pc stk mt ms tm rs vs Hat Hrel. split; [exact I|].
  exists (operand_val a :: stk), ms, vs, 1%nat. split; [reflexivity|]. split; [cbn; lia|].
  split; [|split; [exact Hrel | apply ext_refl]].
  cbn [C01Sim.nsteps length]. rewrite (step_push _ _ _ _ _ _ _ (at_pc_head _ _ _ _ Hat)).
  rewrite Nat.add_1_r. reflexivity.
Qed.

End Gen.
