(* Proofs about Export/Formats.v: record parsers and their round trips. *)
From V Require Import Export.Formats.
Local Open Scope N_scope.

(* ---- splitting at the first occurrence of a byte ---- *)
Fixpoint split_at (c : byte) (s : bytes) : option (bytes * bytes) :=
  match s with
  | [] => None
  | x :: r => if N.eqb x c then Some ([], r)
              else match split_at c r with Some (a, b) => Some (x :: a, b) | None => None end
  end.

Lemma split_at_app c a b : ~ In c a -> split_at c (a ++ c :: b) = Some (a, b).
Proof.
  induction a as [|x a IH]; intros H; cbn [app split_at].
  - rewrite N.eqb_refl. reflexivity.
  - destruct (N.eqb_spec x c) as [E|E]; [exfalso; apply H; left; exact E|].
    rewrite IH; [reflexivity|]. intros Hin. apply H. right. exact Hin.
Qed.

Fixpoint strip_prefix (p s : bytes) : option bytes :=
  match p, s with
  | [], _ => Some s
  | x :: p', y :: s' => if N.eqb x y then strip_prefix p' s' else None
  | _ :: _, [] => None
  end.
Lemma strip_prefix_app p s : strip_prefix p (p ++ s) = Some s.
Proof. induction p as [|x p IH]; [reflexivity|]. cbn. rewrite N.eqb_refl. exact IH. Qed.

(* ---- %d prints digits (and a leading minus) only ---- *)
Definition is_digit (b : byte) : Prop := 48 <= b <= 57.
Lemma digits_are_digits fuel n acc : Forall is_digit acc -> Forall is_digit (digits fuel n acc).
Proof.
  revert n acc; induction fuel as [|f IH]; intros n acc H; cbn [digits]; [exact H|].
  assert (D : is_digit (48 + n mod 10)).
  { unfold is_digit. assert (n mod 10 < 10) by (apply N.mod_upper_bound; discriminate).
    remember (n mod 10) as k. clear Heqk. lia. }
  destruct (n / 10 =? 0); [constructor; assumption|]. apply IH. constructor; assumption.
Qed.
Lemma fmt_N_digits n : Forall is_digit (fmt_N n).
Proof. apply digits_are_digits. constructor. Qed.
Lemma fmt_Z_chars z : Forall (fun b => is_digit b \/ b = 45) (fmt_Z z).
Proof.
  destruct z; cbn [fmt_Z].
  - constructor; [left; unfold is_digit; lia|constructor].
  - eapply Forall_impl; [|apply fmt_N_digits]. intros; left; assumption.
  - constructor; [right; reflexivity|]. eapply Forall_impl; [|apply fmt_N_digits]. intros; left; assumption.
Qed.
Lemma fmt_Z_not_in z c : ~ (48 <= c <= 57) -> c <> 45 -> ~ In c (fmt_Z z).
Proof.
  intros Hd Hm Hin. pose proof (fmt_Z_chars z) as F. rewrite Forall_forall in F.
  destruct (F c Hin) as [D|E]; [apply Hd; exact D|apply Hm; exact E].
Qed.
Lemma fmt_N_not_in n c : ~ (48 <= c <= 57) -> ~ In c (fmt_N n).
Proof.
  intros Hd Hin. pose proof (fmt_N_digits n) as F. rewrite Forall_forall in F. apply Hd. apply (F c Hin).
Qed.
Lemma time_string_not_in t c : ~ (48 <= c <= 57) -> c <> 45 -> ~ In c (time_string t).
Proof. apply fmt_Z_not_in. Qed.

(* ---- graphite: path SP value SP time NL ---- *)
Definition parse_graphite (line : bytes) : option (bytes * bytes * bytes) :=
  match split_at c_sp line with
  | Some (p, r) =>
      match split_at c_sp r with
      | Some (v, r2) => match split_at c_nl r2 with Some (t, []) => Some (p, v, t) | _ => None end
      | None => None
      end
  | None => None
  end.

Lemma parse_graphite_line path value t :
  ~ In c_sp path -> ~ In c_sp value ->
  parse_graphite (graphite_line path value t) = Some (path, value, time_string t).
Proof.
  intros Hp Hv. unfold parse_graphite, graphite_line.
  change (path ++ [c_sp] ++ value ++ [c_sp] ++ time_string t ++ [c_nl])
    with (path ++ c_sp :: (value ++ c_sp :: (time_string t ++ c_nl :: []))).
  rewrite (split_at_app _ _ _ Hp), (split_at_app _ _ _ Hv).
  rewrite split_at_app; [reflexivity|]. apply time_string_not_in; unfold c_nl; lia.
Qed.

(* the record of a label set ends with its value line: own value, own time *)
Theorem graphite_roundtrip c m l :
  ~ In c_sp (graphite_path c m l) -> ~ In c_sp (value_string (l_val l)) ->
  exists pre, to_graphite c m l = pre ++ [graphite_line (graphite_path c m l) (value_string (l_val l)) (l_time l)] /\
  parse_graphite (graphite_line (graphite_path c m l) (value_string (l_val l)) (l_time l)) =
    Some (graphite_path c m l, value_string (l_val l), time_string (l_time l)).
Proof.
  intros Hp Hv. unfold to_graphite, graphite_lines_with. eexists. split; [reflexivity|].
  apply parse_graphite_line; assumption.
Qed.

(* histogram lines come from the label set's own buckets and count *)
Theorem graphite_hist_own_buckets c m l bs count sum :
  m_kind m = KHistogram -> m_type m = TBuckets -> l_val l = VBuckets bs count sum ->
  to_graphite c m l =
    map (fun b => graphite_line
                    (graphite_path c m l ++ str_bin ++
                       (if is_pinf_bits (f_bits (bk_max b)) then str_inf else f_g (bk_max b)))
                    (fmt_N (bk_count b)) (l_time l)) bs
    ++ [graphite_line (graphite_path c m l ++ str_count) (fmt_N count) (l_time l)]
    ++ [graphite_line (graphite_path c m l) (f_g sum) (l_time l)].
Proof.
  intros K T V. unfold to_graphite, graphite_lines_with. rewrite K, T, V. cbn [value_string].
  rewrite <- app_assoc. reflexivity.
Qed.

Lemma parse_graphite_bin_line c m l suffix n :
  ~ In c_sp (graphite_path c m l) -> ~ In c_sp suffix ->
  parse_graphite (graphite_line (graphite_path c m l ++ suffix) (fmt_N n) (l_time l)) =
    Some (graphite_path c m l ++ suffix, fmt_N n, time_string (l_time l)).
Proof.
  intros Hp Hs. apply parse_graphite_line.
  - intros H. apply in_app_or in H as [H|H]; [apply Hp; exact H|apply Hs; exact H].
  - apply fmt_N_not_in. unfold c_sp. lia.
Qed.

(* ---- statsd: path ':' value '|' type ---- *)
Definition parse_statsd (r : bytes) : option (bytes * bytes * bytes) :=
  match split_at 58 r with
  | Some (p, rest) => match split_at 124 rest with Some (v, t) => Some (p, v, t) | None => None end
  | None => None
  end.
Definition statsd_path (c : cfg) (m : metric) (l : lset) : bytes :=
  c_statsd_prefix c ++ m_prog m ++ [c_dot] ++ format_labels (m_name m) (labels_of m l) c_dot c_dot c_us.

Theorem statsd_roundtrip c m l :
  ~ In 58 (statsd_path c m l) -> ~ In 124 (value_string (l_val l)) ->
  parse_statsd (to_statsd c m l) = Some (statsd_path c m l, value_string (l_val l), statsd_type (m_kind m)).
Proof.
  intros Hp Hv. unfold parse_statsd, to_statsd.
  replace (c_statsd_prefix c ++ m_prog m ++ [c_dot] ++
           format_labels (m_name m) (labels_of m l) c_dot c_dot c_us ++
           [58] ++ value_string (l_val l) ++ [124] ++ statsd_type (m_kind m))
    with (statsd_path c m l ++ 58 :: (value_string (l_val l) ++ 124 :: statsd_type (m_kind m))).
  - rewrite (split_at_app _ _ _ Hp), (split_at_app _ _ _ Hv). reflexivity.
  - unfold statsd_path. rewrite <- !app_assoc. reflexivity.
Qed.

(* ---- collectd: PUTVAL "id" interval=N time:value NL ---- *)
Definition parse_collectd (r : bytes) : option (bytes * bytes * bytes * bytes) :=
  match strip_prefix str_putval r with
  | Some r1 =>
      match split_at 34 r1 with
      | Some (id, r2) =>
          match strip_prefix (tl str_interval) r2 with
          | Some r3 =>
              match split_at c_sp r3 with
              | Some (iv, r4) =>
                  match split_at 58 r4 with
                  | Some (t, r5) => match split_at c_nl r5 with Some (v, []) => Some (id, iv, t, v) | _ => None end
                  | None => None
                  end
              | None => None
              end
          | None => None
          end
      | None => None
      end
  | None => None
  end.

Theorem collectd_roundtrip c m l :
  ~ In 34 (collectd_id c m l) -> ~ In c_nl (value_string (l_val l)) ->
  parse_collectd (to_collectd c m l) =
    Some (collectd_id c m l, fmt_Z (c_interval_s c), time_string (l_time l), value_string (l_val l)).
Proof.
  intros Hid Hv. unfold parse_collectd, to_collectd.
  rewrite strip_prefix_app.
  replace (collectd_id c m l ++ str_interval ++ fmt_Z (c_interval_s c) ++ [c_sp] ++
           time_string (l_time l) ++ [58] ++ value_string (l_val l) ++ [c_nl])
    with (collectd_id c m l ++ 34 :: (tl str_interval ++
            (fmt_Z (c_interval_s c) ++ c_sp :: (time_string (l_time l) ++ 58 :: (value_string (l_val l) ++ c_nl :: [])))))
    by reflexivity.
  rewrite (split_at_app _ _ _ Hid), strip_prefix_app.
  rewrite split_at_app by (apply fmt_Z_not_in; unfold c_sp; lia).
  rewrite split_at_app by (apply time_string_not_in; lia).
  rewrite (split_at_app _ _ _ Hv). reflexivity.
Qed.

(* ---- varz: name '{' labels '}' SP value NL ---- *)
Definition parse_varz (r : bytes) : option (bytes * bytes * bytes) :=
  match split_at 123 r with
  | Some (n, r1) =>
      match split_at 125 r1 with
      | Some (ls, c_sp' :: r2) =>
          if N.eqb c_sp' c_sp then
            match split_at c_nl r2 with Some (v, []) => Some (n, ls, v) | _ => None end
          else None
      | _ => None
      end
  | None => None
  end.
Definition varz_labels (c : cfg) (m : metric) (l : lset) : bytes :=
  join [44] (sort_by bytes_leb (map (fun p => fst p ++ [c_eq] ++ snd p) (labels_of m l))
             ++ (if c_omit_prog c then [] else [str_prog_eq ++ m_prog m]) ++ [str_instance_eq ++ c_host c]).

Theorem varz_roundtrip c m l :
  ~ In 123 (m_name m) -> ~ In 125 (varz_labels c m l) -> ~ In c_nl (value_string (l_val l)) ->
  parse_varz (to_varz c m l) = Some (m_name m, varz_labels c m l, value_string (l_val l)).
Proof.
  intros Hn Hl Hv. unfold parse_varz, to_varz. fold (varz_labels c m l).
  change (m_name m ++ [123] ++ varz_labels c m l ++ [125; c_sp] ++ value_string (l_val l) ++ [c_nl])
    with (m_name m ++ 123 :: (varz_labels c m l ++ 125 :: (c_sp :: (value_string (l_val l) ++ c_nl :: [])))).
  rewrite (split_at_app _ _ _ Hn), (split_at_app _ _ _ Hl). rewrite N.eqb_refl.
  rewrite (split_at_app _ _ _ Hv). reflexivity.
Qed.

(* ---- one record per label set ---- *)
Lemma in_per_lset {A} (f : metric -> lset -> list A) ms x :
  In x (per_lset f ms) <-> exists m l, In m ms /\ In l (m_lsets m) /\ In x (f m l).
Proof.
  unfold per_lset. rewrite in_flat_map. split.
  - intros (m & Hm & H). apply in_flat_map in H as (l & Hl & H). exists m, l. auto.
  - intros (m & l & Hm & Hl & H). exists m. split; [exact Hm|]. apply in_flat_map. exists l. auto.
Qed.

Fixpoint total_lsets (ms : list metric) : nat :=
  match ms with [] => 0%nat | m :: r => (length (m_lsets m) + total_lsets r)%nat end.

Lemma length_per_lset_single {A} (f : metric -> lset -> A) ms :
  length (per_lset (fun m l => [f m l]) ms) = total_lsets ms.
Proof.
  unfold per_lset. induction ms as [|m ms IH]; [reflexivity|]. cbn [flat_map total_lsets].
  rewrite app_length, IH. f_equal. induction (m_lsets m) as [|l r IHr]; [reflexivity|]. cbn. rewrite IHr. reflexivity.
Qed.

Lemma in_pushed m s : In m (pushed s) <-> In m s /\ is_text m = false.
Proof.
  unfold pushed. rewrite filter_In. split; intros (A & B); (split; [exact A|]).
  - destruct (is_text m); [discriminate|reflexivity].
  - rewrite B. reflexivity.
Qed.

Theorem one_record_each c s :
  (forall r, In r (export_varz c s) <-> exists m l, In m s /\ In l (m_lsets m) /\ r = to_varz c m l) /\
  length (export_varz c s) = total_lsets s /\
  (forall r, In r (export_statsd c s) <->
             exists m l, In m s /\ is_text m = false /\ In l (m_lsets m) /\ r = to_statsd c m l) /\
  length (export_statsd c s) = total_lsets (pushed s) /\
  (forall r, In r (export_collectd c s) <->
             exists m l, In m s /\ is_text m = false /\ In l (m_lsets m) /\ r = to_collectd c m l) /\
  length (export_collectd c s) = total_lsets (pushed s) /\
  (forall r, In r (export_graphite_push c s) <->
             exists m l, In m s /\ is_text m = false /\ In l (m_lsets m) /\ In r (to_graphite c m l)) /\
  (forall r, In r (export_graphite_http c s) <->
             exists m l, In m s /\ In l (m_lsets m) /\ In r (to_graphite c m l)).
Proof.
  assert (S1 : forall (r a : bytes), In r [a] <-> r = a) by (intros; cbn; intuition congruence).
  repeat split.
  - intros H. apply in_per_lset in H as (m & l & Hm & Hl & H). apply S1 in H. eauto.
  - intros (m & l & Hm & Hl & ->). apply in_per_lset. exists m, l. repeat split; auto. left; reflexivity.
  - apply length_per_lset_single.
  - intros H. apply in_per_lset in H as (m & l & Hm & Hl & H). apply S1 in H. apply in_pushed in Hm as (Hm & T). eauto 10.
  - intros (m & l & Hm & T & Hl & ->). apply in_per_lset. exists m, l.
    split; [apply in_pushed; auto|]. split; [exact Hl|left; reflexivity].
  - apply length_per_lset_single.
  - intros H. apply in_per_lset in H as (m & l & Hm & Hl & H). apply S1 in H. apply in_pushed in Hm as (Hm & T). eauto 10.
  - intros (m & l & Hm & T & Hl & ->). apply in_per_lset. exists m, l.
    split; [apply in_pushed; auto|]. split; [exact Hl|left; reflexivity].
  - apply length_per_lset_single.
  - intros H. apply in_per_lset in H as (m & l & Hm & Hl & H). apply in_pushed in Hm as (Hm & T). eauto 10.
  - intros (m & l & Hm & T & Hl & H). apply in_per_lset. exists m, l.
    split; [apply in_pushed; auto|]. auto.
  - intros H. apply in_per_lset in H as (m & l & Hm & Hl & H). eauto.
  - intros (m & l & Hm & Hl & H). apply in_per_lset. eauto.
Qed.

(* ---- which bytes can occur in a flattened path ---- *)
Lemma in_replace_byte c a b s : In c (replace_byte a b s) -> c = b \/ In c s.
Proof.
  induction s as [|x s IH]; cbn; [intros []|]. intros [H|H].
  - destruct (N.eqb x a); [left; congruence|right; left; exact H].
  - destruct (IH H) as [E|I]; [left; exact E|right; right; exact I].
Qed.

Lemma in_insert_by {A} (le : A -> A -> bool) x y l : In y (insert_by le x l) -> y = x \/ In y l.
Proof.
  induction l as [|z l IH]; cbn; [intros [H|[]]; left; congruence|].
  destruct (le x z); cbn; intros [H|H].
  - left; congruence.
  - right; exact H.
  - right; left; exact H.
  - destruct (IH H) as [E|I]; [left; exact E|right; right; exact I].
Qed.
Lemma in_sort_by {A} (le : A -> A -> bool) y l : In y (sort_by le l) -> In y l.
Proof.
  induction l as [|x l IH]; cbn; [intros []|]. intros H. apply in_insert_by in H as [E|H]; [left; congruence|right; apply IH; exact H].
Qed.

Lemma in_join c sep l : In c (join sep l) -> In c sep \/ exists x, In x l /\ In c x.
Proof.
  induction l as [|x l IH]; [intros []|]. destruct l as [|y l'].
  - cbn. intros H. right. exists x. split; [left; reflexivity|exact H].
  - change (join sep (x :: y :: l')) with (x ++ sep ++ join sep (y :: l')). intros H.
    apply in_app_or in H as [H|H]; [right; exists x; split; [left; reflexivity|exact H]|].
    apply in_app_or in H as [H|H]; [left; exact H|].
    destruct (IH H) as [S|(z & Hz & Hc)]; [left; exact S|right; exists z; split; [right; exact Hz|exact Hc]].
Qed.

Lemma in_assoc_set k v acc p : In p (assoc_set k v acc) -> p = (k, v) \/ In p acc.
Proof.
  induction acc as [|[k' v'] acc IH]; cbn; [intros [H|[]]; left; congruence|].
  destruct (bytes_eqb k k'); cbn; intros [H|H].
  - left; congruence.
  - right; right; exact H.
  - right; left; exact H.
  - destruct (IH H) as [E|I]; [left; exact E|right; right; exact I].
Qed.
Lemma in_zip_labels acc ks vs p :
  In p (zip_labels acc ks vs) -> In p acc \/ (In (fst p) ks /\ In (snd p) vs).
Proof.
  revert acc vs; induction ks as [|k ks IH]; intros acc vs H; [left; exact H|].
  destruct vs as [|v vs]; [left; exact H|]. cbn [zip_labels] in H.
  destruct (IH _ _ H) as [Ha|(Hk & Hv)].
  - apply in_assoc_set in Ha as [->|Ha]; [right; split; left; reflexivity|left; exact Ha].
  - right. split; right; assumption.
Qed.

Definition clean_of (ch : byte) (m : metric) (l : lset) : Prop :=
  ~ In ch (m_name m) /\ ~ In ch (m_prog m) /\
  (forall k, In k (m_keys m) -> ~ In ch k) /\ (forall v, In v (l_vals l) -> ~ In ch v).

Lemma format_labels_free ch m l ksep sep rep :
  ch <> ksep -> ch <> sep -> ch <> rep -> clean_of ch m l ->
  ~ In ch (format_labels (m_name m) (labels_of m l) ksep sep rep).
Proof.
  intros Hk Hs Hr (Hn & _ & Hkeys & Hvals) H. unfold format_labels in H.
  destruct (labels_of m l) as [|p0 ps] eqn:E; [apply Hn; exact H|]. rewrite <- E in H.
  apply in_app_or in H as [H|H]; [apply Hn; exact H|].
  apply in_app_or in H as [[H|[]]|H]; [congruence|].
  apply in_join in H as [[H|[]]|(x & Hx & Hc)]; [congruence|].
  apply in_map_iff in Hx as (kv & <- & Hkv). apply in_sort_by in Hkv.
  unfold labels_of in Hkv. apply in_zip_labels in Hkv as [[]|(Kk & Kv)].
  assert (C : forall s, In ch (replace_byte sep rep (replace_byte ksep rep s)) -> In ch s).
  { intros s Hin. apply in_replace_byte in Hin as [?|Hin]; [congruence|].
    apply in_replace_byte in Hin as [?|Hin]; [congruence|exact Hin]. }
  apply in_app_or in Hc as [Hc|Hc]; [apply (Hkeys _ Kk), C; exact Hc|].
  apply in_app_or in Hc as [[Hc|[]]|Hc]; [congruence|]. apply (Hvals _ Kv), C; exact Hc.
Qed.

Theorem graphite_path_free ch c m l :
  ch <> c_dot -> ch <> c_us -> ~ In ch (c_graphite_prefix c) -> clean_of ch m l ->
  ~ In ch (graphite_path c m l).
Proof.
  intros Hd Hu Hp Cl H. unfold graphite_path in H.
  apply in_app_or in H as [H|H]; [apply Hp; exact H|].
  apply in_app_or in H as [H|H]; [destruct Cl as (_ & P & _); apply P; exact H|].
  apply in_app_or in H as [[H|[]]|H]; [congruence|].
  exact (format_labels_free ch m l c_dot c_dot c_us Hd Hd Hu Cl H).
Qed.

Theorem statsd_path_free ch c m l :
  ch <> c_dot -> ch <> c_us -> ~ In ch (c_statsd_prefix c) -> clean_of ch m l ->
  ~ In ch (statsd_path c m l).
Proof.
  intros Hd Hu Hp Cl H. unfold statsd_path in H.
  apply in_app_or in H as [H|H]; [apply Hp; exact H|].
  apply in_app_or in H as [H|H]; [destruct Cl as (_ & P & _); apply P; exact H|].
  apply in_app_or in H as [[H|[]]|H]; [congruence|].
  exact (format_labels_free ch m l c_dot c_dot c_us Hd Hd Hu Cl H).
Qed.

Theorem collectd_id_free c m l :
  ~ In 34 (c_host c) -> ~ In 34 (c_collectd_prefix c) -> clean_of 34 m l -> ~ In 34 (collectd_id c m l).
Proof.
  intros Hh Hp Cl H. unfold collectd_id in H.
  apply in_app_or in H as [H|H]; [apply Hh; exact H|].
  apply in_app_or in H as [[H|[]]|H]; [discriminate|].
  apply in_app_or in H as [H|H]; [apply Hp; exact H|].
  apply in_app_or in H as [H|H]; [cbn in H; intuition discriminate|].
  apply in_app_or in H as [H|H]; [destruct Cl as (_ & P & _); apply P; exact H|].
  apply in_app_or in H as [[H|[]]|H]; [discriminate|].
  apply in_app_or in H as [H|H]; [destruct (m_kind m); cbn in H; intuition discriminate|].
  apply in_app_or in H as [[H|[]]|H]; [discriminate|].
  refine (format_labels_free 34 m l c_dash c_dash c_us _ _ _ Cl H); discriminate.
Qed.
