(* Proofs for C20 over Run/Reload.v: invariants of the fan-out / reload event
   system, for all schedules. *)
From Coq Require Import Permutation Sorted.
From V Require Import Base.Bytes Run.Reload.
Local Open Scope N_scope.

Definition lines_of (l : list entry) : list N := map e_line l.

Lemma updp_same f k v : updp f k v k = v.
Proof. unfold updp. rewrite N.eqb_refl. reflexivity. Qed.
Lemma updp_other f k v x : x <> k -> updp f k v x = f x.
Proof. unfold updp. intros H. apply N.eqb_neq in H. rewrite H. reflexivity. Qed.

Lemma mk_infl_some l w pend l' w' pend' :
  mk_infl l w pend = Some (l', w', pend') -> l' = l /\ w' = w /\ pend' = pend /\ pend <> [].
Proof. destruct pend; cbn; intros H; inversion H; subst. repeat split. discriminate. Qed.

Lemma mk_infl_cons l w pend : pend <> [] -> mk_infl l w pend = Some (l, w, pend).
Proof. destruct pend; [congruence|reflexivity]. Qed.

Lemma mem_In p l : mem p l = true <-> In p l.
Proof.
  unfold mem. rewrite existsb_exists. split.
  - intros [x [Hx E]]. apply N.eqb_eq in E. subst. exact Hx.
  - intros H. exists p. split; [exact H|apply N.eqb_refl].
Qed.

Lemma rm_In p x l : In x (rm p l) <-> In x l /\ x <> p.
Proof.
  unfold rm. rewrite filter_In. split; intros [A B]; split; auto.
  - intros ->. rewrite N.eqb_refl in B. discriminate.
  - apply N.eqb_neq in B. rewrite B. reflexivity.
Qed.

Lemma has_ver_false v b : has_ver v b = false -> forall e, In e b -> e_ver e <> v.
Proof.
  unfold has_ver. intros H e Hin E. assert (existsb (fun e => N.eqb (e_ver e) v) b = true).
  { apply existsb_exists. exists e. split; [exact Hin|apply N.eqb_eq; exact E]. }
  congruence.
Qed.

Lemma take_ver_perm v b e r : take_ver v b = Some (e, r) -> Permutation b (e :: r) /\ e_ver e = v.
Proof.
  revert e r. induction b as [|x b IH]; cbn; intros e r H; [discriminate|].
  destruct (N.eqb (e_ver x) v) eqn:E.
  - inversion H; subst. split; [apply Permutation_refl|apply N.eqb_eq; exact E].
  - destruct (take_ver v b) as [[y r']|]; [|discriminate]. inversion H; subst.
    destruct (IH _ _ eq_refl) as [P V]. split; [|exact V].
    eapply Permutation_trans; [apply perm_skip; exact P|apply perm_swap].
Qed.

Lemma sorted_snoc l x :
  StronglySorted N.lt l -> (forall y, In y l -> y < x) -> StronglySorted N.lt (l ++ [x]).
Proof.
  induction l as [|a l IH]; cbn; intros S H.
  - constructor; constructor.
  - inversion S as [|? ? S' F]; subst. constructor.
    + apply IH; auto.
    + apply Forall_app. split; [exact F|]. constructor; [apply H; left; reflexivity|constructor].
Qed.

Lemma sorted_nodup l : StronglySorted N.lt l -> NoDup l.
Proof.
  induction 1 as [|a l S IH F]; constructor; [|exact IH].
  intros Hin. rewrite Forall_forall in F. specialize (F _ Hin). lia.
Qed.

Section P.
Variable progs : list N.
Hypothesis progs_nodup : NoDup progs.

Notation step := (step progs).
Notation run := (run progs).

(* ---- the ghost log: only a hand-over extends [assigned], by the line being
   fanned out and the version installed at that moment ---- *)

Lemma assigned_step r s e s' p :
  step r s e = Some s' ->
  assigned (ps s' p) =
    match e, infl s with
    | FanOut p0, Some (l, w, _) =>
        if N.eqb p p0 then assigned (ps s p) ++ [mkE l (cur (ps s p)) w] else assigned (ps s p)
    | _, _ => assigned (ps s p)
    end.
Proof.
  destruct e as [w|p0|p0 v|p0|p0]; cbn.
  - destruct (infl s); intros H; inversion H; reflexivity.
  - destruct (infl s) as [[[l w] pend]|]; [|discriminate].
    destruct (mem p0 pend && negb (has_ver (cur (ps s p0)) (busy (ps s p0)))); [|discriminate].
    intros H; inversion H; subst; cbn. unfold updp. destruct (N.eqb p p0) eqn:E; [|reflexivity].
    apply N.eqb_eq in E. subst. reflexivity.
  - destruct (take_ver v (busy (ps s p0))) as [[en rest]|]; [|discriminate].
    intros H; inversion H; subst; cbn. unfold updp. destruct (N.eqb p p0) eqn:E; [|reflexivity].
    apply N.eqb_eq in E. subst. reflexivity.
  - destruct (locked s || (r && has_ver (cur (ps s p0)) (busy (ps s p0)))); [discriminate|].
    intros H; inversion H; subst; cbn. unfold updp. destruct (N.eqb p p0) eqn:E; [|reflexivity].
    apply N.eqb_eq in E. subst. reflexivity.
  - destruct (locked s || (r && has_ver (cur (ps s p0)) (busy (ps s p0)))); [discriminate|].
    intros H; inversion H; subst. reflexivity.
Qed.

(* ---- exactly one version, for the code before and after the repair ---- *)

Record OneP (s : state) (p : N) : Prop := {
  x_perm : Permutation (log (ps s p) ++ busy (ps s p)) (assigned (ps s p));
  x_lt : forall e, In e (assigned (ps s p)) -> e_line e < nxt s;
  x_notpend : forall e l w pend, In e (assigned (ps s p)) ->
      infl s = Some (l, w, pend) -> In p pend -> e_line e <> l;
  x_sorted : StronglySorted N.lt (lines_of (assigned (ps s p)))
}.

Record One (s : state) : Prop := {
  one_p : forall p, OneP s p;
  one_cover : forall p k, In p progs -> k < nxt s ->
      In k (lines_of (assigned (ps s p))) \/ exists w pend, infl s = Some (k, w, pend) /\ In p pend;
  one_infl : forall l w pend, infl s = Some (l, w, pend) ->
      l + 1 = nxt s /\ NoDup pend /\ forall x, In x pend -> In x progs
}.

Lemma init_one : One init.
Proof.
  constructor; cbn.
  - intros p. constructor; cbn; [apply Permutation_refl| intros ? []|intros ? ? ? ? []|constructor].
  - intros p k _ H. lia.
  - intros ? ? ? H. discriminate.
Qed.

Lemma step_one r s e s' : One s -> step r s e = Some s' -> One s'.
Proof.
  intros [P C I] H. destruct e as [w|p0|p0 v|p0|p0]; cbn in H.
  - (* Take *)
    destruct (infl s) eqn:EI; [discriminate|]. inversion H; subst; clear H. constructor; cbn.
    + intros p. destruct (P p) as [A B D E]. constructor; cbn; auto.
      * intros e Hin. specialize (B e Hin). lia.
      * intros e l w' pend Hin Hm _. apply mk_infl_some in Hm as [-> _]. specialize (B e Hin). lia.
    + intros p k Hp Hk. destruct (N.eq_dec k (nxt s)) as [->|Hne].
      * right. exists w, progs. split; [apply mk_infl_cons; intros E; rewrite E in Hp; destruct Hp|exact Hp].
      * destruct (C p k Hp) as [L|[w' [pend [E _]]]]; [lia|left; exact L|congruence].
    + intros l w' pend Hm. apply mk_infl_some in Hm as [-> [_ [-> _]]]. repeat split; auto.
  - (* FanOut *)
    destruct (infl s) as [[[l w] pend]|] eqn:EI; [|discriminate].
    destruct (mem p0 pend && negb (has_ver (cur (ps s p0)) (busy (ps s p0)))) eqn:G; [|discriminate].
    apply andb_true_iff in G as [G1 _]. apply mem_In in G1.
    destruct (I _ _ _ eq_refl) as [Il [Ind Isub]].
    inversion H; subst; clear H. constructor; cbn.
    + intros p. destruct (P p) as [A B D E]. destruct (N.eq_dec p p0) as [->|Hne].
      * constructor; cbn; rewrite ?updp_same; cbn.
        -- rewrite app_assoc. apply Permutation_app_tail. exact A.
        -- intros e Hin. apply in_app_or in Hin as [Hin|[<-|[]]]; [apply B; exact Hin|cbn; lia].
        -- intros e l' w' pend' _ Hm Hin'. apply mk_infl_some in Hm as [_ [_ [-> _]]].
           apply rm_In in Hin' as [_ X]. congruence.
        -- unfold lines_of. rewrite map_app. cbn. apply sorted_snoc; [exact E|].
           intros y Hy. apply in_map_iff in Hy as [e [<- Hin]].
           specialize (B e Hin). specialize (D e l w pend Hin EI G1). lia.
      * constructor; cbn; rewrite ?updp_other by exact Hne; auto.
        intros e l' w' pend' Hin Hm Hin'. apply mk_infl_some in Hm as [-> [_ [-> _]]].
        apply rm_In in Hin' as [X _]. eapply D; eauto.
    + intros p k Hp Hk. destruct (C p k Hp Hk) as [L|[w' [pend' [E Hin]]]].
      * left. destruct (N.eq_dec p p0) as [->|Hne]; [rewrite updp_same|rewrite updp_other by exact Hne; exact L].
        cbn. unfold lines_of. rewrite map_app. apply in_or_app. left. exact L.
      * injection E as E1 E2 E3. subst k w' pend'. destruct (N.eq_dec p p0) as [->|Hne].
        -- left. rewrite updp_same. cbn. unfold lines_of. rewrite map_app. apply in_or_app. right. left. reflexivity.
        -- right. exists w, (rm p0 pend). split; [|apply rm_In; auto].
           apply mk_infl_cons. intros Z. assert (In p (rm p0 pend)) by (apply rm_In; auto). rewrite Z in H. destruct H.
    + intros l' w' pend' Hm. apply mk_infl_some in Hm as [-> [_ [-> _]]]. repeat split; auto.
      * unfold rm. apply NoDup_filter. exact Ind.
      * intros x Hx. apply rm_In in Hx as [Hx _]. auto.
  - (* Process *)
    destruct (take_ver v (busy (ps s p0))) as [[en rest]|] eqn:T; [|discriminate].
    apply take_ver_perm in T as [T _]. inversion H; subst; clear H. constructor; cbn.
    + intros p. destruct (P p) as [A B D E]. destruct (N.eq_dec p p0) as [->|Hne].
      * constructor; cbn; rewrite ?updp_same; cbn; auto.
        eapply Permutation_trans; [|exact A]. rewrite <- app_assoc. apply Permutation_app_head. cbn.
        apply Permutation_sym. exact T.
      * constructor; cbn; rewrite ?updp_other by exact Hne; auto.
    + intros p k Hp Hk. destruct (C p k Hp Hk) as [L|R]; [left|right; exact R].
      destruct (N.eq_dec p p0) as [->|Hne]; [rewrite updp_same; exact L|rewrite updp_other by exact Hne; exact L].
    + exact I.
  - (* Reload *)
    destruct (locked s || (r && has_ver (cur (ps s p0)) (busy (ps s p0)))); [discriminate|].
    inversion H; subst; clear H. constructor; cbn.
    + intros p. destruct (P p) as [A B D E]. destruct (N.eq_dec p p0) as [->|Hne].
      * constructor; cbn; rewrite ?updp_same; cbn; auto.
      * constructor; cbn; rewrite ?updp_other by exact Hne; auto.
    + intros p k Hp Hk. destruct (C p k Hp Hk) as [L|R]; [left|right; exact R].
      destruct (N.eq_dec p p0) as [->|Hne]; [rewrite updp_same; exact L|rewrite updp_other by exact Hne; exact L].
    + exact I.
  - (* ReloadRefused *)
    destruct (locked s || (r && has_ver (cur (ps s p0)) (busy (ps s p0)))); [discriminate|].
    inversion H; subst. constructor; auto.
Qed.

Lemma run_one r es s s' : One s -> run r s es = Some s' -> One s'.
Proof.
  revert s. induction es as [|e es IH]; cbn; intros s O H; [inversion H; subst; exact O|].
  destruct (step r s e) as [s1|] eqn:E; [|discriminate]. eapply IH; [eapply step_one; eauto|exact H].
Qed.

Theorem exactly_one_version r es s p :
  run r init es = Some s ->
  Permutation (log (ps s p) ++ busy (ps s p)) (assigned (ps s p)) /\
  NoDup (lines_of (assigned (ps s p))) /\
  StronglySorted N.lt (lines_of (assigned (ps s p))) /\
  (In p progs -> forall k, k < nxt s ->
     In k (lines_of (assigned (ps s p))) \/ exists w pend, infl s = Some (k, w, pend) /\ In p pend) /\
  (forall k, In k (lines_of (assigned (ps s p))) -> k < nxt s).
Proof.
  intros H. pose proof (run_one r es init s init_one H) as [P C I]. destruct (P p) as [A B D E].
  repeat split; auto.
  - apply sorted_nodup. exact E.
  - intros k Hk. apply in_map_iff in Hk as [e [<- Hin]]. apply B. exact Hin.
Qed.

(* when nothing is in flight, every line taken so far has been processed by
   program p exactly once, by the version recorded at its hand-over *)
Theorem exactly_one_version_quiescent r es s p :
  run r init es = Some s -> quiescent s -> In p progs ->
  Permutation (log (ps s p)) (assigned (ps s p)) /\
  NoDup (lines_of (log (ps s p))) /\
  forall k, k < nxt s <-> In k (lines_of (log (ps s p))).
Proof.
  intros H [Q1 Q2] Hp. destruct (exactly_one_version r es s p H) as [A [B [_ [C D]]]].
  rewrite Q2, app_nil_r in A. split; [exact A|].
  assert (PL : Permutation (lines_of (log (ps s p))) (lines_of (assigned (ps s p)))) by (apply Permutation_map; exact A).
  split.
  - eapply Permutation_NoDup; [apply Permutation_sym; exact PL|exact B].
  - intros k. split.
    + intros Hk. destruct (C Hp k Hk) as [L|[w [pend [E _]]]]; [|congruence].
      eapply Permutation_in; [apply Permutation_sym; exact PL|exact L].
    + intros Hk. apply D. eapply Permutation_in; [exact PL|exact Hk].
Qed.

(* ---- order, for the repaired code ---- *)

Record OrdP (q : pstate) : Prop := {
  o_eq : log q ++ busy q = assigned q;
  o_cur : forall e, In e (busy q) -> e_ver e = cur q;
  o_len : (length (busy q) <= 1)%nat
}.

Lemma ord_busy_nil q : OrdP q -> has_ver (cur q) (busy q) = false -> busy q = [].
Proof.
  intros [_ B _] H. destruct (busy q) as [|e b] eqn:E; [reflexivity|].
  exfalso. eapply has_ver_false; [exact H|left; reflexivity|]. apply B. left. reflexivity.
Qed.

Lemma step_ord s e s' : (forall p, OrdP (ps s p)) -> step true s e = Some s' -> forall p, OrdP (ps s' p).
Proof.
  intros O H p. destruct e as [w|p0|p0 v|p0|p0]; cbn in H.
  - destruct (infl s); inversion H; subst. apply O.
  - destruct (infl s) as [[[l w] pend]|]; [|discriminate].
    destruct (mem p0 pend && negb (has_ver (cur (ps s p0)) (busy (ps s p0)))) eqn:G; [|discriminate].
    apply andb_true_iff in G as [_ G]. apply negb_true_iff in G.
    inversion H; subst; clear H. cbn. destruct (N.eq_dec p p0) as [->|Hne]; [|rewrite updp_other by exact Hne; apply O].
    rewrite updp_same. pose proof (ord_busy_nil _ (O p0) G) as Bn. destruct (O p0) as [A B C].
    rewrite Bn in *. rewrite app_nil_r in A. constructor; cbn.
    + rewrite A. reflexivity.
    + intros e [<-|[]]. reflexivity.
    + lia.
  - destruct (take_ver v (busy (ps s p0))) as [[en rest]|] eqn:T; [|discriminate].
    inversion H; subst; clear H. cbn. destruct (N.eq_dec p p0) as [->|Hne]; [|rewrite updp_other by exact Hne; apply O].
    rewrite updp_same. destruct (O p0) as [A B C].
    destruct (busy (ps s p0)) as [|e [|e2 b]] eqn:E; cbn in T, C; [discriminate| |lia].
    destruct (N.eqb (e_ver e) v); [|discriminate]. inversion T; subst.
    constructor; cbn; [rewrite app_nil_r; exact A|intros ? []|lia].
  - destruct (locked s); cbn in H; [discriminate|].
    destruct (has_ver (cur (ps s p0)) (busy (ps s p0))) eqn:G; [discriminate|].
    inversion H; subst; clear H. cbn. destruct (N.eq_dec p p0) as [->|Hne]; [|rewrite updp_other by exact Hne; apply O].
    rewrite updp_same. pose proof (ord_busy_nil _ (O p0) G) as Bn. destruct (O p0) as [A B C].
    constructor; cbn; auto. rewrite Bn. intros ? [].
  - destruct (locked s || has_ver (cur (ps s p0)) (busy (ps s p0))); cbn in H; [discriminate|].
    inversion H; subst. apply O.
Qed.

Lemma run_ord es s s' : (forall p, OrdP (ps s p)) -> run true s es = Some s' -> forall p, OrdP (ps s' p).
Proof.
  revert s. induction es as [|e es IH]; cbn; intros s O H; [inversion H; subst; exact O|].
  destruct (step true s e) as [s1|] eqn:E; [|discriminate]. eapply IH; [eapply step_ord; eauto|exact H].
Qed.

Lemma init_ord p : OrdP (ps init p).
Proof. constructor; cbn; [reflexivity|intros ? []|lia]. Qed.

(* the effects applied so far, followed by the line in progress, are exactly
   the hand-overs in arrival order; at most one VM of a program is busy, and it
   is the installed version *)
Theorem order es s p :
  run true init es = Some s ->
  log (ps s p) ++ busy (ps s p) = assigned (ps s p) /\
  StronglySorted N.lt (lines_of (log (ps s p) ++ busy (ps s p))) /\
  (length (busy (ps s p)) <= 1)%nat /\
  (forall e, In e (busy (ps s p)) -> e_ver e = cur (ps s p)).
Proof.
  intros H. destruct (run_ord es init s init_ord H p) as [A B C].
  destruct (exactly_one_version true es s p H) as [_ [_ [S _]]]. rewrite A. auto.
Qed.

Theorem gauge_last es s p :
  run true init es = Some s -> quiescent s ->
  log (ps s p) = assigned (ps s p) /\
  last_writer (log (ps s p)) = last_writer (assigned (ps s p)).
Proof.
  intros H [_ Q]. destruct (order es s p H) as [A _]. rewrite Q, app_nil_r in A. rewrite A. auto.
Qed.

End P.
