(* Invariants of the VM model used by the verifier's soundness proof (C04):
   typing of values against the heap, well-formed stores, and the lemmas that
   the stack helpers and the store operations of Lang/Vm.v preserve them. *)
From V Require Import Lang.Verify.
From Coq Require Import Lia.
Local Open Scope nat_scope.

Section Inv.
Variable E : env.
Variable o : object.

(* heap cell p exists and holds a datum of type t *)
Definition heap_ty (h : list dcell) (p : nat) (t : mtype) : Prop :=
  exists c, nth_error h p = Some c /\ dval_type (d_val c) = t.

Definition has_cls (h : list dcell) (v : val) (c : cls) : Prop :=
  match v, c with
  | VNil, CNil | VBool _, CBool | VI64 _, CI64 | VF64 _, CF64 | VStr _, CStr | VDur _, CDur => True
  | VInt z, CInt k => match k with Some z' => z = z' | None => True end
  | VMetric i, CMetric j => i = j /\ i < length (o_metrics o)
  | VDatum p, CDatum t => heap_ty h p t
  | _, _ => False
  end.

(* the top of the concrete stack is described by A; what lies below is arbitrary *)
Fixpoint stack_ok (h : list dcell) (A : astack) (stk : list val) : Prop :=
  match A with
  | [] => True
  | c :: A' =>
      match stk with
      | v :: stk' => has_cls h v c /\ stack_ok h A' stk'
      | [] => False
      end
  end.

Definition heap_le (h h' : list dcell) : Prop :=
  forall p t, heap_ty h p t -> heap_ty h' p t.

Definition store_ok (st : store) : Prop :=
  length (s_mets st) = length (o_metrics o) /\
  forall m md lvs lv,
    nth_error (o_metrics o) m = Some md ->
    nth_error (s_mets st) m = Some lvs ->
    In lv lvs ->
    heap_ty (s_heap st) (lv_datum lv) (md_type md).

Definition nofault {A} (r : res A) (P : A -> Prop) : Prop :=
  match r with Ok a => P a | Er _ => True | Fl _ => False end.

Lemma nofault_bind {A B} (a : res A) (f : A -> res B) (Q : A -> Prop) (P : B -> Prop) :
  nofault a Q -> (forall x, Q x -> nofault (f x) P) -> nofault (bind a f) P.
Proof. destruct a; cbn; auto. Qed.

Lemma nofault_weaken {A} (r : res A) (P Q : A -> Prop) :
  nofault r P -> (forall x, P x -> Q x) -> nofault r Q.
Proof. destruct r; cbn; auto. Qed.

Lemma heap_le_refl h : heap_le h h.
Proof. intros p t H; exact H. Qed.

Lemma heap_le_trans h1 h2 h3 : heap_le h1 h2 -> heap_le h2 h3 -> heap_le h1 h3.
Proof. intros H1 H2 p t H. auto. Qed.

Lemma has_cls_mono h h' v c : heap_le h h' -> has_cls h v c -> has_cls h' v c.
Proof. intros L. destruct v, c; cbn; auto. Qed.

Lemma stack_ok_mono h h' A : heap_le h h' -> forall stk, stack_ok h A stk -> stack_ok h' A stk.
Proof.
  intros L. induction A as [|c A IH]; intros stk; cbn; auto.
  destruct stk as [|v stk]; auto. intros [H1 H2]. split; eauto using has_cls_mono.
Qed.

(* ---- lists ---- *)
Lemma nth_error_list_set_eq {A} (l : list A) n x :
  n < length l -> nth_error (list_set l n x) n = Some x.
Proof.
  revert n; induction l as [|y l IH]; intros [|n] H; cbn in *; try lia; auto. apply IH. lia.
Qed.

Lemma nth_error_list_set_neq {A} (l : list A) n m x :
  n <> m -> nth_error (list_set l n x) m = nth_error l m.
Proof.
  revert n m; induction l as [|y l IH]; intros [|n] [|m] H; cbn; auto; try congruence.
Qed.

Lemma length_list_set {A} (l : list A) n x : length (list_set l n x) = length l.
Proof. revert n; induction l as [|y l IH]; intros [|n]; cbn; auto. Qed.

(* ---- abstract pops ---- *)
Lemma apop_inv ok A r : apop ok A = VOk r -> exists c, A = c :: r /\ ok c = true.
Proof.
  destruct A as [|c A]; cbn; try discriminate.
  destruct (ok c) eqn:H; try discriminate. intros [= <-]. eauto.
Qed.

Lemma stack_ok_cons h c r stk :
  stack_ok h (c :: r) stk -> exists v stk', stk = v :: stk' /\ has_cls h v c /\ stack_ok h r stk'.
Proof. cbn. destruct stk as [|v stk']; [tauto|]. intros [H1 H2]. eauto. Qed.

Lemma pop_gen h ok A r stk :
  apop ok A = VOk r -> stack_ok h A stk ->
  exists v stk' c, stk = v :: stk' /\ ok c = true /\ has_cls h v c /\ stack_ok h r stk'.
Proof.
  intros H S. apply apop_inv in H as (c & -> & Hok).
  apply stack_ok_cons in S as (v & stk' & -> & Hc & Hr). eauto 8.
Qed.

Lemma datum_int_ok h p : heap_ty h p TyInt -> nofault (datum_int h p) (fun _ => True).
Proof.
  intros (c & Hn & Ht). unfold datum_int. rewrite Hn.
  destruct (d_val c); cbn in *; auto; discriminate.
Qed.
Lemma datum_float_ok h p : heap_ty h p TyFloat -> nofault (datum_float h p) (fun _ => True).
Proof.
  intros (c & Hn & Ht). unfold datum_float. rewrite Hn.
  destruct (d_val c); cbn in *; auto; discriminate.
Qed.
Lemma datum_str_ok h p : heap_ty h p TyString -> nofault (datum_str h p) (fun _ => True).
Proof.
  intros (c & Hn & Ht). unfold datum_str. rewrite Hn.
  destruct (d_val c); cbn in *; auto; discriminate.
Qed.

Lemma as_int_ok h v c : has_cls h v c -> int_ok c = true -> nofault (as_int E h v) (fun _ => True).
Proof.
  destruct v, c; cbn; try tauto; try discriminate; intros H Hok.
  - destruct (parse_int E s 10 64); cbn; auto.
  - destruct t; try discriminate. apply datum_int_ok; auto.
Qed.
Lemma as_float_ok h v c : has_cls h v c -> float_ok c = true -> nofault (as_float E h v) (fun _ => True).
Proof.
  destruct v, c; cbn; try tauto; try discriminate; intros H Hok.
  - destruct (parse_float E s); cbn; auto.
  - destruct t; try discriminate. apply datum_float_ok; auto.
Qed.
Lemma as_str_ok h v c : has_cls h v c -> str_ok c = true -> nofault (as_str E h v) (fun _ => True).
Proof.
  destruct v, c; cbn; try tauto; try discriminate; intros H Hok.
  destruct t; try discriminate. apply datum_str_ok; auto.
Qed.

Lemma pop_int_ok h A r stk :
  apop int_ok A = VOk r -> stack_ok h A stk ->
  nofault (pop_int E h stk) (fun x => stack_ok h r (snd x)).
Proof.
  intros H S. destruct (pop_gen _ _ _ _ _ H S) as (v & stk' & c & -> & Hok & Hc & Hr).
  unfold pop_int; cbn. pose proof (as_int_ok _ _ _ Hc Hok) as Hi.
  destruct (as_int E h v); cbn in *; auto.
Qed.
Lemma pop_float_ok h A r stk :
  apop float_ok A = VOk r -> stack_ok h A stk ->
  nofault (pop_float E h stk) (fun x => stack_ok h r (snd x)).
Proof.
  intros H S. destruct (pop_gen _ _ _ _ _ H S) as (v & stk' & c & -> & Hok & Hc & Hr).
  unfold pop_float; cbn. pose proof (as_float_ok _ _ _ Hc Hok) as Hi.
  destruct (as_float E h v); cbn in *; auto.
Qed.
Lemma pop_str_ok h A r stk :
  apop str_ok A = VOk r -> stack_ok h A stk ->
  nofault (pop_str E h stk) (fun x => stack_ok h r (snd x)).
Proof.
  intros H S. destruct (pop_gen _ _ _ _ _ H S) as (v & stk' & c & -> & Hok & Hc & Hr).
  unfold pop_str; cbn. pose proof (as_str_ok _ _ _ Hc Hok) as Hi.
  destruct (as_str E h v); cbn in *; auto.
Qed.

Lemma vbind_inv {A B} (a : vres A) (f : A -> vres B) y :
  vbind a f = VOk y -> exists x, a = VOk x /\ f x = VOk y.
Proof. destruct a; cbn; [eauto|discriminate]. Qed.

Lemma pop_strs_ok h n : forall A r stk acc,
  apop_n str_ok n A = VOk r -> stack_ok h A stk ->
  nofault (pop_strs E h n stk acc) (fun x => stack_ok h r (snd x) /\ length (fst x) = n + length acc).
Proof.
  induction n as [|n IH]; intros A r stk acc H S; cbn in *.
  - injection H as <-. auto.
  - apply vbind_inv in H as (r1 & H1 & H2).
    eapply nofault_bind. { eapply pop_str_ok; eauto. }
    intros [x stk1] Hx; cbn in *.
    eapply nofault_weaken. { eapply IH; eauto. }
    cbn. intros y [Hy1 Hy2]. split; auto. cbn in Hy2. lia.
Qed.

(* ---- store operations ---- *)
Lemma heap_ty_app h c p t : heap_ty h p t -> heap_ty (h ++ [c]) p t.
Proof.
  intros (c0 & Hn & Ht). exists c0. split; auto.
  rewrite nth_error_app1; auto. apply nth_error_Some. congruence.
Qed.

Lemma heap_ty_new h c : heap_ty (h ++ [c]) (length h) (dval_type (d_val c)).
Proof.
  exists c. split; auto. rewrite nth_error_app2 by lia. rewrite Nat.sub_diag. reflexivity.
Qed.

Lemma heap_ty_set h p c' t p' t' :
  heap_ty h p t -> dval_type (d_val c') = t ->
  heap_ty h p' t' -> heap_ty (list_set h p c') p' t'.
Proof.
  intros (c & Hn & Ht) Hc' (c1 & Hn1 & Ht1).
  destruct (Nat.eq_dec p p') as [<-|Hne].
  - exists c'. split. { apply nth_error_list_set_eq. apply nth_error_Some. congruence. }
    congruence.
  - exists c1. split; auto. rewrite nth_error_list_set_neq; auto.
Qed.

Lemma zero_cell_type ty : dval_type (d_val (zero_cell ty)) = ty.
Proof. destruct ty; reflexivity. Qed.

Lemma lv_find_in ls l lv : lv_find ls l = Some lv -> In lv l.
Proof.
  induction l as [|x l IH]; cbn; try discriminate.
  destruct (tuple_eqb ls (lv_labels x)); [intros [= ->]; auto|auto].
Qed.

Lemma lv_del_in ls l lv : In lv (lv_del ls l) -> In lv l.
Proof.
  induction l as [|x l IH]; cbn; auto.
  destruct (tuple_eqb ls (lv_labels x)); cbn; [auto|]. intros [H|H]; auto.
Qed.

Lemma lv_set_expiry_in ls e l lv :
  In lv (lv_set_expiry ls e l) -> exists lv', In lv' l /\ lv_datum lv' = lv_datum lv.
Proof.
  induction l as [|x l IH]; cbn; [tauto|].
  destruct (tuple_eqb ls (lv_labels x)); cbn.
  - intros [<-|H]; [exists x; cbn; auto|eauto].
  - intros [<-|H]; [eauto|]. destruct (IH H) as (lv' & H1 & H2). eauto.
Qed.

(* replacing the label values of metric m by a list whose data are typed *)
Lemma store_ok_set_mets st m md lvs' h' :
  store_ok st -> heap_le (s_heap st) h' ->
  nth_error (o_metrics o) m = Some md ->
  (forall lv, In lv lvs' -> heap_ty h' (lv_datum lv) (md_type md)) ->
  store_ok (mkstore h' (list_set (s_mets st) m lvs')).
Proof.
  intros [Hlen Hok] Hle Hmd Hnew. split; cbn.
  - rewrite length_list_set. auto.
  - intros m0 md0 lvs0 lv H1 H2 H3.
    destruct (Nat.eq_dec m m0) as [<-|Hne].
    + rewrite nth_error_list_set_eq in H2.
      * injection H2 as <-. rewrite Hmd in H1. injection H1 as <-. auto.
      * rewrite Hlen. apply nth_error_Some. congruence.
    + rewrite nth_error_list_set_neq in H2 by auto. apply Hle. eauto.
Qed.

Lemma get_datum_ok st m md ls :
  store_ok st -> nth_error (o_metrics o) m = Some md -> length ls = md_arity md ->
  nofault (get_datum o st m ls)
    (fun x => store_ok (snd x) /\ heap_le (s_heap st) (s_heap (snd x)) /\
              heap_ty (s_heap (snd x)) (fst x) (md_type md)).
Proof.
  intros Hst Hmd Hlen. unfold get_datum. rewrite Hmd.
  destruct (nth_error (s_mets st) m) as [lvs|] eqn:Hm.
  2:{ exfalso. apply nth_error_None in Hm. destruct Hst as [Hl _].
      assert (m < length (o_metrics o)) by (apply nth_error_Some; congruence). lia. }
  rewrite Hlen, Nat.eqb_refl. cbn [negb].
  destruct (lv_find ls lvs) as [lv|] eqn:Hf; cbn.
  - split; auto. split; [apply heap_le_refl|].
    destruct Hst as [_ Hok]. eapply Hok; eauto using lv_find_in.
  - assert (Hle : heap_le (s_heap st) (s_heap st ++ [zero_cell (md_type md)])).
    { intros p t. apply heap_ty_app. }
    split; [|split; auto].
    + eapply store_ok_set_mets; eauto.
      intros lv Hin. apply in_app_or in Hin as [Hin|[<-|[]]].
      * apply Hle. destruct Hst as [_ Hok]. eauto.
      * cbn. rewrite <- (zero_cell_type (md_type md)) at 2. apply heap_ty_new.
    + rewrite <- (zero_cell_type (md_type md)) at 2. apply heap_ty_new.
Qed.

Lemma remove_datum_ok st m md ls :
  store_ok st -> nth_error (o_metrics o) m = Some md -> length ls = md_arity md ->
  nofault (remove_datum o st m ls) (fun st' => store_ok st' /\ s_heap st' = s_heap st).
Proof.
  intros Hst Hmd Hlen. unfold remove_datum. rewrite Hmd.
  destruct (nth_error (s_mets st) m) as [lvs|] eqn:Hm.
  2:{ exfalso. apply nth_error_None in Hm. destruct Hst as [Hl _].
      assert (m < length (o_metrics o)) by (apply nth_error_Some; congruence). lia. }
  rewrite Hlen, Nat.eqb_refl. cbn. split; auto.
  eapply store_ok_set_mets; eauto using heap_le_refl.
  intros lv Hin. apply lv_del_in in Hin. destruct Hst as [_ Hok]. eauto.
Qed.

Lemma expire_datum_ok st m md ls e :
  store_ok st -> nth_error (o_metrics o) m = Some md -> length ls = md_arity md ->
  nofault (expire_datum o st m ls e) (fun st' => store_ok st' /\ s_heap st' = s_heap st).
Proof.
  intros Hst Hmd Hlen. unfold expire_datum. rewrite Hmd.
  destruct (nth_error (s_mets st) m) as [lvs|] eqn:Hm.
  2:{ exfalso. apply nth_error_None in Hm. destruct Hst as [Hl _].
      assert (m < length (o_metrics o)) by (apply nth_error_Some; congruence). lia. }
  rewrite Hlen, Nat.eqb_refl. cbn [negb].
  destruct (lv_find ls lvs); cbn; auto. split; auto.
  eapply store_ok_set_mets; eauto using heap_le_refl.
  intros lv Hin. apply lv_set_expiry_in in Hin as (lv' & Hin & <-). destruct Hst as [_ Hok]. eauto.
Qed.

(* updating a cell by a type-preserving function *)
Lemma heap_upd_ok st p t (f : dcell -> res dcell) :
  store_ok st -> heap_ty (s_heap st) p t ->
  (forall c, dval_type (d_val c) = t -> nofault (f c) (fun c' => dval_type (d_val c') = t)) ->
  nofault (heap_upd st p f)
    (fun st' => store_ok st' /\ heap_le (s_heap st) (s_heap st') /\ heap_ty (s_heap st') p t).
Proof.
  intros Hst Hp Hf. unfold heap_upd. destruct Hp as (c & Hn & Ht). rewrite Hn.
  specialize (Hf c Ht). destruct (f c) as [c'| |]; cbn in *; auto.
  assert (Hle : heap_le (s_heap st) (list_set (s_heap st) p c')).
  { intros p' t' H'. eapply heap_ty_set; eauto. exists c; auto. }
  split; [|split; auto].
  - destruct Hst as [Hl Hok]. split; cbn; auto. intros. apply Hle. eauto.
  - apply Hle. exists c; auto.
Qed.

Lemma cell_inc_ok d ts c :
  dval_type (d_val c) = TyInt -> nofault (cell_inc d ts c) (fun c' => dval_type (d_val c') = TyInt).
Proof. unfold cell_inc. destruct (d_val c); cbn; auto; discriminate. Qed.

Lemma cell_set_int_ok v ts c t :
  iset_ok (CDatum t) = true -> dval_type (d_val c) = t ->
  nofault (cell_set_int E v ts c) (fun c' => dval_type (d_val c') = t).
Proof. unfold cell_set_int. destruct t, (d_val c); cbn; auto; discriminate. Qed.

Lemma cell_set_float_ok v ts c t :
  fset_ok (CDatum t) = true -> dval_type (d_val c) = t ->
  nofault (cell_set_float E v ts c) (fun c' => dval_type (d_val c') = t).
Proof. unfold cell_set_float. destruct t, (d_val c); cbn; auto; discriminate. Qed.

Lemma cell_set_str_ok v ts c :
  dval_type (d_val c) = TyString -> nofault (cell_set_str v ts c) (fun c' => dval_type (d_val c') = TyString).
Proof. unfold cell_set_str. destruct (d_val c); cbn; auto; discriminate. Qed.

End Inv.
