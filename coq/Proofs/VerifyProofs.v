(* Soundness of the bytecode verifier (C04): a verified object never reaches a
   fault, whatever the oracles, the line and the (well-formed) store. *)
From V Require Import Lang.Verify Proofs.VmInv.
From Coq Require Import Lia ZifyBool.
Local Open Scope nat_scope.

Section Sound.
Variable E : env.
Variable o : object.

Notation has_cls := (has_cls o).
Notation stack_ok := (stack_ok o).
Notation store_ok := (store_ok o).

(* what one instruction guarantees when it does not end the line with a fault *)
Definition post (succs : list (nat * astack)) (x : xres) : Prop :=
  match x with
  | XStop => True
  | XErr _ s' => store_ok (vs_store s')
  | XNext t' s' =>
      store_ok (vs_store s') /\
      exists A', In (t_pc t', A') succs /\ stack_ok (s_heap (vs_store s')) A' (t_stack t')
  end.

(* ---- small inversion lemmas on the verifier's helpers ---- *)
Lemma vguard_inv b u : vguard b = VOk u -> b = true.
Proof. destruct b; cbn; [auto|discriminate]. Qed.

Lemma arg_int_inv a z : arg_int a = VOk z -> a = OInt z.
Proof. destruct a; cbn; try discriminate. intros [= ->]; auto. Qed.

Lemma arg_index_inv a n k :
  arg_index a n = VOk k ->
  exists z, a = OInt z /\ index_in z n = Ok k /\ k < n.
Proof.
  unfold arg_index. intros H.
  apply vbind_inv in H as (z & Hz & H). apply arg_int_inv in Hz as ->.
  apply vbind_inv in H as (u & Hg & H). apply vguard_inv in Hg. injection H as <-.
  exists z. split; auto. unfold index_in. rewrite Hg. split; auto.
  apply andb_true_iff in Hg as [H1 H2]. lia.
Qed.

Lemma arg_target_inv pc a tgt :
  arg_target o pc a = VOk tgt ->
  exists z, a = OInt z /\ (z <? 0)%Z = false /\ Z.to_nat z = tgt.
Proof.
  unfold arg_target. intros H.
  apply vbind_inv in H as (z & Hz & H). apply arg_int_inv in Hz as ->.
  apply vbind_inv in H as (u & Hg & H). apply vguard_inv in Hg. injection H as <-.
  exists z. repeat split; auto. apply andb_true_iff in Hg as [H1 H2]. lia.
Qed.

Lemma arg_cmp_inv a u :
  arg_cmp a = VOk u -> exists z, a = OInt z /\ (z = -1 \/ z = 0 \/ z = 1)%Z.
Proof.
  unfold arg_cmp. intros H.
  apply vbind_inv in H as (z & Hz & H). apply arg_int_inv in Hz as ->.
  apply vguard_inv in H. exists z. split; auto. lia.
Qed.

Lemma cmp_int_ok a b z : (z = -1 \/ z = 0 \/ z = 1)%Z -> nofault (cmp_int a b z) (fun _ => True).
Proof. intros [->|[->| ->]]; cbn; auto. Qed.
Lemma cmp_float_ok a b z : (z = -1 \/ z = 0 \/ z = 1)%Z -> nofault (cmp_float E a b z) (fun _ => True).
Proof. intros [->|[->| ->]]; cbn; auto. Qed.
Lemma cmp_str_ok a b z : (z = -1 \/ z = 0 \/ z = 1)%Z -> nofault (cmp_str a b z) (fun _ => True).
Proof. intros [->|[->| ->]]; cbn; auto. Qed.

Lemma cls_eqb_eq a b : cls_eqb a b = true -> a = b.
Proof.
  destruct a, b; cbn; try discriminate; auto.
  - destruct k, k0; cbn; try discriminate; auto. intros H. apply Z.eqb_eq in H. congruence.
  - intros H. apply Nat.eqb_eq in H. congruence.
  - destruct t, t0; cbn; try discriminate; auto.
Qed.

Lemma compare_num_ok h x cx b cb z :
  has_cls h x cx -> cmp_ok cx = true -> has_cls h b cb -> cmp_ok cb = true ->
  (z = -1 \/ z = 0 \/ z = 1)%Z ->
  (match x with VStr _ => False | _ => True end) ->
  nofault (compare_num E x b z) (fun _ => True).
Proof.
  intros Hx Hcx Hb Hcb Hz Hns.
  pose proof (fun a b => cmp_int_ok a b z Hz) as Hi.
  pose proof (fun a b => cmp_float_ok a b z Hz) as Hf.
  destruct x, cx; cbn in Hx, Hcx, Hns; try contradiction; try discriminate;
  destruct b, cb; cbn in Hb, Hcb; try contradiction; try discriminate; cbn;
  try apply Hi; try apply Hf;
  try (destruct (parse_float E s); cbn; auto).
Qed.

Lemma compare_ok h x cx b cb z :
  has_cls h x cx -> cmp_ok cx = true -> has_cls h b cb -> cmp_ok cb = true ->
  (z = -1 \/ z = 0 \/ z = 1)%Z ->
  nofault (compare E x b z) (fun _ => True).
Proof.
  intros Hx Hcx Hb Hcb Hz.
  destruct x; try (eapply compare_num_ok; eauto; exact I).
  cbn. destruct (parse_float E s).
  - eapply (compare_num_ok h (VF64 f) CF64); eauto; cbn; auto.
  - destruct (parse_int E s 10 32).
    + eapply (compare_num_ok h (VI64 z0) CI64); eauto; cbn; auto.
    + destruct b, cb; cbn in Hb, Hcb; try contradiction; try discriminate; cbn; auto.
      apply cmp_str_ok; auto.
Qed.

(* Pop a metric and its keys *)
Lemma pop_metric_keys_ok h a A md r stk :
  apop_metric_keys o a A = VOk (md, r) -> stack_ok h A stk ->
  nofault (pop_metric_keys E h a stk)
    (fun x => nth_error (o_metrics o) (fst (fst x)) = Some md /\
              length (snd (fst x)) = md_arity md /\ stack_ok h r (snd x)).
Proof.
  unfold apop_metric_keys, pop_metric_keys. intros H S.
  destruct A as [|c A]; try discriminate. destruct c; try discriminate.
  destruct (nth_error (o_metrics o) i) as [md'|] eqn:Hmd; try discriminate.
  apply vbind_inv in H as (k & Hk & H). apply arg_int_inv in Hk as ->.
  apply vbind_inv in H as (u & Hg & H). apply vguard_inv in Hg. apply Z.eqb_eq in Hg.
  apply vbind_inv in H as (r' & Hr & H). injection H as <- <-.
  apply stack_ok_cons in S as (v & stk' & -> & Hc & Hs). cbn.
  destruct v; cbn in Hc; try contradiction. destruct Hc as [-> _]. cbn.
  replace (k <? 0)%Z with false by lia.
  replace (Z.to_nat k) with (md_arity md') by lia.
  eapply nofault_bind. { eapply pop_strs_ok; eauto. }
  intros [keys s2] [H1 H2]; cbn in *. repeat split; auto. lia.
Qed.

(* a popped value of a datum class *)
Lemma pop_datum_ok h ok A r stk :
  apop ok A = VOk r -> stack_ok h A stk ->
  (forall c, ok c = true -> exists t, c = CDatum t) ->
  nofault (pop_datum stk)
    (fun x => exists t, ok (CDatum t) = true /\ heap_ty h (fst x) t /\ stack_ok h r (snd x)).
Proof.
  intros H S Hd. destruct (pop_gen _ _ _ _ _ _ H S) as (v & stk' & c & -> & Hok & Hc & Hr).
  destruct (Hd _ Hok) as (t & ->). unfold pop_datum; cbn.
  destruct v; cbn in Hc; try contradiction. cbn. eauto.
Qed.

Lemma is_datum_cls t c : is_cls (CDatum t) c = true -> exists t', c = CDatum t'.
Proof. intros H. apply cls_eqb_eq in H as <-. eauto. Qed.
Lemma iset_ok_datum c : iset_ok c = true -> exists t', c = CDatum t'.
Proof. destruct c; cbn; try discriminate; eauto. Qed.
Lemma fset_ok_datum c : fset_ok c = true -> exists t', c = CDatum t'.
Proof. destruct c; cbn; try discriminate; eauto. Qed.

Lemma is_cls_datum_eq t t' : is_cls (CDatum t) (CDatum t') = true -> t' = t.
Proof. intros H. apply cls_eqb_eq in H. congruence. Qed.

Lemma int_binop_ok op a b :
  match op with
  | Iadd | Isub | Imul | Idiv | Imod | Ipow | Shl | Shr | And | Or | Xor => True
  | _ => False
  end -> nofault (int_binop E op a b) (fun _ => True).
Proof.
  destruct op; cbn; try tauto; intros _;
  repeat match goal with |- context [if ?c then _ else _] => destruct c end; cbn; auto.
Qed.

Lemma float_binop_ok op a b :
  match op with Fadd | Fsub | Fmul | Fdiv | Fmod | Fpow => True | _ => False end ->
  nofault (float_binop E op a b) (fun _ => True).
Proof. destruct op; cbn; tauto. Qed.

(* ---- tactics ---- *)
Ltac vinv H :=
  repeat match type of H with
  | vbind _ _ = VOk _ =>
      let x := fresh "r" in let H1 := fresh "Hv" in
      apply vbind_inv in H as (x & H1 & H)
  end.

Ltac pop_step :=
  eapply nofault_bind;
  [ first [ eapply pop_int_ok; [|eassumption]; eassumption
          | eapply pop_float_ok; [|eassumption]; eassumption
          | eapply pop_str_ok; [|eassumption]; eassumption ]
  | let x := fresh "x" in let s1 := fresh "s" in let Hs := fresh "Hs" in
    intros [x s1] Hs; cbn [fst snd] in Hs ].

Ltac fin Hpc :=
  cbn; split; [assumption|];
  eexists; split; [left; rewrite Hpc; reflexivity|]; cbn; auto.

Ltac jfall Hpc :=
  cbn; split; [assumption|]; eexists; split; [left; rewrite Hpc; reflexivity|]; assumption.
Ltac jjump Hz Ht :=
  unfold jump; cbn [operand_int bind]; rewrite Hz; cbn;
  split; [assumption|]; eexists; split; [right; left; rewrite Ht; reflexivity|]; assumption.

Ltac ibin Htr Hpc :=
  vinv Htr; injection Htr as <-; pop_step; pop_step;
  (eapply nofault_bind; [apply int_binop_ok; exact I|]); intros ? _; fin Hpc.

Ltac set_datum Htr Hst Hstk Hpc Hcls celltac :=
  vinv Htr; injection Htr as <-; pop_step;
  eapply nofault_bind;
  [ eapply pop_datum_ok; [eassumption|eassumption|apply Hcls]
  | let p := fresh "p" in let s2 := fresh "s" in let ty := fresh "ty" in let Hok := fresh "Hok" in
    intros [p s2] (ty & Hok & Hp & Hs2); cbn [fst snd] in *;
    eapply nofault_bind;
    [ eapply heap_upd_ok; [eassumption|eassumption|intros; celltac Hok]
    | let st' := fresh "st" in
      intros st' (Hst' & Hle & Hp');
      cbn; split; [assumption|];
      eexists; split; [left; rewrite Hpc; reflexivity|];
      cbn; eapply stack_ok_mono; eassumption ] ].

Ltac get_datum Htr Hstk Hpc Hget :=
  vinv Htr; injection Htr as <-;
  eapply nofault_bind;
  [ eapply pop_datum_ok; [eassumption|eassumption|apply is_datum_cls]
  | let p := fresh "p" in let s2 := fresh "s" in let ty := fresh "ty" in let Hok := fresh "Hok" in
    intros [p s2] (ty & Hok & Hp & Hs2); cbn [fst snd] in *;
    apply is_cls_datum_eq in Hok as ->;
    eapply nofault_bind; [apply Hget; eassumption|];
    intros ? _; fin Hpc ].

Lemma exec_sound line pc i A succs t s :
  transfer o pc i A = VOk succs ->
  store_ok (vs_store s) ->
  stack_ok (s_heap (vs_store s)) A (t_stack t) ->
  t_pc t = S pc ->
  nofault (exec E o line i t s) (post succs).
Proof.
  unfold transfer, exec. intros Htr Hst Hstk Hpc. revert Htr.
  destruct (i_op i) eqn:Hop; cbv beta iota zeta; intros Htr; try discriminate.
  all: try (injection Htr as <-; cbn; exact I).   (* Stop *)
  (* unary / binary shapes through PopInt / PopFloat / PopString *)
  all: try (vinv Htr; injection Htr as <-; pop_step; fin Hpc; fail).
  all: try (vinv Htr; injection Htr as <-; pop_step; pop_step; fin Hpc; fail).
  all: try (vinv Htr; injection Htr as <-; pop_step; pop_step; pop_step; fin Hpc; fail).
  - (* Match *)
    vinv Htr. injection Htr as <-. apply arg_index_inv in Hv as (z & Ha & Hi & Hlt).
    rewrite Ha. cbn [operand_int bind]. rewrite Hi. fin Hpc.
  - (* Smatch *)
    vinv Htr. injection Htr as <-. apply arg_index_inv in Hv as (z & Ha & Hi & Hlt).
    rewrite Ha. cbn [operand_int bind]. pop_step. rewrite Hi. fin Hpc.
  - (* Cmp *)
    vinv Htr. injection Htr as <-. apply arg_cmp_inv in Hv as (z & Ha & Hz).
    destruct (pop_gen _ _ _ _ _ _ Hv0 Hstk) as (b & s1 & cb & Hs & Hokb & Hcb & Hs1).
    destruct (pop_gen _ _ _ _ _ _ Hv1 Hs1) as (x & s2 & cx & -> & Hokx & Hcx & Hs2).
    rewrite Hs, Ha. cbn [pop bind operand_int].
    eapply nofault_bind. { eapply compare_ok; eauto. } intros rr _. fin Hpc.
  - (* Jnm *)
    vinv Htr. injection Htr as <-. apply arg_target_inv in Hv0 as (z & Ha & Hz & Ht).
    destruct (pop_gen _ _ _ _ _ _ Hv Hstk) as (v & s1 & c & Hs & Hok & Hc & Hs1).
    rewrite Hs, Ha. cbn [pop bind].
    destruct v, c; cbn in Hc, Hok; try contradiction; try discriminate.
    + destruct b; [jfall Hpc | jjump Hz Ht].
    + destruct (z0 =? 0)%Z; [jjump Hz Ht | jfall Hpc].
  - (* Jm *)
    vinv Htr. injection Htr as <-. apply arg_target_inv in Hv0 as (z & Ha & Hz & Ht).
    destruct (pop_gen _ _ _ _ _ _ Hv Hstk) as (v & s1 & c & Hs & Hok & Hc & Hs1).
    rewrite Hs, Ha. cbn [pop bind].
    destruct v, c; cbn in Hc, Hok; try contradiction; try discriminate.
    + destruct b; [jjump Hz Ht | jfall Hpc].
    + destruct (z0 =? 0)%Z; [jfall Hpc | jjump Hz Ht].
  - (* Jmp *)
    vinv Htr. injection Htr as <-. apply arg_target_inv in Hv as (z & Ha & Hz & Ht).
    rewrite Ha. unfold jump. cbn [operand_int bind]. rewrite Hz. cbn.
    split; [assumption|]. eexists; split; [left; rewrite Ht; reflexivity|]. assumption.
  - (* Inc *)
    vinv Htr. injection Htr as <-.
    eapply nofault_bind with (Q := fun x => stack_ok (s_heap (vs_store s)) r (snd x)).
    { destruct (i_arg i); [injection Hv as <-; cbn; assumption| | | | |];
      eapply pop_int_ok; eassumption. }
    intros [delta s1] Hs; cbn [fst snd] in Hs.
    eapply nofault_bind.
    { eapply pop_datum_ok; [eassumption|eassumption|apply is_datum_cls]. }
    intros [p s2] (ty & Hok & Hp & Hs2); cbn [fst snd] in *.
    apply is_cls_datum_eq in Hok as ->.
    eapply nofault_bind.
    { eapply heap_upd_ok; [eassumption|eassumption|intros; apply cell_inc_ok; assumption]. }
    intros st' (Hst' & Hle & Hp').
    eapply nofault_bind. { apply datum_int_ok; eassumption. }
    intros ? _. cbn. split; [assumption|].
    eexists; split; [left; rewrite Hpc; reflexivity|].
    cbn. split; [exact I|]. eapply stack_ok_mono; eassumption.
  - (* Dec *)
    vinv Htr. injection Htr as <-.
    eapply nofault_bind with (Q := fun x => stack_ok (s_heap (vs_store s)) r (snd x)).
    { destruct (i_arg i); [injection Hv as <-; cbn; assumption| | | | |];
      eapply pop_int_ok; eassumption. }
    intros [delta s1] Hs; cbn [fst snd] in Hs.
    eapply nofault_bind.
    { eapply pop_datum_ok; [eassumption|eassumption|apply is_datum_cls]. }
    intros [p s2] (ty & Hok & Hp & Hs2); cbn [fst snd] in *.
    apply is_cls_datum_eq in Hok as ->.
    eapply nofault_bind.
    { eapply heap_upd_ok; [eassumption|eassumption|intros; apply cell_inc_ok; assumption]. }
    intros st' (Hst' & Hle & Hp').
    eapply nofault_bind. { apply datum_int_ok; eassumption. }
    intros ? _. cbn. split; [assumption|].
    eexists; split; [left; rewrite Hpc; reflexivity|].
    cbn. split; [exact I|]. eapply stack_ok_mono; eassumption.
  - (* Strptime *)
    vinv Htr. injection Htr as <-. pop_step.
    destruct (pop_gen _ _ _ _ _ _ Hv0 Hs) as (v & s2 & c & -> & Hok & Hc & Hs2).
    apply cls_eqb_eq in Hok as <-. destruct v; cbn in Hc; try contradiction.
    cbn [pop bind].
    destruct (memo_get (x, s0) (vs_memo s)) as [[tm mm]|].
    + fin Hpc.
    + destruct (time_parse E x s0); [fin Hpc | exact I].
  - (* Timestamp *) injection Htr as <-. fin Hpc.
  - (* Settime *)
    vinv Htr. injection Htr as <-.
    destruct (pop_gen _ _ _ _ _ _ Hv Hstk) as (v & s1 & c & Hs & Hok & Hc & Hs1).
    apply cls_eqb_eq in Hok as <-. destruct v; cbn in Hc; try contradiction.
    rewrite Hs. fin Hpc.
  - (* Push *)
    injection Htr as <-. cbn. split; [assumption|].
    eexists; split; [left; rewrite Hpc; reflexivity|]. cbn. split; [|assumption].
    destruct (i_arg i); cbn; auto.
  - (* Capref *)
    vinv Htr. injection Htr as <-. apply arg_int_inv in Hv0 as Ha. apply vguard_inv in Hv1.
    destruct (pop_gen _ _ _ _ _ _ Hv Hstk) as (v & s1 & c & Hs & Hok & Hc & Hs1).
    destruct c; cbn in Hok; try discriminate. destruct v; cbn in Hc; try contradiction.
    rewrite Hs, Ha. cbn [pop bind operand_int].
    destruct (Z.of_nat (length (match_get z (t_matches t))) <=? r0)%Z; [exact I|].
    replace (r0 <? 0)%Z with false by lia. fin Hpc.
  - (* Str *)
    vinv Htr. injection Htr as <-. apply arg_index_inv in Hv as (z & Ha & Hi & Hlt).
    rewrite Ha. cbn [operand_int bind]. rewrite Hi. fin Hpc.
  - (* Sset *)
    set_datum Htr Hst Hstk Hpc is_datum_cls ltac:(fun Hok => apply is_cls_datum_eq in Hok as ->; apply cell_set_str_ok; assumption).
  - (* Iset *)
    set_datum Htr Hst Hstk Hpc iset_ok_datum ltac:(fun Hok => apply cell_set_int_ok; assumption).
  - (* Idiv *) ibin Htr Hpc.
  - (* Imod *) ibin Htr Hpc.
  - (* Not *)
    vinv Htr. injection Htr as <-.
    destruct (pop_gen _ _ _ _ _ _ Hv Hstk) as (v & s1 & c & Hs & Hok & Hc & Hs1).
    apply cls_eqb_eq in Hok as <-. destruct v; cbn in Hc; try contradiction.
    rewrite Hs. fin Hpc.
  - (* Shl *) ibin Htr Hpc.
  - (* Shr *) ibin Htr Hpc.
  - (* Mload *)
    vinv Htr. injection Htr as <-. apply arg_index_inv in Hv as (z & Ha & Hi & Hlt).
    rewrite Ha. cbn [operand_int bind]. rewrite Hi. fin Hpc.
  - (* Dload *)
    vinv Htr. destruct r as [md r]. injection Htr as <-.
    eapply nofault_bind. { eapply pop_metric_keys_ok; eauto. }
    intros [[m keys] s1] (Hm & Hk & Hs1); cbn [fst snd] in *.
    eapply nofault_bind. { eapply get_datum_ok; eauto. }
    intros [p st'] (Hst' & Hle & Hp); cbn [fst snd] in *.
    cbn. split; [assumption|]. eexists; split; [left; rewrite Hpc; reflexivity|].
    cbn. split; [assumption|]. eapply stack_ok_mono; eauto.
  - (* Iget *) get_datum Htr Hstk Hpc datum_int_ok.
  - (* Fget *) get_datum Htr Hstk Hpc datum_float_ok.
  - (* Sget *) get_datum Htr Hstk Hpc datum_str_ok.
  - (* Setmatched *)
    destruct (i_arg i); try discriminate. injection Htr as <-. fin Hpc.
  - (* Otherwise *) injection Htr as <-. fin Hpc.
  - (* Del *)
    vinv Htr. destruct r as [md r]. injection Htr as <-.
    eapply nofault_bind. { eapply pop_metric_keys_ok; eauto. }
    intros [[m keys] s1] (Hm & Hk & Hs1); cbn [fst snd] in *.
    eapply nofault_bind. { eapply remove_datum_ok; eauto. }
    intros st' (Hst' & Hh). cbn. split; [assumption|].
    eexists; split; [left; rewrite Hpc; reflexivity|]. cbn. rewrite Hh. assumption.
  - (* Expire *)
    vinv Htr. destruct r as [md r]. vinv Htr. injection Htr as <-.
    eapply nofault_bind. { eapply pop_metric_keys_ok; eauto. }
    intros [[m keys] s1] (Hm & Hk & Hs1); cbn [fst snd] in *.
    destruct (pop_gen _ _ _ _ _ _ Hv0 Hs1) as (v & s2 & c & -> & Hok & Hc & Hs2).
    apply cls_eqb_eq in Hok as <-. destruct v; cbn in Hc; try contradiction.
    cbn [pop bind].
    eapply nofault_bind. { eapply expire_datum_ok; eauto. }
    intros st' (Hst' & Hh). cbn. split; [assumption|].
    eexists; split; [left; rewrite Hpc; reflexivity|]. cbn. rewrite Hh. assumption.
  - (* Fset *)
    set_datum Htr Hst Hstk Hpc fset_ok_datum ltac:(fun Hok => apply cell_set_float_ok; assumption).
  - (* Getfilename *) injection Htr as <-. fin Hpc.
  - (* S2i *)
    vinv Htr. injection Htr as <-.
    eapply nofault_bind with (Q := fun x => stack_ok (s_heap (vs_store s)) r (snd x)).
    { destruct (i_arg i); [injection Hv as <-; cbn; assumption| | | | |];
      (eapply nofault_bind; [eapply pop_int_ok; eassumption|]);
      intros [val s1] Hs; cbn [fst snd] in *;
      destruct ((val <=? 0)%Z || (max_int32 <=? val)%Z); cbn; auto. }
    intros [base s1] Hs; cbn [fst snd] in Hs. pop_step.
    destruct (parse_int E x base 64); [fin Hpc|exact I].
  - (* S2f *)
    vinv Htr. injection Htr as <-. pop_step.
    destruct (parse_float E x); [fin Hpc|exact I].
  - (* Icmp *)
    vinv Htr. injection Htr as <-. apply arg_cmp_inv in Hv as (z & Ha & Hz).
    pop_step. pop_step. rewrite Ha. cbn [operand_int bind].
    eapply nofault_bind. { apply cmp_int_ok; assumption. } intros rr _. fin Hpc.
  - (* Fcmp *)
    vinv Htr. injection Htr as <-. apply arg_cmp_inv in Hv as (z & Ha & Hz).
    pop_step. pop_step. rewrite Ha. cbn [operand_int bind].
    eapply nofault_bind. { apply cmp_float_ok; assumption. } intros rr _. fin Hpc.
  - (* Scmp *)
    vinv Htr. injection Htr as <-. apply arg_cmp_inv in Hv as (z & Ha & Hz).
    pop_step. pop_step. rewrite Ha. cbn [operand_int bind].
    eapply nofault_bind. { apply cmp_str_ok; assumption. } intros rr _. fin Hpc.
  - (* Rsubst *)
    destruct A as [|c A]; try discriminate. destruct c; try discriminate.
    destruct k as [z|]; try discriminate.
    vinv Htr. injection Htr as <-. apply vguard_inv in Hv.
    apply stack_ok_cons in Hstk as (v & s1 & Hs & Hc & Hs1).
    destruct v; cbn in Hc; try contradiction. subst z0.
    rewrite Hs. unfold pop_int at 1. cbn [pop bind as_int].
    pop_step. pop_step. unfold index_in. rewrite Hv. fin Hpc.
Qed.


(* ------------------------------------------------------------------ *)
(* From one instruction to a line                                      *)

Definition checked (oc : outcome) : Prop :=
  match oc with Next | Stopped | Err _ => True | Fault _ | OutOfFuel => False end.

Lemma aprefix_ok h T : forall A stk, aprefix T A = true -> stack_ok h A stk -> stack_ok h T stk.
Proof.
  induction T as [|c T IH]; intros A stk H S; cbn; auto.
  destruct A as [|d A]; cbn in H; try discriminate.
  apply andb_true_iff in H as [H1 H2]. apply cls_eqb_eq in H1 as ->.
  apply stack_ok_cons in S as (v & stk' & -> & Hc & Hs). split; eauto.
Qed.

Section Table.
Variable tbl : table.
Hypothesis Hchk : check o tbl = true.

Definition thread_ok (t : thread) (s : vmstate) : Prop :=
  t_pc t <= nprog o /\
  exists A, nth_error tbl (t_pc t) = Some (Some A) /\
            stack_ok (s_heap (vs_store s)) A (t_stack t).

Lemma check_parts :
  nth_error tbl 0 = Some (Some []) /\ forall pc, pc < nprog o -> check_pc o tbl pc = true.
Proof.
  unfold check in Hchk. apply andb_true_iff in Hchk as [H12 H3].
  apply andb_true_iff in H12 as [H1 H2]. split.
  - destruct (nth_error tbl 0) as [[[|]|]|]; try discriminate; auto.
  - intros pc Hpc. rewrite forallb_forall in H3. apply H3. apply in_seq. lia.
Qed.

Lemma step_sound line t s :
  store_ok (vs_store s) -> thread_ok t s ->
  match step E o line t s with
  | SNext t' s' => store_ok (vs_store s') /\ thread_ok t' s' /\ t_pc t < t_pc t'
  | SEnd oc s' => store_ok (vs_store s') /\ checked oc
  end.
Proof.
  intros Hst (Hle & A & Htbl & Hstk). unfold step.
  destruct (nth_error (o_prog o) (t_pc t)) as [i|] eqn:Hi.
  2:{ apply nth_error_None in Hi. unfold nprog in Hle.
      replace (t_pc t =? length (o_prog o)) with true by (symmetry; apply Nat.eqb_eq; lia).
      cbn; auto. }
  assert (Hlt : t_pc t < nprog o) by (apply nth_error_Some; congruence).
  destruct check_parts as [_ Hall]. specialize (Hall _ Hlt).
  unfold check_pc in Hall. rewrite Htbl, Hi in Hall.
  destruct (transfer o (t_pc t) i A) as [succs|] eqn:Htr; try discriminate.
  pose proof (exec_sound line (t_pc t) i A succs (with_pc t (S (t_pc t))) s Htr Hst Hstk eq_refl) as Hex.
  destruct (exec E o line i (with_pc t (S (t_pc t))) s) as [[t' s'| |e s']| |]; cbn in Hex; try tauto; cbn; auto.
  destruct Hex as (Hst' & A' & Hin & Hstk').
  rewrite forallb_forall in Hall. specialize (Hall _ Hin). unfold succ_ok in Hall.
  apply andb_true_iff in Hall as [H12 H3]. apply andb_true_iff in H12 as [H1 H2].
  apply Nat.ltb_lt in H1. apply Nat.leb_le in H2.
  destruct (nth_error tbl (t_pc t')) as [[T|]|] eqn:HT; try discriminate.
  split; auto. split; auto. split; auto.
  exists T. split; auto. eapply aprefix_ok; eauto.
Qed.

Lemma run_sound line : forall fuel t s,
  store_ok (vs_store s) -> thread_ok t s -> nprog o - t_pc t < fuel ->
  checked (fst (run E o fuel line t s)) /\ store_ok (vs_store (snd (run E o fuel line t s))).
Proof.
  induction fuel as [|f IH]; intros t s Hst Ht Hf; [lia|].
  cbn. pose proof (step_sound line t s Hst Ht) as Hs.
  destruct (step E o line t s) as [t' s'|oc s'].
  - destruct Hs as (Hst' & Ht' & Hlt). apply IH; auto. destruct Ht' as [Hle _]. lia.
  - destruct Hs; cbn; auto.
Qed.

Lemma run_fuel line : forall f1 f2 t s,
  store_ok (vs_store s) -> thread_ok t s -> nprog o - t_pc t < f1 -> nprog o - t_pc t < f2 ->
  run E o f1 line t s = run E o f2 line t s.
Proof.
  induction f1 as [|f1 IH]; intros f2 t s Hst Ht H1 H2; [lia|].
  destruct f2 as [|f2]; [lia|]. cbn.
  pose proof (step_sound line t s Hst Ht) as Hs.
  destruct (step E o line t s) as [t' s'|oc s']; auto.
  destruct Hs as (Hst' & Ht' & Hlt). destruct Ht' as [Hle Hx].
  apply IH; auto; try (split; auto); lia.
Qed.

Lemma init_thread_ok s : thread_ok init_thread s.
Proof.
  destruct check_parts as [H0 _]. split; cbn; [lia|]. exists []. split; auto. exact I.
Qed.

End Table.

Lemma verify_table : verify o = true -> exists tbl, check o tbl = true.
Proof. unfold verify. destruct (infer o) as [tbl|d]; [eauto|discriminate]. Qed.

Theorem verify_sound_line :
  verify o = true -> forall line s, store_ok (vs_store s) ->
  checked (fst (run_line E o line s)) /\ store_ok (vs_store (snd (run_line E o line s))).
Proof.
  intros Hv line s Hst. destruct (verify_table Hv) as [tbl Hc].
  unfold run_line, line_fuel. apply (run_sound tbl Hc); auto.
  - apply init_thread_ok; auto.
  - cbn. unfold nprog. lia.
Qed.

Theorem verify_fuel_enough :
  verify o = true -> forall line s, store_ok (vs_store s) ->
  forall fuel, line_fuel o <= fuel -> run E o fuel line init_thread s = run_line E o line s.
Proof.
  intros Hv line s Hst fuel Hf. destruct (verify_table Hv) as [tbl Hc].
  unfold run_line. apply (run_fuel tbl Hc); auto.
  - apply init_thread_ok; auto.
  - cbn. unfold line_fuel, nprog in *. lia.
  - cbn. unfold line_fuel, nprog in *. lia.
Qed.

Theorem verify_sound_lines :
  verify o = true -> forall lines s, store_ok (vs_store s) ->
  Forall checked (fst (run_lines E o lines s)) /\ store_ok (vs_store (snd (run_lines E o lines s))).
Proof.
  intros Hv. induction lines as [|l r IH]; intros s Hst; cbn [run_lines]; [cbn; auto|].
  pose proof (verify_sound_line Hv l s Hst) as [H1 H2].
  destruct (run_line E o l s) as [oc s1]; cbn in *.
  specialize (IH s1 H2). destruct (run_lines E o r s1) as [ocs s2]; cbn in *.
  destruct IH. split; [constructor; assumption|assumption].
Qed.

End Sound.

(* ---- the store codegen leaves behind is well formed ---- *)
Lemma init_metric_ok md p c lv :
  init_metric md p = Some (c, lv) -> lv_datum lv = p /\ dval_type (d_val c) = md_type md.
Proof.
  unfold init_metric. destruct (md_arity md =? 0); try discriminate.
  destruct (md_kind md), (md_type md) eqn:Ht; try discriminate; intros [= <- <-]; cbn; auto.
Qed.

Lemma init_mets_ok : forall mds heap h' ms,
  init_mets mds heap = (h', ms) ->
  length ms = length mds /\
  (forall p t, heap_ty heap p t -> heap_ty h' p t) /\
  (forall m md lvs lv, nth_error mds m = Some md -> nth_error ms m = Some lvs -> In lv lvs ->
     heap_ty h' (lv_datum lv) (md_type md)).
Proof.
  induction mds as [|md mds IH]; intros heap h' ms H; cbn in H.
  - injection H as <- <-. repeat split; auto. intros [|m]; discriminate.
  - destruct (init_metric md (length heap)) as [[c lv0]|] eqn:Hm.
    + destruct (init_mets mds (heap ++ [c])) as [h1 ms1] eqn:Hr. injection H as <- <-.
      destruct (IH _ _ _ Hr) as (Hl & Hmono & Hok).
      apply init_metric_ok in Hm as [Hd Hty].
      split; [cbn; congruence|]. split.
      * intros p t Hp. apply Hmono. apply heap_ty_app; auto.
      * intros [|m] md' lvs lv H1 H2 H3; cbn in *.
        -- injection H1 as <-. injection H2 as <-. destruct H3 as [<-|[]].
           apply Hmono. rewrite Hd, <- Hty. apply heap_ty_new.
        -- eauto.
    + destruct (init_mets mds heap) as [h1 ms1] eqn:Hr. injection H as <- <-.
      destruct (IH _ _ _ Hr) as (Hl & Hmono & Hok).
      split; [cbn; congruence|]. split; auto.
      intros [|m] md' lvs lv H1 H2 H3; cbn in *.
      * injection H2 as <-. destruct H3.
      * eauto.
Qed.

Lemma init_store_ok o : store_ok o (init_store o).
Proof.
  unfold init_store. destruct (init_mets (o_metrics o) []) as [h ms] eqn:H.
  destruct (init_mets_ok _ _ _ _ H) as (Hl & _ & Hok). split; cbn; auto.
Qed.
