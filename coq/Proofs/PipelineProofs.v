(* Proofs for C19 over Run/Pipeline.v: conservation of every file's lines
   through the stages, shutdown order, ranking function, progress. *)
From V Require Import Base.Bytes Run.Pipeline.
Local Open Scope N_scope.

Lemma upd_same {A} (g : N -> A) k v : upd g k v k = v.
Proof. unfold upd. rewrite N.eqb_refl. reflexivity. Qed.
Lemma upd_other {A} (g : N -> A) k v x : x <> k -> upd g k v x = g x.
Proof. unfold upd. intros H. apply N.eqb_neq in H. rewrite H. reflexivity. Qed.

Lemma mem_In p l : mem p l = true <-> In p l.
Proof.
  unfold mem. rewrite existsb_exists. split.
  - intros [x [Hx E]]. apply N.eqb_eq in E. subst. exact Hx.
  - intros H. exists p. split; [exact H|apply N.eqb_refl].
Qed.
Lemma mem_false p l : mem p l = false <-> ~ In p l.
Proof. rewrite <- mem_In. destruct (mem p l); split; congruence. Qed.

Lemma rm_In p x l : In x (rm p l) <-> In x l /\ x <> p.
Proof.
  unfold rm. rewrite filter_In. split; intros [A B]; split; auto.
  - intros ->. rewrite N.eqb_refl in B. discriminate.
  - apply N.eqb_neq in B. rewrite B. reflexivity.
Qed.

Lemma rm_length p l : NoDup l -> In p l -> (length (rm p l) + 1 = length l)%nat.
Proof.
  induction l as [|a l IH]; cbn; intros Hnd Hin; [contradiction|].
  inversion Hnd as [|? ? Hn Hnd']; subst. destruct (N.eqb a p) eqn:E; cbn.
  - apply N.eqb_eq in E. subst.
    assert (rm p l = l).
    { unfold rm. clear IH Hnd Hnd' Hin. induction l as [|b l IH]; cbn; [reflexivity|].
      destruct (N.eqb b p) eqn:E; cbn.
      - apply N.eqb_eq in E. subst. exfalso. apply Hn. left. reflexivity.
      - f_equal. apply IH. intros H. apply Hn. right. exact H. }
    unfold rm in H. rewrite H. lia.
  - destruct Hin as [->|Hin]; [rewrite N.eqb_refl in E; discriminate|]. specialize (IH Hnd' Hin). unfold rm in IH. lia.
Qed.

Lemma proj_app f a b : proj f (a ++ b) = proj f a ++ proj f b.
Proof. unfold proj. rewrite filter_app, map_app. reflexivity. Qed.
Lemma proj_one_same f x : proj f [(f, x)] = [x].
Proof. unfold proj. cbn. rewrite N.eqb_refl. reflexivity. Qed.
Lemma proj_one_other f g x : g <> f -> proj f [(g, x)] = [].
Proof. unfold proj. cbn. intros H. apply N.eqb_neq in H. rewrite H. reflexivity. Qed.

Definition sumf (g : N -> nat) (l : list N) : nat := fold_right (fun x a => (g x + a)%nat) 0%nat l.

Lemma sumf_cons g a l : sumf g (a :: l) = (g a + sumf g l)%nat.
Proof. reflexivity. Qed.

Lemma sumf_same g g' l : (forall x, In x l -> g' x = g x) -> sumf g' l = sumf g l.
Proof.
  induction l as [|a l IH]; intros H; [reflexivity|]. rewrite !sumf_cons.
  rewrite H by (left; reflexivity). rewrite IH; [reflexivity|]. intros x Hx. apply H. right. exact Hx.
Qed.

Lemma sumf_change g g' l k :
  NoDup l -> In k l -> (forall x, x <> k -> g' x = g x) ->
  (sumf g' l + g k = sumf g l + g' k)%nat.
Proof.
  induction l as [|a l IH]; intros Hnd Hin H; [destruct Hin|]. rewrite !sumf_cons.
  inversion Hnd as [|? ? Hn Hnd']; subst. destruct (N.eq_dec a k) as [->|Hne].
  - rewrite (sumf_same g g' l); [lia|]. intros x Hx. apply H. intros ->. contradiction.
  - destruct Hin as [->|Hin]; [congruence|]. rewrite (H a Hne). specialize (IH Hnd' Hin H). lia.
Qed.

Lemma sum_dec g g' l k d :
  NoDup l -> In k l -> (forall x, x <> k -> g' x = g x) -> (g' k + d = g k)%nat ->
  (sumf g' l + d = sumf g l)%nat.
Proof. intros A B C D. pose proof (sumf_change g g' l k A B C). lia. Qed.

Lemma sum_inc g g' l k d :
  NoDup l -> In k l -> (forall x, x <> k -> g' x = g x) -> (g' k = g k + d)%nat ->
  (sumf g' l = sumf g l + d)%nat.
Proof. intros A B C D. pose proof (sumf_change g g' l k A B C). lia. Qed.


(* ---- interleavings ---- *)

(* l is an interleaving of the line lists [content f], f in files, that keeps
   each file's order and uses every line exactly once *)
Inductive Interleave (files : list N) : (N -> list N) -> list line -> Prop :=
| il_nil content : (forall f, In f files -> content f = []) -> Interleave files content []
| il_cons content f x r l :
    In f files -> content f = x :: r -> Interleave files (upd content f r) l ->
    Interleave files content ((f, x) :: l).

Lemma proj_cons_same f x l : proj f ((f, x) :: l) = x :: proj f l.
Proof. unfold proj. cbn. rewrite N.eqb_refl. reflexivity. Qed.
Lemma proj_cons_other f g x l : g <> f -> proj f ((g, x) :: l) = proj f l.
Proof. unfold proj. cbn. intros H. apply N.eqb_neq in H. rewrite H. reflexivity. Qed.

Lemma interleave_of_proj files l : forall content,
  (forall f, In f files -> proj f l = content f) ->
  (forall x, In x l -> In (fst x) files) ->
  Interleave files content l.
Proof.
  induction l as [|[f x] l IH]; intros content HP HF.
  - apply il_nil. intros f Hf. rewrite <- (HP f Hf). reflexivity.
  - assert (Hf : In f files) by (apply (HF (f, x)); left; reflexivity).
    apply (il_cons files content f x (proj f l)); auto.
    + rewrite <- (HP f Hf). apply proj_cons_same.
    + apply IH.
      * intros g Hg. destruct (N.eq_dec g f) as [->|Hne]; [rewrite upd_same; reflexivity|].
        rewrite upd_other by exact Hne. rewrite <- (HP g Hg). symmetry. apply proj_cons_other. congruence.
      * intros y Hy. apply HF. right. exact Hy.
Qed.

Section P.
Variable files : list N.
Variable progs : list N.
Hypothesis files_nodup : NoDup files.
Hypothesis progs_nodup : NoDup progs.
Variable content : N -> list N.

Notation step := (step files progs).
Notation run := (run files progs).

Definition Bof (s : state) (p : N) : list line := match vslot s p with Some l => [l] | None => [] end.
Definition Cof (c : option (line * list N)) (p : N) : list line :=
  match c with Some (l, pend) => if mem p pend then [l] else [] | None => [] end.
Definition Dof (s : state) (f : N) : list N := match fslot s f with Some x => [x] | None => [] end.

Lemma Cof_mk_cur l pend p : Cof (mk_cur l pend) p = if mem p pend then [l] else [].
Proof. destruct pend; reflexivity. Qed.

Record Inv (s : state) : Prop := {
  i_cons : forall p f, In p progs ->
      proj f (processed s p ++ Bof s p ++ Cof (cur s) p) ++ Dof s f ++ rem s f = content f;
  i_cur : forall l pend, cur s = Some (l, pend) ->
      pend <> [] /\ NoDup pend /\ (forall x, In x pend -> In x progs) /\ In (fst l) files;
  i_fclosed : forall f, fclosed s f = true -> rem s f = [] /\ fslot s f = None;
  i_lclosed : lclosed s = true -> forall f, In f files -> fclosed s f = true;
  i_vclosed : forall p, vclosed s p = true -> lclosed s = true /\ cur s = None;
  i_done : done s = true -> lclosed s = true /\ forall p, In p progs -> vclosed s p = true /\ vslot s p = None;
  i_fslot : forall f x, fslot s f = Some x -> In f files;
  i_vslot : forall p l, vslot s p = Some l -> In p progs /\ In (fst l) files;
  i_proc : forall p l, In l (processed s p) -> In (fst l) files
}.

Lemma init_inv : Inv (init content).
Proof.
  constructor; cbn; try discriminate; try (intros; discriminate).
  - intros p f _. reflexivity.
  - intros p l [].
Qed.

Ltac st := cbn [rem fslot fclosed cur lclosed vslot processed vclosed done].
Ltac norm := rewrite <- ?app_assoc; cbn [app].

Ltac inv_step H := match type of H with Some _ = Some _ => inversion H; subst; clear H end.

Lemma step_inv s e s' : Inv s -> step s e = Some s' -> Inv s'.
Proof.
  intros [IC ICu IF IL IV ID IFs IVs IP] H. destruct e as [f|f|p0|p0|f| |p0| ]; cbn in H.
  - (* Emit *)
    destruct (rem s f) as [|x r] eqn:R; [discriminate|]. destruct (fslot s f) eqn:Fs; [discriminate|].
    destruct (mem f files && negb (fclosed s f)) eqn:G; [|discriminate]. apply andb_true_iff in G as [G1 G2].
    apply mem_In in G1. apply negb_true_iff in G2. inv_step H. constructor; st; auto.
    + intros p g Hp. specialize (IC p g Hp). unfold Bof, Dof in *. st.
      destruct (N.eq_dec g f) as [->|Hne].
      * rewrite !upd_same. rewrite R, Fs in IC. cbv beta iota in *. rewrite <- IC. norm. reflexivity.
      * rewrite !upd_other by exact Hne. exact IC.
    + intros g Hg. destruct (N.eq_dec g f) as [->|Hne]; [congruence|]. rewrite !upd_other by exact Hne. auto.
    + intros g y. destruct (N.eq_dec g f) as [->|Hne]; [auto|]. rewrite upd_other by exact Hne. apply IFs.
  - (* Forward *)
    destruct (fslot s f) as [x|] eqn:Fs; [|discriminate]. destruct (cur s) eqn:Cu; [discriminate|].
    inv_step H. pose proof (IFs _ _ Fs) as Hf. constructor; st; auto.
    + intros p g Hp. specialize (IC p g Hp). unfold Bof, Dof in *. st. rewrite Cof_mk_cur.
      apply mem_In in Hp. rewrite Hp. cbn [Cof] in IC. rewrite app_nil_r in IC.
      rewrite !proj_app in *. destruct (N.eq_dec g f) as [->|Hne].
      * rewrite upd_same. rewrite Fs in IC. cbv beta iota in *. rewrite proj_one_same. rewrite <- IC. norm. reflexivity.
      * rewrite upd_other by exact Hne. rewrite proj_one_other by congruence. rewrite app_nil_r. exact IC.
    + intros l pend Hm. destruct progs as [|a l0] eqn:Pg; [discriminate|]. cbn in Hm. inversion Hm; subst.
      repeat split; auto; discriminate.
    + intros g Hg. destruct (IF g Hg) as [A B]. destruct (N.eq_dec g f) as [->|Hne]; [congruence|].
      rewrite upd_other by exact Hne. auto.
    + intros p Hp. destruct (IV p Hp) as [A _]. exfalso. specialize (IL A f Hf). destruct (IF f IL). congruence.
    + intros g y. destruct (N.eq_dec g f) as [->|Hne]; [rewrite upd_same; discriminate|]. rewrite upd_other by exact Hne. apply IFs.
  - (* FanOut *)
    destruct (cur s) as [[l pend]|] eqn:Cu; [|discriminate].
    destruct (mem p0 pend && is_none (vslot s p0)) eqn:G; [|discriminate]. apply andb_true_iff in G as [G1 G2].
    apply mem_In in G1. destruct (vslot s p0) eqn:Vs; [discriminate|].
    destruct (ICu _ _ eq_refl) as [Hne [Hnd [Hsub Hfl]]]. inv_step H. constructor; st; auto.
    + intros p g Hp. specialize (IC p g Hp). unfold Bof, Dof in *. st. rewrite Cof_mk_cur. cbn [Cof] in IC.
      destruct (N.eq_dec p p0) as [->|Hpe].
      * rewrite upd_same. rewrite Vs in IC. assert (M : mem p0 pend = true) by (apply mem_In; exact G1).
        rewrite M in IC. assert (M' : mem p0 (rm p0 pend) = false) by (apply mem_false; intros X; apply rm_In in X as [_ X]; congruence).
        rewrite M'. cbv beta iota in *. rewrite <- IC. rewrite app_nil_r. cbn [app]. reflexivity.
      * rewrite upd_other by exact Hpe.
        assert (M : mem p (rm p0 pend) = mem p pend).
        { destruct (mem p pend) eqn:E.
          - apply mem_In. apply rm_In. split; [apply mem_In; exact E|exact Hpe].
          - apply mem_false. intros X. apply rm_In in X as [X _]. apply mem_In in X. congruence. }
        rewrite M. exact IC.
    + intros l' pend' Hm. destruct (rm p0 pend) as [|a r] eqn:Rm; [discriminate|]. cbn in Hm. inversion Hm; subst.
      repeat split; auto; try discriminate.
      * rewrite <- Rm. unfold rm. apply NoDup_filter. exact Hnd.
      * intros x Hx. rewrite <- Rm in Hx. apply rm_In in Hx as [Hx _]. auto.
    + intros p Hp. destruct (IV p Hp) as [_ B]. congruence.
    + intros Hd. destruct (ID Hd) as [A B]. destruct (B p0 (Hsub _ G1)) as [X _]. destruct (IV _ X). congruence.
    + intros p l'. destruct (N.eq_dec p p0) as [->|Hpe]; [rewrite upd_same; intros E; inversion E; subst; auto|].
      rewrite upd_other by exact Hpe. apply IVs.
  - (* Process *)
    destruct (vslot s p0) as [l|] eqn:Vs; [|discriminate]. inv_step H.
    destruct (IVs _ _ Vs) as [Hp0 Hl]. constructor; st; auto.
    + intros p g Hp. specialize (IC p g Hp). unfold Bof, Dof in *. st.
      destruct (N.eq_dec p p0) as [->|Hpe].
      * rewrite !upd_same. rewrite Vs in IC. cbv beta iota in *. rewrite <- IC. norm. reflexivity.
      * rewrite !upd_other by exact Hpe. exact IC.
    + intros Hd. destruct (ID Hd) as [A B]. split; [exact A|]. intros p Hp. destruct (B p Hp) as [X Y]. split; [exact X|].
      destruct (N.eq_dec p p0) as [->|Hpe]; [apply upd_same|rewrite upd_other by exact Hpe; exact Y].
    + intros p l'. destruct (N.eq_dec p p0) as [->|Hpe]; [rewrite upd_same; discriminate|]. rewrite upd_other by exact Hpe. apply IVs.
    + intros p l'. destruct (N.eq_dec p p0) as [->|Hpe]; [rewrite upd_same|rewrite upd_other by exact Hpe; apply IP].
      intros Hin. apply in_app_or in Hin as [Hin|[<-|[]]]; [eapply IP; eauto|exact Hl].
  - (* CloseStream *)
    destruct (rem s f) eqn:R; [|discriminate]. destruct (fslot s f) eqn:Fs; [discriminate|].
    destruct (mem f files && negb (fclosed s f)) eqn:G; [|discriminate]. inv_step H. constructor; st; auto.
    + intros g Hg. destruct (N.eq_dec g f) as [->|Hne]; [auto|]. rewrite upd_other in Hg by exact Hne. auto.
    + intros Hl g Hg. destruct (N.eq_dec g f) as [->|Hne]; [apply upd_same|rewrite upd_other by exact Hne; auto].
  - (* CloseLines *)
    destruct (forallb (fclosed s) files && negb (lclosed s)) eqn:G; [|discriminate]. apply andb_true_iff in G as [G1 G2].
    inv_step H. constructor; st; auto.
    + intros _ g Hg. rewrite forallb_forall in G1. auto.
    + intros p Hp. destruct (IV p Hp) as [A B]. apply negb_true_iff in G2. congruence.
    + intros Hd. destruct (ID Hd) as [A B]. apply negb_true_iff in G2. congruence.
  - (* CloseVM *)
    destruct (lclosed s && is_none (cur s) && mem p0 progs && negb (vclosed s p0)) eqn:G; [|discriminate].
    apply andb_true_iff in G as [G G4]. apply andb_true_iff in G as [G G3]. apply andb_true_iff in G as [G1 G2].
    destruct (cur s) eqn:Cu; [discriminate|]. inv_step H. constructor; st; auto.
    + intros Hd. destruct (ID Hd) as [A B]. split; [exact A|]. intros p Hp. destruct (B p Hp) as [X Y]. split; [|exact Y].
      destruct (N.eq_dec p p0) as [->|Hpe]; [apply upd_same|rewrite upd_other by exact Hpe; exact X].
  - (* Done *)
    destruct (forallb (vclosed s) progs && forallb (fun p => is_none (vslot s p)) progs && lclosed s && negb (done s)) eqn:G; [|discriminate].
    apply andb_true_iff in G as [G G4]. apply andb_true_iff in G as [G G3]. apply andb_true_iff in G as [G1 G2].
    inv_step H. constructor; st; auto.
    intros _. split; [exact G3|]. intros p Hp. rewrite forallb_forall in G1, G2. split; [auto|].
    specialize (G2 p Hp). destruct (vslot s p); [discriminate|reflexivity].
Qed.

Lemma run_inv s es s' : Inv s -> run s es = Some s' -> Inv s'.
Proof.
  revert s. induction es as [|e es IH]; cbn; intros s I H; [inversion H; subst; exact I|].
  destruct (step s e) as [s1|] eqn:E; [|discriminate]. eapply IH; [eapply step_inv; eauto|exact H].
Qed.

(* ---- every line once, in file order ---- *)

Theorem every_line_once_in_order es s p :
  run (init content) es = Some s -> done s = true -> In p progs ->
  (forall f, In f files -> proj f (processed s p) = content f) /\
  (forall l, In l (processed s p) -> In (fst l) files).
Proof.
  intros H Hd Hp. pose proof (run_inv _ _ _ init_inv H) as [IC ICu IF IL IV ID IFs IVs IP].
  destruct (ID Hd) as [Lc B]. destruct (B p Hp) as [Vc Vs]. destruct (IV p Vc) as [_ Cu]. split.
  - intros f Hf. specialize (IC p f Hp). destruct (IF f (IL Lc f Hf)) as [R Fs].
    unfold Bof, Dof in IC. rewrite Vs, Cu, R, Fs in IC. cbn in IC. rewrite !app_nil_r in IC. exact IC.
  - intros l Hl. eapply IP; eauto.
Qed.

Theorem every_line_once_interleave es s p :
  run (init content) es = Some s -> done s = true -> In p progs ->
  Interleave files content (processed s p).
Proof.
  intros H Hd Hp. destruct (every_line_once_in_order es s p H Hd Hp) as [A B].
  apply interleave_of_proj; auto.
Qed.

(* in every reachable state what a program has processed of a file is a
   prefix of that file *)
Theorem processed_prefix es s p f :
  run (init content) es = Some s -> In p progs ->
  exists rest, proj f (processed s p) ++ rest = content f.
Proof.
  intros H Hp. pose proof (run_inv _ _ _ init_inv H) as [IC _ _ _ _ _ _ _ _].
  specialize (IC p f Hp). rewrite !proj_app in IC. rewrite <- !app_assoc in IC. eauto.
Qed.

(* ---- termination ---- *)

Notation rank := (rank files progs).

Definition gF (s : state) (f : N) : nat :=
  (length (rem s f) * (2 + 2 * length progs) + o2n (fslot s f) (1 + 2 * length progs) + b2n (fclosed s f))%nat.
Definition gP (s : state) (p : N) : nat := (o2n (vslot s p) 1 + b2n (vclosed s p))%nat.
Definition gC_of (c : option (line * list N)) : nat := match c with Some (_, pend) => (2 * length pend)%nat | None => 0%nat end.
Definition gC (s : state) : nat := gC_of (cur s).

Lemma rank_eq s : rank s = (sumf (gF s) files + gC s + sumf (gP s) progs + b2n (lclosed s) + b2n (done s))%nat.
Proof.
  unfold Pipeline.rank, gC, gC_of.
  assert (A : forall l, fold_right (fun f a => (length (rem s f) * (2 + 2 * length progs) + o2n (fslot s f) (1 + 2 * length progs) + b2n (fclosed s f) + a)%nat) 0%nat l = sumf (gF s) l).
  { induction l as [|a l IH]; [reflexivity|]. rewrite sumf_cons. cbn [fold_right]. rewrite IH. reflexivity. }
  assert (B : forall l, fold_right (fun p a => (o2n (vslot s p) 1 + b2n (vclosed s p) + a)%nat) 0%nat l = sumf (gP s) l).
  { induction l as [|a l IH]; [reflexivity|]. rewrite sumf_cons. cbn [fold_right]. rewrite IH. reflexivity. }
  rewrite A, B. reflexivity.
Qed.

Lemma mk_cur_len l pend : gC_of (mk_cur l pend) = (2 * length pend)%nat.
Proof. destruct pend; reflexivity. Qed.

Theorem rank_decreases s e s' : Inv s -> step s e = Some s' -> (rank s' < rank s)%nat.
Proof.
  intros [IC ICu IF IL IV ID IFs IVs IP] H. rewrite !rank_eq. destruct e as [f|f|p0|p0|f| |p0| ]; cbn in H.
  - destruct (rem s f) as [|x r] eqn:R; [discriminate|]. destruct (fslot s f) eqn:Fs; [discriminate|].
    destruct (mem f files && negb (fclosed s f)) eqn:G; [|discriminate]. apply andb_true_iff in G as [G1 G2].
    apply mem_In in G1. inv_step H.
    match goal with |- (sumf (gF ?s1) _ + _ + _ + _ + _ < _)%nat => set (s' := s1) end.
    assert (S : (sumf (gF s') files + 1 = sumf (gF s) files)%nat).
    { apply (sum_dec _ _ _ f); auto.
      - intros y Hy. unfold gF, s'. st. rewrite !upd_other by exact Hy. reflexivity.
      - unfold gF, s'. st. rewrite !upd_same, R, Fs. cbn [length o2n]. lia. }
    assert (P : sumf (gP s') progs = sumf (gP s) progs) by reflexivity.
    assert (C : gC s' = gC s) by reflexivity.
    rewrite P, C. assert (L : lclosed s' = lclosed s) by reflexivity. assert (D : done s' = done s) by reflexivity. rewrite L, D. lia.
  - destruct (fslot s f) as [x|] eqn:Fs; [|discriminate]. destruct (cur s) eqn:Cu; [discriminate|].
    inv_step H. pose proof (IFs _ _ Fs) as Hf.
    match goal with |- (sumf (gF ?s1) _ + _ + _ + _ + _ < _)%nat => set (s' := s1) end.
    assert (S : (sumf (gF s') files + (1 + 2 * length progs) = sumf (gF s) files)%nat).
    { apply (sum_dec _ _ _ f); auto.
      - intros y Hy. unfold gF, s'. st. rewrite !upd_other by exact Hy. reflexivity.
      - unfold gF, s'. st. rewrite !upd_same, Fs. cbn [o2n]. lia. }
    assert (P : sumf (gP s') progs = sumf (gP s) progs) by reflexivity.
    assert (C : gC s' = (2 * length progs)%nat) by (unfold gC, s'; st; apply mk_cur_len).
    assert (C0 : gC s = 0%nat) by (unfold gC, gC_of; rewrite Cu; reflexivity).
    rewrite P, C, C0. assert (L : lclosed s' = lclosed s) by reflexivity. assert (D : done s' = done s) by reflexivity. rewrite L, D. lia.
  - destruct (cur s) as [[l pend]|] eqn:Cu; [|discriminate].
    destruct (mem p0 pend && is_none (vslot s p0)) eqn:G; [|discriminate]. apply andb_true_iff in G as [G1 G2].
    apply mem_In in G1. destruct (vslot s p0) eqn:Vs; [discriminate|].
    destruct (ICu _ _ eq_refl) as [Hne [Hnd [Hsub Hfl]]]. inv_step H.
    match goal with |- (sumf (gF ?s1) _ + _ + _ + _ + _ < _)%nat => set (s' := s1) end.
    assert (S : sumf (gF s') files = sumf (gF s) files) by reflexivity.
    assert (P : (sumf (gP s') progs = sumf (gP s) progs + 1)%nat).
    { apply (sum_inc _ _ _ p0); auto.
      - intros y Hy. unfold gP, s'. st. rewrite !upd_other by exact Hy. reflexivity.
      - unfold gP, s'. st. rewrite !upd_same, Vs. cbn [o2n]. lia. }
    assert (C : gC s' = (2 * length (rm p0 pend))%nat) by (unfold gC, s'; st; apply mk_cur_len).
    assert (C0 : gC s = (2 * length pend)%nat) by (unfold gC, gC_of; rewrite Cu; reflexivity).
    pose proof (rm_length p0 pend Hnd G1) as RL.
    rewrite S, P, C, C0. assert (L : lclosed s' = lclosed s) by reflexivity. assert (D : done s' = done s) by reflexivity. rewrite L, D. lia.
  - destruct (vslot s p0) as [l|] eqn:Vs; [|discriminate]. inv_step H. destruct (IVs _ _ Vs) as [Hp0 _].
    match goal with |- (sumf (gF ?s1) _ + _ + _ + _ + _ < _)%nat => set (s' := s1) end.
    assert (S : sumf (gF s') files = sumf (gF s) files) by reflexivity.
    assert (P : (sumf (gP s') progs + 1 = sumf (gP s) progs)%nat).
    { apply (sum_dec _ _ _ p0); auto.
      - intros y Hy. unfold gP, s'. st. rewrite !upd_other by exact Hy. reflexivity.
      - unfold gP, s'. st. rewrite !upd_same, Vs. cbn [o2n]. lia. }
    assert (C : gC s' = gC s) by reflexivity.
    rewrite S, C. assert (L : lclosed s' = lclosed s) by reflexivity. assert (D : done s' = done s) by reflexivity. rewrite L, D. lia.
  - destruct (rem s f) eqn:R; [|discriminate]. destruct (fslot s f) eqn:Fs; [discriminate|].
    destruct (mem f files && negb (fclosed s f)) eqn:G; [|discriminate]. apply andb_true_iff in G as [G1 G2].
    apply mem_In in G1. apply negb_true_iff in G2. inv_step H.
    match goal with |- (sumf (gF ?s1) _ + _ + _ + _ + _ < _)%nat => set (s' := s1) end.
    assert (S : (sumf (gF s') files + 1 = sumf (gF s) files)%nat).
    { apply (sum_dec _ _ _ f); auto.
      - intros y Hy. unfold gF, s'. st. rewrite !upd_other by exact Hy. reflexivity.
      - unfold gF, s'. st. rewrite !upd_same, R, Fs, G2. cbn [length o2n b2n]. lia. }
    assert (P : sumf (gP s') progs = sumf (gP s) progs) by reflexivity.
    assert (C : gC s' = gC s) by reflexivity.
    rewrite P, C. assert (L : lclosed s' = lclosed s) by reflexivity. assert (D : done s' = done s) by reflexivity. rewrite L, D. lia.
  - destruct (forallb (fclosed s) files && negb (lclosed s)) eqn:G; [|discriminate]. apply andb_true_iff in G as [G1 G2].
    apply negb_true_iff in G2. inv_step H.
    match goal with |- (sumf (gF ?s1) _ + _ + _ + _ + _ < _)%nat => set (s' := s1) end.
    assert (S : sumf (gF s') files = sumf (gF s) files) by reflexivity.
    assert (P : sumf (gP s') progs = sumf (gP s) progs) by reflexivity.
    assert (C : gC s' = gC s) by reflexivity.
    rewrite S, P, C. assert (L : lclosed s' = true) by reflexivity. assert (D : done s' = done s) by reflexivity. rewrite L, D, G2. cbn [b2n]. lia.
  - destruct (lclosed s && is_none (cur s) && mem p0 progs && negb (vclosed s p0)) eqn:G; [|discriminate].
    apply andb_true_iff in G as [G G4]. apply andb_true_iff in G as [G G3]. apply mem_In in G3. apply negb_true_iff in G4.
    inv_step H.
    match goal with |- (sumf (gF ?s1) _ + _ + _ + _ + _ < _)%nat => set (s' := s1) end.
    assert (S : sumf (gF s') files = sumf (gF s) files) by reflexivity.
    assert (P : (sumf (gP s') progs + 1 = sumf (gP s) progs)%nat).
    { apply (sum_dec _ _ _ p0); auto.
      - intros y Hy. unfold gP, s'. st. rewrite !upd_other by exact Hy. reflexivity.
      - unfold gP, s'. st. rewrite !upd_same, G4. cbn [b2n]. lia. }
    assert (C : gC s' = gC s) by reflexivity.
    rewrite S, C. assert (L : lclosed s' = lclosed s) by reflexivity. assert (D : done s' = done s) by reflexivity. rewrite L, D. lia.
  - destruct (forallb (vclosed s) progs && forallb (fun p => is_none (vslot s p)) progs && lclosed s && negb (done s)) eqn:G; [|discriminate].
    apply andb_true_iff in G as [G G4]. apply negb_true_iff in G4. inv_step H.
    match goal with |- (sumf (gF ?s1) _ + _ + _ + _ + _ < _)%nat => set (s' := s1) end.
    assert (S : sumf (gF s') files = sumf (gF s) files) by reflexivity.
    assert (P : sumf (gP s') progs = sumf (gP s) progs) by reflexivity.
    assert (C : gC s' = gC s) by reflexivity.
    rewrite S, P, C. assert (L : lclosed s' = lclosed s) by reflexivity. assert (D : done s' = true) by reflexivity. rewrite L, D, G4. cbn [b2n]. lia.
Qed.

(* ---- progress: the only stuck reachable state is Done ---- *)

Theorem progress s : Inv s -> done s = false -> exists e s', step s e = Some s'.
Proof.
  intros [IC ICu IF IL IV ID IFs IVs IP] Hd.
  destruct (find (fun p => negb (is_none (vslot s p))) progs) as [p|] eqn:F1.
  { apply find_some in F1 as [Hp Hv]. destruct (vslot s p) eqn:Vs; [|discriminate].
    exists (Process p). cbn. rewrite Vs. eauto. }
  assert (V : forall p, In p progs -> vslot s p = None).
  { intros p Hp. pose proof (find_none _ _ F1 p Hp) as X. cbn beta in X. destruct (vslot s p); cbn in X; [discriminate|reflexivity]. }
  destruct (cur s) as [[l pend]|] eqn:Cu.
  { destruct (ICu _ _ eq_refl) as [Hne [Hnd [Hsub _]]]. destruct pend as [|p pend]; [congruence|].
    exists (FanOut p). cbn. rewrite Cu. cbn [mem existsb]. rewrite N.eqb_refl. cbn.
    rewrite (V p (Hsub p (or_introl eq_refl))). cbn. eauto. }
  destruct (find (fun f => negb (is_none (fslot s f))) files) as [f|] eqn:F2.
  { apply find_some in F2 as [Hf Hv]. destruct (fslot s f) eqn:Fs; [|discriminate].
    exists (Forward f). cbn. rewrite Fs, Cu. eauto. }
  assert (FS : forall f, In f files -> fslot s f = None).
  { intros f Hf. pose proof (find_none _ _ F2 f Hf) as X. cbn beta in X. destruct (fslot s f); cbn in X; [discriminate|reflexivity]. }
  destruct (find (fun f => negb (fclosed s f)) files) as [f|] eqn:F3.
  { apply find_some in F3 as [Hf Hv]. assert (M : mem f files = true) by (apply mem_In; exact Hf).
    destruct (rem s f) as [|x r] eqn:R.
    - exists (CloseStream f). cbn. rewrite R, (FS f Hf), M, Hv. cbn. eauto.
    - exists (Emit f). cbn. rewrite R, (FS f Hf), M, Hv. cbn. eauto. }
  assert (FC : forallb (fclosed s) files = true).
  { apply forallb_forall. intros f Hf. pose proof (find_none _ _ F3 f Hf) as X. cbn beta in X. destruct (fclosed s f); cbn in X; [reflexivity|discriminate]. }
  destruct (lclosed s) eqn:Lc.
  2: { exists CloseLines. cbn. rewrite FC, Lc. cbn. eauto. }
  destruct (find (fun p => negb (vclosed s p)) progs) as [p|] eqn:F4.
  { apply find_some in F4 as [Hp Hv]. assert (M : mem p progs = true) by (apply mem_In; exact Hp).
    exists (CloseVM p). cbn. rewrite Lc, Cu, M, Hv. cbn. eauto. }
  exists Done. cbn.
  assert (VC : forallb (vclosed s) progs = true).
  { apply forallb_forall. intros p Hp. pose proof (find_none _ _ F4 p Hp) as X. cbn beta in X. destruct (vclosed s p); cbn in X; [reflexivity|discriminate]. }
  assert (VN : forallb (fun p => is_none (vslot s p)) progs = true).
  { apply forallb_forall. intros p Hp. rewrite (V p Hp). reflexivity. }
  rewrite VC, VN, Lc, Hd. cbn. eauto.
Qed.

(* nothing is enabled once Run has returned *)
Theorem done_is_final s e : Inv s -> done s = true -> step s e = None.
Proof.
  intros [IC ICu IF IL IV ID IFs IVs IP] Hd. destruct (ID Hd) as [Lc B].
  destruct e as [f|f|p0|p0|f| |p0| ]; cbn.
  - destruct (rem s f) eqn:R; [reflexivity|]. destruct (fslot s f); [reflexivity|].
    destruct (mem f files) eqn:M; [|reflexivity]. apply mem_In in M. destruct (IF f (IL Lc f M)). congruence.
  - destruct (fslot s f) eqn:Fs; [|reflexivity]. pose proof (IFs _ _ Fs) as M. destruct (IF f (IL Lc f M)). congruence.
  - destruct (cur s) as [[l pend]|] eqn:Cu; [|reflexivity].
    destruct (ICu _ _ eq_refl) as [Hne [_ [Hsub _]]]. destruct pend as [|p pend]; [congruence|].
    destruct (B p (Hsub p (or_introl eq_refl))) as [X _]. destruct (IV _ X). congruence.
  - destruct (vslot s p0) eqn:Vs; [|reflexivity]. destruct (IVs _ _ Vs) as [Hp _]. destruct (B p0 Hp). congruence.
  - destruct (rem s f); [|reflexivity]. destruct (fslot s f); [reflexivity|].
    destruct (mem f files) eqn:M; [|reflexivity]. apply mem_In in M. rewrite (IL Lc f M). reflexivity.
  - rewrite Lc. rewrite andb_false_r. reflexivity.
  - destruct (mem p0 progs) eqn:M; [|rewrite andb_false_r; reflexivity]. apply mem_In in M. destruct (B p0 M) as [X _].
    rewrite X. rewrite andb_false_r. reflexivity.
  - rewrite Hd. rewrite andb_false_r. reflexivity.
Qed.

End P.
