(* Lang/Expand.v numbers patterns and strings while it inlines: the tables only
   grow, so an index handed out earlier stays valid in the final tables. *)
From V Require Import Lang.Expand.

Definition grows (s s' : nst) : Prop :=
  (exists a, n_res s' = n_res s ++ a) /\ (exists b, n_strs s' = n_strs s ++ b).

Lemma grows_refl s : grows s s.
Proof. split; exists []; rewrite app_nil_r; reflexivity. Qed.
Lemma grows_trans a b c : grows a b -> grows b c -> grows a c.
Proof.
  intros [[x Hx] [y Hy]] [[x' Hx'] [y' Hy']]. split.
  - exists (x ++ x'). rewrite Hx', Hx, app_assoc. reflexivity.
  - exists (y ++ y'). rewrite Hy', Hy, app_assoc. reflexivity.
Qed.
Lemma grows_pat pats spid s : grows s (snd (new_pat pats spid s)).
Proof. cbn. split; [eexists; reflexivity | exists []; rewrite app_nil_r; reflexivity]. Qed.
Lemma grows_str x s : grows s (snd (new_str x s)).
Proof. cbn. split; [exists []; rewrite app_nil_r; reflexivity | eexists; reflexivity]. Qed.

Scheme expr_mind' := Induction for expr Sort Prop
  with exprs_mind' := Induction for exprs Sort Prop.
Combined Scheme expr_exprs_ind' from expr_mind', exprs_mind'.

Section G.
Variable pats : list bytes.

Ltac step IH :=
  match goal with
  | |- context [rexpr pats ?a ?s] =>
      let H := fresh "G" in pose proof (IH s) as H; destruct (rexpr pats a s) as [? ?]; cbn [snd] in H
  end.
Ltac stepk IH :=
  match goal with
  | |- context [rexprs pats ?a ?s] =>
      let H := fresh "G" in pose proof (IH s) as H; destruct (rexprs pats a s) as [? ?]; cbn [snd] in H
  end.
Ltac fin := cbn [snd]; eauto using grows_refl, grows_trans.

Lemma rexpr_grows :
  (forall e s, grows s (snd (rexpr pats e s))) /\ (forall ks s, grows s (snd (rexprs pats ks s))).
Proof.
  apply expr_exprs_ind'; intros.
  - apply grows_refl.
  - apply grows_refl.
  - cbn [rexpr]. pose proof (grows_str s s0) as G. destruct (new_str s s0). exact G.
  - apply grows_refl.
  - cbn [rexpr]. step H. fin.
  - cbn [rexpr]. step H. step H0. fin.
  - cbn [rexpr]. step H. step H0. fin.
  - cbn [rexpr]. step H. fin.
  - cbn [rexpr]. step H. step H0. fin.
  - cbn [rexpr]. step H. step H0. fin.
  - cbn [rexpr]. step H. step H0. fin.
  - cbn [rexpr]. pose proof (grows_pat pats pid s) as G. destruct (new_pat pats pid s). exact G.
  - cbn [rexpr]. step H. pose proof (grows_pat pats pid n) as G0. destruct (new_pat pats pid n). fin.
  - change (rexpr pats (EGet m ks) s) with (let (ks', s1) := rexprs pats ks s in (EGet m ks', s1)). stepk H. fin.
  - cbn [rexpr]. step H. fin.
  - cbn [rexpr]. step H. fin.
  - cbn [rexpr]. step H. step H0. fin.
  - cbn [rexpr]. step H. step H0. step H1. fin.
  - cbn [rexpr]. pose proof (grows_pat pats pid s) as G. destruct (new_pat pats pid s) as [? s1]. cbn [snd] in G.
    step H. step H0. fin.
  - apply grows_refl.
  - apply grows_refl.
  - change (rexpr pats (EIncr dec m ks) s) with (let (ks', s1) := rexprs pats ks s in (EIncr dec m ks', s1)). stepk H. fin.
  - apply grows_refl.
  - match goal with |- context [rexprs pats (XCons ?a ?b) ?s0] =>
      change (rexprs pats (XCons a b) s0) with
        (let (e', s1) := rexpr pats a s0 in let (r', s2) := rexprs pats b s1 in (XCons e' r', s2)) end.
    step H. stepk H0. fin.
Qed.

End G.
