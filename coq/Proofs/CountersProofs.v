(* C25: every counter of the loader model equals the number of corresponding
   events of the history. *)
From V Require Import Metrics.StoreAdd Run.Loader Run.Counters Proofs.StoreAddProofs
  Proofs.LoaderIsolation Proofs.DirScanProofs.
Local Open Scope N_scope.

Lemma count_nil e : count e [] = 0.
Proof. reflexivity. Qed.

Lemma count_app e a b : count e (a ++ b) = count e a + count e b.
Proof. unfold count. rewrite filter_app, app_length. lia. Qed.

Lemma count_one e e' : count e [e'] = if ev_eqb e e' then 1 else 0.
Proof. unfold count. cbn [filter]. destruct (ev_eqb e e'); reflexivity. Qed.

Lemma filter_eqb_filter (f : bytes -> bool) p l :
  filter (bytes_eqb p) (filter f l) = if f p then filter (bytes_eqb p) l else [].
Proof.
  induction l as [|q l IH]; cbn [filter]; [destruct (f p); reflexivity|].
  destruct (f q) eqn:F; cbn [filter].
  - destruct (bytes_eqb p q) eqn:E.
    + apply bytes_eqb_spec in E. subst q. rewrite F in *. rewrite IH. reflexivity.
    + exact IH.
  - destruct (bytes_eqb p q) eqn:E; [|exact IH].
    apply bytes_eqb_spec in E. subst q. rewrite F in *. exact IH.
Qed.

Lemma filter_eqb_nodup p l : NoDup l ->
  length (filter (bytes_eqb p) l) = if existsb (bytes_eqb p) l then 1%nat else 0%nat.
Proof.
  induction l as [|q l IH]; cbn [filter existsb]; intros ND; [reflexivity|].
  inversion ND as [|? ? NI ND']; subst. destruct (bytes_eqb p q) eqn:E; cbn [orb length].
  - apply bytes_eqb_spec in E. subst q. rewrite (IH ND').
    destruct (existsb (bytes_eqb p) l) eqn:X; [|reflexivity].
    apply existsb_exists in X. destruct X as (y & I & Ey). apply bytes_eqb_spec in Ey. subst y. contradiction.
  - exact (IH ND').
Qed.

Lemma count_rt_map p l :
  count (EvRuntimeError p) (map EvRuntimeError l) = N.of_nat (length (filter (bytes_eqb p) l)).
Proof.
  unfold count. f_equal. induction l as [|q l IH]; cbn [map filter ev_eqb]; [reflexivity|].
  destruct (bytes_eqb p q); cbn [length]; rewrite IH; reflexivity.
Qed.

Lemma count_other_map e l :
  (forall q, ev_eqb e (EvRuntimeError q) = false) -> count e (map EvRuntimeError l) = 0.
Proof.
  intros H. unfold count. induction l as [|q l IH]; cbn [map filter]; [reflexivity|]. rewrite H. exact IH.
Qed.

Section Counters.
Variable c1 omit : bool.
Variable compile : bytes -> N -> option (list decl).
Variable vmstep : bytes -> N -> N -> list effect.
(* the repaired loader: a refused registration counts as a load error *)
Notation load_r := (load_r c1 true omit compile).
Notation step := (step c1 true omit compile vmstep).
Notation run_from := (run_from c1 true omit compile vmstep).
Notation step_events := (step_events c1 true omit compile vmstep).
Notation events := (events c1 true omit compile vmstep).

Definition exact_step (st st' : state) (evs : list event) : Prop :=
  st_lines st' = st_lines st + count EvLine evs /\
  forall p,
    ps_loads (getp p st') = ps_loads (getp p st) + count (EvLoaded p) evs /\
    ps_errs (getp p st') = ps_errs (getp p st) + count (EvLoadFailed p) evs /\
    ps_unloads (getp p st') = ps_unloads (getp p st) + count (EvUnloaded p) evs /\
    ps_rterrs (getp p st') = ps_rterrs (getp p st) + count (EvRuntimeError p) evs.

Lemma quad_other p n x st idx :
  p <> n -> getp p (mkst idx (bupdate n x (st_progs st)) (st_lines st)) = getp p st.
Proof. intros N. apply getp_bupdate_other. exact N. Qed.

Lemma exists_keys st p : existsb (bytes_eqb p) (map fst (st_progs st)) = false -> getp p st = ps_empty.
Proof.
  unfold getp. intros H. destruct (blookup p (st_progs st)) as [x|] eqn:B; [|reflexivity].
  apply blookup_In in B. assert (X : existsb (bytes_eqb p) (map fst (st_progs st)) = true).
  { apply existsb_exists. exists p. split; [|apply bytes_eqb_refl]. change p with (fst (p, x)). apply in_map. exact B. }
  congruence.
Qed.

Lemma step_exact st o : progs_nodup st ->
  exact_step st (step st o) (step_events st o) /\ progs_nodup (step st o).
Proof.
  intros PN. destruct o as [n src|n|l now|el|n m ls e]; cbn [Loader.step Counters.step_events].
  5:{ (* mark: no event, no counter *)
      unfold mark. destruct (ps_handle (getp n st)) eqn:H.
      2:{ split; [|exact PN]. split; [rewrite count_nil; lia|]. intros p. rewrite !count_nil. repeat split; lia. }
      destruct (exec_effect _ _ _ _) as [h1|].
      2:{ split; [|exact PN]. split; [rewrite count_nil; lia|]. intros p. rewrite !count_nil. repeat split; lia. }
      unfold setp. split; [|unfold progs_nodup; cbn [st_progs]; apply bupdate_nodup; exact PN].
      split; [cbn [st_lines]; rewrite count_nil; lia|]. intros p. rewrite !count_nil.
      destruct (bytes_eqb p n) eqn:E.
      - apply bytes_eqb_spec in E. subst p. rewrite getp_bupdate_same. cbn [ps_loads ps_errs ps_unloads ps_rterrs]. repeat split; lia.
      - apply bytes_eqb_false in E. rewrite quad_other by exact E. repeat split; lia. }
  - (* load *)
    unfold Loader.load. destruct (load_r st n src) as [st' r] eqn:LR. cbn [fst snd].
    split; [|exact (proj1 (proj2 (proj2 (load_r_handles c1 true omit compile vmstep st n src st' r LR))) PN)].
    unfold Loader.load_r in LR.
    destruct (match ps_handle (getp n st) with Some hd => N.eqb (h_src hd) src | None => false end).
    { injection LR as <- <-. split; [rewrite count_nil; lia|]. intros p. rewrite !count_nil. repeat split; lia. }
    assert (OTHER : forall idx x ev, (forall p, p <> n -> count (EvLoaded p) [ev] = 0 /\ count (EvLoadFailed p) [ev] = 0 /\
                       count (EvUnloaded p) [ev] = 0 /\ count (EvRuntimeError p) [ev] = 0) ->
               forall p, p <> n ->
               let st2 := mkst idx (bupdate n x (st_progs st)) (st_lines st) in
               ps_loads (getp p st2) = ps_loads (getp p st) + count (EvLoaded p) [ev] /\
               ps_errs (getp p st2) = ps_errs (getp p st) + count (EvLoadFailed p) [ev] /\
               ps_unloads (getp p st2) = ps_unloads (getp p st) + count (EvUnloaded p) [ev] /\
               ps_rterrs (getp p st2) = ps_rterrs (getp p st) + count (EvRuntimeError p) [ev]).
    { intros idx x ev Z p N. cbn zeta. rewrite quad_other by exact N. destruct (Z p N) as (-> & -> & -> & ->). repeat split; lia. }
    assert (ZL : forall p, p <> n -> count (EvLoaded p) [EvLoaded n] = 0 /\ count (EvLoadFailed p) [EvLoaded n] = 0 /\
                       count (EvUnloaded p) [EvLoaded n] = 0 /\ count (EvRuntimeError p) [EvLoaded n] = 0).
    { intros p N. rewrite !count_one. cbn [ev_eqb]. apply bytes_eqb_false in N. rewrite N. auto. }
    assert (ZF : forall p, p <> n -> count (EvLoaded p) [EvLoadFailed n] = 0 /\ count (EvLoadFailed p) [EvLoadFailed n] = 0 /\
                       count (EvUnloaded p) [EvLoadFailed n] = 0 /\ count (EvRuntimeError p) [EvLoadFailed n] = 0).
    { intros p N. rewrite !count_one. cbn [ev_eqb]. apply bytes_eqb_false in N. rewrite N. auto. }
    destruct (compile n src) as [ds|].
    + destruct (alloc_objs (ps_heap (getp n st)) ds) as [h1 objs0].
      destruct (register c1 (st_index st) h1 n _) as [[idx h2] [|]]; injection LR as <- <-.
      * split; [cbn [st_lines]; rewrite count_one; cbn [ev_eqb]; lia|]. intros p.
        destruct (bytes_eqb p n) eqn:E.
        -- apply bytes_eqb_spec in E. subst p. rewrite getp_bupdate_same. cbn [ps_loads ps_errs ps_unloads ps_rterrs].
           rewrite !count_one. cbn [ev_eqb]. rewrite bytes_eqb_refl. repeat split; lia.
        -- apply bytes_eqb_false in E. exact (OTHER idx _ _ ZL p E).
      * split; [cbn [st_lines]; rewrite count_one; cbn [ev_eqb]; lia|]. intros p.
        destruct (bytes_eqb p n) eqn:E.
        -- apply bytes_eqb_spec in E. subst p. rewrite getp_bupdate_same. cbn [ps_loads ps_errs ps_unloads ps_rterrs].
           rewrite !count_one. cbn [ev_eqb]. rewrite bytes_eqb_refl. repeat split; lia.
        -- apply bytes_eqb_false in E. exact (OTHER idx _ _ ZF p E).
    + injection LR as <- <-. unfold setp.
      split; [cbn [st_lines]; rewrite count_one; cbn [ev_eqb]; lia|]. intros p.
      destruct (bytes_eqb p n) eqn:E.
      * apply bytes_eqb_spec in E. subst p. rewrite getp_bupdate_same. unfold with_errs. cbn [ps_loads ps_errs ps_unloads ps_rterrs].
        rewrite !count_one. cbn [ev_eqb]. rewrite bytes_eqb_refl. repeat split; lia.
      * apply bytes_eqb_false in E. exact (OTHER (st_index st) _ _ ZF p E).
  - (* unload *)
    split; [|apply unload_nodup; exact PN].
    unfold unload. destruct (ps_handle (getp n st)).
    + unfold setp. split; [cbn [st_lines]; rewrite count_one; cbn [ev_eqb]; lia|]. intros p.
      destruct (bytes_eqb p n) eqn:E.
      * apply bytes_eqb_spec in E. subst p. rewrite getp_bupdate_same. cbn [ps_loads ps_errs ps_unloads ps_rterrs].
        rewrite !count_one. cbn [ev_eqb]. rewrite bytes_eqb_refl. repeat split; lia.
      * apply bytes_eqb_false in E. rewrite quad_other by exact E. rewrite !count_one. cbn [ev_eqb].
        apply bytes_eqb_false in E. rewrite E. repeat split; lia.
    + split; [rewrite count_nil; lia|]. intros p. rewrite !count_nil. repeat split; lia.
  - (* line *)
    split; [|apply line_nodup; exact PN].
    split.
    + cbn [line st_lines]. change (EvLine :: ?x) with ([EvLine] ++ x). rewrite count_app, count_one. cbn [ev_eqb].
      rewrite count_other_map by reflexivity. lia.
    + intros p. rewrite getp_line.
      change (EvLine :: ?x) with ([EvLine] ++ x). rewrite !count_app, !count_one. cbn [ev_eqb].
      rewrite !count_other_map by reflexivity. rewrite count_rt_map, filter_eqb_filter.
      unfold raises, line_prog.
      destruct (ps_handle (getp p st)) as [hd|] eqn:H.
      * destruct (exec_effects _ _ _ _) as [h1 err]. cbn [snd ps_loads ps_errs ps_unloads ps_rterrs].
        destruct err.
        -- rewrite (filter_eqb_nodup p _ PN).
           destruct (existsb (bytes_eqb p) (map fst (st_progs st))) eqn:X.
           ++ repeat split; lia.
           ++ rewrite (exists_keys st p X) in H. discriminate.
        -- cbn [length]. repeat split; lia.
      * cbn [length]. repeat split; lia.
  - (* gc *)
    split.
    + split; [cbn [gc st_lines]; rewrite count_nil; lia|]. intros p. rewrite (getp_gc P) || idtac.
      rewrite !count_nil. unfold getp, gc. cbn [st_progs].
      rewrite (blookup_map_keyed (fun q x => gc_prog (st_index st) el q x)).
      destruct (blookup p (st_progs st)); cbn [option_map gc_prog ps_loads ps_errs ps_unloads ps_rterrs ps_empty];
        repeat split; lia.
    + unfold progs_nodup, gc. cbn [st_progs]. rewrite map_map. cbn [fst]. exact PN.
Qed.

Theorem counters_exact_from : forall ops st, progs_nodup st ->
  exact_step st (run_from st ops) (events st ops).
Proof.
  unfold Loader.run_from.
  induction ops as [|o r IH]; intros st PN; cbn [fold_left Counters.events].
  - split; [rewrite count_nil; lia|]. intros p. rewrite !count_nil. repeat split; lia.
  - destruct (step_exact st o PN) as ((L1 & C1) & PN1).
    destruct (IH _ PN1) as (L2 & C2).
    split; [rewrite count_app; lia|]. intros p.
    destruct (C1 p) as (a1 & a2 & a3 & a4). destruct (C2 p) as (b1 & b2 & b3 & b4).
    rewrite !count_app. repeat split; lia.
Qed.

Theorem counters_exact ops :
  let st := run_from st_empty ops in
  let evs := events st_empty ops in
  st_lines st = count EvLine evs /\
  forall p,
    ps_loads (getp p st) = count (EvLoaded p) evs /\
    ps_errs (getp p st) = count (EvLoadFailed p) evs /\
    ps_unloads (getp p st) = count (EvUnloaded p) evs /\
    ps_rterrs (getp p st) = count (EvRuntimeError p) evs.
Proof.
  cbn zeta. destruct (counters_exact_from ops st_empty) as (L & C); [constructor|].
  split; [exact L|]. intros p. destruct (C p) as (a & b & c & d). repeat split; assumption.
Qed.
End Counters.
