(* C20 (structure) - soundness of the automaton checker of Export/SeqIR.v, what
   the reload and VM automata say about the order of events, and the joint
   theorem: no line is processed by the previous VM after CompileAndRun has
   started its successor. *)
From Coq Require Import List NArith Bool Lia.
Import ListNotations.
From V Require Import Export.SeqIR.

Scheme qrun_stmt_mind := Minimality for qrun_stmt Sort Prop
  with qrun_block_mind := Minimality for qrun_block Sort Prop.
Combined Scheme qrun_mutind from qrun_stmt_mind, qrun_block_mind.

Section EngineSound.
Variable Q : Type.
Variable qeqb : Q -> Q -> bool.
Hypothesis qeqb_eq : forall a b, qeqb a b = true <-> a = b.
Variable delta : Q -> rev -> option Q.
Variable invs : N -> list Q.

Lemma arun_app q t1 t2 :
  arun Q delta q (t1 ++ t2) = match arun Q delta q t1 with Some q1 => arun Q delta q1 t2 | None => None end.
Proof.
  revert q. induction t1 as [|c r IH]; intros q; simpl; [reflexivity|].
  destruct (delta q c); [apply IH|reflexivity].
Qed.

Lemma qmem_In q X : qmem Q qeqb q X = true <-> In q X.
Proof.
  unfold qmem. rewrite existsb_exists. split.
  - intros (x & Hx & E). apply qeqb_eq in E. subst. exact Hx.
  - intros H. exists q. split; [exact H|]. apply qeqb_eq. reflexivity.
Qed.

Lemma qsubset_In A B q : qsubset Q qeqb A B = true -> In q A -> In q B.
Proof.
  unfold qsubset. rewrite forallb_forall. intros S H. apply qmem_In. apply S. exact H.
Qed.

Lemma qsubset_refl A : qsubset Q qeqb A A = true.
Proof. unfold qsubset. apply forallb_forall. intros q H. apply qmem_In. exact H. Qed.

Lemma stepset_In X c : forall X' q, stepset Q delta X c = Some X' -> In q X ->
  exists q', delta q c = Some q' /\ In q' X'.
Proof.
  induction X as [|a r IH]; intros X' q S H; [destruct H|].
  simpl in S. destruct (delta a c) as [a'|] eqn:Ea; [|discriminate].
  destruct (stepset Q delta r c) as [r'|] eqn:Er; [|discriminate].
  inversion S; subst. destruct H as [->|H].
  - exists a'. split; [exact Ea|left; reflexivity].
  - destruct (IH r' q eq_refl H) as (q' & E & I). exists q'. split; [exact E|right; exact I].
Qed.

Lemma ounion_l a y q : In q a -> exists c, ounion Q (Some a) y = Some c /\ In q c.
Proof. intros H. destruct y as [b|]; simpl; eexists; split; eauto. apply in_or_app; auto. Qed.
Lemma ounion_r x b q : In q b -> exists c, ounion Q x (Some b) = Some c /\ In q c.
Proof. intros H. destruct x as [a|]; simpl; eexists; split; eauto. apply in_or_app; auto. Qed.

Notation ck_stmt := (qcheck_stmt Q qeqb delta invs).
Notation ck_block := (qcheck_block Q qeqb delta invs).

Lemma ck_ev_eq c site X :
  ck_stmt (QEv c site) X =
  match stepset Q delta X c with Some X' => ([], Some X') | None => ([site], Some []) end.
Proof. reflexivity. Qed.

Lemma ck_if_eq t e X :
  ck_stmt (QIf t e) X = (fst (ck_block t X) ++ fst (ck_block e X), ounion Q (snd (ck_block t X)) (snd (ck_block e X))).
Proof. reflexivity. Qed.

Lemma ck_loop_eq body site X :
  ck_stmt (QLoop body site) X =
  ((if qsubset Q qeqb X (invs site) then [] else [site]) ++
   (match snd (ck_block body (invs site)) with
    | Some H' => if qsubset Q qeqb H' (invs site) then [] else [site] | None => [] end) ++
   fst (ck_block body (invs site)), Some (invs site)).
Proof. reflexivity. Qed.

Lemma ck_cons_eq s r X :
  ck_block (QCons s r) X =
  match snd (ck_stmt s X) with
  | None => ck_stmt s X
  | Some X1 => (fst (ck_stmt s X) ++ fst (ck_block r X1), snd (ck_block r X1))
  end.
Proof. reflexivity. Qed.

Lemma qsound_mut :
  (forall s tr f, qrun_stmt s tr f ->
     forall X q, fst (ck_stmt s X) = [] -> In q X ->
       exists q', arun Q delta q tr = Some q' /\
                  (f = QFall -> exists X', snd (ck_stmt s X) = Some X' /\ In q' X')) /\
  (forall b tr f, qrun_block b tr f ->
     forall X q, fst (ck_block b X) = [] -> In q X ->
       exists q', arun Q delta q tr = Some q' /\
                  (f = QFall -> exists X', snd (ck_block b X) = Some X' /\ In q' X')).
Proof.
  apply qrun_mutind.
  - (* event *) intros c site X q V Hq. rewrite ck_ev_eq in *.
    destruct (stepset Q delta X c) as [X'|] eqn:Es; [|discriminate].
    destruct (stepset_In _ _ _ _ Es Hq) as (q' & E & I).
    exists q'. simpl. rewrite E. split; [reflexivity|]. intros _. simpl. eauto.
  - (* if then *) intros t e tr f _ IH X q V Hq. rewrite ck_if_eq in *. simpl in V.
    apply app_eq_nil in V. destruct V as [Vx Vy].
    destruct (IH X q Vx Hq) as (q' & A & P). exists q'. split; [exact A|]. intros F.
    destruct (P F) as (X' & E & I). simpl. rewrite E. apply ounion_l. exact I.
  - (* if else *) intros t e tr f _ IH X q V Hq. rewrite ck_if_eq in *. simpl in V.
    apply app_eq_nil in V. destruct V as [Vx Vy].
    destruct (IH X q Vy Hq) as (q' & A & P). exists q'. split; [exact A|]. intros F.
    destruct (P F) as (X' & E & I). simpl. rewrite E. apply ounion_r. exact I.
  - (* loop done *) intros body site X q V Hq. rewrite ck_loop_eq in *. cbn [fst snd] in V.
    apply app_eq_nil in V. destruct V as [V1 _].
    destruct (qsubset Q qeqb X (invs site)) eqn:S; [|discriminate].
    exists q. split; [reflexivity|]. intros _. simpl. eexists. split; [reflexivity|].
    eapply qsubset_In; eauto.
  - (* loop iter *) intros body site t1 t2 f _ IHb _ IHl X q V Hq.
    pose proof V as V0. rewrite ck_loop_eq in V. cbn [fst snd] in V.
    apply app_eq_nil in V. destruct V as [V1 V]. apply app_eq_nil in V. destruct V as [V2 V3].
    destruct (qsubset Q qeqb X (invs site)) eqn:S; [|discriminate].
    assert (HqH : In q (invs site)) by (eapply qsubset_In; eauto).
    destruct (IHb (invs site) q V3 HqH) as (q1 & A1 & P1).
    destruct (P1 eq_refl) as (H' & E' & I').
    rewrite E' in V2. destruct (qsubset Q qeqb H' (invs site)) eqn:S2; [|discriminate].
    assert (Hq1 : In q1 (invs site)) by (eapply qsubset_In; eauto).
    assert (VH : fst (ck_stmt (QLoop body site) (invs site)) = []).
    { rewrite ck_loop_eq. simpl. rewrite qsubset_refl, E', S2, V3. reflexivity. }
    destruct (IHl (invs site) q1 VH Hq1) as (q2 & A2 & P2).
    exists q2. split; [rewrite arun_app, A1; exact A2|].
    intros F. destruct (P2 F) as (X' & E & I). rewrite ck_loop_eq in E |- *. simpl in *. eauto.
  - (* loop ret *) intros body site t1 _ IHb X q V Hq.
    rewrite ck_loop_eq in V. cbn [fst snd] in V.
    apply app_eq_nil in V. destruct V as [V1 V]. apply app_eq_nil in V. destruct V as [V2 V3].
    destruct (qsubset Q qeqb X (invs site)) eqn:S; [|discriminate].
    assert (HqH : In q (invs site)) by (eapply qsubset_In; eauto).
    destruct (IHb (invs site) q V3 HqH) as (q1 & A1 & _).
    exists q1. split; [exact A1|discriminate].
  - (* return *) intros X q _ Hq. exists q. split; [reflexivity|discriminate].
  - (* unknown *) intros site tr f X q V Hq. simpl in V. discriminate.
  - (* nil *) intros X q _ Hq. exists q. split; [reflexivity|]. intros _. simpl. eauto.
  - (* cons fall *) intros s b t1 t2 f _ IHs _ IHb X q V Hq. rewrite ck_cons_eq in *.
    destruct (snd (ck_stmt s X)) as [X1|] eqn:Ef.
    + simpl in V. apply app_eq_nil in V. destruct V as [Vx Vy].
      destruct (IHs X q Vx Hq) as (q1 & A1 & P1). destruct (P1 eq_refl) as (X1' & E1 & I1).
      rewrite Ef in E1. inversion E1; subst X1'.
      destruct (IHb X1 q1 Vy I1) as (q2 & A2 & P2).
      exists q2. split; [rewrite arun_app, A1; exact A2|]. intros F. simpl. exact (P2 F).
    + destruct (IHs X q V Hq) as (q1 & _ & P1). destruct (P1 eq_refl) as (X1' & E1 & _).
      rewrite Ef in E1. discriminate.
  - (* cons ret *) intros s b t1 _ IHs X q V Hq. rewrite ck_cons_eq in *.
    destruct (snd (ck_stmt s X)) as [X1|] eqn:Ef.
    + simpl in V. apply app_eq_nil in V. destruct V as [Vx Vy].
      destruct (IHs X q Vx Hq) as (q1 & A1 & _). exists q1. split; [exact A1|discriminate].
    + destruct (IHs X q V Hq) as (q1 & A1 & _). exists q1. split; [exact A1|discriminate].
Qed.

(* if the checker reports nothing, the automaton accepts every trace of the IR *)
Theorem qcheck_sound b q0 :
  qviolations Q qeqb delta invs b q0 = [] ->
  forall tr f, qrun_block b tr f -> exists q', arun Q delta q0 tr = Some q'.
Proof.
  intros V tr f Hr.
  destruct (proj2 qsound_mut _ _ _ Hr [q0] q0 V (or_introl eq_refl)) as (q' & A & _). eauto.
Qed.

End EngineSound.

(* ---------- equality tests ---------- *)
Lemma lk_eqb_eq a b : lk_eqb a b = true <-> a = b.
Proof. destruct a, b; simpl; split; congruence. Qed.
Lemma od_eqb_eq a b : od_eqb a b = true <-> a = b.
Proof. destruct a, b; simpl; split; congruence. Qed.
Lemma vq_eqb_eq a b : vq_eqb a b = true <-> a = b.
Proof. destruct a, b; simpl; split; congruence. Qed.
Lemma rq_eqb_eq a b : rq_eqb a b = true <-> a = b.
Proof.
  destruct a as [l o], b as [l' o']. unfold rq_eqb. simpl. rewrite andb_true_iff, lk_eqb_eq, od_eqb_eq.
  split; [intros [-> ->]; reflexivity|intros H; inversion H; auto].
Qed.
Lemma lq_eqb_eq a b : lq_eqb a b = true <-> a = b.
Proof.
  destruct a as [l o], b as [l' o']. unfold lq_eqb. simpl. rewrite andb_true_iff, lk_eqb_eq, Bool.eqb_true_iff.
  split; [intros [-> ->]; reflexivity|intros H; inversion H; auto].
Qed.

(* ---------- what the reload automaton says ---------- *)
(* once old.lines is closed and until old.done is received, no ms.Add, no
   startVM, no unlock is accepted *)
Lemma reload_stays_closed : forall t q q',
  rq_ord q = O1 -> ~ In RecvDone t -> arun rq d_reload q t = Some q' ->
  rq_ord q' = O1 /\ ~ In CallStartVM t /\ ~ In CallAdd t.
Proof.
  induction t as [|c r IH]; intros q q' Ho Hn A; simpl in A.
  - inversion A; subst. auto.
  - destruct (d_reload q c) as [q1|] eqn:Ed; [|discriminate].
    assert (Hc : c <> RecvDone) by (intros ->; apply Hn; left; reflexivity).
    assert (Hr : ~ In RecvDone r) by (intros H; apply Hn; right; exact H).
    assert (Ho1 : rq_ord q1 = O1 /\ c <> CallStartVM /\ c <> CallAdd).
    { unfold d_reload in Ed. destruct (lock_step (rq_lock q) c) as [l'|]; [|discriminate].
      rewrite Ho in Ed. destruct c; try discriminate; try congruence;
        inversion Ed; subst; simpl; repeat split; congruence. }
    destruct Ho1 as (Ho1 & Hs & Ha).
    destruct (IH q1 q' Ho1 Hr A) as (E & N1 & N2).
    split; [exact E|]. split; intros [H|H]; auto; congruence.
Qed.

Theorem reload_waits_before_start : forall t1 t2 t3 q0 q',
  arun rq d_reload q0 (t1 ++ CloseLines :: t2 ++ CallStartVM :: t3) = Some q' -> In RecvDone t2.
Proof.
  intros t1 t2 t3 q0 q' A.
  rewrite arun_app in A. destruct (arun rq d_reload q0 t1) as [q1|]; [|discriminate].
  simpl in A. destruct (d_reload q1 CloseLines) as [q2|] eqn:Ec; [|discriminate].
  assert (Ho : rq_ord q2 = O1).
  { unfold d_reload in Ec. destruct (lock_step (rq_lock q1) CloseLines); [|discriminate].
    destruct (rq_ord q1); inversion Ec; reflexivity. }
  rewrite arun_app in A. destruct (arun rq d_reload q2 t2) as [q3|] eqn:E2; [|discriminate].
  destruct (in_dec (fun a b : rev => ltac:(decide equality) : {a = b} + {a <> b}) RecvDone t2) as [Hi|Hn];
    [exact Hi|exfalso].
  destruct (reload_stays_closed t2 q2 q3 Ho Hn E2) as (Ho3 & _).
  simpl in A. unfold d_reload in A. destruct (lock_step (rq_lock q3) CallStartVM); [|discriminate].
  rewrite Ho3 in A. discriminate.
Qed.

(* the same for ms.Add *)
Theorem reload_waits_before_add : forall t1 t2 t3 q0 q',
  arun rq d_reload q0 (t1 ++ CloseLines :: t2 ++ CallAdd :: t3) = Some q' -> In RecvDone t2.
Proof.
  intros t1 t2 t3 q0 q' A.
  rewrite arun_app in A. destruct (arun rq d_reload q0 t1) as [q1|]; [|discriminate].
  simpl in A. destruct (d_reload q1 CloseLines) as [q2|] eqn:Ec; [|discriminate].
  assert (Ho : rq_ord q2 = O1).
  { unfold d_reload in Ec. destruct (lock_step (rq_lock q1) CloseLines); [|discriminate].
    destruct (rq_ord q1); inversion Ec; reflexivity. }
  rewrite arun_app in A. destruct (arun rq d_reload q2 t2) as [q3|] eqn:E2; [|discriminate].
  destruct (in_dec (fun a b : rev => ltac:(decide equality) : {a = b} + {a <> b}) RecvDone t2) as [Hi|Hn];
    [exact Hi|exfalso].
  destruct (reload_stays_closed t2 q2 q3 Ho Hn E2) as (Ho3 & _).
  simpl in A. unfold d_reload in A. destruct (lock_step (rq_lock q3) CallAdd); [|discriminate].
  rewrite Ho3 in A. discriminate.
Qed.

(* ---------- what the VM automaton says ---------- *)
Lemma vm_after_done : forall t q q', q = V4 -> arun vq d_vm q t = Some q' -> q' = V4 /\ ~ In VmProcess t.
Proof.
  induction t as [|c r IH]; intros q q' -> A; simpl in A.
  - inversion A. auto.
  - destruct (d_vm V4 c) as [q1|] eqn:Ed; [|discriminate].
    assert (q1 = V4 /\ c <> VmProcess) as [-> Hc] by (destruct c; simpl in Ed; inversion Ed; split; congruence).
    destruct (IH V4 q' eq_refl A) as [E N1]. split; [exact E|]. intros [H|H]; auto.
Qed.

Theorem vm_no_process_after_done : forall t1 t2 q0 q',
  arun vq d_vm q0 (t1 ++ CloseDone :: t2) = Some q' -> ~ In VmProcess t2.
Proof.
  intros t1 t2 q0 q' A.
  rewrite arun_app in A. destruct (arun vq d_vm q0 t1) as [q1|]; [|discriminate].
  simpl in A. destruct q1; simpl in A; try discriminate.
  exact (proj2 (vm_after_done t2 V4 q' eq_refl A)).
Qed.

(* ---------- the reloader and the previous VM together ---------- *)
Lemma proj_app b s1 s2 : proj b (s1 ++ s2) = proj b s1 ++ proj b s2.
Proof. unfold proj. rewrite filter_app, map_app. reflexivity. Qed.

Lemma proj_In b c s : In c (proj b s) <-> In (b, c) s.
Proof.
  unfold proj. rewrite in_map_iff. split.
  - intros ([b' c'] & E & H). simpl in E. subst c'. apply filter_In in H. destruct H as [H Hb].
    simpl in Hb. apply Bool.eqb_prop in Hb. subst. exact H.
  - intros H. exists (b, c). split; [reflexivity|]. apply filter_In. split; [exact H|].
    simpl. apply Bool.eqb_reflx.
Qed.

(* In every joint schedule in which CompileAndRun's events are accepted by the
   reload automaton, the old VM goroutine's events by the VM automaton, and a
   receive from `done` follows its close: once CompileAndRun has closed the old
   channel and then called startVM, the old VM processes nothing any more. *)
Theorem old_vm_idle_at_install : forall s qr qv,
  arun rq d_reload (mkRQ L0 O0) (proj true s) = Some qr ->
  arun vq d_vm V0 (proj false s) = Some qv ->
  done_rule s ->
  forall s1 s2 s3, s = s1 ++ (true, CloseLines) :: s2 ++ (true, CallStartVM) :: s3 ->
  ~ In (false, VmProcess) s3.
Proof.
  intros s qr qv Ar Av Hd s1 s2 s3 E Hp.
  (* the reloader waited inside s2 *)
  assert (Hw : In RecvDone (proj true s2)).
  { subst s. rewrite proj_app in Ar. simpl in Ar.
    change ((true, CloseLines) :: s2 ++ (true, CallStartVM) :: s3)
      with ([(true, CloseLines)] ++ s2 ++ [(true, CallStartVM)] ++ s3) in Ar.
    rewrite !proj_app in Ar. simpl in Ar.
    eapply reload_waits_before_start. exact Ar. }
  apply proj_In in Hw. apply in_split in Hw. destruct Hw as (a & b & ->).
  assert (Eq1 : s = (s1 ++ (true, CloseLines) :: a) ++ (true, RecvDone) :: (b ++ (true, CallStartVM) :: s3)).
  { rewrite E. repeat (rewrite <- app_assoc || rewrite <- app_comm_cons). reflexivity. }
  (* so done was closed before *)
  pose proof (Hd _ _ Eq1) as Hc.
  apply in_split in Hc. destruct Hc as (u & w & Eu).
  (* and the VM processes nothing after closing done *)
  rewrite Eu in Eq1. rewrite <- app_assoc in Eq1. rewrite <- app_comm_cons in Eq1.
  rewrite Eq1 in Av. rewrite proj_app in Av. simpl in Av.
  apply vm_no_process_after_done in Av. apply Av.
  apply proj_In. apply in_or_app. right. right. apply in_or_app. right. right. exact Hp.
Qed.

(* witnesses *)
Lemma old_shape_refused :
  exists tr, qrun_block compile_and_run_old tr QRet /\ arun rq d_reload (mkRQ L0 O0) tr = None.
Proof.
  exists ([AcqW] ++ [ReadHandles] ++ [CloseLines] ++ ([CallAdd] ++ []) ++ [CallStartVM] ++ [RelW] ++ []).
  split; [|reflexivity].
  unfold compile_and_run_old. cbn [qblock_of].
  eapply Q_cons_fall; [apply Q_ev|]. eapply Q_cons_fall; [apply Q_ev|].
  eapply Q_cons_fall; [apply Q_if_t; change [CloseLines] with ([CloseLines] ++ []);
                       eapply Q_cons_fall; [apply Q_ev|apply Q_nil]|].
  eapply Q_cons_fall.
  { eapply Q_loop_iter; [|apply Q_loop_done]. change [CallAdd] with ([CallAdd] ++ []).
    eapply Q_cons_fall; [apply Q_ev|apply Q_nil]. }
  eapply Q_cons_fall; [apply Q_ev|]. eapply Q_cons_fall; [apply Q_ev|].
  apply Q_cons_ret. apply Q_return.
Qed.

(* ---------- link to the event model Run/Reload.v ---------- *)
From V Require Import Run.Reload.
Local Open Scope N_scope.

(* program 0, old version 1: the install of the successor is the model's
   `Reload 0`, a line finished by the previous VM is `Process 0 1` *)
Definition image (x : bool * SeqIR.rev) : list event :=
  match x with
  | (true, CallStartVM) => [Reload 0]
  | (false, VmProcess) => [Process 0 1]
  | _ => []
  end.
Definition images (s : list (bool * SeqIR.rev)) : list event := flat_map image s.

Lemma images_process s : In (Process 0 1) (images s) -> In (false, VmProcess) s.
Proof.
  induction s as [|[b c] r IH]; simpl; [tauto|].
  intros H. apply in_app_or in H. destruct H as [H|H]; [|right; exact (IH H)].
  left. destruct b, c; simpl in H; try tauto; destruct H as [H|[]]; try discriminate; reflexivity.
Qed.

(* the order of the model events in C20_order_refuted - Reload 0 and later
   Process 0 1 (the old version finishing a line) - is not the image of any
   joint schedule of a CompileAndRun and an old-VM goroutine whose IRs the
   automata accept *)
Theorem refuting_order_excluded : forall s qr qv,
  arun rq d_reload (mkRQ L0 O0) (proj true s) = Some qr ->
  arun vq d_vm V0 (proj false s) = Some qv ->
  done_rule s ->
  forall s1 s2 s3, s = s1 ++ (true, CloseLines) :: s2 ++ (true, CallStartVM) :: s3 ->
  images ((true, CallStartVM) :: s3) = Reload 0 :: images s3 /\
  ~ In (Process 0 1) (images s3).
Proof.
  intros s qr qv Ar Av Hd s1 s2 s3 E. split; [reflexivity|].
  intros H. apply images_process in H.
  exact (old_vm_idle_at_install s qr qv Ar Av Hd s1 s2 s3 E H).
Qed.
