(* Simulation of the reference semantics by the VM model on compiled code
   (CompCert's IMP-compiler pattern): [at_pc] says where a code fragment sits in
   the program, [nsteps] runs exactly n fetch-execute cycles. *)
From V Require Import Lang.RefSem Lang.Codegen Lang.Vm.
From Coq Require Import Lia.
Local Open Scope Z_scope.

Section Sim.
Variable E : env.
Variable o : object.
Variable ll : logline.

Notation step := (Vm.step E o ll).
Notation run := (Vm.run E o).

Fixpoint nsteps (n : nat) (t : thread) (s : vmstate) : option (thread * vmstate) :=
  match n with
  | O => Some (t, s)
  | S n' => match step t s with
            | SNext t' s' => nsteps n' t' s'
            | SEnd _ _ => None
            end
  end.

Lemma nsteps_app n m t s t1 s1 :
  nsteps n t s = Some (t1, s1) -> nsteps (n + m) t s = nsteps m t1 s1.
Proof.
  revert t s; induction n as [|n IH]; intros t s H; cbn [nsteps Nat.add] in *.
  - inversion H; reflexivity.
  - destruct (step t s); [apply IH; exact H | discriminate].
Qed.

Lemma run_nsteps n k t s t1 s1 :
  nsteps n t s = Some (t1, s1) -> run (n + k) ll t s = run k ll t1 s1.
Proof.
  revert t s; induction n as [|n IH]; intros t s H; cbn [nsteps Nat.add Vm.run] in *.
  - inversion H; reflexivity.
  - destruct (step t s); [apply IH; exact H | discriminate].
Qed.

(* A runtime error aborts only the remainder of the line and keeps the effects
   already made: the state returned with [Err] is the state reached by the
   instructions that were executed completely, as changed by the failing one
   only where vm.go itself does so before calling errorf. *)
Lemma run_err_prefix : forall fuel t s e s',
  run fuel ll t s = (Err e, s') ->
  exists n t1 s1, nsteps n t s = Some (t1, s1) /\ step t1 s1 = SEnd (Err e) s'.
Proof.
  induction fuel as [|f IH]; intros t s e s' H; cbn [Vm.run] in H; [discriminate|].
  destruct (step t s) as [t' s''|oc s''] eqn:Hs.
  - destruct (IH _ _ _ _ H) as (n & t1 & s1 & Hn & Hst).
    exists (S n), t1, s1. cbn [nsteps]. rewrite Hs. auto.
  - inversion H; subst. exists O, t, s. cbn [nsteps]. auto.
Qed.

(* the failing instruction itself leaves the state alone whenever exec reports
   the error through [Er] (every checked condition except the historical XErr) *)
Lemma step_er_keeps : forall t s i e,
  nth_error (o_prog o) (t_pc t) = Some i ->
  exec E o ll i (with_pc t (S (t_pc t))) s = Er e ->
  step t s = SEnd (Err e) s.
Proof. intros t s i e Hf Hx. unfold Vm.step. rewrite Hf, Hx. reflexivity. Qed.

(* ---- code placement ---- *)

Definition at_pc (pc : nat) (code : list instr) : Prop :=
  forall k i, nth_error code k = Some i -> nth_error (o_prog o) (pc + k) = Some i.

Lemma at_pc_app pc a b : at_pc pc (a ++ b) -> at_pc pc a /\ at_pc (pc + length a) b.
Proof.
  intros H; split; intros k i Hk.
  - apply H. rewrite nth_error_app1; [exact Hk|]. apply nth_error_Some. congruence.
  - replace (pc + length a + k)%nat with (pc + (length a + k))%nat by lia.
    apply H. rewrite nth_error_app2 by lia. replace (length a + k - length a)%nat with k by lia. exact Hk.
Qed.

Lemma at_pc_head pc i r : at_pc pc (i :: r) -> nth_error (o_prog o) pc = Some i.
Proof. intros H. specialize (H O i eq_refl). rewrite Nat.add_0_r in H. exact H. Qed.

Lemma at_pc_tail pc i r : at_pc pc (i :: r) -> at_pc (S pc) r.
Proof. intros H k j Hk. specialize (H (S k) j Hk). rewrite Nat.add_succ_r in H. exact H. Qed.

(* one instruction that falls through *)
Lemma step_next pc stk mt ms tm s i t' s' :
  nth_error (o_prog o) pc = Some i ->
  exec E o ll i (mkthread (S pc) stk mt ms tm) s = Ok (XNext t' s') ->
  step (mkthread pc stk mt ms tm) s = SNext t' s'.
Proof. intros Hf Hx. unfold Vm.step. cbn [t_pc]. rewrite Hf. unfold with_pc. cbn. rewrite Hx. reflexivity. Qed.

Lemma step_err pc stk mt ms tm s i e :
  nth_error (o_prog o) pc = Some i ->
  exec E o ll i (mkthread (S pc) stk mt ms tm) s = Er e ->
  step (mkthread pc stk mt ms tm) s = SEnd (Err e) s.
Proof. intros Hf Hx. unfold Vm.step. cbn [t_pc]. rewrite Hf. unfold with_pc. cbn. rewrite Hx. reflexivity. Qed.

End Sim.
