(* The relation between the reference store (per metric a list of data) and the
   VM's store (a heap of datum cells + per metric a list of label-value records
   pointing into it), and the proof that every store operation preserves it. *)
From V Require Import Lang.RefSem Lang.Codegen Lang.Vm Lang.Observe Lang.Wt Proofs.C01Sim Proofs.C01Expr.
From Coq Require Import Lia Permutation.
Local Open Scope Z_scope.

Definition cell_of (d : rdatum) : dcell := mkdcell (dval_of (rd_val d)) (dtime_of (rd_time d)).

Definition lv_rel (h : list dcell) (lv : lvrec) (d : rdatum) : Prop :=
  lv_labels lv = rd_labels d /\ lv_expiry lv = rd_expiry d /\ nth_error h (lv_datum lv) = Some (cell_of d).

Definition points (st : store) (m : nat) (ks : tuple) (p : nat) : Prop :=
  exists lvs lv, nth_error (s_mets st) m = Some lvs /\ lv_find ks lvs = Some lv /\ lv_datum lv = p.

Definition ext (st st' : store) : Prop := forall m ks p, points st m ks p -> points st' m ks p.

Lemma ext_refl st : ext st st. Proof. intros m ks p H; exact H. Qed.
Lemma ext_trans a b c : ext a b -> ext b c -> ext a c.
Proof. intros H1 H2 m ks p H. apply H2, H1, H. Qed.

Definition memo_ok (E : env) (mm : memo) : Prop :=
  forall l v tm, In ((l, v), tm) mm -> time_parse E l v = Some tm.

Lemma memo_find_in k mm tm : memo_find k mm = Some tm -> In (k, tm) mm.
Proof.
  induction mm as [|[k' v] mm IH]; cbn; [discriminate|].
  destruct (mkey_eqb k k') eqn:Hk.
  - intros H; inversion H; subst. left. f_equal.
    unfold mkey_eqb in Hk. destruct k, k'. cbn in Hk. apply andb_prop in Hk as [H1 H2].
    apply bytes_eqb_spec in H1. apply bytes_eqb_spec in H2. subst. reflexivity.
  - intros H. right. auto.
Qed.
Lemma memo_del_incl k mm x : In x (memo_del k mm) -> In x mm.
Proof.
  induction mm as [|[k' v] mm IH]; cbn; [intros []|]. destruct (mkey_eqb k k').
  - intros H; right; exact H.
  - intros [<- | H]; [left; reflexivity | right; auto].
Qed.
Lemma in_removelast {A} (l : list A) x : In x (removelast l) -> In x l.
Proof.
  induction l as [|a l IH]; cbn; [intros []|]. destruct l; [intros []|].
  intros [<- | H]; [left; reflexivity | right; auto].
Qed.
Lemma memo_ok_get E k mm tm mm' : memo_ok E mm -> memo_get k mm = Some (tm, mm') ->
  time_parse E (fst k) (snd k) = Some tm /\ memo_ok E mm'.
Proof.
  unfold memo_get. intros Hok H. destruct (memo_find k mm) as [v|] eqn:Hf; [|discriminate].
  inversion H; subst. pose proof (memo_find_in _ _ _ Hf) as Hin. destruct k as [l x].
  split; [apply Hok; exact Hin|].
  intros l' v' tm' [He | Hin']; [inversion He; subst; apply Hok; exact Hin | apply Hok; eapply memo_del_incl; eauto].
Qed.
Lemma memo_ok_add E l x tm mm : memo_ok E mm -> time_parse E l x = Some tm -> memo_ok E (memo_add (l, x) tm mm).
Proof.
  intros Hok Hp. unfold memo_add.
  assert (H : memo_ok E (((l, x), tm) :: memo_del (l, x) mm)).
  { intros l' v' tm' [He | Hin]; [inversion He; subst; exact Hp | apply Hok; eapply memo_del_incl; eauto]. }
  destruct (Nat.ltb 64 (length (((l, x), tm) :: memo_del (l, x) mm))); [|exact H].
  intros l' v' tm' Hin. apply H. apply in_removelast. exact Hin.
Qed.

Section Store.
Variable decls : list mdecl.

Notation mty := (RefSem.mty decls).

Record srel (rst : rstore) (st : store) : Prop := mk_srel {
  sr_mets : Forall2 (Forall2 (lv_rel (s_heap st))) (s_mets st) rst;
  sr_len : length rst = length decls;
  sr_nodup : NoDup (map lv_datum (concat (s_mets st)));
  sr_typed : forall m d, In d (mdata rst m) -> vty (rd_val d) = mty m
}.

(* ---- list facts ---- *)
Lemma tuple_eqb_sym a b : tuple_eqb a b = tuple_eqb b a.
Proof.
  destruct (tuple_eqb a b) eqn:H1; destruct (tuple_eqb b a) eqn:H2; auto.
  - apply tuple_eqb_spec in H1. subst. rewrite (proj2 (tuple_eqb_spec b b) eq_refl) in H2. discriminate.
  - apply tuple_eqb_spec in H2. subst. rewrite (proj2 (tuple_eqb_spec a a) eq_refl) in H1. discriminate.
Qed.
Lemma tuple_eqb_refl a : tuple_eqb a a = true.
Proof. apply tuple_eqb_spec. reflexivity. Qed.

Lemma Forall2_len {A B} (R : A -> B -> Prop) l1 l2 : Forall2 R l1 l2 -> length l1 = length l2.
Proof. induction 1; cbn; auto. Qed.

Lemma Forall2_nth {A B} (R : A -> B -> Prop) l1 l2 n x :
  Forall2 R l1 l2 -> nth_error l1 n = Some x -> exists y, nth_error l2 n = Some y /\ R x y.
Proof.
  intros H. revert n. induction H; intros n Hn; [destruct n; discriminate|].
  destruct n; cbn in *; [inversion Hn; subst; eauto | apply IHForall2; exact Hn].
Qed.

Lemma Forall2_set {A B} (R : A -> B -> Prop) l1 l2 n x y :
  Forall2 R l1 l2 -> R x y -> Forall2 R (list_set l1 n x) (set_nth n y l2).
Proof.
  intros H Hxy. revert n. induction H; intros n; [destruct n; constructor|].
  destruct n; cbn; constructor; auto.
Qed.

Lemma Forall2_mono {A B} (R1 R2 : A -> B -> Prop) l1 l2 :
  (forall x y, In x l1 -> R1 x y -> R2 x y) -> Forall2 R1 l1 l2 -> Forall2 R2 l1 l2.
Proof.
  intros HR H. induction H; constructor.
  - apply HR; [left; reflexivity | assumption].
  - apply IHForall2. intros a b Hin. apply HR. right; exact Hin.
Qed.

Lemma nth_error_nth' {A} (l : list A) n d x : nth_error l n = Some x -> nth n l d = x.
Proof. revert n; induction l; intros [|n] H; cbn in *; try discriminate; [inversion H; auto | auto]. Qed.

Lemma set_nth_length {A} n (x : A) l : length (set_nth n x l) = length l.
Proof. revert n; induction l; intros [|n]; cbn; auto. Qed.

Lemma nth_set_nth_same {A} n (x d : A) l : (n < length l)%nat -> nth n (set_nth n x l) d = x.
Proof. revert n; induction l; intros [|n] H; cbn in *; try lia; auto. apply IHl. lia. Qed.
Lemma nth_set_nth_other {A} n m (x d : A) l : n <> m -> nth m (set_nth n x l) d = nth m l d.
Proof. revert n m; induction l; intros [|n] [|m] H; cbn; auto; try congruence. Qed.

Lemma nth_error_list_set_same {A} (l : list A) n x : (n < length l)%nat -> nth_error (list_set l n x) n = Some x.
Proof. revert n; induction l; intros [|n] H; cbn in *; try lia; auto. apply IHl. lia. Qed.
Lemma nth_error_list_set_other {A} (l : list A) n m x : n <> m -> nth_error (list_set l n x) m = nth_error l m.
Proof. revert n m; induction l; intros [|n] [|m] H; cbn; auto; try congruence. Qed.

Lemma concat_list_set_perm {A} (l : list (list A)) n lvs x :
  nth_error l n = Some lvs ->
  Permutation (concat (list_set l n (lvs ++ [x]))) (x :: concat l).
Proof.
  revert n. induction l as [|a l IH]; intros [|n] H; cbn in *; try discriminate.
  - inversion H; subst. rewrite <- app_assoc. cbn.
    apply Permutation_sym. apply Permutation_middle.
  - specialize (IH n H).
    eapply Permutation_trans; [apply Permutation_app_head; exact IH|].
    apply Permutation_sym. apply Permutation_middle.
Qed.

(* ---- lookups on both sides ---- *)
Lemma find_rel h ks lvs ds :
  Forall2 (lv_rel h) lvs ds ->
  match lv_find ks lvs with
  | Some lv => exists d, find_datum ks ds = Some d /\ lv_rel h lv d /\ In d ds /\ In lv lvs
  | None => find_datum ks ds = None
  end.
Proof.
  intros H. induction H as [|lv d lvs ds Hr H IH]; [reflexivity|]. cbn.
  unfold lv_rel in Hr. destruct Hr as (Hl & He & Hn). rewrite <- Hl, tuple_eqb_sym.
  destruct (tuple_eqb (lv_labels lv) ks); cbv iota.
  - exists d. split; [reflexivity|]. split; [unfold lv_rel; auto|]. split; left; reflexivity.
  - destruct (lv_find ks lvs); [|exact IH].
    destruct IH as (d' & H1 & H2 & H3 & H4). exists d'. split; [exact H1|]. split; [exact H2|]. split; right; assumption.
Qed.

Lemma lv_find_app ks lvs x lv : lv_find ks lvs = Some lv -> lv_find ks (lvs ++ [x]) = Some lv.
Proof. induction lvs as [|a l IH]; cbn; [discriminate|]. destruct (tuple_eqb ks (lv_labels a)); auto. Qed.
Lemma lv_find_app_none ks lvs x :
  lv_find ks lvs = None -> lv_find ks (lvs ++ [x]) = (if tuple_eqb ks (lv_labels x) then Some x else None).
Proof. induction lvs as [|a l IH]; cbn; [reflexivity|]. destruct (tuple_eqb ks (lv_labels a)); [discriminate|auto]. Qed.

Lemma zero_cell_of t : t <> TBool ->
  zero_cell (mtype_of t) = mkdcell (dval_of (zero_of t)) TNow.
Proof. destruct t; try congruence; reflexivity. Qed.

Lemma srel_mets_len rst st : srel rst st -> length (s_mets st) = length decls.
Proof. intros [H Hl _ _]. rewrite <- Hl. eapply Forall2_len; eauto. Qed.

Lemma srel_ptr_lt rst st lv lvs m :
  srel rst st -> nth_error (s_mets st) m = Some lvs -> In lv lvs -> (lv_datum lv < length (s_heap st))%nat.
Proof.
  intros [H _ _ _] Hn Hin.
  destruct (Forall2_nth _ _ _ _ _ H Hn) as (ds & Hd & Hf).
  clear - Hf Hin. induction Hf; [destruct Hin|].
  destruct Hin as [<- | Hin]; [|auto]. unfold lv_rel in H. destruct H as (_ & _ & Hc). apply nth_error_Some. congruence.
Qed.

Variable o : object.
Hypothesis Hmets : o_metrics o = map mdesc_of decls.

Lemma metric_lookup m n : metric_ok decls m n = true ->
  exists d, nth_error decls (N.to_nat m) = Some d /\ N.to_nat (md_nkeys d) = n /\ md_ty d <> TBool /\
            nth_error (o_metrics o) (N.to_nat m) = Some (mdesc_of d) /\ mty m = md_ty d.
Proof.
  unfold metric_ok, RefSem.mty. intros H. destruct (nth_error decls (N.to_nat m)) as [d|] eqn:Hn; [|discriminate].
  apply andb_prop in H as [H1 H2]. apply Nat.eqb_eq in H1.
  exists d. repeat split; auto.
  - intros Hb. rewrite Hb in H2. discriminate.
  - rewrite Hmets. rewrite nth_error_map, Hn. reflexivity.
Qed.

Lemma mdata_nth rst st m lvs :
  srel rst st -> nth_error (s_mets st) m = Some lvs ->
  exists ds, nth_error rst m = Some ds /\ Forall2 (lv_rel (s_heap st)) lvs ds.
Proof. intros [H _ _ _] Hn. eapply Forall2_nth; eauto. Qed.

Lemma lv_rel_ext h c lv d : lv_rel h lv d -> lv_rel (h ++ [c]) lv d.
Proof.
  intros (H1 & H2 & H3). repeat split; auto. rewrite nth_error_app1; [exact H3|].
  apply nth_error_Some. congruence.
Qed.

Lemma get_datum_sim rst st m ks :
  srel rst st -> metric_ok decls m (length ks) = true ->
  exists p st', get_datum o st (N.to_nat m) ks = Ok (p, st') /\
    srel (snd (obtain decls m ks rst)) st' /\ ext st st' /\ points st' (N.to_nat m) ks p /\
    exists c, nth_error (s_heap st') p = Some c /\
              d_val c = dval_of (fst (obtain decls m ks rst)) /\
              vty (fst (obtain decls m ks rst)) = mty m.
Proof.
  intros Hs Hmok.
  destruct (metric_lookup _ _ Hmok) as (d & Hd & Hk & Hnb & Hmd & Hmt).
  assert (Hlt : (N.to_nat m < length (s_mets st))%nat).
  { rewrite (srel_mets_len _ _ Hs). apply nth_error_Some. congruence. }
  destruct (nth_error (s_mets st) (N.to_nat m)) as [lvs|] eqn:Hlvs; [|apply nth_error_None in Hlvs; lia].
  destruct (mdata_nth _ _ _ _ Hs Hlvs) as (ds & Hds & Hf).
  assert (Hmd' : mdata rst m = ds) by (unfold mdata; eapply nth_error_nth'; eauto).
  unfold get_datum, obtain. rewrite Hmd, Hlvs. cbn [md_arity md_type mdesc_of]. rewrite Hk, Nat.eqb_refl. cbn [negb].
  rewrite Hmd'. pose proof (find_rel (s_heap st) ks lvs ds Hf) as Hfr.
  destruct (lv_find ks lvs) as [lv|] eqn:Hfind.
  - destruct Hfr as (d0 & Hfd & Hr & Hin & Hinl). rewrite Hfd. cbn [fst snd].
    exists (lv_datum lv), st. split; [reflexivity|]. split; [exact Hs|]. split; [apply ext_refl|].
    split; [exists lvs, lv; auto|].
    destruct Hr as (_ & _ & Hc). exists (cell_of d0). split; [exact Hc|]. split; [reflexivity|].
    apply (sr_typed _ _ Hs m d0). rewrite Hmd'. exact Hin.
  - rewrite Hfr. cbn [fst snd].
    set (p := length (s_heap st)). set (v := zero_of (mty m)).
    exists p. eexists. split; [reflexivity|].
    assert (Hz : zero_cell (mtype_of (md_ty d)) = mkdcell (dval_of v) TNow).
    { unfold v. rewrite Hmt. apply zero_cell_of. exact Hnb. }
    split; [|split; [|split]].
    + (* the relation *)
      destruct Hs as [Hmets' Hlen Hnd Hty]. constructor; cbn [s_heap s_mets].
      * unfold set_mdata. apply Forall2_set.
        -- eapply Forall2_mono; [|exact Hmets']. intros x y _ Hxy.
           eapply Forall2_mono; [|exact Hxy]. intros lv dd _ H. apply lv_rel_ext. exact H.
        -- apply Forall2_app.
           ++ eapply Forall2_mono; [|exact Hf]. intros lv dd _ H. apply lv_rel_ext. exact H.
           ++ constructor; [|constructor]. repeat split.
              cbn [lv_datum]. rewrite nth_error_app2 by (unfold p; lia). replace (p - length (s_heap st))%nat with 0%nat by (unfold p; lia).
              cbn. rewrite Hz. reflexivity.
      * unfold set_mdata. rewrite set_nth_length. exact Hlen.
      * eapply Permutation_NoDup; [apply Permutation_sym, Permutation_map, (concat_list_set_perm _ _ _ _ Hlvs)|].
        cbn [map lv_datum]. constructor; [|exact Hnd].
        intros Hin. apply in_map_iff in Hin as (lv & Hp & Hin). apply in_concat in Hin as (l0 & Hl0 & Hin0).
        apply In_nth_error in Hl0 as (k & Hk0).
        assert (lv_datum lv < length (s_heap st))%nat.
        { eapply (srel_ptr_lt rst st lv l0 k); [constructor; eauto | exact Hk0 | exact Hin0]. }
        unfold p in Hp. lia.
      * intros m' d' Hin. unfold set_mdata, mdata in Hin.
        destruct (Nat.eq_dec (N.to_nat m) (N.to_nat m')) as [He|Hne].
        -- rewrite <- He in Hin. rewrite nth_set_nth_same in Hin by (rewrite Hlen; apply nth_error_Some; congruence).
           assert (m' = m) by lia. subst m'.
           apply in_app_or in Hin as [Hin | [<- | []]].
           ++ apply Hty. rewrite Hmd'. exact Hin.
           ++ cbn. unfold v. rewrite Hmt. destruct (md_ty d); cbn; congruence.
        -- rewrite nth_set_nth_other in Hin by exact Hne. apply Hty. exact Hin.
    + (* existing pointers are kept *)
      intros m' ks' p' (lvs' & lv' & Hn' & Hf' & Hp'). unfold points. cbn [s_mets].
      destruct (Nat.eq_dec (N.to_nat m) m') as [He|Hne].
      * subst m'. rewrite Hlvs in Hn'. inversion Hn'; subst lvs'.
        exists (lvs ++ [mklv ks p 0]), lv'. split; [apply nth_error_list_set_same; exact Hlt|].
        split; [apply lv_find_app; exact Hf' | exact Hp'].
      * exists lvs', lv'. split; [rewrite nth_error_list_set_other by exact Hne; exact Hn' | auto].
    + unfold points. cbn [s_mets]. exists (lvs ++ [mklv ks p 0]), (mklv ks p 0). split; [apply nth_error_list_set_same; exact Hlt|].
      split; [|reflexivity]. rewrite (lv_find_app_none _ _ _ Hfind). cbn [lv_labels]. rewrite tuple_eqb_refl. reflexivity.
    + exists (mkdcell (dval_of v) TNow). cbn [s_heap]. split.
      * rewrite nth_error_app2 by (unfold p; lia). replace (p - length (s_heap st))%nat with 0%nat by (unfold p; lia).
        cbn. rewrite Hz. reflexivity.
      * split; [reflexivity|]. unfold v. rewrite Hmt. destruct (md_ty d); cbn; congruence.
Qed.

(* ---- no aliasing: consequences of NoDup over all pointers ---- *)
Lemma nodup_app_disj {A} (l1 l2 : list A) x : NoDup (l1 ++ l2) -> In x l1 -> In x l2 -> False.
Proof.
  induction l1 as [|a l1 IH]; intros Hn H1 H2; [destruct H1|].
  cbn in Hn. apply NoDup_cons_iff in Hn as [Hna Hn]. destruct H1 as [-> | H1].
  - apply Hna. apply in_or_app. right. exact H2.
  - apply IH; auto.
Qed.

Lemma nodup_app_r {A} (l1 l2 : list A) : NoDup (l1 ++ l2) -> NoDup l2.
Proof. induction l1; cbn; intros H; [exact H|]. apply NoDup_cons_iff in H as [_ H]. auto. Qed.
Lemma nodup_app_l {A} (l1 l2 : list A) : NoDup (l1 ++ l2) -> NoDup l1.
Proof.
  induction l1; cbn; intros H; [constructor|]. apply NoDup_cons_iff in H as [Hn H].
  constructor; [|auto]. intros Hin. apply Hn. apply in_or_app. left. exact Hin.
Qed.

Lemma nodup_inner {A B} (f : A -> B) (l : list (list A)) i a :
  NoDup (map f (concat l)) -> nth_error l i = Some a -> NoDup (map f a).
Proof.
  revert i. induction l as [|a0 l IH]; intros [|i] Hn Hi; cbn in *; try discriminate.
  - inversion Hi; subst. rewrite map_app in Hn. eapply nodup_app_l; eauto.
  - rewrite map_app in Hn. eapply IH; [eapply nodup_app_r; eauto | exact Hi].
Qed.

Lemma in_concat_nth {A} (l : list (list A)) i a x : nth_error l i = Some a -> In x a -> In x (concat l).
Proof. intros Hi Hx. apply in_concat. exists a. split; [eapply nth_error_In; eauto | exact Hx]. Qed.

Lemma nodup_cross {A B} (f : A -> B) (l : list (list A)) i j a b x y :
  NoDup (map f (concat l)) -> nth_error l i = Some a -> nth_error l j = Some b -> i <> j ->
  In x a -> In y b -> f x <> f y.
Proof.
  revert i j. induction l as [|a0 l IH]; intros [|i] [|j] Hn Hi Hj Hne Hx Hy; cbn in *; try discriminate; try congruence.
  - inversion Hi; subst. rewrite map_app in Hn. intros He.
    eapply (nodup_app_disj _ _ (f x) Hn); [apply in_map; exact Hx|].
    rewrite He. apply in_map. eapply in_concat_nth; eauto.
  - inversion Hj; subst. rewrite map_app in Hn. intros He.
    eapply (nodup_app_disj _ _ (f y) Hn); [apply in_map; exact Hy|].
    rewrite <- He. apply in_map. eapply in_concat_nth; eauto.
  - rewrite map_app in Hn. eapply IH; [eapply nodup_app_r; eauto | exact Hi | exact Hj | congruence | exact Hx | exact Hy].
Qed.

Lemma lv_find_in ks lvs lv : lv_find ks lvs = Some lv -> In lv lvs.
Proof.
  induction lvs as [|a l IH]; cbn; [discriminate|]. destruct (tuple_eqb ks (lv_labels a)).
  - intros H; inversion H; subst. left; reflexivity.
  - intros H. right. auto.
Qed.

(* updating the cell of the first record with labels ks, within one metric *)
Lemma upd_rel h ks lvs ds lv c f :
  Forall2 (lv_rel h) lvs ds -> NoDup (map lv_datum lvs) -> lv_find ks lvs = Some lv ->
  (forall d, rd_labels (f d) = rd_labels d /\ rd_expiry (f d) = rd_expiry d) ->
  (forall d, find_datum ks ds = Some d -> c = cell_of (f d)) ->
  Forall2 (lv_rel (list_set h (lv_datum lv) c)) lvs (upd_datum ks f ds).
Proof.
  intros H. induction H as [|lv0 d0 lvs ds Hr H IH]; intros Hnd Hfind Hf Hc; [constructor|].
  cbn in *. apply NoDup_cons_iff in Hnd as [Hnin Hnd].
  unfold lv_rel in Hr. destruct Hr as (Hl & He & Hn).
  rewrite <- Hl in *. rewrite (tuple_eqb_sym (lv_labels lv0) ks) in *.
  destruct (tuple_eqb ks (lv_labels lv0)) eqn:Hk.
  - inversion Hfind; subst lv0. constructor.
    + destruct (Hf d0) as [Hf1 Hf2]. unfold lv_rel. rewrite Hf1, Hf2. repeat split; auto.
      rewrite nth_error_list_set_same; [rewrite (Hc d0 eq_refl); reflexivity|].
      apply nth_error_Some. congruence.
    + eapply Forall2_mono; [|exact H]. intros x y Hin (H1 & H2 & H3). repeat split; auto.
      rewrite nth_error_list_set_other; [exact H3|].
      intros Heq. apply Hnin. rewrite Heq. apply in_map. exact Hin.
  - constructor.
    + repeat split; auto. rewrite nth_error_list_set_other; [exact Hn|].
      intros Heq. apply Hnin. rewrite <- Heq. apply in_map. eapply lv_find_in; eauto.
    + apply IH; auto.
Qed.

Lemma rel_other_heap h p c lvs ds :
  Forall2 (lv_rel h) lvs ds -> (forall lv, In lv lvs -> lv_datum lv <> p) ->
  Forall2 (lv_rel (list_set h p c)) lvs ds.
Proof.
  intros H Hne. eapply Forall2_mono; [|exact H]. intros x y Hin (H1 & H2 & H3). repeat split; auto.
  rewrite nth_error_list_set_other; [exact H3|]. intros He. apply (Hne x Hin). auto.
Qed.

(* Forall2 over the metrics, one of which is updated on both sides *)
Lemma Forall2_update_at {A B} (R R' : A -> B -> Prop) l1 l2 n x y :
  Forall2 R l1 l2 -> nth_error l1 n = Some x ->
  (forall k a b, k <> n -> nth_error l1 k = Some a -> R a b -> R' a b) ->
  R' x y -> Forall2 R' l1 (set_nth n y l2).
Proof.
  intros H. revert n. induction H as [|a b l1 l2 Hab H IH]; intros n Hn Hoth Hxy; [destruct n; discriminate|].
  destruct n; cbn in *.
  - inversion Hn; subst. constructor; [exact Hxy|].
    eapply Forall2_mono; [|exact H]. intros a' b' Hin Hr.
    apply In_nth_error in Hin as (k & Hk). apply (Hoth (S k) a' b'); [lia | exact Hk | exact Hr].
  - constructor.
    + apply (Hoth 0%nat a b); [lia | reflexivity | exact Hab].
    + apply IH; [exact Hn | | exact Hxy]. intros k a' b' Hk Hk' Hr. apply (Hoth (S k) a' b'); [lia | exact Hk' | exact Hr].
Qed.

Lemma in_upd_datum ks f ds d' :
  In d' (upd_datum ks f ds) -> In d' ds \/ exists d0, In d0 ds /\ d' = f d0.
Proof.
  induction ds as [|d ds IH]; cbn; [intros []|]. destruct (tuple_eqb (rd_labels d) ks).
  - intros [<- | Hin]; [right; exists d; auto | left; right; exact Hin].
  - intros [<- | Hin]; [left; left; reflexivity|].
    destruct (IH Hin) as [H | (d0 & H & ->)]; [left; right; exact H | right; exists d0; auto].
Qed.

Lemma write_sim rst st m ks p v rt :
  srel rst st -> points st (N.to_nat m) ks p -> vty v = mty m ->
  srel (set_mdata rst m (upd_datum ks (fun d => mkdatum (rd_labels d) v rt (rd_expiry d)) (mdata rst m)))
       (mkstore (list_set (s_heap st) p (mkdcell (dval_of v) (dtime_of rt))) (s_mets st)).
Proof.
  intros Hs (lvs & lv & Hlvs & Hfind & Hp) Hv. subst p.
  destruct (mdata_nth _ _ _ _ Hs Hlvs) as (ds & Hds & Hf).
  assert (Hmd : mdata rst m = ds) by (unfold mdata; eapply nth_error_nth'; eauto).
  destruct Hs as [Hmets' Hlen Hnd Hty]. constructor; cbn [s_heap s_mets].
  - unfold set_mdata. rewrite Hmd.
    eapply Forall2_update_at; [exact Hmets' | exact Hlvs | | ].
    + intros k a b Hk Ha Hr. apply rel_other_heap; [exact Hr|].
      intros lv' Hin. eapply (nodup_cross lv_datum (s_mets st) k (N.to_nat m) a lvs lv' lv Hnd Ha Hlvs Hk Hin).
      eapply lv_find_in; eauto.
    + eapply upd_rel; [exact Hf | eapply nodup_inner; eauto | exact Hfind | | ].
      * intros d. cbn. auto.
      * intros d _. reflexivity.
  - unfold set_mdata. rewrite set_nth_length. exact Hlen.
  - exact Hnd.
  - intros m' d' Hin. unfold set_mdata, mdata in Hin.
    destruct (Nat.eq_dec (N.to_nat m) (N.to_nat m')) as [He|Hne].
    + rewrite <- He in Hin. rewrite nth_set_nth_same in Hin by (apply nth_error_Some; congruence).
      assert (m' = m) by lia. subst m'.
      apply in_upd_datum in Hin as [Hin | (d0 & Hd0 & ->)]; [apply Hty; exact Hin | cbn; exact Hv].
    + rewrite nth_set_nth_other in Hin by exact Hne. apply Hty. exact Hin.
Qed.


(* ---- del ---- *)
Lemma del_rel h ks lvs ds :
  Forall2 (lv_rel h) lvs ds -> Forall2 (lv_rel h) (lv_del ks lvs) (del_datum ks ds).
Proof.
  intros H. induction H as [|lv d lvs ds Hr H IH]; [constructor|]. cbn.
  pose proof Hr as Hr'. unfold lv_rel in Hr'. destruct Hr' as (Hl & _ & _).
  rewrite <- Hl, (tuple_eqb_sym (lv_labels lv) ks).
  destruct (tuple_eqb ks (lv_labels lv)); [exact H | constructor; auto].
Qed.

Lemma lv_del_incl ks lvs lv : In lv (lv_del ks lvs) -> In lv lvs.
Proof.
  induction lvs as [|a l IH]; cbn; [intros []|]. destruct (tuple_eqb ks (lv_labels a)).
  - intros H; right; exact H.
  - intros [<- | H]; [left; reflexivity | right; auto].
Qed.
Lemma del_datum_incl ks ds d : In d (del_datum ks ds) -> In d ds.
Proof.
  induction ds as [|a l IH]; cbn; [intros []|]. destruct (tuple_eqb (rd_labels a) ks).
  - intros H; right; exact H.
  - intros [<- | H]; [left; reflexivity | right; auto].
Qed.

Lemma nodup_del_app {B} (f : lvrec -> B) ks a r :
  NoDup (map f (a ++ r)) -> NoDup (map f (lv_del ks a ++ r)).
Proof.
  induction a as [|x a IH]; cbn; [auto|]. intros H. apply NoDup_cons_iff in H as [Hn H].
  destruct (tuple_eqb ks (lv_labels x)); [exact H|]. cbn. constructor; [|auto].
  intros Hin. apply Hn. rewrite map_app in *. apply in_app_or in Hin as [Hin | Hin]; apply in_or_app; [left|right; exact Hin].
  apply in_map_iff in Hin as (y & Hy & Hin). apply in_map_iff. exists y. split; [exact Hy | eapply lv_del_incl; eauto].
Qed.

Lemma nodup_concat_del {B} (f : lvrec -> B) ks (l : list (list lvrec)) n a :
  NoDup (map f (concat l)) -> nth_error l n = Some a ->
  NoDup (map f (concat (list_set l n (lv_del ks a)))).
Proof.
  revert n. induction l as [|a0 l IH]; intros [|n] Hn Hi; cbn in *; try discriminate.
  - inversion Hi; subst. apply nodup_del_app. exact Hn.
  - rewrite map_app in *. 
    assert (Hr : NoDup (map f (concat (list_set l n (lv_del ks a))))) by (eapply IH; [eapply nodup_app_r; eauto | exact Hi]).
    clear IH. revert Hn. generalize (map f a0) as pre. intros pre Hn.
    induction pre as [|x pre IHp]; cbn in *; [exact Hr|].
    apply NoDup_cons_iff in Hn as [Hx Hn]. constructor; [|auto].
    intros Hin. apply Hx. apply in_app_or in Hin as [Hin | Hin]; apply in_or_app; [left; exact Hin | right].
    apply in_map_iff in Hin as (y & Hy & Hin). apply in_map_iff. exists y. split; [exact Hy|].
    apply in_concat in Hin as (l0 & Hl0 & Hin0). apply In_nth_error in Hl0 as (k & Hk).
    destruct (Nat.eq_dec n k) as [<- | Hne].
    + rewrite nth_error_list_set_same in Hk by (apply nth_error_Some; congruence). inversion Hk; subst.
      eapply in_concat_nth; [exact Hi | eapply lv_del_incl; eauto].
    + rewrite nth_error_list_set_other in Hk by exact Hne. eapply in_concat_nth; eauto.
Qed.

Lemma del_sim rst st m ks :
  srel rst st -> metric_ok decls m (length ks) = true ->
  exists st', remove_datum o st (N.to_nat m) ks = Ok st' /\
    srel (set_mdata rst m (del_datum ks (mdata rst m))) st'.
Proof.
  intros Hs Hmok.
  destruct (metric_lookup _ _ Hmok) as (d & Hd & Hk & Hnb & Hmd & Hmt).
  assert (Hlt : (N.to_nat m < length (s_mets st))%nat).
  { rewrite (srel_mets_len _ _ Hs). apply nth_error_Some. congruence. }
  destruct (nth_error (s_mets st) (N.to_nat m)) as [lvs|] eqn:Hlvs; [|apply nth_error_None in Hlvs; lia].
  destruct (mdata_nth _ _ _ _ Hs Hlvs) as (ds & Hds & Hf).
  assert (Hmd' : mdata rst m = ds) by (unfold mdata; eapply nth_error_nth'; eauto).
  unfold remove_datum. rewrite Hmd, Hlvs. cbn [md_arity mdesc_of]. rewrite Hk, Nat.eqb_refl. cbn [negb].
  eexists. split; [reflexivity|].
  destruct Hs as [Hmets' Hlen Hnd Hty]. constructor; cbn [s_heap s_mets].
  - unfold set_mdata. rewrite Hmd'. apply Forall2_set; [exact Hmets' | apply del_rel; exact Hf].
  - unfold set_mdata. rewrite set_nth_length. exact Hlen.
  - eapply nodup_concat_del; eauto.
  - intros m' d' Hin. unfold set_mdata, mdata in Hin.
    destruct (Nat.eq_dec (N.to_nat m) (N.to_nat m')) as [He|Hne].
    + rewrite <- He in Hin. rewrite nth_set_nth_same in Hin by (rewrite Hlen; apply nth_error_Some; congruence).
      assert (m' = m) by lia. subst m'. apply Hty. eapply del_datum_incl; eauto.
    + rewrite nth_set_nth_other in Hin by exact Hne. apply Hty. exact Hin.
Qed.


(* ---- del ... after ---- *)
Lemma expiry_rel h ks e lvs ds :
  Forall2 (lv_rel h) lvs ds ->
  Forall2 (lv_rel h) (lv_set_expiry ks e lvs)
          (upd_datum ks (fun x => mkdatum (rd_labels x) (rd_val x) (rd_time x) e) ds).
Proof.
  intros H. induction H as [|lv d lvs ds Hr H IH]; [constructor|]. cbn.
  pose proof Hr as Hr'. unfold lv_rel in Hr'. destruct Hr' as (Hl & He & Hc).
  rewrite <- Hl, (tuple_eqb_sym (lv_labels lv) ks).
  destruct (tuple_eqb ks (lv_labels lv)); constructor; auto.
  unfold lv_rel. cbn. repeat split; auto.
Qed.

Lemma expiry_ptrs ks e lvs : map lv_datum (lv_set_expiry ks e lvs) = map lv_datum lvs.
Proof. induction lvs as [|a l IH]; cbn; [reflexivity|]. destruct (tuple_eqb ks (lv_labels a)); cbn; congruence. Qed.

Lemma concat_set_same_map {A B} (f : A -> B) (l : list (list A)) n a a' :
  nth_error l n = Some a -> map f a' = map f a ->
  map f (concat (list_set l n a')) = map f (concat l).
Proof.
  revert n. induction l as [|a0 l IH]; intros [|n] Hi He; cbn in *; try discriminate.
  - inversion Hi; subst. rewrite !map_app, He. reflexivity.
  - rewrite !map_app. f_equal. eapply IH; eauto.
Qed.

Lemma expire_sim rst st m ks e :
  srel rst st -> metric_ok decls m (length ks) = true ->
  match find_datum ks (mdata rst m) with
  | Some _ =>
      exists st', expire_datum o st (N.to_nat m) ks e = Ok st' /\
        srel (set_mdata rst m (upd_datum ks (fun x => mkdatum (rd_labels x) (rd_val x) (rd_time x) e) (mdata rst m))) st'
  | None => expire_datum o st (N.to_nat m) ks e = Er ENoDatum
  end.
Proof.
  intros Hs Hmok.
  destruct (metric_lookup _ _ Hmok) as (d & Hd & Hk & Hnb & Hmd & Hmt).
  assert (Hlt : (N.to_nat m < length (s_mets st))%nat).
  { rewrite (srel_mets_len _ _ Hs). apply nth_error_Some. congruence. }
  destruct (nth_error (s_mets st) (N.to_nat m)) as [lvs|] eqn:Hlvs; [|apply nth_error_None in Hlvs; lia].
  destruct (mdata_nth _ _ _ _ Hs Hlvs) as (ds & Hds & Hf).
  assert (Hmd' : mdata rst m = ds) by (unfold mdata; eapply nth_error_nth'; eauto).
  unfold expire_datum. rewrite Hmd, Hlvs. cbn [md_arity mdesc_of]. rewrite Hk, Nat.eqb_refl. cbn [negb].
  rewrite Hmd'. pose proof (find_rel (s_heap st) ks lvs ds Hf) as Hfr.
  destruct (lv_find ks lvs) as [lv|] eqn:Hfind.
  - destruct Hfr as (d0 & Hfd & _). rewrite Hfd. eexists. split; [reflexivity|].
    destruct Hs as [Hmets' Hlen Hnd Hty]. constructor; cbn [s_heap s_mets].
    + unfold set_mdata. apply Forall2_set; [exact Hmets' | apply expiry_rel; exact Hf].
    + unfold set_mdata. rewrite set_nth_length. exact Hlen.
    + rewrite (concat_set_same_map lv_datum _ _ lvs _ Hlvs (expiry_ptrs ks e lvs)). exact Hnd.
    + intros m' d' Hin. unfold set_mdata, mdata in Hin.
      destruct (Nat.eq_dec (N.to_nat m) (N.to_nat m')) as [He|Hne].
      * rewrite <- He in Hin. rewrite nth_set_nth_same in Hin by (rewrite Hlen; apply nth_error_Some; congruence).
        assert (m' = m) by lia. subst m'.
        apply in_upd_datum in Hin as [Hin | (d1 & Hd1 & ->)]; [apply Hty; rewrite Hmd'; exact Hin|].
        cbn. apply Hty. rewrite Hmd'. exact Hd1.
      * rewrite nth_set_nth_other in Hin by exact Hne. apply Hty. exact Hin.
  - rewrite Hfr. reflexivity.
Qed.

(* ---- observables ---- *)
Lemma srel_obs rst st : srel rst st -> obs_vm st = obs_ref rst.
Proof.
  intros [H _ _ _]. unfold obs_vm, obs_ref.
  induction H as [|lvs ds ms rs Hf H IH]; [reflexivity|]. cbn. f_equal; [|exact IH].
  clear - Hf. induction Hf as [|lv d lvs ds (Hl & He & Hc) Hf IH]; [reflexivity|]. cbn. f_equal; [|exact IH].
  unfold obs_lv, obs_rd. rewrite (nth_error_nth' _ _ _ _ Hc). cbn. rewrite Hl, He. reflexivity.
Qed.


(* ---- the freshly loaded program ---- *)
Lemma init_pair d p :
  decl_ok d = true ->
  match init_metric (mdesc_of d) p with
  | Some (c, lv) => exists dd, init_datum d = [dd] /\ c = cell_of dd /\ lv_labels lv = rd_labels dd /\
                               lv_expiry lv = rd_expiry dd /\ lv_datum lv = p
  | None => init_datum d = []
  end.
Proof.
  unfold decl_ok, init_metric, init_datum. destruct d as [k t n]. cbn.
  destruct n as [|pn]; cbn.
  - destruct k, t; cbn; intros H; try discriminate; try reflexivity;
      (eexists; repeat split; reflexivity).
  - assert (Hn : Nat.eqb (Pos.to_nat pn) 0 = false) by (apply Nat.eqb_neq; lia). rewrite Hn.
    destruct k, t; intros; reflexivity.
Qed.

Lemma init_mets_rel ds : forall heap,
  forallb decl_ok ds = true ->
  exists ex, fst (init_mets (map mdesc_of ds) heap) = heap ++ ex /\
    Forall2 (Forall2 (lv_rel (fst (init_mets (map mdesc_of ds) heap))))
            (snd (init_mets (map mdesc_of ds) heap)) (map init_datum ds) /\
    (forall lv, In lv (concat (snd (init_mets (map mdesc_of ds) heap))) ->
                (length heap <= lv_datum lv)%nat) /\
    NoDup (map lv_datum (concat (snd (init_mets (map mdesc_of ds) heap)))).
Proof.
  induction ds as [|d ds IH]; intros heap Hok.
  - exists []. cbn. rewrite app_nil_r. repeat split; [constructor | intros lv [] | constructor].
  - cbn in Hok. apply andb_prop in Hok as [Hd Hok]. cbn [map init_mets].
    pose proof (init_pair d (length heap) Hd) as Hp.
    destruct (init_metric (mdesc_of d) (length heap)) as [[c lv]|].
    + destruct Hp as (dd & Hdd & Hc & Hl & He & Hptr).
      destruct (IH (heap ++ [c]) Hok) as (ex & Hh & Hf & Hb & Hnd).
      destruct (init_mets (map mdesc_of ds) (heap ++ [c])) as [h' ms] eqn:Him. cbn [fst snd] in *.
      exists (c :: ex). split; [rewrite Hh, <- app_assoc; reflexivity|]. split; [|split].
      * constructor; [|exact Hf]. rewrite Hdd. constructor; [|constructor].
        unfold lv_rel. repeat split; auto. rewrite Hptr, Hh, <- app_assoc.
        rewrite nth_error_app2 by lia. rewrite Nat.sub_diag. cbn. congruence.
      * intros lv' [<- | Hin]; [lia|]. specialize (Hb lv' Hin). rewrite app_length in Hb. cbn in Hb. lia.
      * cbn. constructor; [|exact Hnd]. intros Hin. apply in_map_iff in Hin as (lv' & Hp' & Hin).
        specialize (Hb lv' Hin). rewrite app_length in Hb. cbn in Hb. lia.
    + destruct (IH heap Hok) as (ex & Hh & Hf & Hb & Hnd).
      destruct (init_mets (map mdesc_of ds) heap) as [h' ms] eqn:Him. cbn [fst snd] in *.
      exists ex. split; [exact Hh|]. split; [|split]; [| exact Hb | exact Hnd].
      constructor; [rewrite Hp; constructor | exact Hf].
Qed.


Lemma points_cell rst st m ks p :
  srel rst st -> points st (N.to_nat m) ks p ->
  exists d, find_datum ks (mdata rst m) = Some d /\ nth_error (s_heap st) p = Some (cell_of d) /\
            vty (rd_val d) = mty m.
Proof.
  intros Hs (lvs & lv & Hlvs & Hfind & Hp). subst p.
  destruct (mdata_nth _ _ _ _ Hs Hlvs) as (ds & Hds & Hf).
  assert (Hmd : mdata rst m = ds) by (unfold mdata; eapply nth_error_nth'; eauto).
  pose proof (find_rel (s_heap st) ks lvs ds Hf) as Hfr. rewrite Hfind in Hfr.
  destruct Hfr as (d & Hfd & (_ & _ & Hc) & Hin & _). exists d. rewrite Hmd. repeat split; auto.
  apply (sr_typed _ _ Hs m d). rewrite Hmd. exact Hin.
Qed.


Lemma init_srel : forallb decl_ok decls = true -> srel (map init_datum decls) (init_store o).
Proof.
  intros Hok. unfold init_store. rewrite Hmets.
  destruct (init_mets_rel decls [] Hok) as (ex & Hh & Hf & _ & Hnd).
  destruct (init_mets (map mdesc_of decls) []) as [h ms]. cbn [fst snd] in *.
  constructor; cbn [s_heap s_mets]; auto.
  - apply map_length.
  - intros m d Hin. unfold mdata in Hin. unfold RefSem.mty.
    destruct (nth_error decls (N.to_nat m)) as [dd|] eqn:Hn.
    + rewrite (nth_error_nth' _ _ [] _ (map_nth_error init_datum _ _ Hn)) in Hin.
      unfold init_datum in Hin. destruct (Ast.md_kind dd), (md_nkeys dd); cbn in Hin; try contradiction.
      destruct Hin as [<- | []]. cbn. destruct (md_ty dd); reflexivity.
    + apply nth_error_None in Hn. rewrite nth_overflow in Hin by (rewrite map_length; exact Hn). destruct Hin.
Qed.


End Store.
