(* The relation between the reference store (per metric a list of data) and the
   VM's store (a heap of datum cells + per metric a list of label-value records
   pointing into it), and the proof that every store operation preserves it. *)
From V Require Import Lang.RefSem Lang.Codegen Lang.Vm Lang.Observe Lang.Wt Proofs.C01Sim Proofs.C01Expr.
From Coq Require Import Lia Permutation.
Local Open Scope Z_scope.

Definition cell_of (d : rdatum) : dcell := mkdcell (dval_of (rd_val d)) (dtime_of (rd_time d)).

Definition lv_rel (h : list dcell) (lv : lvrec) (d : rdatum) : Prop :=
  lv_labels lv = rd_labels d /\ lv_expiry lv = rd_expiry d /\ nth_error h (lv_datum lv) = Some (cell_of d).

Definition points (st : store) (m : nat) (ks : tuple) (p : nat) : Prop :=
  exists lvs lv, nth_error (s_mets st) m = Some lvs /\ lv_find ks lvs = Some lv /\ lv_datum lv = p.

Definition ext (st st' : store) : Prop := forall m ks p, points st m ks p -> points st' m ks p.

Lemma ext_refl st : ext st st. Proof. intros m ks p H; exact H. Qed.
Lemma ext_trans a b c : ext a b -> ext b c -> ext a c.
Proof. intros H1 H2 m ks p H. apply H2, H1, H. Qed.

Definition memo_ok (E : env) (mm : memo) : Prop :=
  forall l v tm, memo_find (l, v) mm = Some tm -> time_parse E l v = Some tm.

Section Store.
Variable decls : list mdecl.

Notation mty := (RefSem.mty decls).

Record srel (rst : rstore) (st : store) : Prop := mk_srel {
  sr_mets : Forall2 (Forall2 (lv_rel (s_heap st))) (s_mets st) rst;
  sr_len : length rst = length decls;
  sr_nodup : NoDup (map lv_datum (concat (s_mets st)));
  sr_typed : forall m d, In d (mdata rst m) -> vty (rd_val d) = mty m
}.

(* ---- list facts ---- *)
Lemma tuple_eqb_sym a b : tuple_eqb a b = tuple_eqb b a.
Proof.
  destruct (tuple_eqb a b) eqn:H1; destruct (tuple_eqb b a) eqn:H2; auto.
  - apply tuple_eqb_spec in H1. subst. rewrite (proj2 (tuple_eqb_spec b b) eq_refl) in H2. discriminate.
  - apply tuple_eqb_spec in H2. subst. rewrite (proj2 (tuple_eqb_spec a a) eq_refl) in H1. discriminate.
Qed.
Lemma tuple_eqb_refl a : tuple_eqb a a = true.
Proof. apply tuple_eqb_spec. reflexivity. Qed.

Lemma Forall2_len {A B} (R : A -> B -> Prop) l1 l2 : Forall2 R l1 l2 -> length l1 = length l2.
Proof. induction 1; cbn; auto. Qed.

Lemma Forall2_nth {A B} (R : A -> B -> Prop) l1 l2 n x :
  Forall2 R l1 l2 -> nth_error l1 n = Some x -> exists y, nth_error l2 n = Some y /\ R x y.
Proof.
  intros H. revert n. induction H; intros n Hn; [destruct n; discriminate|].
  destruct n; cbn in *; [inversion Hn; subst; eauto | apply IHForall2; exact Hn].
Qed.

Lemma Forall2_set {A B} (R : A -> B -> Prop) l1 l2 n x y :
  Forall2 R l1 l2 -> R x y -> Forall2 R (list_set l1 n x) (set_nth n y l2).
Proof.
  intros H Hxy. revert n. induction H; intros n; [destruct n; constructor|].
  destruct n; cbn; constructor; auto.
Qed.

Lemma Forall2_mono {A B} (R1 R2 : A -> B -> Prop) l1 l2 :
  (forall x y, In x l1 -> R1 x y -> R2 x y) -> Forall2 R1 l1 l2 -> Forall2 R2 l1 l2.
Proof.
  intros HR H. induction H; constructor.
  - apply HR; [left; reflexivity | assumption].
  - apply IHForall2. intros a b Hin. apply HR. right; exact Hin.
Qed.

Lemma nth_error_nth' {A} (l : list A) n d x : nth_error l n = Some x -> nth n l d = x.
Proof. revert n; induction l; intros [|n] H; cbn in *; try discriminate; [inversion H; auto | auto]. Qed.

Lemma set_nth_length {A} n (x : A) l : length (set_nth n x l) = length l.
Proof. revert n; induction l; intros [|n]; cbn; auto. Qed.

Lemma nth_set_nth_same {A} n (x d : A) l : (n < length l)%nat -> nth n (set_nth n x l) d = x.
Proof. revert n; induction l; intros [|n] H; cbn in *; try lia; auto. apply IHl. lia. Qed.
Lemma nth_set_nth_other {A} n m (x d : A) l : n <> m -> nth m (set_nth n x l) d = nth m l d.
Proof. revert n m; induction l; intros [|n] [|m] H; cbn; auto; try congruence. Qed.

Lemma nth_error_list_set_same {A} (l : list A) n x : (n < length l)%nat -> nth_error (list_set l n x) n = Some x.
Proof. revert n; induction l; intros [|n] H; cbn in *; try lia; auto. apply IHl. lia. Qed.
Lemma nth_error_list_set_other {A} (l : list A) n m x : n <> m -> nth_error (list_set l n x) m = nth_error l m.
Proof. revert n m; induction l; intros [|n] [|m] H; cbn; auto; try congruence. Qed.

Lemma concat_list_set_perm {A} (l : list (list A)) n lvs x :
  nth_error l n = Some lvs ->
  Permutation (concat (list_set l n (lvs ++ [x]))) (x :: concat l).
Proof.
  revert n. induction l as [|a l IH]; intros [|n] H; cbn in *; try discriminate.
  - inversion H; subst. rewrite <- app_assoc. cbn.
    apply Permutation_sym. apply Permutation_middle.
  - specialize (IH n H).
    eapply Permutation_trans; [apply Permutation_app_head; exact IH|].
    apply Permutation_sym. apply Permutation_middle.
Qed.

(* ---- lookups on both sides ---- *)
Lemma find_rel h ks lvs ds :
  Forall2 (lv_rel h) lvs ds ->
  match lv_find ks lvs with
  | Some lv => exists d, find_datum ks ds = Some d /\ lv_rel h lv d /\ In d ds /\ In lv lvs
  | None => find_datum ks ds = None
  end.
Proof.
  intros H. induction H as [|lv d lvs ds Hr H IH]; [reflexivity|]. cbn.
  unfold lv_rel in Hr. destruct Hr as (Hl & He & Hn). rewrite <- Hl, tuple_eqb_sym.
  destruct (tuple_eqb (lv_labels lv) ks); cbv iota.
  - exists d. split; [reflexivity|]. split; [unfold lv_rel; auto|]. split; left; reflexivity.
  - destruct (lv_find ks lvs); [|exact IH].
    destruct IH as (d' & H1 & H2 & H3 & H4). exists d'. split; [exact H1|]. split; [exact H2|]. split; right; assumption.
Qed.

Lemma lv_find_app ks lvs x lv : lv_find ks lvs = Some lv -> lv_find ks (lvs ++ [x]) = Some lv.
Proof. induction lvs as [|a l IH]; cbn; [discriminate|]. destruct (tuple_eqb ks (lv_labels a)); auto. Qed.
Lemma lv_find_app_none ks lvs x :
  lv_find ks lvs = None -> lv_find ks (lvs ++ [x]) = (if tuple_eqb ks (lv_labels x) then Some x else None).
Proof. induction lvs as [|a l IH]; cbn; [reflexivity|]. destruct (tuple_eqb ks (lv_labels a)); [discriminate|auto]. Qed.

Lemma zero_cell_of t : t <> TBool ->
  zero_cell (mtype_of t) = mkdcell (dval_of (zero_of t)) TNow.
Proof. destruct t; try congruence; reflexivity. Qed.

Lemma srel_mets_len rst st : srel rst st -> length (s_mets st) = length decls.
Proof. intros [H Hl _ _]. rewrite <- Hl. eapply Forall2_len; eauto. Qed.

Lemma srel_ptr_lt rst st lv lvs m :
  srel rst st -> nth_error (s_mets st) m = Some lvs -> In lv lvs -> (lv_datum lv < length (s_heap st))%nat.
Proof.
  intros [H _ _ _] Hn Hin.
  destruct (Forall2_nth _ _ _ _ _ H Hn) as (ds & Hd & Hf).
  clear - Hf Hin. induction Hf; [destruct Hin|].
  destruct Hin as [<- | Hin]; [|auto]. unfold lv_rel in H. destruct H as (_ & _ & Hc). apply nth_error_Some. congruence.
Qed.

Variable o : object.
Hypothesis Hmets : o_metrics o = map mdesc_of decls.

Lemma metric_lookup m n : metric_ok decls m n = true ->
  exists d, nth_error decls (N.to_nat m) = Some d /\ N.to_nat (md_nkeys d) = n /\ md_ty d <> TBool /\
            nth_error (o_metrics o) (N.to_nat m) = Some (mdesc_of d) /\ mty m = md_ty d.
Proof.
  unfold metric_ok, RefSem.mty. intros H. destruct (nth_error decls (N.to_nat m)) as [d|] eqn:Hn; [|discriminate].
  apply andb_prop in H as [H1 H2]. apply Nat.eqb_eq in H1.
  exists d. repeat split; auto.
  - intros Hb. rewrite Hb in H2. discriminate.
  - rewrite Hmets. rewrite nth_error_map, Hn. reflexivity.
Qed.

Lemma mdata_nth rst st m lvs :
  srel rst st -> nth_error (s_mets st) m = Some lvs ->
  exists ds, nth_error rst m = Some ds /\ Forall2 (lv_rel (s_heap st)) lvs ds.
Proof. intros [H _ _ _] Hn. eapply Forall2_nth; eauto. Qed.

Lemma lv_rel_ext h c lv d : lv_rel h lv d -> lv_rel (h ++ [c]) lv d.
Proof.
  intros (H1 & H2 & H3). repeat split; auto. rewrite nth_error_app1; [exact H3|].
  apply nth_error_Some. congruence.
Qed.

Lemma get_datum_sim rst st m ks :
  srel rst st -> metric_ok decls m (length ks) = true ->
  exists p st', get_datum o st (N.to_nat m) ks = Ok (p, st') /\
    srel (snd (obtain decls m ks rst)) st' /\ ext st st' /\ points st' (N.to_nat m) ks p /\
    exists c, nth_error (s_heap st') p = Some c /\
              d_val c = dval_of (fst (obtain decls m ks rst)) /\
              vty (fst (obtain decls m ks rst)) = mty m.
Proof.
  intros Hs Hmok.
  destruct (metric_lookup _ _ Hmok) as (d & Hd & Hk & Hnb & Hmd & Hmt).
  assert (Hlt : (N.to_nat m < length (s_mets st))%nat).
  { rewrite (srel_mets_len _ _ Hs). apply nth_error_Some. congruence. }
  destruct (nth_error (s_mets st) (N.to_nat m)) as [lvs|] eqn:Hlvs; [|apply nth_error_None in Hlvs; lia].
  destruct (mdata_nth _ _ _ _ Hs Hlvs) as (ds & Hds & Hf).
  assert (Hmd' : mdata rst m = ds) by (unfold mdata; eapply nth_error_nth'; eauto).
  unfold get_datum, obtain. rewrite Hmd, Hlvs. cbn [md_arity md_type mdesc_of]. rewrite Hk, Nat.eqb_refl. cbn [negb].
  rewrite Hmd'. pose proof (find_rel (s_heap st) ks lvs ds Hf) as Hfr.
  destruct (lv_find ks lvs) as [lv|] eqn:Hfind.
  - destruct Hfr as (d0 & Hfd & Hr & Hin & Hinl). rewrite Hfd. cbn [fst snd].
    exists (lv_datum lv), st. split; [reflexivity|]. split; [exact Hs|]. split; [apply ext_refl|].
    split; [exists lvs, lv; auto|].
    destruct Hr as (_ & _ & Hc). exists (cell_of d0). split; [exact Hc|]. split; [reflexivity|].
    apply (sr_typed _ _ Hs m d0). rewrite Hmd'. exact Hin.
  - rewrite Hfr. cbn [fst snd].
    set (p := length (s_heap st)). set (v := zero_of (mty m)).
    exists p. eexists. split; [reflexivity|].
    assert (Hz : zero_cell (mtype_of (md_ty d)) = mkdcell (dval_of v) TNow).
    { unfold v. rewrite Hmt. apply zero_cell_of. exact Hnb. }
    split; [|split; [|split]].
    + (* the relation *)
      destruct Hs as [Hmets' Hlen Hnd Hty]. constructor; cbn [s_heap s_mets].
      * unfold set_mdata. apply Forall2_set.
        -- eapply Forall2_mono; [|exact Hmets']. intros x y _ Hxy.
           eapply Forall2_mono; [|exact Hxy]. intros lv dd _ H. apply lv_rel_ext. exact H.
        -- apply Forall2_app.
           ++ eapply Forall2_mono; [|exact Hf]. intros lv dd _ H. apply lv_rel_ext. exact H.
           ++ constructor; [|constructor]. repeat split.
              cbn [lv_datum]. rewrite nth_error_app2 by (unfold p; lia). replace (p - length (s_heap st))%nat with 0%nat by (unfold p; lia).
              cbn. rewrite Hz. reflexivity.
      * unfold set_mdata. rewrite set_nth_length. exact Hlen.
      * eapply Permutation_NoDup; [apply Permutation_sym, Permutation_map, (concat_list_set_perm _ _ _ _ Hlvs)|].
        cbn [map lv_datum]. constructor; [|exact Hnd].
        intros Hin. apply in_map_iff in Hin as (lv & Hp & Hin). apply in_concat in Hin as (l0 & Hl0 & Hin0).
        apply In_nth_error in Hl0 as (k & Hk0).
        assert (lv_datum lv < length (s_heap st))%nat.
        { eapply (srel_ptr_lt rst st lv l0 k); [constructor; eauto | exact Hk0 | exact Hin0]. }
        unfold p in Hp. lia.
      * intros m' d' Hin. unfold set_mdata, mdata in Hin.
        destruct (Nat.eq_dec (N.to_nat m) (N.to_nat m')) as [He|Hne].
        -- rewrite <- He in Hin. rewrite nth_set_nth_same in Hin by (rewrite Hlen; apply nth_error_Some; congruence).
           assert (m' = m) by lia. subst m'.
           apply in_app_or in Hin as [Hin | [<- | []]].
           ++ apply Hty. rewrite Hmd'. exact Hin.
           ++ cbn. unfold v. rewrite Hmt. destruct (md_ty d); cbn; congruence.
        -- rewrite nth_set_nth_other in Hin by exact Hne. apply Hty. exact Hin.
    + (* existing pointers are kept *)
      intros m' ks' p' (lvs' & lv' & Hn' & Hf' & Hp'). unfold points. cbn [s_mets].
      destruct (Nat.eq_dec (N.to_nat m) m') as [He|Hne].
      * subst m'. rewrite Hlvs in Hn'. inversion Hn'; subst lvs'.
        exists (lvs ++ [mklv ks p 0]), lv'. split; [apply nth_error_list_set_same; exact Hlt|].
        split; [apply lv_find_app; exact Hf' | exact Hp'].
      * exists lvs', lv'. split; [rewrite nth_error_list_set_other by exact Hne; exact Hn' | auto].
    + unfold points. cbn [s_mets]. exists (lvs ++ [mklv ks p 0]), (mklv ks p 0). split; [apply nth_error_list_set_same; exact Hlt|].
      split; [|reflexivity]. rewrite (lv_find_app_none _ _ _ Hfind). cbn [lv_labels]. rewrite tuple_eqb_refl. reflexivity.
    + exists (mkdcell (dval_of v) TNow). cbn [s_heap]. split.
      * rewrite nth_error_app2 by (unfold p; lia). replace (p - length (s_heap st))%nat with 0%nat by (unfold p; lia).
        cbn. rewrite Hz. reflexivity.
      * split; [reflexivity|]. unfold v. rewrite Hmt. destruct (md_ty d); cbn; congruence.
Qed.

End Store.
