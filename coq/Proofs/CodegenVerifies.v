(* C04: the bytecode that Lang/Codegen.v emits for a well-typed, representable
   program is accepted by the verifier: [accepts p = true -> verify (codegen p) = true].

   [accepts] is the boolean description of the fragment: class inference on
   the tree ([ce]: the representation class an expression leaves on the stack)
   with, at every node, the acceptance test of the instruction codegen emits
   for it.  It is typing (operands of the classes the operator pops, indices
   within the tables, key counts equal to the metric's arity) together with
   "representable" = none of the known families:
     - settime's argument must be an int64 (not len(), not a string),
     - an assignment / += / ++ stores the metric's own type (no Int/Float mix),
     - a condition is a bool or an int64 (not a Float, a String or a len()).
   Method: the forward pass [infer] is followed through the emitted code
   compositionally (strict segments for expressions, whose exit stack is
   known exactly; weak segments for statements, which leave values behind
   and may be unreachable after `stop`); Proofs/InferCheck.v turns
   "infer does not reject" into [verify = true]. *)
From V Require Import Lang.Codegen Lang.Verify Proofs.VmInv Proofs.InferCheck.
From Coq Require Import Lia ZifyBool.
Local Open Scope nat_scope.

Section CG.
Variable p : prog.
Let D := p_decls p.
Let o := codegen p.

(* ------------------------------------------------------------------ *)
(* Following [infer_from] through code                                 *)

Definition notsome (x : option (option astack)) : Prop :=
  match x with Some (Some _) => False | _ => True end.

Lemma infer_skip1 i rest pc tbl :
  notsome (nth_error tbl pc) -> infer_from o (i :: rest) pc tbl = infer_from o rest (S pc) tbl.
Proof. cbn. destruct (nth_error tbl pc) as [[A|]|]; cbn; tauto. Qed.

Lemma infer_skip c : forall rest pc tbl,
  (forall k, pc <= k < pc + length c -> notsome (nth_error tbl k)) ->
  infer_from o (c ++ rest) pc tbl = infer_from o rest (pc + length c) tbl.
Proof.
  induction c as [|i c IH]; intros rest pc tbl H; cbn [app length].
  - rewrite Nat.add_0_r. reflexivity.
  - rewrite infer_skip1 by (apply H; cbn; lia). rewrite IH.
    + f_equal. lia.
    + intros k Hk. apply H. cbn. lia.
Qed.

Lemma infer_step i rest pc tbl A succs :
  nth_error tbl pc = Some (Some A) -> transfer o pc i A = VOk succs ->
  infer_from o (i :: rest) pc tbl = infer_from o rest (S pc) (fold_left merge succs tbl).
Proof. intros H1 H2. cbn. rewrite H1, H2. reflexivity. Qed.

Lemma merge_none tbl k B :
  nth_error tbl k = Some None -> nth_error (merge tbl (k, B)) k = Some (Some B).
Proof.
  intros H. unfold merge. rewrite H. apply nth_error_list_set_eq. apply nth_error_Some. congruence.
Qed.

Lemma merge_some tbl k T B :
  nth_error tbl k = Some (Some T) -> nth_error (merge tbl (k, B)) k = Some (Some (common T B)).
Proof.
  intros H. unfold merge. rewrite H. apply nth_error_list_set_eq. apply nth_error_Some. congruence.
Qed.

Lemma merge_other' tbl k k' B : k' <> k -> nth_error (merge tbl (k, B)) k' = nth_error tbl k'.
Proof. intros H. apply merge_other. cbn. auto. Qed.

(* strict segment: entered with exactly A, everything after the entry up to
   and including the exit still unvisited; leaves exactly B at the exit *)
Definition xseg (pc : nat) (c : list instr) (A B : astack) : Prop :=
  forall rest tbl,
    pc + length c < length tbl -> length tbl = S (nprog o) ->
    nth_error tbl pc = Some (Some A) ->
    (forall k, pc < k <= pc + length c -> nth_error tbl k = Some None) ->
    exists tbl',
      infer_from o (c ++ rest) pc tbl = infer_from o rest (pc + length c) tbl' /\
      length tbl' = length tbl /\
      nth_error tbl' (pc + length c) = Some (Some B) /\
      (forall k, k > pc + length c -> nth_error tbl' k = nth_error tbl k).

Lemma xseg_nil pc A : xseg pc [] A A.
Proof.
  intros rest tbl Hlt Hl He Hn. exists tbl. cbn. rewrite Nat.add_0_r. auto.
Qed.

Lemma xseg_app pc c1 c2 A B C :
  xseg pc c1 A B -> xseg (pc + length c1) c2 B C -> xseg pc (c1 ++ c2) A C.
Proof.
  intros H1 H2 rest tbl Hlt Hl He Hn. rewrite app_length in *.
  destruct (H1 (c2 ++ rest) tbl) as (t1 & E1 & L1 & X1 & F1); auto; try lia.
  { intros k Hk. apply Hn. lia. }
  destruct (H2 rest t1) as (t2 & E2 & L2 & X2 & F2); auto; try lia.
  { intros k Hk. rewrite F1 by lia. apply Hn. lia. }
  exists t2. rewrite <- app_assoc, E1, E2. rewrite Nat.add_assoc in *.
  repeat split; auto; try congruence. intros k Hk. rewrite F2, F1 by lia. reflexivity.
Qed.

Lemma xseg1 pc i A B :
  transfer o pc i A = VOk [(S pc, B)] -> xseg pc [i] A B.
Proof.
  intros Ht rest tbl Hlt Hl He Hn. cbn [length] in *. rewrite Nat.add_1_r in *.
  exists (merge tbl (S pc, B)). cbn [app]. rewrite (infer_step _ _ _ _ _ _ He Ht). cbn [fold_left].
  repeat split.
  - apply merge_length.
  - apply merge_none. apply Hn. lia.
  - intros k Hk. apply merge_other'. lia.
Qed.

(* weak segment: whatever the entry (possibly unreachable), the forward pass
   gets through without rejecting; only the exit and what lies inside change *)
Definition sseg (pc : nat) (c : list instr) : Prop :=
  forall rest tbl,
    pc + length c < length tbl -> length tbl = S (nprog o) ->
    (forall k, pc < k < pc + length c -> nth_error tbl k = Some None) ->
    exists tbl',
      infer_from o (c ++ rest) pc tbl = infer_from o rest (pc + length c) tbl' /\
      length tbl' = length tbl /\
      (forall k, k > pc + length c -> nth_error tbl' k = nth_error tbl k).

Lemma sseg_nil pc : sseg pc [].
Proof. intros rest tbl _ _ _. exists tbl. cbn. rewrite Nat.add_0_r. auto. Qed.

Lemma sseg_app pc c1 c2 : sseg pc c1 -> sseg (pc + length c1) c2 -> sseg pc (c1 ++ c2).
Proof.
  intros H1 H2 rest tbl Hlt Hl Hn. rewrite app_length in *.
  destruct (H1 (c2 ++ rest) tbl) as (t1 & E1 & L1 & F1); auto; try lia.
  { intros k Hk. apply Hn. lia. }
  destruct (H2 rest t1) as (t2 & E2 & L2 & F2); auto; try lia.
  { intros k Hk. rewrite F1 by lia. apply Hn. lia. }
  exists t2. rewrite <- app_assoc, E1, E2. rewrite Nat.add_assoc in *.
  repeat split; auto; try congruence. intros k Hk. rewrite F2, F1 by lia. reflexivity.
Qed.

(* an unreachable segment is skipped *)
Lemma sseg_skip pc c rest tbl :
  notsome (nth_error tbl pc) ->
  (forall k, pc < k < pc + length c -> nth_error tbl k = Some None) ->
  infer_from o (c ++ rest) pc tbl = infer_from o rest (pc + length c) tbl.
Proof.
  intros H0 Hn. apply infer_skip. intros k Hk.
  destruct (Nat.eq_dec k pc) as [->|Hne]; auto. rewrite Hn by lia. exact I.
Qed.

(* reachable case given by a function of the entry stack *)
Lemma sseg_cases pc c :
  (forall A rest tbl,
     pc + length c < length tbl -> length tbl = S (nprog o) ->
     nth_error tbl pc = Some (Some A) ->
     (forall k, pc < k < pc + length c -> nth_error tbl k = Some None) ->
     exists tbl',
       infer_from o (c ++ rest) pc tbl = infer_from o rest (pc + length c) tbl' /\
       length tbl' = length tbl /\
       (forall k, k > pc + length c -> nth_error tbl' k = nth_error tbl k)) ->
  sseg pc c.
Proof.
  intros H rest tbl Hlt Hl Hn.
  destruct (nth_error tbl pc) as [[A|]|] eqn:He.
  - eapply H; eauto.
  - exists tbl. rewrite sseg_skip; auto. rewrite He. exact I.
  - exists tbl. rewrite sseg_skip; auto. rewrite He. exact I.
Qed.

(* one instruction, any entry, successors among the given targets *)
Lemma wstep pc i (P : nat -> Prop) rest tbl :
  (forall A, nth_error tbl pc = Some (Some A) ->
     exists succs, transfer o pc i A = VOk succs /\ Forall (fun s => P (fst s)) succs) ->
  exists tbl',
    infer_from o (i :: rest) pc tbl = infer_from o rest (S pc) tbl' /\
    length tbl' = length tbl /\
    (forall k, ~ P k -> nth_error tbl' k = nth_error tbl k).
Proof.
  intros H. destruct (nth_error tbl pc) as [[A|]|] eqn:He.
  - destruct (H A eq_refl) as (succs & Ht & Hall).
    exists (fold_left merge succs tbl). rewrite (infer_step _ _ _ _ _ _ He Ht).
    repeat split; [apply fold_merge_length|].
    intros k Hk. apply fold_merge_other. eapply Forall_impl; [|exact Hall].
    cbn. intros s Hs Heq. apply Hk. congruence.
  - exists tbl. rewrite infer_skip1 by (rewrite He; exact I). auto.
  - exists tbl. rewrite infer_skip1 by (rewrite He; exact I). auto.
Qed.

(* a weak single instruction whose successors stay within (pc, pc+1] *)
Lemma sseg1 pc i :
  (forall A, exists B, transfer o pc i A = VOk [(S pc, B)]) -> sseg pc [i].
Proof.
  intros H rest tbl Hlt Hl Hn. cbn [length app] in *.
  destruct (wstep pc i (fun k => k = S pc) rest tbl) as (t & E & L & F).
  { intros A _. destruct (H A) as [B HB]. exists [(S pc, B)]. split; auto. }
  exists t. rewrite Nat.add_1_r. repeat split; auto. intros k Hk. apply F. lia.
Qed.

End CG.
