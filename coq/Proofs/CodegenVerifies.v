(* C04: the bytecode that Lang/Codegen.v emits for a well-typed, representable
   program is accepted by the verifier: [accepts p = true -> verify (codegen p) = true].

   [accepts] is the boolean description of the fragment: class inference on
   the tree ([ce]: the representation class an expression leaves on the stack)
   with, at every node, the acceptance test of the instruction codegen emits
   for it.  It is typing (operands of the classes the operator pops, indices
   within the tables, key counts equal to the metric's arity) together with
   "representable" = none of the known families:
     - settime's argument must be an int64 (not len(), not a string),
     - an assignment / += / ++ stores the metric's own type (no Int/Float mix),
     - a condition is a bool or an int64 (not a Float, a String or a len()).
   Method: the forward pass [infer] is followed through the emitted code
   compositionally (strict segments for expressions, whose exit stack is
   known exactly; weak segments for statements, which leave values behind
   and may be unreachable after `stop`); Proofs/InferCheck.v turns
   "infer does not reject" into [verify = true]. *)
From V Require Import Lang.Codegen Lang.Verify Proofs.VmInv Proofs.InferCheck.
From Coq Require Import Lia ZifyBool.
Local Open Scope nat_scope.

Section CG.
Variable p : prog.
Let D := p_decls p.
Let o := codegen p.

(* ------------------------------------------------------------------ *)
(* Following [infer_from] through code                                 *)

Definition notsome (x : option (option astack)) : Prop :=
  match x with Some (Some _) => False | _ => True end.

Lemma infer_skip1 i rest pc tbl :
  notsome (nth_error tbl pc) -> infer_from o (i :: rest) pc tbl = infer_from o rest (S pc) tbl.
Proof. cbn. destruct (nth_error tbl pc) as [[A|]|]; cbn; tauto. Qed.

Lemma infer_skip c : forall rest pc tbl,
  (forall k, pc <= k < pc + length c -> notsome (nth_error tbl k)) ->
  infer_from o (c ++ rest) pc tbl = infer_from o rest (pc + length c) tbl.
Proof.
  induction c as [|i c IH]; intros rest pc tbl H; cbn [app length].
  - rewrite Nat.add_0_r. reflexivity.
  - rewrite infer_skip1 by (apply H; cbn; lia). rewrite IH.
    + f_equal. lia.
    + intros k Hk. apply H. cbn. lia.
Qed.

Lemma infer_step i rest pc tbl A succs :
  nth_error tbl pc = Some (Some A) -> transfer o pc i A = VOk succs ->
  infer_from o (i :: rest) pc tbl = infer_from o rest (S pc) (fold_left merge succs tbl).
Proof. intros H1 H2. cbn. rewrite H1, H2. reflexivity. Qed.

Lemma merge_none tbl k B :
  nth_error tbl k = Some None -> nth_error (merge tbl (k, B)) k = Some (Some B).
Proof.
  intros H. unfold merge. rewrite H. apply nth_error_list_set_eq. apply nth_error_Some. congruence.
Qed.

Lemma merge_some tbl k T B :
  nth_error tbl k = Some (Some T) -> nth_error (merge tbl (k, B)) k = Some (Some (common T B)).
Proof.
  intros H. unfold merge. rewrite H. apply nth_error_list_set_eq. apply nth_error_Some. congruence.
Qed.

Lemma merge_other' tbl k k' B : k' <> k -> nth_error (merge tbl (k, B)) k' = nth_error tbl k'.
Proof. intros H. apply merge_other. cbn. auto. Qed.

(* strict segment: entered with exactly A, everything after the entry up to
   and including the exit still unvisited; leaves exactly B at the exit *)
Definition xseg (pc : nat) (c : list instr) (A B : astack) : Prop :=
  forall rest tbl,
    pc + length c < length tbl -> length tbl = S (nprog o) ->
    nth_error tbl pc = Some (Some A) ->
    (forall k, pc < k <= pc + length c -> nth_error tbl k = Some None) ->
    exists tbl',
      infer_from o (c ++ rest) pc tbl = infer_from o rest (pc + length c) tbl' /\
      length tbl' = length tbl /\
      nth_error tbl' (pc + length c) = Some (Some B) /\
      (forall k, k > pc + length c -> nth_error tbl' k = nth_error tbl k).

Lemma xseg_nil pc A : xseg pc [] A A.
Proof.
  intros rest tbl Hlt Hl He Hn. exists tbl. cbn. rewrite Nat.add_0_r. auto.
Qed.

Lemma xseg_app pc c1 c2 A B C :
  xseg pc c1 A B -> xseg (pc + length c1) c2 B C -> xseg pc (c1 ++ c2) A C.
Proof.
  intros H1 H2 rest tbl Hlt Hl He Hn. rewrite app_length in *.
  destruct (H1 (c2 ++ rest) tbl) as (t1 & E1 & L1 & X1 & F1); auto; try lia.
  { intros k Hk. apply Hn. lia. }
  destruct (H2 rest t1) as (t2 & E2 & L2 & X2 & F2); auto; try lia.
  { intros k Hk. rewrite F1 by lia. apply Hn. lia. }
  exists t2. rewrite <- app_assoc, E1, E2. rewrite Nat.add_assoc in *.
  repeat split; auto; try congruence. intros k Hk. rewrite F2, F1 by lia. reflexivity.
Qed.

Lemma xseg1 pc i A B :
  transfer o pc i A = VOk [(S pc, B)] -> xseg pc [i] A B.
Proof.
  intros Ht rest tbl Hlt Hl He Hn. cbn [length] in *. rewrite Nat.add_1_r in *.
  exists (merge tbl (S pc, B)). cbn [app]. rewrite (infer_step _ _ _ _ _ _ He Ht). cbn [fold_left].
  repeat split.
  - apply merge_length.
  - apply merge_none. apply Hn. lia.
  - intros k Hk. apply merge_other'. lia.
Qed.

(* weak segment: whatever the entry (possibly unreachable), the forward pass
   gets through without rejecting; only the exit and what lies inside change *)
Definition sseg (pc : nat) (c : list instr) : Prop :=
  forall rest tbl,
    pc + length c < length tbl -> length tbl = S (nprog o) ->
    (forall k, pc < k < pc + length c -> nth_error tbl k = Some None) ->
    exists tbl',
      infer_from o (c ++ rest) pc tbl = infer_from o rest (pc + length c) tbl' /\
      length tbl' = length tbl /\
      (forall k, k > pc + length c -> nth_error tbl' k = nth_error tbl k).

Lemma sseg_nil pc : sseg pc [].
Proof. intros rest tbl _ _ _. exists tbl. cbn. rewrite Nat.add_0_r. auto. Qed.

Lemma sseg_app pc c1 c2 : sseg pc c1 -> sseg (pc + length c1) c2 -> sseg pc (c1 ++ c2).
Proof.
  intros H1 H2 rest tbl Hlt Hl Hn. rewrite app_length in *.
  destruct (H1 (c2 ++ rest) tbl) as (t1 & E1 & L1 & F1); auto; try lia.
  { intros k Hk. apply Hn. lia. }
  destruct (H2 rest t1) as (t2 & E2 & L2 & F2); auto; try lia.
  { intros k Hk. rewrite F1 by lia. apply Hn. lia. }
  exists t2. rewrite <- app_assoc, E1, E2. rewrite Nat.add_assoc in *.
  repeat split; auto; try congruence. intros k Hk. rewrite F2, F1 by lia. reflexivity.
Qed.

(* an unreachable segment is skipped *)
Lemma sseg_skip pc c rest tbl :
  notsome (nth_error tbl pc) ->
  (forall k, pc < k < pc + length c -> nth_error tbl k = Some None) ->
  infer_from o (c ++ rest) pc tbl = infer_from o rest (pc + length c) tbl.
Proof.
  intros H0 Hn. apply infer_skip. intros k Hk.
  destruct (Nat.eq_dec k pc) as [->|Hne]; auto. rewrite Hn by lia. exact I.
Qed.

(* reachable case given by a function of the entry stack *)
Lemma sseg_cases pc c :
  (forall A rest tbl,
     pc + length c < length tbl -> length tbl = S (nprog o) ->
     nth_error tbl pc = Some (Some A) ->
     (forall k, pc < k < pc + length c -> nth_error tbl k = Some None) ->
     exists tbl',
       infer_from o (c ++ rest) pc tbl = infer_from o rest (pc + length c) tbl' /\
       length tbl' = length tbl /\
       (forall k, k > pc + length c -> nth_error tbl' k = nth_error tbl k)) ->
  sseg pc c.
Proof.
  intros H rest tbl Hlt Hl Hn.
  destruct (nth_error tbl pc) as [[A|]|] eqn:He.
  - eapply H; eauto.
  - exists tbl. rewrite sseg_skip; auto. rewrite He. exact I.
  - exists tbl. rewrite sseg_skip; auto. rewrite He. exact I.
Qed.

(* one instruction, any entry, successors among the given targets *)
Lemma wstep pc i (P : nat -> Prop) rest tbl :
  (forall A, nth_error tbl pc = Some (Some A) ->
     exists succs, transfer o pc i A = VOk succs /\ Forall (fun s => P (fst s)) succs) ->
  exists tbl',
    infer_from o (i :: rest) pc tbl = infer_from o rest (S pc) tbl' /\
    length tbl' = length tbl /\
    (forall k, ~ P k -> nth_error tbl' k = nth_error tbl k).
Proof.
  intros H. destruct (nth_error tbl pc) as [[A|]|] eqn:He.
  - destruct (H A eq_refl) as (succs & Ht & Hall).
    exists (fold_left merge succs tbl). rewrite (infer_step _ _ _ _ _ _ He Ht).
    repeat split; [apply fold_merge_length|].
    intros k Hk. apply fold_merge_other. eapply Forall_impl; [|exact Hall].
    cbn. intros s Hs Heq. apply Hk. congruence.
  - exists tbl. rewrite infer_skip1 by (rewrite He; exact I). auto.
  - exists tbl. rewrite infer_skip1 by (rewrite He; exact I). auto.
Qed.

(* a weak single instruction whose successors stay within (pc, pc+1] *)
Lemma sseg1 pc i :
  (forall A, exists B, transfer o pc i A = VOk [(S pc, B)]) -> sseg pc [i].
Proof.
  intros H rest tbl Hlt Hl Hn. cbn [length app] in *.
  destruct (wstep pc i (fun k => k = S pc) rest tbl) as (t & E & L & F).
  { intros A _. destruct (H A) as [B HB]. exists [(S pc, B)]. split; auto. }
  exists t. rewrite Nat.add_1_r. repeat split; auto. intros k Hk. apply F. lia.
Qed.


(* ------------------------------------------------------------------ *)
(* Instruction-level facts                                             *)

Lemma arg_target_ok pc tgt :
  pc < tgt -> tgt <= nprog o -> arg_target o pc (OInt (zl tgt)) = VOk tgt.
Proof.
  intros H1 H2. unfold arg_target, zl. cbn [arg_int vbind].
  assert (Hb : (Z.of_nat pc <? Z.of_nat tgt)%Z && (Z.of_nat tgt <=? Z.of_nat (nprog o))%Z = true) by lia.
  rewrite Hb. cbn [vguard vbind]. rewrite Nat2Z.id. reflexivity.
Qed.

Definition idx_ok (n : N) (len : nat) : bool := (Z.of_N n <? Z.of_nat len)%Z.

Lemma arg_index_ok n len : idx_ok n len = true -> arg_index (OInt (zn n)) len = VOk (N.to_nat n).
Proof.
  unfold idx_ok, arg_index, zn. intros H. cbn [arg_int vbind].
  assert (Hb : (0 <=? Z.of_N n)%Z && (Z.of_N n <? Z.of_nat len)%Z = true) by lia.
  rewrite Hb. cbn [vguard vbind]. rewrite <- N_nat_Z, Nat2Z.id. reflexivity.
Qed.

Definition bin_rule (op : opcode) : option ((cls -> bool) * cls) :=
  match op with
  | Fadd | Fsub | Fmul | Fdiv | Fmod | Fpow => Some (float_ok, CF64)
  | Iadd | Isub | Imul | Idiv | Imod | Ipow | Shl | Shr | And | Or | Xor => Some (int_ok, CI64)
  | Cat => Some (str_ok, CStr)
  | Icmp => Some (int_ok, CBool)
  | Fcmp => Some (float_ok, CBool)
  | Scmp => Some (str_ok, CBool)
  | Cmp => Some (cmp_ok, CBool)
  | _ => None
  end.

Lemma bin_transfer op a ok c ca cb pc A :
  bin_rule op = Some (ok, c) -> ok ca = true -> ok cb = true ->
  (match op with Icmp | Fcmp | Scmp | Cmp => arg_cmp a = VOk tt | _ => True end) ->
  transfer o pc (ins op a) (cb :: ca :: A) = VOk [(S pc, c :: A)].
Proof.
  destruct op; cbn [bin_rule]; try discriminate; intros [= <- <-] Ha Hb Harg;
  unfold transfer; cbn; rewrite ?Harg; cbn; rewrite Hb; cbn; rewrite Ha; reflexivity.
Qed.

Definition un_rule (op : opcode) : option ((cls -> bool) * cls) :=
  match op with
  | I2f => Some (int_ok, CF64)
  | S2f => Some (str_ok, CF64)
  | S2i => Some (str_ok, CI64)       (* operand nil *)
  | F2s => Some (float_ok, CStr)
  | I2s => Some (int_ok, CStr)
  | Neg => Some (int_ok, CI64)
  | Length => Some (str_ok, CInt None)
  | Tolower => Some (str_ok, CStr)
  | _ => None
  end.

Lemma un_transfer op a ok c ca pc A :
  un_rule op = Some (ok, c) -> ok ca = true ->
  (match op with S2i => a = ONil | _ => True end) ->
  transfer o pc (ins op a) (ca :: A) = VOk [(S pc, c :: A)].
Proof.
  destruct op; cbn [un_rule]; try discriminate; intros [= <- <-] Ha Harg;
  unfold transfer; cbn; rewrite ?Harg; cbn; rewrite Ha; reflexivity.
Qed.

Lemma xseg_un pc c op a ok cl ca A :
  xseg pc c A (ca :: A) -> un_rule op = Some (ok, cl) -> ok ca = true ->
  (match op with S2i => a = ONil | _ => True end) ->
  xseg pc (c ++ [ins op a]) A (cl :: A).
Proof.
  intros H Hr Hok Ha. eapply xseg_app; eauto. apply xseg1. eapply un_transfer; eauto.
Qed.

Lemma xseg_bin pc c1 c2 op a ok cl ca cb A :
  xseg pc c1 A (ca :: A) -> xseg (pc + length c1) c2 (ca :: A) (cb :: ca :: A) ->
  bin_rule op = Some (ok, cl) -> ok ca = true -> ok cb = true ->
  (match op with Icmp | Fcmp | Scmp | Cmp => arg_cmp a = VOk tt | _ => True end) ->
  xseg pc (c1 ++ c2 ++ [ins op a]) A (cl :: A).
Proof.
  intros H1 H2 Hr Ha Hb Harg. eapply xseg_app; eauto. eapply xseg_app; eauto.
  apply xseg1. eapply bin_transfer; eauto.
Qed.

(* jump; push b1; jmp; push b2: the tail of a comparison, && and ||.  The
   "false" target may already have been reached from the first operand. *)
Lemma diamond pc jop b1 b2 c0 A rest tbl :
  (jop = Jnm \/ jop = Jm) -> cond_ok c0 = true ->
  S (S (S (S pc))) < length tbl -> length tbl = S (nprog o) ->
  nth_error tbl pc = Some (Some (c0 :: A)) ->
  nth_error tbl (S pc) = Some None ->
  nth_error tbl (S (S pc)) = Some None ->
  nth_error tbl (S (S (S (S pc)))) = Some None ->
  (nth_error tbl (S (S (S pc))) = Some None \/ nth_error tbl (S (S (S pc))) = Some (Some A)) ->
  exists tbl',
    infer_from o ([ins jop (OInt (zl (S (S (S pc))))); ins Push (OBool b1);
                   ins Jmp (OInt (zl (S (S (S (S pc)))))); ins Push (OBool b2)] ++ rest) pc tbl
      = infer_from o rest (S (S (S (S pc)))) tbl' /\
    length tbl' = length tbl /\
    nth_error tbl' (S (S (S (S pc)))) = Some (Some (CBool :: A)) /\
    (forall k, k > S (S (S (S pc))) -> nth_error tbl' k = nth_error tbl k).
Proof.
  intros Hj Hc Hlt Hl H0 H1 H2 H4 H3.
  assert (Hn : S (S (S (S pc))) <= nprog o) by lia.
  (* the conditional jump *)
  assert (T1 : transfer o pc (ins jop (OInt (zl (S (S (S pc)))))) (c0 :: A)
               = VOk [(S pc, A); (S (S (S pc)), A)]).
  { destruct Hj as [-> | ->]; unfold transfer; cbn [i_op i_arg ins apop vbind]; rewrite Hc;
    cbn [vbind]; rewrite arg_target_ok by lia; reflexivity. }
  set (t1 := fold_left merge [(S pc, A); (S (S (S pc)), A)] tbl).
  assert (E1 : nth_error t1 (S pc) = Some (Some A)).
  { unfold t1. cbn [fold_left]. rewrite merge_other' by lia. apply merge_none; auto. }
  assert (E3 : nth_error t1 (S (S (S pc))) = Some (Some A)).
  { unfold t1. cbn [fold_left]. destruct H3 as [H3|H3].
    - apply merge_none. rewrite merge_other' by lia. auto.
    - erewrite merge_some by (rewrite merge_other' by lia; eauto). rewrite common_refl. auto. }
  assert (O1 : forall k, k <> S pc -> k <> S (S (S pc)) -> nth_error t1 k = nth_error tbl k).
  { intros k Ha Hb. unfold t1. cbn [fold_left]. rewrite !merge_other' by lia. auto. }
  (* push b1 *)
  assert (T2 : transfer o (S pc) (ins Push (OBool b1)) A = VOk [(S (S pc), CBool :: A)]) by reflexivity.
  set (t2 := fold_left merge [(S (S pc), CBool :: A)] t1).
  assert (E2 : nth_error t2 (S (S pc)) = Some (Some (CBool :: A))).
  { unfold t2. cbn [fold_left]. apply merge_none. rewrite O1 by lia. auto. }
  assert (O2 : forall k, k <> S (S pc) -> nth_error t2 k = nth_error t1 k).
  { intros k Ha. unfold t2. cbn [fold_left]. rewrite merge_other' by lia. auto. }
  (* jmp *)
  assert (T3 : transfer o (S (S pc)) (ins Jmp (OInt (zl (S (S (S (S pc))))))) (CBool :: A)
               = VOk [(S (S (S (S pc))), CBool :: A)]).
  { unfold transfer; cbn [i_op i_arg ins vbind]. rewrite arg_target_ok by lia. reflexivity. }
  set (t3 := fold_left merge [(S (S (S (S pc))), CBool :: A)] t2).
  assert (E4 : nth_error t3 (S (S (S (S pc)))) = Some (Some (CBool :: A))).
  { unfold t3. cbn [fold_left]. apply merge_none. rewrite O2, O1 by lia. auto. }
  assert (O3 : forall k, k <> S (S (S (S pc))) -> nth_error t3 k = nth_error t2 k).
  { intros k Ha. unfold t3. cbn [fold_left]. rewrite merge_other' by lia. auto. }
  (* push b2 *)
  assert (T4 : transfer o (S (S (S pc))) (ins Push (OBool b2)) A = VOk [(S (S (S (S pc))), CBool :: A)])
    by reflexivity.
  set (t4 := fold_left merge [(S (S (S (S pc))), CBool :: A)] t3).
  exists t4. cbn [app].
  rewrite (infer_step _ _ _ _ _ _ H0 T1). fold t1.
  rewrite (infer_step _ _ _ _ _ _ E1 T2). fold t2.
  rewrite (infer_step _ _ _ _ (CBool :: A) _ E2 T3). fold t3.
  assert (E3' : nth_error t3 (S (S (S pc))) = Some (Some A)) by (rewrite O3, O2 by lia; exact E3).
  rewrite (infer_step _ _ _ _ A _ E3' T4). fold t4.
  repeat split.
  - unfold t4, t3, t2, t1. rewrite !fold_merge_length. reflexivity.
  - unfold t4. cbn [fold_left]. erewrite merge_some by eauto. rewrite common_refl. reflexivity.
  - intros k Hk. unfold t4. cbn [fold_left]. rewrite merge_other' by lia. rewrite O3, O2, O1 by lia. reflexivity.
Qed.

(* compare; jump; push; jmp; push *)
Lemma cmp_tail pc cop carg jop ok ca cb A :
  bin_rule cop = Some (ok, CBool) -> ok ca = true -> ok cb = true ->
  (match cop with Icmp | Fcmp | Scmp | Cmp => arg_cmp (OInt carg) = VOk tt | _ => True end) ->
  (jop = Jnm \/ jop = Jm) ->
  xseg pc [ins cop (OInt carg); ins jop (OInt (zl (pc + 4))); ins Push (OBool true);
           ins Jmp (OInt (zl (pc + 5))); ins Push (OBool false)] (cb :: ca :: A) (CBool :: A).
Proof.
  intros Hr Ha Hb Harg Hj rest tbl Hlt Hl He Hn. cbn [length] in *.
  pose proof (bin_transfer cop (OInt carg) ok CBool ca cb pc A Hr Ha Hb Harg) as T0.
  cbn [app]. rewrite (infer_step _ _ _ _ _ _ He T0). cbn [fold_left].
  set (t1 := merge tbl (S pc, CBool :: A)).
  assert (O1 : forall k, k <> S pc -> nth_error t1 k = nth_error tbl k).
  { intros k Hk. unfold t1. apply merge_other'. auto. }
  replace (pc + 4) with (S (S (S (S pc)))) by lia.
  replace (pc + 5) with (S (S (S (S (S pc))))) by lia.
  destruct (diamond (S pc) jop true false CBool A rest t1) as (t & E & L & X & F); auto.
  - unfold t1. rewrite merge_length. lia.
  - unfold t1. rewrite merge_length. auto.
  - unfold t1. apply merge_none. apply Hn. lia.
  - rewrite O1 by lia. apply Hn. lia.
  - rewrite O1 by lia. apply Hn. lia.
  - rewrite O1 by lia. apply Hn. lia.
  - left. rewrite O1 by lia. apply Hn. lia.
  - exists t. replace (pc + 5) with (S (S (S (S (S pc))))) by lia.
    split; [exact E|]. split; [unfold t1 in L; rewrite merge_length in L; exact L|].
    split; [exact X|]. intros k Hk. rewrite F by lia. apply O1. lia.
Qed.

(* a ; jump-if-(not) to the false/true branch ; b ; diamond   (&& and ||) *)
Lemma andor_xseg pc c1 c2 jop b1 b2 ca cb A :
  (jop = Jnm \/ jop = Jm) -> cond_ok ca = true -> cond_ok cb = true ->
  xseg pc c1 A (ca :: A) -> xseg (pc + length c1 + 1) c2 A (cb :: A) ->
  xseg pc (c1 ++ [ins jop (OInt (zl (pc + length c1 + 1 + length c2 + 3)))] ++ c2 ++
           [ins jop (OInt (zl (pc + length c1 + 1 + length c2 + 3))); ins Push (OBool b1);
            ins Jmp (OInt (zl (pc + length c1 + 1 + length c2 + 4))); ins Push (OBool b2)])
       A (CBool :: A).
Proof.
  intros Hj Hca Hcb H1 H2 rest tbl Hlt Hl He Hn.
  rewrite !app_length in *. cbn [length] in *.
  set (q := pc + length c1 + 1 + length c2) in *.
  set (tail := [ins jop (OInt (zl (q + 3))); ins Push (OBool b1); ins Jmp (OInt (zl (q + 4))); ins Push (OBool b2)]).
  rewrite <- !app_assoc.
  destruct (H1 ([ins jop (OInt (zl (q + 3)))] ++ c2 ++ tail ++ rest) tbl) as (t1 & E1 & L1 & X1 & F1); auto; try lia.
  { intros k Hk. apply Hn. lia. }
  rewrite E1. cbn [app].
  assert (T : transfer o (pc + length c1) (ins jop (OInt (zl (q + 3)))) (ca :: A)
              = VOk [(S (pc + length c1), A); (q + 3, A)]).
  { destruct Hj as [-> | ->]; unfold transfer; cbn [i_op i_arg ins apop vbind]; rewrite Hca;
    cbn [vbind]; rewrite arg_target_ok by (unfold q; lia); reflexivity. }
  rewrite (infer_step _ _ _ _ _ _ X1 T). cbn [fold_left].
  set (t2 := merge (merge t1 (S (pc + length c1), A)) (q + 3, A)).
  assert (L2 : length t2 = length tbl) by (unfold t2; rewrite !merge_length; auto).
  assert (O2 : forall k, k <> S (pc + length c1) -> k <> q + 3 -> nth_error t2 k = nth_error t1 k).
  { intros k Ha Hb. unfold t2. rewrite !merge_other' by lia. auto. }
  assert (E2 : nth_error t2 (S (pc + length c1)) = Some (Some A)).
  { unfold t2. rewrite merge_other' by (unfold q; lia). apply merge_none. rewrite F1 by lia. apply Hn. unfold q. lia. }
  assert (E23 : nth_error t2 (q + 3) = Some (Some A)).
  { unfold t2. apply merge_none. rewrite merge_other' by (unfold q; lia). rewrite F1 by (unfold q; lia).
    apply Hn. unfold q. lia. }
  replace (S (pc + length c1)) with (pc + length c1 + 1) in * by lia.
  destruct (H2 (tail ++ rest) t2) as (t3 & E3 & L3 & X3 & F3); auto; try (unfold q in *; lia).
  { intros k Hk. rewrite O2 by (unfold q; lia). rewrite F1 by lia. apply Hn. unfold q. lia. }
  rewrite E3. fold q. fold q in X3, F3.
  subst tail.
  replace (pc + (length c1 + (1 + (length c2 + 4)))) with (S (S (S (S q)))) in * by (unfold q; lia).
  replace (q + 3) with (S (S (S q))) in * by lia. replace (q + 4) with (S (S (S (S q)))) in * by lia.
  assert (Hnone : forall k, k > q -> k <> S (S (S q)) -> k <= S (S (S (S q))) -> nth_error t3 k = Some None).
  { intros k Ha Hb Hc. rewrite F3 by lia. rewrite O2 by (unfold q; lia). rewrite F1 by (unfold q; lia).
    apply Hn. unfold q in *. lia. }
  assert (D1 : S (S (S (S q))) < length t3) by (rewrite L3, L2; unfold q in *; lia).
  assert (D2 : length t3 = S (nprog o)) by congruence.
  assert (D3 : nth_error t3 (S (S (S q))) = Some (Some A)) by (rewrite F3 by lia; exact E23).
  destruct (diamond q jop b1 b2 cb A rest t3 Hj Hcb D1 D2 X3
              (Hnone (S q) ltac:(lia) ltac:(lia) ltac:(lia)) (Hnone (S (S q)) ltac:(lia) ltac:(lia) ltac:(lia))
              (Hnone (S (S (S (S q)))) ltac:(lia) ltac:(lia) ltac:(lia)) (or_intror D3)) as (t & E & L & X & F).
  exists t.
  split; [exact E|]. split; [exact (eq_trans L (eq_trans L3 L2))|]. split; [exact X|].
  intros k Hk. rewrite F by lia. rewrite F3 by lia. rewrite O2 by (unfold q; lia). apply F1. unfold q in *. lia.
Qed.

(* ------------------------------------------------------------------ *)
(* Class inference on the tree = the fragment                          *)

Definition nre := length (p_res p).
Definition nstrs := length (p_strs p).

Definition cap_cls (t : ty) : cls := match t with TFloat => CF64 | TInt => CI64 | _ => CStr end.
Definition get_cls (t : ty) : cls := match t with TFloat => CF64 | TStr => CStr | _ => CI64 end.

Definition conv_cls (f t : ty) (c : cls) : option cls :=
  match f, t with
  | TInt, TFloat => if int_ok c then Some CF64 else None
  | TStr, TFloat => if str_ok c then Some CF64 else None
  | TStr, TInt => if str_ok c then Some CI64 else None
  | TFloat, TStr => if float_ok c then Some CStr else None
  | TInt, TStr => if int_ok c then Some CStr else None
  | _, _ => Some c
  end.

Definition bin_cls (op : opcode) (a b : option cls) : option cls :=
  match bin_rule op, a, b with
  | Some (ok, c), Some ca, Some cb => if ok ca && ok cb then Some c else None
  | _, _, _ => None
  end.

Definition un_cls (op : opcode) (a : option cls) : option cls :=
  match un_rule op, a with
  | Some (ok, c), Some ca => if ok ca then Some c else None
  | _, _ => None
  end.

(* the metric exists and is given as many keys as it has dimensions *)
Definition metric_ok (m : N) (n : nat) : bool :=
  match nth_error D (N.to_nat m) with
  | Some d => Nat.eqb n (N.to_nat (md_nkeys d))
  | None => false
  end.

Fixpoint ce (e : expr) {struct e} : option cls :=
  match e with
  | EInt _ => Some CI64
  | EFloat _ => Some CF64
  | EStr sid _ => if idx_ok sid nstrs then Some CStr else None
  | ECap _ _ t => Some (cap_cls t)
  | EConv f t a => match ce a with Some c => conv_cls f t c | None => None end
  | EArith op t a b => bin_cls (arith_op op t) (ce a) (ce b)
  | EBit op a b => bin_cls (bit_op op) (ce a) (ce b)
  | ENeg a => un_cls Neg (ce a)
  | ECmp _ t typed a b => bin_cls (cmp_opcode t typed) (ce a) (ce b)
  | EAnd a b | EOr a b =>
      match ce a, ce b with
      | Some ca, Some cb => if cond_ok ca && cond_ok cb then Some CBool else None
      | _, _ => None
      end
  | EMatch pid => if idx_ok pid nre then Some CBool else None
  | ESMatch _ a pid =>
      match ce a with
      | Some c => if str_ok c && idx_ok pid nre then Some CBool else None
      | None => None
      end
  | EGet m ks => if keys_ok ks && metric_ok m (exprs_len ks) then Some (get_cls (mty D m)) else None
  | ELen a => un_cls Length (ce a)
  | ETolower a => un_cls Tolower (ce a)
  | EStrtol a b =>
      match ce a, ce b with
      | Some ca, Some cb => if str_ok ca && int_ok cb then Some CI64 else None
      | _, _ => None
      end
  | ESubst x y z =>
      match ce x, ce y, ce z with
      | Some cx, Some cy, Some cz => if str_ok cx && str_ok cy && str_ok cz then Some CStr else None
      | _, _, _ => None
      end
  | ERsubst pid y z =>
      match ce y, ce z with
      | Some cy, Some cz => if str_ok cy && str_ok cz && idx_ok pid nre then Some CStr else None
      | _, _ => None
      end
  | ETimestamp => Some CI64
  | EGetfilename => Some CStr
  | EIncr _ m ks =>
      (* x++ / x-- as a value: keys; mload; dload; inc/dec leaves the new int64 *)
      if keys_ok ks && metric_ok m (exprs_len ks) && mtype_eqb (mtype_of (mty D m)) TyInt
      then Some CI64 else None
  end
with keys_ok (ks : exprs) {struct ks} : bool :=
  match ks with
  | XNil => true
  | XCons e r => match ce e with Some c => str_ok c && keys_ok r | None => false end
  end.

Lemma apop_n_app L : forall A, forallb str_ok L = true -> apop_n str_ok (length L) (L ++ A) = VOk A.
Proof.
  induction L as [|c L IH]; intros A H; cbn in *; auto.
  apply andb_true_iff in H as [H1 H2]. rewrite H1. cbn. auto.
Qed.

Lemma metric_ok_inv m n :
  metric_ok m n = true ->
  exists d, nth_error D (N.to_nat m) = Some d /\ n = N.to_nat (md_nkeys d) /\
            idx_ok m (length (o_metrics o)) = true /\
            nth_error (o_metrics o) (N.to_nat m) = Some (mdesc_of d) /\ mty D m = md_ty d.
Proof.
  unfold metric_ok, mty. destruct (nth_error D (N.to_nat m)) as [d|] eqn:Hd; try discriminate.
  intros H. apply Nat.eqb_eq in H. exists d. repeat split; auto.
  - assert (N.to_nat m < length D) by (apply nth_error_Some; congruence).
    unfold idx_ok, o, codegen. cbn [o_metrics]. rewrite map_length. fold D. lia.
  - unfold o, codegen. cbn [o_metrics]. fold D. rewrite nth_error_map, Hd. reflexivity.
Qed.

(* keys ; mload m ; dload n  leaves the datum of m[keys] *)
Lemma lval_xseg pc c m n L A :
  xseg pc c A (L ++ A) -> length L = n -> forallb str_ok L = true -> metric_ok m n = true ->
  xseg pc (c ++ [ins Mload (OInt (zn m)); ins Dload (OInt (zl n))]) A
       (CDatum (mtype_of (mty D m)) :: A).
Proof.
  intros Hc HL Hs Hm. destruct (metric_ok_inv _ _ Hm) as (d & Hd & Hn & Hi & Hmd & Hty).
  eapply xseg_app; [exact Hc|].
  change [ins Mload (OInt (zn m)); ins Dload (OInt (zl n))]
    with ([ins Mload (OInt (zn m))] ++ [ins Dload (OInt (zl n))]).
  eapply xseg_app.
  - apply xseg1. unfold transfer. cbn [i_op i_arg ins vbind]. rewrite (arg_index_ok _ _ Hi). reflexivity.
  - apply xseg1. unfold transfer. cbn [i_op i_arg ins]. unfold apop_metric_keys.
    rewrite Hmd. unfold zl. cbn [arg_int vbind md_arity mdesc_of].
    assert (Hg : (Z.of_nat n =? Z.of_nat (N.to_nat (md_nkeys d)))%Z = true) by lia.
    rewrite Hg. cbn [vguard vbind]. rewrite <- Hn, <- HL. rewrite apop_n_app by auto.
    cbn [vbind md_type mdesc_of]. rewrite Hty. reflexivity.
Qed.

Lemma get_transfer t pc A :
  transfer o pc (ins (get_op t) ONil) (CDatum (mtype_of t) :: A) = VOk [(S pc, get_cls t :: A)].
Proof. destruct t; reflexivity. Qed.

Scheme expr_mind := Induction for expr Sort Prop
  with exprs_mind := Induction for exprs Sort Prop.
Combined Scheme expr_exprs_ind from expr_mind, exprs_mind.

Ltac inv_bin H :=
  unfold bin_cls in H;
  match type of H with
  | match bin_rule ?op with _ => _ end = _ =>
      let ok := fresh "ok" in let cl := fresh "cl" in let Hr := fresh "Hr" in
      destruct (bin_rule op) as [[ok cl]|] eqn:Hr; try discriminate
  end.

Lemma cexpr_xseg :
  (forall e, forall c, ce e = Some c -> forall pc A, xseg pc (cexpr D pc e) A (c :: A)) /\
  (forall ks, keys_ok ks = true -> forall pc A,
     exists L, length L = exprs_len ks /\ forallb str_ok L = true /\
               xseg pc (cexprs D pc ks) A (L ++ A)).
Proof.
  apply expr_exprs_ind.
  - (* EInt *) intros z c [= <-] pc A. apply xseg1. reflexivity.
  - (* EFloat *) intros b c [= <-] pc A. apply xseg1. reflexivity.
  - (* EStr *)
    intros sid s c H pc A. cbn in H. destruct (idx_ok sid nstrs) eqn:Hi; try discriminate.
    injection H as <-. apply xseg1. unfold transfer. cbn [i_op i_arg ins vbind].
    unfold nstrs in Hi. rewrite (arg_index_ok sid (length (o_strs o)) Hi). reflexivity.
  - (* ECap *)
    intros pid grp t c [= <-] pc A. cbn [cexpr].
    assert (Hcap : xseg pc [ins Push (OInt (zn pid)); ins Capref (OInt (zn grp))] A (CStr :: A)).
    { change [ins Push (OInt (zn pid)); ins Capref (OInt (zn grp))]
        with ([ins Push (OInt (zn pid))] ++ [ins Capref (OInt (zn grp))]).
      eapply xseg_app; apply xseg1; [reflexivity|].
      unfold transfer, zn. cbn [i_op i_arg ins apop is_cint vbind arg_int].
      assert (Hg : (0 <=? Z.of_N grp)%Z = true) by lia. rewrite Hg. reflexivity. }
    destruct t; cbn [cap_cls].
    + eapply xseg_app; [exact Hcap|]. apply xseg1. reflexivity.
    + eapply xseg_app; [exact Hcap|]. apply xseg1. reflexivity.
    + rewrite app_nil_r. exact Hcap.
    + rewrite app_nil_r. exact Hcap.
  - (* EConv *)
    intros f t a IH c H pc A. cbn in H. destruct (ce a) as [c0|] eqn:Ha; try discriminate.
    specialize (IH c0 eq_refl pc A). cbn [cexpr].
    destruct f, t; cbn in H; cbn [conv_code];
    try (injection H as <-; rewrite app_nil_r; exact IH);
    match type of H with (if ?b then _ else _) = _ => destruct b eqn:Hb; try discriminate end;
    injection H as <-; eapply xseg_un; eauto; reflexivity.
  - (* EArith *)
    intros op t a IHa b IHb c H pc A. cbn in H. inv_bin H.
    destruct (ce a) as [ca|] eqn:Ha; try discriminate. destruct (ce b) as [cb|] eqn:Hb; try discriminate.
    destruct (ok ca) eqn:Hoa; try discriminate. destruct (ok cb) eqn:Hob; try discriminate.
    injection H as <-. cbn [cexpr]. cbv zeta.
    eapply xseg_bin; eauto. destruct op, t; cbn in Hr |- *; try discriminate; auto.
  - (* EBit *)
    intros op a IHa b IHb c H pc A. cbn in H. inv_bin H.
    destruct (ce a) as [ca|] eqn:Ha; try discriminate. destruct (ce b) as [cb|] eqn:Hb; try discriminate.
    destruct (ok ca) eqn:Hoa; try discriminate. destruct (ok cb) eqn:Hob; try discriminate.
    injection H as <-. cbn [cexpr]. cbv zeta.
    eapply xseg_bin; eauto. destruct op; cbn; auto.
  - (* ENeg *)
    intros a IH c H pc A. cbn in H. unfold un_cls in H. cbn [un_rule] in H.
    destruct (ce a) as [ca|] eqn:Ha; try discriminate. destruct (int_ok ca) eqn:Hok; try discriminate.
    injection H as <-. cbn [cexpr]. eapply xseg_un; eauto; reflexivity.
  - (* ECmp *)
    intros op t typed a IHa b IHb c H pc A. cbn in H. inv_bin H.
    destruct (ce a) as [ca|] eqn:Ha; try discriminate. destruct (ce b) as [cb|] eqn:Hb; try discriminate.
    destruct (ok ca) eqn:Hoa; try discriminate. destruct (ok cb) eqn:Hob; try discriminate.
    injection H as <-. cbn [cexpr]. cbv zeta.
    assert (Hcl : cl = CBool).
    { destruct t, typed; cbn in Hr; injection Hr as _ <-; reflexivity. }
    subst cl.
    eapply xseg_app; [eapply IHa; eauto|]. eapply xseg_app; [eapply IHb; eauto|].
    rewrite <- Nat.add_assoc.
    eapply cmp_tail; eauto.
    + destruct t, typed, op; reflexivity.
    + destruct op; cbn; auto.
  - (* EAnd *)
    intros a IHa b IHb c H pc A. cbn in H.
    destruct (ce a) as [ca|] eqn:Ha; try discriminate. destruct (ce b) as [cb|] eqn:Hb; try discriminate.
    destruct (cond_ok ca) eqn:Hoa; try discriminate. destruct (cond_ok cb) eqn:Hob; try discriminate.
    injection H as <-. cbn [cexpr]. cbv zeta.
    eapply (andor_xseg pc _ _ Jnm true false ca cb A); eauto.
  - (* EOr *)
    intros a IHa b IHb c H pc A. cbn in H.
    destruct (ce a) as [ca|] eqn:Ha; try discriminate. destruct (ce b) as [cb|] eqn:Hb; try discriminate.
    destruct (cond_ok ca) eqn:Hoa; try discriminate. destruct (cond_ok cb) eqn:Hob; try discriminate.
    injection H as <-. cbn [cexpr]. cbv zeta.
    eapply (andor_xseg pc _ _ Jm false true ca cb A); eauto.
  - (* EMatch *)
    intros pid c H pc A. cbn in H. destruct (idx_ok pid nre) eqn:Hi; try discriminate.
    injection H as <-. apply xseg1. unfold transfer. cbn [i_op i_arg ins vbind].
    unfold nre in Hi. rewrite (arg_index_ok pid (o_nre o) Hi). reflexivity.
  - (* ESMatch *)
    intros neg a IH pid c H pc A. cbn in H.
    destruct (ce a) as [ca|] eqn:Ha; try discriminate.
    destruct (str_ok ca) eqn:Hok; try discriminate. destruct (idx_ok pid nre) eqn:Hi; try discriminate.
    injection H as <-. cbn [cexpr].
    assert (Hsm : xseg pc (cexpr D pc a ++ [ins Smatch (OInt (zn pid))]) A (CBool :: A)).
    { eapply xseg_app; [eapply IH; eauto|]. apply xseg1. unfold transfer. cbn [i_op i_arg ins vbind].
      unfold nre in Hi. rewrite (arg_index_ok pid (o_nre o) Hi). cbn [vbind apop]. rewrite Hok. reflexivity. }
    destruct neg.
    + rewrite app_assoc. eapply xseg_app; [exact Hsm|]. apply xseg1. reflexivity.
    + rewrite app_nil_r. exact Hsm.
  - (* EGet *)
    intros m ks IH c H pc A. cbn in H.
    destruct (keys_ok ks) eqn:Hk; try discriminate. destruct (metric_ok m (exprs_len ks)) eqn:Hm; try discriminate.
    injection H as <-. cbn [cexpr].
    destruct (IH eq_refl pc A) as (L & HL & Hs & Hx).
    change [ins Mload (OInt (zn m)); ins Dload (OInt (zl (exprs_len ks))); ins (get_op (mty D m)) ONil]
      with ([ins Mload (OInt (zn m)); ins Dload (OInt (zl (exprs_len ks)))] ++ [ins (get_op (mty D m)) ONil]).
    rewrite app_assoc. eapply xseg_app; [eapply lval_xseg; eauto|].
    apply xseg1. apply get_transfer.
  - (* ELen *)
    intros a IH c H pc A. cbn in H. unfold un_cls in H. cbn [un_rule] in H.
    destruct (ce a) as [ca|] eqn:Ha; try discriminate. destruct (str_ok ca) eqn:Hok; try discriminate.
    injection H as <-. cbn [cexpr]. eapply xseg_un; eauto; reflexivity.
  - (* ETolower *)
    intros a IH c H pc A. cbn in H. unfold un_cls in H. cbn [un_rule] in H.
    destruct (ce a) as [ca|] eqn:Ha; try discriminate. destruct (str_ok ca) eqn:Hok; try discriminate.
    injection H as <-. cbn [cexpr]. eapply xseg_un; eauto; reflexivity.
  - (* EStrtol *)
    intros a IHa b IHb c H pc A. cbn in H.
    destruct (ce a) as [ca|] eqn:Ha; try discriminate. destruct (ce b) as [cb|] eqn:Hb; try discriminate.
    destruct (str_ok ca) eqn:Hoa; try discriminate. destruct (int_ok cb) eqn:Hob; try discriminate.
    injection H as <-. cbn [cexpr]. cbv zeta.
    eapply xseg_app; [eapply IHa; eauto|]. eapply xseg_app; [eapply IHb; eauto|].
    apply xseg1. unfold transfer. cbn [i_op i_arg ins apop vbind]. rewrite Hob. cbn [vbind apop].
    rewrite Hoa. reflexivity.
  - (* ESubst *)
    intros x IHx y IHy z IHz c H pc A. cbn in H.
    destruct (ce x) as [cx|] eqn:Hx; try discriminate. destruct (ce y) as [cy|] eqn:Hy; try discriminate.
    destruct (ce z) as [cz|] eqn:Hz; try discriminate.
    destruct (str_ok cx) eqn:Hox; try discriminate. destruct (str_ok cy) eqn:Hoy; try discriminate.
    destruct (str_ok cz) eqn:Hoz; try discriminate.
    injection H as <-. cbn [cexpr]. cbv zeta.
    eapply xseg_app; [eapply IHx; eauto|]. eapply xseg_app; [eapply IHy; eauto|].
    rewrite <- Nat.add_assoc. eapply xseg_app; [rewrite Nat.add_assoc; eapply IHz; eauto|].
    apply xseg1. unfold transfer. cbn [i_op i_arg ins apop vbind]. rewrite Hoz. cbn [vbind apop].
    rewrite Hoy. cbn [vbind apop]. rewrite Hox. reflexivity.
  - (* ERsubst *)
    intros pid y IHy z IHz c H pc A. cbn in H.
    destruct (ce y) as [cy|] eqn:Hy; try discriminate. destruct (ce z) as [cz|] eqn:Hz; try discriminate.
    destruct (str_ok cy) eqn:Hoy; try discriminate. destruct (str_ok cz) eqn:Hoz; try discriminate.
    destruct (idx_ok pid nre) eqn:Hi; try discriminate.
    injection H as <-. cbn [cexpr]. cbv zeta.
    eapply xseg_app; [eapply IHy; eauto|]. eapply xseg_app; [eapply IHz; eauto|].
    change [ins Push (OInt (zn pid)); ins Rsubst (OInt 3%Z)]
      with ([ins Push (OInt (zn pid))] ++ [ins Rsubst (OInt 3%Z)]).
    eapply xseg_app; apply xseg1; [reflexivity|].
    unfold transfer. cbn [i_op i_arg ins cls_of_operand].
    unfold idx_ok, nre in Hi.
    assert (Hg : (0 <=? zn pid)%Z && (zn pid <? Z.of_nat (o_nre o))%Z = true) by (unfold zn; cbn; lia).
    rewrite Hg. cbn [vguard vbind apop]. rewrite Hoz. cbn [vbind apop]. rewrite Hoy. reflexivity.
  - (* ETimestamp *) intros c [= <-] pc A. apply xseg1. reflexivity.
  - (* EGetfilename *) intros c [= <-] pc A. apply xseg1. reflexivity.
  - (* EIncr *)
    intros dec m ks IH c H pc A. cbn in H.
    destruct (keys_ok ks) eqn:Hk; try discriminate. destruct (metric_ok m (exprs_len ks)) eqn:Hm; try discriminate.
    destruct (mtype_eqb (mtype_of (mty D m)) TyInt) eqn:Ht; try discriminate.
    injection H as <-. cbn [cexpr].
    destruct (IH eq_refl pc A) as (L & HL & Hs & Hx).
    change [ins Mload (OInt (zn m)); ins Dload (OInt (zl (exprs_len ks))); ins (if dec then Dec else Inc) ONil]
      with ([ins Mload (OInt (zn m)); ins Dload (OInt (zl (exprs_len ks)))] ++ [ins (if dec then Dec else Inc) ONil]).
    rewrite app_assoc. eapply xseg_app; [eapply lval_xseg; eauto|].
    apply xseg1. destruct (mtype_of (mty D m)); try discriminate. destruct dec; reflexivity.
  - (* XNil *) intros _ pc A. exists []. repeat split; auto. apply xseg_nil.
  - (* XCons *)
    intros e IHe r IHr H pc A. cbn in H.
    destruct (ce e) as [c|] eqn:He; try discriminate. apply andb_true_iff in H as [Hc Hr].
    destruct (IHr Hr (pc + length (cexpr D pc e)) (c :: A)) as (L & HL & Hs & Hx).
    exists (L ++ [c]). repeat split.
    + rewrite app_length. cbn. lia.
    + rewrite forallb_app, Hs. cbn. rewrite Hc. reflexivity.
    + cbn [cexprs]. cbv zeta. eapply xseg_app; [eapply IHe; eauto|].
      rewrite <- app_assoc. exact Hx.
Qed.

Definition cexpr_ok := proj1 cexpr_xseg.
Definition ckeys_ok := proj2 cexpr_xseg.

(* ------------------------------------------------------------------ *)
(* Statements                                                          *)

(* a strict prefix followed by one falling-through instruction *)
Lemma sseg_x1 pc c i :
  (forall A, exists B B', xseg pc c A B /\
     transfer o (pc + length c) i B = VOk [(S (pc + length c), B')]) ->
  sseg pc (c ++ [i]).
Proof.
  intros H. apply sseg_cases. intros A rest tbl Hlt Hl He Hn.
  rewrite app_length in *. cbn [length] in *.
  destruct (H A) as (B & B' & Hx & Ht).
  destruct (Hx ([i] ++ rest) tbl) as (t1 & E1 & L1 & X1 & F1); auto; try lia.
  { intros k Hk. apply Hn. lia. }
  rewrite <- app_assoc, E1. cbn [app]. rewrite (infer_step _ _ _ _ _ _ X1 Ht). cbn [fold_left].
  exists (merge t1 (S (pc + length c), B')). replace (pc + (length c + 1)) with (S (pc + length c)) by lia.
  repeat split.
  - rewrite merge_length. exact L1.
  - intros k Hk. rewrite merge_other' by lia. apply F1. lia.
Qed.

Lemma sseg_stop pc : sseg pc [ins Stop ONil].
Proof.
  intros rest tbl Hlt Hl Hn. cbn [length app] in *.
  destruct (wstep pc (ins Stop ONil) (fun _ => False) rest tbl) as (t & E & L & F).
  { intros A _. exists []. split; [reflexivity|constructor]. }
  exists t. rewrite Nat.add_1_r. repeat split; auto.
Qed.

Lemma setmatched_sseg pc b : sseg pc [ins Setmatched (OBool b)].
Proof. apply sseg1. intros A. exists A. reflexivity. Qed.

(* cond ; jnm END ; setmatched false ; block ; setmatched true ; END: *)
Lemma cond_sseg pc cc ct c0 :
  (forall A, xseg pc cc A (c0 :: A)) -> cond_ok c0 = true ->
  sseg (pc + length cc + 2) ct ->
  sseg pc (cc ++ [ins Jnm (OInt (zl (pc + length cc + 2 + length ct + 1))); ins Setmatched (OBool false)]
              ++ ct ++ [ins Setmatched (OBool true)]).
Proof.
  intros Hcc Hc0 Hct. apply sseg_cases. intros A rest tbl Hlt Hl He Hn.
  rewrite !app_length in *. cbn [length] in *.
  set (q := pc + length cc) in *.
  set (lend := q + 2 + length ct + 1) in *.
  assert (Hend : pc + (length cc + (2 + (length ct + 1))) = lend) by (unfold lend, q; lia).
  rewrite Hend in *.
  rewrite <- !app_assoc.
  destruct (Hcc A ([ins Jnm (OInt (zl lend)); ins Setmatched (OBool false)] ++ ct ++ [ins Setmatched (OBool true)] ++ rest) tbl)
    as (t1 & E1 & L1 & X1 & F1); auto; try (unfold lend, q in *; lia).
  { intros k Hk. apply Hn. unfold lend, q in *. lia. }
  rewrite E1. fold q. fold q in X1, F1. cbn [app].
  assert (T : transfer o q (ins Jnm (OInt (zl lend))) (c0 :: A) = VOk [(S q, A); (lend, A)]).
  { unfold transfer; cbn [i_op i_arg ins apop vbind]; rewrite Hc0; cbn [vbind].
    rewrite arg_target_ok by (unfold lend in *; lia). reflexivity. }
  rewrite (infer_step _ _ _ _ _ _ X1 T). cbn [fold_left].
  set (t2 := merge (merge t1 (S q, A)) (lend, A)).
  assert (L2 : length t2 = length tbl) by (unfold t2; rewrite !merge_length; exact L1).
  assert (O2 : forall k, k <> S q -> k <> lend -> nth_error t2 k = nth_error t1 k).
  { intros k Ha Hb. unfold t2. rewrite !merge_other' by lia. auto. }
  destruct (wstep (S q) (ins Setmatched (OBool false)) (fun k => k = S (S q))
              (ct ++ ins Setmatched (OBool true) :: rest) t2) as (t3 & E3 & L3 & F3).
  { intros A' _. exists [(S (S q), A')]. split; [reflexivity|]. constructor; [reflexivity|constructor]. }
  rewrite E3.
  replace (S (S q)) with (q + 2) in * by lia.
  destruct (Hct (ins Setmatched (OBool true) :: rest) t3) as (t4 & E4 & L4 & F4).
  { rewrite L3, L2. unfold lend in *. lia. }
  { rewrite L3, L2. exact Hl. }
  { intros k Hk. rewrite F3 by lia. rewrite O2 by (unfold lend; lia). rewrite F1 by lia.
    apply Hn. unfold lend in *. lia. }
  rewrite E4. cbn [app].
  destruct (wstep (q + 2 + length ct) (ins Setmatched (OBool true)) (fun k => k = lend) rest t4) as (t5 & E5 & L5 & F5).
  { intros A' _. exists [(S (q + 2 + length ct), A')]. split; [reflexivity|].
    constructor; [unfold lend; cbn; lia|constructor]. }
  rewrite E5. replace (S (q + 2 + length ct)) with lend by (unfold lend; lia).
  exists t5. repeat split.
  - rewrite L5, L4, L3. exact L2.
  - intros k Hk. rewrite F5 by lia. rewrite F4 by (unfold lend in *; lia). rewrite F3 by (unfold lend in *; lia).
    rewrite O2 by (unfold lend in *; lia). apply F1. unfold lend in *. lia.
Qed.

(* cond ; jnm ELSE ; setmatched false ; block ; setmatched true ; jmp END ; ELSE: block ; END: *)
Lemma condelse_sseg pc cc ct ce' c0 :
  (forall A, xseg pc cc A (c0 :: A)) -> cond_ok c0 = true ->
  sseg (pc + length cc + 2) ct ->
  sseg (pc + length cc + 2 + length ct + 2) ce' ->
  sseg pc (cc ++ [ins Jnm (OInt (zl (pc + length cc + 2 + length ct + 2))); ins Setmatched (OBool false)]
              ++ ct ++ [ins Setmatched (OBool true);
                        ins Jmp (OInt (zl (pc + length cc + 2 + length ct + 2 + length ce')))] ++ ce').
Proof.
  intros Hcc Hc0 Hct Hce. apply sseg_cases. intros A rest tbl Hlt Hl He Hn.
  rewrite !app_length in *. cbn [length] in *.
  set (q := pc + length cc) in *.
  set (lelse := q + 2 + length ct + 2) in *.
  set (lend := lelse + length ce') in *.
  assert (Hend : pc + (length cc + (2 + (length ct + (2 + length ce')))) = lend) by (unfold lend, lelse, q; lia).
  rewrite Hend in *.
  rewrite <- !app_assoc.
  destruct (Hcc A ([ins Jnm (OInt (zl lelse)); ins Setmatched (OBool false)] ++ ct ++
                   [ins Setmatched (OBool true); ins Jmp (OInt (zl lend))] ++ ce' ++ rest) tbl)
    as (t1 & E1 & L1 & X1 & F1); auto; try (unfold lend, lelse, q in *; lia).
  { intros k Hk. apply Hn. unfold lend, lelse, q in *. lia. }
  rewrite E1. fold q. fold q in X1, F1. cbn [app].
  assert (T : transfer o q (ins Jnm (OInt (zl lelse))) (c0 :: A) = VOk [(S q, A); (lelse, A)]).
  { unfold transfer; cbn [i_op i_arg ins apop vbind]; rewrite Hc0; cbn [vbind].
    rewrite arg_target_ok by (unfold lend, lelse in *; lia). reflexivity. }
  rewrite (infer_step _ _ _ _ _ _ X1 T). cbn [fold_left].
  set (t2 := merge (merge t1 (S q, A)) (lelse, A)).
  assert (L2 : length t2 = length tbl) by (unfold t2; rewrite !merge_length; exact L1).
  assert (O2 : forall k, k <> S q -> k <> lelse -> nth_error t2 k = nth_error t1 k).
  { intros k Ha Hb. unfold t2. rewrite !merge_other' by lia. auto. }
  destruct (wstep (S q) (ins Setmatched (OBool false)) (fun k => k = S (S q))
              (ct ++ ins Setmatched (OBool true) :: ins Jmp (OInt (zl lend)) :: ce' ++ rest) t2)
    as (t3 & E3 & L3 & F3).
  { intros A' _. exists [(S (S q), A')]. split; [reflexivity|]. constructor; [reflexivity|constructor]. }
  rewrite E3.
  replace (S (S q)) with (q + 2) in * by lia.
  destruct (Hct (ins Setmatched (OBool true) :: ins Jmp (OInt (zl lend)) :: ce' ++ rest) t3) as (t4 & E4 & L4 & F4).
  { rewrite L3, L2. unfold lend, lelse in *. lia. }
  { rewrite L3, L2. exact Hl. }
  { intros k Hk. rewrite F3 by lia. rewrite O2 by (unfold lelse; lia). rewrite F1 by lia.
    apply Hn. unfold lend, lelse in *. lia. }
  rewrite E4.
  set (pe := q + 2 + length ct) in *.
  destruct (wstep pe (ins Setmatched (OBool true)) (fun k => k = S pe)
              (ins Jmp (OInt (zl lend)) :: ce' ++ rest) t4) as (t5 & E5 & L5 & F5).
  { intros A' _. exists [(S pe, A')]. split; [reflexivity|]. constructor; [reflexivity|constructor]. }
  rewrite E5.
  destruct (wstep (S pe) (ins Jmp (OInt (zl lend))) (fun k => k = lend) (ce' ++ rest) t5) as (t6 & E6 & L6 & F6).
  { intros A' _. exists [(lend, A')]. split.
    - unfold transfer. cbn [i_op i_arg ins vbind].
      rewrite arg_target_ok by (unfold lend, lelse, pe in *; lia). reflexivity.
    - constructor; [reflexivity|constructor]. }
  rewrite E6. replace (S (S pe)) with lelse by (unfold lelse, pe; lia).
  destruct (Hce rest t6) as (t7 & E7 & L7 & F7).
  { rewrite L6, L5, L4, L3, L2. unfold lend in *. unfold lelse, pe in *. lia. }
  { rewrite L6, L5, L4, L3, L2. exact Hl. }
  { fold lelse. intros k Hk. rewrite F6 by (unfold lend; lia). rewrite F5 by (unfold lelse, pe in *; lia).
    rewrite F4 by (unfold lelse, pe in *; lia). rewrite F3 by (unfold lelse, pe in *; lia).
    rewrite O2 by (unfold lelse, pe in *; lia). rewrite F1 by (unfold lelse, pe in *; lia).
    apply Hn. unfold lend, lelse, pe in *. lia. }
  fold lelse in E7, F7. fold lend in E7, F7. rewrite E7.
  exists t7. repeat split.
  - rewrite L7, L6, L5, L4, L3. exact L2.
  - intros k Hk. rewrite F7 by lia. rewrite F6 by lia. rewrite F5 by (unfold lend, lelse, pe in *; lia).
    rewrite F4 by (unfold lend, lelse, pe in *; lia). rewrite F3 by (unfold lend, lelse, pe in *; lia).
    rewrite O2 by (unfold lend, lelse, pe in *; lia). apply F1. unfold lend, lelse, pe in *. lia.
Qed.

(* ---- acceptance of statements ---- *)
Definition dty (m : N) : mtype := mtype_of (mty D m).
Definition lval_ok (m : N) (ks : exprs) : bool := keys_ok ks && metric_ok m (exprs_len ks).

Definition set_ok (t : ty) (c : cls) (mt : mtype) : bool :=
  match t with
  | TFloat => float_ok c && mtype_eqb mt TyFloat
  | TStr => str_ok c && mtype_eqb mt TyString
  | _ => int_ok c && mtype_eqb mt TyInt
  end.

Fixpoint cs (s : stmt) {struct s} : bool :=
  match s with
  | SInc m ks | SDec m ks => lval_ok m ks && mtype_eqb (dty m) TyInt
  | SSet t m ks e =>
      lval_ok m ks && match ce e with Some c => set_ok t c (dty m) | None => false end
  | SAddTo t m ks e =>
      lval_ok m ks &&
      match ce e with
      | Some c =>
          match t with
          | TInt | TBool => int_ok c && mtype_eqb (dty m) TyInt
          | _ => lval_ok m (shift_exprs (nstr_exprs ks) ks) && set_ok t c (dty m)
          end
      | None => false
      end
  | SSettime e => match ce e with Some c => is_cls CI64 c | None => false end
  | SStrptime e sid _ =>
      match ce e with Some c => is_cls CStr c && idx_ok sid nstrs | None => false end
  | SCond c th => match ce c with Some k => cond_ok k | None => false end && cb th
  | SCondElse c th el => match ce c with Some k => cond_ok k | None => false end && cb th && cb el
  | SOtherwise th => cb th
  | SDel m ks => lval_ok m ks
  | SExpire m ks _ => lval_ok m ks
  | SStop => true
  end
with cb (b : block) {struct b} : bool :=
  match b with BNil => true | BCons s r => cs s && cb r end.

Definition accepts : bool := cb (p_body p).

Lemma mtype_eqb_eq a b : mtype_eqb a b = true -> a = b.
Proof. destruct a, b; cbn; congruence. Qed.

Lemma clval_xseg pc m ks A :
  lval_ok m ks = true -> xseg pc (clval D pc m ks) A (CDatum (dty m) :: A).
Proof.
  unfold lval_ok. intros H. apply andb_true_iff in H as [Hk Hm].
  destruct (ckeys_ok ks Hk pc A) as (L & HL & Hs & Hx).
  unfold clval. eapply lval_xseg; eauto.
Qed.

(* keys ; mload : the metric on top of its keys *)
Lemma mload_keys pc m ks A :
  lval_ok m ks = true ->
  exists L d, xseg pc (cexprs D pc ks ++ [ins Mload (OInt (zn m))]) A (CMetric (N.to_nat m) :: L ++ A) /\
    forall a, a = OInt (zl (exprs_len ks)) ->
      apop_metric_keys o a (CMetric (N.to_nat m) :: L ++ A) = VOk (mdesc_of d, A).
Proof.
  unfold lval_ok. intros H. apply andb_true_iff in H as [Hk Hm].
  destruct (ckeys_ok ks Hk pc A) as (L & HL & Hs & Hx).
  destruct (metric_ok_inv _ _ Hm) as (d & Hd & Hn & Hi & Hmd & Hty).
  exists L, d. split.
  - eapply xseg_app; [exact Hx|]. apply xseg1. unfold transfer. cbn [i_op i_arg ins vbind].
    rewrite (arg_index_ok _ _ Hi). reflexivity.
  - intros a ->. unfold apop_metric_keys. rewrite Hmd. unfold zl. cbn [arg_int vbind md_arity mdesc_of].
    assert (Hg : (Z.of_nat (exprs_len ks) =? Z.of_nat (N.to_nat (md_nkeys d)))%Z = true) by lia.
    rewrite Hg. cbn [vguard vbind]. rewrite <- Hn, <- HL. rewrite apop_n_app by auto. reflexivity.
Qed.

Scheme stmt_mind := Induction for stmt Sort Prop
  with block_mind := Induction for block Sort Prop.
Combined Scheme stmt_block_ind from stmt_mind, block_mind.

Lemma cstmt_sseg :
  (forall s, cs s = true -> forall pc, sseg pc (cstmt D pc s)) /\
  (forall b, cb b = true -> forall pc, sseg pc (cblock D pc b)).
Proof.
  apply stmt_block_ind.
  - (* SInc *)
    intros m ks H pc. cbn in H. apply andb_true_iff in H as [Hl Ht]. apply mtype_eqb_eq in Ht.
    cbn [cstmt]. apply sseg_x1. intros A. exists (CDatum (dty m) :: A), (CI64 :: A).
    split; [apply clval_xseg; auto|]. rewrite Ht. reflexivity.
  - (* SDec *)
    intros m ks H pc. cbn in H. apply andb_true_iff in H as [Hl Ht]. apply mtype_eqb_eq in Ht.
    cbn [cstmt]. apply sseg_x1. intros A. exists (CDatum (dty m) :: A), (CI64 :: A).
    split; [apply clval_xseg; auto|]. rewrite Ht. reflexivity.
  - (* SSet *)
    intros t m ks e H pc. cbn in H. apply andb_true_iff in H as [Hl He].
    destruct (ce e) as [c|] eqn:Hc; try discriminate.
    cbn [cstmt]. cbv zeta. rewrite app_assoc. apply sseg_x1. intros A.
    exists (c :: CDatum (dty m) :: A), A. split.
    + eapply xseg_app; [apply clval_xseg; auto|]. eapply cexpr_ok; eauto.
    + unfold set_ok in He. destruct t; apply andb_true_iff in He as [H1 H2]; apply mtype_eqb_eq in H2;
      rewrite H2; unfold transfer; cbn [i_op i_arg ins set_op apop vbind]; rewrite H1; reflexivity.
  - (* SAddTo *)
    intros t m ks e H pc. cbn in H. apply andb_true_iff in H as [Hl He].
    destruct (ce e) as [c|] eqn:Hc; try discriminate.
    cbn [cstmt]. cbv zeta.
    assert (Hint : int_ok c && mtype_eqb (dty m) TyInt = true ->
              sseg pc (clval D pc m ks ++ cexpr D (pc + length (clval D pc m ks)) e ++ [ins Inc (OInt 0%Z)])).
    { intros Hi. apply andb_true_iff in Hi as [H1 H2]. apply mtype_eqb_eq in H2.
      rewrite app_assoc. apply sseg_x1. intros A.
      exists (c :: CDatum (dty m) :: A), (CI64 :: A). split.
      - eapply xseg_app; [apply clval_xseg; auto|]. eapply cexpr_ok; eauto.
      - rewrite H2. unfold transfer; cbn [i_op i_arg ins apop vbind]; rewrite H1; reflexivity. }
    assert (Hoth : forall op sop ok,
              lval_ok m (shift_exprs (nstr_exprs ks) ks) = true ->
              ok c = true -> ok (CDatum (dty m)) = true ->
              bin_rule op = Some (ok, match op with Cat => CStr | _ => CF64 end) ->
              (forall pc' A, transfer o pc' (ins sop ONil)
                  ((match op with Cat => CStr | _ => CF64 end) :: CDatum (dty m) :: A) = VOk [(S pc', A)]) ->
              sseg pc (clval D pc m ks ++
                       clval D (pc + length (clval D pc m ks)) m (shift_exprs (nstr_exprs ks) ks) ++
                       cexpr D (pc + length (clval D pc m ks) +
                                length (clval D (pc + length (clval D pc m ks)) m (shift_exprs (nstr_exprs ks) ks))) e ++
                       [ins op ONil; ins sop ONil])).
    { intros op sop ok Hl2 Hokc Hokd Hr Hset.
      change [ins op ONil; ins sop ONil] with ([ins op ONil] ++ [ins sop ONil]).
      rewrite !app_assoc. apply sseg_x1. intros A.
      eexists. exists A. split.
      - rewrite <- !app_assoc. eapply xseg_app; [apply clval_xseg; auto|].
        eapply xseg_app; [apply clval_xseg; auto|].
        eapply xseg_app; [eapply cexpr_ok; eauto|].
        apply xseg1. eapply bin_transfer; eauto. destruct op; try discriminate; exact I.
      - apply Hset. }
    destruct t.
    + apply Hint; auto.
    + apply andb_true_iff in He as [Hl2 Hs]. unfold set_ok in Hs.
      apply andb_true_iff in Hs as [H1 H2]. apply mtype_eqb_eq in H2.
      apply (Hoth Fadd Fset float_ok); auto.
      * rewrite H2. reflexivity.
      * intros pc' A. rewrite H2. reflexivity.
    + apply andb_true_iff in He as [Hl2 Hs]. unfold set_ok in Hs.
      apply andb_true_iff in Hs as [H1 H2]. apply mtype_eqb_eq in H2.
      apply (Hoth Cat Sset str_ok); auto.
      * rewrite H2. reflexivity.
      * intros pc' A. rewrite H2. reflexivity.
    + apply Hint; auto.
  - (* SSettime *)
    intros e H pc. cbn in H. destruct (ce e) as [c|] eqn:Hc; try discriminate.
    destruct c; try discriminate. cbn [cstmt]. apply sseg_x1. intros A.
    exists (CI64 :: A), A. split; [eapply cexpr_ok; eauto|reflexivity].
  - (* SStrptime *)
    intros e sid layout H pc. cbn in H. destruct (ce e) as [c|] eqn:Hc; try discriminate.
    apply andb_true_iff in H as [H1 H2]. destruct c; try discriminate. cbn [cstmt].
    change [ins Str (OInt (zn sid)); ins Strptime (OInt 2%Z)]
      with ([ins Str (OInt (zn sid))] ++ [ins Strptime (OInt 2%Z)]).
    rewrite app_assoc. apply sseg_x1. intros A.
    exists (CStr :: CStr :: A), A. split; [|reflexivity].
    eapply xseg_app; [eapply cexpr_ok; eauto|]. apply xseg1.
    unfold transfer. cbn [i_op i_arg ins vbind]. unfold nstrs in H2.
    rewrite (arg_index_ok sid (length (o_strs o)) H2). reflexivity.
  - (* SCond *)
    intros c th IH H pc. cbn in H. apply andb_true_iff in H as [Hc Hb].
    destruct (ce c) as [k|] eqn:Hk; try discriminate.
    cbn [cstmt]. cbv zeta. apply cond_sseg with (c0 := k); auto.
    intros A. eapply cexpr_ok; eauto.
  - (* SCondElse *)
    intros c th IHt el IHe H pc. cbn in H. apply andb_true_iff in H as [H Hbe].
    apply andb_true_iff in H as [Hc Hbt].
    destruct (ce c) as [k|] eqn:Hk; try discriminate.
    cbn [cstmt]. cbv zeta. apply condelse_sseg with (c0 := k); auto.
    intros A. eapply cexpr_ok; eauto.
  - (* SOtherwise *)
    intros th IH H pc. cbn in H. cbn [cstmt]. cbv zeta.
    pose proof (cond_sseg pc [ins Otherwise ONil] (cblock D (pc + 3) th) CBool) as Hc.
    cbn [length app] in Hc.
    replace (pc + 1 + 2) with (pc + 3) in Hc by lia.
    apply Hc; auto. intros A. apply xseg1. reflexivity.
  - (* SDel *)
    intros m ks H pc. cbn in H. cbn [cstmt].
    change [ins Mload (OInt (zn m)); ins Del (OInt (zl (exprs_len ks)))]
      with ([ins Mload (OInt (zn m))] ++ [ins Del (OInt (zl (exprs_len ks)))]).
    rewrite app_assoc. apply sseg_x1. intros A.
    destruct (mload_keys pc m ks A H) as (L & d & Hx & Hp).
    eexists. exists A. split; [exact Hx|].
    unfold transfer. cbn [i_op i_arg ins]. rewrite (Hp _ eq_refl). reflexivity.
  - (* SExpire *)
    intros m ks d H pc. cbn in H. cbn [cstmt].
    change [ins Mload (OInt (zn m)); ins Expire (OInt (zl (exprs_len ks)))]
      with ([ins Mload (OInt (zn m))] ++ [ins Expire (OInt (zl (exprs_len ks)))]).
    rewrite !app_assoc. apply sseg_x1. intros A.
    destruct (mload_keys (pc + 1) m ks (CDur :: A) H) as (L & d' & Hx & Hp).
    eexists. exists A. split.
    + rewrite <- app_assoc. eapply xseg_app; [apply xseg1; reflexivity|]. exact Hx.
    + unfold transfer. cbn [i_op i_arg ins]. rewrite (Hp _ eq_refl). reflexivity.
  - (* SStop *) intros _ pc. apply sseg_stop.
  - (* BNil *) intros _ pc. apply sseg_nil.
  - (* BCons *)
    intros s IHs r IHr H pc. cbn in H. apply andb_true_iff in H as [Hs Hr].
    cbn [cblock]. cbv zeta. apply sseg_app; auto.
Qed.

Theorem accepts_verify : accepts = true -> verify o = true.
Proof.
  intros H. destruct cstmt_sseg as [_ Hb]. specialize (Hb (p_body p) H 0).
  unfold sseg in Hb.
  destruct (Hb [] (Some [] :: repeat None (nprog o))) as (t & E & L & F).
  - cbn [length]. rewrite repeat_length. unfold nprog, o, codegen. cbn [o_prog]. fold D. lia.
  - cbn [length]. rewrite repeat_length. reflexivity.
  - intros k Hk. destruct k as [|k]; [lia|]. cbn [nth_error].
    rewrite nth_error_repeat; auto. unfold nprog, o, codegen. cbn [o_prog]. fold D. lia.
  - assert (Hi : infer o = inl t).
    { unfold infer. change (o_prog o) with (cblock D 0 (p_body p)).
      rewrite <- (app_nil_r (cblock D 0 (p_body p))). rewrite E. reflexivity. }
    eapply infer_verify; eauto.
Qed.

End CG.

(* the statement over programs *)
Theorem codegen_verifies : forall p : prog, accepts p = true -> verify (codegen p) = true.
Proof. exact accepts_verify. Qed.
