(* C12 - soundness of the checker `balanced` of Export/PathIR.v with respect to
   the path semantics `exec_block`: abstract interpretation, proved by
   induction on the execution derivation. *)
From Coq Require Import List Arith Bool Lia.
Import ListNotations.
From V Require Import Export.PathIR.

Scheme exec_stmt_mind := Minimality for exec_stmt Sort Prop
  with exec_block_mind := Minimality for exec_block Sort Prop.
Combined Scheme exec_mutind from exec_stmt_mind, exec_block_mind.

(* concretisation *)
Definition rel (a : ast) (s : st) : Prop :=
  locks s = alocks a /\ defers s = adefers a /\
  match aem a with
  | ANone => emit s = None
  | ALive => exists k, emit s = Some k
  | ADone => emit s = Some 0
  end.

Lemma aemit_eqb_eq x y : aemit_eqb x y = true -> x = y.
Proof. destruct x, y; simpl; congruence. Qed.

Lemma ast_le_rel a i s : ast_le a i = true -> rel a s -> rel i s.
Proof.
  unfold ast_le, rel. intros H (Hl & Hd & He).
  apply andb_prop in H. destruct H as [H H3]. apply andb_prop in H. destruct H as [H1 H2].
  apply Nat.eqb_eq in H1. apply Nat.eqb_eq in H2.
  split; [congruence|]. split; [congruence|].
  apply orb_prop in H3. destruct H3 as [H3|H3].
  - apply aemit_eqb_eq in H3. rewrite <- H3. exact He.
  - apply andb_prop in H3. destruct H3 as [H3 H4].
    apply aemit_eqb_eq in H3. apply aemit_eqb_eq in H4. rewrite H3 in He. rewrite H4.
    exists 0. exact He.
Qed.

Lemma join_rel a b c s : join a b = Some c -> rel a s \/ rel b s -> rel c s.
Proof.
  unfold join. destruct (Nat.eqb (alocks a) (alocks b) && Nat.eqb (adefers a) (adefers b)) eqn:E;
    [|discriminate].
  apply andb_prop in E. destruct E as [E1 E2]. apply Nat.eqb_eq in E1. apply Nat.eqb_eq in E2.
  unfold rel. intros J [(Hl & Hd & He)|(Hl & Hd & He)];
    destruct (aem a) eqn:Ea, (aem b) eqn:Eb; inversion J; subst; simpl; rewrite ?Ea;
    (split; [congruence|]); (split; [congruence|]); try exact He; try (exists 0; exact He);
    try congruence.
Qed.

Lemma joinopt_l x y z a s : joinopt x y = Some z -> x = Some a -> rel a s ->
  exists c, z = Some c /\ rel c s.
Proof.
  intros J -> R. destruct y as [b|]; simpl in J.
  - destruct (join a b) as [c|] eqn:Ej; inversion J; subst.
    exists c. split; [reflexivity|]. eapply join_rel; eauto.
  - inversion J; subst. eauto.
Qed.

Lemma joinopt_r x y z b s : joinopt x y = Some z -> y = Some b -> rel b s ->
  exists c, z = Some c /\ rel c s.
Proof.
  intros J -> R. destruct x as [a|]; simpl in J.
  - destruct (join a b) as [c|] eqn:Ej; inversion J; subst.
    exists c. split; [reflexivity|]. eapply join_rel; eauto.
  - inversion J; subst. eauto.
Qed.

Lemma exit_ok_good a s : exit_ok a = true -> rel a s -> good_exit s.
Proof.
  unfold exit_ok, rel, good_exit. intros H (Hl & Hd & He).
  apply andb_prop in H. destruct H as [H1 H2]. apply Nat.eqb_eq in H1.
  split; [congruence|]. destruct (aem a); try discriminate; auto.
Qed.

Section Sound.
Variable closes : bool.

(* what the checker's answer promises about an execution that starts in a
   state described by the abstract input *)
Definition post (inv : option ast) (r : res) (f : flow) (s' : st) : Prop :=
  match f with
  | Fall => exists a', rfall r = Some a' /\ rel a' s'
  | Brk => inv <> None /\ exists a', rbrk r = Some a' /\ rel a' s'
  | Cont => exists i, inv = Some i /\ rel i s'
  | Ret => good_exit s'
  | Wrong => False
  end.

Lemma check_if_eq inv t e a :
  check_stmt closes inv (SIf t e) a =
  match check_block closes inv t a, check_block closes inv e a with
  | Some x, Some y =>
      match joinopt (rfall x) (rfall y), joinopt (rbrk x) (rbrk y) with
      | Some f, Some b => Some (mkres f b)
      | _, _ => None
      end
  | _, _ => None
  end.
Proof. reflexivity. Qed.

Lemma check_range_eq inv body a :
  check_stmt closes inv (SRange body) a =
  match aem a with
  | ALive =>
      if closes then
        match check_block closes (Some a) body a with
        | Some x =>
            if match rfall x with Some a' => ast_le a' a | None => true end then
              match joinopt (Some (mkast (alocks a) (adefers a) ADone)) (rbrk x) with
              | Some f => Some (mkres f None)
              | None => None
              end
            else None
        | None => None
        end
      else None
  | _ => None
  end.
Proof. reflexivity. Qed.

Lemma check_cons_eq inv s r a :
  check_block closes inv (BCons s r) a =
  match check_stmt closes inv s a with
  | None => None
  | Some x =>
      match rfall x with
      | None => Some x
      | Some a1 =>
          match check_block closes inv r a1 with
          | None => None
          | Some y =>
              match joinopt (rbrk x) (rbrk y) with
              | Some b => Some (mkres (rfall y) b)
              | None => None
              end
          end
      end
  end.
Proof. reflexivity. Qed.

Lemma check_range_inv inv body a r :
  check_stmt closes inv (SRange body) a = Some r ->
  aem a = ALive /\ closes = true /\
  exists x f, check_block closes (Some a) body a = Some x /\
    (forall a', rfall x = Some a' -> ast_le a' a = true) /\
    joinopt (Some (mkast (alocks a) (adefers a) ADone)) (rbrk x) = Some f /\
    r = mkres f None.
Proof.
  rewrite check_range_eq. destruct (aem a); try discriminate.
  destruct closes eqn:Hc; try discriminate.
  destruct (check_block true (Some a) body a) as [x|]; try discriminate.
  destruct (match rfall x with Some a' => ast_le a' a | None => true end) eqn:El; try discriminate.
  destruct (joinopt (Some (mkast (alocks a) (adefers a) ADone)) (rbrk x)) as [f|] eqn:Ej; try discriminate.
  intros H. inversion H; subst. split; [reflexivity|]. split; [reflexivity|].
  exists x, f. split; [reflexivity|]. split; [|split; [exact Ej|reflexivity]].
  intros a' Ha. rewrite Ha in El. exact El.
Qed.

Lemma rel_live_any a s k : aem a = ALive -> rel a s ->
  rel a (mkst (locks s) (defers s) (Some k)).
Proof. unfold rel. intros E (Hl & Hd & _). rewrite E. simpl. eauto. Qed.

Lemma rel_done a s : rel a s -> emit s = Some 0 ->
  rel (mkast (alocks a) (adefers a) ADone) s.
Proof. unfold rel. intros (Hl & Hd & _) E. simpl. auto. Qed.

Lemma sound_mut :
  (forall s st f st', exec_stmt closes s st f st' ->
     forall inv a r, check_stmt closes inv s a = Some r -> rel a st -> post inv r f st') /\
  (forall b st f st', exec_block closes b st f st' ->
     forall inv a r, check_block closes inv b a = Some r -> rel a st -> post inv r f st').
Proof.
  apply exec_mutind.
  - (* rlock *) intros s Hs inv a r C (Hl & Hd & He). cbn [check_stmt] in C.
    destruct (alocks a) eqn:Ea; inversion C; subst. simpl.
    eexists. split; [reflexivity|]. unfold rel; simpl. auto.
  - (* rlock again *) intros s n Hs inv a r C (Hl & Hd & He). cbn [check_stmt] in C.
    destruct (alocks a) eqn:Ea; [congruence|discriminate].
  - (* runlock *) intros s n Hs inv a r C (Hl & Hd & He). cbn [check_stmt] in C.
    destruct (alocks a) eqn:Ea; inversion C; subst. simpl.
    eexists. split; [reflexivity|]. unfold rel; simpl. split; [congruence|auto].
  - (* runlock free *) intros s Hs inv a r C (Hl & Hd & He). cbn [check_stmt] in C.
    destruct (alocks a) eqn:Ea; [discriminate|congruence].
  - (* defer *) intros s inv a r C (Hl & Hd & He). cbn [check_stmt] in C. inversion C; subst. simpl.
    eexists. split; [reflexivity|]. unfold rel; simpl. auto.
  - (* spawn *) intros s k Hs inv a r C (Hl & Hd & He). cbn [check_stmt] in C.
    destruct (aem a) eqn:Ea; inversion C; subst. simpl.
    eexists. split; [reflexivity|]. unfold rel; simpl. eauto.
  - (* spawn again *) intros s k Hs inv a r C (Hl & Hd & He). cbn [check_stmt] in C.
    destruct (aem a) eqn:Ea; try discriminate. congruence.
  - (* other *) intros s inv a r C R. cbn [check_stmt] in C. inversion C; subst. simpl. eauto.
  - (* unknown *) intros s f s' inv a r C R. cbn [check_stmt] in C. discriminate.
  - (* if, then *) intros t e s f s' _ IH inv a r C R. rewrite check_if_eq in C.
    destruct (check_block closes inv t a) as [x|] eqn:Ex; try discriminate.
    destruct (check_block closes inv e a) as [y|] eqn:Ey; try discriminate.
    destruct (joinopt (rfall x) (rfall y)) as [jf|] eqn:Ef; try discriminate.
    destruct (joinopt (rbrk x) (rbrk y)) as [jb|] eqn:Eb; try discriminate.
    inversion C; subst. specialize (IH _ _ _ Ex R).
    destruct f; simpl in *; auto.
    + destruct IH as (a' & Ha & Ra). eapply joinopt_l; eauto.
    + destruct IH as (Hi & a' & Ha & Ra). split; [exact Hi|]. eapply joinopt_l; eauto.
  - (* if, else *) intros t e s f s' _ IH inv a r C R. rewrite check_if_eq in C.
    destruct (check_block closes inv t a) as [x|] eqn:Ex; try discriminate.
    destruct (check_block closes inv e a) as [y|] eqn:Ey; try discriminate.
    destruct (joinopt (rfall x) (rfall y)) as [jf|] eqn:Ef; try discriminate.
    destruct (joinopt (rbrk x) (rbrk y)) as [jb|] eqn:Eb; try discriminate.
    inversion C; subst. specialize (IH _ _ _ Ey R).
    destruct f; simpl in *; auto.
    + destruct IH as (a' & Ha & Ra). eapply joinopt_r; eauto.
    + destruct IH as (Hi & a' & Ha & Ra). split; [exact Hi|]. eapply joinopt_r; eauto.
  - (* continue *) intros s inv a r C R. cbn [check_stmt] in C.
    destruct inv as [i|]; try discriminate.
    destruct (ast_le a i) eqn:El; try discriminate. simpl.
    exists i. split; [reflexivity|]. eapply ast_le_rel; eauto.
  - (* break *) intros s inv a r C R. cbn [check_stmt] in C.
    destruct inv as [i|]; try discriminate. inversion C; subst. simpl.
    split; [discriminate|]. eauto.
  - (* return *) intros s inv a r C R. cbn [check_stmt] in C.
    destruct (exit_ok a) eqn:Ee; try discriminate. simpl. eapply exit_ok_good; eauto.
  - (* drain *) intros s k Hs Hc inv a r C (Hl & Hd & He). cbn [check_stmt] in C.
    rewrite Hc in C. destruct (aem a); inversion C; subst; simpl;
      (eexists; split; [reflexivity|]; unfold rel; simpl; auto).
  - (* drain blocks *) intros s H inv a r C (Hl & Hd & He). cbn [check_stmt] in C.
    destruct H as [H|H].
    + destruct (aem a); try discriminate; [destruct He as (k & He)|]; congruence.
    + rewrite H in C. destruct (aem a); discriminate.
  - (* range, no channel *) intros body s Hs inv a r C R.
    apply check_range_inv in C. destruct C as (Ea & _).
    destruct R as (_ & _ & He). rewrite Ea in He. destruct He as (k & He). congruence.
  - (* range done *) intros body s Hs Hc inv a r C R.
    apply check_range_inv in C. destruct C as (Ea & _ & x & f & Cx & Hfall & Hj & ->). simpl.
    eapply joinopt_l; [exact Hj|reflexivity|]. apply rel_done; assumption.
  - (* range never closed *) intros body s Hs Hc inv a r C R.
    apply check_range_inv in C. destruct C as (_ & Hc' & _). congruence.
  - (* range iteration *) intros body s k s1 fl f s' Hs _ IHb Hfl _ IHl inv a r C R.
    pose proof C as C0.
    apply check_range_inv in C. destruct C as (Ea & Hc & x & jf & Cx & Hfall & Hj & ->).
    assert (R1 : rel a s1).
    { specialize (IHb _ _ _ Cx (rel_live_any _ _ k Ea R)).
      destruct Hfl as [-> | ->]; simpl in IHb.
      - destruct IHb as (a' & Ha & Ra). eapply ast_le_rel; eauto.
      - destruct IHb as (i & Hi & Ri). inversion Hi; subst. exact Ri. }
    exact (IHl _ _ _ C0 R1).
  - (* range break *) intros body s k s1 Hs _ IHb inv a r C R.
    apply check_range_inv in C. destruct C as (Ea & Hc & x & jf & Cx & Hfall & Hj & ->).
    specialize (IHb _ _ _ Cx (rel_live_any _ _ k Ea R)). simpl in IHb.
    destruct IHb as (_ & a' & Ha & Ra). simpl. eapply joinopt_r; eauto.
  - (* range exit *) intros body s k s1 fl Hs _ IHb Hfl inv a r C R.
    apply check_range_inv in C. destruct C as (Ea & Hc & x & jf & Cx & Hfall & Hj & ->).
    specialize (IHb _ _ _ Cx (rel_live_any _ _ k Ea R)).
    destruct Hfl as [-> | ->]; simpl in *; exact IHb.
  - (* nil *) intros s inv a r C R. cbn [check_block] in C. inversion C; subst. simpl. eauto.
  - (* cons, falls *) intros x r s s1 f s' _ IHs _ IHb inv a res0 C R. rewrite check_cons_eq in C.
    destruct (check_stmt closes inv x a) as [rx|] eqn:Ex; try discriminate.
    specialize (IHs _ _ _ Ex R). simpl in IHs. destruct IHs as (a1 & Ha1 & R1).
    rewrite Ha1 in C.
    destruct (check_block closes inv r a1) as [ry|] eqn:Ey; try discriminate.
    destruct (joinopt (rbrk rx) (rbrk ry)) as [jb|] eqn:Eb; try discriminate.
    inversion C; subst. specialize (IHb _ _ _ Ey R1).
    destruct f; simpl in *; auto.
    destruct IHb as (Hi & a' & Ha & Ra). split; [exact Hi|]. eapply joinopt_r; eauto.
  - (* cons, stops *) intros x r s f s' _ IHs Hf inv a res0 C R. rewrite check_cons_eq in C.
    destruct (check_stmt closes inv x a) as [rx|] eqn:Ex; try discriminate.
    specialize (IHs _ _ _ Ex R).
    destruct (rfall rx) as [a1|] eqn:Ef.
    + destruct (check_block closes inv r a1) as [ry|] eqn:Ey; try discriminate.
      destruct (joinopt (rbrk rx) (rbrk ry)) as [jb|] eqn:Eb; try discriminate.
      inversion C; subst.
      destruct f; simpl in *; auto; try congruence.
      destruct IHs as (Hi & a' & Ha & Ra). split; [exact Hi|]. eapply joinopt_l; eauto.
    + inversion C; subst. exact IHs.
Qed.

Lemma rel_init : rel (mkast 0 0 ANone) init.
Proof. unfold rel, init; simpl. auto. Qed.

Theorem balanced_sound : forall b, balanced closes b = true ->
  forall f s', exec_block closes b init f s' -> good_outcome f s'.
Proof.
  intros b Hb f s' Hx. unfold balanced in Hb.
  destruct (check_block closes None b (mkast 0 0 ANone)) as [x|] eqn:Ex; try discriminate.
  pose proof (proj2 sound_mut _ _ _ _ Hx _ _ _ Ex rel_init) as P.
  unfold good_outcome. destruct f; simpl in P.
  - destruct P as (a' & Ha & Ra). rewrite Ha in Hb. split; [auto|]. eapply exit_ok_good; eauto.
  - destruct P as (i & Hi & _). discriminate.
  - destruct P as (Hi & _). congruence.
  - auto.
  - contradiction.
Qed.

(* the whole export attempt: every visited metric ends unlocked, its emitter gone *)
Theorem balanced_store_sound : forall b, balanced closes b = true ->
  forall n outs, exec_store closes b n outs ->
  Forall (fun o => good_outcome (fst o) (snd o)) outs.
Proof.
  intros b Hb n outs H. induction H; constructor; auto.
  simpl. eapply balanced_sound; eauto.
Qed.

End Sound.


(* ---------- witnesses ---------- *)
Ltac step_fall := eapply E_cons_fall.
Ltac step_stop := eapply E_cons_stop; [|discriminate].

Lemma collect_old_bad :
  exists f s', exec_block true (block_of collect_old) init f s' /\
               locks s' = 1 /\ defers s' = 0 /\ emit s' = Some 1 /\ ~ good_outcome f s'.
Proof.
  exists Ret, (mkst 1 0 (Some 1)). split.
  - unfold collect_old. cbn [block_of].
    step_fall. { apply E_rlock. reflexivity. } cbn.
    step_fall. { apply E_if_e. apply E_nil. }
    step_fall. { apply E_other. }
    step_fall. { apply E_spawn with (k := 2). reflexivity. } cbn.
    step_stop.
    eapply E_range_exit with (k := 1); [reflexivity| |left; reflexivity]. cbn.
    step_fall. { apply E_if_e. apply E_nil. }
    step_fall. { apply E_other. }
    step_fall. { apply E_if_t. step_fall. apply E_other. apply E_nil. }
    step_stop.
    apply E_if_t. step_fall. apply E_other. step_stop. apply E_return.
  - unfold good_outcome, good_exit. simpl. repeat split; try reflexivity.
    intros [_ [H _]]. discriminate.
Qed.

Lemma socket_old_bad :
  exists f s', exec_block true (block_of socket_old) init f s' /\
               locks s' = 1 /\ defers s' = 0 /\ emit s' = Some 1 /\ ~ good_outcome f s'.
Proof.
  exists Ret, (mkst 1 0 (Some 1)). split.
  - unfold socket_old. cbn [block_of].
    step_fall. { apply E_rlock. reflexivity. } cbn.
    step_fall. { apply E_if_e. apply E_nil. }
    step_fall. { apply E_other. }
    step_fall. { apply E_spawn with (k := 2). reflexivity. } cbn.
    step_stop.
    eapply E_range_exit with (k := 1); [reflexivity| |left; reflexivity]. cbn.
    step_fall. { apply E_other. }
    step_fall. { apply E_other. }
    step_fall. { apply E_other. }
    step_stop.
    apply E_if_e. step_stop. apply E_return.
  - unfold good_outcome, good_exit. simpl. repeat split; try reflexivity.
    intros [_ [H _]]. discriminate.
Qed.

Lemma collect_new_runs :
  exists s', exec_block true (block_of collect_new) init Ret s' /\ good_outcome Ret s'.
Proof.
  exists (mkst 1 1 (Some 0)). split.
  - unfold collect_new. cbn [block_of].
    step_fall. { apply E_rlock. reflexivity. } cbn.
    step_fall. { apply E_defer. } cbn.
    step_fall. { apply E_if_e. apply E_nil. }
    step_fall. { apply E_other. }
    step_fall. { apply E_spawn with (k := 2). reflexivity. } cbn.
    step_fall.
    { (* first label set: error, continue *)
      eapply E_range_iter with (k := 1) (fl := Cont); [reflexivity| |right; reflexivity|]. cbn.
      - step_fall. { apply E_if_e. apply E_nil. }
        step_fall. { apply E_other. }
        step_fall. { apply E_if_t. step_fall. apply E_other. apply E_nil. }
        step_stop. apply E_if_t. step_fall. apply E_other. step_stop. apply E_continue.
      - (* second label set: delivered *)
        eapply E_range_iter with (k := 0) (fl := Fall); [reflexivity| |left; reflexivity|]. cbn.
        + step_fall. { apply E_if_e. apply E_nil. }
          step_fall. { apply E_other. }
          step_fall. { apply E_if_e. step_fall. apply E_other. apply E_nil. }
          step_fall. { apply E_if_e. apply E_nil. }
          step_fall. { apply E_if_e. step_fall. apply E_other. apply E_nil. }
          apply E_nil.
        + apply E_range_done; reflexivity. }
    step_stop. apply E_return.
  - unfold good_outcome, good_exit. simpl. auto.
Qed.

Lemma handler_unclosed_stalls :
  exists s', exec_block false (block_of handler_repo) init Wrong s'.
Proof.
  eexists. unfold handler_repo. cbn [block_of].
  step_fall. { apply E_if_e. apply E_nil. }
  step_fall. { apply E_rlock. reflexivity. } cbn.
  step_fall. { apply E_other. }
  step_fall. { apply E_spawn with (k := 0). reflexivity. } cbn.
  step_stop. apply E_range_never_closed; reflexivity.
Qed.
