(* C11 - proofs about slice headers over the store's backing arrays
   (Export/SliceAlias.v) and the read-lock half of isolation on the RWMutex
   machine (Export/LockIR.v). *)
From Coq Require Import List NArith Bool Arith Lia Permutation.
Import ListNotations.
From V Require Import Export.LockIR Export.SliceAlias Proofs.LockIRProofs.

(* ---------- (A) the machine: a read lock keeps writers out ---------- *)
Section ReadLock.
Variable spec : N -> guard.

(* in every reachable state of guarded threads, while a thread holds a lock (in
   either mode) no OTHER thread is about to write a field that lock guards: the
   reads a thread performs between taking searchMu.RLock and releasing it all
   see one and the same content of the guarded container *)
Theorem read_lock_excludes_writers (g0 : gstate) :
  (forall i, th_H (g0 i) = [] /\ guarded spec [] (th_rest (g0 i))) ->
  forall g, reachable g0 g ->
  forall i j x l m f r, i <> j -> In (x, l, m) (th_H (g i)) ->
    th_rest (g j) = EvAcc x f KWrite :: r -> spec f = GLock l -> False.
Proof.
  intros H0 g R.
  assert (Excl g /\ Guarded spec g) as [HE HG].
  { induction R as [|g g' R IH St].
    - split.
      + intros i j _ x l m Hi. rewrite (proj1 (H0 i)) in Hi. destruct Hi.
      + intros i. rewrite (proj1 (H0 i)). apply H0.
    - destruct IH as [HE HG]. split; [eapply step_Excl|eapply step_Guarded]; eauto. }
  intros i j x l m f r Hij Hi Hj Hs.
  pose proof (HG j) as Gj. rewrite Hj in Gj. simpl in Gj. destruct Gj as [Oj _].
  rewrite Hs in Oj. simpl in Oj.
  assert (Hji : j <> i) by congruence.
  exact (HE j i Hji _ _ _ Oj Hi).
Qed.
End ReadLock.

(* ---------- (B) lists ---------- *)
Lemma length_set_nth {A} n (x : A) l : length (set_nth n x l) = length l.
Proof. revert n. induction l as [|a r IH]; intros [|n]; simpl; auto. Qed.

Lemma nth_set_nth_same {A} n (x d : A) l : n < length l -> nth n (set_nth n x l) d = x.
Proof.
  revert n. induction l as [|a r IH]; intros [|n] H; simpl in *; try lia; auto.
  apply IH. lia.
Qed.

Lemma nth_set_nth_other {A} n k (x d : A) l : n <> k -> nth k (set_nth n x l) d = nth k l d.
Proof.
  revert n k. induction l as [|a r IH]; intros [|n] [|k] H; simpl; auto; try congruence.
Qed.

Lemma firstn_set_nth {A} n (x : A) l : n < length l -> firstn (S n) (set_nth n x l) = firstn n l ++ [x].
Proof.
  revert n. induction l as [|a r IH]; intros [|n] H; simpl in *; try lia.
  - reflexivity.
  - f_equal. apply IH. lia.
Qed.

Lemma firstn_firstn_le {A} i n (l : list A) : i <= n -> firstn i (firstn n l) = firstn i l.
Proof. intros H. rewrite firstn_firstn. f_equal. lia. Qed.

Lemma nth_firstn_lt {A} i n (l : list A) d : i < n -> nth i (firstn n l) d = nth i l d.
Proof.
  revert i n. induction l as [|a r IH]; intros [|i] [|n] H; simpl; try lia; auto.
  apply IH. lia.
Qed.

(* ---------- (C) append and remove on the heap of arrays ---------- *)
Lemma arr_of_cur_set s a : h_arr (cur s) < length (heap s) ->
  nth (h_arr (cur s)) (set_nth (h_arr (cur s)) a (heap s)) [] = a.
Proof. intros H. apply nth_set_nth_same. exact H. Qed.

Lemma append1_content s x : wf s -> content (append1 s x) = content s ++ [x].
Proof.
  intros [Ha Hl]. unfold append1, content, arr_of in *.
  destruct (h_len (cur s) <? length (nth (h_arr (cur s)) (heap s) [])) eqn:E; cbn [heap cur h_arr h_len].
  - apply Nat.ltb_lt in E. rewrite arr_of_cur_set by exact Ha. apply firstn_set_nth. exact E.
  - apply Nat.ltb_ge in E. rewrite app_nth2 by lia. rewrite Nat.sub_diag. cbn [nth].
    set (a := nth (h_arr (cur s)) (heap s) []) in *.
    assert (Hn : length (firstn (h_len (cur s)) a) = h_len (cur s)) by (rewrite firstn_length; lia).
    set (tl := repeat nilm (grow (length a) - S (h_len (cur s)))).
    replace (S (h_len (cur s))) with (length (firstn (h_len (cur s)) a) + 1) by lia.
    rewrite firstn_app_2. reflexivity.
Qed.

Lemma append1_wf s x : wf s -> wf (append1 s x).
Proof.
  intros [Ha Hl]. unfold append1, wf, arr_of in *.
  destruct (h_len (cur s) <? length (nth (h_arr (cur s)) (heap s) [])) eqn:E; simpl.
  - apply Nat.ltb_lt in E. rewrite length_set_nth. split; [exact Ha|].
    rewrite arr_of_cur_set by exact Ha. rewrite length_set_nth. lia.
  - apply Nat.ltb_ge in E. rewrite app_length. simpl. split; [lia|].
    rewrite app_nth2 by lia. rewrite Nat.sub_diag. simpl.
    rewrite app_length, firstn_length. simpl. lia.
Qed.

(* an array other than the store's current one is not touched, and does not
   become the current one *)
Lemma append1_other s x k : wf s -> k < length (heap s) -> k <> h_arr (cur s) ->
  arr_of (append1 s x) k = arr_of s k /\ k < length (heap (append1 s x)) /\ k <> h_arr (cur (append1 s x)).
Proof.
  intros [Ha Hl] Hk Hne. unfold append1, arr_of in *.
  destruct (h_len (cur s) <? length (nth (h_arr (cur s)) (heap s) [])) eqn:E; simpl.
  - rewrite length_set_nth. split; [|split; assumption].
    apply nth_set_nth_other. congruence.
  - rewrite app_length. simpl. split; [apply app_nth1; exact Hk|]. split; lia.
Qed.

Lemma remove_at_content s i : wf s -> i < h_len (cur s) ->
  content (remove_at i s) = firstn i (content s) ++ skipn (S i) (content s).
Proof.
  intros [Ha Hl] Hi. unfold remove_at, content, arr_of in *. cbn [heap cur h_arr h_len].
  rewrite arr_of_cur_set by exact Ha.
  set (a := nth (h_arr (cur s)) (heap s) []) in *. set (n := h_len (cur s)) in *.
  unfold shift_out.
  rewrite firstn_firstn_le by lia. rewrite skipn_firstn_comm.
  assert (L1 : length (firstn i a) = i) by (rewrite firstn_length; lia).
  assert (L2 : length (firstn (n - S i) (skipn (S i) a)) = n - S i).
  { rewrite firstn_length, skipn_length. lia. }
  rewrite app_assoc.
  replace (n - 1) with (length (firstn i a ++ firstn (n - S i) (skipn (S i) a)) + 0)
    by (rewrite app_length; lia).
  rewrite firstn_app_2. simpl. rewrite app_nil_r. reflexivity.
Qed.

Lemma remove_at_wf s i : wf s -> i < h_len (cur s) -> wf (remove_at i s).
Proof.
  intros [Ha Hl] Hi. unfold remove_at, wf, arr_of in *. simpl.
  rewrite length_set_nth. split; [exact Ha|]. rewrite arr_of_cur_set by exact Ha.
  set (a := nth (h_arr (cur s)) (heap s) []) in *. set (n := h_len (cur s)) in *.
  unfold shift_out. rewrite !app_length, !firstn_length, !skipn_length. lia.
Qed.

Lemma remove_at_other s i k : k < length (heap s) -> k <> h_arr (cur s) ->
  arr_of (remove_at i s) k = arr_of s k /\ k < length (heap (remove_at i s)) /\ k <> h_arr (cur (remove_at i s)).
Proof.
  intros Hk Hne. unfold remove_at, arr_of. simpl. rewrite length_set_nth.
  split; [|split; assumption]. apply nth_set_nth_other. congruence.
Qed.

(* ---------- (D) Store.Add ---------- *)
Lemma find_last_range p l : forall i acc,
  (forall j, acc = Some j -> j < i) ->
  forall j, find_last p l i acc = Some j -> j < i + length l.
Proof.
  induction l as [|m r IH]; intros i acc Hacc j H; simpl in *.
  - specialize (Hacc j H). lia.
  - apply IH in H; [lia|]. intros j' E. destruct (N.eqb (fst m) p).
    + inversion E; subst. lia.
    + specialize (Hacc j' E). lia.
Qed.

Lemma find_last_lt p l j : find_last p l 0 None = Some j -> j < length l.
Proof.
  intros H. apply (find_last_range p l 0 None) in H; [lia|]. intros j' E. discriminate.
Qed.

(* what it finds carries the program; when nothing does, it finds nothing *)
Lemma find_last_spec p l : forall i acc,
  (forall j, acc = Some j -> j < i) ->
  match find_last p l i acc with
  | Some j => (i <= j /\ fst (nth (j - i) l nilm) = p /\ j - i < length l) \/ (acc = Some j /\ ~ In p (progs l))
  | None => acc = None /\ ~ In p (progs l)
  end.
Proof.
  induction l as [|m r IH]; intros i acc Hacc; simpl.
  - destruct acc as [j|]; [right|]; split; auto.
  - set (acc' := if N.eqb (fst m) p then Some i else acc).
    assert (Hacc' : forall j, acc' = Some j -> j < S i).
    { intros j E. unfold acc' in E. destruct (N.eqb (fst m) p).
      - inversion E; subst. lia.
      - specialize (Hacc j E). lia. }
    specialize (IH (S i) acc' Hacc').
    destruct (find_last p r (S i) acc') as [j|].
    + destruct IH as [(Hle & Hp & Hlt)|(E & Hn)].
      * left. split; [lia|]. replace (j - i) with (S (j - S i)) by lia. simpl. split; [exact Hp|lia].
      * unfold acc' in E. destruct (N.eqb (fst m) p) eqn:Em.
        -- inversion E; subst. left. rewrite Nat.sub_diag. simpl. apply N.eqb_eq in Em.
           split; [lia|]. split; [exact Em|lia].
        -- right. split; [exact E|]. apply N.eqb_neq in Em. intros [F|F]; [congruence|contradiction].
    + destruct IH as [E Hn]. unfold acc' in E. destruct (N.eqb (fst m) p) eqn:Em; [discriminate|].
      apply N.eqb_neq in Em. split; [exact E|]. intros [F|F]; [congruence|contradiction].
Qed.

Lemma add_wf m s : wf s -> wf (add m s).
Proof.
  intros W. unfold add. destruct (find_last (fst m) (content s) 0 None) as [i|] eqn:E.
  - apply remove_at_wf; [apply append1_wf; exact W|].
    apply find_last_lt in E. unfold content in E. rewrite firstn_length in E.
    unfold append1. destruct (h_len (cur s) <? _); simpl; lia.
  - apply append1_wf. exact W.
Qed.

Lemma add_content m s : wf s ->
  content (add m s) =
  match find_last (fst m) (content s) 0 None with
  | Some i => firstn i (content s) ++ skipn (S i) (content s) ++ [m]
  | None => content s ++ [m]
  end.
Proof.
  intros W. unfold add. destruct (find_last (fst m) (content s) 0 None) as [i|] eqn:E.
  - pose proof (find_last_lt _ _ _ E) as Hi.
    rewrite remove_at_content; [|apply append1_wf; exact W|].
    + rewrite append1_content by exact W.
      rewrite firstn_app, skipn_app.
      replace (i - length (content s)) with 0 by lia.
      replace (S i - length (content s)) with 0 by lia. simpl. rewrite app_nil_r. reflexivity.
    + unfold content in Hi. rewrite firstn_length in Hi.
      unfold append1. destruct (h_len (cur s) <? _); simpl; lia.
  - apply append1_content. exact W.
Qed.

Lemma add_other m s k : wf s -> k < length (heap s) -> k <> h_arr (cur s) ->
  arr_of (add m s) k = arr_of s k /\ k < length (heap (add m s)) /\ k <> h_arr (cur (add m s)).
Proof.
  intros W Hk Hne. unfold add.
  destruct (append1_other s m k W Hk Hne) as (E1 & K1 & N1).
  destruct (find_last (fst m) (content s) 0 None) as [i|]; [|auto].
  destruct (remove_at_other (append1 s m) i k K1 N1) as (E2 & K2 & N2).
  split; [congruence|]. split; assumption.
Qed.

(* the store keeps one metric per program, and never drops a program *)
Lemma add_progs m s : wf s -> NoDup (progs (content s)) ->
  NoDup (progs (content (add m s))) /\
  (forall p, In p (progs (content (add m s))) <-> p = fst m \/ In p (progs (content s))).
Proof.
  intros W ND. rewrite add_content by exact W.
  pose proof (find_last_spec (fst m) (content s) 0 None) as S.
  destruct (find_last (fst m) (content s) 0 None) as [i|].
  - destruct S as [(_ & Hp & Hlt)|(F & _)]; [intros j F; discriminate| |discriminate].
    rewrite Nat.sub_0_r in Hp, Hlt.
    set (c := content s) in *.
    assert (Ec : c = firstn i c ++ nth i c nilm :: skipn (S i) c).
    { rewrite <- (firstn_skipn i c) at 1. f_equal.
      clear -Hlt. revert i Hlt. induction c as [|a r IH]; intros [|i] H; simpl in *; try lia; auto.
      apply IH. lia. }
    unfold progs in *. rewrite Ec in ND. rewrite map_app in ND. simpl in ND.
    pose proof (NoDup_remove_1 _ _ _ ND) as ND1. pose proof (NoDup_remove_2 _ _ _ ND) as ND2.
    rewrite Hp in ND2.
    assert (P : Permutation (map fst (firstn i c ++ skipn (S i) c ++ [m]))
                            (fst m :: map fst (firstn i c) ++ map fst (skipn (S i) c))).
    { rewrite app_assoc, map_app. simpl. rewrite map_app.
      apply Permutation_sym. apply Permutation_cons_append. }
    split.
    + eapply Permutation_NoDup; [apply Permutation_sym; exact P|]. constructor; assumption.
    + intros p. split.
      * intros Hi. apply (Permutation_in _ P) in Hi. destruct Hi as [->|Hi]; [left; reflexivity|].
        right. rewrite Ec, map_app. simpl. apply in_app_or in Hi. apply in_or_app. simpl. tauto.
      * intros Hi. apply (Permutation_in _ (Permutation_sym P)).
        destruct Hi as [->|Hi]; [left; reflexivity|].
        rewrite Ec, map_app in Hi. simpl in Hi. apply in_app_or in Hi. simpl in Hi.
        destruct Hi as [Hi|[Hi|Hi]].
        -- right. apply in_or_app. tauto.
        -- left. congruence.
        -- right. apply in_or_app. tauto.
  - destruct S as [_ Hn]; [intros j F; discriminate|].
    unfold progs in *. rewrite map_app. simpl. split.
    + eapply Permutation_NoDup; [apply Permutation_cons_append|]. constructor; assumption.
    + intros p. rewrite in_app_iff. simpl. intuition congruence.
Qed.

(* ---------- (E) walkers ---------- *)
(* a walker whose header points to an array the store does not use sees that
   array as it was, whatever Adds take effect meanwhile *)
Lemma walk_private snap : forall sch pos s a,
  wf s -> h_arr snap < length (heap s) -> h_arr snap <> h_arr (cur s) ->
  arr_of s (h_arr snap) = a -> h_len snap <= length a -> pos <= h_len snap ->
  fst (walk snap pos s sch) = firstn (Nat.min (visits sch) (h_len snap - pos)) (skipn pos a).
Proof.
  induction sch as [|e r IH]; intros pos s a W Hk Hne Ea Hl Hp; simpl.
  - reflexivity.
  - destruct e as [m|].
    + destruct (add_other m s (h_arr snap) W Hk Hne) as (E1 & K1 & N1).
      unfold visits in *. simpl.
      apply IH; auto using add_wf. congruence.
    + unfold visits in *. simpl. destruct (pos <? h_len snap) eqn:E.
      * apply Nat.ltb_lt in E. simpl. rewrite (IH (S pos) s a) by (auto; lia).
        rewrite Ea. replace (h_len snap - pos) with (S (h_len snap - S pos)) by lia.
        assert (Hs : skipn pos a = nth pos a nilm :: skipn (S pos) a).
        { clear -E Hl. assert (Hpa : pos < length a) by lia. clear E Hl. revert pos Hpa.
          induction a as [|x t IHa]; intros [|pos] H; simpl in *; try lia; auto. apply IHa. lia. }
        rewrite Hs. reflexivity.
      * apply Nat.ltb_ge in E. rewrite (IH pos s a) by auto.
        replace (h_len snap - pos) with 0 by lia. rewrite !Nat.min_0_r. reflexivity.
Qed.

(* the element-copying walk visits the content the store held when it began,
   under every schedule of Adds *)
Theorem copy_walk_sound s sch : wf s ->
  fst (range_copy s sch) = firstn (visits sch) (content s).
Proof.
  intros [Ha Hl]. unfold range_copy.
  assert (Hc : length (content s) = h_len (cur s)).
  { unfold content. rewrite firstn_length. lia. }
  rewrite (walk_private _ sch 0 _ (content s)); simpl.
  - rewrite Nat.sub_0_r. destruct (Nat.le_ge_cases (visits sch) (h_len (cur s))) as [L|L].
    + rewrite Nat.min_l by exact L. reflexivity.
    + rewrite Nat.min_r by exact L. rewrite !firstn_all2; auto; lia.
  - unfold wf, arr_of. simpl. rewrite app_length. simpl. split; [lia|].
    rewrite app_nth1 by exact Ha. exact Hl.
  - rewrite app_length. simpl. lia.
  - lia.
  - unfold arr_of. simpl. rewrite app_nth2 by lia. rewrite Nat.sub_diag. reflexivity.
  - lia.
  - lia.
Qed.

(* reads through the store's own header with no Add in between (the walk under
   the read lock) see the store's content *)
Lemma walk_uninterrupted snap s : forall n pos rest,
  pos + n <= h_len snap ->
  fst (walk snap pos s (repeat WVisit n ++ rest)) =
  firstn n (skipn pos (firstn (h_len snap) (arr_of s (h_arr snap)) ++ repeat nilm (h_len snap))) ++
  fst (walk snap (pos + n) s rest).
Proof.
  induction n as [|n IH]; intros pos rest H; simpl.
  - rewrite Nat.add_0_r. reflexivity.
  - assert (E : pos <? h_len snap = true) by (apply Nat.ltb_lt; lia). rewrite E. simpl.
    rewrite IH by lia. replace (S pos + n) with (pos + S n) by lia.
    set (l := firstn (h_len snap) (arr_of s (h_arr snap)) ++ repeat nilm (h_len snap)).
    assert (Hl : pos < length l).
    { unfold l. rewrite app_length, repeat_length. lia. }
    assert (Hs : skipn pos l = nth pos l nilm :: skipn (S pos) l).
    { clear -Hl. revert pos Hl. induction l as [|x t IHl]; intros [|pos] H; simpl in *; try lia; auto.
      apply IHl. lia. }
    rewrite Hs. simpl. f_equal.
    unfold l. destruct (Nat.lt_ge_cases pos (length (firstn (h_len snap) (arr_of s (h_arr snap))))) as [L|L].
    + rewrite app_nth1 by exact L. rewrite nth_firstn_lt by lia. reflexivity.
    + rewrite app_nth2 by exact L. rewrite firstn_length in L.
      rewrite nth_overflow by lia.
      symmetry. apply nth_repeat.
Qed.

Theorem locked_walk_sound s attempted : wf s ->
  fst (range_locked s attempted) = content s /\
  snd (range_locked s attempted) = adds attempted s.
Proof.
  intros [Ha Hl]. unfold range_locked, range_hdr. split.
  - rewrite (walk_uninterrupted (cur s) s (h_len (cur s)) 0) by lia. simpl.
    assert (Hw : forall l st pos, fst (walk (cur s) pos st (map WAdd l)) = []).
    { induction l as [|m r IH]; intros st pos; simpl; auto. }
    rewrite Hw, app_nil_r. unfold content.
    rewrite firstn_app. rewrite firstn_length.
    replace (h_len (cur s) - Nat.min (h_len (cur s)) (length (arr_of s (h_arr (cur s))))) with 0 by lia.
    simpl. rewrite app_nil_r. rewrite firstn_firstn. f_equal. lia.
  - assert (Hv : forall n st pos rest, pos + n <= h_len (cur s) ->
               snd (walk (cur s) pos st (repeat WVisit n ++ rest)) = snd (walk (cur s) (pos + n) st rest)).
    { induction n as [|n IH]; intros st pos rest H; simpl.
      - rewrite Nat.add_0_r. reflexivity.
      - assert (E : pos <? h_len (cur s) = true) by (apply Nat.ltb_lt; lia). rewrite E. simpl.
        rewrite IH by lia. f_equal. f_equal. lia. }
    rewrite Hv by lia.
    assert (Hw : forall l st pos, snd (walk (cur s) pos st (map WAdd l)) = adds l st).
    { induction l as [|m r IH]; intros st pos; simpl; auto. }
    apply Hw.
Qed.

(* every content the store holds during a schedule has one metric per program
   and every program that was loaded when the schedule began *)
Theorem held_one_per_program : forall sch s, wf s -> NoDup (progs (content s)) ->
  forall c, In c (held s sch) ->
    NoDup (progs c) /\ (forall p, In p (progs (content s)) -> In p (progs c)).
Proof.
  induction sch as [|e r IH]; intros s W ND c Hc; simpl in Hc.
  - destruct Hc as [<-|[]]. auto.
  - destruct Hc as [<-|Hc]; [auto|]. destruct e as [m|].
    + destruct (add_progs m s W ND) as [ND' Hp].
      destruct (IH (add m s) (add_wf m s W) ND' c Hc) as [N1 I1].
      split; [exact N1|]. intros p Hi. apply I1. apply Hp. right. exact Hi.
    + exact (IH s W ND c Hc).
Qed.

Lemma adds_wf l : forall s, wf s -> wf (adds l s).
Proof. induction l as [|m r IH]; intros s W; simpl; auto. apply IH. apply add_wf. exact W. Qed.

Lemma sempty_wf : wf sempty.
Proof. unfold wf, sempty, arr_of. simpl. lia. Qed.

Lemma adds_progs l : forall s, wf s -> NoDup (progs (content s)) -> NoDup (progs (content (adds l s))).
Proof.
  induction l as [|m r IH]; intros s W ND; simpl; auto.
  apply IH; [apply add_wf; exact W|]. apply add_progs; assumption.
Qed.

(* ---------- (F) the seeded shape ---------- *)
Lemma wit_store_wf : wf wit_store.
Proof. apply adds_wf. exact sempty_wf. Qed.

Lemma wit_store_nodup : NoDup (progs (content wit_store)).
Proof. apply adds_progs; [exact sempty_wf|]. simpl. constructor. Qed.

Theorem header_walk_refuted :
  wf wit_store /\ NoDup (progs (content wit_store)) /\
  content wit_store = [(1, 1); (2, 1); (3, 1)]%N /\ cap_of wit_store = 4 /\
  visits wit_sched = length (content wit_store) /\
  let v := fst (range_hdr wit_store wit_sched) in
  v = [(1, 1); (3, 1); (1, 2)]%N /\
  ~ NoDup (progs v) /\
  In 2%N (progs (content wit_store)) /\ ~ In 2%N (progs v) /\
  (forall c, In c (held wit_store wit_sched) -> ~ Permutation (progs c) (progs v)) /\
  fst (range_copy wit_store wit_sched) = content wit_store /\
  fst (range_locked wit_store [(1, 2)%N]) = content wit_store.
Proof.
  assert (NV : ~ NoDup (progs (fst (range_hdr wit_store wit_sched)))).
  { vm_compute. intros H. inversion H as [|x l Hn _]; subst. apply Hn. right. left. reflexivity. }
  split; [exact wit_store_wf|]. split; [exact wit_store_nodup|].
  split; [vm_compute; reflexivity|]. split; [vm_compute; reflexivity|].
  split; [vm_compute; reflexivity|]. cbv zeta.
  split; [vm_compute; reflexivity|]. split; [exact NV|].
  split; [vm_compute; tauto|].
  split; [vm_compute; intros [H|[H|[H|[]]]]; discriminate|].
  split.
  - intros c Hc P.
    destruct (held_one_per_program wit_sched wit_store wit_store_wf wit_store_nodup c Hc) as [ND _].
    apply NV. eapply Permutation_NoDup; eauto.
  - split; [vm_compute; reflexivity|vm_compute; reflexivity].
Qed.
