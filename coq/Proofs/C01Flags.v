(* The VM keeps ONE "matched" flag per line; the reference gives every block
   its own.  Under the guard [ok_block] (no `otherwise` at the top level of an
   else block, none after a conditional with an else) the two disciplines run
   every block identically: same effects, same abort.  This is the source-level
   core of the statement stage of C01. *)
From V Require Import Lang.RefSem.
From Coq Require Import Lia.

Section Flags.
Variable E : env.
Variable decls : list mdecl.
Variable file line : bytes.

Notation exec_stmt := (exec_stmt E decls file line).
Notation exec_block := (exec_block E decls file line).
Notation gexec_stmt := (gexec_stmt E decls file line).
Notation gexec_block := (gexec_block E decls file line).

Definition forget {A} (r : res A) : res unit :=
  match r with ROk _ s => ROk tt s | RAbort x s => RAbort x s end.

Fixpoint ssize (s : stmt) : nat :=
  match s with
  | SCond _ t => 1 + bsize t
  | SCondElse _ t e => 1 + bsize t + bsize e
  | SOtherwise t => 1 + bsize t
  | _ => 1
  end
with bsize (b : block) : nat :=
  match b with BNil => 0 | BCons s r => ssize s + bsize r end.

Lemma ssize_pos s : 0 < ssize s.
Proof. destruct s; cbn; lia. Qed.

(* unfolding equations (stated once; [cbn] on a mutual fixpoint leaves anonymous fixes) *)
Lemma exec_block_cons st r f s :
  exec_block (BCons st r) f s = bind (exec_stmt st f s) (fun f' s1 => exec_block r f' s1).
Proof. reflexivity. Qed.
Lemma gexec_block_cons st r f s :
  gexec_block (BCons st r) f s = bind (gexec_stmt st f s) (fun f' s1 => gexec_block r f' s1).
Proof. reflexivity. Qed.
Lemma exec_cond c th f s :
  exec_stmt (SCond c th) f s =
  bind (eval E decls file line c s) (fun v s1 =>
    if truthy E v then bind (exec_block th false s1) (fun _ s2 => ROk true s2) else ROk f s1).
Proof. reflexivity. Qed.
Lemma gexec_cond c th f s :
  gexec_stmt (SCond c th) f s =
  bind (eval E decls file line c s) (fun v s1 =>
    if truthy E v then bind (gexec_block th false s1) (fun _ s2 => ROk true s2) else ROk f s1).
Proof. reflexivity. Qed.
Lemma exec_condelse c th el f s :
  exec_stmt (SCondElse c th el) f s =
  bind (eval E decls file line c s) (fun v s1 =>
    if truthy E v then bind (exec_block th false s1) (fun _ s2 => ROk true s2)
    else bind (exec_block el false s1) (fun _ s2 => ROk f s2)).
Proof. reflexivity. Qed.
Lemma gexec_condelse c th el f s :
  gexec_stmt (SCondElse c th el) f s =
  bind (eval E decls file line c s) (fun v s1 =>
    if truthy E v then bind (gexec_block th false s1) (fun _ s2 => ROk true s2)
    else gexec_block el f s1).
Proof. reflexivity. Qed.
Lemma exec_oth th f s :
  exec_stmt (SOtherwise th) f s =
  if f then ROk f s else bind (exec_block th false s) (fun _ s1 => ROk true s1).
Proof. reflexivity. Qed.
Lemma gexec_oth th f s :
  gexec_stmt (SOtherwise th) f s =
  if f then ROk f s else bind (gexec_block th false s) (fun _ s1 => ROk true s1).
Proof. reflexivity. Qed.

Definition simple (st : stmt) : bool :=
  match st with SCond _ _ | SCondElse _ _ _ | SOtherwise _ => false | _ => true end.
Lemma exec_simple_eq st f s : simple st = true ->
  exec_stmt st f s = bind (exec_simple E decls file line st s) (fun _ s1 => ROk f s1).
Proof. destruct st; intros H; try discriminate; reflexivity. Qed.
Lemma gexec_simple_eq st f s : simple st = true ->
  gexec_stmt st f s = bind (exec_simple E decls file line st s) (fun _ s1 => ROk f s1).
Proof. destruct st; intros H; try discriminate; reflexivity. Qed.

Lemma ok_true_no_oth : forall r, ok_block r true = true -> has_oth r = false.
Proof.
  induction r as [|s r IH]; intros H; [reflexivity|].
  cbn [ok_block] in H. apply andb_prop in H as [H1 H2]. apply andb_prop in H1 as [Ha _].
  cbn [has_oth]. destruct (is_oth s); [discriminate|]. cbn. apply IH.
  rewrite orb_true_l in H2. exact H2.
Qed.

Lemma ok_weaken : forall b se, ok_block b se = true -> has_oth b = false -> ok_block b true = true.
Proof.
  induction b as [|s r IH]; intros se H1 H2; [reflexivity|].
  cbn [ok_block] in *. cbn [has_oth] in H2. apply orb_false_iff in H2 as [H2a H2b].
  apply andb_prop in H1 as [H1 H1r]. apply andb_prop in H1 as [_ H1s].
  rewrite H2a, H1s. cbn. eapply IH; [exact H1r|exact H2b].
Qed.

Lemma forget_bind_const {A} (r : res A) (f : bool) :
  forget (bind r (fun _ s => ROk f s)) = forget r.
Proof. destruct r; reflexivity. Qed.

(* the main invariant: if no `else` has been seen in this block the two flags
   are equal; otherwise no `otherwise` remains in it *)
Lemma agree : forall n b se g m s,
  bsize b <= n ->
  ok_block b se = true ->
  (se = false -> g = m) ->
  (se = true -> has_oth b = false) ->
  forget (gexec_block b g s) = exec_block b m s.
Proof.
  induction n as [|n IH]; intros b se g m s Hsz Hok Hgm Hno.
  - destruct b as [|st r]; [reflexivity|]. cbn [bsize] in Hsz. pose proof (ssize_pos st). lia.
  - destruct b as [|st r]; [reflexivity|].
    cbn [bsize] in Hsz. cbn [ok_block] in Hok.
    apply andb_prop in Hok as [Hok Hr]. apply andb_prop in Hok as [Hso Hs].
    rewrite gexec_block_cons, exec_block_cons.
    (* the rest of the block after a statement that leaves both flags as they are *)
    assert (Hrest : forall s1, has_else st = false -> is_oth st = false ->
              forget (gexec_block r g s1) = exec_block r m s1).
    { intros s1 He Ho. rewrite He, orb_false_r in Hr.
      apply IH with (se := se); [pose proof (ssize_pos st); lia | exact Hr | exact Hgm | ].
      intros H. specialize (Hno H). cbn [has_oth] in Hno. rewrite Ho in Hno. exact Hno. }
    destruct (simple st) eqn:Hsimple.
    { rewrite (gexec_simple_eq _ _ _ Hsimple), (exec_simple_eq _ _ _ Hsimple).
      destruct (exec_simple E decls file line st s) as [[] s1|x s1]; cbn [bind forget]; [|reflexivity].
      apply Hrest; destruct st; try discriminate; reflexivity. }
    destruct st as [mm ks|mm ks|t mm ks e|t mm ks e|e|e sid lay|c th|c th el|th|mm ks|mm ks d| ];
      try discriminate.
    + (* SCond *)
      rewrite gexec_cond, exec_cond. cbn [ok_stmt] in Hs. cbn [ssize] in Hsz.
      destruct (eval E decls file line c s) as [v s1|x s1]; cbn [bind forget]; [|reflexivity].
      destruct (truthy E v).
      * assert (Hth : forget (gexec_block th false s1) = exec_block th false s1).
        { apply IH with (se := false); [lia | exact Hs | reflexivity | intros; discriminate]. }
        rewrite <- Hth.
        destruct (gexec_block th false s1) as [f s2|x s2]; cbn [bind forget]; [|reflexivity].
        apply IH with (se := se || false); [lia | exact Hr | reflexivity | ].
        intros H. rewrite orb_false_r in H. specialize (Hno H). cbn in Hno. exact Hno.
      * cbn [bind]. apply Hrest; reflexivity.
    + (* SCondElse *)
      rewrite gexec_condelse, exec_condelse. cbn [ok_stmt] in Hs. cbn [ssize] in Hsz.
      apply andb_prop in Hs as [Hs Hel]. apply andb_prop in Hs as [Hth0 Hnoel].
      apply negb_true_iff in Hnoel. cbn [has_else] in Hr. rewrite orb_true_r in Hr.
      pose proof (ok_true_no_oth _ Hr) as Hnor.
      destruct (eval E decls file line c s) as [v s1|x s1]; cbn [bind forget]; [|reflexivity].
      destruct (truthy E v).
      * assert (Hth : forget (gexec_block th false s1) = exec_block th false s1).
        { apply IH with (se := false); [lia | exact Hth0 | reflexivity | intros; discriminate]. }
        rewrite <- Hth.
        destruct (gexec_block th false s1) as [f s2|x s2]; cbn [bind forget]; [|reflexivity].
        apply IH with (se := true); [lia | exact Hr | intros; discriminate | intros; exact Hnor].
      * assert (He : forget (gexec_block el g s1) = exec_block el false s1).
        { apply IH with (se := true); [lia | eapply ok_weaken; eauto | intros; discriminate | intros; exact Hnoel]. }
        rewrite <- He.
        destruct (gexec_block el g s1) as [f s2|x s2]; cbn [bind forget]; [|reflexivity].
        apply IH with (se := true); [lia | exact Hr | intros; discriminate | intros; exact Hnor].
    + (* SOtherwise *)
      rewrite gexec_oth, exec_oth. cbn [ok_stmt] in Hs. cbn [ssize] in Hsz.
      cbn [is_oth] in Hso. apply negb_true_iff in Hso. subst se.
      specialize (Hgm eq_refl). subst m. cbn [has_else] in Hr. cbn in Hr.
      destruct g.
      * cbn [bind]. apply IH with (se := false); [lia | exact Hr | reflexivity | intros; discriminate].
      * assert (Hth : forget (gexec_block th false s) = exec_block th false s).
        { apply IH with (se := false); [lia | exact Hs | reflexivity | intros; discriminate]. }
        rewrite <- Hth.
        destruct (gexec_block th false s) as [f s2|x s2]; cbn [bind forget]; [|reflexivity].
        apply IH with (se := false); [lia | exact Hr | reflexivity | intros; discriminate].
Qed.

Theorem flags_coincide : forall b s,
  ok_block b false = true ->
  forget (gexec_block b false s) = exec_block b false s.
Proof. intros b s H. eapply agree with (se := false); eauto. intros; discriminate. Qed.

End Flags.
