From V Require Import Base.Bytes Lang.Literals.
Local Open Scope N_scope.

Lemma unq_esc_n q : q <> 92 -> q <> 10 ->
  forall n s, (length s <= n)%nat -> imgb q s = true ->
  forall rest, unq q (esc q s ++ q :: rest) = Some (s, rest).
Proof.
  intros Hq1 Hq2. induction n as [|n IH]; intros s Hn Hi rest.
  { destruct s; [|cbn in Hn; lia]. cbn. 
    destruct (N.eqb_spec q 92); [contradiction|]. destruct (N.eqb_spec q 10); [contradiction|].
    rewrite N.eqb_refl. reflexivity. }
  destruct s as [|c r].
  { cbn. destruct (N.eqb_spec q 92); [contradiction|]. destruct (N.eqb_spec q 10); [contradiction|].
    rewrite N.eqb_refl. reflexivity. }
  cbn [imgb] in Hi. cbn [esc].
  destruct (N.eqb_spec c 92) as [->|Hc].
  - (* an escape pair kept by the lexer *)
    destruct r as [|d r']; [discriminate|].
    apply Bool.andb_true_iff in Hi. destruct Hi as (Hi1 & Hi).
    apply Bool.andb_true_iff in Hi1. destruct Hi1 as (Hd1 & Hd2).
    apply Bool.negb_true_iff in Hd1. apply Bool.negb_true_iff in Hd2.
    destruct (N.eqb_spec 92 q) as [E|_]; [symmetry in E; contradiction|].
    cbn [esc]. rewrite Hd1. cbn [app unq]. rewrite N.eqb_refl. rewrite Hd2, Hd1.
    rewrite (IH r' ltac:(cbn in Hn; lia) Hi rest). reflexivity.
  - apply Bool.andb_true_iff in Hi. destruct Hi as (Hc2 & Hi). apply Bool.negb_true_iff in Hc2.
    destruct (N.eqb_spec c q) as [->|Hcq].
    + (* a bare q in the text: written as backslash q *)
      cbn [app unq]. rewrite N.eqb_refl. rewrite Hc2. rewrite N.eqb_refl.
      rewrite (IH r ltac:(cbn in Hn; lia) Hi rest). reflexivity.
    + cbn [app unq]. apply N.eqb_neq in Hc. rewrite Hc, Hc2.
      apply N.eqb_neq in Hcq. rewrite Hcq.
      rewrite (IH r ltac:(cbn in Hn; lia) Hi rest). reflexivity.
Qed.

Theorem unq_esc q s rest :
  q <> 92 -> q <> 10 -> imgb q s = true -> unq q (esc q s ++ q :: rest) = Some (s, rest).
Proof. intros H1 H2 Hi. exact (unq_esc_n q H1 H2 (length s) s (le_n _) Hi rest). Qed.

(* without the escaping the text a-quote-b between double quotes is read back as a *)
Lemma unq_unescaped_loses :
  imgb 34 [97; 34; 98] = true /\ unq 34 ([97; 34; 98] ++ [34]) = Some ([97], [98; 34]).
Proof. split; reflexivity. Qed.
