(* Facts about the LRU list of Lang/Memo.v: any per-entry invariant is kept by
   Get (hit, miss), Add (overwrite, insert, eviction); the structure invariants
   of lru.Cache (distinct keys, length bound); lookup after Add. *)
From Coq Require Import List Arith Bool Lia.
From V Require Import Base.Bytes Lang.Memo.
Import ListNotations.

Section LRU.
  Context {K V : Type}.
  Variable keqb : K -> K -> bool.
  Hypothesis keqb_spec : forall a b, keqb a b = true <-> a = b.

  Lemma keqb_refl k : keqb k k = true.
  Proof. apply keqb_spec. reflexivity. Qed.

  Lemma lru_find_In k v (l : @lru K V) : lru_find keqb k l = Some v -> In (k, v) l.
  Proof.
    induction l as [|[k' v'] r IH]; cbn; [discriminate|].
    destruct (keqb k k') eqn:E.
    - intros H. inversion H; subst. apply keqb_spec in E. subst. now left.
    - intros H. right. auto.
  Qed.

  Lemma lru_remove_incl k (l : @lru K V) x : In x (lru_remove keqb k l) -> In x l.
  Proof.
    induction l as [|[k' v'] r IH]; cbn; [tauto|].
    destruct (keqb k k'); cbn; intuition.
  Qed.

  Lemma removelast_incl {A} (l : list A) x : In x (removelast l) -> In x l.
  Proof.
    induction l as [|a r IH]; cbn; [tauto|].
    destruct r; cbn in *; [tauto|]. intuition.
  Qed.

  (* ---- a per-entry invariant survives every cache operation ---- *)
  Variable P : K -> V -> Prop.
  Definition lru_all (l : @lru K V) : Prop := forall k v, In (k, v) l -> P k v.

  Lemma lru_all_nil : lru_all [].
  Proof. intros k v []. Qed.

  Lemma lru_get_hit_sound k (l : @lru K V) v l' :
    lru_all l -> lru_get keqb k l = (Some v, l') -> P k v /\ lru_all l'.
  Proof.
    unfold lru_get. intros A. destruct (lru_find keqb k l) as [v0|] eqn:F; [|discriminate].
    intros H. inversion H; subst. pose proof (lru_find_In _ _ _ F) as I. split; [auto|].
    intros k2 v2 [E|I2]; [inversion E; subst; auto|]. apply A. eapply lru_remove_incl; eauto.
  Qed.

  Lemma lru_get_miss k (l l' : @lru K V) : lru_get keqb k l = (None, l') -> l' = l.
  Proof.
    unfold lru_get. destruct (lru_find keqb k l); [discriminate|]. intros H. now inversion H.
  Qed.

  Lemma lru_get_sound k (l : @lru K V) : lru_all l -> lru_all (snd (lru_get keqb k l)).
  Proof.
    intros A. destruct (lru_get keqb k l) as [[v|] l'] eqn:G; cbn.
    - eapply lru_get_hit_sound; eauto.
    - apply lru_get_miss in G. now subst.
  Qed.

  (* insertion of a correct entry, including the eviction of the oldest one *)
  Lemma lru_add_sound cap k v l : lru_all l -> P k v -> lru_all (lru_add keqb cap k v l).
  Proof.
    intros A Pk. unfold lru_add. destruct (lru_find keqb k l).
    - intros k2 v2 [E|I]; [inversion E; subst; auto|]. apply A. eapply lru_remove_incl; eauto.
    - assert (B : lru_all ((k, v) :: l)).
      { intros k2 v2 [E|I]; [inversion E; subst; auto|auto]. }
      destruct (negb (Nat.eqb cap 0) && Nat.ltb cap (length ((k, v) :: l))); [|exact B].
      intros k2 v2 I. apply B. now apply removelast_incl.
  Qed.
End LRU.

Section Structure.
  Context {K V : Type}.
  Variable keqb : K -> K -> bool.
  Hypothesis keqb_spec : forall a b, keqb a b = true <-> a = b.

  Lemma lru_find_remove_same k (l : @lru K V) :
    NoDup (map fst l) -> lru_find keqb k (lru_remove keqb k l) = None.
  Proof.
    induction l as [|[k' v'] r IH]; cbn; [reflexivity|]. intros ND. inversion ND; subst.
    destruct (keqb k k') eqn:E; cbn.
    - apply keqb_spec in E. subst.
      destruct (lru_find keqb k' r) eqn:F; [|reflexivity].
      exfalso. apply H1. apply (lru_find_In keqb keqb_spec) in F.
      change k' with (fst (k', v)). now apply in_map.
    - rewrite E. auto.
  Qed.

  Lemma lru_remove_keys_incl k (l : @lru K V) x :
    In x (map fst (lru_remove keqb k l)) -> In x (map fst l).
  Proof.
    rewrite !in_map_iff. intros [y [E I]]. exists y. split; [auto|].
    eapply lru_remove_incl; eauto.
  Qed.

  Lemma lru_remove_nodup k (l : @lru K V) : NoDup (map fst l) -> NoDup (map fst (lru_remove keqb k l)).
  Proof.
    induction l as [|[k' v'] r IH]; cbn; [auto|]. intros ND. inversion ND; subst.
    destruct (keqb k k'); cbn; [auto|]. constructor; [|auto].
    intros I. apply H1. eapply lru_remove_keys_incl; eauto.
  Qed.

  Lemma lru_remove_not_in k (l : @lru K V) :
    NoDup (map fst l) -> ~ In k (map fst (lru_remove keqb k l)).
  Proof.
    induction l as [|[k' v'] r IH]; cbn; [tauto|]. intros ND. inversion ND; subst.
    destruct (keqb k k') eqn:E.
    - apply keqb_spec in E. now subst.
    - cbn. intros [E2|I]; [|now apply IH]. subst.
      rewrite (proj2 (keqb_spec k k) eq_refl) in E. discriminate.
  Qed.

  Lemma lru_find_none_not_in k (l : @lru K V) : lru_find keqb k l = None -> ~ In k (map fst l).
  Proof.
    induction l as [|[k' v'] r IH]; cbn; [tauto|].
    destruct (keqb k k') eqn:E; [discriminate|]. intros F [E2|I]; [|now apply IH].
    subst. rewrite (proj2 (keqb_spec k k) eq_refl) in E. discriminate.
  Qed.

  Lemma lru_remove_length k (l : @lru K V) : (length (lru_remove keqb k l) <= length l)%nat.
  Proof. induction l as [|[k' v'] r IH]; cbn; [lia|]. destruct (keqb k k'); cbn; lia. Qed.

  Lemma lru_remove_length_found k (l : @lru K V) v :
    lru_find keqb k l = Some v -> S (length (lru_remove keqb k l)) = length l.
  Proof.
    induction l as [|[k' v'] r IH]; cbn; [discriminate|].
    destruct (keqb k k'); cbn; [reflexivity|]. intros F. now rewrite IH.
  Qed.

  Lemma nodup_removelast {A} (l : list A) : NoDup l -> NoDup (removelast l).
  Proof.
    induction l as [|a r IH]; cbn; [auto|]. intros ND. inversion ND; subst.
    destruct r; [constructor|]. constructor; [|auto].
    intros I. apply H1. now apply removelast_incl.
  Qed.

  Lemma map_removelast {A B} (f : A -> B) (l : list A) : map f (removelast l) = removelast (map f l).
  Proof.
    induction l as [|a r IH]; cbn; [reflexivity|]. destruct r; cbn in *; [reflexivity|]. now rewrite IH.
  Qed.

  Lemma length_removelast {A} (l : list A) : length (removelast l) = pred (length l).
  Proof.
    induction l as [|a r IH]; cbn; [reflexivity|]. destruct r; cbn in *; [reflexivity|]. now rewrite IH.
  Qed.

  (* lru.Cache's structure: one element per key, never more than MaxEntries *)
  Definition lru_wf (cap : nat) (l : @lru K V) : Prop :=
    NoDup (map fst l) /\ (cap <> 0%nat -> (length l <= cap)%nat).

  Lemma lru_wf_nil cap : lru_wf cap [].
  Proof. split; [constructor|cbn; lia]. Qed.

  Lemma lru_get_wf cap k l : lru_wf cap l -> lru_wf cap (snd (lru_get keqb k l)).
  Proof.
    intros [ND LE]. unfold lru_get. destruct (lru_find keqb k l) eqn:F; cbn; [|now split].
    split.
    - cbn. constructor; [now apply lru_remove_not_in | now apply lru_remove_nodup].
    - intros C. cbn. rewrite (lru_remove_length_found _ _ _ F). auto.
  Qed.

  Lemma lru_add_wf cap k v l : lru_wf cap l -> lru_wf cap (lru_add keqb cap k v l).
  Proof.
    intros [ND LE]. unfold lru_add. destruct (lru_find keqb k l) eqn:F.
    - split.
      + cbn. constructor; [now apply lru_remove_not_in | now apply lru_remove_nodup].
      + intros C. cbn. rewrite (lru_remove_length_found _ _ _ F). auto.
    - assert (ND2 : NoDup (map fst ((k, v) :: l))).
      { cbn. constructor; [now apply lru_find_none_not_in | auto]. }
      destruct (Nat.eqb cap 0) eqn:C0; cbn [negb andb].
      + apply Nat.eqb_eq in C0. split; [auto|]. intros C. contradiction.
      + apply Nat.eqb_neq in C0. destruct (Nat.ltb cap (length ((k, v) :: l))) eqn:LT.
        * split.
          -- rewrite map_removelast. now apply nodup_removelast.
          -- intros _. rewrite length_removelast. cbn. specialize (LE C0). lia.
        * apply Nat.ltb_ge in LT. split; [auto|]. intros _. exact LT.
  Qed.

  (* a Get right after an Add of the same key returns the value added *)
  Lemma lru_find_add cap k v (l : @lru K V) :
    cap <> 0%nat -> lru_wf cap l -> lru_find keqb k (lru_add keqb cap k v l) = Some v.
  Proof.
    intros C [ND LE]. unfold lru_add. destruct (lru_find keqb k l) eqn:F.
    - cbn. now rewrite (proj2 (keqb_spec k k) eq_refl).
    - destruct (negb (Nat.eqb cap 0) && Nat.ltb cap (length ((k, v) :: l))) eqn:Cd.
      + destruct l as [|e r].
        * exfalso. apply andb_true_iff in Cd. destruct Cd as [_ LT].
          apply Nat.ltb_lt in LT. cbn [length] in LT. lia.
        * cbn. now rewrite (proj2 (keqb_spec k k) eq_refl).
      + cbn. now rewrite (proj2 (keqb_spec k k) eq_refl).
  Qed.
End Structure.

Lemma key2_eqb_spec a b : key2_eqb a b = true <-> a = b.
Proof.
  unfold key2_eqb. destruct a as [a1 a2], b as [b1 b2]; cbn.
  rewrite andb_true_iff, !bytes_eqb_spec. split; [intros [-> ->]; reflexivity|].
  intros H. inversion H. auto.
Qed.
