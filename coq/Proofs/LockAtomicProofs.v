(* C11 - soundness of the static check-then-act analysis `stale_violations`
   (Export/LockIR.v) for the trace monitor `atomic_trace`. *)
From Coq Require Import List NArith Bool Arith.
Import ListNotations.
From V Require Import Export.LockIR Proofs.LockIRProofs.
Local Open Scope N_scope.

Lemma opair_eqb_eq a b : opair_eqb a b = true <-> a = b.
Proof.
  destruct a as [x f], b as [y g]. unfold opair_eqb. simpl. split.
  - intros H. apply andb_prop in H. destruct H as [H1 H2].
    apply N.eqb_eq in H1. apply N.eqb_eq in H2. congruence.
  - intros H. inversion H; subst. rewrite !N.eqb_refl. reflexivity.
Qed.

Section ASound.
Variable spec : N -> guard.

Lemma mon_apply_app D t1 t2 : mon_apply spec D (t1 ++ t2) = mon_apply spec (mon_apply spec D t1) t2.
Proof. unfold mon_apply. apply fold_left_app. Qed.

Lemma atomic_from_app D t1 t2 :
  atomic_from spec D (t1 ++ t2) <-> atomic_from spec D t1 /\ atomic_from spec (mon_apply spec D t1) t2.
Proof.
  revert D. induction t1 as [|ev r IH]; intros D; simpl.
  - tauto.
  - rewrite IH. unfold mon_apply at 2. simpl. fold (mon_apply spec (fst (mon1 spec D ev)) r). tauto.
Qed.

Lemma atomic_from_reset D r : atomic_from spec D (EvReset :: r) <-> atomic_from spec mst0 r.
Proof. simpl. tauto. Qed.

Lemma mon_apply_reset D r : mon_apply spec D (EvReset :: r) = mon_apply spec mst0 r.
Proof. reflexivity. Qed.

Lemma loop_starts_reset body site r tr r' f :
  run_stmt (LLoop body site) r tr r' f -> exists t, tr = EvReset :: t.
Proof. intros H. inversion H; subst; eauto. Qed.

(* the static state over symbols covers the monitor's state over objects *)
Definition absrel (X : mst) (r : env) (D : mst) : Prop :=
  (forall x f, In (x, f) (mR D) -> exists o, r o = x /\ In (o, f) (mR X)) /\
  (forall x f, In (x, f) (mS D) -> exists o, r o = x /\ In (o, f) (mS X)).

Lemma absrel0 X r : absrel X r mst0.
Proof. split; intros x f []. Qed.

Lemma munion_l a y r D : absrel a r D -> exists c, munion (Some a) y = Some c /\ absrel c r D.
Proof.
  intros [A1 A2]. destruct y as [b|]; simpl; eexists; (split; [reflexivity|]).
  - split; intros x f Hi; simpl.
    + destruct (A1 _ _ Hi) as (o & E & I1). exists o. split; [exact E|]. apply in_or_app; auto.
    + destruct (A2 _ _ Hi) as (o & E & I1). exists o. split; [exact E|]. apply in_or_app; auto.
  - split; assumption.
Qed.

Lemma munion_r x b r D : absrel b r D -> exists c, munion x (Some b) = Some c /\ absrel c r D.
Proof.
  intros [A1 A2]. destruct x as [a|]; simpl; eexists; (split; [reflexivity|]).
  - split; intros x f Hi; simpl.
    + destruct (A1 _ _ Hi) as (o & E & I1). exists o. split; [exact E|]. apply in_or_app; auto.
    + destruct (A2 _ _ Hi) as (o & E & I1). exists o. split; [exact E|]. apply in_or_app; auto.
  - split; assumption.
Qed.

Lemma scheck_if_eq t e X :
  scheck_stmt spec (LIf t e) X =
  (fst (scheck_block spec t X) ++ fst (scheck_block spec e X),
   munion (snd (scheck_block spec t X)) (snd (scheck_block spec e X))).
Proof. reflexivity. Qed.

Lemma scheck_loop_eq body site X :
  scheck_stmt spec (LLoop body site) X = (fst (scheck_block spec body mst0), Some mst0).
Proof. reflexivity. Qed.

Lemma scheck_cons_eq s r X :
  scheck_block spec (LCons s r) X =
  match snd (scheck_stmt spec s X) with
  | None => scheck_stmt spec s X
  | Some X1 => (fst (scheck_stmt spec s X) ++ fst (scheck_block spec r X1), snd (scheck_block spec r X1))
  end.
Proof. reflexivity. Qed.

Lemma ssound_mut :
  (forall s r tr r' f, run_stmt s r tr r' f ->
     forall X D, fst (scheck_stmt spec s X) = [] -> absrel X r D ->
       atomic_from spec D tr /\
       (f = LFall -> exists X', snd (scheck_stmt spec s X) = Some X' /\ absrel X' r' (mon_apply spec D tr))) /\
  (forall b r tr r' f, run_block b r tr r' f ->
     forall X D, fst (scheck_block spec b X) = [] -> absrel X r D ->
       atomic_from spec D tr /\
       (f = LFall -> exists X', snd (scheck_block spec b X) = Some X' /\ absrel X' r' (mon_apply spec D tr))).
Proof.
  apply run_mutind.
  - (* acq *) intros o l m r X D _ A. split; [simpl; auto|]. intros _. simpl. eauto.
  - (* rel *) intros o l m r X D _ [A1 A2]. split; [simpl; auto|]. intros _. simpl.
    eexists. split; [reflexivity|]. split; simpl.
    + exact A1.
    + intros x f Hi. apply in_app_or in Hi. destruct Hi as [Hi|Hi].
      * apply filter_In in Hi. destruct Hi as [Hi Hc]. apply andb_prop in Hc. destruct Hc as [_ Hg].
        destruct (A1 _ _ Hi) as (o' & E & I1). exists o'. split; [exact E|].
        apply in_or_app. left. apply filter_In. split; [exact I1|]. exact Hg.
      * destruct (A2 _ _ Hi) as (o' & E & I1). exists o'. split; [exact E|]. apply in_or_app; auto.
  - (* bind *) intros x v r X D _ A. split; [simpl; auto|]. intros _. simpl.
    eexists. split; [reflexivity|]. apply absrel0.
  - (* acc *) intros o f k site r X D V [A1 A2]. destruct k.
    + (* read *) split; [simpl; auto|]. intros _. simpl. eexists. split; [reflexivity|]. split; simpl.
      * intros x g [E|Hi]; [inversion E; subst; eauto|].
        destruct (A1 _ _ Hi) as (o' & E & I1). eauto.
      * intros x g Hi. apply filter_In in Hi. destruct Hi as [Hi Hn].
        destruct (A2 _ _ Hi) as (o' & E & I1). exists o'. split; [exact E|].
        apply filter_In. split; [exact I1|].
        apply negb_true_iff. apply negb_true_iff in Hn.
        destruct (opair_eqb (o', g) (o, f)) eqn:Eq; [|reflexivity].
        apply opair_eqb_eq in Eq. inversion Eq; subst.
        assert (opair_eqb (r o, f) (r o, f) = true) by (apply opair_eqb_eq; reflexivity). congruence.
    + (* write *) simpl in V.
      destruct (existsb (fun p => N.eqb (snd p) f) (mS X)) eqn:Ex; [discriminate|].
      split.
      * simpl. split; [|exact I]. apply negb_true_iff.
        destruct (existsb (opair_eqb (r o, f)) (mS D)) eqn:Ed; [|reflexivity].
        apply existsb_exists in Ed. destruct Ed as (p & Hp & Eq). apply opair_eqb_eq in Eq. subst p.
        destruct (A2 _ _ Hp) as (o' & E & I1).
        assert (existsb (fun p => N.eqb (snd p) f) (mS X) = true).
        { apply existsb_exists. exists (o', f). split; [exact I1|]. simpl. apply N.eqb_refl. }
        congruence.
      * intros _. simpl. eexists. split; [reflexivity|]. split; simpl.
        -- intros x g [E|Hi]; [inversion E; subst; eauto|].
           destruct (A1 _ _ Hi) as (o' & E & I1). eauto.
        -- exact A2.
    + (* atomic *) split; [simpl; auto|]. intros _. simpl. eexists. split; [reflexivity|]. split; assumption.
  - (* if then *) intros t e r tr r' fl _ IH X D V A. rewrite scheck_if_eq in *. simpl in V.
    apply app_eq_nil in V. destruct V as [Vx Vy].
    destruct (IH X D Vx A) as [G P]. split; [exact G|]. intros F.
    destruct (P F) as (X' & E & A'). simpl. rewrite E. apply munion_l. exact A'.
  - (* if else *) intros t e r tr r' fl _ IH X D V A. rewrite scheck_if_eq in *. simpl in V.
    apply app_eq_nil in V. destruct V as [Vx Vy].
    destruct (IH X D Vy A) as [G P]. split; [exact G|]. intros F.
    destruct (P F) as (X' & E & A'). simpl. rewrite E. apply munion_r. exact A'.
  - (* loop done *) intros body site r X D _ A. split; [simpl; auto|]. intros _.
    rewrite scheck_loop_eq. simpl. eexists. split; [reflexivity|]. apply absrel0.
  - (* loop iter *) intros body site r tr1 r1 f1 tr2 r2 fl _ IHb _ Hl IHl X D V A.
    pose proof V as V0. rewrite scheck_loop_eq in V. simpl in V.
    destruct (IHb mst0 mst0 V (absrel0 _ _)) as [G1 _].
    destruct (loop_starts_reset _ _ _ _ _ _ Hl) as (t2 & ->).
    destruct (IHl X mst0 V0 (absrel0 _ _)) as [G2 P2].
    split.
    + apply atomic_from_reset. apply atomic_from_app. split; [exact G1|].
      apply atomic_from_reset. apply atomic_from_reset in G2. exact G2.
    + intros F. destruct (P2 F) as (X' & E & A'). exists X'. split; [exact E|].
      rewrite mon_apply_reset, mon_apply_app, mon_apply_reset.
      rewrite mon_apply_reset in A'. exact A'.
  - (* loop break *) intros body site r tr1 r1 _ IHb X D V A.
    rewrite scheck_loop_eq in *. simpl in V.
    destruct (IHb mst0 mst0 V (absrel0 _ _)) as [G1 _]. split.
    + apply atomic_from_reset. apply atomic_from_app. split; [exact G1|simpl; auto].
    + intros _. eexists. split; [reflexivity|].
      rewrite mon_apply_reset, mon_apply_app. simpl. apply absrel0.
  - (* loop ret *) intros body site r tr1 r1 _ IHb X D V A.
    rewrite scheck_loop_eq in *. simpl in V.
    destruct (IHb mst0 mst0 V (absrel0 _ _)) as [G1 _]. split.
    + apply atomic_from_reset. exact G1.
    + discriminate.
  - (* continue *) intros r X D _ A. split; [simpl; auto|discriminate].
  - (* break *) intros r X D _ A. split; [simpl; auto|discriminate].
  - (* return *) intros r X D _ A. split; [simpl; auto|discriminate].
  - (* unknown *) intros site r tr r' fl X D V A. simpl in V. discriminate.
  - (* nil *) intros r X D _ A. split; [simpl; auto|]. intros _. simpl. eauto.
  - (* cons fall *) intros s b r tr1 r1 tr2 r2 fl _ IHs _ IHb X D V A.
    rewrite scheck_cons_eq in *.
    destruct (snd (scheck_stmt spec s X)) as [X1|] eqn:Ef.
    + simpl in V. apply app_eq_nil in V. destruct V as [Vx Vy].
      destruct (IHs X D Vx A) as [G1 P1]. destruct (P1 eq_refl) as (X1' & E1 & A1).
      rewrite Ef in E1. inversion E1; subst X1'.
      destruct (IHb X1 _ Vy A1) as [G2 P2].
      split; [apply atomic_from_app; auto|]. intros F. rewrite mon_apply_app. simpl. exact (P2 F).
    + destruct (IHs X D V A) as [_ P1]. destruct (P1 eq_refl) as (X1' & E1 & _).
      rewrite Ef in E1. discriminate.
  - (* cons stop *) intros s b r tr1 r1 fl _ IHs Hfl X D V A.
    rewrite scheck_cons_eq in *.
    destruct (snd (scheck_stmt spec s X)) as [X1|] eqn:Ef.
    + simpl in V. apply app_eq_nil in V. destruct V as [Vx Vy].
      destruct (IHs X D Vx A) as [G1 _]. split; [exact G1|]. intros F. contradiction.
    + destruct (IHs X D V A) as [G1 _]. split; [exact G1|]. intros F. contradiction.
Qed.

(* a function the analysis accepts never writes from stale knowledge *)
Theorem stale_sound b :
  stale_violations spec b = [] ->
  forall r tr r' f, run_block b r tr r' f -> atomic_trace spec tr.
Proof.
  intros V r tr r' f Hr.
  exact (proj1 (proj2 ssound_mut _ _ _ _ _ Hr mst0 mst0 V (absrel0 _ _))).
Qed.

End ASound.

(* the seeded shape does produce a trace that writes from stale knowledge *)
Lemma split_shape_not_atomic :
  exists tr, run_block getdatum_split_shape (fun _ => 7) tr (fun _ => 7) LFall /\
             ~ atomic_trace mtail_spec tr.
Proof.
  exists ([EvAcq 7 l_mu MR] ++ [EvAcc 7 f_labelValuesMap KRead] ++ [EvRel 7 l_mu MR] ++
          ([EvAcq 7 l_mu MW] ++ [EvAcc 7 f_LabelValues KRead] ++ [EvAcc 7 f_LabelValues KWrite] ++
           [EvAcc 7 f_labelValuesMap KWrite] ++ [EvRel 7 l_mu MW] ++ []) ++ []).
  split.
  - unfold getdatum_split_shape. cbn [lblock_of].
    eapply R_cons_fall; [apply (R_acq 0 l_mu MR (fun _ => 7))|].
    eapply R_cons_fall; [apply (R_acc 0 f_labelValuesMap KRead 3 (fun _ => 7))|].
    eapply R_cons_fall; [apply (R_rel 0 l_mu MR (fun _ => 7))|].
    eapply R_cons_fall; [|apply R_nil].
    apply R_if_e.
    eapply R_cons_fall; [apply (R_acq 0 l_mu MW (fun _ => 7))|].
    eapply R_cons_fall; [apply (R_acc 0 f_LabelValues KRead 6 (fun _ => 7))|].
    eapply R_cons_fall; [apply (R_acc 0 f_LabelValues KWrite 4 (fun _ => 7))|].
    eapply R_cons_fall; [apply (R_acc 0 f_labelValuesMap KWrite 5 (fun _ => 7))|].
    eapply R_cons_fall; [apply (R_rel 0 l_mu MW (fun _ => 7))|]. apply R_nil.
  - unfold atomic_trace. vm_compute. intuition discriminate.
Qed.
