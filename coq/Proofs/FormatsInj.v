(* Injectivity of the flattened paths: different label sets of one metric give
   different records, for label values free of the format's separators. *)
From V Require Import Export.Formats Proofs.FormatsProofs.
Local Open Scope N_scope.

(* ---- join ---- *)
Lemma join_cons sep x r :
  join sep (x :: r) = x ++ match r with [] => [] | _ => sep ++ join sep r end.
Proof. destruct r; [cbn; rewrite app_nil_r; reflexivity|reflexivity]. Qed.

Definition tail_ok (s : byte) (t : bytes) : Prop := t = [] \/ exists t', t = s :: t'.

Lemma split_unique s v1 v2 t1 t2 :
  ~ In s v1 -> ~ In s v2 -> tail_ok s t1 -> tail_ok s t2 ->
  v1 ++ t1 = v2 ++ t2 -> v1 = v2 /\ t1 = t2.
Proof.
  revert v2; induction v1 as [|x v1 IH]; intros [|y v2] H1 H2 T1 T2 E; cbn [app] in E.
  - split; [reflexivity|exact E].
  - exfalso. destruct T1 as [->|(t' & ->)]; [discriminate|]. injection E as -> _. apply H2. left. reflexivity.
  - exfalso. destruct T2 as [->|(t' & ->)]; [discriminate|]. injection E as -> _. apply H1. left. reflexivity.
  - injection E as -> E. destruct (IH v2) as (A & B); try assumption.
    + intros H. apply H1. right. exact H.
    + intros H. apply H2. right. exact H.
    + split; [f_equal; exact A|exact B].
Qed.

Lemma join_pairs_inj {X} ksep s (T : list X) (k a b : X -> bytes) :
  (forall t, In t T -> ~ In s (a t) /\ ~ In s (b t)) ->
  join [s] (map (fun t => k t ++ [ksep] ++ a t) T) = join [s] (map (fun t => k t ++ [ksep] ++ b t) T) ->
  forall t, In t T -> a t = b t.
Proof.
  induction T as [|t0 T IH]; intros Hs E t Ht; [destruct Ht|].
  cbn [map] in E. rewrite !join_cons in E. rewrite <- !app_assoc in E.
  apply app_inv_head in E. cbn [app] in E. injection E as E.
  destruct (Hs t0 (or_introl eq_refl)) as (Ha & Hb).
  apply (split_unique s) in E as (E0 & Et); try assumption.
  - destruct Ht as [<-|Ht]; [exact E0|].
    apply IH; [intros u Hu; apply Hs; right; exact Hu| |exact Ht].
    destruct T as [|t1 T']; [destruct Ht|]. cbn [map app] in Et. cbn [map]. injection Et as Et. exact Et.
  - destruct T; cbn [map]; [left; reflexivity|right; eexists; reflexivity].
  - destruct T; cbn [map]; [left; reflexivity|right; eexists; reflexivity].
Qed.

(* ---- sorting by a key commutes with a map that keeps the key ---- *)
Lemma insert_by_map {A B} (f : A -> B) (leA : A -> A -> bool) (leB : B -> B -> bool) x l :
  (forall x y, leA x y = leB (f x) (f y)) ->
  map f (insert_by leA x l) = insert_by leB (f x) (map f l).
Proof.
  intros H. induction l as [|y l IH]; [reflexivity|]. cbn [insert_by map]. rewrite <- H.
  destruct (leA x y); cbn [map]; [reflexivity|]. rewrite IH. reflexivity.
Qed.
Lemma sort_by_map {A B} (f : A -> B) (leA : A -> A -> bool) (leB : B -> B -> bool) l :
  (forall x y, leA x y = leB (f x) (f y)) ->
  map f (sort_by leA l) = sort_by leB (map f l).
Proof.
  intros H. induction l as [|x l IH]; [reflexivity|]. cbn [sort_by fold_right map].
  fold (sort_by leA l). fold (sort_by leB (map f l)). rewrite <- IH. apply insert_by_map. exact H.
Qed.
Lemma in_insert_by_iff {A} (le : A -> A -> bool) x y l : In y (insert_by le x l) <-> y = x \/ In y l.
Proof.
  induction l as [|z l IH]; cbn [insert_by]; [cbn; intuition congruence|].
  destruct (le x z); cbn [In]; [intuition congruence|]. rewrite IH. intuition congruence.
Qed.
Lemma in_sort_by_iff {A} (le : A -> A -> bool) y l : In y (sort_by le l) <-> In y l.
Proof.
  induction l as [|x l IH]; [reflexivity|]. cbn [sort_by fold_right]. fold (sort_by le l).
  rewrite in_insert_by_iff, IH. cbn. intuition congruence.
Qed.

(* ---- cleaning ---- *)
Definition clean (ksep sep rep : byte) (s : bytes) : bytes := replace_byte sep rep (replace_byte ksep rep s).

Lemma replace_byte_free a b s : b <> a -> ~ In a (replace_byte a b s).
Proof.
  intros H. induction s as [|x s IH]; [intros []|]. cbn. intros [E|I]; [|exact (IH I)].
  destruct (N.eqb_spec x a); congruence.
Qed.
Lemma replace_byte_id a b s : ~ In a s -> replace_byte a b s = s.
Proof.
  induction s as [|x s IH]; [reflexivity|]. intros H. cbn.
  destruct (N.eqb_spec x a) as [E|E]; [exfalso; apply H; left; exact E|].
  f_equal. apply IH. intros I. apply H. right. exact I.
Qed.
Lemma clean_sep_free ksep sep rep s : rep <> sep -> ~ In sep (clean ksep sep rep s).
Proof. intros H. apply replace_byte_free. exact H. Qed.
Lemma clean_id ksep sep rep s : ~ In ksep s -> ~ In sep s -> clean ksep sep rep s = s.
Proof. intros A B. unfold clean. rewrite (replace_byte_id ksep rep s A). apply replace_byte_id. exact B. Qed.

(* ---- format_labels on two label lists with the same keys ---- *)
Definition key_le (a b : bytes * bytes) : bool := bytes_leb (fst a) (fst b).
Definition tri := (bytes * (bytes * bytes))%type.
Definition p1 (t : tri) : bytes * bytes := (fst t, fst (snd t)).
Definition p2 (t : tri) : bytes * bytes := (fst t, snd (snd t)).
Definition tri_le (a b : tri) : bool := bytes_leb (fst a) (fst b).

Lemma format_labels_tri name (T : list tri) ksep sep rep :
  rep <> sep ->
  format_labels name (map p1 T) ksep sep rep = format_labels name (map p2 T) ksep sep rep ->
  forall t, In t T -> clean ksep sep rep (fst (snd t)) = clean ksep sep rep (snd (snd t)).
Proof.
  intros Hr E. destruct T as [|t0 T']; [intros t []|].
  unfold format_labels in E. cbn [map] in E. cbv zeta in E.
  apply app_inv_head in E. apply app_inv_head in E.
  change (p1 t0 :: map p1 T') with (map p1 (t0 :: T')) in E.
  change (p2 t0 :: map p2 T') with (map p2 (t0 :: T')) in E.
  rewrite <- (sort_by_map p1 tri_le (fun a b => bytes_leb (fst a) (fst b))) in E by reflexivity.
  rewrite <- (sort_by_map p2 tri_le (fun a b => bytes_leb (fst a) (fst b))) in E by reflexivity.
  rewrite !map_map in E. cbn [p1 p2 fst snd] in E.
  intros t Ht.
  apply (join_pairs_inj ksep sep (sort_by tri_le (t0 :: T'))
           (fun t => clean ksep sep rep (fst t))
           (fun t => clean ksep sep rep (fst (snd t)))
           (fun t => clean ksep sep rep (snd (snd t)))).
  - intros u _. split; apply clean_sep_free; exact Hr.
  - exact E.
  - apply in_sort_by_iff. exact Ht.
Qed.

Definition zip3 (L1 L2 : list (bytes * bytes)) : list tri :=
  map (fun p => (fst (fst p), (snd (fst p), snd (snd p)))) (combine L1 L2).

Lemma zip3_proj L1 L2 : map fst L1 = map fst L2 -> map p1 (zip3 L1 L2) = L1 /\ map p2 (zip3 L1 L2) = L2.
Proof.
  revert L2; induction L1 as [|[k v] L1 IH]; intros [|[k' v'] L2] E; try discriminate; [split; reflexivity|].
  cbn [map fst] in E. injection E as -> E. destruct (IH L2 E) as (A & B).
  unfold zip3 in *. cbn [combine map p1 p2 fst snd]. rewrite A, B. split; reflexivity.
Qed.

Theorem format_labels_inj name L1 L2 ksep sep rep :
  rep <> sep -> map fst L1 = map fst L2 ->
  format_labels name L1 ksep sep rep = format_labels name L2 ksep sep rep ->
  map (fun kv => clean ksep sep rep (snd kv)) L1 = map (fun kv => clean ksep sep rep (snd kv)) L2.
Proof.
  intros Hr Hk E. destruct (zip3_proj L1 L2 Hk) as (A & B).
  set (T := zip3 L1 L2) in *.
  assert (E' : format_labels name (map p1 T) ksep sep rep = format_labels name (map p2 T) ksep sep rep)
    by (rewrite A, B; exact E).
  pose proof (format_labels_tri name T ksep sep rep Hr E') as H.
  transitivity (map (fun t : tri => clean ksep sep rep (fst (snd t))) T).
  - rewrite <- A at 1. rewrite map_map. reflexivity.
  - transitivity (map (fun t : tri => clean ksep sep rep (snd (snd t))) T).
    + apply map_ext_in. exact H.
    + rewrite <- B. rewrite map_map. reflexivity.
Qed.

Lemma fst_snd_eq {A B} (l1 l2 : list (A * B)) : map fst l1 = map fst l2 -> map snd l1 = map snd l2 -> l1 = l2.
Proof.
  revert l2; induction l1 as [|[a b] l1 IH]; intros [|[a' b'] l2] F S; try discriminate; [reflexivity|].
  cbn in F, S. injection F as -> F. injection S as -> S. f_equal. apply IH; assumption.
Qed.

Theorem format_labels_inj_clean name L1 L2 ksep sep rep :
  rep <> sep -> map fst L1 = map fst L2 ->
  (forall kv, In kv L1 \/ In kv L2 -> ~ In ksep (snd kv) /\ ~ In sep (snd kv)) ->
  format_labels name L1 ksep sep rep = format_labels name L2 ksep sep rep -> L1 = L2.
Proof.
  intros Hr Hk Hc E. pose proof (format_labels_inj name L1 L2 ksep sep rep Hr Hk E) as H.
  apply fst_snd_eq; [exact Hk|].
  rewrite (map_ext_in (fun kv => clean ksep sep rep (snd kv)) snd) in H.
  - rewrite (map_ext_in (fun kv => clean ksep sep rep (snd kv)) snd) in H; [exact H|].
    intros kv Hin. destruct (Hc kv (or_intror Hin)). apply clean_id; assumption.
  - intros kv Hin. destruct (Hc kv (or_introl Hin)). apply clean_id; assumption.
Qed.

(* ---- labels_of for a metric whose keys are pairwise different ---- *)
Lemma assoc_set_fresh k v acc : ~ In k (map fst acc) -> assoc_set k v acc = acc ++ [(k, v)].
Proof.
  induction acc as [|[k' v'] acc IH]; [reflexivity|]. intros H. cbn [assoc_set].
  destruct (bytes_eqb k k') eqn:E.
  - apply bytes_eqb_spec in E. exfalso. apply H. left. cbn. congruence.
  - cbn [app]. f_equal. apply IH. intros I. apply H. right. exact I.
Qed.

Lemma zip_labels_nodup acc ks vs :
  NoDup ks -> (forall k, In k ks -> ~ In k (map fst acc)) ->
  zip_labels acc ks vs = acc ++ combine ks vs.
Proof.
  revert acc vs; induction ks as [|k ks IH]; intros acc vs N D; [cbn; rewrite app_nil_r; reflexivity|].
  destruct vs as [|v vs]; [cbn; rewrite app_nil_r; reflexivity|].
  inversion N as [|? ? Hn N']; subst. cbn [zip_labels combine].
  rewrite assoc_set_fresh by (apply D; left; reflexivity).
  rewrite IH; [rewrite <- app_assoc; reflexivity|exact N'|].
  intros k' Hk' I. rewrite map_app in I. apply in_app_or in I as [I|[I|[]]].
  - apply (D k'); [right; exact Hk'|exact I].
  - cbn in I. subst k'. apply Hn. exact Hk'.
Qed.

Lemma labels_of_combine m l : NoDup (m_keys m) -> labels_of m l = combine (m_keys m) (l_vals l).
Proof. intros N. unfold labels_of. rewrite zip_labels_nodup; [reflexivity|exact N|intros k _ []]. Qed.

Lemma combine_fst {A B} (a : list A) (b : list B) : length a = length b -> map fst (combine a b) = a.
Proof.
  revert b; induction a as [|x a IH]; intros [|y b] E; try discriminate; [reflexivity|].
  cbn. f_equal. apply IH. cbn in E. lia.
Qed.
Lemma combine_snd {A B} (a : list A) (b : list B) : length a = length b -> map snd (combine a b) = b.
Proof.
  revert b; induction a as [|x a IH]; intros [|y b] E; try discriminate; [reflexivity|].
  cbn. f_equal. apply IH. cbn in E. lia.
Qed.

(* a metric as the store keeps it: distinct key names, every label set has one
   value per key *)
Definition well_formed (m : metric) : Prop :=
  NoDup (m_keys m) /\ forall l, In l (m_lsets m) -> length (l_vals l) = length (m_keys m).

Definition vals_free (ch : byte) (l : lset) : Prop := forall v, In v (l_vals l) -> ~ In ch v.

Theorem format_labels_inj_lsets m l1 l2 ksep sep rep :
  rep <> sep -> NoDup (m_keys m) ->
  length (l_vals l1) = length (m_keys m) -> length (l_vals l2) = length (m_keys m) ->
  vals_free ksep l1 -> vals_free sep l1 -> vals_free ksep l2 -> vals_free sep l2 ->
  format_labels (m_name m) (labels_of m l1) ksep sep rep = format_labels (m_name m) (labels_of m l2) ksep sep rep ->
  l_vals l1 = l_vals l2.
Proof.
  intros Hr N A1 A2 K1 S1 K2 S2 E. rewrite !labels_of_combine in E by exact N.
  assert (F : map fst (combine (m_keys m) (l_vals l1)) = map fst (combine (m_keys m) (l_vals l2)))
    by (rewrite (combine_fst _ _ (eq_sym A1)), (combine_fst _ _ (eq_sym A2)); reflexivity).
  assert (C : forall kv, In kv (combine (m_keys m) (l_vals l1)) \/ In kv (combine (m_keys m) (l_vals l2)) ->
                         ~ In ksep (snd kv) /\ ~ In sep (snd kv)).
  { intros [k v] [H|H]; apply in_combine_r in H; cbn [snd]; split; auto. }
  pose proof (format_labels_inj_clean _ _ _ ksep sep rep Hr F C E) as Q.
  apply (f_equal (map snd)) in Q.
  etransitivity; [symmetry; apply (combine_snd _ _ (eq_sym A1))|].
  etransitivity; [exact Q|]. apply (combine_snd _ _ (eq_sym A2)).
Qed.

(* ---- the three flattened paths ---- *)
Theorem graphite_path_inj c m l1 l2 :
  NoDup (m_keys m) ->
  length (l_vals l1) = length (m_keys m) -> length (l_vals l2) = length (m_keys m) ->
  vals_free c_dot l1 -> vals_free c_dot l2 ->
  graphite_path c m l1 = graphite_path c m l2 -> l_vals l1 = l_vals l2.
Proof.
  intros N A1 A2 F1 F2 E. unfold graphite_path in E.
  apply app_inv_head in E. apply app_inv_head in E. apply app_inv_head in E.
  apply (format_labels_inj_lsets m l1 l2 c_dot c_dot c_us); try assumption. discriminate.
Qed.

Theorem statsd_path_inj c m l1 l2 :
  NoDup (m_keys m) ->
  length (l_vals l1) = length (m_keys m) -> length (l_vals l2) = length (m_keys m) ->
  vals_free c_dot l1 -> vals_free c_dot l2 ->
  statsd_path c m l1 = statsd_path c m l2 -> l_vals l1 = l_vals l2.
Proof.
  intros N A1 A2 F1 F2 E. unfold statsd_path in E.
  apply app_inv_head in E. apply app_inv_head in E. apply app_inv_head in E.
  apply (format_labels_inj_lsets m l1 l2 c_dot c_dot c_us); try assumption. discriminate.
Qed.

Theorem collectd_id_inj c m l1 l2 :
  NoDup (m_keys m) ->
  length (l_vals l1) = length (m_keys m) -> length (l_vals l2) = length (m_keys m) ->
  vals_free c_dash l1 -> vals_free c_dash l2 ->
  collectd_id c m l1 = collectd_id c m l2 -> l_vals l1 = l_vals l2.
Proof.
  intros N A1 A2 F1 F2 E. unfold collectd_id in E.
  do 8 apply app_inv_head in E.
  apply (format_labels_inj_lsets m l1 l2 c_dash c_dash c_us); try assumption. discriminate.
Qed.

(* ---- varz: the label part is a comma-joined, sorted list of k=v strings ---- *)
Lemma join_inj ch (X Y : list bytes) :
  (forall x, In x X -> ~ In ch x) -> (forall y, In y Y -> ~ In ch y) ->
  X <> [] -> Y <> [] -> join [ch] X = join [ch] Y -> X = Y.
Proof.
  revert Y; induction X as [|x X IH]; intros Y HX HY NX NY E; [congruence|].
  destruct Y as [|y Y]; [congruence|]. rewrite !join_cons in E.
  apply (split_unique ch) in E as (E0 & Et).
  - subst y. f_equal. destruct X as [|x1 X]; destruct Y as [|y1 Y]; try discriminate; [reflexivity|].
    cbn [app] in Et. injection Et as Et. apply IH; try discriminate; try exact Et.
    + intros z Hz. apply HX. right. exact Hz.
    + intros z Hz. apply HY. right. exact Hz.
  - apply HX. left. reflexivity.
  - apply HY. left. reflexivity.
  - destruct X; [left; reflexivity|right; eexists; reflexivity].
  - destruct Y; [left; reflexivity|right; eexists; reflexivity].
Qed.

Definition kvs (p : bytes * bytes) : bytes := fst p ++ [c_eq] ++ snd p.

Lemma kvs_inj k v k' v' : ~ In c_eq k -> ~ In c_eq k' -> kvs (k, v) = kvs (k', v') -> k = k' /\ v = v'.
Proof.
  intros H H' E. unfold kvs in E. cbn [fst snd app] in E.
  apply (split_unique c_eq) in E as (A & B); try assumption; try (right; eexists; reflexivity).
  injection B as B. split; assumption.
Qed.

Lemma same_keys_incl ks vs1 vs2 :
  NoDup ks -> (forall k, In k ks -> ~ In c_eq k) ->
  length vs1 = length ks -> length vs2 = length ks ->
  (forall x, In x (map kvs (combine ks vs1)) -> In x (map kvs (combine ks vs2))) -> vs1 = vs2.
Proof.
  revert vs1 vs2; induction ks as [|k ks IH]; intros [|v1 vs1] [|v2 vs2] N Hk L1 L2 I; try discriminate; [reflexivity|].
  inversion N as [|? ? Hn N']; subst. cbn [combine map] in I.
  assert (Hk0 : ~ In c_eq k) by (apply Hk; left; reflexivity).
  assert (V : v1 = v2).
  { destruct (I (kvs (k, v1)) (or_introl eq_refl)) as [E|E].
    - apply kvs_inj in E as (_ & E); [congruence|exact Hk0|exact Hk0].
    - apply in_map_iff in E as ([k' v'] & E & Hin). apply kvs_inj in E as (E & _).
      + exfalso. apply Hn. subst k'. exact (in_combine_l _ _ _ _ Hin).
      + apply Hk. right. exact (in_combine_l _ _ _ _ Hin).
      + exact Hk0. }
  subst v2. f_equal. apply IH; try assumption.
  - intros k' Hk'. apply Hk. right. exact Hk'.
  - cbn in L1. lia.
  - cbn in L2. lia.
  - intros x Hx. destruct (I x (or_intror Hx)) as [E|E]; [|exact E]. exfalso.
    apply in_map_iff in Hx as ([k' v'] & Ex & Hin). subst x. apply kvs_inj in E as (E & _).
    + apply Hn. subst k'. exact (in_combine_l _ _ _ _ Hin).
    + exact Hk0.
    + apply Hk. right. exact (in_combine_l _ _ _ _ Hin).
Qed.

Theorem varz_labels_inj c m l1 l2 :
  NoDup (m_keys m) ->
  length (l_vals l1) = length (m_keys m) -> length (l_vals l2) = length (m_keys m) ->
  (forall k, In k (m_keys m) -> ~ In c_eq k /\ ~ In 44 k) ->
  vals_free 44 l1 -> vals_free 44 l2 -> ~ In 44 (m_prog m) -> ~ In 44 (c_host c) ->
  varz_labels c m l1 = varz_labels c m l2 -> l_vals l1 = l_vals l2.
Proof.
  intros N A1 A2 Hk F1 F2 Hp Hh E. unfold varz_labels in E. rewrite !labels_of_combine in E by exact N.
  set (extras := (if c_omit_prog c then [] else [str_prog_eq ++ m_prog m]) ++ [str_instance_eq ++ c_host c]) in *.
  assert (Hex : forall x, In x extras -> ~ In 44 x).
  { intros x Hx Hin. unfold extras in Hx. apply in_app_or in Hx as [Hx|[<-|[]]].
    - destruct (c_omit_prog c); [destruct Hx|]. destruct Hx as [<-|[]].
      apply in_app_or in Hin as [Hin|Hin]; [cbn in Hin; intuition discriminate|exact (Hp Hin)].
    - apply in_app_or in Hin as [Hin|Hin]; [cbn in Hin; intuition discriminate|exact (Hh Hin)]. }
  assert (Hel : forall vs, (forall v, In v vs -> ~ In 44 v) ->
            forall x, In x (sort_by bytes_leb (map kvs (combine (m_keys m) vs)) ++ extras) -> ~ In 44 x).
  { intros vs Hv x Hx. apply in_app_or in Hx as [Hx|Hx]; [|exact (Hex x Hx)].
    apply in_sort_by_iff in Hx. apply in_map_iff in Hx as ([k v] & <- & Hin). intros Hc.
    unfold kvs in Hc. cbn [fst snd] in Hc. apply in_app_or in Hc as [Hc|Hc].
    - exact (proj2 (Hk k (in_combine_l _ _ _ _ Hin)) Hc).
    - apply in_app_or in Hc as [[Hc|[]]|Hc]; [discriminate|]. exact (Hv v (in_combine_r _ _ _ _ Hin) Hc). }
  change (fun p : bytes * bytes => fst p ++ [c_eq] ++ snd p) with kvs in E.
  apply (join_inj 44) in E.
  - apply app_inv_tail in E.
    apply (same_keys_incl (m_keys m)); try assumption.
    + intros k Hin. exact (proj1 (Hk k Hin)).
    + intros x Hx. apply (in_sort_by_iff bytes_leb).
      apply (proj2 (in_sort_by_iff bytes_leb x _)) in Hx.
      exact (eq_ind _ (fun l => In x l) Hx _ E).
  - apply Hel. exact F1.
  - apply Hel. exact F2.
  - unfold extras. intros Hn. apply app_eq_nil in Hn as (_ & Hn). apply app_eq_nil in Hn as (_ & Hn). discriminate.
  - unfold extras. intros Hn. apply app_eq_nil in Hn as (_ & Hn). apply app_eq_nil in Hn as (_ & Hn). discriminate.
Qed.

(* ---- label sets are identified by their values ---- *)
Lemma lset_unique (ls : list lset) l1 l2 :
  NoDup (map l_vals ls) -> In l1 ls -> In l2 ls -> l_vals l1 = l_vals l2 -> l1 = l2.
Proof.
  induction ls as [|a ls IH]; [intros _ []|]. cbn [map]. intros N H1 H2 E.
  inversion N as [|? ? Hn N']; subst.
  destruct H1 as [->|H1], H2 as [->|H2]; [reflexivity| | |apply IH; assumption].
  - exfalso. apply Hn. rewrite E. apply in_map. exact H2.
  - exfalso. apply Hn. rewrite <- E. apply in_map. exact H1.
Qed.

(* ---- records and label sets of one metric are in bijection ---- *)
Definition metric_ok (m : metric) : Prop := well_formed m /\ NoDup (map l_vals (m_lsets m)).

Definition statsd_clean (c : cfg) (m : metric) : Prop :=
  ~ In 58 (c_statsd_prefix c) /\
  forall l, In l (m_lsets m) -> clean_of 58 m l /\ vals_free c_dot l /\ ~ In 124 (value_string (l_val l)).

Definition graphite_clean (c : cfg) (m : metric) : Prop :=
  ~ In c_sp (c_graphite_prefix c) /\
  forall l, In l (m_lsets m) -> clean_of c_sp m l /\ vals_free c_dot l /\ ~ In c_sp (value_string (l_val l)).

Definition collectd_clean (c : cfg) (m : metric) : Prop :=
  ~ In 34 (c_host c) /\ ~ In 34 (c_collectd_prefix c) /\
  forall l, In l (m_lsets m) -> clean_of 34 m l /\ vals_free c_dash l /\ ~ In c_nl (value_string (l_val l)).

Definition varz_clean (c : cfg) (m : metric) : Prop :=
  ~ In 123 (m_name m) /\ ~ In 44 (m_prog m) /\ ~ In 44 (c_host c) /\
  (forall k, In k (m_keys m) -> ~ In c_eq k /\ ~ In 44 k) /\
  forall l, In l (m_lsets m) -> vals_free 44 l /\ ~ In 125 (varz_labels c m l) /\ ~ In c_nl (value_string (l_val l)).

Section Bij.
Context {R : Type} (recs : lset -> R) (ls : list lset).
Lemma unique_origin :
  (forall l1 l2, In l1 ls -> In l2 ls -> recs l1 = recs l2 -> l1 = l2) ->
  forall r, In r (map recs ls) -> exists! l, In l ls /\ r = recs l.
Proof.
  intros Inj r Hr. apply in_map_iff in Hr as (l0 & <- & H0). exists l0. split; [split; [exact H0|reflexivity]|].
  intros l' (H' & E). apply Inj; assumption.
Qed.
End Bij.

Theorem statsd_bijection c m :
  metric_ok m -> statsd_clean c m ->
  (forall l, In l (m_lsets m) ->
     parse_statsd (to_statsd c m l) = Some (statsd_path c m l, value_string (l_val l), statsd_type (m_kind m))) /\
  (forall l1 l2, In l1 (m_lsets m) -> In l2 (m_lsets m) -> statsd_path c m l1 = statsd_path c m l2 -> l1 = l2) /\
  (forall r, In r (map (to_statsd c m) (m_lsets m)) -> exists! l, In l (m_lsets m) /\ r = to_statsd c m l).
Proof.
  intros ((N & Ar) & Nd) (Hp & Hl).
  assert (RT : forall l, In l (m_lsets m) ->
     parse_statsd (to_statsd c m l) = Some (statsd_path c m l, value_string (l_val l), statsd_type (m_kind m))).
  { intros l Hin. destruct (Hl l Hin) as (Cl & _ & Hv). apply statsd_roundtrip; [|exact Hv].
    apply statsd_path_free; [discriminate|discriminate|exact Hp|exact Cl]. }
  assert (PI : forall l1 l2, In l1 (m_lsets m) -> In l2 (m_lsets m) -> statsd_path c m l1 = statsd_path c m l2 -> l1 = l2).
  { intros l1 l2 H1 H2 E. apply (lset_unique (m_lsets m)); try assumption.
    apply (statsd_path_inj c m); try assumption; try (apply Ar; assumption).
    - exact (proj1 (proj2 (Hl l1 H1))).
    - exact (proj1 (proj2 (Hl l2 H2))). }
  split; [exact RT|]. split; [exact PI|].
  apply unique_origin. intros l1 l2 H1 H2 E. apply PI; try assumption.
  pose proof (RT l1 H1) as P1. rewrite E, (RT l2 H2) in P1. congruence.
Qed.

Theorem collectd_bijection c m :
  metric_ok m -> collectd_clean c m ->
  (forall l, In l (m_lsets m) ->
     parse_collectd (to_collectd c m l) =
       Some (collectd_id c m l, fmt_Z (c_interval_s c), time_string (l_time l), value_string (l_val l))) /\
  (forall l1 l2, In l1 (m_lsets m) -> In l2 (m_lsets m) -> collectd_id c m l1 = collectd_id c m l2 -> l1 = l2) /\
  (forall r, In r (map (to_collectd c m) (m_lsets m)) -> exists! l, In l (m_lsets m) /\ r = to_collectd c m l).
Proof.
  intros ((N & Ar) & Nd) (Hh & Hp & Hl).
  assert (RT : forall l, In l (m_lsets m) ->
     parse_collectd (to_collectd c m l) =
       Some (collectd_id c m l, fmt_Z (c_interval_s c), time_string (l_time l), value_string (l_val l))).
  { intros l Hin. destruct (Hl l Hin) as (Cl & _ & Hv). apply collectd_roundtrip; [|exact Hv].
    apply collectd_id_free; assumption. }
  assert (PI : forall l1 l2, In l1 (m_lsets m) -> In l2 (m_lsets m) -> collectd_id c m l1 = collectd_id c m l2 -> l1 = l2).
  { intros l1 l2 H1 H2 E. apply (lset_unique (m_lsets m)); try assumption.
    apply (collectd_id_inj c m); try assumption; try (apply Ar; assumption).
    - exact (proj1 (proj2 (Hl l1 H1))).
    - exact (proj1 (proj2 (Hl l2 H2))). }
  split; [exact RT|]. split; [exact PI|].
  apply unique_origin. intros l1 l2 H1 H2 E. apply PI; try assumption.
  pose proof (RT l1 H1) as P1. rewrite E, (RT l2 H2) in P1. congruence.
Qed.

Theorem varz_bijection c m :
  metric_ok m -> varz_clean c m ->
  (forall l, In l (m_lsets m) ->
     parse_varz (to_varz c m l) = Some (m_name m, varz_labels c m l, value_string (l_val l))) /\
  (forall l1 l2, In l1 (m_lsets m) -> In l2 (m_lsets m) -> varz_labels c m l1 = varz_labels c m l2 -> l1 = l2) /\
  (forall r, In r (map (to_varz c m) (m_lsets m)) -> exists! l, In l (m_lsets m) /\ r = to_varz c m l).
Proof.
  intros ((N & Ar) & Nd) (Hn & Hp & Hh & Hk & Hl).
  assert (RT : forall l, In l (m_lsets m) ->
     parse_varz (to_varz c m l) = Some (m_name m, varz_labels c m l, value_string (l_val l))).
  { intros l Hin. destruct (Hl l Hin) as (_ & H125 & Hv). apply varz_roundtrip; assumption. }
  assert (PI : forall l1 l2, In l1 (m_lsets m) -> In l2 (m_lsets m) -> varz_labels c m l1 = varz_labels c m l2 -> l1 = l2).
  { intros l1 l2 H1 H2 E. apply (lset_unique (m_lsets m)); try assumption.
    apply (varz_labels_inj c m); try assumption; try (apply Ar; assumption).
    - exact (proj1 (Hl l1 H1)).
    - exact (proj1 (Hl l2 H2)). }
  split; [exact RT|]. split; [exact PI|].
  apply unique_origin. intros l1 l2 H1 H2 E. apply PI; try assumption.
  pose proof (RT l1 H1) as P1. rewrite E, (RT l2 H2) in P1. congruence.
Qed.

(* graphite: a record is a list of lines; its value line identifies the label set,
   and every line of the record is addressed under the label set's own path *)
Definition graphite_value_line (c : cfg) (m : metric) (l : lset) : bytes :=
  graphite_line (graphite_path c m l) (value_string (l_val l)) (l_time l).

Lemma graphite_lines_own_path c m l line :
  In line (to_graphite c m l) ->
  exists suffix v, line = graphite_line (graphite_path c m l ++ suffix) v (l_time l).
Proof.
  unfold to_graphite, graphite_lines_with. intros H. apply in_app_or in H as [H|[<-|[]]].
  - destruct (m_kind m); try destruct H. destruct (m_type m); try destruct H.
    destruct (l_val l) as [| | |bs cnt sum]; try destruct H.
    apply in_app_or in H as [H|[<-|[]]].
    + apply in_map_iff in H as (b & <- & _). eexists _, _. reflexivity.
    + eexists _, _. reflexivity.
  - exists [], (value_string (l_val l)). rewrite app_nil_r. reflexivity.
Qed.

Theorem graphite_bijection c m :
  metric_ok m -> graphite_clean c m ->
  (forall l, In l (m_lsets m) ->
     In (graphite_value_line c m l) (to_graphite c m l) /\
     parse_graphite (graphite_value_line c m l) =
       Some (graphite_path c m l, value_string (l_val l), time_string (l_time l))) /\
  (forall l1 l2, In l1 (m_lsets m) -> In l2 (m_lsets m) -> graphite_path c m l1 = graphite_path c m l2 -> l1 = l2) /\
  (forall r, In r (map (graphite_value_line c m) (m_lsets m)) ->
             exists! l, In l (m_lsets m) /\ r = graphite_value_line c m l) /\
  (forall l line, In l (m_lsets m) -> In line (to_graphite c m l) ->
     exists suffix v, line = graphite_line (graphite_path c m l ++ suffix) v (l_time l)).
Proof.
  intros ((N & Ar) & Nd) (Hp & Hl).
  assert (PF : forall l, In l (m_lsets m) -> ~ In c_sp (graphite_path c m l)).
  { intros l Hin. destruct (Hl l Hin) as (Cl & _). apply graphite_path_free; [discriminate|discriminate|exact Hp|exact Cl]. }
  assert (RT : forall l, In l (m_lsets m) ->
     parse_graphite (graphite_value_line c m l) = Some (graphite_path c m l, value_string (l_val l), time_string (l_time l))).
  { intros l Hin. apply parse_graphite_line; [apply PF; exact Hin|exact (proj2 (proj2 (Hl l Hin)))]. }
  assert (PI : forall l1 l2, In l1 (m_lsets m) -> In l2 (m_lsets m) -> graphite_path c m l1 = graphite_path c m l2 -> l1 = l2).
  { intros l1 l2 H1 H2 E. apply (lset_unique (m_lsets m)); try assumption.
    apply (graphite_path_inj c m); try assumption; try (apply Ar; assumption).
    - exact (proj1 (proj2 (Hl l1 H1))).
    - exact (proj1 (proj2 (Hl l2 H2))). }
  split; [|split; [exact PI|split]].
  - intros l Hin. split; [|apply RT; exact Hin].
    unfold to_graphite, graphite_lines_with. apply in_or_app. right. left. reflexivity.
  - apply unique_origin. intros l1 l2 H1 H2 E. apply PI; try assumption.
    pose proof (RT l1 H1) as P1. rewrite E, (RT l2 H2) in P1. congruence.
  - intros l line _ H. exact (graphite_lines_own_path c m l line H).
Qed.
