(* Witness programs and the statements of the closed stages of C01 (definitions
   only; the theorems are in Props/C01.v). *)
From V Require Import Lang.RefSem Lang.Codegen Lang.Vm Lang.Observe
  Proofs.C01Sim Proofs.C01Expr Proofs.C01Flags.
Local Open Scope Z_scope.

(* counter a; counter b;  /x/ { a++ }   /y/ { } else { otherwise { b++ } }   on the line "x" *)
Definition wit_prog : prog :=
  mkprog [mkmdecl MCounter TInt 0; mkmdecl MCounter TInt 0]
    (BCons (SCond (EMatch 0) (BCons (SInc 0 XNil) BNil))
    (BCons (SCondElse (EMatch 1) BNil (BCons (SOtherwise (BCons (SInc 1 XNil) BNil)) BNil)) BNil))
    [[120%N]; [121%N]] [].
Definition wit_env : env :=
  Build_env (fun i s => if (N.eqb i 0 && bytes_eqb s [120%N])%bool then Some [[120%N]] else None)
    (fun _ v _ => v) (fun _ _ _ => None) (fun _ => None)
    (fun _ => []) (fun _ => []) (fun s => s) (fun v _ _ => v) (fun _ _ => None)
    (fun a _ => a) (fun a _ => a) (fun a _ => a) (fun a _ => a) (fun a _ => a) (fun a _ => a)
    (fun _ _ => false) (fun _ _ => false) (fun _ _ => false) (fun _ => 0%N) (fun a _ => a) 0.

Definition C01_stage_a : Prop :=
  forall E decls file line o e t, tyof o e = Some t ->
    forall pc stk mt ms tm rs vs, at_pc o pc (cexpr decls pc e) -> mrel rs ms -> trel rs tm ->
      sim_at E decls file line o e t pc stk mt ms tm rs vs.
Definition C01_stage_d_source : Prop :=
  forall E decls file line b s, ok_block b false = true ->
    forget (gexec_block E decls file line b false s) = exec_block E decls file line b false s.

Definition ex_expr : expr := EArith AAdd TInt (EConv TStr TInt (ECap 0 1 TStr)) (ELen EGetfilename).
Definition ex_obj : object := mkobject (cexpr [] 0 ex_expr) [] 1 [].

(* counter a; gauge g by k;  /x (\d+)/ { a++  g[$1] = $1 }  otherwise { a += 2 }   else-free, otherwise after a plain cond *)
Definition wit_ok_prog : prog :=
  mkprog [mkmdecl MCounter TInt 0; mkmdecl MGauge TInt 1]
    (BCons (SCond (EMatch 0)
              (BCons (SInc 0 XNil)
              (BCons (SSet TInt 1 (XCons (ECap 0 1 TStr) XNil) (ECap 0 1 TInt)) BNil)))
    (BCons (SOtherwise (BCons (SAddTo TInt 0 XNil (EInt 2)) BNil)) BNil))
    [[120%N]] [].

(* a surface program with a decorator (docs/Language.md, "Decorated actions"):
     counter a
     def d { /x (\d+)/ { a++  next } }
     @d { /y/ { a += $1 } }
     @d { a++ }                                                     *)
From V Require Import Lang.Expand.
Definition wit_surface : sprog :=
  mksprog [mkmdecl MCounter TInt 0]
    [UCons (UCond (EMatch 0) (UCons (USimple (SInc 0 XNil)) (UCons UNext UNil))) UNil]
    (UCons (UDeco 0 (UCons (UCond (EMatch 1) (UCons (USimple (SAddTo TInt 0 XNil (ECap 0 1 TInt))) UNil)) UNil))
    (UCons (UDeco 0 (UCons (USimple (SInc 0 XNil)) UNil)) UNil))
    [[120%N]; [121%N]].
(* its inlining: the decorator's pattern is instantiated twice (pids 0 and 2) *)
Definition wit_surface_core : prog :=
  mkprog [mkmdecl MCounter TInt 0]
    (BCons (SCond (EMatch 0) (BCons (SInc 0 XNil)
              (BCons (SCond (EMatch 1) (BCons (SAddTo TInt 0 XNil (ECap 0 1 TInt)) BNil)) BNil)))
    (BCons (SCond (EMatch 2) (BCons (SInc 0 XNil) (BCons (SInc 0 XNil) BNil))) BNil))
    [[120%N]; [121%N]; [120%N]] [].
