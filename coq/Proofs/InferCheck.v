(* The table computed by the verifier's forward pass always satisfies the
   local-consistency check: [infer o = inl tbl -> check o tbl = true], hence
   [verify o = true] as soon as [infer] does not reject an instruction.
   (Used by Proofs/CodegenVerifies.v; C04.) *)
From V Require Import Lang.Verify Proofs.VmInv.
From Coq Require Import Lia ZifyBool.
Local Open Scope nat_scope.

Lemma cls_eqb_refl c : cls_eqb c c = true.
Proof.
  destruct c; cbn; auto.
  - destruct k; cbn; auto. apply Z.eqb_refl.
  - apply Nat.eqb_refl.
  - destruct t; reflexivity.
Qed.

Lemma cls_eqb_true a b : cls_eqb a b = true -> a = b.
Proof.
  destruct a, b; cbn; try discriminate; auto.
  - destruct k, k0; cbn; try discriminate; auto. intros H. apply Z.eqb_eq in H. congruence.
  - intros H. apply Nat.eqb_eq in H. congruence.
  - destruct t, t0; cbn; try discriminate; auto.
Qed.

Lemma aprefix_refl A : aprefix A A = true.
Proof. induction A as [|c A IH]; cbn; auto. rewrite cls_eqb_refl. auto. Qed.

Lemma aprefix_trans A : forall B C, aprefix A B = true -> aprefix B C = true -> aprefix A C = true.
Proof.
  induction A as [|a A IH]; intros B C H1 H2; cbn; auto.
  destruct B as [|b B]; cbn in H1; try discriminate.
  destruct C as [|c C]; cbn in H2; try discriminate.
  apply andb_true_iff in H1 as [H1 H1']. apply andb_true_iff in H2 as [H2 H2'].
  apply cls_eqb_true in H1 as ->. rewrite H2. cbn. eauto.
Qed.

Lemma common_l T : forall A, aprefix (common T A) T = true.
Proof.
  induction T as [|c T IH]; intros [|d A]; cbn; auto.
  destruct (cls_eqb c d) eqn:H; cbn; auto. rewrite cls_eqb_refl. cbn. auto.
Qed.

Lemma common_r T : forall A, aprefix (common T A) A = true.
Proof.
  induction T as [|c T IH]; intros [|d A]; cbn; auto.
  destruct (cls_eqb c d) eqn:H; cbn; auto. rewrite H. cbn. auto.
Qed.

Lemma common_refl A : common A A = A.
Proof. induction A as [|c A IH]; cbn; auto. rewrite cls_eqb_refl. congruence. Qed.

Section InferCheck.
Variable o : object.

Ltac vinv H :=
  repeat match type of H with
  | vbind _ _ = VOk _ =>
      let x := fresh "r" in let H1 := fresh "Hv" in
      apply vbind_inv in H as (x & H1 & H)
  end.

Lemma vguard_true b u : vguard b = VOk u -> b = true.
Proof. destruct b; cbn; [auto|discriminate]. Qed.

Lemma arg_target_range pc a tgt : arg_target o pc a = VOk tgt -> pc < tgt <= nprog o.
Proof.
  unfold arg_target. intros H. vinv H. injection H as <-.
  apply vguard_true in Hv0. destruct a; cbn in Hv; try discriminate. injection Hv as ->.
  apply andb_true_iff in Hv0 as [H1 H2]. lia.
Qed.

Definition in_range (pc : nat) (s : nat * astack) : Prop := pc < fst s <= nprog o.

Lemma transfer_range pc i A succs :
  transfer o pc i A = VOk succs -> pc < nprog o -> Forall (in_range pc) succs.
Proof.
  unfold transfer. intros H Hlt. revert H.
  destruct (i_op i); cbv beta iota zeta; intros H; try discriminate;
  repeat (first
    [ progress vinv H
    | match type of H with
      | (let '(_, _) := ?x in _) = VOk _ => destruct x
      | match ?x with _ => _ end = VOk _ => destruct x; try discriminate
      end ]);
  repeat match goal with
  | Ht : arg_target _ _ _ = VOk _ |- _ => apply arg_target_range in Ht
  end;
  injection H as <-; repeat constructor; unfold in_range; cbn; lia.
Qed.

(* ---- tables ---- *)
Definition tle (t1 t2 : table) : Prop :=
  length t2 = length t1 /\
  forall k T, nth_error t1 k = Some (Some T) ->
    exists T', nth_error t2 k = Some (Some T') /\ aprefix T' T = true.

Lemma tle_refl t : tle t t.
Proof. split; auto. intros k T H. exists T. split; auto using aprefix_refl. Qed.

Lemma tle_trans t1 t2 t3 : tle t1 t2 -> tle t2 t3 -> tle t1 t3.
Proof.
  intros [L1 H1] [L2 H2]. split; [congruence|].
  intros k T H. destruct (H1 _ _ H) as (T' & Ha & Hb). destruct (H2 _ _ Ha) as (T'' & Hc & Hd).
  exists T''. split; auto. eapply aprefix_trans; eauto.
Qed.

Lemma merge_length tbl s : length (merge tbl s) = length tbl.
Proof.
  unfold merge. destruct s as [pc' A]. destruct (nth_error tbl pc') as [[T|]|]; auto using length_list_set.
Qed.

Lemma merge_other tbl s k : k <> fst s -> nth_error (merge tbl s) k = nth_error tbl k.
Proof.
  unfold merge. destruct s as [pc' A]; cbn. intros Hne.
  destruct (nth_error tbl pc') as [[T|]|]; auto; apply nth_error_list_set_neq; auto.
Qed.

Lemma merge_hit tbl s :
  fst s < length tbl ->
  exists T', nth_error (merge tbl s) (fst s) = Some (Some T') /\ aprefix T' (snd s) = true.
Proof.
  unfold merge. destruct s as [pc' A]; cbn. intros Hlt.
  destruct (nth_error tbl pc') as [[T|]|] eqn:Hn.
  - exists (common T A). split; [apply nth_error_list_set_eq; auto|apply common_r].
  - exists A. split; [apply nth_error_list_set_eq; auto|apply aprefix_refl].
  - apply nth_error_None in Hn. lia.
Qed.

Lemma merge_tle tbl s : tle tbl (merge tbl s).
Proof.
  split; [apply merge_length|]. intros k T H.
  destruct (Nat.eq_dec k (fst s)) as [->|Hne].
  - unfold merge. destruct s as [pc' A]; cbn in *. rewrite H.
    exists (common T A). split; [|apply common_l].
    apply nth_error_list_set_eq. apply nth_error_Some. congruence.
  - rewrite merge_other by auto. exists T. split; auto using aprefix_refl.
Qed.

Lemma fold_merge_tle succs : forall tbl, tle tbl (fold_left merge succs tbl).
Proof.
  induction succs as [|s r IH]; intros tbl; cbn; [apply tle_refl|].
  eapply tle_trans; [apply merge_tle|apply IH].
Qed.

Lemma fold_merge_other succs k : forall tbl,
  Forall (fun s => fst s <> k) succs -> nth_error (fold_left merge succs tbl) k = nth_error tbl k.
Proof.
  induction succs as [|s r IH]; intros tbl H; cbn; auto.
  inversion H; subst. rewrite IH by auto. apply merge_other. auto.
Qed.

Lemma fold_merge_length succs : forall tbl, length (fold_left merge succs tbl) = length tbl.
Proof. intros tbl. destruct (fold_merge_tle succs tbl); auto. Qed.

Lemma fold_merge_hit succs : forall tbl s,
  In s succs -> Forall (fun s => fst s < length tbl) succs ->
  exists T', nth_error (fold_left merge succs tbl) (fst s) = Some (Some T') /\ aprefix T' (snd s) = true.
Proof.
  induction succs as [|s0 r IH]; intros tbl s Hin Hall; [destruct Hin|].
  inversion Hall; subst. cbn. destruct Hin as [->|Hin].
  - destruct (merge_hit tbl s H1) as (T' & Ha & Hb).
    destruct (fold_merge_tle r (merge tbl s)) as [_ Hle].
    destruct (Hle _ _ Ha) as (T'' & Hc & Hd). exists T''. split; auto.
    eapply aprefix_trans; eauto.
  - apply IH; auto. rewrite merge_length. auto.
Qed.

(* entry k is consistent in tbl *)
Definition ok_at (tbl : table) (k : nat) : Prop :=
  forall A i, nth_error tbl k = Some (Some A) -> nth_error (o_prog o) k = Some i ->
  exists succs, transfer o k i A = VOk succs /\
    Forall (fun s => k < fst s <= nprog o /\
              exists T, nth_error tbl (fst s) = Some (Some T) /\ aprefix T (snd s) = true) succs.

Lemma ok_at_tle tbl tbl' k :
  ok_at tbl k -> tle tbl tbl' -> nth_error tbl' k = nth_error tbl k -> ok_at tbl' k.
Proof.
  intros Hok [_ Hle] Hk A i HA Hi. rewrite Hk in HA.
  destruct (Hok _ _ HA Hi) as (succs & Ht & Hall). exists succs. split; auto.
  eapply Forall_impl; [|exact Hall]. cbn. intros s (Hr & T & Hn & Hp).
  split; auto. destruct (Hle _ _ Hn) as (T' & Ha & Hb). exists T'. split; auto.
  eapply aprefix_trans; eauto.
Qed.

Lemma infer_from_ok : forall cur pre tbl tbl',
  o_prog o = pre ++ cur ->
  length tbl = S (nprog o) ->
  (forall k, k < length pre -> ok_at tbl k) ->
  infer_from o cur (length pre) tbl = inl tbl' ->
  length tbl' = S (nprog o) /\ nth_error tbl' 0 = nth_error tbl 0 /\
  (forall k, k < nprog o -> ok_at tbl' k).
Proof.
  induction cur as [|i cur IH]; intros pre tbl tbl' Hp Hl Hok H.
  - cbn in H. injection H as <-. repeat split; auto. intros k Hk. apply Hok.
    unfold nprog in Hk. rewrite Hp, app_nil_r in Hk. auto.
  - cbn in H.
    assert (Hpc : length pre < nprog o).
    { unfold nprog. rewrite Hp, app_length. cbn. lia. }
    assert (Hi : nth_error (o_prog o) (length pre) = Some i).
    { rewrite Hp, nth_error_app2, Nat.sub_diag by lia. reflexivity. }
    assert (Hp' : o_prog o = (pre ++ [i]) ++ cur) by (rewrite <- app_assoc; exact Hp).
    assert (Hlen' : length (pre ++ [i]) = S (length pre)) by (rewrite app_length; cbn; lia).
    destruct (nth_error tbl (length pre)) as [[A|]|] eqn:HA.
    + destruct (transfer o (length pre) i A) as [succs|] eqn:Ht; try discriminate.
      pose proof (transfer_range _ _ _ _ Ht Hpc) as Hr.
      set (tbl1 := fold_left merge succs tbl) in *.
      assert (Hl1 : length tbl1 = S (nprog o)) by (unfold tbl1; rewrite fold_merge_length; auto).
      assert (Hsame : forall k, k <= length pre -> nth_error tbl1 k = nth_error tbl k).
      { intros k Hk. apply fold_merge_other. eapply Forall_impl; [|exact Hr].
        unfold in_range. intros s Hs. lia. }
      rewrite <- Hlen' in H.
      destruct (IH (pre ++ [i]) tbl1 tbl' Hp' Hl1) as (R1 & R2 & R3); auto.
      * intros k Hk. rewrite Hlen' in Hk.
        destruct (Nat.eq_dec k (length pre)) as [->|Hne].
        -- intros A0 i0 HA0 Hi0. rewrite Hsame in HA0 by lia. rewrite HA in HA0. injection HA0 as <-.
           rewrite Hi in Hi0. injection Hi0 as <-. exists succs. split; auto.
           apply Forall_forall. intros s Hin. rewrite Forall_forall in Hr. split; [apply Hr; auto|].
           apply fold_merge_hit; auto. apply Forall_forall. intros s' Hin'.
           specialize (Hr _ Hin'). unfold in_range in Hr. lia.
        -- eapply ok_at_tle; [apply Hok; lia|apply fold_merge_tle|apply Hsame; lia].
      * repeat split; auto. rewrite R2. apply Hsame. lia.
    + rewrite <- Hlen' in H.
      destruct (IH (pre ++ [i]) tbl tbl' Hp' Hl) as (R1 & R2 & R3); auto.
      intros k Hk. rewrite Hlen' in Hk.
      destruct (Nat.eq_dec k (length pre)) as [->|Hne]; [|apply Hok; lia].
      intros A0 i0 HA0. congruence.
    + rewrite <- Hlen' in H.
      destruct (IH (pre ++ [i]) tbl tbl' Hp' Hl) as (R1 & R2 & R3); auto.
      intros k Hk. rewrite Hlen' in Hk.
      destruct (Nat.eq_dec k (length pre)) as [->|Hne]; [|apply Hok; lia].
      intros A0 i0 HA0. congruence.
Qed.

Theorem infer_check tbl : infer o = inl tbl -> check o tbl = true.
Proof.
  unfold infer. intros H.
  destruct (infer_from_ok (o_prog o) [] (Some [] :: repeat None (nprog o)) tbl eq_refl) as (R1 & R2 & R3); auto.
  - cbn. rewrite repeat_length. reflexivity.
  - cbn. intros k Hk. lia.
  - unfold check. rewrite R1, Nat.eqb_refl. cbn [andb]. rewrite R2. cbn.
    apply forallb_forall. intros k Hin. apply in_seq in Hin.
    unfold check_pc. destruct (nth_error tbl k) as [[A|]|] eqn:HA; auto.
    destruct (nth_error (o_prog o) k) as [i|] eqn:Hi; auto.
    destruct (R3 k ltac:(lia) A i HA Hi) as (succs & Ht & Hall). rewrite Ht.
    apply forallb_forall. intros s Hin'. rewrite Forall_forall in Hall.
    destruct (Hall _ Hin') as ((H1 & H2) & T & Hn & Hp). unfold succ_ok. destruct s as [pc' A']; cbn in *.
    rewrite Hn, Hp. apply andb_true_iff. split; [apply andb_true_iff; split|auto].
    + apply Nat.ltb_lt; auto.
    + apply Nat.leb_le; auto.
Qed.

Corollary infer_verify tbl : infer o = inl tbl -> verify o = true.
Proof. intros H. unfold verify. rewrite H. apply infer_check; auto. Qed.

End InferCheck.
