(* C25: the end of a run (Run/Shutdown.v).  Whatever the interleaving of the
   tailer's sends and close, the loader's hand-overs and the VMs' progress,
   once shutdown is complete lines_total is the number of lines sent and every
   running program has executed exactly those lines, in order. *)
From V Require Import Metrics.StoreAdd Run.Loader Run.Counters Run.Shutdown Proofs.StoreAddProofs
  Proofs.LoaderIsolation Proofs.CountersProofs.
Local Open Scope N_scope.

(* ---- small facts about names ---- *)
Lemma bytes_eqb_false a b : bytes_eqb a b = false <-> a <> b.
Proof.
  split.
  - intros H E. apply bytes_eqb_spec in E. congruence.
  - intros H. destruct (bytes_eqb a b) eqn:E; [|reflexivity]. apply bytes_eqb_spec in E. contradiction.
Qed.

Lemma bytes_eqb_sym a b : bytes_eqb a b = bytes_eqb b a.
Proof.
  destruct (bytes_eqb a b) eqn:E.
  - apply bytes_eqb_spec in E. subst. symmetry. apply bytes_eqb_refl.
  - symmetry. apply bytes_eqb_false. apply bytes_eqb_false in E. congruence.
Qed.

Lemma bmem_In p l : bmem p l = true <-> In p l.
Proof.
  unfold bmem. rewrite existsb_exists. split.
  - intros (q & I & E). apply bytes_eqb_spec in E. subst. exact I.
  - intros I. exists p. split; [exact I|apply bytes_eqb_refl].
Qed.

Lemma bmem_bdrop_same p l : bmem p (bdrop p l) = false.
Proof.
  destruct (bmem p (bdrop p l)) eqn:E; [|reflexivity].
  apply bmem_In in E. unfold bdrop in E. apply filter_In in E. destruct E as [_ E].
  rewrite bytes_eqb_refl in E. discriminate.
Qed.

Lemma bmem_bdrop_other p q l : q <> p -> bmem q (bdrop p l) = bmem q l.
Proof.
  intros N. destruct (bmem q l) eqn:E.
  - apply bmem_In. apply bmem_In in E. unfold bdrop. apply filter_In. split; [exact E|].
    apply Bool.negb_true_iff. apply bytes_eqb_false. congruence.
  - destruct (bmem q (bdrop p l)) eqn:F; [|reflexivity].
    apply bmem_In in F. unfold bdrop in F. apply filter_In in F. destruct F as [F _].
    apply bmem_In in F. congruence.
Qed.

Lemma blookup_keys {A} p (v : A) l : blookup p l = Some v -> bmem p (map fst l) = true.
Proof. intros H. apply bmem_In. apply blookup_In in H. change p with (fst (p, v)). apply in_map. exact H. Qed.

Lemma keys_bupdate {A} p (x y : A) l : blookup p l = Some y -> map fst (bupdate p x l) = map fst l.
Proof.
  induction l as [|[k z] r IH]; cbn [blookup bupdate map fst]; [discriminate|].
  destruct (bytes_eqb p k) eqn:E; cbn [map fst].
  - intros _. apply bytes_eqb_spec in E. subst. reflexivity.
  - intros H. rewrite (IH H). reflexivity.
Qed.

Lemma blookup_init p names :
  blookup p (map (fun q => (q, mkvm None [])) names) = if bmem p names then Some (mkvm None []) else None.
Proof.
  induction names as [|q r IH]; cbn [map blookup bmem existsb]; [reflexivity|].
  destruct (bytes_eqb p q); cbn [orb]; [reflexivity|exact IH].
Qed.

(* ---- the invariant ---- *)
(* what a VM has taken so far *)
Definition recv (v : vmst) : list cline :=
  vm_done v ++ match vm_busy v with Some l => [l] | None => [] end.

(* the line the loader still holds out to p *)
Definition pending (ph : lphase) (p : bytes) : list cline :=
  match ph with LFan l todo => if bmem p todo then [l] else [] | _ => [] end.

Record inv (names : list bytes) (cs : cstate) : Prop := mkinv {
  inv_lines : cs_lines cs = N.of_nat (length (cs_sent cs));
  inv_keys : map fst (cs_vms cs) = names;
  inv_recv : forall p v, blookup p (cs_vms cs) = Some v -> recv v ++ pending (cs_phase cs) p = cs_sent cs;
  inv_todo : forall l todo, cs_phase cs = LFan l todo -> todo <> [] /\ forall p, In p todo -> In p names }.

Lemma pending_fan l todo p : pending (fan l todo) p = if bmem p todo then [l] else [].
Proof. destruct todo; reflexivity. Qed.

Lemma fan_todo l todo l' todo' :
  fan l todo = LFan l' todo' -> l' = l /\ todo' = todo /\ todo <> [].
Proof. destruct todo; cbn [fan]; [discriminate|]. intros H. injection H as <- <-. repeat split. discriminate. Qed.

Lemma inv_init names : inv names (cinit names).
Proof.
  constructor; cbn [cinit cs_lines cs_sent cs_vms cs_phase].
  - reflexivity.
  - rewrite map_map. cbn [fst]. apply map_id.
  - intros p v H. rewrite blookup_init in H. destruct (bmem p names); [|discriminate].
    injection H as <-. reflexivity.
  - discriminate.
Qed.

Lemma step_inv names cs a cs' : cstep cs a = Some cs' -> inv names cs -> inv names cs'.
Proof.
  intros S [IL IK IR IT]. destruct a as [l|  |p|p| ]; cbn [cstep] in S.
  - (* ASend *)
    destruct (cs_phase cs) eqn:P; try discriminate. destruct (cs_closed cs); [discriminate|].
    injection S as <-. constructor; cbn [cs_lines cs_sent cs_vms cs_phase].
    + rewrite app_length. cbn [length]. rewrite IL. lia.
    + exact IK.
    + intros p v H. rewrite pending_fan, (blookup_keys _ _ _ H).
      specialize (IR p v H). cbn [pending] in IR. rewrite app_nil_r in IR. rewrite IR. reflexivity.
    + intros l' todo' F. apply fan_todo in F. destruct F as (_ & -> & NE). split; [exact NE|].
      intros p I. rewrite IK in I. exact I.
  - (* AClose *)
    destruct (cs_closed cs); [discriminate|]. injection S as <-.
    constructor; cbn [cs_lines cs_sent cs_vms cs_phase]; assumption.
  - (* AHand *)
    destruct (cs_phase cs) as [|l todo|] eqn:P; try discriminate.
    destruct (blookup p (cs_vms cs)) as [[[b|] dn]|] eqn:B; try discriminate.
    destruct (bmem p todo) eqn:M; [|discriminate]. injection S as <-.
    constructor; cbn [cs_lines cs_sent cs_vms cs_phase].
    + exact IL.
    + rewrite (keys_bupdate _ _ _ _ B). exact IK.
    + intros q v H. rewrite pending_fan. destruct (bytes_eqb q p) eqn:E.
      * apply bytes_eqb_spec in E. subst q. rewrite blookup_bupdate_same in H. injection H as <-.
        rewrite bmem_bdrop_same. specialize (IR p _ B). cbn [pending] in IR. rewrite M in IR.
        unfold recv in *. cbn [vm_done vm_busy] in *. rewrite app_nil_r in *. exact IR.
      * apply bytes_eqb_false in E. rewrite blookup_bupdate_other in H by exact E.
        rewrite (bmem_bdrop_other _ _ _ E). exact (IR q v H).
    + intros l' todo' F. apply fan_todo in F. destruct F as (_ & -> & NE). split; [exact NE|].
      intros q I. destruct (IT l todo eq_refl) as [_ T]. apply T.
      unfold bdrop in I. apply filter_In in I. exact (proj1 I).
  - (* AFinish *)
    destruct (blookup p (cs_vms cs)) as [[[b|] dn]|] eqn:B; try discriminate. injection S as <-.
    constructor; cbn [cs_lines cs_sent cs_vms cs_phase].
    + exact IL.
    + rewrite (keys_bupdate _ _ _ _ B). exact IK.
    + intros q v H. destruct (bytes_eqb q p) eqn:E.
      * apply bytes_eqb_spec in E. subst q. rewrite blookup_bupdate_same in H. injection H as <-.
        specialize (IR p _ B). unfold recv in *. cbn [vm_done vm_busy] in *. rewrite app_nil_r. exact IR.
      * apply bytes_eqb_false in E. rewrite blookup_bupdate_other in H by exact E. exact (IR q v H).
    + exact IT.
  - (* ASee *)
    destruct (cs_phase cs) eqn:P; try discriminate. destruct (cs_closed cs); [|discriminate].
    injection S as <-. constructor; cbn [cs_lines cs_sent cs_vms cs_phase].
    + exact IL.
    + exact IK.
    + intros p v H. specialize (IR p v H). cbn [pending] in *. exact IR.
    + discriminate.
Qed.

Lemma run_inv names acts : forall cs cs', crun cs acts = Some cs' -> inv names cs -> inv names cs'.
Proof.
  induction acts as [|a r IH]; cbn [crun]; intros cs cs' H I.
  - injection H as <-. exact I.
  - destruct (cstep cs a) as [cs1|] eqn:S; [|discriminate]. exact (IH _ _ H (step_inv _ _ _ _ S I)).
Qed.

(* the sent lines are the lines of the history's sends *)
Lemma step_sent cs a cs' : cstep cs a = Some cs' -> cs_sent cs' = cs_sent cs ++ sends [a].
Proof.
  destruct a as [l|  |p|p| ]; cbn [cstep sends]; intros S.
  - destruct (cs_phase cs); try discriminate. destruct (cs_closed cs); [discriminate|]. injection S as <-. reflexivity.
  - destruct (cs_closed cs); [discriminate|]. injection S as <-. cbn. rewrite app_nil_r. reflexivity.
  - destruct (cs_phase cs) as [|l0 todo|]; try discriminate.
    destruct (blookup p (cs_vms cs)) as [[[b|] dn]|]; try discriminate.
    destruct (bmem p todo); [|discriminate]. injection S as <-. cbn. rewrite app_nil_r. reflexivity.
  - destruct (blookup p (cs_vms cs)) as [[[b|] dn]|]; try discriminate. injection S as <-. cbn. rewrite app_nil_r. reflexivity.
  - destruct (cs_phase cs); try discriminate. destruct (cs_closed cs); [|discriminate]. injection S as <-. cbn.
    rewrite app_nil_r. reflexivity.
Qed.

Lemma sends_cons a r : sends (a :: r) = sends [a] ++ sends r.
Proof. destruct a; reflexivity. Qed.

Lemma run_sent acts : forall cs cs', crun cs acts = Some cs' -> cs_sent cs' = cs_sent cs ++ sends acts.
Proof.
  induction acts as [|a r IH]; cbn [crun]; intros cs cs' H.
  - injection H as <-. cbn. rewrite app_nil_r. reflexivity.
  - destruct (cstep cs a) as [cs1|] eqn:S; [|discriminate].
    rewrite (IH _ _ H), (step_sent _ _ _ S), (sends_cons a r), app_assoc. reflexivity.
Qed.

(* lines_total in every reachable state *)
Lemma lines_track_sends names acts cs :
  crun (cinit names) acts = Some cs ->
  cs_lines cs = N.of_nat (length (sends acts)) /\ cs_sent cs = sends acts.
Proof.
  intros H. pose proof (run_inv names _ _ _ H (inv_init names)) as [IL _ _ _].
  pose proof (run_sent _ _ _ H) as S. cbn [cinit cs_sent app] in S. rewrite IL, S. split; reflexivity.
Qed.

(* ---- the end of the run ---- *)
Lemma final_counts_exact names acts cs :
  crun (cinit names) acts = Some cs -> finished cs = true ->
  cs_lines cs = N.of_nat (length (sends acts)) /\
  forall p, In p names ->
    exists v, blookup p (cs_vms cs) = Some v /\ vm_busy v = None /\ vm_done v = sends acts.
Proof.
  intros H F. destruct (lines_track_sends _ _ _ H) as [L S]. split; [exact L|].
  pose proof (run_inv names _ _ _ H (inv_init names)) as [_ IK IR _].
  intros p I. unfold finished in F. destruct (cs_phase cs) eqn:P; try discriminate.
  rewrite <- IK in I. apply in_map_iff in I. destruct I as ([q v0] & Eq & I). cbn [fst] in Eq. subst q.
  destruct (blookup p (cs_vms cs)) as [v|] eqn:B.
  - exists v. split; [reflexivity|].
    pose proof (blookup_In _ _ _ B) as I2. rewrite forallb_forall in F. specialize (F _ I2).
    unfold idle_vm in F. cbn [snd] in F. destruct (vm_busy v) eqn:Bu; [discriminate|]. split; [reflexivity|].
    specialize (IR p v B). cbn [pending] in IR. unfold recv in IR. rewrite Bu in IR. rewrite !app_nil_r in IR.
    rewrite IR. exact S.
  - exfalso. clear - I B. induction (cs_vms cs) as [|[k y] r IH]; [contradiction|].
    cbn [blookup] in B. destruct (bytes_eqb p k) eqn:E; [discriminate|]. destruct I as [I|I].
    + injection I as -> _. rewrite bytes_eqb_refl in E. discriminate.
    + exact (IH I B).
Qed.

(* once the channel is closed nothing more is sent or counted *)
Lemma closed_step cs a cs' : cstep cs a = Some cs' -> cs_closed cs = true ->
  cs_closed cs' = true /\ cs_lines cs' = cs_lines cs /\ cs_sent cs' = cs_sent cs /\ sends [a] = [].
Proof.
  intros S C. destruct a as [l|  |p|p| ]; cbn [cstep sends] in *.
  - rewrite C in S. destruct (cs_phase cs); discriminate.
  - rewrite C in S. discriminate.
  - destruct (cs_phase cs) as [|l0 todo|]; try discriminate.
    destruct (blookup p (cs_vms cs)) as [[[b|] dn]|]; try discriminate.
    destruct (bmem p todo); [|discriminate]. injection S as <-. cbn. repeat split; assumption.
  - destruct (blookup p (cs_vms cs)) as [[[b|] dn]|]; try discriminate. injection S as <-. cbn. repeat split; assumption.
  - destruct (cs_phase cs); try discriminate. rewrite C in S. injection S as <-. cbn. repeat split; reflexivity.
Qed.

Lemma nothing_after_close acts : forall cs cs', crun cs acts = Some cs' -> cs_closed cs = true ->
  cs_lines cs' = cs_lines cs /\ cs_sent cs' = cs_sent cs /\ sends acts = [].
Proof.
  induction acts as [|a r IH]; cbn [crun]; intros cs cs' H C.
  - injection H as <-. repeat split; reflexivity.
  - destruct (cstep cs a) as [cs1|] eqn:S; [|discriminate].
    destruct (closed_step _ _ _ S C) as (C1 & L1 & S1 & N1).
    destruct (IH _ _ H C1) as (L & S' & N'). rewrite (sends_cons a r), N1, N', L, L1, S', S1. repeat split; reflexivity.
Qed.

(* ---- no position of the close is a dead end ---- *)
Lemma crun_app a b : forall cs, crun cs (a ++ b) = match crun cs a with Some c => crun c b | None => None end.
Proof.
  induction a as [|x a IH]; cbn [app crun]; intros cs; [reflexivity|].
  destruct (cstep cs x); [apply IH|reflexivity].
Qed.

(* the busy VMs among the first entries of the table *)
Definition nbusy (l : list (bytes * vmst)) : nat := length (filter (fun pv => negb (idle_vm pv)) l).

Lemma blookup_nodup {A} p (v : A) l : NoDup (map fst l) -> In (p, v) l -> blookup p l = Some v.
Proof.
  induction l as [|[k y] r IH]; cbn [map fst blookup]; intros ND I; [contradiction|].
  inversion ND as [|? ? NI ND']; subst. destruct I as [I|I].
  - injection I as -> ->. rewrite bytes_eqb_refl. reflexivity.
  - destruct (bytes_eqb p k) eqn:E.
    + apply bytes_eqb_spec in E. subst k. exfalso. apply NI. change p with (fst (p, v)). apply in_map. exact I.
    + exact (IH ND' I).
Qed.

Lemma nbusy_bupdate_finish p l dn (t : list (bytes * vmst)) :
  NoDup (map fst t) -> blookup p t = Some (mkvm (Some l) dn) ->
  S (nbusy (bupdate p (mkvm None (dn ++ [l])) t)) = nbusy t.
Proof.
  unfold nbusy. induction t as [|[k y] r IH]; cbn [map fst blookup bupdate]; intros ND B; [discriminate|].
  inversion ND as [|? ? NI ND']; subst. destruct (bytes_eqb p k) eqn:E.
  - injection B as ->. cbn [filter idle_vm snd vm_busy negb length]. reflexivity.
  - cbn [filter]. destruct (negb (idle_vm (k, y))); cbn [length]; rewrite <- (IH ND' B); reflexivity.
Qed.

Lemma nbusy_zero t : nbusy t = 0%nat -> forallb idle_vm t = true.
Proof.
  unfold nbusy. induction t as [|x r IH]; cbn [filter forallb]; [reflexivity|].
  destruct (idle_vm x); cbn [negb length andb]; [exact IH|discriminate].
Qed.

Lemma nbusy_pos t : nbusy t <> 0%nat -> exists p l dn, In (p, mkvm (Some l) dn) t.
Proof.
  unfold nbusy. induction t as [|[k [[b|] dn]] r IH]; cbn [filter idle_vm snd vm_busy negb length]; intros H.
  - contradiction.
  - exists k, b, dn. left. reflexivity.
  - destruct (IH H) as (p & l & d & I). exists p, l, d. right. exact I.
Qed.

(* a state whose table has distinct names *)
Definition wf (cs : cstate) : Prop :=
  NoDup (map fst (cs_vms cs)) /\
  forall l todo, cs_phase cs = LFan l todo ->
    todo <> [] /\ forall p, In p todo -> In p (map fst (cs_vms cs)).

(* the VMs finish their lines *)
Lemma finish_all n : forall cs, nbusy (cs_vms cs) = n -> NoDup (map fst (cs_vms cs)) ->
  exists acts cs', crun cs acts = Some cs' /\ forallb idle_vm (cs_vms cs') = true /\
    cs_phase cs' = cs_phase cs /\ cs_closed cs' = cs_closed cs /\ map fst (cs_vms cs') = map fst (cs_vms cs).
Proof.
  induction n as [|n IH]; intros cs H ND.
  - exists [], cs. cbn [crun]. repeat split. apply nbusy_zero. exact H.
  - destruct (nbusy_pos (cs_vms cs)) as (p & l & dn & I); [rewrite H; discriminate|].
    pose proof (blookup_nodup _ _ _ ND I) as B.
    pose proof (nbusy_bupdate_finish _ _ _ _ ND B) as NB. rewrite H in NB. injection NB as NB.
    set (cs1 := mkcs (cs_closed cs) (cs_phase cs) (cs_lines cs)
                     (bupdate p (mkvm None (dn ++ [l])) (cs_vms cs)) (cs_sent cs)).
    assert (K : map fst (cs_vms cs1) = map fst (cs_vms cs)) by (apply (keys_bupdate _ _ _ _ B)).
    destruct (IH cs1 NB) as (acts & cs' & R & F & P & C & K').
    { rewrite K. exact ND. }
    exists (AFinish p :: acts), cs'. cbn [crun cstep]. rewrite B. fold cs1. rewrite R.
    repeat split; try assumption. rewrite K'. exact K.
Qed.

(* p's VM becomes ready (it finishes the line it is executing, if any) *)
Lemma make_ready cs p : In p (map fst (cs_vms cs)) -> NoDup (map fst (cs_vms cs)) ->
  exists acts cs' dn, crun cs acts = Some cs' /\ blookup p (cs_vms cs') = Some (mkvm None dn) /\
    cs_phase cs' = cs_phase cs /\ cs_closed cs' = cs_closed cs /\ map fst (cs_vms cs') = map fst (cs_vms cs).
Proof.
  intros I ND. apply in_map_iff in I. destruct I as ([q [b dn]] & Eq & I). cbn [fst] in Eq. subst q.
  pose proof (blookup_nodup _ _ _ ND I) as B. destruct b as [l|].
  - exists [AFinish p]. eexists. exists (dn ++ [l]). cbn [crun cstep]. rewrite B. split; [reflexivity|].
    cbn [cs_vms cs_phase cs_closed]. rewrite blookup_bupdate_same. repeat split.
    apply (keys_bupdate _ _ _ _ B).
  - exists [], cs, dn. cbn [crun]. repeat split. exact B.
Qed.

Lemma filter_len_le {A} (f : A -> bool) l : (length (filter f l) <= length l)%nat.
Proof. induction l as [|x r IH]; cbn [filter length]; [lia|]. destruct (f x); cbn [length]; lia. Qed.

Lemma bdrop_length_lt p l : In p l -> (length (bdrop p l) < length l)%nat.
Proof.
  intros I. unfold bdrop. induction l as [|q r IH]; [contradiction|]. cbn [filter].
  destruct (bytes_eqb p q) eqn:E; cbn [negb length].
  - pose proof (filter_len_le (fun q0 => negb (bytes_eqb p q0)) r). lia.
  - destruct I as [I|I]; [subst; rewrite bytes_eqb_refl in E; discriminate|]. specialize (IH I). lia.
Qed.

(* the loader gets rid of the line it holds out *)
Lemma hand_all n : forall cs, wf cs ->
  (forall l todo, cs_phase cs = LFan l todo -> length todo <= n)%nat ->
  cs_phase cs <> LDone ->
  exists acts cs', crun cs acts = Some cs' /\ cs_phase cs' = LIdle /\ cs_closed cs' = cs_closed cs /\
    map fst (cs_vms cs') = map fst (cs_vms cs).
Proof.
  induction n as [|n IH]; intros cs [ND T] Len NDn.
  - destruct (cs_phase cs) as [|l todo|] eqn:P; [| |contradiction].
    + exists [], cs. cbn [crun]. repeat split. exact P.
    + exfalso. specialize (Len l todo eq_refl). destruct (T l todo eq_refl) as [NE _].
      destruct todo; [contradiction|cbn in Len; lia].
  - destruct (cs_phase cs) as [|l todo|] eqn:P; [| |contradiction].
    + exists [], cs. cbn [crun]. repeat split. exact P.
    + destruct (T l todo eq_refl) as [NE Sub]. destruct todo as [|q t]; [contradiction|].
      assert (Iq : In q (map fst (cs_vms cs))) by (apply Sub; left; reflexivity).
      destruct (make_ready cs q Iq ND) as (a1 & cs1 & dn & R1 & B1 & P1 & C1 & K1).
      rewrite P in P1.
      set (cs2 := mkcs (cs_closed cs1) (fan l (bdrop q (q :: t))) (cs_lines cs1)
                       (bupdate q (mkvm (Some l) dn) (cs_vms cs1)) (cs_sent cs1)).
      assert (S2 : cstep cs1 (AHand q) = Some cs2).
      { cbn [cstep]. rewrite P1, B1. cbn [bmem existsb]. rewrite bytes_eqb_refl. reflexivity. }
      assert (K2 : map fst (cs_vms cs2) = map fst (cs_vms cs)).
      { cbn [cs2 cs_vms]. rewrite (keys_bupdate _ _ _ _ B1). exact K1. }
      assert (Lt : (length (bdrop q (q :: t)) <= n)%nat).
      { pose proof (bdrop_length_lt q (q :: t) (or_introl eq_refl)). specialize (Len l (q :: t) eq_refl). lia. }
      destruct (IH cs2) as (a3 & cs3 & R3 & P3 & C3 & K3).
      * split; [rewrite K2; exact ND|]. intros l' todo' F. cbn [cs2 cs_phase] in F.
        apply fan_todo in F. destruct F as (_ & -> & NE'). split; [exact NE'|].
        intros p I. rewrite K2. apply Sub. unfold bdrop in I. apply filter_In in I. exact (proj1 I).
      * intros l' todo' F. cbn [cs2 cs_phase] in F. apply fan_todo in F. destruct F as (_ & -> & _). exact Lt.
      * cbn [cs2 cs_phase]. destruct (bdrop q (q :: t)); discriminate.
      * exists (a1 ++ AHand q :: a3), cs3. rewrite crun_app, R1. cbn [crun]. rewrite S2, R3.
        repeat split; [exact P3| |congruence]. rewrite C3. cbn [cs2 cs_closed]. exact C1.
Qed.

Lemma sends_app a b : sends (a ++ b) = sends a ++ sends b.
Proof.
  induction a as [|x a IH]; [reflexivity|]. cbn [app]. rewrite (sends_cons x (a ++ b)), (sends_cons x a), IH, app_assoc. reflexivity.
Qed.

(* from a state in which the channel is closed, shutdown can complete *)
Lemma closed_completes cs : wf cs -> cs_closed cs = true ->
  exists acts cs', crun cs acts = Some cs' /\ finished cs' = true.
Proof.
  intros W C. destruct (cs_phase cs) as [|l todo|] eqn:P.
  - (* idle: sees the close *)
    set (cs1 := mkcs true LDone (cs_lines cs) (cs_vms cs) (cs_sent cs)).
    destruct (finish_all _ cs1 eq_refl (proj1 W)) as (a & cs' & R & F & P' & _ & _).
    exists (ASee :: a), cs'. cbn [crun cstep]. rewrite P, C. fold cs1. rewrite R. split; [reflexivity|].
    unfold finished. rewrite P'. exact F.
  - destruct (hand_all (length todo) cs W) as (a1 & cs1 & R1 & P1 & C1 & K1).
    { intros l' todo' F. rewrite P in F. injection F as _ <-. apply le_n. }
    { rewrite P. discriminate. }
    set (cs2 := mkcs true LDone (cs_lines cs1) (cs_vms cs1) (cs_sent cs1)).
    destruct (finish_all _ cs2 eq_refl) as (a & cs' & R & F & P' & _ & _).
    { cbn [cs2 cs_vms]. rewrite K1. exact (proj1 W). }
    exists (a1 ++ ASee :: a), cs'. rewrite crun_app, R1. cbn [crun cstep]. rewrite P1, C1, C. fold cs2. rewrite R.
    split; [reflexivity|]. unfold finished. rewrite P'. exact F.
  - destruct (finish_all _ cs eq_refl (proj1 W)) as (a & cs' & R & F & P' & _ & _).
    exists a, cs'. split; [exact R|]. unfold finished. rewrite P', P. exact F.
Qed.

Lemma inv_wf names cs : NoDup names -> inv names cs -> wf cs.
Proof.
  intros ND [_ IK _ IT]. split; [rewrite IK; exact ND|].
  intros l todo P. destruct (IT l todo P) as [NE Sub]. split; [exact NE|]. rewrite IK. exact Sub.
Qed.

(* wherever in a history the tailer closes the channel, the run can be
   completed, and lines_total then is the number of lines sent before *)
Lemma close_anywhere_completes names acts cs :
  NoDup names -> crun (cinit names) acts = Some cs -> cs_closed cs = false ->
  exists more cs', crun (cinit names) (acts ++ AClose :: more) = Some cs' /\ finished cs' = true /\
    cs_lines cs' = N.of_nat (length (sends acts)).
Proof.
  intros ND R C.
  set (cs1 := mkcs true (cs_phase cs) (cs_lines cs) (cs_vms cs) (cs_sent cs)).
  assert (S1 : cstep cs AClose = Some cs1) by (cbn [cstep]; rewrite C; reflexivity).
  pose proof (run_inv names _ _ _ R (inv_init names)) as I.
  pose proof (step_inv _ _ _ _ S1 I) as I1.
  destruct (closed_completes cs1 (inv_wf _ _ ND I1) eq_refl) as (more & cs' & R' & F).
  exists more, cs'.
  assert (RT : crun (cinit names) (acts ++ AClose :: more) = Some cs').
  { rewrite crun_app, R. cbn [crun]. rewrite S1. exact R'. }
  split; [exact RT|]. split; [exact F|].
  destruct (final_counts_exact _ _ _ RT F) as [L _]. rewrite L, sends_app, (sends_cons AClose more).
  destruct (nothing_after_close _ _ _ R' eq_refl) as (_ & _ & N). rewrite N. cbn [sends app].
  rewrite app_nil_r. reflexivity.
Qed.

(* ---- the loader state after shutdown ---- *)
Section Settle.
Variable vmstep : bytes -> N -> N -> list effect.

Lemma run_lines_no_handle p x ls : ps_handle x = None -> run_lines vmstep p x ls = x.
Proof.
  intros H. unfold run_lines. induction ls as [|l r IH]; cbn [fold_left]; [reflexivity|].
  unfold line_prog at 2. rewrite H. exact IH.
Qed.

Lemma deliver_lines_shape ls : forall st,
  deliver_lines vmstep st ls =
  mkst (st_index st) (map (fun px => (fst px, run_lines vmstep (fst px) (snd px) ls)) (st_progs st))
       (st_lines st + N.of_nat (length ls)).
Proof.
  unfold deliver_lines. induction ls as [|l r IH]; intros st; cbn [fold_left].
  - cbn [length run_lines fold_left]. destruct st as [i ps n]. cbn [st_index st_progs st_lines].
    f_equal; [|lia]. unfold run_lines. cbn [fold_left].
    transitivity (map (fun px : bytes * pstate => px) ps); [symmetry; apply map_id|].
    apply map_ext. intros [k x]. reflexivity.
  - rewrite IH. unfold line at 1 2 3. cbn [st_index st_progs st_lines]. f_equal.
    + rewrite map_map. apply map_ext. intros [k x]. reflexivity.
    + cbn [length]. lia.
Qed.

Lemma settle_is_sequential st names acts cs :
  names = live st -> crun (cinit names) acts = Some cs -> finished cs = true ->
  settle vmstep st cs = deliver_lines vmstep st (sends acts).
Proof.
  intros -> R F. destruct (final_counts_exact _ _ _ R F) as [L D].
  rewrite deliver_lines_shape. unfold settle. rewrite L. f_equal.
  apply map_ext_in. intros [p x] I. cbn [fst snd]. f_equal.
  destruct (ps_handle x) eqn:H.
  - assert (Ip : In p (live st)).
    { unfold live. change p with (fst (p, x)). apply in_map. apply filter_In. split; [exact I|].
      unfold has_handle. cbn [snd]. rewrite H. reflexivity. }
    destruct (D p Ip) as (v & B & _ & Dn). unfold done_of. rewrite B, Dn. reflexivity.
  - rewrite !run_lines_no_handle by exact H. reflexivity.
Qed.
End Settle.

Section Final.
Variable c1 omit : bool.
Variable compile : bytes -> N -> option (list decl).
Variable vmstep : bytes -> N -> N -> list effect.

Lemma deliver_lines_run st ls :
  deliver_lines vmstep st ls = run_from c1 true omit compile vmstep st (map oline ls).
Proof.
  unfold deliver_lines, run_from. revert st. induction ls as [|l r IH]; intros st; cbn [map fold_left]; [reflexivity|].
  rewrite IH. reflexivity.
Qed.

(* a whole run: any history of loads, unloads, lines and GC passes, then the
   end of the run in any interleaving: every counter is the number of its events *)
Lemma shutdown_counters_exact (ops : list op) acts cs :
  let st0 := run_from c1 true omit compile vmstep st_empty ops in
  crun (cinit (live st0)) acts = Some cs -> finished cs = true ->
  let st := settle vmstep st0 cs in
  let evs := events c1 true omit compile vmstep st_empty (ops ++ map oline (sends acts)) in
  st_lines st = count EvLine evs /\
  forall p,
    ps_loads (getp p st) = count (EvLoaded p) evs /\
    ps_errs (getp p st) = count (EvLoadFailed p) evs /\
    ps_unloads (getp p st) = count (EvUnloaded p) evs /\
    ps_rterrs (getp p st) = count (EvRuntimeError p) evs.
Proof.
  intros st0 R F st evs.
  assert (E : st = run_from c1 true omit compile vmstep st_empty (ops ++ map oline (sends acts))).
  { unfold st. rewrite (settle_is_sequential vmstep st0 _ _ _ eq_refl R F), deliver_lines_run.
    unfold st0, run_from. rewrite fold_left_app. reflexivity. }
  rewrite E. apply counters_exact.
Qed.
End Final.
