(* Proofs about Tail/LineReader.v: the abstract splitter is independent of
   chunking; the concrete reader (buf/off/cap/size) refines it under an
   invariant; hence everything delivered equals [frame stream]. *)
From V Require Import Base.Bytes Tail.LineReader.
From Coq Require Import Arith Lia.

Definition no_nl (s : bytes) : Prop := ~ In NL s.

(* ------------------------------------------------------------------ *)
(* abstract half *)

Lemma split_app a : forall acc b,
  split acc (a ++ b) =
  let (l1, p1) := split acc a in
  let (l2, p2) := split p1 b in (l1 ++ l2, p2).
Proof.
  induction a as [|c a IH]; intros acc b; cbn [app split].
  - destruct (split acc b); reflexivity.
  - destruct (N.eqb c NL).
    + rewrite (IH [] b).
      destruct (split [] a) as [l1 p1]. destruct (split p1 b) as [l2 p2]. reflexivity.
    + apply IH.
Qed.

Theorem feeds_concat chunks : forall pend,
  feeds pend chunks = split pend (concat chunks).
Proof.
  induction chunks as [|c cs IH]; intros pend; cbn [feeds concat].
  - reflexivity.
  - rewrite split_app. destruct (split pend c) as [l1 p1].
    rewrite IH. destruct (split p1 (concat cs)); reflexivity.
Qed.

Lemma no_nl_cons c s : no_nl (c :: s) -> c <> NL /\ no_nl s.
Proof.
  unfold no_nl; intros H; split.
  - intros ->. apply H. left; reflexivity.
  - intros I. apply H. right; exact I.
Qed.

Lemma no_nl_app a b : no_nl a -> no_nl b -> no_nl (a ++ b).
Proof. unfold no_nl; intros Ha Hb I. apply in_app_or in I. tauto. Qed.

Lemma split_no_nl s : forall acc, no_nl s -> split acc s = ([], acc ++ s).
Proof.
  induction s as [|c s IH]; intros acc H; cbn [split].
  - rewrite app_nil_r. reflexivity.
  - apply no_nl_cons in H as [Hc Hs].
    destruct (N.eqb c NL) eqn:E.
    + apply N.eqb_eq in E. contradiction.
    + rewrite IH by exact Hs. rewrite <- app_assoc. reflexivity.
Qed.

Lemma split_acc_app a acc b : no_nl a -> split acc (a ++ b) = split (acc ++ a) b.
Proof.
  intros H. rewrite split_app. rewrite split_no_nl by exact H.
  destruct (split (acc ++ a) b); reflexivity.
Qed.

Lemma split_line l s : no_nl l ->
  split [] (l ++ NL :: s) = let (ls, r) := split [] s in (strip_cr l :: ls, r).
Proof.
  intros H. rewrite split_acc_app by exact H. cbn [app split].
  rewrite N.eqb_refl. reflexivity.
Qed.

(* the spec says what the property says: a stream written as terminated lines
   followed by an unterminated rest is split into exactly those lines, each
   with one trailing CR removed, and that rest *)
Lemma split_characterised ls : forall r,
  Forall no_nl ls -> no_nl r ->
  split [] (concat (map (fun l => l ++ [NL]) ls) ++ r) = (map strip_cr ls, r).
Proof.
  induction ls as [|l ls IH]; intros r Hls Hr; cbn [map concat].
  - cbn [app]. rewrite split_no_nl by exact Hr. reflexivity.
  - inversion Hls as [|? ? Hl Hls']; subst.
    rewrite <- !app_assoc. cbn [app]. rewrite split_line by exact Hl.
    rewrite IH by assumption. reflexivity.
Qed.

Lemma frame_characterised ls r :
  Forall no_nl ls -> no_nl r ->
  frame (concat (map (fun l => l ++ [NL]) ls) ++ r) = map strip_cr ls ++ flush r.
Proof. intros H1 H2. unfold frame. rewrite split_characterised by assumption. reflexivity. Qed.

(* every stream has such a decomposition *)
Lemma split_decompose s : forall acc, no_nl acc ->
  exists ls r, Forall no_nl ls /\ no_nl r /\
    acc ++ s = concat (map (fun l => l ++ [NL]) ls) ++ r.
Proof.
  induction s as [|c s IH]; intros acc Ha.
  - exists [], acc. rewrite app_nil_r. cbn. auto.
  - destruct (N.eqb c NL) eqn:E.
    + apply N.eqb_eq in E. subst c.
      destruct (IH [] (fun x => x)) as (ls & r & H1 & H2 & H3).
      exists (acc :: ls), r. split; [constructor; assumption|]. split; [assumption|].
      cbn [map concat]. cbn [app] in H3. rewrite H3. rewrite <- !app_assoc. reflexivity.
    + assert (Hn : no_nl (acc ++ [c])).
      { apply no_nl_app; [exact Ha|]. intros [I|[]]. subst c. rewrite N.eqb_refl in E. discriminate. }
      destruct (IH (acc ++ [c]) Hn) as (ls & r & H1 & H2 & H3).
      exists ls, r. rewrite <- app_assoc in H3. auto.
Qed.

(* ------------------------------------------------------------------ *)
(* list facts about nth / firstn / skipn *)

Lemma nth_skipn_add {A} (d : A) n : forall l j, nth j (skipn n l) d = nth (n + j) l d.
Proof.
  induction n as [|n IH]; intros l j; [reflexivity|].
  destruct l as [|x l]; cbn [skipn plus nth].
  - destruct j; reflexivity.
  - apply IH.
Qed.

Lemma last_firstn_S {A} (d : A) : forall l j, j < length l -> last (firstn (S j) l) d = nth j l d.
Proof.
  induction l as [|x l IH]; intros j H; cbn [length] in H; [lia|].
  destruct j as [|j].
  - reflexivity.
  - destruct l as [|y l]; [cbn [length] in H; lia|].
    change (nth (S j) (x :: y :: l) d) with (nth j (y :: l) d).
    rewrite <- (IH j) by (cbn [length] in *; lia).
    reflexivity.
Qed.

Lemma skipn_skipn_add {A} x : forall y (l : list A), skipn x (skipn y l) = skipn (y + x) l.
Proof.
  intros y; induction y as [|y IH]; intros l; [reflexivity|].
  destruct l as [|a l]; cbn [skipn plus]; [apply skipn_nil|apply IH].
Qed.

Lemma skipn_app_le {A} n (l1 l2 : list A) : n <= length l1 -> skipn n (l1 ++ l2) = skipn n l1 ++ l2.
Proof.
  intros H. rewrite skipn_app. replace (n - length l1) with 0 by lia. reflexivity.
Qed.

Lemma index_nl_none s : index_nl s = None -> no_nl s.
Proof.
  induction s as [|c s IH]; cbn [index_nl]; intros H.
  - intros [].
  - destruct (N.eqb c NL) eqn:E; [discriminate|].
    destruct (index_nl s); [discriminate|].
    intros [I|I].
    + subst c. rewrite N.eqb_refl in E. discriminate.
    + exact (IH eq_refl I).
Qed.

Lemma index_nl_some s : forall i, index_nl s = Some i ->
  i < length s /\ no_nl (firstn i s) /\ nth i s 0%N = NL /\
  s = firstn i s ++ NL :: skipn (S i) s.
Proof.
  induction s as [|c s IH]; cbn [index_nl]; intros i H; [discriminate|].
  destruct (N.eqb c NL) eqn:E.
  - injection H as <-. apply N.eqb_eq in E. subst c. cbn. repeat split; try lia.
    intros [].
  - destruct (index_nl s) as [j|] eqn:Ej; [|discriminate]. injection H as <-.
    destruct (IH j eq_refl) as (H1 & H2 & H3 & H4).
    cbn [length firstn nth skipn]. repeat split.
    + lia.
    + intros [I|I]; [subst c; rewrite N.eqb_refl in E; discriminate | exact (H2 I)].
    + exact H3.
    + cbn [app]. f_equal. exact H4.
Qed.

(* ------------------------------------------------------------------ *)
(* concrete half *)

(* holds at every entry of send: off is in range and sits at the start of a
   line, which makes the absolute-index '\r' test look at this line only *)
Definition wf (r : lr) : Prop :=
  off r <= length (buf r) /\ bad r = false /\
  (off r = 0 \/ nth (off r - 1) (buf r) 0%N = NL).

(* holds between ReadAndSend calls *)
Definition inv (r : lr) : Prop :=
  wf r /\ no_nl (pending r) /\ length (buf r) <= cap r /\ 1 <= size r.

Lemma slice_ok lo hi b : lo <= hi -> hi <= length b ->
  slice lo hi b = Some (firstn (hi - lo) (skipn lo b)).
Proof.
  intros H1 H2. unfold slice.
  destruct (Nat.leb_spec lo hi); [|lia]. destruct (Nat.leb_spec hi (length b)); [|lia].
  reflexivity.
Qed.

Lemma slice_to_end lo b : lo <= length b -> slice lo (length b) b = Some (skipn lo b).
Proof.
  intros H. rewrite slice_ok by lia. f_equal. apply firstn_all2. rewrite skipn_length. lia.
Qed.

Lemma strip_cr_nil : strip_cr [] = [].
Proof. reflexivity. Qed.

Lemma NL_not_CR : N.eqb NL CR = false.
Proof. reflexivity. Qed.

Lemma send_none r : wf r -> send r = None -> no_nl (pending r).
Proof.
  intros (Ho & Hb & _) H. unfold send in H. rewrite slice_to_end in H by exact Ho.
  fold (pending r) in H.
  destruct (index_nl (pending r)) as [i|] eqn:E.
  - destruct (slice _ _ _); discriminate.
  - apply index_nl_none. exact E.
Qed.

Lemma send_some r l r' : wf r -> send r = Some (l, r') ->
  exists l0, no_nl l0 /\ pending r = l0 ++ NL :: pending r' /\ l = strip_cr l0 /\
    wf r' /\ buf r' = buf r /\ cap r' = cap r /\ size r' = size r.
Proof.
  intros (Ho & Hb & Hprev) H. unfold send in H. rewrite slice_to_end in H by exact Ho.
  fold (pending r) in H.
  destruct (index_nl (pending r)) as [i|] eqn:E; [|discriminate].
  destruct (index_nl_some _ _ E) as (Hi & Hno & Hnl & Hdec).
  assert (Hlen : length (pending r) = length (buf r) - off r)
    by (unfold pending; apply skipn_length).
  assert (Hpend' : forall o', o' = off r + i + 1 ->
            pending (set_off r o') = skipn (S i) (pending r)).
  { intros o' ->. unfold pending, set_off; cbn [off buf]. rewrite skipn_skipn_add. f_equal. lia. }
  assert (Hwf' : forall o', o' = off r + i + 1 -> wf (set_off r o')).
  { intros o' ->. unfold wf, set_off; cbn [off buf bad]. repeat split; [lia|exact Hb|].
    right. replace (off r + i + 1 - 1) with (off r + i) by lia.
    rewrite <- nth_skipn_add. exact Hnl. }
  destruct i as [|j].
  - (* the newline is the first pending byte: the line is empty *)
    assert (Hstrip : (0 <? off r + 0) && N.eqb (nth (off r + 0 - 1) (buf r) 0%N) CR = false).
    { destruct Hprev as [Hz|Hp].
      - rewrite Hz. reflexivity.
      - replace (off r + 0 - 1) with (off r - 1) by lia. rewrite Hp, NL_not_CR.
        apply andb_false_r. }
    rewrite Hstrip in H. rewrite slice_ok in H by lia.
    replace (off r + 0 - off r) with 0 in H by lia. cbn [firstn] in H.
    injection H as <- <-.
    exists []. repeat split; try reflexivity.
    + intros [].
    + rewrite Hpend' by lia. cbn [app]. cbn [firstn app] in Hdec. exact Hdec.
    + apply Hwf'; lia.
    + apply Hwf'; lia.
    + apply Hwf'; lia.
  - (* at least one byte before the newline: buf[end-1] is this line's last byte *)
    assert (Hlast : nth (off r + S j - 1) (buf r) 0%N = last (firstn (S j) (pending r)) 0%N).
    { rewrite last_firstn_S by lia. unfold pending. rewrite nth_skipn_add. f_equal. lia. }
    assert (Hpos : (0 <? off r + S j) = true) by (apply Nat.ltb_lt; lia).
    rewrite Hpos, Hlast in H. cbn [andb] in H.
    exists (firstn (S j) (pending r)).
    destruct (N.eqb (last (firstn (S j) (pending r)) 0%N) CR) eqn:Ecr.
    + rewrite slice_ok in H by lia.
      replace (off r + S j - 1 - off r) with j in H by lia. fold (pending r) in H.
      injection H as <- <-.
      repeat split.
      * exact Hno.
      * rewrite Hpend' by lia. exact Hdec.
      * unfold strip_cr. rewrite Ecr. symmetry. apply removelast_firstn. lia.
      * apply Hwf'; lia.
      * apply Hwf'; lia.
      * apply Hwf'; lia.
    + rewrite slice_ok in H by lia.
      replace (off r + S j - off r) with (S j) in H by lia. fold (pending r) in H.
      injection H as <- <-.
      repeat split.
      * exact Hno.
      * rewrite Hpend' by lia. exact Hdec.
      * unfold strip_cr. rewrite Ecr. reflexivity.
      * apply Hwf'; lia.
      * apply Hwf'; lia.
      * apply Hwf'; lia.
Qed.

Lemma send_loop_spec fuel : forall r ls r',
  wf r -> length (pending r) < fuel -> send_loop fuel r = (ls, r') ->
  split [] (pending r) = (ls, pending r') /\ wf r' /\ no_nl (pending r') /\
  buf r' = buf r /\ cap r' = cap r /\ size r' = size r.
Proof.
  induction fuel as [|f IH]; intros r ls r' Hwf Hf H; [lia|].
  cbn [send_loop] in H.
  destruct (send r) as [[l r1]|] eqn:Es.
  - destruct (send_some _ _ _ Hwf Es) as (l0 & Hno & Hdec & Hl & Hwf1 & Hb1 & Hc1 & Hs1).
    assert (Hbad : bad r1 = false) by apply Hwf1.
    rewrite Hbad in H.
    destruct (send_loop f r1) as [ls1 r2] eqn:El. injection H as <- <-.
    assert (Hlt : length (pending r1) < f).
    { rewrite Hdec in Hf. rewrite app_length in Hf. cbn [length] in Hf. lia. }
    destruct (IH _ _ _ Hwf1 Hlt El) as (Hsp & Hwf2 & Hno2 & Hb2 & Hc2 & Hs2).
    repeat split; try congruence; try assumption; try apply Hwf2.
    rewrite Hdec, split_line by exact Hno. rewrite Hsp. rewrite Hl. reflexivity.
  - injection H as <- <-.
    pose proof (send_none _ Hwf Es) as Hno.
    repeat split; try assumption; try apply Hwf.
    rewrite split_no_nl by exact Hno. reflexivity.
Qed.

Lemma grow_fields r :
  buf (grow r) = buf r /\ off (grow r) = off r /\ size (grow r) = size r /\ bad (grow r) = bad r.
Proof. unfold grow. destruct (_ <? _); cbn; auto. Qed.

Lemma grow_cap r : length (buf r) <= cap r -> 1 <= size r ->
  length (buf r) <= cap (grow r) /\ 1 <= space (grow r).
Proof.
  intros H1 H2. unfold space, grow.
  destruct (Nat.ltb_spec (cap r - length (buf r)) (size r)); cbn [cap buf set_cap]; lia.
Qed.

(* one ReadAndSend call refines one step of the abstract splitter *)
Theorem read_and_send_refines r chunk ls r' :
  inv r -> length chunk <= space (grow r) ->
  read_and_send r chunk = (ls, r') ->
  split (pending r) chunk = (ls, pending r') /\ inv r' /\ size r' = size r.
Proof.
  intros ((Ho & Hb & Hprev) & Hno & Hcap & Hsz) Hfit H.
  destruct (grow_fields r) as (Gb & Go & Gs & Gbad).
  destruct (grow_cap r Hcap Hsz) as (Gcap & _).
  unfold read_and_send in H. unfold space in Hfit.
  set (r2 := set_buf (grow r) (buf (grow r) ++ chunk)) in *.
  assert (Hb2 : buf r2 = buf r ++ chunk) by (unfold r2; cbn [buf set_buf]; rewrite Gb; reflexivity).
  assert (Ho2 : off r2 = off r) by (unfold r2; cbn [off set_buf]; exact Go).
  assert (Hp2 : pending r2 = pending r ++ chunk).
  { unfold pending. rewrite Hb2, Ho2. apply skipn_app_le. exact Ho. }
  assert (Hwf2 : wf r2).
  { unfold wf. rewrite Hb2, Ho2. unfold r2; cbn [bad set_buf]. rewrite Gbad.
    repeat split; [rewrite app_length; lia|exact Hb|].
    destruct Hprev as [Hz|Hp]; [left; exact Hz|].
    destruct (Nat.eq_dec (off r) 0) as [Hz|Hnz]; [left; exact Hz|].
    right. rewrite app_nth1 by lia. exact Hp. }
  assert (Hcap2 : length (buf r2) <= cap r2).
  { rewrite Hb2, app_length. unfold r2; cbn [cap set_buf]. rewrite Gb in Hfit. lia. }
  destruct (0 <? length chunk) eqn:Epos.
  - destruct (send_loop (S (length (buf r2))) r2) as [ls3 r3] eqn:El.
    injection H as <- <-.
    assert (Hfuel : length (pending r2) < S (length (buf r2))).
    { unfold pending. rewrite skipn_length. lia. }
    destruct (send_loop_spec _ _ _ _ Hwf2 Hfuel El) as (Hsp & (Ho3 & Hbad3 & Hprev3) & Hno3 & Hb3 & Hc3 & Hs3).
    unfold reslice. rewrite slice_to_end by exact Ho3. fold (pending r3).
    assert (Hpr : pending (mk_lr (pending r3) (cap r3 - off r3) 0 (size r3) (bad r3)) = pending r3)
      by reflexivity.
    rewrite Hpr. split; [|split].
    + rewrite <- Hsp, Hp2. rewrite <- (app_nil_l (pending r)) at 2.
      symmetry. apply split_acc_app. exact Hno.
    + unfold inv. rewrite Hpr. split; [|split; [exact Hno3|split]].
      * unfold wf; cbn [buf off bad]. split; [lia|]. split; [exact Hbad3|left; reflexivity].
      * cbn [buf cap]. unfold pending. rewrite skipn_length. rewrite Hb3, Hc3. lia.
      * cbn [size]. rewrite Hs3. unfold r2; cbn [size set_buf]. rewrite Gs. exact Hsz.
    + cbn [size]. rewrite Hs3. unfold r2; cbn [size set_buf]. exact Gs.
  - injection H as <- <-.
    apply Nat.ltb_ge in Epos. assert (chunk = []) as -> by (destruct chunk; [reflexivity|cbn in Epos; lia]).
    rewrite app_nil_r in Hp2. cbn [split]. rewrite Hp2.
    split; [reflexivity|]. split.
    + unfold inv. rewrite Hp2. repeat split; try assumption; try apply Hwf2.
      unfold r2; cbn [size set_buf]. rewrite Gs. exact Hsz.
    + unfold r2; cbn [size set_buf]. exact Gs.
Qed.

(* between calls off is 0 (so the invariant of the design, "off = 0 or the byte
   before off is a newline", holds in its first form at every call boundary) *)
Lemma off_zero_after_read r chunk ls r' :
  chunk <> [] -> read_and_send r chunk = (ls, r') -> bad r' = false ->
  off r' = 0 /\ buf r' = pending r'.
Proof.
  intros Hne H Hbad. unfold read_and_send in H.
  destruct chunk as [|c chunk]; [contradiction|]. cbn [length Nat.ltb Nat.leb] in H.
  destruct (send_loop _ _) as [ls3 r3] eqn:El. injection H as <- <-.
  unfold reslice in *. destruct (slice _ _ _).
  - split; reflexivity.
  - cbn in Hbad. discriminate.
Qed.

Lemma inv_new sz : 1 <= sz -> inv (new_lr sz).
Proof.
  intros H. unfold inv, wf, new_lr, pending; cbn [buf off cap size bad skipn length].
  split; [split; [lia|split; [reflexivity|left; reflexivity]]|].
  split; [intros []|]. split; [lia|exact H].
Qed.

Lemma run_fuel_cons c rest : run_fuel (c :: rest) = S (length c + run_fuel rest).
Proof. unfold run_fuel. cbn [concat length]. rewrite app_length. lia. Qed.

Lemma run_spec fuel : forall r script os r',
  inv r -> run_fuel script <= fuel -> run fuel r script = (os, r') ->
  split (pending r) (concat script) = (emitted os, pending r') /\ inv r'.
Proof.
  induction fuel as [|f IH]; intros r script os r' Hinv Hf H.
  - destruct script as [|c rest]; [|rewrite run_fuel_cons in Hf; lia].
    cbn [run] in H. injection H as <- <-. cbn. auto.
  - cbn [run] in H. destruct script as [|c rest].
    + injection H as <- <-. cbn. auto.
    + set (sp := space (grow r)) in *. set (n := Nat.min (length c) sp) in *.
      destruct (read_and_send r (firstn n c)) as [ls r1] eqn:Er.
      destruct (run f r1 _) as [os1 r2] eqn:Erun. injection H as <- <-.
      destruct Hinv as (Hwf & Hno & Hcap & Hsz).
      destruct (grow_cap r Hcap Hsz) as (_ & Hsp). fold sp in Hsp.
      assert (Hfit : length (firstn n c) <= space (grow r)).
      { rewrite firstn_length. fold sp. lia. }
      destruct (read_and_send_refines _ _ _ _ (conj Hwf (conj Hno (conj Hcap Hsz))) Hfit Er)
        as (Hsplit & Hinv1 & _).
      rewrite run_fuel_cons in Hf.
      assert (Hscript : exists script',
                 run f r1 script' = (os1, r2) /\ run_fuel script' <= f /\
                 concat (c :: rest) = firstn n c ++ concat script').
      { destruct (Nat.ltb_spec n (length c)) as [Hlt|Hge].
        - exists (skipn n c :: rest). split; [exact Erun|]. split.
          + rewrite run_fuel_cons, skipn_length. lia.
          + cbn [concat]. rewrite app_assoc, firstn_skipn. reflexivity.
        - exists rest. split; [exact Erun|]. split; [lia|].
          cbn [concat]. rewrite firstn_all2 by lia. reflexivity. }
      destruct Hscript as (script' & Erun' & Hf' & Hcat).
      destruct (IH _ _ _ _ Hinv1 Hf' Erun') as (Hsplit1 & Hinv2).
      split; [|exact Hinv2].
      rewrite Hcat, split_app, Hsplit, Hsplit1. reflexivity.
Qed.

(* ------------------------------------------------------------------ *)
(* the property *)

Theorem chunking_independent_any_reads stream script sz os r :
  concat script = stream -> 1 <= sz -> run_all sz script = (os, r) ->
  emitted os ++ finish r = frame stream /\ bad r = false.
Proof.
  intros Hcat Hsz H. unfold run_all in H.
  destruct (run_spec _ _ _ _ _ (inv_new sz Hsz) (le_n _) H) as (Hsplit & Hinv).
  split; [|apply Hinv].
  unfold frame, finish. change (pending (new_lr sz)) with (@nil byte) in Hsplit.
  rewrite Hcat in Hsplit. rewrite Hsplit. reflexivity.
Qed.

Theorem chunking_independent stream chunks sz os r :
  concat chunks = stream -> (forall c, In c chunks -> c <> []) -> 1 <= sz ->
  run_all sz chunks = (os, r) ->
  emitted os ++ finish r = frame stream /\ bad r = false.
Proof. intros H1 _ H2 H3. exact (chunking_independent_any_reads _ _ _ _ _ H1 H2 H3). Qed.

Corollary deliver_frame script sz : 1 <= sz -> deliver sz script = frame (concat script).
Proof.
  intros Hsz. unfold deliver. destruct (run_all sz script) as [os r] eqn:E.
  exact (proj1 (chunking_independent_any_reads _ _ _ _ _ eq_refl Hsz E)).
Qed.

(* two ways of reading the same stream, with any two buffer sizes, deliver the same lines *)
Corollary same_stream_same_lines s1 s2 sz1 sz2 :
  concat s1 = concat s2 -> 1 <= sz1 -> 1 <= sz2 -> deliver sz1 s1 = deliver sz2 s2.
Proof. intros H H1 H2. rewrite !deliver_frame by assumption. rewrite H. reflexivity. Qed.

(* ------------------------------------------------------------------ *)
(* reads that return an error together with bytes *)

(* the errors play no part in what is framed: forgetting them gives [run] *)
Lemma runE_erase fuel : forall r s,
  run fuel r (map fst s) = (map fst (fst (runE fuel r s)), snd (runE fuel r s)).
Proof.
  induction fuel as [|f IH]; intros r s; [reflexivity|].
  destruct s as [|[c e] rest]; [reflexivity|].
  cbn [map fst run runE].
  destruct (read_and_send r (firstn (Nat.min (length c) (space (grow r))) c)) as [ls r1].
  destruct (Nat.min (length c) (space (grow r)) <? length c).
  - specialize (IH r1 ((skipn (Nat.min (length c) (space (grow r))) c, e) :: rest)).
    destruct (runE f r1 _) as [os r2]. cbn [map fst snd] in IH |- *.
    unfold bytes, rerr in *. rewrite IH. reflexivity.
  - specialize (IH r1 rest). destruct (runE f r1 rest) as [os r2].
    cbn [map fst snd] in IH |- *. unfold bytes, rerr in *. rewrite IH. reflexivity.
Qed.

Theorem bytes_with_error_kept stream script sz os r :
  concat (map fst script) = stream -> 1 <= sz -> run_allE sz script = (os, r) ->
  emitted (map fst os) ++ finish r = frame stream /\ bad r = false.
Proof.
  intros Hcat Hsz H. unfold run_allE in H.
  pose proof (runE_erase (run_fuel (map fst script)) (new_lr sz) script) as He.
  assert (He2 : run_all sz (map fst script) = (map fst os, r)).
  { unfold run_all. etransitivity; [exact He|]. clear He. f_equal.
    - f_equal. exact (f_equal fst H).
    - exact (f_equal snd H). }
  exact (chunking_independent_any_reads _ _ _ _ _ Hcat Hsz He2).
Qed.

(* every error the reader returned is handed to the caller, once, in order,
   and none is invented *)
Lemma runE_errors fuel : forall r s os r',
  inv r -> run_fuel (map fst s) <= fuel -> runE fuel r s = (os, r') ->
  filter nonnil (map snd os) = filter nonnil (map snd s).
Proof.
  induction fuel as [|f IH]; intros r s os r' Hinv Hf H.
  - destruct s as [|[c e] rest]; [|cbn [map fst] in Hf; rewrite run_fuel_cons in Hf; lia].
    cbn [runE] in H. injection H as <- <-. reflexivity.
  - cbn [runE] in H. destruct s as [|[c e] rest].
    + injection H as <- <-. reflexivity.
    + set (sp := space (grow r)) in *. set (n := Nat.min (length c) sp) in *.
      destruct (read_and_send r (firstn n c)) as [ls r1] eqn:Er.
      destruct Hinv as (Hwf & Hno & Hcap & Hsz).
      destruct (grow_cap r Hcap Hsz) as (_ & Hsp). fold sp in Hsp.
      assert (Hfit : length (firstn n c) <= space (grow r)).
      { rewrite firstn_length. fold sp. lia. }
      destruct (read_and_send_refines _ _ _ _ (conj Hwf (conj Hno (conj Hcap Hsz))) Hfit Er)
        as (_ & Hinv1 & _).
      cbn [map fst] in Hf. rewrite run_fuel_cons in Hf.
      destruct (Nat.ltb_spec n (length c)) as [Hlt|Hge].
      * destruct (runE f r1 ((skipn n c, e) :: rest)) as [os1 r2] eqn:Erun.
        injection H as <- <-.
        assert (Hf' : run_fuel (map fst ((skipn n c, e) :: rest)) <= f).
        { cbn [map fst]. rewrite run_fuel_cons, skipn_length. unfold n in *. clear - Hf Hsp Hlt. clearbody sp. unfold bytes in *. lia. }
        pose proof (IH _ _ _ _ Hinv1 Hf' Erun) as HI.
        cbn [map snd filter] in *. cbn [nonnil N.eqb negb]. exact HI.
      * destruct (runE f r1 rest) as [os1 r2] eqn:Erun.
        injection H as <- <-.
        assert (Hf' : run_fuel (map fst rest) <= f) by (clear - Hf; lia).
        pose proof (IH _ _ _ _ Hinv1 Hf' Erun) as HI.
        cbn [map snd filter]. rewrite HI. reflexivity.
Qed.

Theorem errors_handed_back sz script os r :
  1 <= sz -> run_allE sz script = (os, r) ->
  filter nonnil (map snd os) = filter nonnil (map snd script).
Proof.
  intros Hsz H. exact (runE_errors _ _ _ _ _ (inv_new sz Hsz) (le_n _) H).
Qed.

(* ------------------------------------------------------------------ *)
(* a reader that is used again after Finish (truncation of a tailed file):
   every generation is framed on its own, nothing of an earlier generation is
   delivered again or glued to later data *)
Lemma inv_finish_st r : inv r -> inv (finish_st r) /\ pending (finish_st r) = [].
Proof.
  intros ((Ho & Hb & _) & _ & _ & Hsz). unfold finish_st, inv, wf, pending. cbn.
  repeat split; try lia; auto. intros [].
Qed.

Lemma run_gens_spec gens : forall r res r',
  inv r -> pending r = [] -> run_gens r gens = (res, r') ->
  map gen_lines res = map (fun g => frame (concat g)) gens /\ inv r' /\ pending r' = [].
Proof.
  induction gens as [|g rest IH]; intros r res r' Hinv Hp H; cbn [run_gens] in H.
  - injection H as <- <-. auto.
  - destruct (run (run_fuel g) r g) as [os r1] eqn:Er.
    destruct (run_gens (finish_st r1) rest) as [more r2] eqn:Eg. injection H as <- <-.
    destruct (run_spec _ _ _ _ _ Hinv (le_n _) Er) as (Hsplit & Hinv1).
    destruct (inv_finish_st r1 Hinv1) as (Hinv2 & Hp2).
    destruct (IH _ _ _ Hinv2 Hp2 Eg) as (Hm & Hi & Hq).
    split; [|auto]. cbn [map]. f_equal; [|exact Hm].
    unfold gen_lines, frame, finish. cbn [fst snd]. rewrite Hp in Hsplit. rewrite Hsplit. reflexivity.
Qed.

Theorem generations_framed_separately sz gens res r :
  1 <= sz -> run_gens (new_lr sz) gens = (res, r) ->
  map gen_lines res = map (fun g => frame (concat g)) gens /\ bad r = false.
Proof.
  intros Hsz H. destruct (run_gens_spec _ _ _ _ (inv_new sz Hsz) eq_refl H) as (Hm & Hi & _).
  split; [exact Hm|apply Hi].
Qed.

(* ------------------------------------------------------------------ *)
(* every Read is offered exactly [size] bytes: the free room never exceeds
   size, and the growth test restores it to size whenever it is less *)
Definition tight (r : lr) : Prop := cap r - length (buf r) <= size r.

Lemma space_grow_exact r : length (buf r) <= cap r -> tight r -> space (grow r) = size r.
Proof.
  unfold tight, space, grow. intros Hc Ht.
  destruct (Nat.ltb_spec (cap r - length (buf r)) (size r)); cbn [cap buf set_cap]; lia.
Qed.

Lemma read_and_send_tight r chunk ls r' :
  inv r -> tight r -> length chunk <= space (grow r) ->
  read_and_send r chunk = (ls, r') -> tight r'.
Proof.
  intros ((Ho & Hb & Hprev) & Hno & Hcap & Hsz) Ht Hfit H.
  pose proof (space_grow_exact r Hcap Ht) as Hsp. rewrite Hsp in Hfit.
  destruct (grow_fields r) as (Gb & Go & Gs & Gbad).
  assert (Gc : cap (grow r) - length (buf r) = size r) by (unfold space in Hsp; rewrite Gb in Hsp; exact Hsp).
  unfold read_and_send in H.
  set (r2 := set_buf (grow r) (buf (grow r) ++ chunk)) in *.
  assert (Hb2 : buf r2 = buf r ++ chunk) by (unfold r2; cbn [buf set_buf]; rewrite Gb; reflexivity).
  assert (Hc2 : cap r2 = cap (grow r)) by reflexivity.
  assert (Hs2 : size r2 = size r) by (unfold r2; cbn [size set_buf]; exact Gs).
  assert (Ho2 : off r2 = off r) by (unfold r2; cbn [off set_buf]; exact Go).
  assert (Hwf2 : wf r2).
  { unfold wf. rewrite Hb2, Ho2. unfold r2; cbn [bad set_buf]. rewrite Gbad.
    repeat split; [rewrite app_length; lia|exact Hb|].
    destruct Hprev as [Hz|Hp]; [left; exact Hz|].
    destruct (Nat.eq_dec (off r) 0) as [Hz|Hnz]; [left; exact Hz|].
    right. rewrite app_nth1 by lia. exact Hp. }
  destruct (0 <? length chunk) eqn:Epos.
  - destruct (send_loop (S (length (buf r2))) r2) as [ls3 r3] eqn:El.
    injection H as <- <-.
    assert (Hfuel : length (pending r2) < S (length (buf r2))).
    { unfold pending. rewrite skipn_length. lia. }
    destruct (send_loop_spec _ _ _ _ Hwf2 Hfuel El) as (_ & (Ho3 & _ & _) & _ & Hb3 & Hc3 & Hs3).
    unfold reslice. rewrite slice_to_end by exact Ho3. unfold tight. cbn [cap buf size].
    rewrite skipn_length, Hb3, Hc3, Hs3, Hb2, Hc2, Hs2, app_length. lia.
  - injection H as <- <-. unfold tight. rewrite Hb2, Hc2, Hs2, app_length. lia.
Qed.

Lemma tight_new sz : tight (new_lr sz).
Proof. unfold tight, new_lr; cbn. lia. Qed.

(* datagram reads: what is framed is every datagram cut to the reader's size *)
Lemma run_dg_spec dgs : forall r os r',
  inv r -> tight r -> run_dg r dgs = (os, r') ->
  split (pending r) (concat (map (firstn (size r)) dgs)) = (emitted os, pending r') /\
  inv r' /\ Forall (fun o => o_space o = size r) os.
Proof.
  induction dgs as [|c rest IH]; intros r os r' Hinv Ht H; cbn [run_dg] in H.
  - injection H as <- <-. cbn. auto.
  - pose proof Hinv as (Hwf & Hno & Hcap & Hsz).
    pose proof (space_grow_exact r Hcap Ht) as Hsp. rewrite Hsp in H.
    destruct (read_and_send r (firstn (Nat.min (length c) (size r)) c)) as [ls r1] eqn:Er.
    destruct (run_dg r1 rest) as [os1 r2] eqn:Eg. injection H as <- <-.
    assert (Hfit : length (firstn (Nat.min (length c) (size r)) c) <= space (grow r)).
    { rewrite firstn_length, Hsp. lia. }
    destruct (read_and_send_refines _ _ _ _ Hinv Hfit Er) as (Hsplit & Hinv1 & Hs1).
    pose proof (read_and_send_tight _ _ _ _ Hinv Ht Hfit Er) as Ht1.
    destruct (IH _ _ _ Hinv1 Ht1 Eg) as (Hsplit1 & Hinv2 & Hall).
    assert (Hcut : firstn (Nat.min (length c) (size r)) c = firstn (size r) c).
    { destruct (Nat.le_ge_cases (length c) (size r)) as [Hle|Hge].
      - rewrite Nat.min_l by exact Hle. rewrite !firstn_all2 by lia. reflexivity.
      - rewrite Nat.min_r by exact Hge. reflexivity. }
    split; [|split; [exact Hinv2|]].
    + cbn [map concat]. rewrite split_app, <- Hcut, Hsplit. rewrite Hs1 in Hsplit1. rewrite Hsplit1.
      reflexivity.
    + constructor; [reflexivity|]. rewrite Hs1 in Hall. exact Hall.
Qed.

Theorem deliver_dg_cut sz dgs : 1 <= sz ->
  deliver_dg sz dgs = frame (concat (map (firstn sz) dgs)).
Proof.
  intros Hsz. unfold deliver_dg. destruct (run_dg (new_lr sz) dgs) as [os r] eqn:E.
  destruct (run_dg_spec _ _ _ _ (inv_new sz Hsz) (tight_new sz) E) as (Hs & _ & _).
  change (pending (new_lr sz)) with (@nil byte) in Hs. change (size (new_lr sz)) with sz in Hs.
  unfold frame, finish. rewrite Hs. reflexivity.
Qed.

(* datagrams that fit the read buffer are delivered whole *)
Corollary deliver_dg_fits sz dgs : 1 <= sz -> Forall (fun d => length d <= sz) dgs ->
  deliver_dg sz dgs = frame (concat dgs).
Proof.
  intros Hsz Hall. rewrite deliver_dg_cut by exact Hsz. f_equal. f_equal.
  induction Hall as [|d l Hd _ IH]; cbn [map]; [reflexivity|].
  rewrite firstn_all2 by exact Hd. rewrite IH. reflexivity.
Qed.

(* every datagram read is offered exactly the configured size *)
Theorem dg_reads_offered_size sz dgs : 1 <= sz ->
  Forall (fun o => o_space o = sz) (fst (run_dg (new_lr sz) dgs)).
Proof.
  intros Hsz. destruct (run_dg (new_lr sz) dgs) as [os r] eqn:E.
  exact (proj2 (proj2 (run_dg_spec _ _ _ _ (inv_new sz Hsz) (tight_new sz) E))).
Qed.
