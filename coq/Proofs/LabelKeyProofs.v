From V Require Import Metrics.LabelKey.
Local Open Scope N_scope.

Lemma dec_esc : forall l cur rest,
  dec cur (esc l ++ DASH :: rest) = (cur ++ l) :: dec [] rest.
Proof.
  induction l as [|c l IH]; intros cur rest; cbn [esc app].
  - cbn [dec]. change (N.eqb DASH BSL) with false. cbn. rewrite app_nil_r. reflexivity.
  - destruct (N.eqb c DASH) eqn:Hd.
    + apply N.eqb_eq in Hd; subst c. cbn [app dec]. change (N.eqb BSL BSL) with true. cbn iota.
      rewrite IH. rewrite <- app_assoc. reflexivity.
    + destruct (N.eqb c BSL) eqn:Hb.
      * apply N.eqb_eq in Hb; subst c. cbn [app dec]. change (N.eqb BSL BSL) with true. cbn iota.
        rewrite IH. rewrite <- app_assoc. reflexivity.
      * cbn [app dec]. rewrite Hb, Hd. rewrite IH. rewrite <- app_assoc. reflexivity.
Qed.

Lemma decode_encode : forall ls, decode (encode ls) = ls.
Proof.
  unfold decode. induction ls as [|l ls IH]; [reflexivity|].
  unfold encode, encode_with in *. cbn [map concat]. rewrite <- app_assoc. cbn [app].
  rewrite dec_esc. cbn [app]. rewrite IH. reflexivity.
Qed.

Lemma encode_injective : forall a b, encode a = encode b -> a = b.
Proof. intros a b H. rewrite <- (decode_encode a), <- (decode_encode b), H. reflexivity. Qed.

Lemma encode_old_collides :
  exists a b, length a = length b /\ a <> b /\ encode_old a = encode_old b.
Proof.
  exists [[97; BSL]; [98; DASH; 99]], [[97; DASH; 98; BSL]; [99]].
  split; [reflexivity|]. split; [discriminate|]. vm_compute. reflexivity.
Qed.
