(* C26: after LoadAllPrograms the running set is determined by the listing, the
   outcome of each load and the previous running set, as the property says. *)
From V Require Import Metrics.StoreAdd Run.Loader Run.DirScan Proofs.StoreAddProofs Proofs.LoaderIsolation.
Local Open Scope N_scope.

Definition src_of (st : state) (p : bytes) : option N :=
  match ps_handle (getp p st) with Some hd => Some (h_src hd) | None => None end.

Definition progs_nodup (st : state) : Prop := NoDup (map fst (st_progs st)).

Definition ok (r : load_result) : bool :=
  match r with LLoaded | LSame => true | LCompileErr | LRefused => false end.

Fixpoint log_find (lg : scan_log) (p : bytes) : option (N * load_result) :=
  match lg with
  | [] => None
  | (n, src, r) :: rest => if bytes_eqb p n then Some (src, r) else log_find rest p
  end.

Section Scan.
Variable c1 c2 omit : bool.
Variable compile : bytes -> N -> option (list decl).
Variable vmstep : bytes -> N -> N -> list effect.
Notation load_r := (load_r c1 c2 omit compile).
Notation scan_loads := (scan_loads c1 c2 omit compile).
Notation scan_r := (scan_r c1 c2 omit compile).
Notation scan := (scan c1 c2 omit compile).

Lemma src_of_bupdate_same p x st idx n :
  src_of (mkst idx (bupdate p x (st_progs st)) n) p =
  match ps_handle x with Some hd => Some (h_src hd) | None => None end.
Proof. unfold src_of. rewrite getp_bupdate_same. reflexivity. Qed.

Lemma src_of_bupdate_other p q x st idx n :
  p <> q -> src_of (mkst idx (bupdate q x (st_progs st)) n) p = src_of st p.
Proof. intros N. unfold src_of. rewrite getp_bupdate_other by exact N. reflexivity. Qed.

(* one load: the handle of n becomes src exactly when the load succeeds (or the
   text is the one already running); nobody else's handle moves *)
Lemma load_r_handles st n src st' r :
  load_r st n src = (st', r) ->
  src_of st' n = (if ok r then Some src else src_of st n) /\
  (forall p, p <> n -> src_of st' p = src_of st p) /\
  (progs_nodup st -> progs_nodup st') /\
  (r = LSame <-> src_of st n = Some src) /\
  (r = LCompileErr <-> src_of st n <> Some src /\ compile n src = None).
Proof.
  unfold Loader.load_r.
  destruct (match ps_handle (getp n st) with Some hd => N.eqb (h_src hd) src | None => false end) eqn:SM.
  { intros X. injection X as <- <-. cbn [ok].
    assert (S : src_of st n = Some src).
    { unfold src_of. destruct (ps_handle (getp n st)); [|discriminate]. apply N.eqb_eq in SM. congruence. }
    split; [exact S|]. split; [reflexivity|]. split; [auto|]. split; [tauto|].
    split; [discriminate|]. intros [A _]. contradiction. }
  assert (NS : src_of st n <> Some src).
  { unfold src_of. destruct (ps_handle (getp n st)); [|discriminate].
    apply N.eqb_neq in SM. congruence. }
  assert (OTH : forall idx x, forall p, p <> n ->
            src_of (mkst idx (bupdate n x (st_progs st)) (st_lines st)) p = src_of st p).
  { intros idx x p N. apply src_of_bupdate_other. exact N. }
  assert (NDP : forall idx x, progs_nodup st ->
            progs_nodup (mkst idx (bupdate n x (st_progs st)) (st_lines st))).
  { intros idx x ND. unfold progs_nodup. cbn [st_progs]. apply bupdate_nodup. exact ND. }
  destruct (compile n src) as [ds|] eqn:C.
  - destruct (alloc_objs (ps_heap (getp n st)) ds) as [h1 objs0].
    destruct (register c1 (st_index st) h1 n _) as [[idx h2] [|]]; intros X; injection X as <- <-; cbn [ok].
    + rewrite src_of_bupdate_same. cbn [ps_handle h_src].
      split; [reflexivity|]. split; [apply OTH|]. split; [apply NDP|].
      split; [split; [discriminate|intros A; contradiction]|].
      split; [discriminate|intros [_ A]; discriminate].
    + rewrite src_of_bupdate_same. cbn [ps_handle].
      split; [reflexivity|]. split; [apply OTH|]. split; [apply NDP|].
      split; [split; [discriminate|intros A; contradiction]|].
      split; [discriminate|intros [_ A]; discriminate].
  - intros X. injection X as <- <-. cbn [ok]. unfold setp. rewrite src_of_bupdate_same.
    unfold with_errs. cbn [ps_handle].
    split; [reflexivity|]. split; [apply OTH|]. split; [apply NDP|].
    split; [split; [discriminate|intros A; contradiction]|].
    split; [auto|reflexivity].
Qed.

(* the loads of one scan, for a listing with distinct names *)
Lemma scan_loads_spec : forall L st st' lg,
  NoDup (map fst L) -> scan_loads st L = (st', lg) ->
  (progs_nodup st -> progs_nodup st') /\
  forall p,
    src_of st' p = match log_find lg p with
                   | Some (src, r) => if ok r then Some src else src_of st p
                   | None => src_of st p
                   end /\
    (log_find lg p = None <-> ~ (eligible p = true /\ exists src, In (p, File src) L)) /\
    (forall src r, log_find lg p = Some (src, r) -> In (p, File src) L).
Proof.
  induction L as [|[n e] L IH]; intros st st' lg ND E; cbn [DirScan.scan_loads] in E.
  - injection E as <- <-. split; [auto|]. intros p. cbn [log_find]. split; [reflexivity|].
    split; [|discriminate]. split; [intros _ [_ [src []]]|reflexivity].
  - cbn [map fst] in ND. inversion ND as [|? ? NI ND']; subst.
    assert (SKIP : scan_loads st L = (st', lg) ->
              (forall src, e = File src -> eligible n = false) ->
              (progs_nodup st -> progs_nodup st') /\
              forall p,
                src_of st' p = match log_find lg p with
                   | Some (src, r) => if ok r then Some src else src_of st p
                   | None => src_of st p end /\
                (log_find lg p = None <-> ~ (eligible p = true /\ exists src, In (p, File src) ((n, e) :: L))) /\
                (forall src r, log_find lg p = Some (src, r) -> In (p, File src) ((n, e) :: L))).
    { intros E' NE. destruct (IH _ _ _ ND' E') as (PN & S). split; [exact PN|].
      intros p. destruct (S p) as (S1 & S2 & S3). split; [exact S1|]. split.
      - rewrite S2. split.
        + intros A [El [src [I|I]]]; [|apply A; eauto].
          injection I as -> ->. rewrite (NE src eq_refl) in El. discriminate.
        + intros A [El [src I]]. apply A. split; [exact El|]. exists src. right. exact I.
      - intros src r F. right. exact (S3 src r F). }
    destruct e as [src|]; [|apply SKIP; [exact E|discriminate]].
    destruct (eligible n) eqn:EL; [|apply SKIP; [exact E|intros; reflexivity]].
    destruct (load_r st n src) as [st1 res] eqn:LR.
    destruct (scan_loads st1 L) as [st2 lg2] eqn:SL. injection E as <- <-.
    destruct (load_r_handles st n src st1 res LR) as (H1 & H2 & H3 & _).
    destruct (IH _ _ _ ND' SL) as (PN & S). split; [auto|].
    intros p. destruct (S p) as (S1 & S2 & S3). cbn [log_find].
    destruct (bytes_eqb p n) eqn:EP.
    + apply bytes_eqb_spec in EP. subst p.
      assert (NF : log_find lg2 n = None).
      { apply S2. intros [_ [s I]]. apply NI. change n with (fst (n, File s)). apply in_map. exact I. }
      rewrite NF in S1. split; [rewrite S1; exact H1|].
      split; [split; [discriminate|]|].
      * intros A. exfalso. apply A. split; [exact EL|]. exists src. left. reflexivity.
      * intros s r X. injection X as <- <-. left. reflexivity.
    + apply bytes_eqb_false in EP. rewrite (H2 p EP) in S1. split; [exact S1|]. split.
      * rewrite S2. split.
        -- intros A [El [s [I|I]]]; [injection I as <- _; contradiction|apply A; eauto].
        -- intros A [El [s I]]. apply A. split; [exact El|]. exists s. right. exact I.
      * intros s r F. right. exact (S3 s r F).
Qed.

(* the unloads of one scan *)
Lemma src_of_unload st q p :
  src_of (unload st q) p = if bytes_eqb p q then None else src_of st p.
Proof.
  unfold unload. destruct (ps_handle (getp q st)) eqn:H.
  - unfold setp. destruct (bytes_eqb p q) eqn:E.
    + apply bytes_eqb_spec in E. subst. rewrite src_of_bupdate_same. reflexivity.
    + apply bytes_eqb_false in E. apply src_of_bupdate_other. exact E.
  - destruct (bytes_eqb p q) eqn:E; [|reflexivity].
    apply bytes_eqb_spec in E. subst. unfold src_of. rewrite H. reflexivity.
Qed.

Lemma unload_nodup st q : progs_nodup st -> progs_nodup (unload st q).
Proof.
  unfold unload, progs_nodup. destruct (ps_handle (getp q st)); [|auto].
  unfold setp. cbn [st_progs]. apply bupdate_nodup.
Qed.

Lemma src_of_unloads : forall ms st p,
  src_of (fold_left unload ms st) p = if existsb (bytes_eqb p) ms then None else src_of st p.
Proof.
  induction ms as [|m ms IH]; intros st p; cbn [fold_left existsb]; [reflexivity|].
  rewrite IH, src_of_unload. destruct (bytes_eqb p m); cbn [orb]; [|reflexivity].
  destruct (existsb (bytes_eqb p) ms); reflexivity.
Qed.

Lemma unloads_nodup : forall ms st, progs_nodup st -> progs_nodup (fold_left unload ms st).
Proof. induction ms as [|m ms IH]; intros st ND; cbn [fold_left]; [exact ND|]. apply IH, unload_nodup, ND. Qed.

Lemma in_handle_names st p : progs_nodup st -> (In p (handle_names st) <-> src_of st p <> None).
Proof.
  intros ND. unfold handle_names, src_of, getp. rewrite in_map_iff. split.
  - intros ([q x] & E & I). cbn [fst] in E. subst q. apply filter_In in I. destruct I as [I H]. cbn [snd] in H.
    rewrite (In_blookup _ _ _ ND I). destruct (ps_handle x); [discriminate|discriminate].
  - intros H. destruct (blookup p (st_progs st)) as [x|] eqn:B.
    + exists (p, x). split; [reflexivity|]. apply filter_In. split; [exact (blookup_In _ _ _ B)|].
      cbn [snd]. destruct (ps_handle x); [reflexivity|contradiction].
    + cbn in H. contradiction.
Qed.

(* what a listing says about a name *)
Definition entry_of (L : listing) (p : bytes) : option dirent := blookup p L.

Lemma is_nondir_spec L p : NoDup (map fst L) ->
  is_nondir L p = match entry_of L p with Some (File _) => true | _ => false end.
Proof.
  intros ND. unfold entry_of. destruct (blookup p L) as [e|] eqn:B.
  - pose proof (blookup_In _ _ _ B) as I. destruct e as [src|].
    + unfold is_nondir. apply existsb_exists. exists (p, File src). split; [exact I|].
      cbn [fst snd]. rewrite bytes_eqb_refl. reflexivity.
    + destruct (is_nondir L p) eqn:X; [|reflexivity]. unfold is_nondir in X. apply existsb_exists in X.
      destruct X as ([q e] & Iq & C). cbn [fst snd] in C. apply andb_true_iff in C. destruct C as [C1 C2].
      apply bytes_eqb_spec in C1. subst q. rewrite (In_blookup _ _ _ ND Iq) in B. injection B as ->. discriminate.
  - destruct (is_nondir L p) eqn:X; [|reflexivity]. unfold is_nondir in X. apply existsb_exists in X.
    destruct X as ([q e] & Iq & C). cbn [fst snd] in C. apply andb_true_iff in C. destruct C as [C1 _].
    apply bytes_eqb_spec in C1. subst q. rewrite (In_blookup _ _ _ ND Iq) in B. discriminate.
Qed.

(* the running source of p after a scan, from the listing, the outcome of the
   load of p (if there was one) and the source running before *)
Definition scan_spec (L : listing) (lg : scan_log) (before : option N) (p : bytes) : option N :=
  match entry_of L p with
  | Some (File src) =>
      if eligible p then
        match log_find lg p with
        | Some (_, r) => if ok r then Some src else before
        | None => before
        end
      else before
  | Some Dir | None => None
  end.

Theorem scan_r_spec st L st' lg :
  progs_nodup st -> NoDup (map fst L) -> scan_r st L = (st', lg) ->
  progs_nodup st' /\
  forall p, src_of st' p = scan_spec L lg (src_of st p) p.
Proof.
  intros PN ND E. unfold DirScan.scan_r in E.
  destruct (scan_loads st L) as [st1 lg1] eqn:SL. injection E as <- <-.
  destruct (scan_loads_spec L st st1 lg1 ND SL) as (PN1 & S).
  split; [apply unloads_nodup; auto|].
  intros p. rewrite src_of_unloads. destruct (S p) as (S1 & S2 & S3).
  unfold scan_spec.
  assert (MK : existsb (bytes_eqb p) (filter (fun q => negb (is_nondir L q)) (handle_names st)) = true <->
               (src_of st p <> None /\ is_nondir L p = false)).
  { rewrite existsb_exists. split.
    - intros (q & I & Eq). apply bytes_eqb_spec in Eq. subst q. apply filter_In in I. destruct I as [I F].
      split; [apply (in_handle_names st p PN); exact I|apply negb_true_iff; exact F].
    - intros [A B]. exists p. split; [|apply bytes_eqb_refl]. apply filter_In.
      split; [apply (in_handle_names st p PN); exact A|rewrite B; reflexivity]. }
  rewrite (is_nondir_spec L p ND) in MK.
  destruct (entry_of L p) as [[src|]|] eqn:EN.
  - (* a regular file: never unloaded *)
    rewrite (not_true_is_false _ (fun X => match proj1 MK X with conj _ B => Bool.diff_true_false B end)).
    rewrite S1. destruct (eligible p) eqn:EL.
    + destruct (log_find lg1 p) as [[s r]|] eqn:F; [|reflexivity].
      pose proof (S3 s r eq_refl) as I. unfold entry_of in EN.
      rewrite (In_blookup _ _ _ ND I) in EN. injection EN as ->. reflexivity.
    + assert (F : log_find lg1 p = None) by (apply S2; intros [A _]; congruence).
      rewrite F. reflexivity.
  - (* a directory: not loaded; unloaded if it was running *)
    assert (F : log_find lg1 p = None).
    { apply S2. intros [_ [s I]]. unfold entry_of in EN. rewrite (In_blookup _ _ _ ND I) in EN. discriminate. }
    rewrite F in S1. destruct (existsb _ _) eqn:X; [reflexivity|]. rewrite S1.
    destruct (src_of st p) eqn:SP; [|reflexivity].
    exfalso. assert (T : false = true) by (apply MK; split; [discriminate|reflexivity]). discriminate.
  - assert (F : log_find lg1 p = None).
    { apply S2. intros [_ [s I]]. unfold entry_of in EN. rewrite (In_blookup _ _ _ ND I) in EN. discriminate. }
    rewrite F in S1. destruct (existsb _ _) eqn:X; [reflexivity|]. rewrite S1.
    destruct (src_of st p) eqn:SP; [|reflexivity].
    exfalso. assert (T : false = true) by (apply MK; split; [discriminate|reflexivity]). discriminate.
Qed.
End Scan.

(* ================================================================== *)
Section History.
Variable c1 c2 omit : bool.
Variable compile : bytes -> N -> option (list decl).
Variable vmstep : bytes -> N -> N -> list effect.
Notation scan_r := (scan_r c1 c2 omit compile).
Notation drun := (drun c1 c2 omit compile vmstep).

(* The property's own account of the running set: after a scan, p runs iff it
   is a regular file with an eligible name; it runs the listed text if the load
   succeeded (LLoaded) or the text was already running (LSame), and keeps what
   it ran before the scan if the load failed; everything else is not running. *)
Definition expect_step (L : listing) (lg : scan_log) (e : bytes -> option N) (p : bytes) : option N :=
  match entry_of L p with
  | Some (File src) =>
      if eligible p then
        match log_find lg p with
        | Some (_, r) => if ok r then Some src else e p
        | None => e p
        end
      else None
  | Some Dir | None => None
  end.

Fixpoint ghost (st : state) (e : bytes -> option N) (ops : list dop) : bytes -> option N :=
  match ops with
  | [] => e
  | DScan L :: r => let (st', lg) := scan_r st L in ghost st' (expect_step L lg e) r
  | DLine l now :: r => ghost (line vmstep st l now) e r
  end.

Fixpoint listings_ok (ops : list dop) : Prop :=
  match ops with
  | [] => True
  | DScan L :: r => NoDup (map fst L) /\ listings_ok r
  | DLine _ _ :: r => listings_ok r
  end.

Lemma src_of_line st l now p : src_of (line vmstep st l now) p = src_of st p.
Proof.
  unfold src_of. rewrite getp_line. unfold line_prog.
  destruct (ps_handle (getp p st)) eqn:H; [|rewrite H; reflexivity].
  destruct (exec_effects _ _ _ _). reflexivity.
Qed.

Lemma line_nodup st l now : progs_nodup st -> progs_nodup (line vmstep st l now).
Proof. unfold progs_nodup, line. cbn [st_progs]. rewrite map_map. cbn [fst]. auto. Qed.

(* a program that is not running receives no lines *)
Lemma not_running_no_lines st l now p :
  src_of st p = None -> getp p (line vmstep st l now) = getp p st.
Proof.
  unfold src_of. rewrite getp_line. unfold line_prog. destruct (ps_handle (getp p st)); [discriminate|reflexivity].
Qed.

Theorem running_set : forall ops st e,
  progs_nodup st -> listings_ok ops ->
  (forall p, src_of st p = e p) -> (forall p, e p <> None -> eligible p = true) ->
  forall p, src_of (drun st ops) p = ghost st e ops p.
Proof.
  unfold DirScan.drun.
  induction ops as [|o r IH]; intros st e PN LO SE EL p; cbn [fold_left ghost]; [apply SE|].
  destruct o as [L|l now]; cbn [DirScan.dstep].
  - destruct LO as [ND LO]. unfold DirScan.scan.
    destruct (scan_r st L) as [st' lg] eqn:SR. cbn [fst].
    destruct (scan_r_spec c1 c2 omit compile vmstep st L st' lg PN ND SR) as (PN' & SP).
    apply IH; [exact PN'|exact LO| |].
    + intros q. rewrite SP. unfold scan_spec, expect_step. rewrite SE.
      destruct (entry_of L q) as [[src|]|]; [|reflexivity|reflexivity].
      destruct (eligible q) eqn:E; [reflexivity|].
      destruct (e q) eqn:Q; [|reflexivity]. rewrite (EL q) in E; [discriminate|congruence].
    + intros q. unfold expect_step. destruct (entry_of L q) as [[src|]|]; try congruence.
      destruct (eligible q); congruence.
  - apply IH; [apply line_nodup; exact PN|exact LO| |exact EL].
    intros q. rewrite src_of_line. apply SE.
Qed.
End History.
