(* The GC loops of store.go, run on the concrete metric, compute the abstract
   gc (limit phase, then filter) in every state satisfying the refinement
   invariant. *)
From V Require Import Metrics.MetricMap Metrics.Gc Proofs.MetricMapProofs Proofs.GcProofs.
Local Open Scope Z_scope.

Definition WfAr (m : cmetric) : Prop :=
  Forall (fun lv => length (lv_labels lv) = m_arity m) (m_slice m).

Lemma lv_item_inj a b : lv_item a = lv_item b -> a = b.
Proof. destruct a, b. unfold lv_item. cbn. congruence. Qed.
Lemma map_lv_item_inj s1 s2 : map lv_item s1 = map lv_item s2 -> s1 = s2.
Proof.
  revert s2. induction s1 as [|a r IH]; intros [|b t]; cbn; try discriminate; [reflexivity|].
  intros H. assert (H1 : lv_item a = lv_item b) by congruence.
  assert (H2 : map lv_item r = map lv_item t) by congruence.
  apply lv_item_inj in H1. apply IH in H2. congruence.
Qed.

Lemma keys_items s : keys (map lv_item s) = labs s.
Proof. unfold keys, labs. rewrite map_map. reflexivity. Qed.

Lemma a_del_middle (pre rest : list entry) e :
  NoDup (keys (pre ++ e :: rest)) -> a_del (fst e) (pre ++ e :: rest) = pre ++ rest.
Proof.
  induction pre as [|[k x] r IH]; cbn [app a_del keys map].
  - intros _. destruct e as [k x]. cbn [fst a_del]. rewrite tuple_eqb_refl. reflexivity.
  - intros ND. inversion ND as [|z zs Hz ND']; subst.
    destruct (tuple_eqb (fst e) k) eqn:E.
    + apply tuple_eqb_spec in E. exfalso. apply Hz. cbn [fst]. rewrite <- E.
      unfold keys. rewrite map_app. apply in_or_app. right. left. reflexivity.
    + f_equal. apply IH. exact ND'.
Qed.

Section GcRefine.
Variable enc : tuple -> bytes.
Hypothesis enc_inj : forall a b, enc a = enc b -> a = b.

Lemma wfar_step m o : WfAr m -> WfAr (fst (c_step enc m o)) /\ m_arity (fst (c_step enc m o)) = m_arity m.
Proof.
  intros W.
  assert (G : forall ls t, WfAr (fst (c_get enc m ls t)) /\ m_arity (fst (c_get enc m ls t)) = m_arity m).
  { intros ls t. unfold c_get. destruct (negb (Nat.eqb (length ls) (m_arity m))) eqn:A; [auto|].
    destruct (idx_find (enc ls) (m_idx m)); [auto|]. cbn [fst m_arity]. split; [|reflexivity].
    unfold WfAr. cbn [m_slice m_arity]. apply Forall_app. split; [exact W|].
    constructor; [|constructor]. cbn [lv_labels]. apply negb_false_iff in A. apply Nat.eqb_eq in A. exact A. }
  assert (U : forall m1 p f, WfAr m1 -> WfAr (with_slice m1 (slice_upd p f (m_slice m1)))).
  { intros m1 p f W1. unfold WfAr, with_slice in *. cbn [m_slice m_arity].
    induction (m_slice m1) as [|lv r IH]; [constructor|]. inversion W1; subst. cbn [slice_upd].
    destruct (N.eqb (lv_ptr lv) p); constructor; auto. }
  destruct o as [ls now|ls v t|ls d t|ls|ls e|]; cbn [c_step].
  - specialize (G ls now). destruct (c_get enc m ls now) as [m1 [p|]]; exact G.
  - specialize (G ls t). destruct (c_get enc m ls t) as [m1 [p|]]; cbn [fst] in *; [|exact G].
    destruct G as [G1 G2]. split; [apply U; exact G1|exact G2].
  - specialize (G ls t). destruct (c_get enc m ls t) as [m1 [p|]]; cbn [fst] in *; [|exact G].
    destruct G as [G1 G2]. split; [apply U; exact G1|exact G2].
  - destruct (negb _); [auto|]. destruct (idx_find (enc ls) (m_idx m)) as [p|]; [|auto].
    destruct (slice_has p (m_slice m)); [|auto]. cbn [fst m_arity]. split; [|reflexivity].
    unfold WfAr in *. cbn [m_slice m_arity]. apply Forall_forall. intros lv Hin.
    apply in_slice_del in Hin. revert lv Hin. apply Forall_forall. exact W.
  - destruct (negb _); [auto|]. destruct (idx_find (enc ls) (m_idx m)) as [p|]; [|auto].
    cbn [fst]. split; [apply U; exact W|reflexivity].
  - auto.
Qed.

(* RemoveDatum of a label tuple present in the slice *)
Lemma remove_present m lv :
  Inv enc m -> WfAr m -> In lv (m_slice m) ->
  let m' := fst (c_step enc m (ORemove (lv_labels lv))) in
  map lv_item (m_slice m') = a_del (lv_labels lv) (map lv_item (m_slice m)) /\
  Inv enc m' /\ WfAr m' /\ m_arity m' = m_arity m.
Proof.
  intros I W Hin m'. destruct (c_step enc m (ORemove (lv_labels lv))) as [m1 x] eqn:S.
  destruct (step_refines enc enc_inj _ _ _ _ I S) as [H I1]. subst m'. cbn [fst].
  pose proof (wfar_step m (ORemove (lv_labels lv)) W) as [W1 A1]. rewrite S in W1, A1. cbn [fst] in *.
  split; [|auto]. cbn [a_step] in H.
  assert (A : length (lv_labels lv) = a_arity (abs m)).
  { cbn [abs a_arity]. unfold WfAr in W. rewrite Forall_forall in W. apply W. exact Hin. }
  rewrite A, Nat.eqb_refl in H. cbn [negb] in H. apply (f_equal fst) in H. cbn [fst] in H.
  apply (f_equal a_items) in H. cbn [with_items a_items abs] in H. symmetry. exact H.
Qed.

Lemma c_oldest_from_item b s :
  lv_item (c_oldest_from b s) = oldest_from (lv_item b) (map lv_item s).
Proof.
  revert b. induction s as [|lv r IH]; intros b; cbn [c_oldest_from oldest_from map]; [reflexivity|].
  change (e_time (lv_item lv)) with (lv_time lv). change (e_time (lv_item b)) with (lv_time b).
  destruct (lv_time lv <? lv_time b); apply IH.
Qed.
Lemma c_oldest_from_in b s : In (c_oldest_from b s) (b :: s).
Proof.
  revert b. induction s as [|lv r IH]; intros b; cbn [c_oldest_from]; [left; reflexivity|].
  destruct (lv_time lv <? lv_time b); [specialize (IH lv)|specialize (IH b)]; cbn in *; intuition.
Qed.

Lemma remove_oldest_refines m :
  Inv enc m -> WfAr m ->
  let m' := c_remove_oldest enc m in
  map lv_item (m_slice m') = remove_oldest (map lv_item (m_slice m)) /\
  Inv enc m' /\ WfAr m' /\ m_arity m' = m_arity m.
Proof.
  intros I W. unfold c_remove_oldest. destruct (m_slice m) as [|b r] eqn:E.
  - cbn. rewrite E. auto.
  - pose proof (c_oldest_from_in b r) as Hin. rewrite <- E in Hin.
    destruct (remove_present m _ I W Hin) as [H1 H2]. split; [|exact H2].
    cbn zeta in H1. rewrite H1. rewrite E. cbn [map]. unfold remove_oldest, oldest.
    rewrite <- c_oldest_from_item. reflexivity.
Qed.

Lemma iter_remove_refines n : forall m,
  Inv enc m -> WfAr m ->
  let m' := iter n (c_remove_oldest enc) m in
  map lv_item (m_slice m') = iter n remove_oldest (map lv_item (m_slice m)) /\
  Inv enc m' /\ WfAr m' /\ m_arity m' = m_arity m.
Proof.
  induction n as [|n IH]; intros m I W; cbn [iter]; [auto|].
  destruct (remove_oldest_refines m I W) as [H1 [I1 [W1 A1]]].
  destruct (IH _ I1 W1) as [H2 [I2 [W2 A2]]]. cbn zeta in *. rewrite H2, H1. split; [reflexivity|].
  split; [exact I2|]. split; [exact W2|congruence].
Qed.

Lemma limit_phase_refines limit m :
  Inv enc m -> WfAr m ->
  let m' := c_limit_phase enc limit m in
  map lv_item (m_slice m') = limit_phase limit (map lv_item (m_slice m)) /\
  Inv enc m' /\ WfAr m' /\ m_arity m' = m_arity m.
Proof.
  intros I W. unfold c_limit_phase, limit_phase. rewrite map_length.
  destruct ((Nat.ltb 0 limit) && (Nat.leb limit (length (m_slice m))))%bool; [|auto].
  apply iter_remove_refines; assumption.
Qed.

Lemma sweep_loop_refines now : forall rest fuel m pre,
  Inv enc m -> WfAr m -> m_slice m = pre ++ rest -> (length rest <= fuel)%nat ->
  let m' := c_sweep_loop enc fuel now (length pre) m in
  map lv_item (m_slice m') = map lv_item pre ++ sweep now (map lv_item rest) /\
  Inv enc m' /\ WfAr m' /\ m_arity m' = m_arity m.
Proof.
  induction rest as [|lv rest IH]; intros fuel m pre I W E Hf.
  - rewrite app_nil_r in E. cbn [map sweep filter]. rewrite app_nil_r.
    destruct fuel as [|f]; cbn [c_sweep_loop].
    + rewrite E. auto.
    + rewrite E. rewrite (proj2 (nth_error_None pre (length pre))) by lia. rewrite E. auto.
  - destruct fuel as [|f]; [cbn in Hf; lia|]. cbn [c_sweep_loop].
    assert (N : nth_error (m_slice m) (length pre) = Some lv).
    { rewrite E. rewrite nth_error_app2 by lia. rewrite Nat.sub_diag. reflexivity. }
    rewrite N. cbn [map]. unfold sweep at 1. cbn [filter]. cbn [lv_item snd].
    fold (sweep now (map lv_item rest)).
    destruct (expired now (lv_cell lv)) eqn:X; cbn [negb].
    + assert (Hin : In lv (m_slice m)) by (rewrite E; apply in_or_app; right; left; reflexivity).
      destruct (remove_present m lv I W Hin) as [H1 [I1 [W1 A1]]]. cbn zeta in H1.
      set (m1 := fst (c_step enc m (ORemove (lv_labels lv)))) in *.
      assert (E1 : m_slice m1 = pre ++ rest).
      { apply map_lv_item_inj. rewrite H1, E. rewrite !map_app. cbn [map].
        change (lv_labels lv) with (fst (lv_item lv)). apply a_del_middle.
        rewrite <- map_app with (l' := lv :: rest). rewrite keys_items. rewrite <- E. apply I. }
      destruct (IH f m1 pre I1 W1 E1) as [H2 [I2 [W2 A2]]]; [cbn in Hf; lia|].
      cbn zeta in *. split; [exact H2|]. split; [exact I2|]. split; [exact W2|congruence].
    + assert (E1 : m_slice m = (pre ++ [lv]) ++ rest) by (rewrite <- app_assoc; exact E).
      destruct (IH f m (pre ++ [lv]) I W E1) as [H2 [I2 [W2 A2]]]; [cbn in Hf; lia|].
      rewrite app_length in H2, I2, W2, A2. cbn [length] in *. rewrite Nat.add_1_r in *.
      cbn zeta in *. split; [|auto]. rewrite H2. rewrite map_app. rewrite <- app_assoc. reflexivity.
Qed.

Theorem gc_refines limit now m :
  Inv enc m -> WfAr m ->
  let m' := c_gc enc limit now m in
  map lv_item (m_slice m') = gc limit now (map lv_item (m_slice m)) /\
  Inv enc m' /\ WfAr m' /\ m_arity m' = m_arity m.
Proof.
  intros I W. unfold c_gc, gc.
  destruct (limit_phase_refines limit m I W) as [H1 [I1 [W1 A1]]]. cbn zeta in *.
  set (m1 := c_limit_phase enc limit m) in *. unfold c_sweep.
  destruct (sweep_loop_refines now (m_slice m1) (2 * length (m_slice m1) + 1) m1 [] I1 W1 eq_refl) as [H2 [I2 [W2 A2]]]; [lia|].
  cbn [length app map] in *. cbn zeta in *. rewrite H2, H1. split; [reflexivity|].
  split; [exact I2|]. split; [exact W2|congruence].
Qed.
End GcRefine.
