(* The enumeration protocol: a producer of an accepted shape hands every
   element to the consumer exactly once, in order, and then closes, for every
   consumer schedule; a producer that gives up after a timeout does not. *)
From V Require Import Metrics.LabelKey Metrics.MetricMap Metrics.EmitProto
  Proofs.LabelKeyProofs Proofs.MetricMapProofs Proofs.MetricMapCorollaries.
Local Open Scope N_scope.

Section Complete.
Context {A : Type}.
Variable pauses : list N.

(* a straight-line body with k unconditional sends delivers the element k times *)
Lemma run_body_straight (x : A) b : forall k (s : pst A),
  body_sends b = Some k ->
  exists s', run_body pauses false x b s = (s', BrNext) /\ p_recv s' = p_recv s ++ repeat x k.
Proof.
  induction b as [|st r IH]; intros k s H; cbn [body_sends] in H.
  - injection H as <-. exists s. cbn. rewrite app_nil_r. auto.
  - destruct st; try discriminate; cbn [run_body].
    + apply IH. exact H.
    + destruct (body_sends r) as [k'|] eqn:E; [|discriminate]. cbn in H. injection H as <-.
      destruct (IH k' (deliver pauses x s) eq_refl) as [s' [R P]]. exists s'. split; [exact R|].
      rewrite P. cbn [deliver p_recv repeat]. rewrite <- app_assoc. reflexivity.
Qed.

Lemma run_range_complete b : body_ok b = true -> forall items (s : pst A),
  exists s', run_range pauses false b items s = (s', BrNext) /\ p_recv s' = p_recv s ++ items.
Proof.
  intros Hb. unfold body_ok in Hb. destruct (body_sends b) as [[|[|k]]|] eqn:E; try discriminate.
  induction items as [|x r IH]; intros s; cbn [run_range].
  - exists s. rewrite app_nil_r. auto.
  - destruct (run_body_straight x b 1%nat s E) as [s1 [R P]]. rewrite R.
    destruct (IH s1) as [s2 [R2 P2]]. exists s2. split; [exact R2|].
    rewrite P2, P. cbn [repeat]. rewrite <- app_assoc. reflexivity.
Qed.

Lemma run_top_complete items : forall p ranged closed deferred (s : pst A),
  top_ok ranged closed deferred p = true ->
  run_top pauses p items closed deferred s =
    ((if ranged then p_recv s else p_recv s ++ items), EndClosed).
Proof.
  assert (Fin : forall ranged closed deferred (s : pst A),
            ranged && xorb closed deferred = true ->
            (p_recv s, finish closed deferred) =
            ((if ranged then p_recv s else p_recv s ++ items), EndClosed)).
  { intros ranged closed deferred s H. apply andb_true_iff in H as [-> H].
    destruct closed, deferred; try discriminate; reflexivity. }
  induction p as [|st r IH]; intros ranged closed deferred s H; cbn [top_ok] in H; cbn [run_top].
  - apply Fin. exact H.
  - destruct st.
    + apply IH. exact H.
    + repeat (apply andb_true_iff in H as [H ?]). apply negb_true_iff in H. subst ranged.
      match goal with Hc : negb closed = true |- _ => apply negb_true_iff in Hc; subst closed end.
      destruct (run_range_complete body ltac:(assumption) items s) as [s' [R P]]. rewrite R.
      rewrite (IH true false deferred s') by assumption. rewrite P. reflexivity.
    + repeat (apply andb_true_iff in H as [H ?]). subst ranged.
      match goal with Hc : negb closed = true |- _ => apply negb_true_iff in Hc; subst closed end.
      apply (IH true true deferred s). assumption.
    + repeat (apply andb_true_iff in H as [H ?]).
      match goal with Hd : negb deferred = true |- _ => apply negb_true_iff in Hd; subst deferred end.
      apply (IH ranged closed true s). assumption.
    + apply Fin. exact H.
    + discriminate.
Qed.

(* for EVERY consumer schedule: exactly the elements, in order, then close *)
Theorem emit_complete p (items : list A) :
  emit_ok p = true -> run_emit pauses p items = (items, EndClosed).
Proof.
  intros H. unfold run_emit, emit_ok in *. rewrite (run_top_complete items p false false false _ H).
  reflexivity.
Qed.
End Complete.

Lemma emitter_repo_ok : emit_ok emitter_repo = true.
Proof. reflexivity. Qed.

Lemma c_emit_items_step m :
  snd (c_step encode m OEmit) = RListing (c_emit_items m).
Proof. reflexivity. Qed.

(* the property's clause under the protocol: whatever the consumer's delays,
   it receives every live tuple of a reachable metric exactly once, with its
   current cell, in insertion order (it is the slice order = order of the
   abstract map), and then sees the close *)
Theorem emit_protocol_once p n t m pauses :
  emit_ok p = true -> reachable n t m ->
  exists l, c_emit_protocol p pauses m = (l, EndClosed) /\
            map (fun x => (fst (fst x), (snd (fst x), snd x))) l = a_items (abs m) /\
            NoDup (map (fun x => fst (fst x)) l) /\
            (forall ls q c, In (ls, q, c) l <-> a_find ls (a_items (abs m)) = Some (q, c)).
Proof.
  intros Hp R. exists (c_emit_items m). split; [apply emit_complete; exact Hp|]. split.
  - unfold c_emit_items. rewrite map_map. cbn [abs a_items]. apply map_ext. intros lv. reflexivity.
  - destruct (emit_once n t m R) as [l [E [ND I]]]. rewrite c_emit_items_step in E.
    injection E as <-. split; assumption.
Qed.

(* the giving-up producer: the consumer that stays away longer than d after the
   first element gets a strict prefix - and a normal close *)
Theorem emit_giveup_truncates {A} d (x : A) rest :
  rest <> [] ->
  run_emit [0; d + 1] (emitter_giveup d) (x :: rest) = ([x], EndClosed).
Proof.
  intros Hr. destruct rest as [|y r]; [contradiction|].
  assert (L2 : (d + 1 <=? d) = false) by (apply N.leb_gt; lia).
  unfold run_emit, emitter_giveup. cbn. destruct d as [|d']; cbn; [reflexivity|].
  cbn in L2. rewrite L2. reflexivity.
Qed.

Lemma emitter_giveup_rejected d : emit_ok (emitter_giveup d) = false.
Proof. reflexivity. Qed.
