(* Clause-by-clause consequences of the refinement, instantiated with the
   repaired key encoding. *)
From V Require Import Metrics.LabelKey Metrics.MetricMap Proofs.LabelKeyProofs Proofs.MetricMapProofs.
Local Open Scope N_scope.

Definition reachable (n : nat) (t : vtype) (m : cmetric) : Prop :=
  exists ops xs, c_run encode (c_init n t) ops = (m, xs).

Lemma reachable_inv n t m : reachable n t m -> Inv encode m.
Proof.
  intros [ops [xs H]]. eapply run_refines in H; [apply H|apply encode_injective|apply Inv_init].
Qed.

Lemma refines_from_init n t ops m xs :
  c_run encode (c_init n t) ops = (m, xs) -> a_run (a_init n t) ops = (abs m, xs).
Proof.
  intros H. eapply run_refines in H; [apply H|apply encode_injective|apply Inv_init].
Qed.

Definition op_target (o : op) : option tuple :=
  match o with
  | OGet ls _ | OSet ls _ _ | OInc ls _ _ | ORemove ls | OExpire ls _ => Some ls
  | OEmit => None
  end.

(* abstract frame: an operation on [ls] leaves every other tuple's entry alone *)
Lemma a_find_upd_other ls' ls f l : ls' <> ls -> a_find ls' (a_upd ls f l) = a_find ls' l.
Proof.
  intros Hne. induction l as [|[k [p c]] r IH]; [reflexivity|]. cbn [a_upd a_find].
  destruct (tuple_eqb ls k) eqn:E; cbn [a_find].
  - apply tuple_eqb_spec in E. subst. rewrite tuple_eqb_false by exact Hne. reflexivity.
  - destruct (tuple_eqb ls' k); auto.
Qed.

Lemma a_get_other m ls now ls' :
  ls' <> ls -> a_find ls' (a_items (fst (a_get m ls now))) = a_find ls' (a_items m).
Proof.
  intros Hne. unfold a_get. destruct (negb _); [reflexivity|].
  destruct (a_find ls (a_items m)) as [[p c]|] eqn:F; [reflexivity|]. cbn [fst a_items].
  destruct (a_find ls' (a_items m)) eqn:F'.
  - erewrite a_find_app_some by exact F'. reflexivity.
  - rewrite a_find_app_none by exact F'. cbn [a_find]. rewrite tuple_eqb_false by exact Hne. reflexivity.
Qed.

Lemma a_step_frame m o ls ls' :
  op_target o = Some ls -> ls' <> ls ->
  a_find ls' (a_items (fst (a_step m o))) = a_find ls' (a_items m).
Proof.
  intros T Hne. destruct o as [l now|l v t|l d t|l|l e|]; cbn [op_target] in T; try discriminate;
    injection T as ->; cbn [a_step].
  - pose proof (a_get_other m ls now ls' Hne) as H. destruct (a_get m ls now) as [m' [p|]]; exact H.
  - pose proof (a_get_other m ls t ls' Hne) as H. destruct (a_get m ls t) as [m' [p|]]; cbn [fst] in *;
      [|exact H]. cbn [with_items a_items]. rewrite a_find_upd_other by exact Hne. exact H.
  - pose proof (a_get_other m ls t ls' Hne) as H. destruct (a_get m ls t) as [m' [p|]]; cbn [fst] in *;
      [|exact H]. cbn [with_items a_items]. rewrite a_find_upd_other by exact Hne. exact H.
  - destruct (negb _); [reflexivity|]. cbn [fst with_items a_items]. apply a_find_del_other. exact Hne.
  - destruct (negb _); [reflexivity|]. destruct (a_find ls (a_items m)); [|reflexivity].
    cbn [fst with_items a_items]. apply a_find_upd_other. exact Hne.
Qed.

(* the same statement about the concrete metric, for every reachable state *)
Lemma c_step_frame n t m o ls ls' :
  reachable n t m -> op_target o = Some ls -> ls' <> ls ->
  a_find ls' (a_items (abs (fst (c_step encode m o)))) = a_find ls' (a_items (abs m)).
Proof.
  intros R T Hne. destruct (c_step encode m o) as [m' x] eqn:S.
  destruct (step_refines encode encode_injective _ _ _ _ (reachable_inv _ _ _ R) S) as [H _].
  cbn [fst]. rewrite <- (a_step_frame (abs m) o ls ls' T Hne). rewrite H. reflexivity.
Qed.

(* two lookups return the same datum iff the tuples are equal *)
Lemma get_preserves_find enc m1 b tb m2 r a x :
  c_get enc m1 b tb = (m2, r) ->
  a_find a (map lv_item (m_slice m1)) = Some x -> a_find a (map lv_item (m_slice m2)) = Some x.
Proof.
  unfold c_get. destruct (negb _); [intros H; injection H as <- _; auto|].
  destruct (idx_find (enc b) (m_idx m1)); intros H; injection H as <- _; [auto|].
  intros F. cbn [m_slice]. rewrite map_app. apply a_find_app_some. exact F.
Qed.

Lemma ptr_names_one_tuple a b p c1 c2 s :
  NoDup (ptrs s) ->
  a_find a (map lv_item s) = Some (p, c1) -> a_find b (map lv_item s) = Some (p, c2) -> a = b.
Proof.
  induction s as [|lv r IH]; [discriminate|].
  rewrite map_g_cons. cbn [a_find ptrs map]. intros ND. inversion ND as [|x y Hx ND']; subst.
  destruct (tuple_eqb a (lv_labels lv)) eqn:Ea, (tuple_eqb b (lv_labels lv)) eqn:Eb.
  - apply tuple_eqb_spec in Ea, Eb. congruence.
  - intros H1 H2. injection H1 as E1 _. apply a_find_in in H2 as [H2 _]. rewrite <- E1 in H2. contradiction.
  - intros H1 H2. injection H2 as E2 _. apply a_find_in in H1 as [H1 _]. rewrite <- E2 in H1. contradiction.
  - apply IH. exact ND'.
Qed.

Lemma same_datum_iff_equal n t m a b ta tb m1 m2 p q :
  reachable n t m ->
  c_get encode m a ta = (m1, Some p) -> c_get encode m1 b tb = (m2, Some q) ->
  (p = q <-> a = b).
Proof.
  intros R G1 G2. pose proof (reachable_inv _ _ _ R) as I.
  destruct (get_refines encode encode_injective _ _ _ _ _ I G1) as [_ [I1 F1]].
  destruct (get_refines encode encode_injective _ _ _ _ _ I1 G2) as [A2 [I2 F2]].
  destruct (F1 p eq_refl) as [c1 Fa]. destruct (F2 q eq_refl) as [c2 Fb].
  split.
  - intros <-. apply (get_preserves_find _ _ _ _ _ _ _ _ G2) in Fa.
    eapply ptr_names_one_tuple; [exact (inv_ptrs _ _ I2)|exact Fa|exact Fb].
  - intros <-. unfold c_get in G2. destruct (negb _); [discriminate|].
    rewrite (inv_idx _ _ I1 a), Fa in G2. cbn in G2. congruence.
Qed.

(* collision under the unrepaired encoding: the second lookup returns the
   first tuple's datum *)
Lemma old_encoding_aliases :
  exists a b m1 m2 p q,
    a <> b /\ length a = length b /\
    c_get encode_old (c_init 2 TInt) a 1%Z = (m1, Some p) /\
    c_get encode_old m1 b 2%Z = (m2, Some q) /\ p = q.
Proof.
  exists [[97; BSL]; [98; DASH; 99]], [[97; DASH; 98; BSL]; [99]].
  do 4 eexists. split; [discriminate|]. split; [reflexivity|].
  split; [vm_compute; reflexivity|]. split; [vm_compute; reflexivity|]. reflexivity.
Qed.

(* C09 clauses, stated on the abstract map (they transfer by refinement) *)
Lemma listing_is_items m :
  snd (a_step m OEmit) = RListing (map (fun '(k, (p, c)) => (k, p, c)) (a_items m)).
Proof. reflexivity. Qed.

Lemma emit_once n t m :
  reachable n t m ->
  exists l, snd (c_step encode m OEmit) = RListing l /\
            NoDup (map (fun x => fst (fst x)) l) /\
            (forall ls p c, In (ls, p, c) l <-> a_find ls (a_items (abs m)) = Some (p, c)).
Proof.
  intros R. pose proof (reachable_inv _ _ _ R) as I. eexists. split; [reflexivity|]. split.
  - rewrite map_map. cbn. exact (inv_labs _ _ I).
  - intros ls p c. rewrite abs_items. pose proof (inv_labs _ _ I) as ND. revert ND.
    generalize (m_slice m). induction l as [|lv r IH]; cbn [map In a_find labs].
    + intros _. split; [contradiction|discriminate].
    + intros ND. inversion ND as [|x y Hx ND']; subst. unfold lv_item at 1.
      destruct (tuple_eqb ls (lv_labels lv)) eqn:E.
      * apply tuple_eqb_spec in E. subst. split.
        -- intros [H|H]; [congruence|]. exfalso. apply Hx. apply in_map_iff in H as [lv' [E' H]].
           injection E' as E1 _ _. apply in_map_iff. eauto.
        -- intros H. injection H as <- <-. auto.
      * rewrite <- (IH ND'). split; [|auto]. intros [H|H]; [|exact H].
        injection H as E1 _ _. subst. rewrite tuple_eqb_refl in E. discriminate.
Qed.

Lemma remove_absent_noop n t m ls :
  reachable n t m -> a_find ls (a_items (abs m)) = None ->
  length ls = m_arity m -> c_step encode m (ORemove ls) = (m, ROk).
Proof.
  intros R F A. pose proof (reachable_inv _ _ _ R) as I. cbn [c_step]. rewrite A, Nat.eqb_refl. cbn [negb].
  rewrite (inv_idx _ _ I ls). rewrite abs_items in F. rewrite F. reflexivity.
Qed.

Lemma expire_absent_error n t m ls e :
  reachable n t m -> a_find ls (a_items (abs m)) = None ->
  length ls = m_arity m -> c_step encode m (OExpire ls e) = (m, RErrNoDatum).
Proof.
  intros R F A. pose proof (reachable_inv _ _ _ R) as I. cbn [c_step]. rewrite A, Nat.eqb_refl. cbn [negb].
  rewrite (inv_idx _ _ I ls). rewrite abs_items in F. rewrite F. reflexivity.
Qed.

Lemma wrong_arity_unchanged m o ls :
  op_target o = Some ls -> length ls <> m_arity m ->
  c_step encode m o = (m, RErrArity).
Proof.
  intros T A. apply Nat.eqb_neq in A.
  destruct o as [l now|l v t|l d t|l|l e|]; cbn [op_target] in T; try discriminate;
    injection T as ->; cbn [c_step]; unfold c_get; rewrite A; reflexivity.
Qed.
