(* The JSON tree written for a store decodes back to the same names, programs,
   keys, label sets, values and times. *)
From V Require Import Export.Formats.
Local Open Scope N_scope.

Fixpoint jlookup (k : bytes) (l : list (bytes * json)) : option json :=
  match l with
  | [] => None
  | (k', v) :: r => if bytes_eqb k k' then Some v else jlookup k r
  end.
Definition jstr (j : json) : option bytes := match j with JStr s => Some s | _ => None end.
Definition jnum (j : json) : option bytes := match j with JNum s => Some s | _ => None end.
(* an omitted array field is the empty list *)
Definition jstrs (j : option json) : option (list bytes) :=
  match j with
  | None => Some []
  | Some (JArr l) => all_some (map jstr l)
  | Some _ => None
  end.

(* what a reader of /json learns about one value *)
Inductive vview :=
| WNum (text : bytes) | WStr (s : bytes)
| WHist (buckets : list (bytes * bytes)) (count sum : bytes).

Definition view_val (v : dval) : option vview :=
  match v with
  | VInt z => Some (WNum (fmt_Z z))
  | VFloat f => option_map WNum (f_json f)
  | VStr s => Some (WStr s)
  | VBuckets bs count sum =>
      option_map (WHist (map (fun kv => (fst kv, fmt_N (snd kv))) (buckets_map bs)) (fmt_N count)) (f_json sum)
  end.

Definition has_type (t : vtype) (v : dval) : Prop :=
  match t, v with
  | TInt, VInt _ | TFloat, VFloat _ | TString, VStr _ | TBuckets, VBuckets _ _ _ => True
  | _, _ => False
  end.

Definition decode_type (text : bytes) : option vtype :=
  match text with
  | [48] => Some TInt | [49] => Some TFloat | [50] => Some TString | [51] => Some TBuckets
  | _ => None
  end.

Definition decode_pairs (l : list (bytes * json)) : option (list (bytes * bytes)) :=
  all_some (map (fun kv => option_map (fun n => (fst kv, n)) (jnum (snd kv))) l).

Definition decode_datum (t : vtype) (j : json) : option (vview * bytes) :=
  match j with
  | JObj fs =>
      match t with
      | TInt | TFloat =>
          match jlookup k_Value fs, jlookup k_Time fs with
          | Some (JNum x), Some (JNum tm) => Some (WNum x, tm)
          | _, _ => None
          end
      | TString =>
          match jlookup k_Value fs, jlookup k_Time fs with
          | Some (JStr x), Some (JNum tm) => Some (WStr x, tm)
          | _, _ => None
          end
      | TBuckets =>
          match jlookup k_Buckets fs, jlookup k_Count fs, jlookup k_Sum fs, jlookup k_Time fs with
          | Some (JObj bs), Some (JNum c), Some (JNum s), Some (JNum tm) =>
              match decode_pairs bs with Some p => Some (WHist p c s, tm) | None => None end
          | _, _, _, _ => None
          end
      end
  | _ => None
  end.

Definition decode_lset (t : vtype) (j : json) : option (tuple * vview * bytes) :=
  match j with
  | JObj fs =>
      match jstrs (jlookup k_Labels fs), jlookup k_Value fs with
      | Some labels, Some d =>
          match decode_datum t d with Some (v, tm) => Some (labels, v, tm) | None => None end
      | _, _ => None
      end
  | _ => None
  end.

Record mview := {
  v_name : bytes; v_prog : bytes; v_kind : bytes; v_type : vtype; v_keys : list bytes;
  v_lsets : list (tuple * vview * bytes)
}.

Definition decode_metric (j : json) : option mview :=
  match j with
  | JObj fs =>
      match jlookup k_Name fs, jlookup k_Program fs, jlookup k_Kind fs, jlookup k_Type fs,
            jstrs (jlookup k_Keys fs) with
      | Some (JStr n), Some (JStr p), Some (JNum k), Some (JNum tyt), Some keys =>
          match decode_type tyt with
          | Some t =>
              match match jlookup k_LabelValues fs with
                    | None => Some []
                    | Some (JArr ls) => all_some (map (decode_lset t) ls)
                    | Some _ => None
                    end with
              | Some ls => Some {| v_name := n; v_prog := p; v_kind := k; v_type := t; v_keys := keys; v_lsets := ls |}
              | None => None
              end
          | None => None
          end
      | _, _, _, _, _ => None
      end
  | _ => None
  end.

Definition view_lset (l : lset) : option (tuple * vview * bytes) :=
  option_map (fun v => (l_vals l, v, fmt_Z (l_time l))) (view_val (l_val l)).

Definition view_metric (m : metric) : option mview :=
  option_map (fun ls => {| v_name := m_name m; v_prog := m_prog m; v_kind := fmt_Z (kind_num (m_kind m));
                           v_type := m_type m; v_keys := m_keys m; v_lsets := ls |})
             (all_some (map view_lset (m_lsets m))).

Local Opaque fmt_Z fmt_N.

Lemma all_some_jstr l : all_some (map jstr (map JStr l)) = Some l.
Proof. induction l as [|x l IH]; [reflexivity|]. cbn. rewrite IH. reflexivity. Qed.

Lemma decode_pairs_ok (l : list (bytes * N)) :
  decode_pairs (map (fun kv => (fst kv, JNum (fmt_N (snd kv)))) l) = Some (map (fun kv => (fst kv, fmt_N (snd kv))) l).
Proof.
  unfold decode_pairs. induction l as [|[k v] l IH]; [reflexivity|]. cbn [map fst snd all_some jnum option_map].
  cbn [map] in IH. rewrite IH. reflexivity.
Qed.

Lemma decode_datum_ok t v tm j :
  json_datum v tm = Some j -> has_type t v ->
  exists w, view_val v = Some w /\ decode_datum t j = Some (w, fmt_Z tm).
Proof.
  destruct v as [z|f|s|bs c sum]; destruct t; cbn [has_type]; try contradiction; intros H _; cbn [json_datum] in H.
  - injection H as <-. eexists. split; reflexivity.
  - unfold json_float in H. destruct (f_json f) as [x|] eqn:E; [|discriminate]. cbn in H. injection H as <-.
    exists (WNum x). cbn [view_val]. rewrite E. split; reflexivity.
  - injection H as <-. eexists. split; reflexivity.
  - unfold json_float in H. destruct (f_json sum) as [x|] eqn:E; [|discriminate]. cbn [option_map] in H. injection H as <-.
    eexists. cbn [view_val]. rewrite E. cbn [option_map]. split; [reflexivity|].
    cbn [decode_datum]. cbn [jlookup bytes_eqb k_Buckets k_Count k_Sum k_Time N.eqb Pos.eqb andb].
    rewrite decode_pairs_ok. reflexivity.
Qed.

Lemma decode_lset_ok t l j :
  json_lset l = Some j -> has_type t (l_val l) ->
  exists w, view_lset l = Some w /\ decode_lset t j = Some w.
Proof.
  unfold json_lset. intros H T. destruct (json_datum (l_val l) (l_time l)) as [d|] eqn:D; [|discriminate].
  injection H as <-. destruct (decode_datum_ok t _ _ _ D T) as (w & V & DD).
  exists (l_vals l, w, fmt_Z (l_time l)). unfold view_lset. rewrite V. split; [reflexivity|].
  destruct (l_vals l) as [|x vs] eqn:EV; destruct (Z.eqb (l_expiry l) 0);
    cbn [negb opt_field app decode_lset jlookup bytes_eqb k_Labels k_Value k_Expiry N.eqb Pos.eqb andb jstrs];
    rewrite ?all_some_jstr, DD; reflexivity.
Qed.

Lemma decode_lsets_ok t ls js :
  all_some (map json_lset ls) = Some js -> Forall (fun l => has_type t (l_val l)) ls ->
  exists ws, all_some (map view_lset ls) = Some ws /\ all_some (map (decode_lset t) js) = Some ws.
Proof.
  revert js; induction ls as [|l ls IH]; intros js H T.
  - injection H as <-. exists []. split; reflexivity.
  - cbn [map all_some] in H. destruct (json_lset l) as [j|] eqn:J; [|discriminate].
    destruct (all_some (map json_lset ls)) as [js'|] eqn:A; [|discriminate]. injection H as <-.
    inversion T as [|? ? T1 T2]; subst.
    destruct (decode_lset_ok t l j J T1) as (w & V & D). destruct (IH js' eq_refl T2) as (ws & VS & DS).
    exists (w :: ws). cbn [map all_some]. rewrite V, VS, D, DS. split; reflexivity.
Qed.

Lemma decode_type_num t : decode_type (fmt_Z (type_num t)) = Some t.
Proof. Local Transparent fmt_Z fmt_N. destruct t; reflexivity. Qed.
Local Opaque fmt_Z fmt_N.

Theorem json_metric_roundtrip m j :
  json_metric m = Some j -> Forall (fun l => has_type (m_type m) (l_val l)) (m_lsets m) ->
  exists v, view_metric m = Some v /\ decode_metric j = Some v.
Proof.
  unfold json_metric. intros H T.
  destruct (all_some (map json_lset (m_lsets m))) as [js|] eqn:A; [|discriminate]. injection H as <-.
  destruct (decode_lsets_ok _ _ _ A T) as (ws & VS & DS).
  unfold view_metric. rewrite VS. cbn [option_map]. eexists. split; [reflexivity|].
  assert (JS : js = [] -> ws = []).
  { intros ->. cbn in DS. injection DS as <-. reflexivity. }
  destruct (m_hidden m); destruct (m_keys m) as [|k ks] eqn:EK; destruct js as [|j0 js'];
    destruct (m_source m) as [|s0 src]; destruct (m_ranges m) as [|r0 rs]; destruct (Z.eqb (m_limit m) 0);
    cbn [negb opt_field app decode_metric jlookup bytes_eqb N.eqb Pos.eqb andb jstrs
         k_Name k_Program k_Kind k_Type k_Hidden k_Keys k_LabelValues k_Source k_Buckets k_Limit];
    rewrite ?all_some_jstr, decode_type_num, ?DS, ?(JS eq_refl); reflexivity.
Qed.

(* the store level: /json answers iff no float is refused, and then every
   metric decodes to its own view *)
Theorem json_store_roundtrip s js :
  json_store s = Some js ->
  Forall (fun m => Forall (fun l => has_type (m_type m) (l_val l)) (m_lsets m)) s ->
  exists vs, all_some (map view_metric s) = Some vs /\ all_some (map decode_metric js) = Some vs.
Proof.
  unfold json_store. revert js; induction s as [|m s IH]; intros js H T.
  - injection H as <-. exists []. split; reflexivity.
  - cbn [map all_some] in H. destruct (json_metric m) as [j|] eqn:J; [|discriminate].
    destruct (all_some (map json_metric s)) as [js'|] eqn:A; [|discriminate]. injection H as <-.
    inversion T as [|? ? T1 T2]; subst.
    destruct (json_metric_roundtrip m j J T1) as (v & V & D). destruct (IH js' eq_refl T2) as (vs & VS & DS).
    exists (v :: vs). cbn [map all_some]. rewrite V, VS, D, DS. split; reflexivity.
Qed.

(* when does /json fail *)
Definition float_ok (v : dval) : bool :=
  match v with
  | VFloat f => match f_json f with Some _ => true | None => false end
  | VBuckets _ _ sum => match f_json sum with Some _ => true | None => false end
  | _ => true
  end.

Lemma json_lset_some l : float_ok (l_val l) = true -> exists j, json_lset l = Some j.
Proof.
  unfold json_lset, float_ok. destruct (l_val l) as [z|f|s|bs c sum]; cbn [json_datum]; unfold json_float.
  - eexists; reflexivity.
  - destruct (f_json f); [eexists; reflexivity|discriminate].
  - eexists; reflexivity.
  - destruct (f_json sum); [eexists; reflexivity|discriminate].
Qed.
Lemma json_lset_none l : float_ok (l_val l) = false -> json_lset l = None.
Proof.
  unfold json_lset, float_ok. destruct (l_val l) as [z|f|s|bs c sum]; cbn [json_datum]; unfold json_float; try discriminate.
  - destruct (f_json f); [discriminate|reflexivity].
  - destruct (f_json sum); [discriminate|reflexivity].
Qed.

Lemma all_some_none_iff {A B} (f : A -> option B) l :
  all_some (map f l) = None <-> exists x, In x l /\ f x = None.
Proof.
  induction l as [|x l IH]; cbn [map all_some].
  - split; [discriminate|intros (x & [] & _)].
  - destruct (f x) as [y|] eqn:E.
    + destruct (all_some (map f l)) as [r|] eqn:EA.
      * split; [discriminate|]. intros (z & [<-|Hz] & Hn); [congruence|].
        destruct IH as [_ IH]. specialize (IH (ex_intro _ z (conj Hz Hn))). discriminate.
      * split; [intros _|reflexivity]. destruct IH as [IH _]. destruct (IH eq_refl) as (z & Hz & Hn).
        exists z. split; [right; exact Hz|exact Hn].
    + split; [intros _; exists x; split; [left; reflexivity|exact E]|reflexivity].
Qed.

Theorem json_fails_iff_nonfinite s :
  json_store s = None <-> exists m l, In m s /\ In l (m_lsets m) /\ float_ok (l_val l) = false.
Proof.
  unfold json_store. rewrite all_some_none_iff. split.
  - intros (m & Hm & H). unfold json_metric in H.
    destruct (all_some (map json_lset (m_lsets m))) eqn:A; [discriminate|].
    apply all_some_none_iff in A as (l & Hl & Hn). exists m, l. split; [exact Hm|]. split; [exact Hl|].
    destruct (float_ok (l_val l)) eqn:F; [|reflexivity].
    destruct (json_lset_some l F) as (j & E). congruence.
  - intros (m & l & Hm & Hl & F). exists m. split; [exact Hm|]. unfold json_metric.
    assert (A : all_some (map json_lset (m_lsets m)) = None).
    { apply all_some_none_iff. exists l. split; [exact Hl|apply json_lset_none; exact F]. }
    rewrite A. reflexivity.
Qed.
