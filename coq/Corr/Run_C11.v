(* C11 correspondence cases.  CFunc: the lock IR of one listed function as
   re-extracted from the current source by harness/xlate/lockir.go, together
   with the set of sites the harness reported (through the oracle channel,
   where they are matched against the known findings) as not disciplined.
   The obligation: that set is exactly the verified checker's verdict; the same
   for the write sites the check-then-act analysis (`stale_violations`) flags. *)
From Coq Require Import List NArith Bool.
Import ListNotations.
From V Require Import Base.Bytes.
From V Require Export Export.LockIR.
Local Open Scope N_scope.

Inductive c11case :=
| CFunc (id : N) (fn : N) (b : list stmt) (reported : list N) (reported_stale : list N).

Definition c11case_id (c : c11case) : N := match c with CFunc i _ _ _ _ => i end.

Definition memN (x : N) (l : list N) : bool := existsb (N.eqb x) l.
Definition same_set (a b : list N) : bool :=
  forallb (fun x => memN x b) a && forallb (fun x => memN x a) b.

Definition c11case_ok (c : c11case) : bool :=
  match c with
  | CFunc _ _ b rep reps =>
      same_set (violations mtail_spec (lblock_of b)) rep &&
      same_set (stale_violations mtail_spec (lblock_of b)) reps
  end.

Definition mismatches (l : list c11case) : list N := failing c11case_ok c11case_id l.
