(* C11 correspondence cases.  CFunc: the lock IR of one listed function as
   re-extracted from the current source by harness/xlate/lockir.go, together
   with the set of sites the harness reported (through the oracle channel,
   where they are matched against the known findings) as not disciplined.
   The obligation: that set is exactly the verified checker's verdict; the same
   for the write sites the check-then-act analysis (`stale_violations`) flags.
   CWalk: a walk over the real Store (Store.Range itself, or an exporter built
   on it) parked after `park` visits while the Adds `ops` are attempted (they
   complete at once, or wait for the walk - the harness goes on when the
   goroutine doing them is finished or blocked in a mutex).  `init` are the Adds
   that built the store (program, generation of its metric).  The obligation:
   the visited sequence, the final length and every cell of the final backing
   array (up to its capacity) are those of `range_locked` (Export/SliceAlias.v).
   bygen = false: the observation shows programs only (an exporter's output). *)
From Coq Require Import List NArith Bool.
Import ListNotations.
From V Require Import Base.Bytes.
From V Require Export Export.LockIR Export.SliceAlias.
Local Open Scope N_scope.

Inductive c11case :=
| CFunc (id : N) (fn : N) (b : list stmt) (reported : list N) (reported_stale : list N)
| CWalk (id : N) (bygen : bool) (init : list met) (park : N) (ops : list met)
        (visited : list met) (final_len : N) (final_cells : list met).

Definition c11case_id (c : c11case) : N :=
  match c with CFunc i _ _ _ _ => i | CWalk i _ _ _ _ _ _ _ => i end.

Definition met_eqb (a b : met) : bool := N.eqb (fst a) (fst b) && N.eqb (snd a) (snd b).
Fixpoint mets_eqb (a b : list met) : bool :=
  match a, b with
  | [], [] => true
  | x :: r, y :: t => met_eqb x y && mets_eqb r t
  | _, _ => false
  end.
Definition proj (bygen : bool) (l : list met) : list met :=
  if bygen then l else map (fun m => (fst m, 0)) l.

Definition memN (x : N) (l : list N) : bool := existsb (N.eqb x) l.
Definition same_set (a b : list N) : bool :=
  forallb (fun x => memN x b) a && forallb (fun x => memN x a) b.

Definition c11case_ok (c : c11case) : bool :=
  match c with
  | CFunc _ _ b rep reps =>
      same_set (violations mtail_spec (lblock_of b)) rep &&
      same_set (stale_violations mtail_spec (lblock_of b)) reps
  | CWalk _ bygen init _ ops visited flen fcells =>
      let s0 := adds init sempty in
      let r := range_locked s0 ops in
      mets_eqb (proj bygen (fst r)) (proj bygen visited) &&
      N.eqb (N.of_nat (h_len (cur (snd r)))) flen &&
      mets_eqb (cells (snd r)) fcells
  end.

Definition mismatches (l : list c11case) : list N := failing c11case_ok c11case_id l.

(* compact constructor for the generated case files *)
Definition mt (p g : N) : met := (p, g).
