(* C06 correspondence: multi-program histories on the real Runtime vs Run/Loader.v. *)
From V Require Export Corr.LoaderRun.
Definition mismatches := lmismatches.
