(* C06 correspondence: multi-program histories on the real Runtime vs Run/Loader.v;
   histories with a burst of lines sent back to back while one program is slow
   vs Run/Fanout.v under a schedule in which that program is slow. *)
From V Require Export Corr.LoaderRun Run.Fanout.
Local Open Scope N_scope.

Inductive c06case :=
| CSeq (c : lcase)
(* the harness supplies a schedule (orders of the map iteration, who finishes
   when; the slow program finishes its first line as late as possible); the
   schedule must settle and the states after every step must be the observed
   ones *)
| CSlow (id : N) (omit : bool) (ct : ctab) (vt : vtab) (hs : list hop) (obs : list snap).

Definition c06_id (c : c06case) : N :=
  match c with CSeq c => lcase_id c | CSlow i _ _ _ _ _ => i end.

Definition c06_ok (c : c06case) : bool :=
  match c with
  | CSeq c => lcase_ok c
  | CSlow _ omit ct vt hs obs =>
      settle_all (vtab_get vt) true true omit (ctab_get ct) st_empty hs
      && all2 snap_ok (htrace (vtab_get vt) true true omit (ctab_get ct) st_empty hs) obs
  end.

Definition mismatches (l : list c06case) : list N := failing c06_ok c06_id l.
