(* Case files write printable byte strings as string literals: a literal
   elaborates far faster than a list of numbers.  [bs "ab"%string = [97; 98]]. *)
From V Require Import Base.Bytes.
From Coq Require Import String Ascii.
Definition bs (s : string) : bytes := List.map N_of_ascii (list_ascii_of_string s).
