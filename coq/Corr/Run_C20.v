(* Correspondence cases for C20: a schedule of the model's events
   reconstructed from what a real runtime.Runtime did (control sequence of the
   harness + time stamps of the per-line effects), the observed effect log
   (line, version) in time order, and the final value of the gauge.  The
   schedule must be a run of the REPAIRED model (every event enabled, ending
   quiescent), the model's effect log restricted to writing lines must equal
   the observed one, and the gauge must be the model's last writer. *)
From V Require Export Base.Bytes Run.Reload.
Local Open Scope N_scope.

Inductive c20case :=
| C20Run (id : N) (np : N) (evs : list event) (log : list (N * N)) (gauge : Z).
(* np: loaded programs; program 0 is the one observed and reloaded, program 1 (if any)
   is a bystander that holds a gauge whose name a refused version declares as a counter *)

Definition c20case_id (c : c20case) : N := match c with C20Run i _ _ _ _ => i end.

Definition n2_eqb (a b : N * N) : bool := N.eqb (fst a) (fst b) && N.eqb (snd a) (snd b).

(* harness lines are numbered from 1 *)
Definition obs_log (l : list entry) : list (N * N) :=
  map (fun e => (e_line e + 1, e_ver e)) (filter e_w l).

Definition c20case_ok (c : c20case) : bool :=
  match c with
  | C20Run _ np evs lg g =>
      match run (map N.of_nat (seq 0 (N.to_nat np))) true (init) evs with
      | None => false
      | Some s =>
          let q := ps s 0 in
          match infl s, busy q ++ busy (ps s 1) with
          | None, [] =>
              list_eqb n2_eqb (obs_log (log q)) lg &&
              Z.eqb g (match last_writer (log q) with Some l => Z.of_N (l + 1) | None => 0%Z end)
          | _, _ => false
          end
      end
  end.

Definition mismatches (l : list c20case) : list N := failing c20case_ok c20case_id l.
