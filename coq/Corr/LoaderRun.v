(* Correspondence cases shared by C06 / C14 / C25 / C26: a history run on a real
   runtime.Runtime + metrics.Store, with the snapshot the harness took after
   every step, re-computed by Run/Loader.v (and Run/DirScan.v). *)
From V Require Export Run.Loader.
From V Require Export Corr.BytesLit.
Local Open Scope N_scope.

(* ---- observed snapshot ---- *)
Record olv := mkolv { o_labels : tuple; o_val : dval; o_time : Z; o_expiry : Z }.
(* a store entry: Program, descriptor, index of the object in the metric table
   of the program's running VM (None: not held by a running VM), label values *)
Record ometric := mkom { om_prog : bytes; om_decl : decl; om_vmidx : option nat; om_lvs : list olv }.
Record ohandle := mkoh { oh_prog : bytes; oh_src : N; oh_metrics : list (decl * list olv) }.
(* per program: prog_loads_total prog_load_errors_total prog_unloads_total prog_runtime_errors_total *)
Record ocounters := mkoc { oc_lines : N; oc_progs : list (bytes * (N * N * N * N)) }.
Record snap := mksnap {
  sn_store : list (bytes * list ometric);   (* sorted by name *)
  sn_handles : list ohandle;                (* sorted by program *)
  sn_counters : option ocounters }.

(* ---- the model's snapshot ---- *)
Definition resolve (h : pheap) (l : list slv) : list olv :=
  map (fun x => let d := datum_of h (sl_datum x) in mkolv (sl_labels x) (dv d) (dt d) (sl_expiry x)) l.

Fixpoint find_idx (o : N) (l : list (N * decl)) (i : nat) : option nat :=
  match l with
  | [] => None
  | (o', _) :: r => if N.eqb o o' then Some i else find_idx o r (S i)
  end.

Definition snap_entry (st : state) (e : entry) : ometric :=
  let x := getp (e_prog e) st in
  mkom (e_prog e) (e_decl e)
       (match ps_handle x with Some hd => find_idx (e_id e) (h_objs hd) 0%nat | None => None end)
       (resolve (ps_heap x) (obj_lvs (ps_heap x) (e_id e))).

Definition snap_handle (p : bytes) (x : pstate) : option ohandle :=
  match ps_handle x with
  | None => None
  | Some hd => Some (mkoh p (h_src hd)
      (map (fun od => (snd od, resolve (ps_heap x) (obj_lvs (ps_heap x) (fst od)))) (h_objs hd)))
  end.

(* ---- comparison ---- *)
Definition dval_eqb (a b : dval) : bool :=
  match a, b with
  | DInt x, DInt y => Z.eqb x y
  | DFloat x, DFloat y => N.eqb x y
  | DHist c1 s1, DHist c2 s2 => N.eqb c1 c2 && Z.eqb s1 s2
  | DStr x, DStr y => bytes_eqb x y
  | _, _ => false
  end.
Definition olv_eqb (a b : olv) : bool :=
  tuple_eqb (o_labels a) (o_labels b) && dval_eqb (o_val a) (o_val b)
  && Z.eqb (o_time a) (o_time b) && Z.eqb (o_expiry a) (o_expiry b).
Definition decl_eqb (a b : decl) : bool :=
  bytes_eqb (d_name a) (d_name b) && N.eqb (d_kind a) (d_kind b) && N.eqb (d_type a) (d_type b)
  && keys_eqb (d_keys a) (d_keys b) && bytes_eqb (d_source a) (d_source b)
  && Bool.eqb (d_hidden a) (d_hidden b).
Definition optnat_eqb (a b : option nat) : bool :=
  match a, b with
  | Some x, Some y => Nat.eqb x y
  | None, None => true
  | _, _ => false
  end.
Definition ometric_eqb (a b : ometric) : bool :=
  bytes_eqb (om_prog a) (om_prog b) && decl_eqb (om_decl a) (om_decl b)
  && optnat_eqb (om_vmidx a) (om_vmidx b) && list_eqb olv_eqb (om_lvs a) (om_lvs b).
Definition hmetric_eqb (a b : decl * list olv) : bool :=
  decl_eqb (fst a) (fst b) && list_eqb olv_eqb (snd a) (snd b).
Definition ohandle_eqb (a b : ohandle) : bool :=
  bytes_eqb (oh_prog a) (oh_prog b) && N.eqb (oh_src a) (oh_src b)
  && list_eqb hmetric_eqb (oh_metrics a) (oh_metrics b).

Fixpoint names_distinct {A} (l : list (bytes * A)) : bool :=
  match l with
  | [] => true
  | (k, _) :: r => match blookup k r with Some _ => false | None => names_distinct r end
  end.

(* Store.Metrics is a Go map: compared as a finite map, not as a list *)
Definition store_ok (st : state) (obs : list (bytes * list ometric)) : bool :=
  names_distinct obs
  && Nat.eqb (length obs) (length (filter (fun ne => negb (Nat.eqb (length (snd ne)) 0)) (st_index st)))
  && forallb (fun ne => list_eqb ometric_eqb (snd ne) (map (snap_entry st) (entries_of (st_index st) (fst ne)))) obs.

Definition running (st : state) : list (bytes * pstate) :=
  filter (fun px => match ps_handle (snd px) with Some _ => true | None => false end) (st_progs st).

Definition handles_ok (st : state) (obs : list ohandle) : bool :=
  names_distinct (map (fun h => (oh_prog h, tt)) obs)
  && Nat.eqb (length obs) (length (running st))
  && forallb (fun h => match snap_handle (oh_prog h) (getp (oh_prog h) st) with
                       | Some m => ohandle_eqb h m
                       | None => false
                       end) obs.

Definition quad_eqb (a b : N * N * N * N) : bool :=
  let '(a1, a2, a3, a4) := a in let '(b1, b2, b3, b4) := b in
  N.eqb a1 b1 && N.eqb a2 b2 && N.eqb a3 b3 && N.eqb a4 b4.

(* every program named by the observation or known to the model agrees *)
Definition counters_ok (st : state) (oc : option ocounters) : bool :=
  match oc with
  | None => true
  | Some c =>
      N.eqb (oc_lines c) (st_lines st)
      && forallb (fun pq => let x := getp (fst pq) st in
                   quad_eqb (snd pq) (ps_loads x, ps_errs x, ps_unloads x, ps_rterrs x)) (oc_progs c)
      && forallb (fun px => match blookup (fst px) (oc_progs c) with
                            | Some q => true
                            | None => quad_eqb (0, 0, 0, 0)
                                        (ps_loads (snd px), ps_errs (snd px), ps_unloads (snd px), ps_rterrs (snd px))
                            end) (st_progs st)
  end.

Definition snap_ok (st : state) (s : snap) : bool :=
  store_ok st (sn_store s) && handles_ok st (sn_handles s) && counters_ok st (sn_counters s).

(* ---- oracle tables ---- *)
Definition ctab := list (bytes * N * option (list decl)).
Definition vtab := list (bytes * N * N * list effect).

Fixpoint ctab_get (t : ctab) (p : bytes) (s : N) : option (list decl) :=
  match t with
  | [] => None
  | (p', s', r) :: t' => if bytes_eqb p p' && N.eqb s s' then r else ctab_get t' p s
  end.
Fixpoint vtab_get (t : vtab) (p : bytes) (s l : N) : list effect :=
  match t with
  | [] => []
  | (p', s', l', r) :: t' =>
      if bytes_eqb p p' && N.eqb s s' && N.eqb l l' then r else vtab_get t' p s l
  end.

Fixpoint all2 {A B} (f : A -> B -> bool) (a : list A) (b : list B) : bool :=
  match a, b with
  | [], [] => true
  | x :: a', y :: b' => f x y && all2 f a' b'
  | _, _ => false
  end.

(* a history on the repaired loader *)
Inductive lcase :=
| LCase (id : N) (omit : bool) (ct : ctab) (vt : vtab) (ops : list op) (obs : list snap).

Definition lcase_id (c : lcase) : N := match c with LCase i _ _ _ _ _ => i end.

Definition lcase_ok (c : lcase) : bool :=
  match c with
  | LCase _ omit ct vt ops obs =>
      all2 snap_ok (trace_from true true omit (ctab_get ct) (vtab_get vt) st_empty ops) obs
  end.

Definition lmismatches (l : list lcase) : list N := failing lcase_ok lcase_id l.
