(* Byte strings cross the harness boundary as hexadecimal string literals:
   a list of N literals costs ~0.5 ms per element to elaborate, a string
   literal is read by the lexer in one go. *)
From Coq Require Import String Ascii.
From V Require Import Base.Bytes.
Local Open Scope N_scope.

Definition hexval (c : ascii) : N :=
  let n := N_of_ascii c in if n <? 58 then n - 48 else n - 87.

Fixpoint hex (s : string) : bytes :=
  match s with
  | String a (String b r) => (16 * hexval a + hexval b) :: hex r
  | _ => []
  end.

Notation H := hex (only parsing).
