(* Byte strings cross the harness boundary as hexadecimal string literals:
   a list of N literals costs ~0.5 ms per element to elaborate, a string
   literal is read by the lexer in one go. *)
From Coq Require Import String Ascii.
From V Require Import Base.Bytes.
Local Open Scope N_scope.

Definition hexval (c : ascii) : N :=
  let n := N_of_ascii c in if n <? 58 then n - 48 else n - 87.

Fixpoint hex (s : string) : bytes :=
  match s with
  | String a (String b r) => (16 * hexval a + hexval b) :: hex r
  | _ => []
  end.

Notation H := hex (only parsing).

(* Several byte strings in one literal, separated by commas: every string
   literal has a fixed elaboration cost of a few milliseconds, so a case should
   contain few of them.  [hexs ""] is the empty list; an empty field is an
   empty byte string (so a list holding only the empty string cannot be
   written - callers prefix such fields, see [tagged_hexs]). *)
Fixpoint hexs_aux (s : string) (cur : bytes) : list bytes :=
  match s with
  | EmptyString => [rev cur]
  | String a r =>
      if Ascii.eqb a ","%char then rev cur :: hexs_aux r []
      else match r with
           | String b r' => hexs_aux r' ((16 * hexval a + hexval b) :: cur)
           | EmptyString => [rev cur]
           end
  end.

Definition hexs (s : string) : list bytes :=
  match s with EmptyString => [] | _ => hexs_aux s [] end.

(* fields whose first byte is a small number (a tag) *)
Definition tagged_hexs (s : string) : list (nat * bytes) :=
  map (fun l => match l with t :: r => (N.to_nat t, r) | [] => (0%nat, []) end) (hexs s).

Notation HS := hexs (only parsing).
Notation TS := tagged_hexs (only parsing).

(* a list of byte strings, each field prefixed with a dummy tag byte so that
   empty strings and the list holding only the empty string can be written *)
Definition list_hexs (s : string) : list bytes := map snd (tagged_hexs s).
Notation LS := list_hexs (only parsing).
