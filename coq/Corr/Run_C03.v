(* Correspondence cases for C03: what the real parser.Lexer produced for a byte
   string (and whether compiler.Compile accepted it), re-computed by
   Lang/Lexer.lex. *)
From V Require Export Base.Bytes Lang.Lexer.
From Coq Require Export Uint63.
Local Open Scope Z_scope.

(* Byte strings cross the boundary packed 7 bytes per primitive 63-bit integer,
   little endian, with the length beside them: a list of N literals or a string
   literal costs several kernel nodes per byte to elaborate and makes the case
   files the slowest part of the check.  Primitive integers are used here only;
   no theorem depends on them. *)
Definition unpack7 (w : int) (acc : bytes) : bytes :=
  let z := Z.to_N (Uint63.to_Z w) in
  (N.modulo z 256) :: (N.modulo (N.shiftr z 8) 256) :: (N.modulo (N.shiftr z 16) 256)
  :: (N.modulo (N.shiftr z 24) 256) :: (N.modulo (N.shiftr z 32) 256)
  :: (N.modulo (N.shiftr z 40) 256) :: (N.modulo (N.shiftr z 48) 256) :: acc.
Fixpoint unpack (l : list int) : bytes :=
  match l with
  | [] => []
  | w :: r => unpack7 w (unpack r)
  end.
Definition packed (n : N) (l : list int) : bytes := firstn (N.to_nat n) (unpack l).

(* class table: runes with a non-zero class (bit 0 letter, 1 digit, 2 space) *)
Fixpoint cls_of (tbl : list (N * N)) (r : Z) : N :=
  match tbl with
  | [] => 0%N
  | (k, v) :: rest => if Z.of_N k =? r then v else cls_of rest r
  end.

(* a token as printed by the harness: spelling as non-negative runes *)
Definition T (k : kind) (sp : list N) (l sc ec : Z) : tok := mk_tok k (map Z.of_N sp) l sc ec.

Definition errk_eqb (a b : errk) : bool :=
  match a, b with
  | EUnexpected, EUnexpected | EUntermString, EUntermString | EUntermRegex, EUntermRegex => true
  | _, _ => false
  end.

Definition kind_code (k : kind) : N :=
  match k with
  | INVALID _ => 0 | COUNTER => 1 | GAUGE => 2 | TIMER => 3 | TEXT => 4 | HISTOGRAM => 5
  | AFTER => 6 | AS => 7 | BY => 8 | CONST => 9 | HIDDEN => 10 | DEF => 11 | DEL => 12 | NEXT => 13
  | OTHERWISE => 14 | ELSE => 15 | STOP => 16 | BUCKETS => 17 | LIMIT => 18 | BUILTIN => 19
  | REGEX => 20 | STRING => 21 | CAPREF => 22 | CAPREF_NAMED => 23 | ID => 24 | DECO => 25
  | INTLITERAL => 26 | FLOATLITERAL => 27 | DURATIONLITERAL => 28 | INC => 29 | DEC => 30
  | DIV => 31 | MOD => 32 | MUL => 33 | MINUS => 34 | PLUS => 35 | POW => 36 | SHL => 37 | SHR => 38
  | LT => 39 | GT => 40 | LE => 41 | GE => 42 | EQ => 43 | NE => 44 | BITAND => 45 | XOR => 46
  | BITOR => 47 | NOT => 48 | AND => 49 | OR => 50 | ADD_ASSIGN => 51 | ASSIGN => 52 | MATCH => 53
  | NOT_MATCH => 54 | LCURLY => 55 | RCURLY => 56 | LPAREN => 57 | RPAREN => 58 | LSQUARE => 59
  | RSQUARE => 60 | COMMA => 61 | NL => 62 | EOF => 63
  end%N.

Definition kind_eqb (a b : kind) : bool :=
  match a, b with
  | INVALID x, INVALID y => errk_eqb x y
  | INVALID _, _ | _, INVALID _ => false
  | _, _ => N.eqb (kind_code a) (kind_code b)
  end.

Definition tok_eqb (a b : tok) : bool :=
  kind_eqb (t_kind a) (t_kind b) && zs_eqb (t_text a) (t_text b) &&
  (t_line a =? t_line b) && (t_sc a =? t_sc b) && (t_ec a =? t_ec b).

(* an INVALID token before the first DIV token: the parser sees exactly this
   prefix whatever it does with InRegex, and either consumes the INVALID token
   (driver.go adds an error) or has aborted before (after an error) *)
Fixpoint invalid_before_div (l : list tok) : bool :=
  match l with
  | [] => false
  | t :: r => match t_kind t with
              | INVALID _ => true
              | DIV => false
              | _ => invalid_before_div r
              end
  end.

(* The observed token list crosses the boundary as one string (elaborating a
   list of records of numerals is far too slow): per token
     <kind code, hex> ' ' <line, hex> ' ' <startcol, hex> ' ' <endcol+1, hex> { 'x' <rune, hex> } ';'
   The model's tokens are printed in the same format and compared as bytes. *)
Definition hexdigit (n : N) : N := (if N.ltb n 10 then 48 + n else 87 + n)%N.
Fixpoint hexN (fuel : nat) (n : N) (acc : bytes) : bytes :=
  match fuel with
  | O => acc
  | S f => let acc' := hexdigit (N.modulo n 16) :: acc in
           if N.eqb (N.div n 16) 0 then acc' else hexN f (N.div n 16) acc'
  end.
Definition hexZ (z : Z) (acc : bytes) : bytes := hexN 20 (Z.to_N z) acc.
Definition wire_code (k : kind) : N :=
  match k with
  | INVALID EUnexpected => 0 | INVALID EUntermString => 64 | INVALID EUntermRegex => 65
  | _ => kind_code k
  end%N.
Fixpoint print_runes (l : list Z) (acc : bytes) : bytes :=
  match l with
  | [] => acc
  | r :: t => 120%N :: hexZ r (print_runes t acc)
  end.
Definition print_tok (t : tok) (acc : bytes) : bytes :=
  hexN 20 (wire_code (t_kind t))
    (32%N :: hexZ (t_line t) (32%N :: hexZ (t_sc t)
      (32%N :: hexZ (t_ec t + 1) (print_runes (t_text t) (59%N :: acc))))).
Fixpoint print_toks (l : list tok) : bytes :=
  match l with
  | [] => []
  | t :: r => print_tok t (print_toks r)
  end.

Inductive c03case :=
| CLex (id : N) (nsrc : N) (psrc : list int) (tbl : list (N * N)) (rxs : list bool)
       (ntoks : N) (ptoks : list int) (calls : Z) (compiled : bool).

Definition c03_id (c : c03case) : N := match c with CLex i _ _ _ _ _ _ _ _ => i end.

Definition c03_ok (c : c03case) : bool :=
  match c with
  | CLex _ nsrc psrc tbl rxs ntoks ptoks calls compiled =>
      let r := lex (cls_of tbl) rxs (packed nsrc psrc) in
      l_done r && bytes_eqb (print_toks (l_toks r)) (packed ntoks ptoks) && (l_calls r =? calls)
      && implb (invalid_before_div (l_toks r)) (negb compiled)
  end.

Definition mismatches (l : list c03case) : list N := failing c03_ok c03_id l.
