(* C09 correspondence cases.
   CM: the shared metric cases of Corr/MetricRun.v (operation sequences on a
   real metrics.Metric re-computed by MetricMap.c_run).
   CEmitShape: the statement IR of Metric.EmitLabelSets as re-extracted from the
   current source by harness/xlate/emitir.go, with the verdict the harness
   reported (through the oracle channel, class `emit-structure-changed`, when it
   is negative); the obligation is that this verdict is the verified checker's,
   so that C09_emit_complete_any_consumer applies exactly when nothing was
   reported.
   CSlow: one enumeration of a real metric by a consumer that stayed away
   [pauses] ms before its receives: the operations that built the metric, the
   IR extracted on this run, what the consumer received and whether it saw the
   channel closed.  The model executes the IR against the same schedule. *)
From V Require Export Corr.MetricRun Metrics.EmitProto.
Local Open Scope N_scope.

Inductive c09case :=
| CM (c : mcase)
| CEmitShape (id : N) (p : list tstm) (reported_ok : bool)
| CSlow (id : N) (arity : nat) (t : vtype) (ops : list op) (p : list tstm)
        (pauses : list N) (got : list (tuple * N * cell)) (closed : bool).

Definition c09case_id (c : c09case) : N :=
  match c with
  | CM c => mcase_id c
  | CEmitShape i _ _ | CSlow i _ _ _ _ _ _ _ => i
  end.

Definition ending_closed (e : ending) : bool :=
  match e with EndClosed => true | _ => false end.
Definition ending_known (e : ending) : bool :=
  match e with EndClosed | EndOpen => true | _ => false end.

Definition c09case_ok (c : c09case) : bool :=
  match c with
  | CM c => mcase_ok c
  | CEmitShape _ p rep => Bool.eqb (emit_ok p) rep
  | CSlow _ n t ops p pauses got closed =>
      let m := fst (c_run encode (c_init n t) ops) in
      let '(l, e) := c_emit_protocol p pauses m in
      list_eqb entry_eqb l got && ending_known e && Bool.eqb (ending_closed e) closed
  end.

Definition mismatches (l : list c09case) : list N := failing c09case_ok c09case_id l.
