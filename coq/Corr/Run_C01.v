(* C01 correspondence.
   CRef: the reference semantics (Lang/RefSem.v) evaluated on the generator's
   INTENDED tree and the recorded lines must equal what the real compiler + the
   real VM produced from the program's source text: per-line error flags and
   the final store (types, label sets in insertion order, values, time classes,
   expiry).  The library oracles are tables recorded by the harness; float
   arithmetic and comparisons are Coq's primitive floats.
   CAccept: record of tie (4) (decided by the harness oracle). *)
From V Require Export Lang.RefSem Lang.Codegen Lang.Wt Lang.Expand Lang.CapType Metrics.FloatBits.
Local Open Scope Z_scope.

Record tables := mktables {
  tb_re_match : list (N * bytes * option (list bytes));
  tb_re_replace : list (N * bytes * bytes * bytes);
  tb_parse_int : list (bytes * Z * option Z);
  tb_parse_float : list (bytes * option N);
  tb_fmt_g : list (N * bytes);
  tb_to_lower : list (bytes * bytes);
  tb_str_replace : list (bytes * bytes * bytes * bytes);
  tb_time_parse : list (bytes * bytes * option timeval);
  tb_fl_mod : list (N * N * N);
  tb_fl_pow : list (N * N * N);
  tb_i_pow : list (Z * Z * Z)
}.

Fixpoint lookup {K V} (eqb : K -> K -> bool) (k : K) (l : list (K * V)) : option V :=
  match l with
  | [] => None
  | (k', v) :: r => if eqb k k' then Some v else lookup eqb k r
  end.

Definition pair_eqb {A B} (ea : A -> A -> bool) (eb : B -> B -> bool) (x y : A * B) : bool :=
  ea (fst x) (fst y) && eb (snd x) (snd y).

(* a query the harness did not tabulate: a value no Go function returns *)
Definition miss : bytes := [0; 77; 73; 83; 83]%N.
Definition orelse {A} (x : option A) (d : A) : A := match x with Some v => v | None => d end.
Definition fbin (f : float -> float -> float) (a b : N) : N := to_bits (f (of_bits a) (of_bits b)).
Definition fcmp (f : float -> float -> bool) (a b : N) : bool := f (of_bits a) (of_bits b).

Definition mk_env (tb : tables) : env := {|
  re_match := fun i s => orelse (lookup (pair_eqb N.eqb bytes_eqb) (i, s) (tb_re_match tb)) (Some [miss]);
  re_replace := fun i v r =>
    orelse (lookup (pair_eqb (pair_eqb N.eqb bytes_eqb) bytes_eqb) (i, v, r) (tb_re_replace tb)) miss;
  parse_int := fun s b _ =>
    orelse (lookup (pair_eqb bytes_eqb Z.eqb) (s, b) (tb_parse_int tb)) (Some (-77777));
  parse_float := fun s => orelse (lookup bytes_eqb s (tb_parse_float tb)) (Some 77777%N);
  fmt_G := fun f => miss;
  fmt_g := fun f => orelse (lookup N.eqb f (tb_fmt_g tb)) miss;
  to_lower := fun s => orelse (lookup bytes_eqb s (tb_to_lower tb)) miss;
  str_replace := fun v o r =>
    orelse (lookup (pair_eqb (pair_eqb bytes_eqb bytes_eqb) bytes_eqb) (v, o, r) (tb_str_replace tb)) miss;
  time_parse := fun l v =>
    orelse (lookup (pair_eqb bytes_eqb bytes_eqb) (l, v) (tb_time_parse tb)) (Some (77777, 77));
  fl_add := fbin PrimFloat.add;
  fl_sub := fbin PrimFloat.sub;
  fl_mul := fbin PrimFloat.mul;
  fl_div := fbin PrimFloat.div;
  fl_mod := fun a b => orelse (lookup (pair_eqb N.eqb N.eqb) (a, b) (tb_fl_mod tb)) 77777%N;
  fl_pow := fun a b => orelse (lookup (pair_eqb N.eqb N.eqb) (a, b) (tb_fl_pow tb)) 77777%N;
  fl_lt := fcmp PrimFloat.ltb;
  fl_eq := fcmp PrimFloat.eqb;
  fl_le := fcmp PrimFloat.leb;
  fl_of_int := fun z => to_bits (of_int64 z);
  i_pow := fun a b => orelse (lookup (pair_eqb Z.eqb Z.eqb) (a, b) (tb_i_pow tb)) (-77777);
  now_sec := 0
|}.

(* ---- observations ---- *)

Definition rval_eqb (a b : rval) : bool :=
  match a, b with
  | RInt x, RInt y => Z.eqb x y
  | RFloat x, RFloat y => N.eqb x y
  | RStr x, RStr y => bytes_eqb x y
  | RBool x, RBool y => Bool.eqb x y
  | _, _ => false
  end.
Definition rtime_eqb (a b : rtime) : bool :=
  match a, b with RNow, RNow => true | RAt x, RAt y => Z.eqb x y | _, _ => false end.
Definition rdatum_eqb (a b : rdatum) : bool :=
  tuple_eqb (rd_labels a) (rd_labels b) && rval_eqb (rd_val a) (rd_val b)
  && rtime_eqb (rd_time a) (rd_time b) && Z.eqb (rd_expiry a) (rd_expiry b).

(* the observed store: per metric its runtime type and its data *)
Definition obs := list (ty * list rdatum).

Fixpoint obs_eqb (decls : list mdecl) (st : rstore) (o : obs) : bool :=
  match decls, st, o with
  | [], [], [] => true
  | d :: ds, l :: ls, (t, l') :: os =>
      ty_eqb (md_ty d) t && list_eqb rdatum_eqb l l' && obs_eqb ds ls os
  | _, _, _ => false
  end.

Definition is_err (o : routcome) : bool := match o with OErr _ => true | _ => false end.

Inductive c01case :=
| CRef (id : N) (p : prog) (file : bytes) (lines : list bytes) (tb : tables)
       (errs : list bool) (final : obs)
| CGen (id : N) (p : prog) (code : list instr) (strs res : list bytes) (mets : list (mkind * mtype * nat))
| CSurf (id : N) (sp : sprog) (file : bytes) (lines : list bytes) (tb : tables)
        (errs : list bool) (final : obs)
        (code : list instr) (strs res : list bytes) (mets : list (mkind * mtype * nat))
        (caps : list (re * ty * ty))
    (* caps: every capture group of the program: its tree as mtail parses it, the
       type the reference's Go decision procedure gives it, the type the real
       checker gave it *)
    (* the SURFACE program (decorators not inlined): Lang/Expand.v inlines and
       numbers it; then both ties on the result: reference semantics vs the
       observed run, model code generator vs the real object code *)
| CCapTy (id : N) (caps : list (re * ty * ty))
    (* typing probes and flagged streams: capture groups only *)
| CAccept (id : N) (accepted : bool).

(* the faithful model of types.InferCaprefType gives the checker's type; the
   verified decision procedure gives the reference's type *)
Definition caps_ok (caps : list (re * ty * ty)) : bool :=
  forallb (fun x => match x with
                    | (r, spec, impl) => ty_eqb (cap_spec r) spec && ty_eqb (infer_top r) impl
                    end) caps.

Definition operand_eqb (a b : operand) : bool :=
  match a, b with
  | ONil, ONil => true
  | OInt x, OInt y | OI64 x, OI64 y | ODur x, ODur y => Z.eqb x y
  | OF64 x, OF64 y => N.eqb x y
  | OBool x, OBool y => Bool.eqb x y
  | _, _ => false
  end.
Definition instr_eqb (a b : instr) : bool :=
  opcode_eqb (i_op a) (i_op b) && operand_eqb (i_arg a) (i_arg b).
Definition mkind_eqb (a b : mkind) : bool :=
  match a, b with
  | KCounter, KCounter | KGauge, KGauge | KTimer, KTimer | KText, KText | KHistogram, KHistogram => true
  | _, _ => false
  end.
Definition met_eqb (d : mdesc) (x : mkind * mtype * nat) : bool :=
  mkind_eqb (Bytecode.md_kind d) (fst (fst x)) && mtype_eqb (md_type d) (snd (fst x)) && Nat.eqb (md_arity d) (snd x).
Fixpoint list_eqb2 {A B} (f : A -> B -> bool) (a : list A) (b : list B) : bool :=
  match a, b with
  | [], [] => true
  | x :: a', y :: b' => f x y && list_eqb2 f a' b'
  | _, _ => false
  end.

Definition case_id (c : c01case) : N :=
  match c with CRef i _ _ _ _ _ _ => i | CGen i _ _ _ _ _ => i | CSurf i _ _ _ _ _ _ _ _ _ _ _ => i
  | CCapTy i _ => i | CAccept i _ => i end.

Definition case_ok (c : c01case) : bool :=
  match c with
  | CRef _ p file lines tb errs final =>
      let (st, outs) := ref_lines (mk_env tb) p file lines (init_rstore p) in
      (* every main-stream program is well typed in the sense of Lang/Wt.v (the
         hypothesis of the compiler-correctness theorems) *)
      wt p && list_eqb Bool.eqb (map is_err outs) errs && obs_eqb (p_decls p) st final
  | CGen _ p code strs res mets =>
      let o := codegen p in
      list_eqb instr_eqb (o_prog o) code && list_eqb bytes_eqb (o_strs o) strs
      && list_eqb bytes_eqb (p_res p) res && list_eqb2 met_eqb (o_metrics o) mets
  | CSurf _ sp file lines tb errs final code strs res mets caps =>
      match expand sp with
      | Some p =>
          let (st, outs) := ref_lines (mk_env tb) p file lines (init_rstore p) in
          let o := codegen p in
          caps_ok caps && wt p && list_eqb Bool.eqb (map is_err outs) errs && obs_eqb (p_decls p) st final
          && list_eqb instr_eqb (o_prog o) code && list_eqb bytes_eqb (o_strs o) strs
          && list_eqb bytes_eqb (p_res p) res && list_eqb2 met_eqb (o_metrics o) mets
      | None => false
      end
  | CCapTy _ caps => caps_ok caps
  | CAccept _ _ => true
  end.

Definition mismatches (l : list c01case) : list N := failing case_ok case_id l.

(* for debugging a disagreement in the capture typing *)
Definition explain_caps (c : c01case) :=
  let bad := filter (fun x => match x with
                              | (r, spec, impl) => negb (ty_eqb (cap_spec r) spec && ty_eqb (infer_top r) impl)
                              end) in
  let show := map (fun x => match x with (r, spec, impl) => (r, (cap_spec r, spec), (infer_top r, impl)) end) in
  match c with
  | CSurf _ _ _ _ _ _ _ _ _ _ _ caps => show (bad caps)
  | CCapTy _ caps => show (bad caps)
  | _ => []
  end.

(* for debugging a disagreement: what the reference computes *)
Definition explain (c : c01case) :=
  match c with
  | CRef _ p file lines tb errs final => Some (ref_lines (mk_env tb) p file lines (init_rstore p))
  | _ => None
  end.
Definition in_frag (c : c01case) : bool :=
  match c with
  | CRef _ p _ _ _ _ _ => wt p && in_fragment p && scoped_otherwise p
  | CSurf _ sp _ _ _ _ _ _ _ _ _ _ =>
      match expand sp with Some p => wt p && in_fragment p && scoped_otherwise p | None => false end
  | _ => false
  end.
Definition explain_gen (c : c01case) :=
  match c with
  | CGen _ p code strs res mets => Some (o_prog (codegen p), code)
  | _ => None
  end.

Fixpoint first_diff (a b : list instr) (n : nat) : option (nat * option instr * option instr) :=
  match a, b with
  | [], [] => None
  | x :: a', y :: b' => if instr_eqb x y then first_diff a' b' (S n) else Some (n, Some x, Some y)
  | x :: _, [] => Some (n, Some x, None)
  | [], y :: _ => Some (n, None, Some y)
  end.
Definition diag_gen (c : c01case) :=
  match c with
  | CGen i p code strs res mets =>
      let o := codegen p in
      if case_ok c then None else
      Some (i, first_diff (o_prog o) code 0, list_eqb bytes_eqb (o_strs o) strs,
            list_eqb bytes_eqb (p_res p) res, list_eqb2 met_eqb (o_metrics o) mets)
  | _ => None
  end.
