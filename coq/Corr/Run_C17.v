(* Correspondence cases for C17: real fifo / stdin pipe / unix / tcp / unixgram /
   udp streams; per writer the chunks it wrote and whether it closed before
   the stream was cancelled; the lines received from the stream's channel, each
   attributed to a writer by the tag in its payload (an unparsable line gets
   the out-of-range tag). *)
From Coq Require Export String.
From V Require Export Base.Bytes Tail.LineReader Tail.Conn Corr.Hex.

Inductive c17case :=
| CST (id : N) (kind : N) (cs : list (bool * conn)) (out : list tagged) (ended : bool).

Definition c17case_id (c : c17case) : N := match c with CST i _ _ _ _ => i end.

(* the model's reader size is irrelevant (C15); 64 keeps evaluation cheap while
   still forcing buffer growth on long lines *)
Definition c17case_ok (c : c17case) : bool :=
  match c with
  | CST _ _ cs out ended => stream_ok 64 cs out && ended
  end.

Definition mismatches (l : list c17case) : list N := failing c17case_ok c17case_id l.

Definition T (i : nat) (l : bytes) : tagged := (i, l).
Definition W (closed : bool) (c : conn) : bool * conn := (closed, c).
