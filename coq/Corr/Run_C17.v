(* Correspondence cases for C17: real fifo / stdin pipe / unix / tcp / unixgram /
   udp streams; per writer the chunks it wrote and whether it closed before
   the stream was cancelled; the lines received from the stream's channel, each
   attributed to a writer by the tag in its payload (an unparsable line gets
   the out-of-range tag). *)
From Coq Require Export String.
From V Require Export Base.Bytes Tail.LineReader Tail.Conn Corr.Hex.

(* ---- volume cases: several hundred KiB through ONE datagram stream ----
   The datagrams are generated, not shipped: datagram j of a case holds the
   lines lpd*j .. lpd*j+lpd-1, line k being 'A', k in six decimal digits, ':'
   and [fill] times 'x'.  What was received is shipped as runs of consecutive
   canonical lines and raw lines for everything else. *)
Definition digit (n : N) : byte := (48 + n mod 10)%N.
Definition d6 (k0 : nat) : bytes :=
  let k := N.of_nat k0 in
  [digit (k / 100000); digit (k / 10000); digit (k / 1000); digit (k / 100); digit (k / 10); digit k]%N.
Definition canon (fill k : nat) : bytes := 65%N :: d6 k ++ 58%N :: repeat 120%N fill.
Definition datagram (lpd fill j : nat) : bytes :=
  concat (map (fun k => canon fill k ++ [NL]) (seq (lpd * j) lpd)).

Inductive vitem := VRun (start count : nat) | VRaw (l : bytes).
Definition expand (fill : nat) (items : list vitem) : list bytes :=
  flat_map (fun it => match it with
                      | VRun s c => map (canon fill) (seq s c)
                      | VRaw l => [l]
                      end) items.

Inductive c17case :=
| CST (id : N) (kind : N) (cs : list (bool * conn)) (out : list tagged) (ended : bool)
| CVOL (id : N) (kind : N) (nd lpd fill : nat) (got : list vitem) (ended : bool).

Definition c17case_id (c : c17case) : N := match c with CST i _ _ _ _ | CVOL i _ _ _ _ _ _ => i end.

(* the model's reader size is irrelevant (C15); 64 keeps evaluation cheap while
   still forcing buffer growth on long lines *)
(* datagramReadBufferSize of dgramstream.go; [dgram_lines_spec] is what
   C17_dgram_lines_cut proves [dgram_lines] (the concrete reader, one datagram
   per Read) to be, and it is evaluated instead because the concrete reader
   with a 128 KiB buffer costs seconds per datagram under vm_compute *)
Definition dgram_buffer : nat := N.to_nat 131072.

Definition c17case_ok (c : c17case) : bool :=
  match c with
  | CST _ _ cs out ended => stream_ok 64 cs out && ended
  | CVOL _ _ nd lpd fill got ended =>
      list_eqb bytes_eqb
        (dgram_lines_spec dgram_buffer (map (fun j => (0%nat, datagram lpd fill j)) (seq 0 nd)))
        (expand fill got) && ended
  end.

Definition mismatches (l : list c17case) : list N := failing c17case_ok c17case_id l.

Definition T (i : nat) (l : bytes) : tagged := (i, l).
Definition W (closed : bool) (c : conn) : bool * conn := (closed, c).

