(* Correspondence cases shared by C05 and C07: what the harness observed on a
   real vm.VM (metric values, datum times, runtime-error counter after every
   line), re-computed by Lang/TimeReg.v with the time library tabulated. *)
From Coq Require Import List ZArith Bool String Ascii.
From V Require Export Lang.TimeReg.
Import ListNotations.
Local Open Scope Z_scope.

(* printable strings are written as Coq string literals in the case files
   (much faster to read than lists of numbers) *)
Fixpoint bs (s : string) : bytes :=
  match s with
  | EmptyString => []
  | String a r => N_of_ascii a :: bs r
  end.
Arguments bs s%string_scope.

(* one row per (layout, value) the case parses, for the case's zone and current
   year: None = time.Parse failed; Some (ns, year, ns after AddDate(year_now,0,0)) *)
Definition ttab := list (bytes * bytes * option (Z * Z * Z)).

Fixpoint tab_find (t : ttab) (layout value : bytes) : option (Z * Z * Z) :=
  match t with
  | [] => None
  | (l, v, r) :: rest =>
      if bytes_eqb l layout && bytes_eqb v value then r else tab_find rest layout value
  end.

Definition tab_parse (t : ttab) (_ : N) (layout value : bytes) : option ptime :=
  match tab_find t layout value with
  | Some (ns, y, _) => Some {| pt_ns := ns; pt_year := y |}
  | None => None
  end.
Definition tab_adj (t : ttab) (_ : N) (layout value : bytes) (_ : Z) : Z :=
  match tab_find t layout value with
  | Some (_, _, a) => a
  | None => 0
  end.

Definition cell_eqb (a b : cell) : bool :=
  Z.eqb (d_val a) (d_val b) && Z.eqb (d_time a) (d_time b).

(* The harness lists the live slots only: the scalar metrics, then the label
   sets of each dimensioned metric in the order of Metric.LabelValues.  The
   model lists slots in creation order across all metrics, which the harness
   cannot see; stores are therefore compared as finite maps: the same number of
   entries, every slot of one present in the other with the same value and
   the same datum time. *)
Fixpoint store_find (m : N) (st : store) : option cell :=
  match st with
  | [] => None
  | (m', c) :: r => if N.eqb m m' then Some c else store_find m r
  end.
Definition store_sub (a b : store) : bool :=
  forallb (fun e => match store_find (fst e) b with
                    | Some c => cell_eqb (snd e) c
                    | None => false
                    end) a.
Definition store_eqb (a b : store) : bool :=
  Nat.eqb (length a) (length b) && store_sub a b && store_sub b a.
Definition world_eqb (a b : world) : bool :=
  store_eqb (w_store a) (w_store b) && N.eqb (w_errs a) (w_errs b).

(* a step of the recorded run: a line given to ProcessLogLine, or label sets
   (slots) removed with Metric.RemoveDatum by the harness, outside the VM,
   between two lines - what Store.Gc does *)
Inductive titem :=
| TLine (l : line)
| TExt (ms : list N).

Definition titem_step (i : titem) : hstep :=
  match i with
  | TLine l => HLine l
  | TExt ms => HWorld (ext_del ms)
  end.

(* obs: the world after every item *)
Inductive tcase :=
| TRun (id : N) (cfg : config) (tab : ttab) (w0 : world) (items : list titem) (obs : list world).

Definition tcase_id (c : tcase) : N := match c with TRun i _ _ _ _ _ => i end.

Definition tcase_ok (c : tcase) : bool :=
  match c with
  | TRun _ cfg tab w0 items obs =>
      list_eqb world_eqb
        (run_htrace_new (tab_parse tab) (tab_adj tab) cfg (map titem_step items) (w0, vm_init_new)) obs
  end.

Definition mismatches (l : list tcase) : list N := failing tcase_ok tcase_id l.
