(* C20 - additional correspondence: the STRUCTURE of the runtime's goroutines.
   The models Run/Reload.v (C20) and Run/Pipeline.v (C19) assume facts about
   runtime.go / vm.go that the behavioural correspondence only samples.  Here
   the ordered-events IR (Export/SeqIR.v) of the five functions is re-extracted
   from the current source on every run (harness/xlate/seqir.go) and each case
   obliges the verified automaton checker to accept it:
     SLoop     the line loop of runtime.New            (facts a, d)
     SReload   Runtime.CompileAndRun                   (fact b)
     SUnload   Runtime.UnloadProgram                   (fact c)
     SStartVM  Runtime.startVM, entered write-locked   (facts b, c)
     SVmGo     startVM's goroutine with VM.Run inlined (fact e)
   `invs` are loop invariants proposed by the harness; the checker verifies them.
   Ids start at 900000 so that they cannot collide with the run cases. *)
From Coq Require Import List NArith Bool.
Import ListNotations.
From V Require Import Base.Bytes.
From V Require Export Export.SeqIR.
Local Open Scope N_scope.

Inductive c20scase :=
| SLoop (id : N) (b : list qstmt) (invs : list (N * list lq))
| SReload (id : N) (b : list qstmt) (invs : list (N * list rq))
| SUnload (id : N) (b : list qstmt) (invs : list (N * list lk))
| SStartVM (id : N) (b : list qstmt) (invs : list (N * list lk))
| SVmGo (id : N) (b : list qstmt) (invs : list (N * list vq)).

Definition c20scase_id (c : c20scase) : N :=
  match c with SLoop i _ _ | SReload i _ _ | SUnload i _ _ | SStartVM i _ _ | SVmGo i _ _ => i end.

Fixpoint assoc {A} (l : list (N * list A)) (k : N) : list A :=
  match l with
  | [] => []
  | (k', v) :: r => if N.eqb k k' then v else assoc r k
  end.

Definition is_nil {A} (l : list A) : bool := match l with [] => true | _ => false end.

Definition c20scase_ok (c : c20scase) : bool :=
  match c with
  | SLoop _ b invs => is_nil (qviolations lq lq_eqb d_loop (assoc invs) (qblock_of b) (mkLQ L0 false))
  | SReload _ b invs => is_nil (qviolations rq rq_eqb d_reload (assoc invs) (qblock_of b) (mkRQ L0 O0))
  | SUnload _ b invs => is_nil (qviolations lk lk_eqb d_lock (assoc invs) (qblock_of b) L0)
  | SStartVM _ b invs => is_nil (qviolations lk lk_eqb d_lock (assoc invs) (qblock_of b) LW)
  | SVmGo _ b invs => is_nil (qviolations vq vq_eqb d_vm (assoc invs) (qblock_of b) V0)
  end.

Definition mismatches (l : list c20scase) : list N := failing c20scase_ok c20scase_id l.
