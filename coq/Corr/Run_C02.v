(* C02 correspondence: what opt.Optimise and the real VM did, re-computed by
   Lang/Fold.v over primitive floats.  Floats are 64-bit patterns. *)
From Coq Require Import ZArith NArith List Bool Floats.
From V Require Export Base.Bytes Lang.Fold Lang.FoldFloat.
Import ListNotations.
Local Open Scope N_scope.

(* literals and trees as dumped by the harness: F := N (bit pattern) *)
Definition xlit := lit N.
Definition xtree := tree N.

Definition lit_in (l : xlit) : lit float :=
  match l with LInt z => LInt z | LFloat b => LFloat (of_bits b) end.
Definition lit_out (l : lit float) : xlit :=
  match l with LInt z => LInt z | LFloat f => LFloat (to_bits f) end.

Fixpoint tree_map {A B} (g : lit A -> lit B) (t : tree A) : tree B :=
  match t with
  | TLit l => TLit (g l)
  | TLeaf i => TLeaf i
  | TBin o l r => TBin o (tree_map g l) (tree_map g r)
  | TNode tag cs => TNode tag (trees_map g cs)
  | TNoWalk tag t => TNoWalk tag (tree_map g t)
  end
with trees_map {A B} (g : lit A -> lit B) (ts : trees A) : trees B :=
  match ts with
  | TNil => TNil
  | TCons t r => TCons (tree_map g t) (trees_map g r)
  end.

Definition xlit_eqb (a b : xlit) : bool :=
  match a, b with
  | LInt x, LInt y => Z.eqb x y
  | LFloat x, LFloat y => N.eqb x y
  | _, _ => false
  end.

Fixpoint xtree_eqb (a b : xtree) : bool :=
  match a, b with
  | TLit x, TLit y => xlit_eqb x y
  | TLeaf i, TLeaf j => N.eqb i j
  | TBin o l r, TBin o' l' r' => op_eqb o o' && xtree_eqb l l' && xtree_eqb r r'
  | TNode t cs, TNode t' cs' => N.eqb t t' && xtrees_eqb cs cs'
  | TNoWalk t x, TNoWalk t' y => N.eqb t t' && xtree_eqb x y
  | _, _ => false
  end
with xtrees_eqb (a b : trees N) : bool :=
  match a, b with
  | TNil, TNil => true
  | TCons x r, TCons y s => xtree_eqb x y && xtrees_eqb r s
  | _, _ => false
  end.

(* what opt.Optimise made of  BinaryExpr{op, lit, lit} *)
Inductive fobs := FLit (l : xlit) | FErr.
(* what the program  g = l op r  compiled WITHOUT the optimiser did *)
Inductive vobs := VVal (l : xlit) | VRuntimeErr | VCompileErr.

Inductive c2case :=
| CBin (id : N) (tb : tabs) (o : op) (l r : xlit) (f : fobs) (v : vobs)
| CTree (id : N) (tb : tabs) (t0 t1 : xtree) (errs : N).

Definition c2case_id (c : c2case) : N :=
  match c with CBin i _ _ _ _ _ _ | CTree i _ _ _ _ => i end.

(* the unfolded operator on two literals: no state, no opaque construct *)
Definition dummy : den_t (F:=float) unit := (TyOther 0, fun s => (RErr, s)).
Definition eval_lits (tb : tabs) (o : op) (l r : lit float) : bool * res float :=
  let fo := prim_fops tb in
  let t := TBin o (TLit l) (TLit r) in
  let ok := shape_ok fo unit (fun _ => dummy) (fun _ _ => dummy) (fun _ _ => dummy) (fun _ _ _ => dummy)
              (fun _ => None) (fun _ => None) t in
  let d := den fo unit (fun _ => dummy) (fun _ _ => dummy) (fun _ _ => dummy) (fun _ _ _ => dummy)
              (fun _ => None) (fun _ => None) t in
  (ok, fst (snd d tt)).

Definition c2case_ok (c : c2case) : bool :=
  match c with
  | CBin _ tb o l r f v =>
      let fo := prim_fops tb in
      (match fold_bin fo o (lit_in l) (lit_in r), f with
       | Some x, FLit y => xlit_eqb (lit_out x) y
       | None, FErr => true
       | _, _ => false
       end) &&
      (match eval_lits tb o (lit_in l) (lit_in r), v with
       | (false, _), VCompileErr => true
       | (true, RErr), VRuntimeErr => true
       | (true, ROk (VInt z)), VVal (LInt z') => Z.eqb z z'
       | (true, ROk (VFloat x)), VVal (LFloat b) => N.eqb (to_bits x) b
       | _, _ => false
       end)
  | CTree _ tb t0 t1 errs =>
      let fo := prim_fops tb in
      let (t', e) := fold_tree (fold_bin fo) false (tree_map lit_in t0) in
      xtree_eqb (tree_map lit_out t') t1 && N.eqb e errs
  end.

Definition mismatches (l : list c2case) : list N := failing c2case_ok c2case_id l.
