(* C25 correspondence.
   C25L: the expvar deltas after every step of a loader history on the real
         Runtime vs the counters of Run/Loader.v (snapshots carry counters).
   C25T: an end-to-end run of mtail.Server (real tailer, real loader) over
         generated log files: after every tailer event (file created and picked
         up, bytes appended, file removed) the deltas of log_count, lines_total
         and log_lines_total per file vs Run/TailCounters.v.
   C25D: the real fan-out loop of runtime.New over stand-in programs (handles
         whose channel the harness reads), driven through an exact interleaving
         of sends, the close, hand-overs and the loader's own end of input
         (Run/Shutdown.v): the interleaving must be one the model allows,
         lines_total wherever it was read while the loader had nothing in hand,
         lines_total after shutdown, and the lines every stand-in received.
   C25E: a history on the real Runtime with real VMs, ended by lines pushed back
         to back and the channel closed 0-200 us after the last send (a VM may
         still be busy with a slow line): the counters read after shutdown vs
         Run/Loader.v settled by the model of the end of the run, under the
         earliest and the latest position of the close.
   C25S: histories of program-directory scans (LoadAllPrograms on a real
         directory: programs that never compiled, are removed, renamed, hidden,
         replaced by a directory, repaired) with the counters in every
         snapshot vs Run/DirScan.v. *)
From V Require Export Corr.LoaderRun Corr.Run_C26 Run.TailCounters Run.Shutdown.
Local Open Scope N_scope.

Record tobs := mktobs { to_log_count : Z; to_lines_total : N; to_log_lines : list (bytes * N) }.

Definition tobs_ok (ts : tstate) (o : tobs) : bool :=
  Z.eqb (to_log_count o) (ts_log_count ts)
  && N.eqb (to_lines_total o) (N.of_nat (length (ts_out ts)))
  && forallb (fun fn => N.eqb (snd fn) (counted ts (fst fn))) (to_log_lines o)
  && forallb (fun fn => match blookup (fst fn) (to_log_lines o) with
                        | Some _ => true
                        | None => N.eqb (snd fn) 0
                        end) (ts_counted ts).

Inductive c25case :=
| C25L (c : lcase)
| C25T (id : N) (evs : list tev) (obs : list tobs)
| C25D (id : N) (names : list bytes) (acts : list act) (obs : list (option N)) (final : N)
       (got : list (bytes * list cline))
| C25E (id : N) (omit : bool) (ct : ctab) (vt : vtab) (ops : list op) (ls : list cline) (obs : ocounters)
| C25S (c : dcase).

Definition c25_id (c : c25case) : N :=
  match c with C25L l => lcase_id l | C25T i _ _ => i | C25D i _ _ _ _ _ => i | C25E i _ _ _ _ _ _ => i | C25S d => dcase_id d end.

Definition cline_eqb (a b : cline) : bool := N.eqb (fst a) (fst b) && Z.eqb (snd a) (snd b).

Definition read_ok (cs : cstate) (o : option N) : bool :=
  match o with None => true | Some n => N.eqb n (cs_lines cs) end.

Definition c25d_ok (names : list bytes) (acts : list act) (obs : list (option N)) (final : N)
    (got : list (bytes * list cline)) : bool :=
  match ctrace (cinit names) acts, crun (cinit names) acts with
  | Some tr, Some cs =>
      all2 read_ok tr obs && finished cs && N.eqb final (cs_lines cs)
      && Nat.eqb (length got) (length names)
      && forallb (fun pg => bmem (fst pg) names && list_eqb cline_eqb (snd pg) (done_of cs (fst pg))) got
  | _, _ => false     (* a step the channels do not allow *)
  end.

Definition c25e_ok (omit : bool) (ct : ctab) (vt : vtab) (ops : list op) (ls : list cline) (obs : ocounters) : bool :=
  let st0 := run_from true true omit (ctab_get ct) (vtab_get vt) st_empty ops in
  let names := live st0 in
  let after (sched : list act) :=
    match crun (cinit names) sched with
    | Some cs => finished cs && counters_ok (settle (vtab_get vt) st0 cs) (Some obs)
    | None => false
    end in
  after (sched_early names ls) && after (sched_late names ls).

Definition c25_ok (c : c25case) : bool :=
  match c with
  | C25L l => lcase_ok l
  | C25T _ evs obs => all2 tobs_ok (ttrace ts_empty evs) obs
  | C25D _ names acts obs final got => c25d_ok names acts obs final got
  | C25E _ omit ct vt ops ls obs => c25e_ok omit ct vt ops ls obs
  | C25S d => dcase_ok d
  end.

Definition mismatches (l : list c25case) : list N := failing c25_ok c25_id l.
