(* C25 correspondence: the expvar deltas after every step of a history on the
   real Runtime vs the counters of Run/Loader.v (snapshots carry counters). *)
From V Require Export Corr.LoaderRun.
Definition mismatches := lmismatches.
