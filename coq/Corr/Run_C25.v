(* C25 correspondence.
   C25L: the expvar deltas after every step of a loader history on the real
         Runtime vs the counters of Run/Loader.v (snapshots carry counters).
   C25T: an end-to-end run of mtail.Server (real tailer, real loader) over
         generated log files: after every tailer event (file created and picked
         up, bytes appended, file removed) the deltas of log_count, lines_total
         and log_lines_total per file vs Run/TailCounters.v. *)
From V Require Export Corr.LoaderRun Run.TailCounters.
Local Open Scope N_scope.

Record tobs := mktobs { to_log_count : Z; to_lines_total : N; to_log_lines : list (bytes * N) }.

Definition tobs_ok (ts : tstate) (o : tobs) : bool :=
  Z.eqb (to_log_count o) (ts_log_count ts)
  && N.eqb (to_lines_total o) (N.of_nat (length (ts_out ts)))
  && forallb (fun fn => N.eqb (snd fn) (counted ts (fst fn))) (to_log_lines o)
  && forallb (fun fn => match blookup (fst fn) (to_log_lines o) with
                        | Some _ => true
                        | None => N.eqb (snd fn) 0
                        end) (ts_counted ts).

Inductive c25case :=
| C25L (c : lcase)
| C25T (id : N) (evs : list tev) (obs : list tobs).

Definition c25_id (c : c25case) : N :=
  match c with C25L l => lcase_id l | C25T i _ _ => i end.

Definition c25_ok (c : c25case) : bool :=
  match c with
  | C25L l => lcase_ok l
  | C25T _ evs obs => all2 tobs_ok (ttrace ts_empty evs) obs
  end.

Definition mismatches (l : list c25case) : list N := failing c25_ok c25_id l.
