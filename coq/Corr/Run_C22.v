(* C22 correspondence: records written by the real HandleVarz, HandleGraphite,
   writeSocketMetrics (graphite/statsd/collectd formatters) and HandleJSON on a
   real store, against Export/Formats.v.  Records are compared as multisets
   (Store.Range iterates a Go map). *)
From V Require Export Export.Formats.
Local Open Scope N_scope.

Fixpoint count_by {A} (e : A -> A -> bool) (x : A) (l : list A) : nat :=
  match l with [] => 0%nat | y :: r => ((if e x y then 1 else 0) + count_by e x r)%nat end.
Definition perm_eqb {A} (e : A -> A -> bool) (a b : list A) : bool :=
  Nat.eqb (length a) (length b) && forallb (fun x => Nat.eqb (count_by e x a) (count_by e x b)) a.

Fixpoint json_eqb (a b : json) {struct a} : bool :=
  match a, b with
  | JNull, JNull => true
  | JBool x, JBool y => Bool.eqb x y
  | JNum x, JNum y => bytes_eqb x y
  | JStr x, JStr y => bytes_eqb x y
  | JArr x, JArr y =>
      (fix go (x y : list json) : bool :=
         match x, y with
         | [], [] => true
         | p :: x', q :: y' => json_eqb p q && go x' y'
         | _, _ => false
         end) x y
  | JObj x, JObj y =>
      (fix go (x y : list (bytes * json)) : bool :=
         match x, y with
         | [], [] => true
         | (k, p) :: x', (k', q) :: y' => bytes_eqb k k' && json_eqb p q && go x' y'
         | _, _ => false
         end) x y
  | _, _ => false
  end.

Inductive c22case :=
| CFmt (id : N) (c : cfg) (s : list metric)
       (varz graphite_http graphite_push statsd collectd : list bytes)
       (js : option (list json)).

Definition c22_id (c : c22case) : N := match c with CFmt i _ _ _ _ _ _ _ _ => i end.

Definition optperm (a b : option (list json)) : bool :=
  match a, b with
  | Some x, Some y => perm_eqb json_eqb x y
  | None, None => true
  | _, _ => false
  end.

Definition c22_ok (x : c22case) : bool :=
  match x with
  | CFmt _ c s varz gh gp sd cd js =>
      perm_eqb bytes_eqb (export_varz c s) varz &&
      perm_eqb bytes_eqb (export_graphite_http c s) gh &&
      perm_eqb bytes_eqb (export_graphite_push c s) gp &&
      perm_eqb bytes_eqb (export_statsd c s) sd &&
      perm_eqb bytes_eqb (export_collectd c s) cd &&
      optperm (json_store s) js
  end.

(* which of the six outputs disagree (for diagnosis) *)
Definition c22_parts (x : c22case) : list bool :=
  match x with
  | CFmt _ c s varz gh gp sd cd js =>
      [perm_eqb bytes_eqb (export_varz c s) varz; perm_eqb bytes_eqb (export_graphite_http c s) gh;
       perm_eqb bytes_eqb (export_graphite_push c s) gp; perm_eqb bytes_eqb (export_statsd c s) sd;
       perm_eqb bytes_eqb (export_collectd c s) cd; optperm (json_store s) js]
  end.

Definition mismatches (l : list c22case) : list N := failing c22_ok c22_id l.
