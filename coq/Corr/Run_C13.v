(* C13 correspondence: a store built on the real metrics package, scraped with
   Exporter.Write (prometheus registry + text encoder) and parsed back with
   expfmt.TextParser, against Export/Prom.v.  Floats are 64-bit patterns
   (F := N): Collect does no float arithmetic except int64 -> float64, which is
   evaluated with Coq's primitive floats.  Samples are compared as multisets,
   labels within a sample as multisets (Go map order is unspecified). *)
From V Require Export Export.Prom Metrics.FloatBits.
Local Open Scope N_scope.

Definition of_int_bits (z : Z) : N := to_bits (of_int64 z).

Definition ptype_eqb (a b : ptype) : bool :=
  match a, b with
  | PCounter, PCounter | PGauge, PGauge | PUntyped, PUntyped | PHistogram, PHistogram => true
  | _, _ => false
  end.
Definition lbl_eqb (a b : bytes * bytes) : bool := bytes_eqb (fst a) (fst b) && bytes_eqb (snd a) (snd b).
Definition nn_eqb (a b : N * N) : bool := N.eqb (fst a) (fst b) && N.eqb (snd a) (snd b).

Fixpoint count_by {A} (e : A -> A -> bool) (x : A) (l : list A) : nat :=
  match l with [] => 0%nat | y :: r => ((if e x y then 1 else 0) + count_by e x r)%nat end.
Definition perm_eqb {A} (e : A -> A -> bool) (a b : list A) : bool :=
  Nat.eqb (length a) (length b) && forallb (fun x => Nat.eqb (count_by e x a) (count_by e x b)) a.

Definition sval_eqb (a b : sval N) : bool :=
  match a, b with
  | SV x, SV y => N.eqb x y
  | SH c s cum, SH c' s' cum' => N.eqb c c' && N.eqb s s' && list_eqb nn_eqb cum cum'
  | _, _ => false
  end.
Definition optZ_eqb (a b : option Z) : bool :=
  match a, b with Some x, Some y => Z.eqb x y | None, None => true | _, _ => false end.

Definition sample_eqb (a b : sample N) : bool :=
  bytes_eqb (s_name a) (s_name b) && bytes_eqb (s_help a) (s_help b) &&
  perm_eqb lbl_eqb (s_labels a) (s_labels b) && ptype_eqb (s_typ a) (s_typ b) &&
  sval_eqb (s_val a) (s_val b) && optZ_eqb (s_ts a) (s_ts b).

Inductive c13case :=
| CProm (id : N) (omit emit : bool) (s : list (list (metric N))) (obs : list (sample N)).

Definition c13_id (c : c13case) : N := match c with CProm i _ _ _ _ => i end.

Definition c13_model (omit emit : bool) (s : list (list (metric N))) : list (sample N) :=
  collect bits_ops of_int_bits 0 {| omit_prog := omit; emit_ts := emit |} s.

(* the tabulated representability oracle (prometheus.NewDesc + NewConstMetric
   called by the harness) agrees with the concrete rules of Export/Prom.v on
   every label set of the store *)
Definition repr_agrees (omit emit : bool) (s : list (list (metric N))) : bool :=
  forallb (fun g => forallb (fun m => forallb (fun ls =>
     Bool.eqb (ls_repr ls) (representable {| omit_prog := omit; emit_ts := emit |} m ls)) (m_lvs m)) g) s.

Definition c13_ok (c : c13case) : bool :=
  match c with
  | CProm _ omit emit s obs => perm_eqb sample_eqb (c13_model omit emit s) obs && repr_agrees omit emit s
  end.

Definition mismatches (l : list c13case) : list N := failing c13_ok c13_id l.
