(* Correspondence cases shared by C08/C09/C10: what the harness observed on a
   real metrics.Metric, re-computed by the model. *)
From V Require Export Metrics.LabelKey Metrics.MetricMap.
Local Open Scope N_scope.

Definition value_eqb (a b : value) : bool :=
  match a, b with
  | VInt x, VInt y => Z.eqb x y
  | VFloat x, VFloat y => N.eqb x y
  | VStr x, VStr y => bytes_eqb x y
  | _, _ => false
  end.
Definition cell_eqb (a b : cell) : bool :=
  value_eqb (c_val a) (c_val b) && Z.eqb (c_time a) (c_time b) && Z.eqb (c_expiry a) (c_expiry b).
Definition entry_eqb (a b : tuple * N * cell) : bool :=
  let '(la, pa, ca) := a in let '(lb, pb, cb) := b in
  tuple_eqb la lb && N.eqb pa pb && cell_eqb ca cb.
Definition out_eqb (a b : out) : bool :=
  match a, b with
  | RDatum p, RDatum q => N.eqb p q
  | ROk, ROk | RErrArity, RErrArity | RErrNoDatum, RErrNoDatum => true
  | RListing x, RListing y => list_eqb entry_eqb x y
  | _, _ => false
  end.

Inductive mcase :=
| CKey (id : N) (ls : tuple) (key : bytes)
| CRun (id : N) (arity : nat) (t : vtype) (ops : list op) (outs : list out).

Definition mcase_id (c : mcase) : N :=
  match c with CKey i _ _ | CRun i _ _ _ _ => i end.

Definition mcase_ok (c : mcase) : bool :=
  match c with
  | CKey _ ls key => bytes_eqb (encode ls) key
  | CRun _ n t ops outs => list_eqb out_eqb (snd (c_run encode (c_init n t) ops)) outs
  end.

Definition mismatches (l : list mcase) : list N := failing mcase_ok mcase_id l.
