(* C26 correspondence: histories of directory edits, each followed by
   LoadAllPrograms on a real directory, interleaved with lines, vs Run/DirScan.v. *)
From V Require Export Corr.LoaderRun Run.DirScan.
Local Open Scope N_scope.

Inductive dcase :=
| DCase (id : N) (omit : bool) (ct : ctab) (vt : vtab) (ops : list dop) (obs : list snap).

Definition dcase_id (c : dcase) : N := match c with DCase i _ _ _ _ _ => i end.

Definition dcase_ok (c : dcase) : bool :=
  match c with
  | DCase _ omit ct vt ops obs =>
      all2 snap_ok (dtrace true true omit (ctab_get ct) (vtab_get vt) st_empty ops) obs
  end.

Definition mismatches (l : list dcase) : list N := failing dcase_ok dcase_id l.
