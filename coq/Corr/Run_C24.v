(* C24 correspondence: the error classes the real compiler reported for a
   program, re-computed by Lang/NameCheck.v. *)
From Coq Require Import List Bool NArith ZArith.
From V Require Export Base.Bytes Lang.NameCheck.
Import ListNotations.
Local Open Scope N_scope.

Fixpoint re_table (t : list (bytes * option (list (list bytes)))) (p : bytes) : option (list (list bytes)) :=
  match t with
  | [] => None
  | (q, v) :: r => if bytes_eqb q p then v else re_table r p
  end.

Definition count (c : N) (l : list N) : N :=
  fold_left (fun a x => if N.eqb x c then a + 1 else a) l 0.

(* classes compared exactly (the model is complete for them on generated programs) *)
Definition exact_codes : list N := [1; 2; 3; 4; 5; 6; 7; 8; 9; 10; 11; 12; 13; 14; 15; 16].

Inductive c24case :=
(* stage 0: the optimiser rejected (only literal-zero divisors are reported);
   stage 1: the checker's verdict (possibly no error) *)
| CProg (id : N) (tab : list (bytes * option (list (list bytes)))) (max_re : N) (p : node)
        (stage : N) (obs : list N).

Definition c24case_id (c : c24case) : N := match c with CProg i _ _ _ _ _ => i end.

Definition c24case_ok (c : c24case) : bool :=
  match c with
  | CProg _ tab mx p stage obs =>
      let m := map err_code (check (re_table tab) mx p) in
      if N.eqb stage 0 then
        (* the optimiser stopped the compile at a literal / literal-zero pair:
           the model flags a zero divisor as well *)
        N.leb 1 (count 17 m)
      else
        forallb (fun c => N.eqb (count c m) (count c obs)) exact_codes &&
        N.leb (count 17 m) (count 17 obs)
  end.

Definition mismatches (l : list c24case) : list N := failing c24case_ok c24case_id l.
