(* C04 correspondence: a real compiled code.Object, the lines fed to the real
   VM, what the real VM did (per-line outcome, final store), and the oracle
   tables for the library functions; the model is re-run on the same bytecode
   and [verify] judges the bytecode. *)
From V Require Export Lang.Elab Proofs.ElabSound.
From V Require Export Lang.Vm Lang.Verify Metrics.FloatBits.
Local Open Scope Z_scope.

(* byte strings are written by the harness as (length, big-endian number):
   Coq reads a hexadecimal numeral much faster than a list of small numbers *)
Fixpoint bz_aux (n : nat) (x : N) (acc : bytes) : bytes :=
  match n with
  | O => acc
  | S n' => bz_aux n' (N.shiftr x 8) (N.land x 255 :: acc)
  end.
Definition bz (n : nat) (x : N) : bytes := bz_aux n x [].
Definition bzs (l : list (nat * N)) : bytes := flat_map (fun c => bz (fst c) (snd c)) l.

(* ---- an executable env: primitive floats + harness tables ---- *)
Record tables := mktables {
  tb_re_match : list (N * bytes * option (list bytes));
  tb_re_replace : list (N * bytes * bytes * bytes);
  tb_parse_int : list (bytes * Z * Z * option Z);
  tb_parse_float : list (bytes * option N);
  tb_fmt_G : list (N * bytes);
  tb_fmt_g : list (N * bytes);
  tb_to_lower : list (bytes * bytes);
  tb_str_replace : list (bytes * bytes * bytes * bytes);
  tb_time_parse : list (bytes * bytes * option timeval);
  tb_fl_mod : list (N * N * N);
  tb_fl_pow : list (N * N * N);
  tb_i_pow : list (Z * Z * Z)
}.

Fixpoint lookup {K V} (eqb : K -> K -> bool) (k : K) (l : list (K * V)) : option V :=
  match l with
  | [] => None
  | (k', v) :: r => if eqb k k' then Some v else lookup eqb k r
  end.

Definition pair_eqb {A B} (ea : A -> A -> bool) (eb : B -> B -> bool) (x y : A * B) : bool :=
  ea (fst x) (fst y) && eb (snd x) (snd y).

(* a query the harness did not tabulate: a value no Go function returns *)
Definition miss : bytes := [0; 77; 73; 83; 83]%N.

Definition orelse {A} (x : option A) (d : A) : A := match x with Some v => v | None => d end.

Definition fbin (f : float -> float -> float) (a b : N) : N := to_bits (f (of_bits a) (of_bits b)).
Definition fcmp (f : float -> float -> bool) (a b : N) : bool := f (of_bits a) (of_bits b).

Definition mk_env (tb : tables) (now : Z) : env := {|
  re_match := fun i s => orelse (lookup (pair_eqb N.eqb bytes_eqb) (i, s) (tb_re_match tb)) (Some [miss]);
  re_replace := fun i v r =>
    orelse (lookup (pair_eqb (pair_eqb N.eqb bytes_eqb) bytes_eqb) (i, v, r) (tb_re_replace tb)) miss;
  parse_int := fun s b n =>
    orelse (lookup (pair_eqb (pair_eqb bytes_eqb Z.eqb) Z.eqb) (s, b, n) (tb_parse_int tb)) (Some (-77777));
  parse_float := fun s => orelse (lookup bytes_eqb s (tb_parse_float tb)) (Some 77777%N);
  fmt_G := fun f => orelse (lookup N.eqb f (tb_fmt_G tb)) miss;
  fmt_g := fun f => orelse (lookup N.eqb f (tb_fmt_g tb)) miss;
  to_lower := fun s => orelse (lookup bytes_eqb s (tb_to_lower tb)) miss;
  str_replace := fun v o r =>
    orelse (lookup (pair_eqb (pair_eqb bytes_eqb bytes_eqb) bytes_eqb) (v, o, r) (tb_str_replace tb)) miss;
  time_parse := fun l v =>
    orelse (lookup (pair_eqb bytes_eqb bytes_eqb) (l, v) (tb_time_parse tb)) (Some (77777, 77));
  fl_add := fbin PrimFloat.add;
  fl_sub := fbin PrimFloat.sub;
  fl_mul := fbin PrimFloat.mul;
  fl_div := fbin PrimFloat.div;
  fl_mod := fun a b => orelse (lookup (pair_eqb N.eqb N.eqb) (a, b) (tb_fl_mod tb)) 77777%N;
  fl_pow := fun a b => orelse (lookup (pair_eqb N.eqb N.eqb) (a, b) (tb_fl_pow tb)) 77777%N;
  fl_lt := fcmp PrimFloat.ltb;
  fl_eq := fcmp PrimFloat.eqb;
  fl_le := fcmp PrimFloat.leb;
  fl_of_int := fun z => to_bits (of_int64 z);
  i_pow := fun a b => orelse (lookup (pair_eqb Z.eqb Z.eqb) (a, b) (tb_i_pow tb)) (-77777);
  now_sec := now
|}.

(* ---- observations ---- *)

(* what the harness reads off a metrics.Metric: LabelValues in slice order *)
Definition proj := list (list (tuple * dval * dtime * Z)).

Definition project (st : store) : proj :=
  map (fun lvs => map (fun lv =>
         match nth_error (s_heap st) (lv_datum lv) with
         | Some c => (lv_labels lv, d_val c, d_time c, lv_expiry lv)
         | None => (lv_labels lv, DStr miss, TNow, lv_expiry lv)
         end) lvs) (s_mets st).

Definition dval_eqb (a b : dval) : bool :=
  match a, b with
  | DInt x, DInt y => Z.eqb x y
  | DFloat x, DFloat y => N.eqb x y
  | DStr x, DStr y => bytes_eqb x y
  | DBuckets c s, DBuckets c' s' => N.eqb c c' && N.eqb s s'
  | _, _ => false
  end.
Definition dtime_eqb (a b : dtime) : bool :=
  match a, b with TNow, TNow => true | TAt x, TAt y => Z.eqb x y | _, _ => false end.
Definition entry_eqb (a b : tuple * dval * dtime * Z) : bool :=
  let '(la, va, ta, ea) := a in let '(lb, vb, tb, eb) := b in
  tuple_eqb la lb && dval_eqb va vb && dtime_eqb ta tb && Z.eqb ea eb.
Definition proj_eqb : proj -> proj -> bool := list_eqb (list_eqb entry_eqb).

(* per-line observation of the real VM *)
Inductive obs := ONext | OStopped | OErr (e : err) | OFault.

Definition err_eqb (a b : err) : bool :=
  match a, b with
  | EConvInt, EConvInt | EConvFloat, EConvFloat | EStrptime, EStrptime | EDivZero, EDivZero
  | EShift, EShift | ERange, ERange | ECapture, ECapture | ENoDatum, ENoDatum => true
  | _, _ => false
  end.

Definition obs_match (oc : outcome) (ob : obs) : bool :=
  match oc, ob with
  | Next, ONext | Stopped, OStopped => true
  | Err e, OErr e' => err_eqb e e'
  | Fault _, OFault => true
  | _, _ => false
  end.

Fixpoint obs_all (ocs : list outcome) (obs : list obs) : bool :=
  match ocs, obs with
  | [], [] => true
  | oc :: r, ob :: r' => obs_match oc ob && obs_all r r'
  | _, _ => false
  end.

(* ---- what the harness expects of [verify] ---- *)
Inductive expect := MustVerify | MustReject | Either
  | NoVerdict.   (* hand-assembled bytecode: only model = VM is compared *)

(* (opcode, representation class) of the known findings of known/C04.json:
   Length feeding Settime; a metric assigned values of two numeric types
   (no conversion is inserted for = and +=); a Float- or String-valued condition *)
Definition kind_eqb (a b : kind) : bool :=
  match a, b with
  | KNil, KNil | KBool, KBool | KI64, KI64 | KInt, KInt | KF64, KF64 | KStr, KStr
  | KMetric, KMetric | KDatum, KDatum | KDur, KDur => true
  | _, _ => false
  end.

Definition known_reject (d : diag) : bool :=
  let '(_, op, k) := d in
  match k with
  | KI64 | KF64 => true      (* numeric-operand / cond-operand: int64 where float64 is due or the reverse *)
  | KDatum => true           (* datum-type: a datum of another type than the instruction's *)
  | KInt | KStr =>           (* settime-operand, cond-operand *)
      match op with Settime | Jnm | Jm => true | _ => false end
  | KBool =>                 (* neg/bool: ~ applied to a comparison *)
      match op with Neg => true | _ => false end
  | _ => false
  end.

Definition verify_as (e : expect) (o : object) : bool :=
  match e with NoVerdict => true | _ =>
  match verify_diag o with
  | None => match e with MustReject => false | _ => true end
  | Some d => match e with MustVerify => false | _ => known_reject d end
  end end.

(* ---- the checker tie (Lang/Elab.v): what the real compiler made of the source ---- *)
Inductive xexp :=
| XRejected
| XObj (prog : list instr) (strs res : list bytes) (mets : list (mkind * mtype * nat)).

(* which warnings the stream must / must not produce *)
Inductive want := WantClean | WantWarn (w : warn) | WantAny.

Definition operand_eqb (a b : operand) : bool :=
  match a, b with
  | ONil, ONil => true
  | OInt x, OInt y | OI64 x, OI64 y | ODur x, ODur y => Z.eqb x y
  | OF64 x, OF64 y => N.eqb x y
  | OBool x, OBool y => Bool.eqb x y
  | _, _ => false
  end.

(* model instruction vs real instruction.  The model always selects the typed
   comparison; codegen.go falls back to the generic cmp for numeric operands
   whose type object is a copy (results of builtins), which computes the same *)
Definition instr_eqv (m r : instr) : bool :=
  operand_eqb (i_arg m) (i_arg r) &&
  (opcode_eqb (i_op m) (i_op r) ||
   match i_op m, i_op r with Icmp, Cmp | Fcmp, Cmp => true | _, _ => false end).

Definition mkind_eqb (a b : mkind) : bool :=
  match a, b with
  | KCounter, KCounter | KGauge, KGauge | KTimer, KTimer | KText, KText | KHistogram, KHistogram => true
  | _, _ => false
  end.
Definition met_eqb (d : mdesc) (x : mkind * mtype * nat) : bool :=
  let '(k, t, n) := x in mkind_eqb (Bytecode.md_kind d) k && mtype_eqb (md_type d) t && Nat.eqb (md_arity d) n.

Fixpoint list_eqb2 {A B} (f : A -> B -> bool) (a : list A) (b : list B) : bool :=
  match a, b with
  | [], [] => true
  | x :: a', y :: b' => f x y && list_eqb2 f a' b'
  | _, _ => false
  end.

Definition warn_eqb (a b : warn) : bool :=
  match a, b with
  | WSettime, WSettime | WMixed, WMixed | WCond, WCond | WNeg, WNeg | WOther, WOther | WNotWt, WNotWt => true
  | _, _ => false
  end.

Definition want_ok (x : want) (w : list warn) : bool :=
  match x with
  | WantClean => negb (existsb is_family w) && negb (existsb (warn_eqb WOther) w)
  | WantWarn v => existsb (warn_eqb v) w
  | WantAny => true
  end.

Definition elab_ok (x : want) (u : pre_prog) (r : xexp) : bool :=
  match elab u with
  | EUnsup => true                          (* outside the modelled part of the checker *)
  | EReject => match r with XRejected => true | _ => false end
  | EOk (p, w) =>
      match r with
      | XRejected => false
      | XObj ins ss rs ms =>
          let o := codegen p in
          list_eqb2 instr_eqv (o_prog o) ins && list_eqb bytes_eqb (o_strs o) ss &&
          list_eqb bytes_eqb (p_res p) rs && list_eqb2 met_eqb (o_metrics o) ms &&
          (* an unaccepted tree is always announced by a family warning *)
          (negb (existsb (warn_eqb WOther) w) || existsb is_family w) &&
          want_ok x w
      end
  end.

Definition elab_unsup (u : pre_prog) : bool := match elab u with EUnsup => true | _ => false end.

Inductive case :=
| CRun (id : N) (o : object) (tb : tables) (now : Z) (e : expect)
       (init : proj) (lines : list logline) (outs : list obs) (final : option proj)
| CElab (id : N) (x : want) (u : pre_prog) (r : xexp).

Definition case_id (c : case) : N :=
  match c with CRun i _ _ _ _ _ _ _ _ => i | CElab i _ _ _ => i end.

Definition case_ok (c : case) : bool :=
  match c with
  | CRun _ o tb now e init lines outs final =>
      let E := mk_env tb now in
      proj_eqb (project (init_store o)) init &&
      (let (ocs, s) := run_lines E o lines (init_vm o) in
       obs_all ocs outs &&
       match final with Some f => proj_eqb (project (vs_store s)) f | None => true end) &&
      verify_as e o
  | CElab _ x u r => elab_ok x u r
  end.

(* checker-tie cases the model declines to judge *)
Definition unsupported (l : list case) : list N :=
  flat_map (fun c => match c with CElab i _ u _ => if elab_unsup u then [i] else [] | _ => [] end) l.

Definition mismatches (l : list case) : list N := failing case_ok case_id l.

(* which of the three parts failed, for debugging a disagreement *)
Definition explain (c : case) :=
  match c with
  | CRun _ o tb now e init lines outs final =>
      let E := mk_env tb now in
      let (ocs, s) := run_lines E o lines (init_vm o) in
      (proj_eqb (project (init_store o)) init, ocs, project (vs_store s), verify_diag o)
  | CElab _ _ _ _ => (true, [], [], None)
  end.
