(* Correspondence cases for C23: an expression statement (or condition) of a
   generated program as the real parser built it, the tokens of the real
   Unparser's output for it, and the tokens of its original source text.
   The model's printer must produce the formatter's tokens, and the model's
   parser must rebuild the tree from both token lists. *)
From V Require Export Base.Bytes Lang.Grammar Lang.Unparse Lang.UnparseDecl Lang.Program Lang.Literals.

Definition atom_eqb (a b : atom) : bool :=
  match a, b with
  | AInt x, AInt y => Z.eqb x y
  | AFloat x, AFloat y => N.eqb x y
  | AStr x, AStr y => bytes_eqb x y
  | ACapref n x, ACapref m y => Bool.eqb n m && bytes_eqb x y
  | ARegex x, ARegex y => bytes_eqb x y
  | _, _ => false
  end.

Definition binop_code (o : binop) : N :=
  match o with
  | OAnd => 0 | OOr => 1 | OMatch => 2 | ONotMatch => 3 | OBitAnd => 4 | OBitOr => 5 | OXor => 6
  | OLt => 7 | OGt => 8 | OLe => 9 | OGe => 10 | OEq => 11 | ONe => 12 | OShl => 13 | OShr => 14
  | OPlus => 15 | OMinus => 16 | OMul => 17 | ODiv => 18 | OMod => 19 | OPow => 20
  end%N.
Definition binop_eqb (a b : binop) : bool := N.eqb (binop_code a) (binop_code b).

Fixpoint expr_eqb (a b : expr) : bool :=
  match a, b with
  | Atom x, Atom y => atom_eqb x y
  | Id x i, Id y j => bytes_eqb x y && exprs_eqb i j
  | Call x i, Call y j => bytes_eqb x y && exprs_eqb i j
  | Bin o l r, Bin p l' r' => binop_eqb o p && expr_eqb l l' && expr_eqb r r'
  | Not x, Not y => expr_eqb x y
  | Post b x, Post c y => Bool.eqb b c && expr_eqb x y
  | _, _ => false
  end
with exprs_eqb (a b : exprs) : bool :=
  match a, b with
  | ENil, ENil => true
  | ECons x r, ECons y s => expr_eqb x y && exprs_eqb r s
  | _, _ => false
  end.

Definition estmt_eqb (a b : estmt) : bool :=
  match a, b with
  | SExpr x, SExpr y => expr_eqb x y
  | SAssign p l r, SAssign q l' r' => Bool.eqb p q && expr_eqb l l' && expr_eqb r r'
  | _, _ => false
  end.

Definition tk_eqb (a b : tk) : bool :=
  match a, b with
  | TAtom x, TAtom y => atom_eqb x y
  | TId x, TId y => bytes_eqb x y
  | TBuiltin x, TBuiltin y => bytes_eqb x y
  | TOp x, TOp y => binop_eqb x y
  | TNot, TNot | TLP, TLP | TRP, TRP | TLB, TLB | TRB, TRB | TComma, TComma => true
  | TPost x, TPost y => Bool.eqb x y
  | TAssign x, TAssign y => Bool.eqb x y
  | _, _ => false
  end.

Definition parses_to (ts : list tk) (a : estmt) : bool :=
  match parse ts with Some b => estmt_eqb a b | None => false end.

Definition dtk_eqb (a b : dtk) : bool :=
  match a, b with
  | DHidden, DHidden | DBy, DBy | DComma, DComma | DAs, DAs | DLimit, DLimit | DBuckets, DBuckets => true
  | DKind x, DKind y => N.eqb x y
  | DName x, DName y => bytes_eqb x y
  | DStr x, DStr y => bytes_eqb x y
  | DInt x, DInt y => Z.eqb x y
  | DNum x, DNum y => N.eqb x y
  | _, _ => false
  end.

Definition decl_eqb (a b : decl) : bool :=
  Bool.eqb (d_hidden a) (d_hidden b) && N.eqb (d_kind a) (d_kind b) && bytes_eqb (d_name a) (d_name b)
  && list_eqb bytes_eqb (d_keys a) (d_keys b) && Z.eqb (d_limit a) (d_limit b)
  && list_eqb N.eqb (d_buckets a) (d_buckets b) && bytes_eqb (d_as a) (d_as b).

Definition decl_parses_to (ts : list dtk) (d : decl) : bool :=
  match parse_decl ts with Some d' => decl_eqb d d' | None => false end.

Definition ptk_eqb (a b : ptk) : bool :=
  match a, b with
  | PE x, PE y => tk_eqb x y
  | PD x, PD y => dtk_eqb x y
  | PNL, PNL | PLC, PLC | PRC, PRC | PElse, PElse | POtherwise, POtherwise | PDef, PDef
  | PNext, PNext | PStop, PStop | PDel, PDel | PConst, PConst => true
  | PDeco x, PDeco y => bytes_eqb x y
  | PAfter x, PAfter y => Z.eqb x y
  | _, _ => false
  end.

Fixpoint stmt_eqb (a b : stmt) : bool :=
  match a, b with
  | SExprS x, SExprS y => estmt_eqb x y
  | SDecl x, SDecl y => decl_eqb x y
  | SConst x e, SConst y e' => bytes_eqb x y && expr_eqb e e'
  | SIf c t, SIf c' t' => expr_eqb c c' && block_eqb t t'
  | SIfElse c t e, SIfElse c' t' e' => expr_eqb c c' && block_eqb t t' && block_eqb e e'
  | SOtherwise t, SOtherwise t' => block_eqb t t'
  | SDef x b1, SDef y b2 => bytes_eqb x y && block_eqb b1 b2
  | SDeco x b1, SDeco y b2 => bytes_eqb x y && block_eqb b1 b2
  | SNext, SNext | SStop, SStop => true
  | SDel e n, SDel e' n' => expr_eqb e e' && Z.eqb n n'
  | _, _ => false
  end
with block_eqb (a b : block) : bool :=
  match a, b with
  | BNil, BNil => true
  | BCons s r, BCons s' r' => stmt_eqb s s' && block_eqb r r'
  | _, _ => false
  end.

Definition prog_parses_to (ts : list ptk) (p : program) : bool :=
  match parse_prog ts with Some q => block_eqb p q | None => false end.

Inductive c23case :=
| CExpr (id : N) (a : estmt) (fmt_toks src_toks : list tk)
| CDecl (id : N) (d : decl) (fmt_toks src_toks : list dtk)
(* a whole program: the tree of the real parser+checker, the token stream of the
   real Unparser's output and of the original source *)
| CProg (id : N) (p : program) (fmt_toks src_toks : list ptk)
(* a string (q = 34) or pattern (q = 47) literal: its text in the tree and the
   bytes the real Unparser wrote between the delimiters *)
| CLit (id : N) (q : N) (text printed : bytes).

Definition c23_id (c : c23case) : N := match c with CExpr i _ _ _ | CDecl i _ _ _ | CProg i _ _ _ | CLit i _ _ _ => i end.

Definition c23_ok (c : c23case) : bool :=
  match c with
  | CExpr _ a fmt_toks src_toks =>
      list_eqb tk_eqb (unparse a) fmt_toks && parses_to fmt_toks a && parses_to src_toks a
  | CDecl _ d fmt_toks src_toks =>
      list_eqb dtk_eqb (unparse_decl d) fmt_toks && decl_parses_to fmt_toks d
      && decl_parses_to src_toks d
  | CProg _ p fmt_toks src_toks =>
      wf_block p && list_eqb ptk_eqb (unparse_prog p) fmt_toks && prog_parses_to fmt_toks p
      && prog_parses_to src_toks p
  | CLit _ q text printed =>
      imgb q text && bytes_eqb (esc q text) printed &&
      match unq q (printed ++ [q]) with
      | Some (t, []) => bytes_eqb t text
      | _ => false
      end
  end.

Definition mismatches (l : list c23case) : list N := failing c23_ok c23_id l.
