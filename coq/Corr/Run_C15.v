(* Correspondence cases for C15: a scripted io.Reader fed to the real
   logstream.LineReader; per ReadAndSend call the harness records what the
   reader was offered (len p), what it returned, the lines sent on the channel
   during the call and the bytes left pending; then the lines sent by Finish. *)
From Coq Require Export String.
From V Require Export Base.Bytes Tail.LineReader Corr.Hex.

Definition obs_eqb (a b : obs) : bool :=
  Nat.eqb (o_space a) (o_space b) && Nat.eqb (o_count a) (o_count b) &&
  list_eqb bytes_eqb (o_lines a) (o_lines b) && bytes_eqb (o_pending a) (o_pending b).

Inductive c15case :=
| CLR (id : N) (sz : nat) (script : list bytes) (os : list obs) (fin : list bytes)
(* the reader returns an error together with the last byte of a chunk
   (0 = nil, 1 = io.EOF, 2 = another error); per call the observation and the
   error ReadAndSend handed back *)
| CLRE (id : N) (sz : nat) (script : list (bytes * N)) (os : list (obs * N)) (fin : list bytes)
(* one reader used over several generations: each generation's reads, then
   Finish (what it sent), then the same reader goes on *)
| CLRG (id : N) (sz : nat) (gens : list (list bytes)) (res : list (list obs * list bytes)).

Definition c15case_id (c : c15case) : N := match c with CLR i _ _ _ _ => i | CLRE i _ _ _ _ => i | CLRG i _ _ _ => i end.

Definition obsE_eqb (a b : obs * N) : bool := obs_eqb (fst a) (fst b) && N.eqb (snd a) (snd b).

Definition O (sp n : nat) (ls : list bytes) (p : bytes) : obs := mk_obs sp n ls p.

Definition c15case_ok (c : c15case) : bool :=
  match c with
  | CLR _ sz script os fin =>
      let (os', r) := run_all sz script in
      list_eqb obs_eqb os' os && list_eqb bytes_eqb (finish r) fin && negb (bad r)
  | CLRE _ sz script os fin =>
      let (os', r) := run_allE sz script in
      list_eqb obsE_eqb os' os && list_eqb bytes_eqb (finish r) fin && negb (bad r)
  | CLRG _ sz gens res =>
      let (res', r) := run_gens (new_lr sz) gens in
      list_eqb (fun a b => list_eqb obs_eqb (fst a) (fst b) && list_eqb bytes_eqb (snd a) (snd b)) res' res
      && negb (bad r)
  end.

Definition mismatches (l : list c15case) : list N := failing c15case_ok c15case_id l.
