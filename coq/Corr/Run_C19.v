(* Correspondence cases for C19: generated programs (rule lists) and files
   run through a real one-shot mtail.Server; a sequential schedule of
   Run/Pipeline.v built from the order in which program 0 processed the lines;
   per program the observed processing order of the matching lines and the
   final hits / sum / last.  The schedule must be a run of the model ending in
   Done, and for EVERY program the model's processed list (restricted to
   matching lines) and the rules evaluated over it must equal the observation. *)
From V Require Export Base.Bytes Run.Pipeline.
Local Open Scope N_scope.

Inductive c19case :=
| C19Run (id : N) (progs : list (list rule)) (files : list (list (option (N * N))))
         (evs : list event) (returned : bool) (obs : list (list (N * N) * (Z * Z * Z))).

Definition c19case_id (c : c19case) : N := match c with C19Run i _ _ _ _ _ => i end.

Definition ids {A} (l : list A) : list N := map N.of_nat (seq 0 (length l)).

Definition decode (files : list (list (option (N * N)))) (l : line) : option (N * N) :=
  nth (N.to_nat (snd l)) (nth (N.to_nat (fst l)) files []) None.

Definition content (files : list (list (option (N * N)))) (f : N) : list N :=
  ids (nth (N.to_nat f) files []).

Definition n2_eqb (a b : N * N) : bool := N.eqb (fst a) (fst b) && N.eqb (snd a) (snd b).
Definition z3_eqb (a b : Z * Z * Z) : bool :=
  let '(a1, a2, a3) := a in let '(b1, b2, b3) := b in Z.eqb a1 b1 && Z.eqb a2 b2 && Z.eqb a3 b3.

Fixpoint all2 {A B} (f : A -> B -> bool) (l : list A) (m : list B) : bool :=
  match l, m with
  | [], [] => true
  | x :: l', y :: m' => f x y && all2 f l' m'
  | _, _ => false
  end.

Definition c19case_ok (c : c19case) : bool :=
  match c with
  | C19Run _ progs files evs returned obs =>
      returned &&
      match run (ids files) (ids progs) (init (content files)) evs with
      | None => false
      | Some s =>
          done s &&
          all2 (fun (pr : N * list rule) (o : list (N * N) * (Z * Z * Z)) =>
                  let got := processed s (fst pr) in
                  list_eqb n2_eqb (filter (fun l => match decode files l with Some _ => true | None => false end) got) (fst o) &&
                  z3_eqb (run_lines (decode files) (snd pr) got) (snd o))
               (combine (ids progs) progs) obs
      end
  end.

Definition mismatches (l : list c19case) : list N := failing c19case_ok c19case_id l.
