(* Correspondence cases for C18: a history of file-system operations, pattern
   polls and stream polls applied to a real tailer.Tailer over a real
   directory; recorded are the key set of Tailer.logstreams and log_count after
   construction and after every operation, the forwarded lines (path of the
   stream, file, line index; sorted) and the final tree.  The glob and ignore
   tables were filled by filepath.Match and the ignore regexp. *)
From V Require Export Base.Bytes Tail.Paths.
Local Open Scope N_scope.

Definition U4 : list path := [0; 1; 2; 3].

Definition tab2 (t : list (list bool)) (i j : N) : bool :=
  nth (N.to_nat j) (nth (N.to_nat i) t []) false.
Definition tab1 (t : list bool) (j : N) : bool := nth (N.to_nat j) t false.

(* initial tree: per path 0 absent, 1 readable file, 2 directory, 3 file that
   cannot be opened, 4 socket; inode = path + 1 *)
Definition init_tree (init : list N) (p : path) : option node :=
  match nth (N.to_nat p) init 0 with
  | 1 => Some (File true (p + 1))
  | 2 => Some (Dir (p + 1))
  | 3 => Some (File false (p + 1))
  | 4 => Some (Sock (p + 1))
  | _ => None
  end.

Definition fwd3 (f : fwd) : N * N * N := (f_path f, f_ino f, f_idx f).

Definition t3_leb (a b : N * N * N) : bool :=
  let '(a1, a2, a3) := a in let '(b1, b2, b3) := b in
  if N.ltb a1 b1 then true else if N.ltb b1 a1 then false else
  if N.ltb a2 b2 then true else if N.ltb b2 a2 then false else N.leb a3 b3.
Fixpoint ins3 (x : N * N * N) (l : list (N * N * N)) :=
  match l with
  | [] => [x]
  | y :: r => if t3_leb x y then x :: l else y :: ins3 x r
  end.
Definition sort3 (l : list (N * N * N)) := fold_right ins3 [] l.

Definition t3_eqb (a b : N * N * N) : bool :=
  let '(a1, a2, a3) := a in let '(b1, b2, b3) := b in N.eqb a1 b1 && N.eqb a2 b2 && N.eqb a3 b3.

Definition obs_eqb (a b : list N * Z) : bool :=
  list_eqb N.eqb (fst a) (fst b) && Z.eqb (snd a) (snd b).

Definition tree_code (s : state) (p : path) : N * N :=
  match tree s p with
  | None => (0, 0)
  | Some (File true i) => (1, i)
  | Some (File false i) => (3, i)
  | Some (Dir i) => (2, i)
  | Some (Sock i) => (4, i)
  end.
Definition n2_eqb (a b : N * N) : bool := N.eqb (fst a) (fst b) && N.eqb (snd a) (snd b).

Inductive c18case :=
| C18Run (id : N) (init : list N) (glob : list (list bool)) (ign : list bool) (ops : list op)
         (obs : list (list N * Z)) (deliv : list (N * N * N)) (tr : list (N * N)).

Definition c18case_id (c : c18case) : N := match c with C18Run i _ _ _ _ _ _ _ => i end.

Section Trace.
Variable pats : list N.
Variable g : N -> path -> bool.
Variable ig : path -> bool.
Definition observe (s : state) : list N * Z := (tailed U4 s, count s).
Fixpoint trace (s : state) (h : list op) : list (list N * Z) * state :=
  match h with
  | [] => ([], s)
  | o :: r => let s' := step U4 pats g ig s o in
              let (t, f) := trace s' r in (observe s' :: t, f)
  end.
End Trace.

Definition c18case_ok (c : c18case) : bool :=
  match c with
  | C18Run _ init glob ign ops obs deliv tr =>
      let pats := map N.of_nat (seq 0 (length glob)) in
      let s0 := start U4 pats (tab2 glob) (tab1 ign) (init_tree init) (fun _ => 0) in
      let (t, f) := trace pats (tab2 glob) (tab1 ign) s0 ops in
      list_eqb obs_eqb (observe s0 :: t) obs &&
      list_eqb t3_eqb (sort3 (map fwd3 (out f))) deliv &&
      list_eqb n2_eqb (map (tree_code f) U4) tr
  end.

Definition mismatches (l : list c18case) : list N := failing c18case_ok c18case_id l.
