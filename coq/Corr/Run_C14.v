(* C14 correspondence: reload histories on the real Runtime vs Run/Loader.v. *)
From V Require Export Corr.LoaderRun.
Definition mismatches := lmismatches.
