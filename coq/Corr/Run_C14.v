(* C14 correspondence.
   C14L: reload histories through CompileAndRun on the real Runtime vs Run/Loader.v.
   C14D: reload histories through LoadAllPrograms on a real program directory
         (edits, failed reloads, lines afterwards) vs Run/DirScan.v. *)
From V Require Export Corr.LoaderRun Corr.Run_C26.
Local Open Scope N_scope.

Inductive c14case :=
| C14L (c : lcase)
| C14D (c : dcase).

Definition c14_id (c : c14case) : N :=
  match c with C14L l => lcase_id l | C14D d => dcase_id d end.
Definition c14_ok (c : c14case) : bool :=
  match c with C14L l => lcase_ok l | C14D d => dcase_ok d end.

Definition mismatches (l : list c14case) : list N := failing c14_ok c14_id l.
