(* Correspondence for C10: a real Store holding real metrics built by an
   operation sequence, then Store.Gc(); the model recomputes the listing. *)
From V Require Export Corr.MetricRun Metrics.Gc.
Local Open Scope N_scope.

Inductive gcase :=
| CGc (id : N) (arity : nat) (t : vtype) (limit : nat) (ops : list op) (now : Z)
      (after : list (tuple * N * cell)).

Definition gcase_id (c : gcase) : N := match c with CGc i _ _ _ _ _ _ => i end.

Definition gcase_ok (c : gcase) : bool :=
  match c with
  | CGc _ n t limit ops now after =>
      let m := fst (c_run encode (c_init n t) ops) in
      let m' := c_gc encode limit now m in
      list_eqb entry_eqb (map (fun lv => (lv_labels lv, lv_ptr lv, lv_cell lv)) (m_slice m')) after
  end.

Definition mismatches (l : list gcase) : list N := failing gcase_ok gcase_id l.
