(* Correspondence for C10: a real Store holding real metrics built by an
   operation sequence, then Store.Gc(); the model recomputes the listing.
   CHist: the same metric lives on: operations, Store.Gc(), more operations,
   Store.Gc() again, ...; the model recomputes the result of every operation
   and the listing after every pass. *)
From V Require Export Corr.MetricRun Metrics.Gc.
Local Open Scope N_scope.

Inductive gcase :=
| CGc (id : N) (arity : nat) (t : vtype) (limit : nat) (ops : list op) (now : Z)
      (after : list (tuple * N * cell))
| CHist (id : N) (arity : nat) (t : vtype) (limit : nat) (evs : list event) (obs : list hobs).

Definition gcase_id (c : gcase) : N :=
  match c with CGc i _ _ _ _ _ _ | CHist i _ _ _ _ _ => i end.

Definition hobs_eqb (a b : hobs) : bool :=
  match a, b with
  | HOuts x, HOuts y => list_eqb out_eqb x y
  | HAfter x, HAfter y => list_eqb entry_eqb x y
  | _, _ => false
  end.

Definition gcase_ok (c : gcase) : bool :=
  match c with
  | CGc _ n t limit ops now after =>
      let m := fst (c_run encode (c_init n t) ops) in
      let m' := c_gc encode limit now m in
      list_eqb entry_eqb (map (fun lv => (lv_labels lv, lv_ptr lv, lv_cell lv)) (m_slice m')) after
  | CHist _ n t limit evs obs =>
      list_eqb hobs_eqb (snd (h_run encode limit (c_init n t) evs)) obs
  end.

Definition mismatches (l : list gcase) : list N := failing gcase_ok gcase_id l.
