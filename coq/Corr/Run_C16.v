(* Correspondence cases for C16: a history of operations on a real file under
   a real Tailer, and everything the tailer delivered until it closed. *)
From Coq Require Export String.
From V Require Export Base.Bytes Tail.LineReader Tail.FileStream Corr.Hex.

(* run-length form of a line list (consecutive equal lines), for the cases
   that deliver ~16 000 identical lines *)
Fixpoint rle (l : list bytes) : list (bytes * nat) :=
  match l with
  | [] => []
  | x :: r =>
      match rle r with
      | (y, n) :: t => if bytes_eqb x y then (y, S n) :: t else (x, 1%nat) :: (y, n) :: t
      | [] => [(x, 1%nat)]
      end
  end.
Definition run_eqb (a b : bytes * nat) : bool := bytes_eqb (fst a) (fst b) && Nat.eqb (snd a) (snd b).
Definition R (l : bytes) (n : nat) : bytes * nat := (l, n).

Inductive c16case :=
| CFS (id : N) (init : option bytes) (ops : list op) (got : list bytes)
| CFSR (id : N) (init : option bytes) (ops : list op) (got : list (bytes * nat)).

Definition c16case_id (c : c16case) : N := match c with CFS i _ _ _ | CFSR i _ _ _ => i end.

Definition c16case_ok (c : c16case) : bool :=
  match c with
  | CFS _ init ops got => list_eqb bytes_eqb (delivered init ops) got
  | CFSR _ init ops got => list_eqb run_eqb (rle (delivered init ops)) got
  end.

Definition mismatches (l : list c16case) : list N := failing c16case_ok c16case_id l.

(* the same cases judged by the model of the code before the repairs
   (used while developing against the unrepaired tree) *)
Definition c16case_ok_old (c : c16case) : bool :=
  match c with
  | CFS _ init ops got => list_eqb bytes_eqb (delivered_old init ops) got
  | CFSR _ init ops got => list_eqb run_eqb (rle (delivered_old init ops)) got
  end.
Definition mismatches_old (l : list c16case) : list N := failing c16case_ok_old c16case_id l.
