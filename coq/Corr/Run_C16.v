(* Correspondence cases for C16: a history of operations on a real file under
   a real Tailer, and everything the tailer delivered until it closed. *)
From Coq Require Export String.
From V Require Export Base.Bytes Tail.LineReader Tail.FileStream Corr.Hex.

Inductive c16case :=
| CFS (id : N) (init : option bytes) (ops : list op) (got : list bytes).

Definition c16case_id (c : c16case) : N := match c with CFS i _ _ _ => i end.

Definition c16case_ok (c : c16case) : bool :=
  match c with
  | CFS _ init ops got => list_eqb bytes_eqb (delivered init ops) got
  end.

Definition mismatches (l : list c16case) : list N := failing c16case_ok c16case_id l.

(* the same cases judged by the model of the code before the repairs
   (used while developing against the unrepaired tree) *)
Definition c16case_ok_old (c : c16case) : bool :=
  match c with
  | CFS _ init ops got => list_eqb bytes_eqb (delivered_old init ops) got
  end.
Definition mismatches_old (l : list c16case) : list N := failing c16case_ok_old c16case_id l.
