(* C12 correspondence cases.
   CClosure: the IR of one export closure (and of the emitter) as re-extracted
   from the current source by harness/xlate; the obligation is that the
   verified checker accepts it, so that C12_balanced_sound applies.
   CInject: one fault-injection run against the real exporter `fn`; `obs_ok`
   is what the harness observed afterwards (every metric lockable, no goroutine
   left, a later export completes).  If the checker accepts the IR of `fn`,
   the theorem predicts obs_ok = true; an accepted IR with a bad observation
   means the IR (translator) or the semantics does not describe the code. *)
From Coq Require Import List NArith Bool.
Import ListNotations.
From V Require Import Base.Bytes.
From V Require Export Export.PathIR.

Inductive c12case :=
| CClosure (id : N) (fn : N) (e : list estmt) (b : list stmt)
| CInject (id : N) (fn : N) (e : list estmt) (b : list stmt) (obs_ok : bool).

Definition c12case_id (c : c12case) : N :=
  match c with CClosure i _ _ _ | CInject i _ _ _ _ => i end.

Definition c12case_ok (c : c12case) : bool :=
  match c with
  | CClosure _ _ e b => closure_ok e b
  | CInject _ _ e b obs => implb (closure_ok e b) obs
  end.

Definition mismatches (l : list c12case) : list N := failing c12case_ok c12case_id l.
