(* C21 correspondence: what the harness observed on the real codegen.CodeGen,
   datum.Buckets.Observe and Exporter.Collect, re-computed by Metrics/Buckets.v
   instantiated with Coq's primitive binary64 floats.  Floats are 64-bit
   patterns; NaNs are canonicalised on both sides. *)
From V Require Export Metrics.Buckets Metrics.FloatBits.
Local Open Scope N_scope.

Definition pair_eqb (a b : N * N) : bool := N.eqb (fst a) (fst b) && N.eqb (snd a) (snd b).
Definition opt_eqb {A} (e : A -> A -> bool) (a b : option A) : bool :=
  match a, b with Some x, Some y => e x y | None, None => true | _, _ => false end.

Definition range_of_bits (p : N * N) : range :=
  {| r_min := of_bits (fst p); r_max := of_bits (snd p) |}.
Definition range_to_bits (r : @range float) : N * N := (to_bits (r_min r), to_bits (r_max r)).

Inductive c21case :=
(* codegen: declared boundaries -> m.Buckets as (min,max) pairs, None = compile error *)
| CDecl (id : N) (bounds : list N) (res : option (list (N * N)))
(* NewBuckets(ranges) then Observe each value: final per-bucket (min,max,count),
   Count, Sum *)
| CObs (id : N) (ranges : list (N * N)) (vs : list N)
       (buckets : list (N * N * N)) (count : N) (sum : N)
(* declaration + observations scraped through a prometheus registry:
   (upper bound, cumulative count) in increasing bound order, sample count, sample sum *)
| CExp (id : N) (bounds : list N) (vs : list N) (res : option (list (N * N) * N * N))
(* a metric whose Buckets are the given ranges IN ANY ORDER (store API), observed and
   scraped: (upper bound, cumulative count) in increasing bound order, count, sum *)
| CExpR (id : N) (ranges : list (N * N)) (vs : list N) (res : list (N * N) * N * N).

Definition c21_id (c : c21case) : N :=
  match c with CDecl i _ _ | CObs i _ _ _ _ _ | CExp i _ _ _ | CExpR i _ _ _ => i end.

Definition decl_model (bounds : list N) : option (list (N * N)) :=
  option_map (map range_to_bits) (make_ranges prim_ops (map of_bits bounds)).

Definition obs_model (ranges : list (N * N)) (vs : list N) : list (N * N * N) * N * N :=
  let d := observe_all prim_ops (map of_bits vs) (make_buckets prim_ops (map range_of_bits ranges)) in
  (map (fun rc => (range_to_bits (fst rc), snd rc)) (b_buckets d), b_count d, to_bits (b_sum d)).

Definition exp_model (bounds vs : list N) : option (list (N * N) * N * N) :=
  match declare_observe prim_ops (map of_bits bounds) (map of_bits vs) with
  | Some d => Some (map (fun p => (to_bits (fst p), snd p)) (cum_by_max prim_ops d), b_count d, to_bits (b_sum d))
  | None => None
  end.

Definition expr_model (ranges : list (N * N)) (vs : list N) : list (N * N) * N * N :=
  let d := observe_all prim_ops (map of_bits vs) (make_buckets prim_ops (map range_of_bits ranges)) in
  (map (fun p => (to_bits (fst p), snd p)) (cum_by_max prim_ops d), b_count d, to_bits (b_sum d)).

Definition triple_eqb (a b : N * N * N) : bool := pair_eqb (fst a) (fst b) && N.eqb (snd a) (snd b).
Definition exp_eqb (a b : list (N * N) * N * N) : bool :=
  list_eqb pair_eqb (fst (fst a)) (fst (fst b)) && N.eqb (snd (fst a)) (snd (fst b)) && N.eqb (snd a) (snd b).

Definition c21_ok (c : c21case) : bool :=
  match c with
  | CDecl _ bounds res => opt_eqb (list_eqb pair_eqb) (decl_model bounds) res
  | CObs _ ranges vs buckets count sum =>
      let '(b, c', s) := obs_model ranges vs in
      list_eqb triple_eqb b buckets && N.eqb c' count && N.eqb s sum
  | CExp _ bounds vs res => opt_eqb exp_eqb (exp_model bounds vs) res
  | CExpR _ ranges vs res => exp_eqb (expr_model ranges vs) res
  end.

Definition mismatches (l : list c21case) : list N := failing c21_ok c21_id l.
