(* float64 values cross the Go/Coq boundary as 64-bit patterns (N < 2^64),
   never as decimal text.  [of_bits]/[to_bits] convert between a pattern and a
   Coq primitive binary64 float through [SpecFloat] (stdlib only).  Every NaN is
   written back as the one canonical quiet NaN pattern; the harness
   canonicalises NaNs the same way before printing a case.
   Executable definitions only; used by the correspondence files, not by the
   theorems (which are stated over an abstract float type). *)
From Coq Require Export Floats.
From Coq Require Import Uint63.
From V Require Export Base.Bytes Metrics.Buckets.
Local Open Scope Z_scope.

Definition nan_bits : N := 0x7FF8000000000001%N.   (* math.NaN() *)

Definition bits_to_SF (b : Z) : SpecFloat.spec_float :=
  let s := Z.testbit b 63 in
  let e := Z.land (Z.shiftr b 52) 2047 in
  let m := Z.land b (2^52 - 1) in
  if e =? 0 then
    match m with Zpos p => SpecFloat.S754_finite s p (-1074) | _ => SpecFloat.S754_zero s end
  else if e =? 2047 then
    (if m =? 0 then SpecFloat.S754_infinity s else SpecFloat.S754_nan)
  else
    match m + 2^52 with
    | Zpos p => SpecFloat.S754_finite s p (e - 1075)
    | _ => SpecFloat.S754_nan
    end.

Definition SF_to_bits (f : SpecFloat.spec_float) : Z :=
  match f with
  | SpecFloat.S754_zero s => if s then 2^63 else 0
  | SpecFloat.S754_infinity s => (if s then 2^63 else 0) + 2047 * 2^52
  | SpecFloat.S754_nan => Z.of_N nan_bits
  | SpecFloat.S754_finite s m e =>
      (if s then 2^63 else 0) +
      (if Z.pos m <? 2^52 then Z.pos m else (e + 1075) * 2^52 + (Z.pos m - 2^52))
  end.

Definition of_bits (b : N) : float := SF2Prim (bits_to_SF (Z.of_N b)).
Definition to_bits (f : float) : N := Z.to_N (SF_to_bits (Prim2SF f)).

(* Go: float64(int64) conversion (round to nearest even); |z| <= 2^63 *)
Definition of_int64 (z : Z) : float :=
  if z =? - 2^63 then SF2Prim (SpecFloat.S754_finite true (2^52)%positive 11)
  else if z <? 0 then PrimFloat.opp (PrimFloat.of_uint63 (Uint63.of_Z (- z)))
  else PrimFloat.of_uint63 (Uint63.of_Z z).

Definition prim_ops : fops float := {|
  f_leb := PrimFloat.leb;
  f_ltb := PrimFloat.ltb;
  f_add := PrimFloat.add;
  f_zero := zero;
  f_inf := infinity;
  f_is_pinf := fun x => PrimFloat.eqb x infinity
|}.

(* the same operations on 64-bit patterns (F := N) *)
Definition bits_ops : fops N := {|
  f_leb := fun a b => PrimFloat.leb (of_bits a) (of_bits b);
  f_ltb := fun a b => PrimFloat.ltb (of_bits a) (of_bits b);
  f_add := fun a b => to_bits (PrimFloat.add (of_bits a) (of_bits b));
  f_zero := 0%N;
  f_inf := 0x7FF0000000000000%N;
  f_is_pinf := fun a => N.eqb a 0x7FF0000000000000%N
|}.

Definition fbits_eqb (a b : N) : bool := N.eqb a b.
