(* internal/metrics/metric.go: buildLabelValueKey.
   [encode] is the code after the repair ("fix: escape the escape character in
   label keys"); [encode_old] is the code before it, kept only for the
   refutation theorem. *)
From V Require Export Base.Bytes.
Local Open Scope N_scope.

Definition DASH : byte := 45.
Definition BSL : byte := 92.

(* strings.ReplaceAll(strings.ReplaceAll(l, `\`, `\\`), "-", `\-`) *)
Fixpoint esc (l : bytes) : bytes :=
  match l with
  | [] => []
  | c :: r => if N.eqb c DASH then BSL :: DASH :: esc r
              else if N.eqb c BSL then BSL :: BSL :: esc r
              else c :: esc r
  end.

(* strings.ReplaceAll(l, "-", `\-`) *)
Fixpoint esc_old (l : bytes) : bytes :=
  match l with
  | [] => []
  | c :: r => if N.eqb c DASH then BSL :: DASH :: esc_old r else c :: esc_old r
  end.

Definition encode_with (e : bytes -> bytes) (ls : tuple) : bytes :=
  concat (map (fun l => e l ++ [DASH]) ls).
Definition encode := encode_with esc.
Definition encode_old := encode_with esc_old.

(* decoder used only in the proof of injectivity *)
Fixpoint dec (cur : bytes) (s : bytes) : tuple :=
  match s with
  | [] => []
  | c :: r =>
    if N.eqb c BSL then
      match r with
      | d :: r' => dec (cur ++ [d]) r'
      | [] => []
      end
    else if N.eqb c DASH then cur :: dec [] r
    else dec (cur ++ [c]) r
  end.
Definition decode (s : bytes) : tuple := dec [] s.
