(* internal/metrics/store.go: Store.Add, line by line.

   Representation.  A *metrics.Metric is split into its immutable descriptor
   ([decl]: Name Kind Type Keys Source Hidden; Program is kept beside it) and
   its mutable LabelValues slice, which lives in the heap of the owning
   program under an allocation-order object id.  A LabelValue holds Labels, a
   datum id (Value is a pointer: Add hands the *same* datum over to the new
   metric) and Expiry.  Store.Metrics is [index]: name -> slice of entries.

   LabelValues are kept as an insertion-ordered list searched by tuple: that is
   the abstract map of Metrics/MetricMap.v, which C09 proves the slice + key
   index of metric.go refines.  Object and datum ids are allocated per program
   (nothing is ever shared between programs: Add only hands data over between
   metrics with the same Program).

   [add] is the code after "fix: keep the pending expiry of label values when
   a program is reloaded"; [add_old] (Expiry not copied) is kept only for the
   refutation theorem. *)
From V Require Export Base.Bytes Base.Int64.
Local Open Scope N_scope.

(* DHist: a Buckets datum as (Count, Sum); the harness observes small integers
   only, so Sum is exact.  The distribution over buckets is C21's subject. *)
Inductive dval := DInt (z : Z) | DFloat (bits : N) | DHist (count : N) (sum : Z) | DStr (s : bytes).
(* value and time; the time is 0 (set at compile time with time.Unix(0,0)) or
   the index of the history step that stamped it *)
Record datum := mkdatum { dv : dval; dt : Z }.

Record slv := mkslv { sl_labels : tuple; sl_datum : N; sl_expiry : Z }.

(* kinds: 1 Counter 2 Gauge 3 Timer 4 Text 5 Histogram; types: 0 Int 1 Float 2 String 3 Buckets *)
Record decl := mkdecl {
  d_name : bytes; d_kind : N; d_type : N; d_keys : list bytes;
  d_source : bytes; d_hidden : bool }.

Record entry := mkentry { e_prog : bytes; e_id : N; e_decl : decl }.
Definition index := list (bytes * list entry).

Record pheap := mkph {
  ph_lvs : list (N * list slv);     (* object id -> m.LabelValues *)
  ph_data : list (N * datum);       (* datum id -> datum *)
  ph_nexto : N; ph_nextd : N }.

Definition ph_empty : pheap := mkph [] [] 0 0.

(* ---- association lists ---- *)
Fixpoint nlookup {A} (k : N) (l : list (N * A)) : option A :=
  match l with
  | [] => None
  | (k', x) :: r => if N.eqb k k' then Some x else nlookup k r
  end.
Fixpoint nupdate {A} (k : N) (x : A) (l : list (N * A)) : list (N * A) :=
  match l with
  | [] => [(k, x)]
  | (k', y) :: r => if N.eqb k k' then (k, x) :: r else (k', y) :: nupdate k x r
  end.
Fixpoint blookup {A} (k : bytes) (l : list (bytes * A)) : option A :=
  match l with
  | [] => None
  | (k', x) :: r => if bytes_eqb k k' then Some x else blookup k r
  end.
Fixpoint bupdate {A} (k : bytes) (x : A) (l : list (bytes * A)) : list (bytes * A) :=
  match l with
  | [] => [(k, x)]
  | (k', y) :: r => if bytes_eqb k k' then (k, x) :: r else (k', y) :: bupdate k x r
  end.

Definition obj_lvs (h : pheap) (o : N) : list slv :=
  match nlookup o (ph_lvs h) with Some l => l | None => [] end.
Definition set_obj_lvs (h : pheap) (o : N) (l : list slv) : pheap :=
  mkph (nupdate o l (ph_lvs h)) (ph_data h) (ph_nexto h) (ph_nextd h).
Definition entries_of (idx : index) (name : bytes) : list entry :=
  match blookup name idx with Some l => l | None => [] end.

(* ---- LabelValues as a map keyed by the tuple ---- *)
Fixpoint lv_find (ls : tuple) (l : list slv) : option slv :=
  match l with
  | [] => None
  | x :: r => if tuple_eqb ls (sl_labels x) then Some x else lv_find ls r
  end.
(* RemoveDatum *)
Fixpoint lv_del (ls : tuple) (l : list slv) : list slv :=
  match l with
  | [] => []
  | x :: r => if tuple_eqb ls (sl_labels x) then r else x :: lv_del ls r
  end.
Fixpoint lv_upd (ls : tuple) (f : slv -> slv) (l : list slv) : list slv :=
  match l with
  | [] => []
  | x :: r => if tuple_eqb ls (sl_labels x) then f x :: r else x :: lv_upd ls f r
  end.

Definition keys_eqb : list bytes -> list bytes -> bool := list_eqb bytes_eqb.

Fixpoint remove_nth {A} (n : nat) (l : list A) : list A :=
  match n, l with
  | _, [] => []
  | O, _ :: r => r
  | S k, x :: r => x :: remove_nth k r
  end.

Section Add.
(* true: the repaired code copies oldLabel.Expiry; false: the code before the fix *)
Variable copy_expiry : bool.

(* for j, oldLabel := range v.LabelValues {
     d := v.GetDatum(oldLabel.Labels...); m.RemoveDatum(oldLabel.Labels...)
     m.AppendLabelValue(&LabelValue{Labels, Value: d, Expiry}) } *)
Definition hand_over (old_lvs : list slv) (mlvs : list slv) : list slv :=
  fold_left (fun acc o =>
      lv_del (sl_labels o) acc ++
        [mkslv (sl_labels o) (sl_datum o) (if copy_expiry then sl_expiry o else 0%Z)])
    old_lvs mlvs.

(* the duplicate search: for i, v := range s.Metrics[m.Name].  State: dupeIndex,
   the new metric's label values, and whether `break` was taken. *)
Record scan := mkscan { sc_dupe : option nat; sc_mlvs : list slv; sc_broke : bool }.

Definition scan_step (h : pheap) (prog : bytes) (d : decl) (i : nat) (v : entry) (s : scan) : scan :=
  if sc_broke s then s else
  if negb (bytes_eqb (e_prog v) prog) then s else
  if negb (N.eqb (d_type (e_decl v)) (d_type d)) then s else
  if negb (bytes_eqb (d_source (e_decl v)) (d_source d)) then s else
  if negb (keys_eqb (d_keys (e_decl v)) (d_keys d))
  then mkscan (Some i) (sc_mlvs s) true
  else mkscan (Some i) (hand_over (obj_lvs h (e_id v)) (sc_mlvs s)) false.

Fixpoint scan_from (h : pheap) (prog : bytes) (d : decl) (i : nat) (l : list entry) (s : scan) : scan :=
  match l with
  | [] => s
  | v :: r => scan_from h prog d (S i) r (scan_step h prog d i v s)
  end.

(* if len(s.Metrics[m.Name]) > 0 { t := s.Metrics[m.Name][0].Kind; if m.Kind != t { return error } } *)
Definition kind_conflict (l : list entry) (d : decl) : bool :=
  match l with
  | v0 :: _ => negb (N.eqb (d_kind d) (d_kind (e_decl v0)))
  | [] => false
  end.

(* s.Metrics[m.Name] = append(s.Metrics[m.Name], m); if dupeIndex >= 0 { remove it } *)
Definition replace_dupe (l1 : list entry) (s : scan) : list entry :=
  match sc_dupe s with Some i => remove_nth i l1 | None => l1 end.

(* Store.Add(m) where m = object [o] of program [prog] with descriptor [d];
   [h] is the heap of [prog].  None = the kind error.  (With an empty bucket
   the search loop does not run: the scan state stays the initial one.) *)
Definition add (idx : index) (h : pheap) (prog : bytes) (o : N) (d : decl)
  : option (index * pheap) :=
  let l := entries_of idx (d_name d) in
  if kind_conflict l d then None else
  let s := scan_from h prog d 0%nat l (mkscan None (obj_lvs h o) false) in
  Some (bupdate (d_name d) (replace_dupe (l ++ [mkentry prog o d]) s) idx,
        set_obj_lvs h o (sc_mlvs s)).
End Add.

Definition add_new := add true.
Definition add_old := add false.
