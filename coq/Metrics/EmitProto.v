(* internal/metrics/metric.go, EmitLabelSets as a PROTOCOL.

   Every reader of a metric (prometheus, varz, graphite/collectd/statsd push)
   starts `go m.EmitLabelSets(c)` on an unbuffered channel and ranges over c.
   The emitting goroutine is the PRODUCER; the reader is the CONSUMER, and it may
   take arbitrarily long between two receives (a blocked push socket, a slow
   scrape).  The consumer's delays are part of the schedule.

   The producer is not modelled by a hand-written function: it is a small
   statement IR (`tstm`, `bstm`) that harness/xlate/emitir.go re-extracts from
   the body of EmitLabelSets on every run, and the semantics below executes that
   IR against a consumer schedule.  The IR can express an unconditional send
   (which has no clock: it waits as long as the consumer needs), a send that
   competes with a timer or a `default:` arm, early exits, close and deferred
   close - so a producer that gives up on a slow consumer is expressible, and
   the theorem about the accepted shapes is not true of it.

   Time is in milliseconds.  The producer's own statements take no time. *)
From V Require Export Base.Bytes Metrics.MetricMap.
Local Open Scope N_scope.

(* what the non-send arm of `select { case c <- x: ; case <-timer: ... }` does *)
Inductive alt := AltNext | AltContinue | AltBreak | AltReturn.

(* statements of the loop body (the current element is implicit) *)
Inductive bstm :=
| BPlain                          (* no channel, control-flow or goroutine effect *)
| BSend                           (* c <- (value built from the current element) *)
| BSendWithin (d : N) (a : alt)   (* select: the send, or after d ms the other arm *)
| BContinue | BBreak | BReturn
| BUnknown.                       (* outside the vocabulary *)

(* statements of the function body *)
Inductive tstm :=
| TPlain
| TRange (body : list bstm)       (* for _, lv := range m.LabelValues { body } *)
| TClose                          (* close(c) *)
| TDeferClose                     (* defer close(c) *)
| TReturn
| TUnknown.

(* the shape of EmitLabelSets in the repository *)
Definition emitter_repo : list tstm := [TRange [BPlain; BSend]; TClose].

(* a producer that gives up when the consumer does not take the next label set
   within d ms (deferred close; timer bookkeeping is plain) *)
Definition emitter_giveup (d : N) : list tstm :=
  [TDeferClose; TPlain; TPlain; TRange [BPlain; BPlain; BPlain; BSendWithin d AltReturn]].

(* ------------------------------------------------------------------ *)
(* The consumer: `for ls := range c`.  [pauses] : how long it stays away before
   its k-th receive (k = 0 is the first), measured from the end of the previous
   receive; missing entries are 0.  [ready] is the absolute time at which it
   is next blocked in its receive. *)

Record clock := mkclk { now : N; ready : N; taken : nat }.

Definition pause_of (pauses : list N) (k : nat) : N := nth k pauses 0.
Definition clk_init (pauses : list N) : clock := mkclk 0 (pause_of pauses 0) 0.
(* a rendezvous: the producer waits until the consumer is there *)
Definition clk_meet (pauses : list N) (c : clock) : clock :=
  let t := N.max (now c) (ready c) in
  mkclk t (t + pause_of pauses (S (taken c))) (S (taken c)).
Definition clk_wait (d : N) (c : clock) : clock := mkclk (now c + d) (ready c) (taken c).

Inductive bres := BrNext | BrBreak | BrReturn | BrPanic | BrUnknown.
Inductive ending :=
| EndClosed      (* the consumer's range loop ends *)
| EndOpen        (* producer gone, channel never closed: the consumer blocks for ever *)
| EndPanic       (* send on / close of a closed channel *)
| EndUnknown.

Section Run.
Context {A : Type}.
Variable pauses : list N.

Record pst := mkpst { p_clk : clock; p_recv : list A }.

Definition deliver (x : A) (s : pst) : pst :=
  mkpst (clk_meet pauses (p_clk s)) (p_recv s ++ [x]).
Definition wait (d : N) (s : pst) : pst := mkpst (clk_wait d (p_clk s)) (p_recv s).

Fixpoint run_body (closed : bool) (x : A) (b : list bstm) (s : pst) : pst * bres :=
  match b with
  | [] => (s, BrNext)
  | BPlain :: r => run_body closed x r s
  | BSend :: r => if closed then (s, BrPanic) else run_body closed x r (deliver x s)
  | BSendWithin d a :: r =>
      if closed then (s, BrPanic) else
      if ready (p_clk s) <=? now (p_clk s) + d then run_body closed x r (deliver x s)
      else let s' := wait d s in
           match a with
           | AltNext => run_body closed x r s'
           | AltContinue => (s', BrNext)
           | AltBreak => (s', BrBreak)
           | AltReturn => (s', BrReturn)
           end
  | BContinue :: _ => (s, BrNext)
  | BBreak :: _ => (s, BrBreak)
  | BReturn :: _ => (s, BrReturn)
  | BUnknown :: _ => (s, BrUnknown)
  end.

Fixpoint run_range (closed : bool) (b : list bstm) (items : list A) (s : pst) : pst * bres :=
  match items with
  | [] => (s, BrNext)
  | x :: r =>
      match run_body closed x b s with
      | (s', BrNext) => run_range closed b r s'
      | (s', BrBreak) => (s', BrNext)
      | other => other
      end
  end.

(* the function ends (return or end of body): deferred close runs *)
Definition finish (closed deferred : bool) : ending :=
  if deferred then (if closed then EndPanic else EndClosed)
  else (if closed then EndClosed else EndOpen).

Fixpoint run_top (p : list tstm) (items : list A) (closed deferred : bool) (s : pst)
  : list A * ending :=
  match p with
  | [] => (p_recv s, finish closed deferred)
  | TPlain :: r => run_top r items closed deferred s
  | TRange b :: r =>
      match run_range closed b items s with
      | (s', BrNext) => run_top r items closed deferred s'
      | (s', BrReturn) => (p_recv s', finish closed deferred)
      | (s', BrPanic) => (p_recv s', EndPanic)
      | (s', _) => (p_recv s', EndUnknown)
      end
  | TClose :: r => if closed then (p_recv s, EndPanic) else run_top r items true deferred s
  | TDeferClose :: r => if deferred then (p_recv s, EndPanic) else run_top r items closed true s
  | TReturn :: _ => (p_recv s, finish closed deferred)
  | TUnknown :: _ => (p_recv s, EndUnknown)
  end.

(* what the consumer receives, in order, and how its loop ends *)
Definition run_emit (p : list tstm) (items : list A) : list A * ending :=
  run_top p items false false (mkpst (clk_init pauses) []).
End Run.
Arguments pst A : clear implicits.

(* ------------------------------------------------------------------ *)
(* The checker: the shapes for which the enumeration is complete whatever the
   consumer does.  One loop over the label values whose body is straight-line
   with exactly one unconditional send, and exactly one close (direct after the
   loop, or deferred). *)

Fixpoint body_sends (b : list bstm) : option nat :=
  match b with
  | [] => Some 0%nat
  | BPlain :: r => body_sends r
  | BSend :: r => option_map S (body_sends r)
  | _ => None
  end.

Definition body_ok (b : list bstm) : bool :=
  match body_sends b with Some 1%nat => true | _ => false end.

Fixpoint top_ok (ranged closed deferred : bool) (p : list tstm) : bool :=
  match p with
  | [] => ranged && xorb closed deferred
  | TPlain :: r => top_ok ranged closed deferred r
  | TRange b :: r => negb ranged && negb closed && body_ok b && top_ok true closed deferred r
  | TClose :: r => ranged && negb closed && negb deferred && top_ok ranged true deferred r
  | TDeferClose :: r => negb closed && negb deferred && top_ok ranged closed true r
  | TReturn :: _ => ranged && xorb closed deferred
  | TUnknown :: _ => false
  end.

Definition emit_ok (p : list tstm) : bool := top_ok false false false p.

(* ------------------------------------------------------------------ *)
(* On a metric: the elements offered are m.LabelValues in slice order, each as
   (labels, datum, cell) - what c_step returns for OEmit. *)

Definition c_emit_items (m : cmetric) : list (tuple * N * cell) :=
  map (fun lv => (lv_labels lv, lv_ptr lv, lv_cell lv)) (m_slice m).

Definition c_emit_protocol (p : list tstm) (pauses : list N) (m : cmetric)
  : list (tuple * N * cell) * ending :=
  run_emit pauses p (c_emit_items m).
