(* Histogram buckets: model of
     internal/metrics/datum/buckets.go   (Observe, AddBucket, GetBuckets)
     internal/metrics/datum/datum.go     (MakeBuckets, GetBucketsCumByMax)
     internal/runtime/compiler/codegen/codegen.go (VarDecl, Kind == Histogram)
   Executable definitions only.  The float type and its operations are
   parameters (record [fops]); Corr/Run_C21.v instantiates them with Coq's
   primitive binary64 floats, the theorems hold for every instance. *)
From V Require Export Base.Bytes.
Local Open Scope N_scope.

Record fops (F : Type) := {
  f_leb : F -> F -> bool;      (* Go: x <= y *)
  f_ltb : F -> F -> bool;      (* Go: x <  y *)
  f_add : F -> F -> F;         (* Go: x + y  *)
  f_zero : F;                  (* 0.0 *)
  f_inf : F;                   (* math.Inf(+1) *)
  f_is_pinf : F -> bool        (* math.IsInf(x, +1) *)
}.
Arguments f_leb {F}. Arguments f_ltb {F}. Arguments f_add {F}.
Arguments f_zero {F}. Arguments f_inf {F}. Arguments f_is_pinf {F}.

Section Buckets.
Context {F : Type} (O : fops F).

(* datum.Range *)
Record range := { r_min : F; r_max : F }.

(* datum.Buckets without the timestamp *)
Record bdatum := {
  b_buckets : list (range * N);   (* []BucketCount, in slice order *)
  b_count : N;
  b_sum : F
}.

(* ---- codegen.go: ranges from the declared boundaries ---- *)

(* for _, max := range n.Buckets[1:] { if max <= min {error}; append {min,max}; min = max }
   then append {min, +Inf} *)
Fixpoint ranges_from (mn : F) (rest : list F) : option (list range) :=
  match rest with
  | [] => Some [ {| r_min := mn; r_max := f_inf O |} ]
  | mx :: rest' =>
      if f_leb O mx mn then None
      else match ranges_from mx rest' with
           | Some rs => Some ({| r_min := mn; r_max := mx |} :: rs)
           | None => None
           end
  end.

(* None = compile error ("need at least two boundaries" / "must be sorted") *)
Definition make_ranges (bs : list F) : option (list range) :=
  match bs with
  | b0 :: ((_ :: _) as rest) =>
      match ranges_from b0 rest with
      | Some rs =>
          Some (if f_ltb O (f_zero O) b0
                then {| r_min := f_zero O; r_max := b0 |} :: rs else rs)
      | None => None
      end
  | _ => None
  end.

(* ---- datum.go MakeBuckets ---- *)

Fixpoint scan_ranges (rs : list range) (seen : bool) (highest : F) : bool * F :=
  match rs with
  | [] => (seen, highest)
  | r :: rs' =>
      if f_is_pinf O (r_max r) then scan_ranges rs' true highest
      else if f_ltb O highest (r_max r) then scan_ranges rs' seen (r_max r)
      else scan_ranges rs' seen highest
  end.

Definition make_buckets (rs : list range) : bdatum :=
  let '(seen, highest) := scan_ranges rs false (f_zero O) in
  let rs' := if seen then rs else rs ++ [ {| r_min := highest; r_max := f_inf O |} ] in
  {| b_buckets := map (fun r => (r, 0)) rs'; b_count := 0; b_sum := f_zero O |}.

(* ---- buckets.go Observe ---- *)

(* current tree: first bucket with v <= Max, none if there is none *)
Fixpoint bump_first_old (v : F) (bs : list (range * N)) : list (range * N) :=
  match bs with
  | [] => []
  | (r, c) :: bs' =>
      if f_leb O v (r_max r) then (r, c + 1) :: bs' else (r, c) :: bump_first_old v bs'
  end.

Definition observe_old (v : F) (d : bdatum) : bdatum :=
  {| b_buckets := bump_first_old v (b_buckets d);
     b_count := b_count d + 1;
     b_sum := f_add O (b_sum d) v |}.

(* repaired: a value that is <= no bound (NaN; or a value above every bound
   of a datum without +Inf bucket) is counted in the last bucket *)
Fixpoint bump_first (v : F) (bs : list (range * N)) : list (range * N) :=
  match bs with
  | [] => []
  | [(r, c)] => [(r, c + 1)]
  | (r, c) :: bs' =>
      if f_leb O v (r_max r) then (r, c + 1) :: bs' else (r, c) :: bump_first v bs'
  end.

Definition observe (v : F) (d : bdatum) : bdatum :=
  {| b_buckets := bump_first v (b_buckets d);
     b_count := b_count d + 1;
     b_sum := f_add O (b_sum d) v |}.

Definition observe_all (vs : list F) (d : bdatum) : bdatum :=
  fold_left (fun d v => observe v d) vs d.
Definition observe_all_old (vs : list F) (d : bdatum) : bdatum :=
  fold_left (fun d v => observe_old v d) vs d.

(* index of the bucket the property assigns to v: the first whose upper bound
   is at least v, the last one when there is none *)
Fixpoint bucket_index (v : F) (bs : list (range * N)) : nat :=
  match bs with
  | [] => 0%nat
  | [_] => 0%nat
  | (r, _) :: bs' => if f_leb O v (r_max r) then 0%nat else S (bucket_index v bs')
  end.

Definition counts (d : bdatum) : list N := map snd (b_buckets d).
Definition bounds (d : bdatum) : list F := map (fun rc => r_max (fst rc)) (b_buckets d).
Fixpoint sumN (l : list N) : N := match l with [] => 0 | x :: r => x + sumN r end.

(* ---- datum.go GetBucketsCumByMax: the bucket counts are put in a map keyed by
   the upper bound, the bounds are sorted (sort.Float64s) and the counts are
   accumulated in THAT order, whatever the order of the slice.  Modelled for
   buckets whose upper bounds are pairwise different and not NaN (with equal
   bounds the Go maps merge entries in iteration order, which is unspecified):
   a stable insertion sort by <= followed by a running sum. ---- *)
Fixpoint cum_from (acc : N) (bs : list (range * N)) : list (F * N) :=
  match bs with
  | [] => []
  | (r, c) :: bs' => (r_max r, acc + c) :: cum_from (acc + c) bs'
  end.
Fixpoint insert_bucket (x : range * N) (l : list (range * N)) : list (range * N) :=
  match l with
  | [] => [x]
  | y :: r => if f_leb O (r_max (fst x)) (r_max (fst y)) then x :: l else y :: insert_bucket x r
  end.
Definition sort_buckets (l : list (range * N)) : list (range * N) := fold_right insert_bucket [] l.
Definition cum_by_max (d : bdatum) : list (F * N) := cum_from 0 (sort_buckets (b_buckets d)).
(* the running sum in slice order: equal to cum_by_max only when the slice is
   already ascending (what compiled programs produce) *)
Definition cum_in_slice_order (d : bdatum) : list (F * N) := cum_from 0 (b_buckets d).

(* what a declaration and a sequence of observations export *)
Definition declare_observe (bs : list F) (vs : list F) : option bdatum :=
  match make_ranges bs with
  | Some rs => Some (observe_all vs (make_buckets rs))
  | None => None
  end.

End Buckets.
Arguments r_min {F}. Arguments r_max {F}. Arguments Build_range {F}.
Arguments b_buckets {F}. Arguments b_count {F}. Arguments b_sum {F}. Arguments Build_bdatum {F}.
