(* internal/metrics/metric.go: one Metric as the VM, the exporters and the GC
   see it.  Concrete model: the LabelValues slice, the labelValuesMap index
   keyed by the encoded label key, LabelValue pointers as allocation-order ids.
   Abstract model: an insertion-ordered association list keyed by the tuple. *)
From V Require Export Base.Bytes Base.Int64.
Local Open Scope N_scope.

Inductive vtype := TInt | TFloat | TStr.
Inductive value := VInt (z : Z) | VFloat (bits : N) | VStr (s : bytes).

Definition zero_of (t : vtype) : value :=
  match t with TInt => VInt 0 | TFloat => VFloat 0 | TStr => VStr [] end.

(* value, datum time (ns), LabelValue.Expiry (ns) *)
Record cell := mkcell { c_val : value; c_time : Z; c_expiry : Z }.

Inductive op :=
| OGet (ls : tuple) (now : Z)              (* GetDatum; [now] stamps a new datum *)
| OSet (ls : tuple) (v : value) (t : Z)    (* GetDatum; datum.Set *)
| OInc (ls : tuple) (d : Z) (t : Z)        (* GetDatum; datum.IncIntBy *)
| ORemove (ls : tuple)                     (* RemoveDatum *)
| OExpire (ls : tuple) (e : Z)             (* ExpireDatum *)
| OEmit.                                   (* EmitLabelSets *)

Inductive out :=
| RDatum (p : N) | ROk | RErrArity | RErrNoDatum
| RListing (l : list (tuple * N * cell)).

Definition upd_set (v : value) (t : Z) (c : cell) : cell :=
  mkcell v t (c_expiry c).
Definition upd_inc (d : Z) (t : Z) (c : cell) : cell :=
  match c_val c with
  | VInt z => mkcell (VInt (wrap64 (z + d))) t (c_expiry c)
  | _ => c
  end.
Definition upd_expiry (e : Z) (c : cell) : cell := mkcell (c_val c) (c_time c) e.

(* ------------------------------------------------------------------ *)
(* Concrete                                                            *)

Record lvrec := mklv { lv_ptr : N; lv_labels : tuple; lv_cell : cell }.

Record cmetric := mkcm {
  m_arity : nat;                 (* len(m.Keys) *)
  m_type  : vtype;
  m_slice : list lvrec;          (* m.LabelValues *)
  m_idx   : list (bytes * N);    (* m.labelValuesMap: key -> *LabelValue *)
  m_next  : N }.                 (* allocation counter *)

Section Concrete.
Variable enc : tuple -> bytes.   (* buildLabelValueKey *)

Fixpoint idx_find (k : bytes) (idx : list (bytes * N)) : option N :=
  match idx with
  | [] => None
  | (k', p) :: r => if bytes_eqb k k' then Some p else idx_find k r
  end.
Fixpoint idx_del (k : bytes) (idx : list (bytes * N)) : list (bytes * N) :=
  match idx with
  | [] => []
  | (k', p) :: r => if bytes_eqb k k' then idx_del k r else (k', p) :: idx_del k r
  end.
Definition idx_put (k : bytes) (p : N) (idx : list (bytes * N)) :=
  (k, p) :: idx_del k idx.

Fixpoint slice_has (p : N) (s : list lvrec) : bool :=
  match s with [] => false | lv :: r => N.eqb (lv_ptr lv) p || slice_has p r end.
Fixpoint slice_del (p : N) (s : list lvrec) : list lvrec :=
  match s with
  | [] => []
  | lv :: r => if N.eqb (lv_ptr lv) p then r else lv :: slice_del p r
  end.
Fixpoint slice_get (p : N) (s : list lvrec) : option lvrec :=
  match s with
  | [] => None
  | lv :: r => if N.eqb (lv_ptr lv) p then Some lv else slice_get p r
  end.
Fixpoint slice_upd (p : N) (f : cell -> cell) (s : list lvrec) : list lvrec :=
  match s with
  | [] => []
  | lv :: r => if N.eqb (lv_ptr lv) p
               then mklv (lv_ptr lv) (lv_labels lv) (f (lv_cell lv)) :: r
               else lv :: slice_upd p f r
  end.

Definition with_slice (m : cmetric) s := mkcm (m_arity m) (m_type m) s (m_idx m) (m_next m).

(* GetDatum: returns the LabelValue pointer standing for the datum *)
Definition c_get (m : cmetric) (ls : tuple) (now : Z) : cmetric * option N :=
  if negb (Nat.eqb (length ls) (m_arity m)) then (m, None) else
  match idx_find (enc ls) (m_idx m) with
  | Some p => (m, Some p)
  | None =>
      let p := m_next m in
      let lv := mklv p ls (mkcell (zero_of (m_type m)) now 0%Z) in
      (mkcm (m_arity m) (m_type m) (m_slice m ++ [lv])
            (idx_put (enc ls) p (m_idx m)) (N.succ p), Some p)
  end.

Definition c_step (m : cmetric) (o : op) : cmetric * out :=
  match o with
  | OGet ls now =>
      match c_get m ls now with
      | (m', Some p) => (m', RDatum p)
      | (m', None) => (m', RErrArity)
      end
  | OSet ls v t =>
      match c_get m ls t with
      | (m', Some p) => (with_slice m' (slice_upd p (upd_set v t) (m_slice m')), RDatum p)
      | (m', None) => (m', RErrArity)
      end
  | OInc ls d t =>
      match c_get m ls t with
      | (m', Some p) => (with_slice m' (slice_upd p (upd_inc d t) (m_slice m')), RDatum p)
      | (m', None) => (m', RErrArity)
      end
  | ORemove ls =>
      if negb (Nat.eqb (length ls) (m_arity m)) then (m, RErrArity) else
      match idx_find (enc ls) (m_idx m) with
      | Some p =>
          if slice_has p (m_slice m)
          then (mkcm (m_arity m) (m_type m) (slice_del p (m_slice m))
                     (idx_del (enc ls) (m_idx m)) (m_next m), ROk)
          else (m, ROk)
      | None => (m, ROk)
      end
  | OExpire ls e =>
      if negb (Nat.eqb (length ls) (m_arity m)) then (m, RErrArity) else
      match idx_find (enc ls) (m_idx m) with
      | Some p => (with_slice m (slice_upd p (upd_expiry e) (m_slice m)), ROk)
      | None => (m, RErrNoDatum)
      end
  | OEmit => (m, RListing (map (fun lv => (lv_labels lv, lv_ptr lv, lv_cell lv)) (m_slice m)))
  end.

Fixpoint c_run (m : cmetric) (ops : list op) : cmetric * list out :=
  match ops with
  | [] => (m, [])
  | o :: r => let (m1, x) := c_step m o in
              let (m2, xs) := c_run m1 r in (m2, x :: xs)
  end.
End Concrete.

Definition c_init (arity : nat) (t : vtype) : cmetric := mkcm arity t [] [] 0.

(* ------------------------------------------------------------------ *)
(* Abstract: insertion-ordered map tuple -> (id, cell)                 *)

Record amap := mkam {
  a_arity : nat; a_type : vtype;
  a_items : list (tuple * (N * cell));
  a_next : N }.

Fixpoint a_find (ls : tuple) (l : list (tuple * (N * cell))) : option (N * cell) :=
  match l with
  | [] => None
  | (k, x) :: r => if tuple_eqb ls k then Some x else a_find ls r
  end.
Fixpoint a_del (ls : tuple) (l : list (tuple * (N * cell))) :=
  match l with
  | [] => []
  | (k, x) :: r => if tuple_eqb ls k then r else (k, x) :: a_del ls r
  end.
Fixpoint a_upd (ls : tuple) (f : cell -> cell) (l : list (tuple * (N * cell))) :=
  match l with
  | [] => []
  | (k, (p, c)) :: r => if tuple_eqb ls k then (k, (p, f c)) :: r else (k, (p, c)) :: a_upd ls f r
  end.

Definition with_items (m : amap) l := mkam (a_arity m) (a_type m) l (a_next m).

Definition a_get (m : amap) (ls : tuple) (now : Z) : amap * option N :=
  if negb (Nat.eqb (length ls) (a_arity m)) then (m, None) else
  match a_find ls (a_items m) with
  | Some (p, _) => (m, Some p)
  | None =>
      let p := a_next m in
      (mkam (a_arity m) (a_type m)
            (a_items m ++ [(ls, (p, mkcell (zero_of (a_type m)) now 0%Z))]) (N.succ p), Some p)
  end.

Definition a_step (m : amap) (o : op) : amap * out :=
  match o with
  | OGet ls now =>
      match a_get m ls now with
      | (m', Some p) => (m', RDatum p)
      | (m', None) => (m', RErrArity)
      end
  | OSet ls v t =>
      match a_get m ls t with
      | (m', Some p) => (with_items m' (a_upd ls (upd_set v t) (a_items m')), RDatum p)
      | (m', None) => (m', RErrArity)
      end
  | OInc ls d t =>
      match a_get m ls t with
      | (m', Some p) => (with_items m' (a_upd ls (upd_inc d t) (a_items m')), RDatum p)
      | (m', None) => (m', RErrArity)
      end
  | ORemove ls =>
      if negb (Nat.eqb (length ls) (a_arity m)) then (m, RErrArity)
      else (with_items m (a_del ls (a_items m)), ROk)
  | OExpire ls e =>
      if negb (Nat.eqb (length ls) (a_arity m)) then (m, RErrArity) else
      match a_find ls (a_items m) with
      | Some _ => (with_items m (a_upd ls (upd_expiry e) (a_items m)), ROk)
      | None => (m, RErrNoDatum)
      end
  | OEmit => (m, RListing (map (fun '(k, (p, c)) => (k, p, c)) (a_items m)))
  end.

Fixpoint a_run (m : amap) (ops : list op) : amap * list out :=
  match ops with
  | [] => (m, [])
  | o :: r => let (m1, x) := a_step m o in
              let (m2, xs) := a_run m1 r in (m2, x :: xs)
  end.

Definition a_init (arity : nat) (t : vtype) : amap := mkam arity t [] 0.

(* abstraction function *)
Definition lv_item (lv : lvrec) : tuple * (N * cell) := (lv_labels lv, (lv_ptr lv, lv_cell lv)).
Definition abs (m : cmetric) : amap :=
  mkam (m_arity m) (m_type m) (map lv_item (m_slice m)) (m_next m).
