(* internal/metrics/store.go: Store.Gc, and metric.go: RemoveOldestDatum.
   Concrete: the loops as written, over the concrete metric of MetricMap.v
   (removal goes through RemoveDatum, i.e. through the label key).
   Abstract: limit phase + filter over the insertion-ordered map. *)
From V Require Export Metrics.MetricMap.
Local Open Scope Z_scope.

(* now.Sub(lv.Value.TimeUTC()) > lv.Expiry, guarded by lv.Expiry > 0;
   time.Time.Sub saturates at the int64 range *)
Definition expired (now : Z) (c : cell) : bool :=
  (0 <? c_expiry c) && (c_expiry c <? sat64 (now - c_time c)).

(* ---------------- abstract ---------------- *)
Definition entry := (tuple * (N * cell))%type.
Definition e_time (e : entry) : Z := c_time (snd (snd e)).

(* RemoveOldestDatum's scan: the first entry strictly older than all before it *)
Fixpoint oldest_from (best : entry) (l : list entry) : entry :=
  match l with
  | [] => best
  | e :: r => if e_time e <? e_time best then oldest_from e r else oldest_from best r
  end.
Definition oldest (l : list entry) : option entry :=
  match l with [] => None | e :: r => Some (oldest_from e r) end.

Definition remove_oldest (l : list entry) : list entry :=
  match oldest l with Some e => a_del (fst e) l | None => l end.

Fixpoint iter {A} (n : nat) (f : A -> A) (x : A) : A :=
  match n with O => x | S k => iter k f (f x) end.

(* if m.Limit > 0 && len >= m.Limit { for i := len; i > m.Limit; i-- { RemoveOldestDatum() } } *)
Definition limit_phase (limit : nat) (l : list entry) : list entry :=
  if (Nat.ltb 0 limit) && (Nat.leb limit (length l))
  then iter (length l - limit) remove_oldest l else l.

Definition sweep (now : Z) (l : list entry) : list entry :=
  filter (fun e => negb (expired now (snd (snd e)))) l.

Definition gc (limit : nat) (now : Z) (l : list entry) : list entry :=
  sweep now (limit_phase limit l).

(* ---------------- concrete ---------------- *)
Section ConcreteGc.
Variable enc : tuple -> bytes.

Definition lv_time (lv : lvrec) : Z := c_time (lv_cell lv).
Fixpoint c_oldest_from (best : lvrec) (s : list lvrec) : lvrec :=
  match s with
  | [] => best
  | lv :: r => if lv_time lv <? lv_time best then c_oldest_from lv r else c_oldest_from best r
  end.
Definition c_remove_oldest (m : cmetric) : cmetric :=
  match m_slice m with
  | [] => m
  | lv :: r => fst (c_step enc m (ORemove (lv_labels (c_oldest_from lv r))))
  end.
Definition c_limit_phase (limit : nat) (m : cmetric) : cmetric :=
  if (Nat.ltb 0 limit) && (Nat.leb limit (length (m_slice m)))
  then iter (length (m_slice m) - limit) c_remove_oldest m else m.

(* for i := 0; i < len; i++ { ...; if expired { RemoveDatum(lv.Labels...); i-- } }
   fuel bounds the iterations (the Go loop would spin if a removal removed
   nothing; that needs a corrupted index, see gc_refines) *)
Fixpoint c_sweep_loop (fuel : nat) (now : Z) (i : nat) (m : cmetric) : cmetric :=
  match fuel with
  | O => m
  | S f =>
      match nth_error (m_slice m) i with
      | None => m
      | Some lv =>
          if expired now (lv_cell lv)
          then c_sweep_loop f now i (fst (c_step enc m (ORemove (lv_labels lv))))
          else c_sweep_loop f now (S i) m
      end
  end.
Definition c_sweep (now : Z) (m : cmetric) : cmetric :=
  c_sweep_loop (2 * length (m_slice m) + 1) now 0 m.

Definition c_gc (limit : nat) (now : Z) (m : cmetric) : cmetric :=
  c_sweep now (c_limit_phase limit m).
End ConcreteGc.

(* ---------------- histories: several GC passes ---------------- *)
(* The life of one metric: operations of the VM (and of the exporters), a GC
   pass at some time, more operations on the same metric, another pass, ...
   The limit is the metric's Limit field (fixed when the program is compiled). *)
Inductive event :=
| EOps (ops : list op)          (* any operations between two passes *)
| EGc (now : Z).                (* one pass of Store.Gc over this metric at time [now] *)

(* what is observable of an event: the results of the operations, or the
   metric's listing right after the pass *)
Inductive hobs :=
| HOuts (l : list out)
| HAfter (l : list (tuple * N * cell)).

Definition listing (m : cmetric) : list (tuple * N * cell) :=
  map (fun lv => (lv_labels lv, lv_ptr lv, lv_cell lv)) (m_slice m).

Section ConcreteHist.
Variable enc : tuple -> bytes.

Definition h_step (limit : nat) (m : cmetric) (ev : event) : cmetric * hobs :=
  match ev with
  | EOps ops => let (m', xs) := c_run enc m ops in (m', HOuts xs)
  | EGc now => let m' := c_gc enc limit now m in (m', HAfter (listing m'))
  end.

Fixpoint h_run (limit : nat) (m : cmetric) (evs : list event) : cmetric * list hobs :=
  match evs with
  | [] => (m, [])
  | ev :: r => let (m1, x) := h_step limit m ev in
               let (m2, xs) := h_run limit m1 r in (m2, x :: xs)
  end.

Definition h_state (limit : nat) (m : cmetric) (evs : list event) : cmetric :=
  fst (h_run limit m evs).
End ConcreteHist.

(* the same history on the insertion-ordered map: a pass is [gc limit now] *)
Definition a_listing (a : amap) : list (tuple * N * cell) :=
  map (fun '(k, (p, c)) => (k, p, c)) (a_items a).

Definition ah_step (limit : nat) (a : amap) (ev : event) : amap * hobs :=
  match ev with
  | EOps ops => let (a', xs) := a_run a ops in (a', HOuts xs)
  | EGc now => let a' := with_items a (gc limit now (a_items a)) in (a', HAfter (a_listing a'))
  end.

Fixpoint ah_run (limit : nat) (a : amap) (evs : list event) : amap * list hobs :=
  match evs with
  | [] => (a, [])
  | ev :: r => let (a1, x) := ah_step limit a ev in
               let (a2, xs) := ah_run limit a1 r in (a2, x :: xs)
  end.
