(* C12 - No export attempt can leave metrics locked or stall processing.
   Statements only; proofs live in Proofs/PathIRProofs.v.

   `closes` says whether the emitter goroutine (metric.go EmitLabelSets) closes
   its channel after the last label set; the translator computes it from the
   source with `emitter_closes`. *)
From Coq Require Import List.
Import ListNotations.
From V Require Import Export.PathIR Proofs.PathIRProofs.

(* If the checker accepts the closure's IR, then whatever the number of label
   sets (chosen at Spawn), whichever branch is taken at every `if`/`select`
   (i.e. wherever a conversion or write error or a cancellation strikes), the
   closure ends by `return` or by reaching its end - never blocked, never in
   a runtime fatal error - with exactly the deferred unlocks outstanding and
   the emitter either never started or finished. *)
Theorem C12_balanced_sound :
  forall closes b, balanced closes b = true ->
  forall f s', exec_block closes b init f s' ->
    (f = Ret \/ f = Fall) /\ locks s' = defers s' /\ (emit s' = None \/ emit s' = Some 0).
Proof. exact balanced_sound. Qed.

(* the whole attempt: Store.Range visits a prefix of the metrics; each visited
   metric ends unlocked with no emitter left *)
Theorem C12_store_all_unlocked :
  forall closes b, balanced closes b = true ->
  forall n outs, exec_store closes b n outs ->
  Forall (fun o => good_outcome (fst o) (snd o)) outs.
Proof. exact balanced_store_sound. Qed.

(* the unchanged prometheus.go Collect: two label sets, NewConstMetric fails on
   the first; the closure returns with the read lock held and the emitter
   blocked in its second send *)
Theorem C12_collect_old_refuted :
  exists f s', exec_block true (block_of collect_old) init f s' /\
               locks s' = 1 /\ defers s' = 0 /\ emit s' = Some 1 /\ ~ good_outcome f s'.
Proof. exact collect_old_bad. Qed.

(* the unchanged export.go writeSocketMetrics: the first write fails *)
Theorem C12_socket_old_refuted :
  exists f s', exec_block true (block_of socket_old) init f s' /\
               locks s' = 1 /\ defers s' = 0 /\ emit s' = Some 1 /\ ~ good_outcome f s'.
Proof. exact socket_old_bad. Qed.

(* and the checker rejects both, accepts the repaired shapes and the handlers *)
Example C12_checker_verdicts :
  (closure_ok emitter_repo collect_old, closure_ok emitter_repo socket_old,
   closure_ok emitter_repo collect_new, closure_ok emitter_repo socket_new,
   closure_ok emitter_repo handler_repo, closure_ok [ESendEach] handler_repo)
  = (false, false, true, true, true, false).
Proof. vm_compute. reflexivity. Qed.

(* non-vacuity: the repaired Collect has an execution with two label sets and a
   conversion error on the first one; it ends in a good state *)
Example C12_collect_new_runs :
  exists s', exec_block true (block_of collect_new) init Ret s' /\ good_outcome Ret s'.
Proof. exact collect_new_runs. Qed.

(* an emitter that never closes its channel makes the (otherwise fine) handler
   closure block for ever: the semantics is not vacuous about stalls *)
Example C12_unclosed_emitter_stalls :
  exists s', exec_block false (block_of handler_repo) init Wrong s'.
Proof. exact handler_unclosed_stalls. Qed.

Print Assumptions C12_balanced_sound.
Print Assumptions C12_store_all_unlocked.
Print Assumptions C12_collect_old_refuted.
Print Assumptions C12_socket_old_refuted.
