(* C22 - Every export format reports each label set's own value.
   Statements only; proofs live in Proofs/FormatsProofs.v and Proofs/JsonProofs.v.
   [to_graphite] is the REPAIRED formatter (commit 3c4d6088); [to_graphite_old]
   the tree before it.  Float texts (%g, JSON) are oracle data carried by the
   store ([fval]); every theorem holds for arbitrary such texts. *)
From V Require Import Export.Formats Proofs.FormatsProofs Proofs.FormatsInj Proofs.JsonProofs.
Local Open Scope N_scope.

(* [clean_of ch m l]: the byte ch occurs in neither the metric name, the
   program name, a key nor a label value of l (the property's "label values
   without characters that separate fields in the target format"). *)

(* graphite: the record of (m, l) ends with a well-formed line whose fields
   are l's own path, value and time *)
Theorem C22_graphite_roundtrip :
  forall c m l,
    ~ In c_sp (c_graphite_prefix c) -> clean_of c_sp m l -> ~ In c_sp (value_string (l_val l)) ->
    exists pre,
      to_graphite c m l = pre ++ [graphite_line (graphite_path c m l) (value_string (l_val l)) (l_time l)] /\
      parse_graphite (graphite_line (graphite_path c m l) (value_string (l_val l)) (l_time l)) =
        Some (graphite_path c m l, value_string (l_val l), time_string (l_time l)).
Proof.
  intros c m l Hp Cl Hv. apply graphite_roundtrip; [|exact Hv].
  apply graphite_path_free; [discriminate|discriminate|exact Hp|exact Cl].
Qed.

(* graphite histograms: one line per bucket of l's OWN datum, then l's own
   count, then the value line; each bucket/count line parses back *)
Theorem C22_graphite_hist_own_buckets :
  forall c m l bs count sum,
    m_kind m = KHistogram -> m_type m = TBuckets -> l_val l = VBuckets bs count sum ->
    to_graphite c m l =
      map (fun b => graphite_line
                      (graphite_path c m l ++ str_bin ++
                         (if is_pinf_bits (f_bits (bk_max b)) then str_inf else f_g (bk_max b)))
                      (fmt_N (bk_count b)) (l_time l)) bs
      ++ [graphite_line (graphite_path c m l ++ str_count) (fmt_N count) (l_time l)]
      ++ [graphite_line (graphite_path c m l) (f_g sum) (l_time l)].
Proof. exact graphite_hist_own_buckets. Qed.

Theorem C22_graphite_hist_line_roundtrip :
  forall c m l suffix n,
    ~ In c_sp (c_graphite_prefix c) -> clean_of c_sp m l -> ~ In c_sp suffix ->
    parse_graphite (graphite_line (graphite_path c m l ++ suffix) (fmt_N n) (l_time l)) =
      Some (graphite_path c m l ++ suffix, fmt_N n, time_string (l_time l)).
Proof.
  intros c m l suffix n Hp Cl Hs. apply parse_graphite_bin_line; [|exact Hs].
  apply graphite_path_free; [discriminate|discriminate|exact Hp|exact Cl].
Qed.

(* witness: histogram lat by code, label sets a (3 observations) and b (1) *)
Definition w_f (bits : N) (g : bytes) : fval := {| f_bits := bits; f_g := g; f_json := Some g |}.
Definition w_b1 (n : N) : bucket := {| bk_min := w_f 0 [48]; bk_max := w_f 4607182418800017408 [49]; bk_count := n |}.
Definition w_binf (n : N) : bucket :=
  {| bk_min := w_f 4607182418800017408 [49]; bk_max := w_f 0x7FF0000000000000 [43; 73; 110; 102]; bk_count := n |}.
Definition w_la : lset := {| l_vals := [[97]]; l_val := VBuckets [w_b1 3; w_binf 0] 3 (w_f 4609434218613702656 [49; 46; 53]);
                             l_time := 1700000000000000000; l_expiry := 0 |}.
Definition w_lb : lset := {| l_vals := [[98]]; l_val := VBuckets [w_b1 0; w_binf 1] 1 (w_f 4619567317775286272 [55]);
                             l_time := 1700000001000000000; l_expiry := 0 |}.
Definition w_hist : metric :=
  {| m_name := [108; 97; 116]; m_prog := [112]; m_kind := KHistogram; m_type := TBuckets; m_hidden := false;
     m_keys := [[99; 111; 100; 101]]; m_lsets := [w_la; w_lb]; m_source := [112; 58; 49];
     m_ranges := []; m_limit := 0 |}.
Definition w_cfg : cfg := {| c_host := [104]; c_omit_prog := false; c_interval_s := 60;
                             c_graphite_prefix := []; c_statsd_prefix := []; c_collectd_prefix := [] |}.

(* the formatter before the repair prints the FIRST label set's buckets and
   count under every label set: for b it reports count 3 instead of 1 *)
Theorem C22_graphite_hist_first_label_set_refuted :
  exists c m l,
    In l (m_lsets m) /\ m_kind m = KHistogram /\ m_type m = TBuckets /\
    to_graphite_old c m l <> to_graphite c m l /\
    In (graphite_line (graphite_path c m l ++ str_count) (fmt_N 3) (l_time l)) (to_graphite_old c m l) /\
    In (graphite_line (graphite_path c m l ++ str_count) (fmt_N 1) (l_time l)) (to_graphite c m l).
Proof.
  exists w_cfg, w_hist, w_lb. split; [right; left; reflexivity|]. split; [reflexivity|]. split; [reflexivity|].
  split; [vm_compute; discriminate|]. split; vm_compute; tauto.
Qed.

(* statsd, collectd, varz: the record of (m, l) parses back to l's own path,
   value (and time) *)
Theorem C22_statsd_roundtrip :
  forall c m l,
    ~ In 58 (c_statsd_prefix c) -> clean_of 58 m l -> ~ In 124 (value_string (l_val l)) ->
    parse_statsd (to_statsd c m l) = Some (statsd_path c m l, value_string (l_val l), statsd_type (m_kind m)).
Proof.
  intros c m l Hp Cl Hv. apply statsd_roundtrip; [|exact Hv].
  apply statsd_path_free; [discriminate|discriminate|exact Hp|exact Cl].
Qed.

Theorem C22_collectd_roundtrip :
  forall c m l,
    ~ In 34 (c_host c) -> ~ In 34 (c_collectd_prefix c) -> clean_of 34 m l ->
    ~ In c_nl (value_string (l_val l)) ->
    parse_collectd (to_collectd c m l) =
      Some (collectd_id c m l, fmt_Z (c_interval_s c), time_string (l_time l), value_string (l_val l)).
Proof.
  intros c m l Hh Hp Cl Hv. apply collectd_roundtrip; [|exact Hv]. apply collectd_id_free; assumption.
Qed.

Theorem C22_varz_roundtrip :
  forall c m l,
    ~ In 123 (m_name m) -> ~ In 125 (varz_labels c m l) -> ~ In c_nl (value_string (l_val l)) ->
    parse_varz (to_varz c m l) = Some (m_name m, varz_labels c m l, value_string (l_val l)).
Proof. exact varz_roundtrip. Qed.

(* every output consists of exactly the records of the label sets (text
   metrics only in varz and the graphite handler) *)
Theorem C22_one_record_each :
  forall c s,
  (forall r, In r (export_varz c s) <-> exists m l, In m s /\ In l (m_lsets m) /\ r = to_varz c m l) /\
  length (export_varz c s) = total_lsets s /\
  (forall r, In r (export_statsd c s) <->
             exists m l, In m s /\ is_text m = false /\ In l (m_lsets m) /\ r = to_statsd c m l) /\
  length (export_statsd c s) = total_lsets (pushed s) /\
  (forall r, In r (export_collectd c s) <->
             exists m l, In m s /\ is_text m = false /\ In l (m_lsets m) /\ r = to_collectd c m l) /\
  length (export_collectd c s) = total_lsets (pushed s) /\
  (forall r, In r (export_graphite_push c s) <->
             exists m l, In m s /\ is_text m = false /\ In l (m_lsets m) /\ In r (to_graphite c m l)) /\
  (forall r, In r (export_graphite_http c s) <->
             exists m l, In m s /\ In l (m_lsets m) /\ In r (to_graphite c m l)).
Proof. exact one_record_each. Qed.

(* ---- strong form: records and label sets of one metric are in bijection ----
   [metric_ok m]: the metric as the store keeps it - pairwise different key
   names, one value per key in every label set, pairwise different label tuples.
   [<fmt>_clean c m]: prefix/host/name/program/keys/values contain none of the
   format's field separators, and the label values none of the characters that
   formatLabels replaces ('.' for graphite and statsd, '-' for collectd).
   Then (1) the record of a label set parses to its own path, value (and time),
   (2) the path identifies the label set among the metric's label sets,
   (3) every record of the metric has exactly one label set as its origin. *)
Theorem C22_statsd_one_record_each :
  forall c m, metric_ok m -> statsd_clean c m ->
  (forall l, In l (m_lsets m) ->
     parse_statsd (to_statsd c m l) = Some (statsd_path c m l, value_string (l_val l), statsd_type (m_kind m))) /\
  (forall l1 l2, In l1 (m_lsets m) -> In l2 (m_lsets m) -> statsd_path c m l1 = statsd_path c m l2 -> l1 = l2) /\
  (forall r, In r (map (to_statsd c m) (m_lsets m)) -> exists! l, In l (m_lsets m) /\ r = to_statsd c m l).
Proof. exact statsd_bijection. Qed.

Theorem C22_collectd_one_record_each :
  forall c m, metric_ok m -> collectd_clean c m ->
  (forall l, In l (m_lsets m) ->
     parse_collectd (to_collectd c m l) =
       Some (collectd_id c m l, fmt_Z (c_interval_s c), time_string (l_time l), value_string (l_val l))) /\
  (forall l1 l2, In l1 (m_lsets m) -> In l2 (m_lsets m) -> collectd_id c m l1 = collectd_id c m l2 -> l1 = l2) /\
  (forall r, In r (map (to_collectd c m) (m_lsets m)) -> exists! l, In l (m_lsets m) /\ r = to_collectd c m l).
Proof. exact collectd_bijection. Qed.

Theorem C22_varz_one_record_each :
  forall c m, metric_ok m -> varz_clean c m ->
  (forall l, In l (m_lsets m) ->
     parse_varz (to_varz c m l) = Some (m_name m, varz_labels c m l, value_string (l_val l))) /\
  (forall l1 l2, In l1 (m_lsets m) -> In l2 (m_lsets m) -> varz_labels c m l1 = varz_labels c m l2 -> l1 = l2) /\
  (forall r, In r (map (to_varz c m) (m_lsets m)) -> exists! l, In l (m_lsets m) /\ r = to_varz c m l).
Proof. exact varz_bijection. Qed.

(* graphite: a record is a list of lines; its value line identifies the label
   set, and every line of the record (buckets, count) is addressed under the
   label set's own path *)
Theorem C22_graphite_one_record_each :
  forall c m, metric_ok m -> graphite_clean c m ->
  (forall l, In l (m_lsets m) ->
     In (graphite_value_line c m l) (to_graphite c m l) /\
     parse_graphite (graphite_value_line c m l) =
       Some (graphite_path c m l, value_string (l_val l), time_string (l_time l))) /\
  (forall l1 l2, In l1 (m_lsets m) -> In l2 (m_lsets m) -> graphite_path c m l1 = graphite_path c m l2 -> l1 = l2) /\
  (forall r, In r (map (graphite_value_line c m) (m_lsets m)) ->
             exists! l, In l (m_lsets m) /\ r = graphite_value_line c m l) /\
  (forall l line, In l (m_lsets m) -> In line (to_graphite c m l) ->
     exists suffix v, line = graphite_line (graphite_path c m l ++ suffix) v (l_time l)).
Proof. exact graphite_bijection. Qed.

(* the core: formatLabels is injective on label lists with the same keys, up to
   the replacement of separators (for ANY values); with separator-free values
   it is injective outright *)
Theorem C22_format_labels_injective :
  forall name L1 L2 ksep sep rep,
    rep <> sep -> map fst L1 = map fst L2 ->
    format_labels name L1 ksep sep rep = format_labels name L2 ksep sep rep ->
    map (fun kv => clean ksep sep rep (snd kv)) L1 = map (fun kv => clean ksep sep rep (snd kv)) L2.
Proof. exact format_labels_inj. Qed.

Theorem C22_format_labels_injective_clean :
  forall name L1 L2 ksep sep rep,
    rep <> sep -> map fst L1 = map fst L2 ->
    (forall kv, In kv L1 \/ In kv L2 -> ~ In ksep (snd kv) /\ ~ In sep (snd kv)) ->
    format_labels name L1 ksep sep rep = format_labels name L2 ksep sep rep -> L1 = L2.
Proof. exact format_labels_inj_clean. Qed.

(* FULL STATEMENT (false of the code): the same without the restriction on the
   label values.  Sanitisation collision: label values a.b and a_b of one
   well-formed metric get the same graphite path and the same statsd path, a-b
   and a_b the same collectd identifier - which is why the property quantifies
   over label values without the characters that separate fields. *)
Definition w_col (v : bytes) (z : Z) : lset := {| l_vals := [v]; l_val := VInt z; l_time := 0; l_expiry := 0 |}.
Definition w_colm (a b : bytes) : metric :=
  {| m_name := [99]; m_prog := [112]; m_kind := KCounter; m_type := TInt; m_hidden := false; m_keys := [[107]];
     m_lsets := [w_col a 1; w_col b 2]; m_source := []; m_ranges := []; m_limit := 0 |}.
Theorem C22_sanitisation_collision_refuted :
  exists c m l1 l2 m' l1' l2',
    metric_ok m /\ In l1 (m_lsets m) /\ In l2 (m_lsets m) /\ l1 <> l2 /\
    graphite_path c m l1 = graphite_path c m l2 /\ statsd_path c m l1 = statsd_path c m l2 /\
    metric_ok m' /\ In l1' (m_lsets m') /\ In l2' (m_lsets m') /\ l1' <> l2' /\
    collectd_id c m' l1' = collectd_id c m' l2'.
Proof.
  exists w_cfg, (w_colm [97; 46; 98] [97; 95; 98]), (w_col [97; 46; 98] 1), (w_col [97; 95; 98] 2),
         (w_colm [97; 45; 98] [97; 95; 98]), (w_col [97; 45; 98] 1), (w_col [97; 95; 98] 2).
  assert (OK : forall a b, a <> b -> metric_ok (w_colm a b)).
  { intros a b Hab. split; [split|].
    - cbn. constructor; [intros []|constructor].
    - intros l [<-|[<-|[]]]; reflexivity.
    - cbn. constructor; [intros [E|[]]; congruence|constructor; [intros []|constructor]]. }
  repeat split; try (apply OK; discriminate); try (left; reflexivity); try (right; left; reflexivity);
    try discriminate.
Qed.

(* [metric_ok] is needed: a store that holds the SAME label tuple twice (what a
   reload leaves behind if Store.Add hands the old datum over without removing
   the preallocated one) is exported with two records under one path - a stale
   0 at time 0 next to the live value. *)
Definition w_dupm : metric :=
  {| m_name := [102]; m_prog := [112]; m_kind := KCounter; m_type := TInt; m_hidden := false; m_keys := [];
     m_lsets := [ {| l_vals := []; l_val := VInt 0; l_time := 0; l_expiry := 0 |};
                  {| l_vals := []; l_val := VInt 7; l_time := 1700000000000000000; l_expiry := 0 |} ];
     m_source := []; m_ranges := []; m_limit := 0 |}.
Theorem C22_duplicate_tuple_refuted :
  exists c m l1 l2,
    ~ metric_ok m /\ In l1 (m_lsets m) /\ In l2 (m_lsets m) /\ l1 <> l2 /\
    statsd_path c m l1 = statsd_path c m l2 /\ graphite_path c m l1 = graphite_path c m l2 /\
    to_statsd c m l1 <> to_statsd c m l2 /\ length (export_statsd c [m]) = 2%nat.
Proof.
  exists w_cfg, w_dupm, {| l_vals := []; l_val := VInt 0; l_time := 0; l_expiry := 0 |},
         {| l_vals := []; l_val := VInt 7; l_time := 1700000000000000000; l_expiry := 0 |}.
  split.
  - intros (_ & N). cbn in N. inversion N as [|? ? Hn _]. apply Hn. left. reflexivity.
  - repeat split; try (left; reflexivity); try (right; left; reflexivity); try discriminate;
      try (vm_compute; discriminate).
Qed.

(* JSON: whenever /json answers, the tree decodes to the same names, programs,
   kinds, types, keys, label sets, values and times, for every store whose
   data have their metric's type *)
Theorem C22_json_tree_roundtrip :
  forall s js,
    json_store s = Some js ->
    Forall (fun m => Forall (fun l => has_type (m_type m) (l_val l)) (m_lsets m)) s ->
    exists vs, all_some (map view_metric s) = Some vs /\ all_some (map decode_metric js) = Some vs.
Proof. exact json_store_roundtrip. Qed.

(* FULL STATEMENT (false of the code): /json answers for every store.
   It fails exactly when some float datum or histogram sum has no JSON text
   (NaN, +Inf, -Inf): the known finding. *)
Theorem C22_json_fails_iff_nonfinite :
  forall s, json_store s = None <->
            exists m l, In m s /\ In l (m_lsets m) /\ float_ok (l_val l) = false.
Proof. exact json_fails_iff_nonfinite. Qed.

Definition w_gauge_inf : metric :=
  {| m_name := [103]; m_prog := [112]; m_kind := KGauge; m_type := TFloat; m_hidden := false; m_keys := [];
     m_lsets := [ {| l_vals := []; l_val := VFloat {| f_bits := 0x7FF0000000000000; f_g := [43; 73; 110; 102]; f_json := None |};
                     l_time := 5; l_expiry := 0 |} ];
     m_source := []; m_ranges := []; m_limit := 0 |}.
Theorem C22_json_nonfinite_refuted : exists s, s <> [] /\ json_store s = None.
Proof. exists [w_gauge_inf]. split; [intros H; discriminate H|reflexivity]. Qed.

(* non-vacuity: the hypotheses of the round trips hold on the witness
   histogram, and its JSON tree decodes *)
Example C22_witness_clean : clean_of c_sp w_hist w_lb /\ clean_of 58 w_hist w_lb /\ clean_of 34 w_hist w_lb.
Proof.
  unfold clean_of; repeat split;
    try (intros k [<-|[]] H; cbn in H; intuition discriminate);
    intros H; cbn in H; intuition discriminate.
Qed.
Example C22_witness_strong_hypotheses :
  metric_ok w_hist /\ graphite_clean w_cfg w_hist /\ statsd_clean w_cfg w_hist /\ collectd_clean w_cfg w_hist.
Proof.
  assert (In2 : forall (P : lset -> Prop), P w_la -> P w_lb -> forall l, In l (m_lsets w_hist) -> P l).
  { intros P A B l [<-|[<-|[]]]; assumption. }
  assert (Cl : forall ch, ch <> 108 -> ch <> 97 -> ch <> 116 -> ch <> 112 -> ch <> 99 -> ch <> 111 -> ch <> 100 ->
                          ch <> 101 -> ch <> 98 -> forall l, In l (m_lsets w_hist) -> clean_of ch w_hist l).
  { intros ch. intros. revert l H8. apply In2; unfold clean_of; repeat split;
      try (intros k [<-|[]] Hin; cbn in Hin; intuition congruence); intros Hin; cbn in Hin; intuition congruence. }
  assert (VF : forall ch, ch <> 97 -> ch <> 98 -> forall l, In l (m_lsets w_hist) -> vals_free ch l).
  { intros ch Ha Hb. apply In2; intros v [<-|[]] Hin; cbn in Hin; intuition congruence. }
  split; [|split; [|split]].
  - split; [split|].
    + cbn. constructor; [intros []|constructor].
    + apply In2; reflexivity.
    + cbn. constructor; [intros [E|[]]; discriminate|constructor; [intros []|constructor]].
  - split; [intros []|]. intros l Hl. split; [apply Cl; (discriminate || exact Hl)|].
    split; [apply VF; (discriminate || exact Hl)|].
    revert l Hl. apply In2; cbn; intuition discriminate.
  - split; [intros []|]. intros l Hl. split; [apply Cl; (discriminate || exact Hl)|].
    split; [apply VF; (discriminate || exact Hl)|].
    revert l Hl. apply In2; cbn; intuition discriminate.
  - split; [cbn; intuition discriminate|]. split; [intros []|]. intros l Hl.
    split; [apply Cl; (discriminate || exact Hl)|].
    split; [apply VF; (discriminate || exact Hl)|].
    revert l Hl. apply In2; cbn; intuition discriminate.
Qed.
Example C22_witness_graphite :
  to_graphite w_cfg w_hist w_lb =
  [ [112;46;108;97;116;46;99;111;100;101;46;98;46;98;105;110;95;49;32;48;32;49;55;48;48;48;48;48;48;48;49;10];
    [112;46;108;97;116;46;99;111;100;101;46;98;46;98;105;110;95;105;110;102;32;49;32;49;55;48;48;48;48;48;48;48;49;10];
    [112;46;108;97;116;46;99;111;100;101;46;98;46;99;111;117;110;116;32;49;32;49;55;48;48;48;48;48;48;48;49;10];
    [112;46;108;97;116;46;99;111;100;101;46;98;32;55;32;49;55;48;48;48;48;48;48;48;49;10] ].
Proof. vm_compute. reflexivity. Qed.
Example C22_witness_json :
  option_map (map (fun v => (v_name v, v_keys v, map (fun x => fst (fst x)) (v_lsets v))))
    (match json_store [w_hist] with Some js => all_some (map decode_metric js) | None => None end)
  = Some [([108; 97; 116], [[99; 111; 100; 101]], [[[97]]; [[98]]])].
Proof. vm_compute. reflexivity. Qed.

Print Assumptions C22_graphite_roundtrip.
Print Assumptions C22_graphite_hist_own_buckets.
Print Assumptions C22_graphite_hist_line_roundtrip.
Print Assumptions C22_graphite_hist_first_label_set_refuted.
Print Assumptions C22_statsd_roundtrip.
Print Assumptions C22_collectd_roundtrip.
Print Assumptions C22_varz_roundtrip.
Print Assumptions C22_one_record_each.
Print Assumptions C22_statsd_one_record_each.
Print Assumptions C22_collectd_one_record_each.
Print Assumptions C22_varz_one_record_each.
Print Assumptions C22_graphite_one_record_each.
Print Assumptions C22_format_labels_injective.
Print Assumptions C22_format_labels_injective_clean.
Print Assumptions C22_sanitisation_collision_refuted.
Print Assumptions C22_duplicate_tuple_refuted.
Print Assumptions C22_json_tree_roundtrip.
Print Assumptions C22_json_fails_iff_nonfinite.
Print Assumptions C22_json_nonfinite_refuted.
