(* C04 - Accepted programs never fault inside the VM.

   Model: Lang/Vm.v (vm.go execute / ProcessLogLine), Lang/Verify.v (bytecode
   verifier).  [Fault] is every internal fault of the property text (panic,
   stack underflow, operand of a representation the instruction does not
   accept, jump outside the program, out-of-range constant / regexp / metric
   reference); [Err e] are the VM's explicit checked conditions.

   Statement proved: a bytecode object accepted by [verify] never reaches a
   [Fault] and never runs out of fuel, for EVERY oracle environment (regexp,
   strconv, time, float arithmetic), every input line and every well-formed
   store, and it keeps the store well formed, hence for every sequence of lines
   from the store the compiler leaves behind.  Every program the real compiler
   accepts in a run of the check has its REAL bytecode judged by [verify]
   (Corr/Run_C04.v), which is how the theorem reaches compiled programs.

   "For every program the compiler accepts": [C04_codegen_verifies_partial]
   proves [verify (codegen p) = true] for every core tree [p] (Lang/Ast.v: all
   expression and statement forms) that satisfies the boolean predicate
   [accepts] = well typed (operand classes, table indices, key counts) and
   representable (none of the known families: settime of a non-int64, a value
   stored into a metric of another type, a condition that is neither bool nor
   int64), with [codegen] = Lang/Codegen.v, the model of codegen.go that C01's
   CGen correspondence ties to the real compiler on every run.  Hence
   [C04_accepted_program_never_faults].  It is "partial" because the tree is
   the post-checker core form (decorators inlined, no histogram kind) and the
   real checker is represented by [accepts], not modelled; the unrestricted
   statement is FALSE of the current tree: the *_refuted theorems below are the
   bytecode of three accepted programs (known findings, known/C04.json); the
   harness replays their sources against the real compiler and VM on every run. *)
From V Require Import Lang.Elab Lang.Wt Proofs.ElabSound Proofs.ElabRawSound.
From V Require Import Lang.Codegen Lang.Verify Proofs.VmInv Proofs.VerifyProofs Proofs.CodegenVerifies.
Local Open Scope Z_scope.

Definition checked := VerifyProofs.checked.

Theorem C04_verify_sound :
  forall (o : object), verify o = true ->
  forall (E : env) (line : logline) (s : vmstate),
    store_ok o (vs_store s) ->
    checked (fst (run_line E o line s)) /\
    store_ok o (vs_store (snd (run_line E o line s))).
Proof. intros o H E line s Hs. exact (verify_sound_line E o H line s Hs). Qed.

(* all lines, from the store codegen leaves in the object *)
Theorem C04_verify_sound_lines :
  forall (o : object), verify o = true ->
  forall (E : env) (lines : list logline),
    Forall checked (fst (run_lines E o lines (init_vm o))).
Proof.
  intros o H E lines.
  exact (proj1 (verify_sound_lines E o H lines (init_vm o) (init_store_ok o))).
Qed.

(* ProcessLogLine's loop needs at most len(prog)+1 fetches *)
Theorem C04_fuel_enough :
  forall (o : object), verify o = true ->
  forall (E : env) (line : logline) (s : vmstate),
    store_ok o (vs_store s) ->
    forall fuel, (line_fuel o <= fuel)%nat ->
    run E o fuel line init_thread s = run_line E o line s.
Proof. intros o H E line s Hs. exact (verify_fuel_enough E o H line s Hs). Qed.

Theorem C04_init_store_ok : forall o, store_ok o (init_store o).
Proof. exact init_store_ok. Qed.

(* ---- non-vacuity: a compiled program (counter c; /x(\d+)/ { c += $1 }) ---- *)
Definition ex_env (n : Z) : env := {|
  re_match := fun _ s => match s with [] => None | _ => Some [s; s] end;
  re_replace := fun _ v _ => v;
  parse_int := fun _ _ _ => Some n;
  parse_float := fun _ => None;
  fmt_G := fun _ => []; fmt_g := fun _ => [];
  to_lower := fun s => s;
  str_replace := fun v _ _ => v;
  time_parse := fun _ _ => None;
  fl_add := fun a _ => a; fl_sub := fun a _ => a; fl_mul := fun a _ => a;
  fl_div := fun a _ => a; fl_mod := fun a _ => a; fl_pow := fun a _ => a;
  fl_lt := fun _ _ => false; fl_eq := fun _ _ => true; fl_le := fun _ _ => true;
  fl_of_int := fun _ => 0%N;
  i_pow := fun a _ => a;
  now_sec := 1600000000
|}.

Definition ex_obj : object :=
  mkobject
    [ mkinstr Match (OInt 0); mkinstr Jnm (OInt 10); mkinstr Setmatched (OBool false);
      mkinstr Mload (OInt 0); mkinstr Dload (OInt 0); mkinstr Push (OInt 0);
      mkinstr Capref (OInt 1); mkinstr S2i ONil; mkinstr Inc (OInt 0);
      mkinstr Setmatched (OBool true) ]
    [] 1 [ mkmdesc [99%N] KCounter TyInt 0 false [] 0 ].

Example C04_ex_verifies : verify ex_obj = true.
Proof. vm_compute. reflexivity. Qed.

Example C04_ex_runs :
  run_lines (ex_env 5) ex_obj [mklogline [] [120%N]; mklogline [] []; mklogline [] [121%N]] (init_vm ex_obj)
  = ([Next; Next; Next],
     mkvm (mkstore [mkdcell (DInt 10) TNow] [[mklv [] 0%nat 0]]) []).
Proof. vm_compute. reflexivity. Qed.

(* ---- the accepted programs that fault (known findings) ---- *)

(* /(\S+)/ { settime(len($1)) } : Length pushes a Go int, Settime accepts int64 only *)
Definition bad_settime_len : object :=
  mkobject
    [ mkinstr Match (OInt 0); mkinstr Jnm (OInt 8); mkinstr Setmatched (OBool false);
      mkinstr Push (OInt 0); mkinstr Capref (OInt 1); mkinstr Length (OInt 1);
      mkinstr Settime (OInt 1); mkinstr Setmatched (OBool true) ]
    [] 1 [].

Theorem C04_settime_len_refuted :
  verify bad_settime_len = false /\
  fst (run_line (ex_env 5) bad_settime_len (mklogline [] [120%N]) (init_vm bad_settime_len))
  = Fault (FRepr KInt).
Proof. split; vm_compute; reflexivity. Qed.

(* gauge g ... g = $x (Float) then g = $n (Int): Fset pops an int64 *)
Definition bad_mixed_assign : object :=
  mkobject
    [ mkinstr Mload (OInt 0); mkinstr Dload (OInt 0); mkinstr Push (OI64 3); mkinstr Fset ONil ]
    [] 0 [ mkmdesc [103%N] KGauge TyFloat 0 false [] 0 ].

Theorem C04_mixed_assign_refuted :
  verify bad_mixed_assign = false /\
  fst (run_line (ex_env 5) bad_mixed_assign (mklogline [] []) (init_vm bad_mixed_assign))
  = Fault (FRepr KI64).
Proof. split; vm_compute; reflexivity. Qed.

(* f - f { ... } : a float64 reaches Jnm *)
Definition bad_float_cond : object :=
  mkobject
    [ mkinstr Push (OF64 0%N); mkinstr Push (OF64 0%N); mkinstr Fsub ONil;
      mkinstr Jnm (OInt 5); mkinstr Setmatched (OBool false) ]
    [] 0 [].

Theorem C04_float_cond_refuted :
  verify bad_float_cond = false /\
  fst (run_line (ex_env 5) bad_float_cond (mklogline [] []) (init_vm bad_float_cond))
  = Fault (FRepr KF64).
Proof. split; vm_compute; reflexivity. Qed.

(* ---- from the tree to the bytecode: codegen's output verifies ---- *)

Theorem C04_codegen_verifies_partial :
  forall p : prog, accepts p = true -> verify (codegen p) = true.
Proof. exact codegen_verifies. Qed.

Theorem C04_accepted_program_never_faults :
  forall p : prog, accepts p = true ->
  forall (E : env) (lines : list logline),
    Forall checked (fst (run_lines E (codegen p) lines (init_vm (codegen p)))).
Proof.
  intros p H E lines. apply C04_verify_sound_lines. apply C04_codegen_verifies_partial. exact H.
Qed.

(* counter c by k ; gauge g
   /x(\d+)/ { c[$1]++ ; $1 > 3 { g = float($1) } else { stop } ; del c[$1] after 1h } ; otherwise { g = 0.5 } *)
Definition ex_prog : prog :=
  mkprog
    [mkmdecl MCounter TInt 1; mkmdecl MGauge TFloat 0]
    (BCons (SCond (EMatch 0)
       (BCons (SInc 0 (XCons (ECap 0 1 TStr) XNil))
       (BCons (SCondElse (ECmp CGt TInt true (ECap 0 1 TInt) (EInt 3))
                 (BCons (SSet TFloat 1 XNil (EConv TInt TFloat (ECap 0 1 TInt))) BNil)
                 (BCons SStop BNil))
       (BCons (SExpire 0 (XCons (ECap 0 1 TStr) XNil) 3600000000000) BNil))))
    (BCons (SOtherwise (BCons (SSet TFloat 1 XNil (EFloat 4602678819172646912%N)) BNil)) BNil))
    [[120%N]] [].

Example C04_ex_accepts : accepts ex_prog = true /\ length (o_prog (codegen ex_prog)) = 43%nat.
Proof. split; vm_compute; reflexivity. Qed.

(* the predicate excludes the known families *)
Example C04_accepts_excludes :
  accepts (mkprog [] (BCons (SSettime (ELen (ECap 0 1 TStr))) BNil) [[120%N]] []) = false /\
  accepts (mkprog [mkmdecl MGauge TFloat 0] (BCons (SSet TInt 0 XNil (EInt 3)) BNil) [] []) = false /\
  accepts (mkprog [mkmdecl MCounter TInt 0]
             (BCons (SCond (EArith ASub TFloat (EFloat 0) (EFloat 0)) (BCons (SInc 0 XNil) BNil)) BNil) [] []) = false.
Proof. repeat split; vm_compute; reflexivity. Qed.

(* ---- from the PARSED tree: the checker model (Lang/Elab.v) ----
   [elab] = elaboration (type inference for metrics by first use, promotion
   with conversion nodes, capture scoping, table numbering, the rejections of
   checker.go and codegen.go) followed by VALIDATION of its output against
   [accepts] and [wt]: the two theorems hold by construction (translation
   validation).  What ties [elab] to checker.go is the correspondence (CElab
   cases of Corr/Run_C04.v): on every run codegen (elab parsed-tree) must be
   the real compiler's object code, elab must reject exactly when the compiler
   does, and an unaccepted tree must carry one of the family warnings that the
   elaboration raises where the checker lets a foreign representation through.
   Not proved: that elab_raw's own warnings are complete (i.e. the theorem
   without the validation step), and a completeness statement
   (main_region u -> elab u succeeds); both are tested, not proved. *)

Theorem C04_elab_sound :
  forall u p w, elab u = EOk (p, w) -> existsb is_notwt w = false -> wt p = true.
Proof. exact elab_wt. Qed.

Theorem C04_elab_accepts_representable :
  forall u p w, elab u = EOk (p, w) -> representable u = true -> accepts p = true.
Proof.
  intros u p w H R. unfold representable in R. rewrite H in R. eapply elab_accepts; eauto.
Qed.

Theorem C04_elab_never_faults :
  forall u p w, elab u = EOk (p, w) -> representable u = true ->
  forall (E : env) (lines : list logline),
    Forall checked (fst (run_lines E (codegen p) lines (init_vm (codegen p)))).
Proof.
  intros u p w H R E lines. apply C04_accepted_program_never_faults.
  eapply C04_elab_accepts_representable; eauto.
Qed.

(* proved without the validation step: the promotion rule is symmetric, and for
   operands that are not Bool the conversions it inserts exist in codegen.go and
   give the operand the operation's type *)
Theorem C04_elab_promotion :
  (forall a b, lub a b = lub b a) /\
  (forall a b, a <> TBool -> b <> TBool ->
     conv_exists a (lub a b) = true /\ conv_exists b (lub a b) = true) /\
  (forall decls strs nre f t e e',
     conv_to f t e = EOk e' -> etype decls strs nre e = Some f -> etype decls strs nre e' = Some t).
Proof. repeat split; [apply lub_comm | apply lub_conv_exists; auto | apply lub_conv_exists; auto | apply ElabSound.conv_to_typed]. Qed.

(* ---- the elaboration itself (no validation step), expression language ----
   For EVERY expression form of the pre-checker tree (literals, captures,
   arithmetic / comparison with the conversions inserted by lub, bitwise,
   ~, &&, ||, pattern match, =~, metric reads and x++ with their index keys,
   int() float() string(), len, tolower, strtol, subst in both forms,
   timestamp, getfilename) and for key lists: if [ex] succeeds from a
   well-formed state and the warning list after it is empty, then it was empty
   before, and in EVERY final program [p] that extends the state reached
   ([ext]: the metric types instantiated so far are p's declared types, p's
   tables are at least as long; [arity_ok]: p declares the key counts) the
   produced core expression is accepted by the class inference of
   Proofs/CodegenVerifies.v ([ce p e' = Some c]) with a class that matches its
   checker type ([typed]).  The state-threading invariant (metric types once
   instantiated never change: the first-use rule) is [C04_elab_raw_state_grows].
   Statements and blocks, and the assembly into [accepts (elab_raw u)], are
   NOT proved (time); for them the validated [elab] above is the theorem. *)
Theorem C04_elab_raw_sound_expr :
  forall decls caps e st e' t st',
    ex decls caps e st = EOk (e', t, st') -> wf decls st -> e_warn st' = [] ->
    e_warn st = [] /\
    forall p, arity_ok decls p -> ext st' p -> typed p e' t /\ exists c, ce p e' = Some c.
Proof. exact elab_raw_sound_expr. Qed.

Theorem C04_elab_raw_sound_keys :
  forall decls caps ks st ks' st',
    exs decls caps ks st = EOk (ks', st') -> wf decls st -> e_warn st' = [] ->
    e_warn st = [] /\
    forall p, arity_ok decls p -> ext st' p -> keys_ok p ks' = true /\ exprs_len ks' = pexprs_len ks.
Proof. exact elab_raw_sound_keys. Qed.

Theorem C04_elab_raw_state_grows :
  forall decls caps e st e' t st',
    ex decls caps e st = EOk (e', t, st') -> wf decls st ->
    wf decls st' /\ forall p, ext st' p -> ext st p.
Proof. exact elab_raw_state_grows. Qed.

(* counter c ; gauge g ; /x(\d+) (\d+\.\d+)/ { c += $1 ; g = $2 * $1 ; $1 > 3 { c++ } } *)
Definition ex_pre : pre_prog :=
  mkpre [mkpdecl MCounter 0; mkpdecl MGauge 0]
    (PBCons (PSCond true (PMatch [120%N])
       (PBCons (PSAddTo 0 PXNil (PCap [49%N]))
       (PBCons (PSSet 1 PXNil (PArith AMul (PCap [50%N]) (PCap [49%N])))
       (PBCons (PSCond true (PCmp CGt (PCap [49%N]) (PInt 3)) (PBCons (PSInc 0 PXNil) PBNil)) PBNil)))) PBNil)
    [([120%N], [([], Some TStr); ([], Some TInt); ([], Some TFloat)])].

(* the metric types are inferred (c Int, g Float), the Int operand of * is promoted *)
Example C04_ex_elab :
  exists p, elab ex_pre = EOk (p, []) /\ representable ex_pre = true /\
    map md_ty (p_decls p) = [TInt; TFloat] /\
    p_body p = BCons (SCond (EMatch 0)
       (BCons (SAddTo TInt 0 XNil (ECap 0 1 TInt))
       (BCons (SSet TFloat 1 XNil (EArith AMul TFloat (ECap 0 2 TFloat) (EConv TInt TFloat (ECap 0 1 TInt))))
       (BCons (SCond (ECmp CGt TInt true (ECap 0 1 TInt) (EInt 3)) (BCons (SInc 0 XNil) BNil)) BNil)))) BNil.
Proof. eexists. repeat split; vm_compute; reflexivity. Qed.

(* the families are announced by the elaboration itself: g = $2 (Float) then g = $1 (Int) *)
Example C04_ex_elab_mixed :
  exists p w, elab (mkpre [mkpdecl MGauge 0]
      (PBCons (PSCond true (PMatch [120%N])
         (PBCons (PSSet 0 PXNil (PCap [50%N])) (PBCons (PSSet 0 PXNil (PCap [49%N])) PBNil))) PBNil)
      [([120%N], [([], Some TStr); ([], Some TInt); ([], Some TFloat)])]) = EOk (p, w) /\
    existsb (fun x => match x with WMixed => true | _ => false end) w = true /\ accepts p = false.
Proof. do 2 eexists. repeat split; vm_compute; reflexivity. Qed.

Print Assumptions C04_verify_sound.
Print Assumptions C04_elab_sound.
Print Assumptions C04_elab_accepts_representable.
Print Assumptions C04_elab_never_faults.
Print Assumptions C04_elab_promotion.
Print Assumptions C04_elab_raw_sound_expr.
Print Assumptions C04_elab_raw_sound_keys.
Print Assumptions C04_elab_raw_state_grows.
Print Assumptions C04_ex_elab.
Print Assumptions C04_ex_elab_mixed.
Print Assumptions C04_codegen_verifies_partial.
Print Assumptions C04_accepted_program_never_faults.
Print Assumptions C04_ex_accepts.
Print Assumptions C04_accepts_excludes.
Print Assumptions C04_verify_sound_lines.
Print Assumptions C04_fuel_enough.
Print Assumptions C04_init_store_ok.
Print Assumptions C04_ex_verifies.
Print Assumptions C04_ex_runs.
Print Assumptions C04_settime_len_refuted.
Print Assumptions C04_mixed_assign_refuted.
Print Assumptions C04_float_cond_refuted.
