(* C14 - placeholder while the harness is brought up *)
From V Require Import Run.Loader.
Example C14_placeholder : True. Proof. exact I. Qed.
Print Assumptions C14_placeholder.
