(* C14 - Program reload preserves state and never duplicates series.
   Statements only; proofs live in Proofs/LoaderReload.v.
   Models: Metrics/StoreAdd.v ([add true] is Store.Add after "fix: keep the
   pending expiry of label values when a program is reloaded", [add false] the
   code before it), Run/Loader.v (CompileAndRun with the SHA-256 comparison
   modelled as identity of source texts; [compile] and [vmstep] are oracles). *)
From V Require Import Metrics.StoreAdd Run.Loader Proofs.StoreAddProofs Proofs.LoaderIsolation Proofs.LoaderReload
  Proofs.LoaderReloadLoad Proofs.LoaderInvariants.
Local Open Scope N_scope.

(* reloading the text that is already running changes nothing at all *)
Theorem C14_identical_noop :
  forall (c1 c2 omit : bool) compile st p src hd,
    ps_handle (getp p st) = Some hd -> h_src hd = src ->
    load_r c1 c2 omit compile st p src = (st, LSame).
Proof. exact identical_noop. Qed.

(* a load that fails to compile leaves the store, every program's metric
   objects and data, and every running version (hence every later update)
   exactly as they were; only prog_load_errors_total moves *)
Theorem C14_failed_compile_noop :
  forall (c1 c2 omit : bool) compile st p src,
    compile p src = None -> visible_eq st (load c1 c2 omit compile st p src).
Proof. exact failed_compile_noop. Qed.

(* Main theorem: a reload that keeps a declaration keeps its data.  For a whole
   successful CompileAndRun of new text [src] for p (result LLoaded), in any
   state: let (p, o, d) be the store's only entry of p, in the bucket of d's
   name, with d's type and source position (the metric of the previous
   version), o an allocated object of p's heap whose ids are fresh and whose
   label tuples are pairwise distinct.  If the new version's metric table holds
   the same descriptor d (same kind, exported name, type, keys, position) at
   object o', and every other exported declaration has another name, then: the
   new version runs [src]; the bucket holds (p, o', d) in place of (p, o, d) and
   nothing else changed in it; and every label tuple of o is found in o' with
   the same datum object -- whose value and time are untouched -- and, with the
   repaired Add ([ce = true]), the same pending expiry. *)
Theorem C14_keep_decl_keeps_data :
  forall (c2 omit : bool) compile st p src st' o d pre post lvs0,
    load_r true c2 omit compile st p src = (st', LLoaded) ->
    let h := ps_heap (getp p st) in
    heap_fresh h -> nlookup o (ph_lvs h) = Some lvs0 ->
    entries_of (st_index st) (d_name d) = pre ++ mkentry p o d :: post ->
    (forall v, In v (pre ++ post) -> matches p d v = false) ->
    d_hidden d = false ->
    NoDup (map sl_labels (obj_lvs h o)) ->
    forall hd' ms1 o' ms2,
      ps_handle (getp p st') = Some hd' -> h_objs hd' = ms1 ++ (o', d) :: ms2 ->
      (forall o2 d2, In (o2, d2) (ms1 ++ ms2) -> d_hidden d2 = false -> d_name d2 <> d_name d) ->
      let h' := ps_heap (getp p st') in
      h_src hd' = src /\
      entries_of (st_index st') (d_name d) = pre ++ post ++ [mkentry p o' d] /\
      forall ls x, lv_find ls (obj_lvs h o) = Some x ->
        lv_find ls (obj_lvs h' o') = Some (mkslv ls (sl_datum x) (sl_expiry x)) /\
        forall dd, nlookup (sl_datum x) (ph_data h) = Some dd -> nlookup (sl_datum x) (ph_data h') = Some dd.
Proof. exact (load_keeps_data true). Qed.

(* The hypotheses of C14_keep_decl_keeps_data are invariants: in every state
   reachable from the empty one by loads (any text), unloads, lines and GC
   passes, for every compiler and VM behaviour, object ids are fresh, label
   tuples within a metric are pairwise distinct, exported and running metric
   objects are allocated, and a bucket holds at most one entry per (program,
   type, source position). *)
Theorem C14_reachable_wf :
  forall (c1 c2 omit : bool) compile vmstep ops,
    wf (run_from c1 c2 omit compile vmstep st_empty ops).
Proof. intros. apply reachable_wf, wf_empty. Qed.

(* Hence, after EVERY history: a successful reload of p whose new metric table
   holds, with the same descriptor d (kind, exported name, type, keys, source
   position), a declaration whose previous object o is the one the store
   exports, and whose other exported names differ from d's, keeps every cell of
   that metric -- datum object (value, time) and pending expiry -- and swaps the
   store entry without leaving a duplicate.  (The only guard left is that the
   previous version's object is the exported one: that fails only after a
   refused registration, the known finding.) *)
Theorem C14_keep_decl_keeps_data_reachable :
  forall (c2 omit : bool) compile vmstep ops p src st' o d,
    let st := run_from true c2 omit compile vmstep st_empty ops in
    load_r true c2 omit compile st p src = (st', LLoaded) ->
    In (mkentry p o d) (entries_of (st_index st) (d_name d)) ->
    d_hidden d = false ->
    forall hd' ms1 o' ms2,
      ps_handle (getp p st') = Some hd' -> h_objs hd' = ms1 ++ (o', d) :: ms2 ->
      (forall o2 d2, In (o2, d2) (ms1 ++ ms2) -> d_hidden d2 = false -> d_name d2 <> d_name d) ->
      let h := ps_heap (getp p st) in
      let h' := ps_heap (getp p st') in
      h_src hd' = src /\
      (exists pre post,
         entries_of (st_index st) (d_name d) = pre ++ mkentry p o d :: post /\
         entries_of (st_index st') (d_name d) = pre ++ post ++ [mkentry p o' d]) /\
      forall ls x, lv_find ls (obj_lvs h o) = Some x ->
        lv_find ls (obj_lvs h' o') = Some (mkslv ls (sl_datum x) (sl_expiry x)) /\
        forall dd, nlookup (sl_datum x) (ph_data h) = Some dd -> nlookup (sl_datum x) (ph_data h') = Some dd.
Proof. exact keep_decl_reachable. Qed.

(* the same for the single Store.Add call that registers (o', d): fewer
   hypotheses (no freshness of ids needed) *)
Theorem C14_keep_decl_keeps_data_partial :
  forall idx h p o o' d pre post,
    entries_of idx (d_name d) = pre ++ mkentry p o d :: post ->
    (forall v, In v (pre ++ post) -> matches p d v = false) ->
    kind_conflict (entries_of idx (d_name d)) d = false ->
    o <> o' ->
    NoDup (map sl_labels (obj_lvs h o)) -> NoDup (map sl_labels (obj_lvs h o')) ->
    exists idx' h',
      add true idx h p o' d = Some (idx', h') /\
      entries_of idx' (d_name d) = pre ++ post ++ [mkentry p o' d] /\
      ph_data h' = ph_data h /\
      obj_lvs h' o = obj_lvs h o /\
      forall ls x, lv_find ls (obj_lvs h o) = Some x ->
        lv_find ls (obj_lvs h' o') = Some (mkslv ls (sl_datum x) (sl_expiry x)).
Proof. intros. apply (add_keeps_data true); assumption. Qed.

(* no duplicate is left by a reload that keeps name, type and position: after
   the Add, the new metric is the only entry matching (program, type, source) *)
Theorem C14_no_dup_series_partial :
  forall (ce : bool) idx h p o o' d pre post idx' h',
    entries_of idx (d_name d) = pre ++ mkentry p o d :: post ->
    (forall v, In v (pre ++ post) -> matches p d v = false) ->
    kind_conflict (entries_of idx (d_name d)) d = false ->
    o <> o' ->
    NoDup (map sl_labels (obj_lvs h o)) -> NoDup (map sl_labels (obj_lvs h o')) ->
    add ce idx h p o' d = Some (idx', h') ->
    filter (matches p d) (entries_of idx' (d_name d)) = [mkentry p o' d].
Proof.
  intros ce idx h p o o' d pre post idx' h' B U K NO N1 N2 A.
  destruct (add_keeps_data ce idx h p o o' d pre post B U K NO N1 N2) as (i & g & A' & E & _).
  rewrite A in A'. injection A' as <- <-. rewrite E, app_assoc, filter_app.
  assert (Z : filter (matches p d) (pre ++ post) = []).
  { induction (pre ++ post) as [|v l IH]; [reflexivity|]. cbn [filter].
    rewrite (U v) by (left; reflexivity). apply IH. intros w I. apply U. right. exact I. }
  rewrite Z. cbn [app filter]. unfold matches at 1. cbn [e_prog e_decl].
  rewrite !bytes_eqb_refl, N.eqb_refl. reflexivity.
Qed.

(* ---- witnesses (replayed on the implementation by harness/c14) ---- *)
Definition w_p : bytes := [112].
Definition w_q : bytes := [113].
Definition w_g (src : bytes) : decl := mkdecl [103] 2 0 [[107]] src false.
Definition w_x (src : bytes) : decl := mkdecl [120] 1 0 [] src false.
Definition w_y (k : N) : decl := mkdecl [121] k 0 [] [49] false.

(* version 0 and version 1 (a comment appended) both declare `gauge g by k` at
   the same place; line 0 sets g[u], line 1 is `del g[u] after 1h` *)
Definition w1_compile (p : bytes) (src : N) : option (list decl) := Some [w_g [49]].
Definition w1_vmstep (p : bytes) (src l : N) : list effect :=
  if N.eqb l 0 then [ESet 0 [[117]] (DInt 1)] else [EExpire 0 [[117]] 3600000000000].
Definition w1_ops : list op := [OLoad w_p 0; OLine 0 2; OLine 1 3; OLoad w_p 1].
Definition expiry_after (ce : bool) : list Z :=
  let st := run_from ce true false w1_compile w1_vmstep st_empty w1_ops in
  match ps_handle (getp w_p st) with
  | Some hd => match h_objs hd with
               | (o, _) :: _ => map sl_expiry (obj_lvs (ps_heap (getp w_p st)) o)
               | [] => []
               end
  | None => []
  end.

(* the code before the repair forgets the pending expiry; the repaired code keeps it *)
Theorem C14_expiry_dropped_refuted :
  expiry_after false = [0%Z] /\ expiry_after true = [3600000000000%Z].
Proof. vm_compute. split; reflexivity. Qed.

(* KNOWN FINDING (model faithful to the code): one comment line above
   `counter x` moves the declaration; the old x stays in the store beside the
   new one, both with the label set {} *)
Definition w2_compile (p : bytes) (src : N) : option (list decl) :=
  if N.eqb src 0 then Some [w_x [49]] else Some [w_x [50]].
Definition w2_vmstep (p : bytes) (src l : N) : list effect := [EInc 0 [] 1].
Theorem C14_moved_decl_refuted :
  let st := run_from true true false w2_compile w2_vmstep st_empty [OLoad w_p 0; OLine 0 2; OLoad w_p 1] in
  map (fun e => (e_prog e, d_name (e_decl e), map sl_labels (obj_lvs (ps_heap (getp w_p st)) (e_id e))))
      (entries_of (st_index st) [120])
  = [(w_p, [120], [[]]); (w_p, [120], [[]])].
Proof. vm_compute. reflexivity. Qed.

(* KNOWN FINDING: q declares gauge y; p declares counter x, counter y: the load
   of p is refused at y but x stays registered although p is not running *)
Definition w3_compile (p : bytes) (src : N) : option (list decl) :=
  if bytes_eqb p w_q then Some [w_y 2] else Some [w_x [49]; w_y 1].
Theorem C14_failed_register_refuted :
  let st0 := load true true false w3_compile st_empty w_q 0 in
  let (st1, r) := load_r true true false w3_compile st0 w_p 0 in
  r = LRefused /\ ps_handle (getp w_p st1) = None /\
  entries_of (st_index st0) [120] = [] /\ length (entries_of (st_index st1) [120]) = 1%nat.
Proof. vm_compute. repeat split; reflexivity. Qed.

(* non-vacuity of C14_keep_decl_keeps_data_partial: the state before the reload
   in the expiry witness satisfies its hypotheses, with a cell that carries
   value 1, time 2 and a pending expiry *)
Example C14_keep_applies :
  let st := run_from true true false w1_compile w1_vmstep st_empty [OLoad w_p 0; OLine 0 2; OLine 1 3] in
  let h := fst (alloc_obj (ps_heap (getp w_p st)) (w_g [49])) in
  entries_of (st_index st) [103] = [] ++ mkentry w_p 0 (w_g [49]) :: [] /\
  kind_conflict (entries_of (st_index st) [103]) (w_g [49]) = false /\
  map (fun x => (sl_labels x, dv (datum_of h (sl_datum x)), dt (datum_of h (sl_datum x)), sl_expiry x)) (obj_lvs h 0)
    = [([[117]], DInt 1, 2%Z, 3600000000000%Z)] /\
  obj_lvs h 1 = [].
Proof. vm_compute. repeat split; reflexivity. Qed.

(* non-vacuity of C14_keep_decl_keeps_data: the comment-only reload of the expiry
   witness satisfies every hypothesis, and the conclusion is the kept cell *)
Example C14_keep_load_applies :
  let st := run_from true true false w1_compile w1_vmstep st_empty [OLoad w_p 0; OLine 0 2; OLine 1 3] in
  let h := ps_heap (getp w_p st) in
  snd (load_r true true false w1_compile st w_p 1) = LLoaded /\
  nlookup 0 (ph_lvs h) = Some (obj_lvs h 0) /\ ph_nexto h = 1 /\ map fst (ph_lvs h) = [0] /\
  entries_of (st_index st) [103] = [] ++ mkentry w_p 0 (w_g [49]) :: [] /\
  map (fun x => (sl_labels x, sl_expiry x)) (obj_lvs h 0) = [([[117]], 3600000000000%Z)] /\
  match ps_handle (getp w_p (fst (load_r true true false w1_compile st w_p 1))) with
  | Some hd' => h_objs hd' = [] ++ (1, w_g [49]) :: []
  | None => False
  end.
Proof. vm_compute. repeat split; reflexivity. Qed.

Print Assumptions C14_identical_noop.
Print Assumptions C14_keep_decl_keeps_data.
Print Assumptions C14_keep_load_applies.
Print Assumptions C14_reachable_wf.
Print Assumptions C14_keep_decl_keeps_data_reachable.
Print Assumptions C14_failed_compile_noop.
Print Assumptions C14_keep_decl_keeps_data_partial.
Print Assumptions C14_no_dup_series_partial.
Print Assumptions C14_expiry_dropped_refuted.
Print Assumptions C14_moved_decl_refuted.
Print Assumptions C14_failed_register_refuted.
Print Assumptions C14_keep_applies.
