(* C18 - Every matching log path is tailed, once.
   Statements only; the model is Tail/Paths.v, the proofs are in
   Proofs/PathsProofs.v.  U (the names that may exist), the patterns and the
   oracles glob_match / ignore_match are arbitrary.  [reachable] = the state
   after tailer.New on any tree over U followed by any sequence of
   Create/Mkdir/Delete/Rename/Chmod/Append/Poll/StreamPoll. *)
From V Require Import Base.Bytes Tail.Paths Proofs.PathsProofs Proofs.PathsOnce.
Local Open Scope N_scope.

(* every history is covered by [reachable] *)
Theorem C18_histories_reachable :
  forall U pats g ig t l h, wf_tree U t -> reachable U pats g ig (run U pats g ig (start U pats g ig t l) h).
Proof. exact run_reachable. Qed.

(* after a pattern poll, each existing readable regular file that matches a
   pattern and whose name is not ignored has a live stream registered under its
   path, and exactly one *)
Theorem C18_complete_after_poll :
  forall U pats g ig s p i,
    reachable U pats g ig s ->
    let s' := step U pats g ig s Poll in
    tree s' p = Some (File true i) ->
    (exists pat, In pat pats /\ g pat p = true) ->
    ig p = false ->
    exists st, In st (streams s') /\ s_path st = p /\ reg s' p = Some (s_id st) /\
               forall st', In st' (streams s') -> s_path st' = p -> st' = st.
Proof. exact complete_after_poll. Qed.

(* ignored names and names matching no pattern never have a stream; the keys
   of Tailer.logstreams are exactly the paths of the live streams; a pattern
   poll starts streams on readable regular files only; file-system operations
   start nothing; and after a stream poll every remaining stream reads the
   regular file now at its path - none is left on a directory *)
Theorem C18_never_dir_or_ignored :
  forall U pats g ig s,
    reachable U pats g ig s ->
    (forall st, In st (streams s) ->
       ig (s_path st) = false /\ exists pat, In pat pats /\ g pat (s_path st) = true) /\
    (forall p, reg s p <> None <-> exists st, In st (streams s) /\ s_path st = p) /\
    (forall st, In st (streams (step U pats g ig s Poll)) ->
       In st (streams s) \/ tree (step U pats g ig s Poll) (s_path st) = Some (File true (s_ino st))) /\
    (forall o, o <> Poll -> o <> StreamPoll -> streams (step U pats g ig s o) = streams s) /\
    (forall st, In st (streams (step U pats g ig s StreamPoll)) ->
       exists r, tree (step U pats g ig s StreamPoll) (s_path st) = Some (File r (s_ino st))).
Proof.
  intros U pats g ig s R. repeat split.
  - apply (never_ignored U pats g ig s st R H).
  - apply (never_ignored U pats g ig s st R H).
  - apply (registered_iff_live U pats g ig s p R).
  - apply (registered_iff_live U pats g ig s p R).
  - apply poll_starts_on_files.
  - intros o A B. apply (fs_starts_nothing U pats g ig s o A B).
  - apply after_stream_poll_on_file.
Qed.

(* at every point of every history each path has at most one live stream and
   log_count is the number of live streams; in a stream poll every forwarded
   line comes from the one live stream of its path, and no line of a file is
   forwarded twice under a path *)
Theorem C18_single_stream :
  forall U pats g ig s,
    reachable U pats g ig s ->
    NoDup (map s_path (streams s)) /\
    count s = Z.of_nat (length (streams s)) /\
    out (step U pats g ig s StreamPoll) = out s ++ batch true s /\
    NoDup (map key (batch true s)) /\
    forall f, In f (batch true s) ->
      exists st, In st (streams s) /\ s_path st = f_path f /\ s_id st = f_sid f /\
                 forall st', In st' (streams s) -> s_path st' = f_path f -> st' = st.
Proof.
  intros U pats g ig s R.
  destruct (single_stream U pats g ig s R) as [A B]. destruct (batch_once U pats g ig s R) as [C D].
  repeat split; auto.
Qed.

(* over the whole history: without Rename (a file rotated back under an old
   name is legitimately re-read from its start), no line of a file is ever
   forwarded twice under a path - however often the patterns are polled, however
   many patterns match, across deletion and re-creation of the path.
   [reachable_nr]: tailer.New on a tree whose inodes are < 10 (fresh ones are
   10 + operation index), then any sequence of operations other than Rename *)
Theorem C18_no_redelivery_without_rename :
  forall U pats g ig s, reachable_nr U pats g ig s -> NoDup (map key (out s)).
Proof. exact no_redelivery. Qed.

Theorem C18_rename_free_histories_reachable_nr :
  forall U pats g ig t l h,
    wf_tree U t -> (forall p n, t p = Some n -> ino_of n < 10) -> Forall nr h ->
    reachable_nr U pats g ig (run U pats g ig (start U pats g ig t l) h).
Proof. exact run_reachable_nr. Qed.

(* ---- the code before fix C18-stream-leak ---- *)

Definition U4 : list path := [0; 1; 2; 3].
Definition all (_ : N) (_ : path) := true.
Definition none (_ : path) := false.
Definition t0 (p : path) : option node := if N.eqb p 0 then Some (File true 1) else None.
Definition l0 (_ : N) : N := 0.

(* a.log is tailed, is deleted and replaced by a directory, the streams are
   woken: the stream stays registered on the directory *)
Theorem C18_never_dir_old_refuted :
  exists h p i,
    let s := run_old U4 [0] all none (start U4 [0] all none t0 l0) (h ++ [StreamPoll]) in
    reg s p <> None /\ tree s p = Some (Dir i) /\ count s = 1%Z.
Proof. exists [Delete 0; Mkdir 0], 0, 11. vm_compute. repeat split. discriminate. Qed.

(* a.log is tailed, is rotated to a file that cannot be opened, the streams
   are woken (the reopen fails), the file becomes readable, the patterns are
   polled: the readable matching file has no live stream, and never will *)
Theorem C18_complete_after_poll_old_refuted :
  exists h p i,
    let s := run_old U4 [0] all none (start U4 [0] all none t0 l0) (h ++ [Poll]) in
    tree s p = Some (File true i) /\ all 0 p = true /\ none p = false /\
    forall st, In st (streams s) -> s_path st <> p.
Proof.
  exists [Delete 0; Create 0; Chmod 0 false; StreamPoll; Chmod 0 true], 0, 11.
  vm_compute. repeat split. intros st [].
Qed.

(* the lookup in TailPath is what the single-stream theorem rests on: without
   it two overlapping patterns give one path two live streams *)
Theorem C18_single_stream_without_lookup_refuted :
  exists s, s = start_gen U4 [0; 1] all none false t0 l0 /\
            ~ NoDup (map s_path (streams s)) /\ count s = 2%Z.
Proof.
  eexists. split; [reflexivity|]. vm_compute. split; [|reflexivity].
  intros H. inversion H as [|? ? Hn _]. apply Hn. left. reflexivity.
Qed.

(* completeness also rests on doPatternGlob going on after a match it cannot
   stream: if it gave up at the first such match (a socket next to the logs),
   the readable files sorting after it would never be tailed *)
Theorem C18_complete_needs_every_match_refuted :
  exists t p i,
    let s := poll_stop U4 [0] all none (mkState t l0 [] (fun _ => None) 0%Z 0 0 []) in
    tree s p = Some (File true i) /\ all 0 p = true /\ none p = false /\ reg s p = None /\
    reg (poll U4 [0] all none true (mkState t l0 [] (fun _ => None) 0%Z 0 0 [])) p <> None.
Proof.
  exists (fun p => if N.eqb p 0 then Some (Sock 1) else if N.eqb p 1 then Some (File true 2) else None), 1, 2.
  vm_compute. repeat split. discriminate.
Qed.

(* non-vacuity: a reachable state with two tailed files matched by
   overlapping patterns, one pending line, a rename and a directory *)
Example C18_reachable_nontrivial :
  let t (p : path) := if N.eqb p 0 then Some (File true 1) else if N.eqb p 3 then Some (Dir 4) else None in
  let s := run U4 [0; 1] all none (start U4 [0; 1] all none t l0)
               [Create 1; Poll; Append 1; Rename 0 2; StreamPoll; Poll] in
  reachable U4 [0; 1] all none s /\ tailed U4 s = [1; 2] /\ count s = 2%Z /\
  map key (out s) = [(1, 10, 0)].
Proof.
  cbv zeta. split; [|vm_compute; auto].
  apply run_reachable. intros p. unfold U4. cbn.
  destruct (N.eqb p 0) eqn:A; [apply N.eqb_eq in A; auto|].
  destruct (N.eqb p 3) eqn:B; [apply N.eqb_eq in B; auto 6|congruence].
Qed.

Print Assumptions C18_histories_reachable.
Print Assumptions C18_complete_after_poll.
Print Assumptions C18_never_dir_or_ignored.
Print Assumptions C18_single_stream.
Print Assumptions C18_no_redelivery_without_rename.
Print Assumptions C18_rename_free_histories_reachable_nr.
Print Assumptions C18_never_dir_old_refuted.
Print Assumptions C18_complete_after_poll_old_refuted.
Print Assumptions C18_single_stream_without_lookup_refuted.
Print Assumptions C18_complete_needs_every_match_refuted.
