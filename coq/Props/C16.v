(* C16 - A tailed file delivers every appended line exactly once across
   truncation, rotation, deletion and re-creation.
   Statements only; proofs live in Proofs/FileStreamProofs.v.

   [delivered init ops]: everything a Tailer polling one path sends, from the
   moment it starts on a path whose file has content init (None: no file)
   through the history ops - each operation followed by "stream wake, pattern
   poll, stream wake" - until it is cancelled; model of filestream.go + tail.go
   WITH the two repairs of fixes/C16-*.  [delivered_old] is the same without
   them (the tree before the repairs).
   [spec init ops]: per file generation, the bytes appended while it was tailed,
   framed as in C15 (split at '\n', one '\r' stripped, the unterminated
   fragment as its own last line) when the generation ends by truncation,
   rename+create, copy+truncate, deletion or the end of tailing. *)
From V Require Import Base.Bytes Tail.LineReader Tail.FileStream Proofs.FileStreamProofs.

Theorem C16_exactly_once : forall init ops, delivered init ops = spec init ops.
Proof. exact exactly_once. Qed.

(* Ending a generation delivers exactly what stopping the tailer at that point
   would have delivered - in particular its unterminated fragment once, as its
   own line - and everything after it is what the specification gives for a
   tailer that starts on the new file (empty, or holding d after RenameCreate d,
   or absent after Delete): nothing of the old generation is repeated or merged
   into later data.  For the empty and absent cases that is literally a fresh
   run of the tailer. *)
Theorem C16_fragment_once : forall init ops1 e ops2,
  ends_generation e = true -> present_after init ops1 = true ->
  delivered init (ops1 ++ e :: ops2) =
  delivered init ops1 ++
  delivered_gen (match e with Delete => None | RenameCreate d => Some d | _ => Some [] end) ops2.
Proof. exact fragment_once. Qed.

Theorem C16_fresh_run_after_generation_end : forall ops,
  delivered_gen (Some []) ops = delivered (Some []) ops /\
  delivered_gen None ops = delivered None ops.
Proof. intros ops. split; [apply delivered_gen_empty|apply delivered_gen_none]. Qed.

Local Open Scope N_scope.
Definition w_one : bytes := [111; 110; 101].
Definition w_part : bytes := [112; 97; 114; 116].
Definition w_two : bytes := [116; 119; 111].
Definition w_init : option bytes := Some [111; 108; 100; 10; 102; 114].

(* the tree before the repairs: "one\npart", truncate, "two\n" delivers
   one, part, parttwo; and "one\npart", rename+create, "two\n" delivers one, two *)
Theorem C16_truncate_dup_refuted :
  exists init ops,
    delivered_old init ops <> spec init ops /\
    delivered_old init ops = [w_one; w_part; w_part ++ w_two] /\
    spec init ops = [w_one; w_part; w_two].
Proof.
  exists w_init, [AppendLine w_one; AppendFrag w_part; Truncate; AppendLine w_two].
  split; [|split]; vm_compute; [discriminate|reflexivity|reflexivity].
Qed.

Theorem C16_rotate_lost_refuted :
  exists init ops,
    delivered_old init ops <> spec init ops /\
    delivered_old init ops = [w_one; w_two] /\
    spec init ops = [w_one; w_part; w_two].
Proof.
  exists w_init, [AppendLine w_one; AppendFrag w_part; RenameCreate []; AppendLine w_two].
  split; [|split]; vm_compute; [discriminate|reflexivity|reflexivity].
Qed.

(* each repair alone is not enough *)
Theorem C16_each_repair_needed_refuted :
  (exists init ops, run false true init ops <> spec init ops) /\
  (exists init ops, run true false init ops <> spec init ops).
Proof.
  split.
  - exists w_init, [AppendFrag w_part; Truncate]. vm_compute. discriminate.
  - exists w_init, [AppendFrag w_part; RenameCreate []]. vm_compute. discriminate.
Qed.

(* non-vacuity: a history through every kind of generation end, with CRLF, a
   fragment completed by a later append, a deletion and a re-creation *)
Example C16_nontrivial :
  let ops := [AppendFrag w_part; AppendLine w_two; AppendCRLF w_one; AppendFrag w_part; Truncate;
              AppendFrag w_one; CopyTruncate; AppendLine w_two; AppendFrag w_part; RenameCreate (w_one ++ [10; 119]);
              AppendFrag w_two; Delete; AppendLine w_one; Recreate; AppendFrag w_one] in
  delivered w_init ops = [w_part ++ w_two; w_one; w_part; w_one; w_two; w_part; w_one; [119] ++ w_two; w_one] /\
  present_after w_init ops = true.
Proof. cbv zeta. split; vm_compute; reflexivity. Qed.

Print Assumptions C16_exactly_once.
Print Assumptions C16_fragment_once.
Print Assumptions C16_fresh_run_after_generation_end.
Print Assumptions C16_truncate_dup_refuted.
Print Assumptions C16_rotate_lost_refuted.
Print Assumptions C16_each_repair_needed_refuted.
