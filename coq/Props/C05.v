(* C05 - A line's effect never depends on earlier lines except through metrics.
   Statements only; proofs live in Proofs/.  The model is Lang/TimeReg.v: the
   VM state that survives ProcessLogLine is the strptime memo (a bounded LRU,
   Lang/Memo.v) and the terminate flag; the thread (time register, stacks,
   match table = capture results) is created afresh for every line, and
   C05_line_local therefore speaks about captures as well.  time_parse / add_years are the
   Go time library (any functions); the wall clock is part of each line.
   Dimensioned metrics: a slot of the store is a scalar metric or one label set
   of a metric with keys; EGet = dload (Metric.GetDatum, creates the label set),
   EDel = del (Metric.RemoveDatum), EExpire = del ... after (Metric.ExpireDatum).
   All statements quantify over every event list, these included.  A history
   may also change the world WITHOUT the VM (hstep: HWorld f, f any function;
   ext_del = Store.Gc removing label sets): *_after_external_change. *)
From Coq Require Import List ZArith Bool.
From V Require Import Lang.Memo Lang.TimeReg Proofs.MemoProofs Proofs.TimeRegProofs.
Import ListNotations.
Local Open Scope Z_scope.

(* every memo entry maps (layout, value) to what the time library returns, in
   every state reachable by any history of lines; and the terminate flag is
   off at the start of every line *)
Theorem C05_memo_sound :
  forall time_parse add_years cfg hist w0,
    let v := snd (run_lines_new time_parse add_years cfg hist (w0, vm_init_new)) in
    v_term v = false /\
    forall layout value p, In ((layout, value), p) (v_memo v) ->
                           time_parse (c_loc cfg) layout value = Some p.
Proof. exact memo_sound_reachable. Qed.

(* the invariant is kept by a memo hit (move to front), by the insertion of a
   correct entry, and by the eviction that an insertion can cause *)
Theorem C05_memo_sound_preserved :
  forall time_parse cfg (m : memo_new),
    memo_sound time_parse cfg m ->
    (forall k, memo_sound time_parse cfg (snd (lru_get key2_eqb k m))) /\
    (forall layout value p, time_parse (c_loc cfg) layout value = Some p ->
        memo_sound time_parse cfg (lru_add key2_eqb memo_cap (layout, value) p m)).
Proof. exact memo_sound_preserved. Qed.

(* the list model keeps lru.Cache's structure: one entry per key, at most 64 *)
Theorem C05_memo_bounded :
  forall (m : memo_new) k p,
    lru_wf memo_cap m ->
    lru_wf memo_cap (snd (lru_get key2_eqb k m)) /\ lru_wf memo_cap (lru_add key2_eqb memo_cap k p m) /\
    lru_find key2_eqb k (lru_add key2_eqb memo_cap k p m) = Some p.
Proof. exact memo_bounded. Qed.

(* MAIN: for every history of lines and every line, processing the line after
   the history changes the metrics and the runtime-error counter exactly as
   processing it in a freshly loaded VM whose metrics hold the same values *)
Theorem C05_line_local :
  forall time_parse add_years cfg (hist : list line) (l : line) (w0 : world),
    let wv := run_lines_new time_parse add_years cfg hist (w0, vm_init_new) in
    fst (run_line_new time_parse add_years cfg l wv) =
    fst (run_line_new time_parse add_years cfg l (fst wv, vm_init_new)).
Proof. exact line_local. Qed.

(* the same for any continuation of lines *)
Theorem C05_lines_local :
  forall time_parse add_years cfg (hist more : list line) (w0 : world),
    let wv := run_lines_new time_parse add_years cfg hist (w0, vm_init_new) in
    fst (run_lines_new time_parse add_years cfg more wv) =
    fst (run_lines_new time_parse add_years cfg more (fst wv, vm_init_new)).
Proof. exact lines_local. Qed.

(* MAIN, with the metrics also changed from outside the VM: for every history
   of lines interleaved with arbitrary changes of the world that do not go
   through the VM (a label set removed by the store's garbage collection:
   HWorld (ext_del ms); or any other function world -> world), the next line
   has exactly the effect it has in a freshly loaded VM started on the world
   reached.  Whatever the VM remembers about label sets it looked up or
   created on earlier lines cannot matter. *)
Theorem C05_line_local_after_external_change :
  forall time_parse add_years cfg (hist : list hstep) (l : line) (w0 : world),
    let wv := run_hist_new time_parse add_years cfg hist (w0, vm_init_new) in
    fst (run_line_new time_parse add_years cfg l wv) =
    fst (run_line_new time_parse add_years cfg l (fst wv, vm_init_new)).
Proof. exact line_local_ext. Qed.

(* the same for any continuation, itself with changes from outside *)
Theorem C05_history_local_after_external_change :
  forall time_parse add_years cfg (hist more : list hstep) (w0 : world),
    let wv := run_hist_new time_parse add_years cfg hist (w0, vm_init_new) in
    fst (run_hist_new time_parse add_years cfg more wv) =
    fst (run_hist_new time_parse add_years cfg more (fst wv, vm_init_new)).
Proof. exact hist_local_ext. Qed.

(* histories without outside changes are the histories of C05_line_local *)
Theorem C05_history_of_lines :
  forall time_parse add_years cfg (ls : list line) wv,
    run_hist_new time_parse add_years cfg (map HLine ls) wv = run_lines_new time_parse add_years cfg ls wv.
Proof. exact run_hist_lines. Qed.

(* non-vacuity: `d[..]++` on two lines (2 @ 2000), the label set removed from
   outside, then the same line again: a new datum, 1 @ 3000 (not 3); and with
   `del d[..]` and `del d[..] after` on that line: no label set, one runtime
   error *)
Example C05_delete_and_recreate :
  let wv2 := run_hist_new bogus_parse no_adj cfg0 [HLine (dim_line 1000); HLine (dim_line 2000)] (w_empty, vm_init_new) in
  let wv := run_hist_new bogus_parse no_adj cfg0 dim_hist (w_empty, vm_init_new) in
  store_get 7 (w_store (fst wv2)) = {| d_val := 2; d_time := 2000 |} /\
  store_mem 7 (w_store (fst wv)) = false /\
  w_store (fst (run_line_new bogus_parse no_adj cfg0 (dim_line 3000) wv)) =
    [(0%N, {| d_val := 0; d_time := 0 |}); (7%N, {| d_val := 1; d_time := 3000 |})] /\
  fst (run_line_new bogus_parse no_adj cfg0 (dim_del_line 3000) wv) =
    {| w_store := [(0%N, {| d_val := 0; d_time := 0 |})]; w_errs := 1 |}.
Proof. exact dim_delete_recreate. Qed.

(* captures: the match table belongs to the thread, which is new for every
   line.  Whatever the history, reading a capture group of a regexp that no
   Match on THIS line has evaluated (e.g. the right operand of a `||` whose
   left operand was true) is a runtime error that ends the line: a result
   captured on an earlier line is never seen *)
Theorem C05_captures_fresh :
  forall time_parse add_years cfg hist w0 now year pre re k,
    forallb (fun e => negb (matches_re re e)) pre = true ->
    let s := exec_new time_parse add_years cfg now year pre (line_start time_parse add_years cfg hist w0) in
    v_term (s_vm s) = false ->
    let s' := step_new time_parse add_years cfg now year (ECapref re k) s in
    w_errs (s_w s') = N.succ (w_errs (s_w s)) /\ w_store (s_w s') = w_store (s_w s) /\
    v_term (s_vm s') = true.
Proof. exact capture_needs_match_on_this_line. Qed.

(* ... and a capture read returns the group of the last Match of that regexp
   on this line (error when it missed or has too few groups) *)
Theorem C05_capture_reads_this_line :
  forall time_parse add_years cfg hist w0 now year pre re res mid k,
    forallb (fun e => negb (matches_re re e)) mid = true ->
    let s := exec_new time_parse add_years cfg now year (pre ++ EMatch re res :: mid)
               (line_start time_parse add_years cfg hist w0) in
    v_term (s_vm s) = false ->
    let s' := step_new time_parse add_years cfg now year (ECapref re k) s in
    match res with
    | Some gs =>
        match nth_error gs k with
        | Some g => t_strs (s_th s') = g :: t_strs (s_th s) /\ s_w s' = s_w s /\ v_term (s_vm s') = false
        | None => v_term (s_vm s') = true /\ w_errs (s_w s') = N.succ (w_errs (s_w s))
        end
    | None => v_term (s_vm s') = true /\ w_errs (s_w s') = N.succ (w_errs (s_w s))
    end.
Proof. exact capture_reads_last_match. Qed.

(* the memo before the repair (keyed by the value alone, failed parses cached):
   the statement of C05_line_local is false of it *)
Theorem C05_memo_refuted :
  exists time_parse add_years cfg hist l w0,
    let wv := run_lines_old time_parse add_years cfg hist (w0, vm_init_old) in
    fst (run_line_old time_parse add_years cfg l wv) <>
    fst (run_line_old time_parse add_years cfg l (fst wv, vm_init_old)).
Proof. exact old_memo_refutes_line_local. Qed.

(* what goes wrong there: `strptime($1, "2006"); c++` on two `bogus` lines *)
Theorem C05_memo_refuted_detail :
  let wv := run_lines_old bogus_parse no_adj cfg0 [bogus_line] (w_empty, vm_init_old) in
  w_errs (fst wv) = 1%N /\
  w_errs (fst (run_line_old bogus_parse no_adj cfg0 bogus_line wv)) = 1%N /\
  d_val (store_get 0 (w_store (fst (run_line_old bogus_parse no_adj cfg0 bogus_line wv)))) = 1 /\
  w_errs (fst (run_line_old bogus_parse no_adj cfg0 bogus_line (fst wv, vm_init_old))) = 2%N /\
  d_val (store_get 0 (w_store (fst (run_line_old bogus_parse no_adj cfg0 bogus_line (fst wv, vm_init_old))))) = 0.
Proof. exact old_memo_leaks_detail. Qed.

(* non-vacuity: on the same history and line the repaired machine raises the
   error a second time and leaves the counter alone (a history that holds a
   failing strptime, followed by the same line) *)
Example C05_nontrivial_history :
  let wv := run_lines_new bogus_parse no_adj cfg0 [bogus_line] (w_empty, vm_init_new) in
  w_errs (fst (run_line_new bogus_parse no_adj cfg0 bogus_line wv)) = 2%N /\
  d_val (store_get 0 (w_store (fst (run_line_new bogus_parse no_adj cfg0 bogus_line wv)))) = 0.
Proof. exact new_memo_same_input. Qed.

Print Assumptions C05_memo_sound.
Print Assumptions C05_memo_sound_preserved.
Print Assumptions C05_memo_bounded.
Print Assumptions C05_line_local.
Print Assumptions C05_lines_local.
Print Assumptions C05_line_local_after_external_change.
Print Assumptions C05_history_local_after_external_change.
Print Assumptions C05_history_of_lines.
Print Assumptions C05_delete_and_recreate.
Print Assumptions C05_captures_fresh.
Print Assumptions C05_capture_reads_this_line.
Print Assumptions C05_memo_refuted.
Print Assumptions C05_memo_refuted_detail.
Print Assumptions C05_nontrivial_history.
