(* C07 - Timestamps follow strptime/settime and default to processing time.
   Statements only; proofs live in Proofs/TimeRegProofs.v.  Model: Lang/TimeReg.v.
   time_parse loc layout value is time.Parse / time.ParseInLocation in the
   configured zone (None = error; Some = instant in ns and Year()); add_years is
   AddDate(y,0,0) on that parsed time; both are arbitrary functions here.  The
   line's clock (now in ns, year) is an input.  zero_ns is Go's zero time.Time,
   the instant reserved to mean "register unset".

   line_start cfg hist w0 is the machine at the start of a line after the
   history hist; exec_new ... pre is the part of the line already executed, and
   v_term = false says the line has not ended (no error, no stop). *)
From Coq Require Import List ZArith Bool.
From V Require Import Lang.Memo Lang.TimeReg Proofs.TimeRegProofs.
Import ListNotations.
Local Open Scope Z_scope.

(* strptime(value, layout): whatever was parsed before (any history of lines,
   any prefix of this line), the register becomes the instant the time library
   gives for (zone, layout, value), a zero year replaced by the current year
   when the option is on; when the library rejects the value a runtime error
   is counted and the line ends, every time *)
Theorem C07_strptime :
  forall time_parse add_years cfg hist w0 now year pre layout value,
    let s := exec_new time_parse add_years cfg now year pre (line_start time_parse add_years cfg hist w0) in
    v_term (s_vm s) = false ->
    let s' := step_new time_parse add_years cfg now year (EStrptime layout value) s in
    match time_parse (c_loc cfg) layout value with
    | Some p => t_time (s_th s') = adjust add_years cfg year layout value p /\
                s_w s' = s_w s /\ v_term (s_vm s') = false
    | None => w_errs (s_w s') = N.succ (w_errs (s_w s)) /\ w_store (s_w s') = w_store (s_w s) /\
              v_term (s_vm s') = true
    end.
Proof. exact strptime_follows_parse. Qed.

(* ... and timestamp() then returns that instant, and every datum written
   afterwards on the line carries it (as int64 ns), unless it is the reserved one *)
Theorem C07_strptime_observed :
  forall time_parse add_years cfg hist w0 now year pre layout value p mid,
    time_parse (c_loc cfg) layout value = Some p ->
    adjust add_years cfg year layout value p <> zero_ns ->
    forallb (fun e => negb (sets_time e)) mid = true ->
    let s := exec_new time_parse add_years cfg now year (pre ++ EStrptime layout value :: mid)
               (line_start time_parse add_years cfg hist w0) in
    v_term (s_vm s) = false ->
    let t := adjust add_years cfg year layout value p in
    t_stack (s_th (step_new time_parse add_years cfg now year ETimestamp s)) = t / ns_per_s :: t_stack (s_th s) /\
    (forall m, d_time (store_get m (w_store (s_w (step_new time_parse add_years cfg now year (EInc m) s)))) = wrap64 t) /\
    (forall m v stk, t_stack (s_th s) = v :: stk ->
       store_get m (w_store (s_w (step_new time_parse add_years cfg now year (ESet m) s))) =
       {| d_val := v; d_time := wrap64 t |}).
Proof. exact strptime_then_observed. Qed.

(* settime(n), n not the reserved instant: timestamp() returns n *)
Theorem C07_settime :
  forall time_parse add_years cfg hist w0 now year pre n mid,
    n <> zero_s ->
    forallb (fun e => negb (sets_time e)) mid = true ->
    let s := exec_new time_parse add_years cfg now year (pre ++ ESettime n :: mid)
               (line_start time_parse add_years cfg hist w0) in
    v_term (s_vm s) = false ->
    t_stack (s_th (step_new time_parse add_years cfg now year ETimestamp s)) = n :: t_stack (s_th s).
Proof. exact settime_then_timestamp. Qed.

(* no strptime / settime earlier on the line: timestamp() returns the clock and
   every datum written is stamped with the clock *)
Theorem C07_default :
  forall time_parse add_years cfg hist w0 now year pre,
    forallb (fun e => negb (sets_time e)) pre = true ->
    let s := exec_new time_parse add_years cfg now year pre (line_start time_parse add_years cfg hist w0) in
    v_term (s_vm s) = false ->
    t_stack (s_th (step_new time_parse add_years cfg now year ETimestamp s)) = now / ns_per_s :: t_stack (s_th s) /\
    (forall m, d_time (store_get m (w_store (s_w (step_new time_parse add_years cfg now year (EInc m) s)))) = now) /\
    (forall m v stk, t_stack (s_th s) = v :: stk ->
       store_get m (w_store (s_w (step_new time_parse add_years cfg now year (ESet m) s))) =
       {| d_val := v; d_time := now |}).
Proof. exact default_is_now. Qed.

(* once the register holds t <> reserved (time_spec: the last strptime/settime
   of the prefix decides), timestamp() returns t and every datum written
   carries t *)
Theorem C07_stamp :
  forall time_parse add_years cfg hist w0 now year pre,
    let s := exec_new time_parse add_years cfg now year pre (line_start time_parse add_years cfg hist w0) in
    v_term (s_vm s) = false ->
    let reg := time_spec time_parse add_years cfg year pre zero_ns in
    reg <> zero_ns ->
    t_stack (s_th (step_new time_parse add_years cfg now year ETimestamp s)) = reg / ns_per_s :: t_stack (s_th s) /\
    (forall m, d_time (store_get m (w_store (s_w (step_new time_parse add_years cfg now year (EInc m) s)))) = wrap64 reg) /\
    (forall m v stk, t_stack (s_th s) = v :: stk ->
       store_get m (w_store (s_w (step_new time_parse add_years cfg now year (ESet m) s))) =
       {| d_val := v; d_time := wrap64 reg |}).
Proof. exact stamp_follows_register. Qed.

(* the same without the side condition: reads go through ts_value / stamp_value,
   which fall back to the clock exactly on the reserved instant *)
Theorem C07_register_observed :
  forall time_parse add_years cfg hist w0 now year pre,
    let s := exec_new time_parse add_years cfg now year pre (line_start time_parse add_years cfg hist w0) in
    v_term (s_vm s) = false ->
    let reg := time_spec time_parse add_years cfg year pre zero_ns in
    t_stack (s_th (step_new time_parse add_years cfg now year ETimestamp s)) = ts_value now reg :: t_stack (s_th s) /\
    (forall m, d_time (store_get m (w_store (s_w (step_new time_parse add_years cfg now year (EInc m) s)))) = stamp_value now reg) /\
    (forall m v stk, t_stack (s_th s) = v :: stk ->
       store_get m (w_store (s_w (step_new time_parse add_years cfg now year (ESet m) s))) =
       {| d_val := v; d_time := stamp_value now reg |}).
Proof. exact register_observed. Qed.

(* the memo before the repair (keyed by the value alone): C07_strptime is false
   of it - a value already parsed under another layout keeps the old instant *)
Theorem C07_value_only_memo_refuted :
  exists time_parse add_years cfg now year pre layout value p,
    let s := exec memo_old (strptime_old time_parse add_years) cfg now year pre
               {| s_th := fresh_thread; s_w := w_two; s_vm := vm_init_old |} in
    v_term (s_vm s) = false /\
    time_parse (c_loc cfg) layout value = Some p /\
    t_time (s_th (step memo_old (strptime_old time_parse add_years) cfg now year (EStrptime layout value) s))
      <> adjust add_years cfg year layout value p.
Proof. exact old_memo_refutes_strptime. Qed.

(* 03/04/2020 under 01/02/2006 and then under 02/01/2006 on one line: the old
   machine stores 1583280000 twice *)
Theorem C07_value_only_memo_refuted_detail :
  let w := fst (run_line_old two_layout_parse no_adj cfg0 two_layout_line (w_two, vm_init_old)) in
  two_layout_parse 0%N l_dmy v_0304 = Some {| pt_ns := 1585872000000000000; pt_year := 2020 |} /\
  store_get 1 (w_store w) = {| d_val := 1583280000; d_time := 1583280000000000000 |}.
Proof. exact old_memo_ignores_layout. Qed.

(* non-vacuity: the repaired machine on that line - two successful strptime,
   two reads, two different instants *)
Example C07_two_layouts_nontrivial :
  let w := fst (run_line_new two_layout_parse no_adj cfg0 two_layout_line (w_two, vm_init_new)) in
  store_get 0 (w_store w) = {| d_val := 1583280000; d_time := 1583280000000000000 |} /\
  store_get 1 (w_store w) = {| d_val := 1585872000; d_time := 1585872000000000000 |}.
Proof. exact new_memo_respects_layout. Qed.

Print Assumptions C07_strptime.
Print Assumptions C07_strptime_observed.
Print Assumptions C07_settime.
Print Assumptions C07_default.
Print Assumptions C07_stamp.
Print Assumptions C07_register_observed.
Print Assumptions C07_value_only_memo_refuted.
Print Assumptions C07_value_only_memo_refuted_detail.
Print Assumptions C07_two_layouts_nontrivial.
