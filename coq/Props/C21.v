(* C21 - Histograms count every observation in exactly one bucket.
   Statements only; proofs live in Proofs/BucketsProofs.v.

   Every theorem is stated for an arbitrary float type F and arbitrary
   operations O : fops F (comparison <=, <, +, 0, +Inf, IsInf), so it holds in
   particular for IEEE binary64 with Go's operators, whose NaN compares false
   with everything; no order axiom and no float axiom is used.  The model is
   tied to the Go code with Coq's primitive binary64 floats in Corr/Run_C21.v. *)
From V Require Import Metrics.Buckets Proofs.BucketsProofs.
Local Open Scope N_scope.

(* [is_target O v ms i]: i is the position the property assigns to v among the
   upper bounds ms - v <= no earlier bound, and either v <= ms[i] or i is the
   last position and v <= no bound at all (above every bound, or NaN). *)

(* Each observation increments exactly one bucket, by one: the first whose upper
   bound is at least the value, the last (+Inf) one for a value that is <= no
   bound; that position is unique; no other count, no range changes; the count
   grows by one and the sum by v.  (Repaired Observe.) *)
Theorem C21_one_bucket :
  forall (F : Type) (O : fops F) (d : @bdatum F) (v : F),
    b_buckets d <> [] ->
    exists i,
      is_target O v (bounds d) i /\
      (forall j, is_target O v (bounds d) j -> j = i) /\
      (forall j, nth_error (counts (observe O v d)) j =
                 if Nat.eqb j i then option_map (fun c => c + 1) (nth_error (counts d) j)
                 else nth_error (counts d) j) /\
      map fst (b_buckets (observe O v d)) = map fst (b_buckets d) /\
      b_count (observe O v d) = b_count d + 1 /\
      b_sum (observe O v d) = f_add O (b_sum d) v.
Proof. exact @observe_one_bucket. Qed.

(* With upper bounds sorted by a transitive <= (what an accepted declaration
   gives for non-NaN boundaries), that bucket is the only one whose half-open
   range (previous bound, own bound] contains v. *)
Theorem C21_target_is_containing_range :
  forall (F : Type) (O : fops F) v ms i,
    (forall x y z, f_leb O x y = true -> f_leb O y z = true -> f_leb O x z = true) ->
    (forall a b x y, (a < b)%nat -> nth_error ms a = Some x -> nth_error ms b = Some y -> f_leb O x y = true) ->
    is_target O v ms i ->
    forall m, nth_error ms i = Some m -> f_leb O v m = true ->
    forall j mj, nth_error ms j = Some mj -> f_leb O v mj = true ->
      (j = 0%nat \/ exists p, nth_error ms (pred j) = Some p /\ f_leb O v p = false) -> j = i.
Proof. exact @target_is_containing_range. Qed.

(* For every list of ranges a datum is created from and every observation
   sequence: the bucket counts sum to the observation count, which is the
   number of observations. *)
Theorem C21_counts_sum_to_count :
  forall (F : Type) (O : fops F) (rs : list (@range F)) (vs : list F),
    let d := observe_all O vs (make_buckets O rs) in
    sumN (counts d) = b_count d /\ b_count d = N.of_nat (length vs).
Proof. exact @counts_sum_to_count. Qed.

(* The sum is the left-to-right float sum of the observed values. *)
Theorem C21_sum :
  forall (F : Type) (O : fops F) (rs : list (@range F)) (vs : list F),
    b_sum (observe_all O vs (make_buckets O rs)) = fold_left (f_add O) vs (f_zero O).
Proof. exact @sum_is_fold. Qed.

(* A declaration is accepted only with >= 2 boundaries none of which is <= its
   predecessor, and the ranges tile (each starts where the previous ends). *)
Theorem C21_accepted_boundaries_increase :
  forall (F : Type) (O : fops F) bs rs,
    make_ranges O bs = Some rs ->
    (2 <= length bs)%nat /\
    forall i a b, nth_error bs i = Some a -> nth_error bs (S i) = Some b -> f_leb O b a = false.
Proof. exact @accepted_boundaries_increase. Qed.

Theorem C21_ranges_chained :
  forall (F : Type) (O : fops F) bs rs, make_ranges O bs = Some rs -> chained rs.
Proof. exact @ranges_chained. Qed.

(* With a positive first boundary the upper bounds of the datum - after any
   observations - are exactly the declared boundaries plus +Inf. *)
Theorem C21_bounds_positive_first :
  forall (F : Type) (O : fops F) bs rs b0 vs,
    f_is_pinf O (f_inf O) = true ->
    make_ranges O bs = Some rs -> hd_error bs = Some b0 -> f_ltb O (f_zero O) b0 = true ->
    bounds (observe_all O vs (make_buckets O rs)) = bs ++ [f_inf O].
Proof. exact @declared_bounds_exported. Qed.

(* FULL STATEMENT (false of the code): the same without the hypothesis on b0.
   Refuted: whenever the first boundary is not positive it is dropped, so the
   upper bounds are never the declared boundaries plus +Inf. *)
Theorem C21_bounds_nonpositive_refuted :
  forall (F : Type) (O : fops F) bs rs b0,
    make_ranges O bs = Some rs -> hd_error bs = Some b0 -> f_ltb O (f_zero O) b0 = false ->
    map r_max rs = tl bs ++ [f_inf O] /\ map r_max rs <> bs ++ [f_inf O].
Proof.
  intros F O bs rs b0 H E L. split.
  - exact (bounds_nonpositive_first O bs rs b0 H E L).
  - exact (bounds_nonpositive_differ O bs rs b0 H E L).
Qed.

(* The Observe of the tree before the repair: a value that is <= no upper bound
   (NaN, for which even NaN <= +Inf is false) increments the count and no
   bucket, which breaks "bucket counts sum to the count". *)
Theorem C21_nan_refuted :
  forall (F : Type) (O : fops F) (d : @bdatum F) (v : F),
    (forall r c, In (r, c) (b_buckets d) -> f_leb O v (r_max r) = false) ->
    counts (observe_old O v d) = counts d /\
    b_count (observe_old O v d) = b_count d + 1 /\
    (sumN (counts d) = b_count d ->
     sumN (counts (observe_old O v d)) <> b_count (observe_old O v d)).
Proof.
  intros F O d v H. destruct (old_observe_loses O d v H) as (A & B).
  split; [exact A|]. split; [exact B|]. exact (old_observe_breaks_invariant O d v H).
Qed.

(* The repair changes nothing for a value that is <= some bound. *)
Theorem C21_repair_conservative :
  forall (F : Type) (O : fops F) (d : @bdatum F) (v : F),
    (exists r c, In (r, c) (b_buckets d) /\ f_leb O v (r_max r) = true) ->
    observe_old O v d = observe O v d.
Proof. exact @repair_is_conservative. Qed.

(* ---- non-vacuity, on a float-like instance with NaN and both infinities
   whose comparison is a total preorder off NaN and false on NaN ---- *)
Example C21_instance_is_floatlike :
  (forall x, xleb XNaN x = false /\ xleb x XNaN = false) /\
  (forall x y z, xleb x y = true -> xleb y z = true -> xleb x z = true) /\
  (forall x y, x <> XNaN -> y <> XNaN -> xleb x y = true \/ xleb y x = true).
Proof. split; [exact xleb_nan_false|split; [exact xleb_trans|exact xleb_total]]. Qed.

(* buckets 1, 2, 4; observations 2, NaN, +Inf, -3, 3 *)
Example C21_example_run :
  option_map (fun d => (bounds d, counts d, b_count d, b_sum d))
    (declare_observe xops [XFin 1; XFin 2; XFin 4] [XFin 2; XNaN; XPosInf; XFin (-3); XFin 3])
  = Some ([XFin 1; XFin 2; XFin 4; XPosInf], [1; 1; 1; 2], 5, XNaN).
Proof. reflexivity. Qed.

(* buckets 0, 1, 2 is accepted and loses the 0 *)
Example C21_example_first_zero :
  option_map (map r_max) (make_ranges xops [XFin 0; XFin 1; XFin 2]) = Some [XFin 1; XFin 2; XPosInf].
Proof. reflexivity. Qed.

(* unrepaired: NaN into a fresh datum with ranges (0,1], (1,+Inf] *)
Example C21_example_nan_old :
  let d := make_buckets xops [Build_range (XFin 0) (XFin 1); Build_range (XFin 1) XPosInf] in
  counts (observe_old xops XNaN d) = [0; 0] /\ b_count (observe_old xops XNaN d) = 1 /\
  counts (observe xops XNaN d) = [0; 1].
Proof. repeat split. Qed.

Print Assumptions C21_one_bucket.
Print Assumptions C21_target_is_containing_range.
Print Assumptions C21_counts_sum_to_count.
Print Assumptions C21_sum.
Print Assumptions C21_accepted_boundaries_increase.
Print Assumptions C21_ranges_chained.
Print Assumptions C21_bounds_positive_first.
Print Assumptions C21_bounds_nonpositive_refuted.
Print Assumptions C21_nan_refuted.
Print Assumptions C21_repair_conservative.
