(* C06 - Programs are isolated from each other.
   Statements only; proofs live in Proofs/StoreAddProofs.v, Proofs/LoaderIsolation.v.
   Models: Metrics/StoreAdd.v (Store.Add), Run/Loader.v (CompileAndRun,
   UnloadProgram, line fan-out, Store.Gc).  Every theorem holds for both values
   of the two repair switches, for the OmitMetricSource option, and for every
   compiler and every VM behaviour (the [compile] and [vmstep] oracles). *)
From V Require Import Metrics.StoreAdd Run.Loader Proofs.StoreAddProofs Proofs.LoaderIsolation.
Local Open Scope N_scope.

(* Store.Add of a metric of program p leaves the entries of every other
   program q, in every bucket, exactly as they were (and it only ever touches
   p's heap: that is by construction of [add]). *)
Theorem C06_add_frame :
  forall (c : bool) idx h p o d idx' h' q,
    add c idx h p o d = Some (idx', h') -> q <> p ->
    forall name, pview q idx' name = pview q idx name.
Proof. exact add_frame. Qed.

(* Add refuses exactly when the bucket of the name is not empty and its first
   metric has another kind: the only interaction between programs *)
Theorem C06_refusal_only_kind :
  forall (c : bool) idx h p o d,
    add c idx h p o d = None <->
    exists v0 r, entries_of idx (d_name d) = v0 :: r /\ d_kind (e_decl v0) <> d_kind d.
Proof. exact add_refusal_only_kind. Qed.

(* Main theorem.  For every history of loads (with any source: identical,
   edited, failing to compile, refused), unloads, lines and GC passes over any
   number of programs: what belongs to P afterwards -- its heap of metric
   objects and data, its running version, its counters, and its entries in
   every bucket of the store, in order -- equals what the history restricted
   to P's own loads and unloads (and all lines and GC passes) produces,
   provided the one permitted interaction never happens: whenever P is loaded,
   each name it declares is held by the other programs, at that moment, only
   with the same kind. *)
Theorem C06_isolation :
  forall (c1 c2 omit : bool) compile vmstep (P : bytes) (ops : list op),
    never_clashes c1 c2 omit compile vmstep P st_empty ops ->
    fst (proj P (run_from c1 c2 omit compile vmstep st_empty ops)) =
    fst (proj P (run_from c1 c2 omit compile vmstep st_empty (restrict P ops))) /\
    forall name,
      snd (proj P (run_from c1 c2 omit compile vmstep st_empty ops)) name =
      snd (proj P (run_from c1 c2 omit compile vmstep st_empty (restrict P ops))) name.
Proof. exact isolation. Qed.

(* non-vacuity: q and p both declare counter x (p also a gauge y by k); q is
   loaded first, lines flow, q is reloaded with a syntax error and unloaded;
   the hypothesis of C06_isolation holds for p and both programs hold data
   under x *)
Definition ex_p : bytes := [112].
Definition ex_q : bytes := [113].
Definition ex_x : bytes := [120].
Definition ex_y : bytes := [121].
Definition ex_compile (p : bytes) (src : N) : option (list decl) :=
  if N.eqb src 9 then None else
  if bytes_eqb p ex_p then Some [mkdecl ex_x 1 0 [] [49] false; mkdecl ex_y 2 0 [[107]] [50] false]
  else Some [mkdecl ex_x 1 0 [] [49] false].
Definition ex_vmstep (p : bytes) (src l : N) : list effect :=
  if bytes_eqb p ex_p then [EInc 0 [] 1; ESet 1 [[117]] (DInt 7)] else [EInc 0 [] 1].
Definition ex_ops : list op :=
  [OLoad ex_q 0; OLine 0 2; OLoad ex_p 0; OLine 0 4; OLoad ex_q 9; OUnload ex_q; OLine 0 7; OGc 5].

Example C06_isolation_applies :
  never_clashes true true false ex_compile ex_vmstep ex_p st_empty ex_ops /\
  length (entries_of (st_index (run_from true true false ex_compile ex_vmstep st_empty ex_ops)) ex_x) = 2%nat.
Proof.
  split; [|vm_compute; reflexivity].
  cbn [never_clashes ex_ops]. repeat split; try (intros E; discriminate E).
  intros _ o d I Hh e Ie. vm_compute in I.
  destruct I as [I|[I|[]]]; injection I as <- <-; vm_compute in Ie;
    repeat (destruct Ie as [<-|Ie]; [reflexivity|]); destruct Ie.
Qed.

Print Assumptions C06_add_frame.
Print Assumptions C06_refusal_only_kind.
Print Assumptions C06_isolation.
Print Assumptions C06_isolation_applies.
