(* C06 - Programs are isolated from each other.
   Statements only; proofs live in Proofs/StoreAddProofs.v, Proofs/LoaderIsolation.v.
   Models: Metrics/StoreAdd.v (Store.Add), Run/Loader.v (CompileAndRun,
   UnloadProgram, line fan-out, Store.Gc).  Every theorem holds for both values
   of the two repair switches, for the OmitMetricSource option, and for every
   compiler and every VM behaviour (the [compile] and [vmstep] oracles).
   Second half (Run/Fanout.v, Proofs/FanoutProofs.v): the fan-out of the lines
   as blocking hand-overs in which any program may be arbitrarily slow. *)
From V Require Import Metrics.StoreAdd Run.Loader Run.Fanout Proofs.StoreAddProofs Proofs.LoaderIsolation
  Proofs.FanoutProofs.
Local Open Scope N_scope.

(* Store.Add of a metric of program p leaves the entries of every other
   program q, in every bucket, exactly as they were (and it only ever touches
   p's heap: that is by construction of [add]). *)
Theorem C06_add_frame :
  forall (c : bool) idx h p o d idx' h' q,
    add c idx h p o d = Some (idx', h') -> q <> p ->
    forall name, pview q idx' name = pview q idx name.
Proof. exact add_frame. Qed.

(* Add refuses exactly when the bucket of the name is not empty and its first
   metric has another kind: the only interaction between programs *)
Theorem C06_refusal_only_kind :
  forall (c : bool) idx h p o d,
    add c idx h p o d = None <->
    exists v0 r, entries_of idx (d_name d) = v0 :: r /\ d_kind (e_decl v0) <> d_kind d.
Proof. exact add_refusal_only_kind. Qed.

(* Main theorem.  For every history of loads (with any source: identical,
   edited, failing to compile, refused), unloads, lines and GC passes over any
   number of programs: what belongs to P afterwards -- its heap of metric
   objects and data, its running version, its counters, and its entries in
   every bucket of the store, in order -- equals what the history restricted
   to P's own loads and unloads (and all lines and GC passes) produces,
   provided the one permitted interaction never happens: whenever P is loaded,
   each name it declares is held by the other programs, at that moment, only
   with the same kind. *)
Theorem C06_isolation :
  forall (c1 c2 omit : bool) compile vmstep (P : bytes) (ops : list op),
    never_clashes c1 c2 omit compile vmstep P st_empty ops ->
    fst (proj P (run_from c1 c2 omit compile vmstep st_empty ops)) =
    fst (proj P (run_from c1 c2 omit compile vmstep st_empty (restrict P ops))) /\
    forall name,
      snd (proj P (run_from c1 c2 omit compile vmstep st_empty ops)) name =
      snd (proj P (run_from c1 c2 omit compile vmstep st_empty (restrict P ops))) name.
Proof. exact isolation. Qed.

(* non-vacuity: q and p both declare counter x (p also a gauge y by k); q is
   loaded first, lines flow, q is reloaded with a syntax error and unloaded;
   the hypothesis of C06_isolation holds for p and both programs hold data
   under x *)
Definition ex_p : bytes := [112].
Definition ex_q : bytes := [113].
Definition ex_x : bytes := [120].
Definition ex_y : bytes := [121].
Definition ex_compile (p : bytes) (src : N) : option (list decl) :=
  if N.eqb src 9 then None else
  if bytes_eqb p ex_p then Some [mkdecl ex_x 1 0 [] [49] false; mkdecl ex_y 2 0 [[107]] [50] false]
  else Some [mkdecl ex_x 1 0 [] [49] false].
Definition ex_vmstep (p : bytes) (src l : N) : list effect :=
  if bytes_eqb p ex_p then [EInc 0 [] 1; ESet 1 [[117]] (DInt 7)] else [EInc 0 [] 1].
Definition ex_ops : list op :=
  [OLoad ex_q 0; OLine 0 2; OLoad ex_p 0; OLine 0 4; OLoad ex_q 9; OUnload ex_q; OLine 0 7; OGc 5].

Example C06_isolation_applies :
  never_clashes true true false ex_compile ex_vmstep ex_p st_empty ex_ops /\
  length (entries_of (st_index (run_from true true false ex_compile ex_vmstep st_empty ex_ops)) ex_x) = 2%nat.
Proof.
  split; [|vm_compute; reflexivity].
  cbn [never_clashes ex_ops]. repeat split; try (intros E; discriminate E).
  intros _ o d I Hh e Ie. vm_compute in I.
  destruct I as [I|[I|[]]]; injection I as <- <-; vm_compute in Ie;
    repeat (destruct Ie as [<-|Ie]; [reflexivity|]); destruct Ie.
Qed.

(* ---- the fan-out under an arbitrary schedule (Run/Fanout.v) ---- *)

(* At every moment of every schedule -- whoever is slow, for however long --
   the lines handed to a program p so far are a prefix of the line stream (no
   line skipped, none twice, none out of order), all of them finished except
   possibly the last, and p's record is the one the sequential model gives
   for the finished ones.  A program without a running version is handed
   nothing. *)
Theorem C06_fanout_prefix :
  forall vmstep (c1 c2 omit : bool) compile (st : state) (ls : list lstamp) (sch : list ev) (p : bytes),
    let fs := frun vmstep sch (finit st ls) in
    exists dn pend rest,
      recv_of p fs = dn ++ pend /\ (length pend <= 1)%nat /\
      (is_running p st = true -> recv_of p fs ++ rest = ls) /\
      (is_running p st = false -> recv_of p fs = []) /\
      getp p (fs_st fs) = getp p (run_from c1 c2 omit compile vmstep st (lines_ops dn)).
Proof. exact fanout_prefix. Qed.

(* When a schedule has settled (input drained, nothing in flight): every
   running program was handed every line exactly once, in order, and the state
   is the one of the sequential model (same store index, same line count, same
   record for every program). *)
Theorem C06_fanout_exactly_once :
  forall vmstep (c1 c2 omit : bool) compile (st : state) (ls : list lstamp) (sch : list ev),
    let fs := frun vmstep sch (finit st ls) in
    settled fs = true ->
    (forall p, is_running p st = true -> recv_of p fs = ls) /\
    (forall p, is_running p st = false -> recv_of p fs = []) /\
    st_equiv (fs_st fs) (run_from c1 c2 omit compile vmstep st (lines_ops ls)).
Proof. exact fanout_exactly_once. Qed.

(* The blocking hand-overs never block for good: whatever a schedule has
   reached, letting every vm finish ([drain]) leads to a settled state. *)
Theorem C06_fanout_never_stuck :
  forall vmstep (st : state) (ls : list lstamp) (sch : list ev),
    settled (frun vmstep (sch ++ drain (frun vmstep sch (finit st ls))) (finit st ls)) = true.
Proof. exact fanout_never_stuck. Qed.

(* The isolation theorem for histories in which lines arrive in bursts and are
   processed under arbitrary schedules ([HBurst ls sch]; each burst has settled
   before the next load/unload/GC): P's projection equals that of P's own
   sequential run -- the other programs' loads and unloads removed, nobody
   slow -- over the same lines. *)
Theorem C06_isolation_slow :
  forall vmstep (c1 c2 omit : bool) compile (P : bytes) (hs : list hop),
    settle_all vmstep c1 c2 omit compile st_empty hs = true ->
    never_clashes c1 c2 omit compile vmstep P st_empty (flatten hs) ->
    fst (proj P (hrun vmstep c1 c2 omit compile st_empty hs)) =
    fst (proj P (run_from c1 c2 omit compile vmstep st_empty (restrict P (flatten hs)))) /\
    forall name,
      snd (proj P (hrun vmstep c1 c2 omit compile st_empty hs)) name =
      snd (proj P (run_from c1 c2 omit compile vmstep st_empty (restrict P (flatten hs)))) name.
Proof. exact isolation_slow. Qed.

(* Two histories with the same steps and lines end in the same state whatever
   their schedules were. *)
Theorem C06_schedule_irrelevant :
  forall vmstep (c1 c2 omit : bool) compile (hs hs' : list hop),
    flatten hs = flatten hs' ->
    settle_all vmstep c1 c2 omit compile st_empty hs = true ->
    settle_all vmstep c1 c2 omit compile st_empty hs' = true ->
    st_equiv (hrun vmstep c1 c2 omit compile st_empty hs) (hrun vmstep c1 c2 omit compile st_empty hs').
Proof. exact schedule_irrelevant. Qed.

(* non-vacuity: q is slow.  It still holds line 0 when the loop wants to hand
   it line 1 (two hand-overs block, p waits behind q), later p is the busy one;
   the schedule settles, p has been handed the three lines, and the hypothesis
   of C06_isolation_slow holds for p. *)
Definition ex_burst : list lstamp := [(0, 3%Z); (1, 3%Z); (2, 3%Z)].
Definition ex_sch : list ev :=
  [ENext [ex_q; ex_p]; EHand; EHand; EDone ex_p;
   ENext [ex_q; ex_p]; EHand; EHand; EDone ex_q; EHand; EHand;
   ENext [ex_p; ex_q]; EHand; EDone ex_p; EHand; EHand; EDone ex_q; EHand; EDone ex_p; EDone ex_q].
Definition ex_hs : list hop := [HOp (OLoad ex_q 0); HOp (OLoad ex_p 0); HBurst ex_burst ex_sch].

Example C06_isolation_slow_applies :
  settle_all ex_vmstep true true false ex_compile st_empty ex_hs = true /\
  never_clashes true true false ex_compile ex_vmstep ex_p st_empty (flatten ex_hs) /\
  (let st := hrun ex_vmstep true true false ex_compile st_empty [HOp (OLoad ex_q 0); HOp (OLoad ex_p 0)] in
   (* the blocked hand-overs: after 7 events q has one line, p one, line 1 is waiting *)
   let fs := frun ex_vmstep (firstn 7 ex_sch) (finit st ex_burst) in
   fs_todo fs = [ex_q; ex_p] /\ recv_of ex_p fs = [(0, 3%Z)] /\
   recv_of ex_p (frun ex_vmstep ex_sch (finit st ex_burst)) = ex_burst).
Proof.
  split; [vm_compute; reflexivity|]. split; [|vm_compute; auto].
  change (flatten ex_hs) with [OLoad ex_q 0; OLoad ex_p 0; OLine 0 3; OLine 1 3; OLine 2 3].
  cbn [never_clashes]. repeat split; try (intros E; discriminate E).
  intros _ o d I Hh e Ie. vm_compute in I.
  destruct I as [I|[I|[]]]; injection I as <- <-; vm_compute in Ie;
    repeat (destruct Ie as [<-|Ie]; [reflexivity|]); destruct Ie.
Qed.

Print Assumptions C06_add_frame.
Print Assumptions C06_refusal_only_kind.
Print Assumptions C06_isolation.
Print Assumptions C06_isolation_applies.
Print Assumptions C06_fanout_prefix.
Print Assumptions C06_fanout_exactly_once.
Print Assumptions C06_fanout_never_stuck.
Print Assumptions C06_isolation_slow.
Print Assumptions C06_schedule_irrelevant.
Print Assumptions C06_isolation_slow_applies.
