(* C01 — compiled programs compute what the language reference says.

   FULL STATEMENT (DESIGN §5; stage (e), NOT closed):

     C01_compile_correct : forall E p file, wt p -> scoped_otherwise p = true ->
       forall lines,
         let (ocs, vs) := run_lines E (codegen p) (map (mklogline file) lines) (init_vm (codegen p)) in
         let (st, ros) := ref_lines E p file lines (init_rstore p) in
         obs_vm (vs_store vs) = obs_ref st /\ map class_vm ocs = map class_ref ros.

   What IS proved here, each stage under its own name:
     C01_expr_pure              stage (a), on the fragment [tyof e = Some t] (Proofs/C01Expr.v)
     C01_flags_coincide         the source-level core of stage (d): the VM's single matched
                                flag and the reference's block-local flag run every block
                                identically under the guard ok_block
     C01_error_keeps_effects    the state returned with Err is the state reached by the
                                completely executed instructions (VM) / statements (reference)
     C01_otherwise_else_refuted the full statement is FALSE without the guard (witness of §6)
     C01_compile_correct_partial  the conjunction
   Missing construct classes (see notes/C01.md): comparisons and && || =~ !~ (jumps inside
   expressions, stage (b)); metric reads and every statement against the VM's heap store
   (stages (c), (d) at bytecode level); the composition over lines (e). *)
From V Require Import Lang.RefSem Lang.Codegen Lang.Vm Lang.Observe
  Proofs.C01Sim Proofs.C01Expr Proofs.C01Flags Proofs.C01Witness.
Local Open Scope Z_scope.

(* ---- stage (a) ---- *)
Theorem C01_expr_pure :
  forall (E : env) (decls : list mdecl) (file line : bytes) (o : object) (e : expr) (t : ty),
    tyof o e = Some t ->
    forall pc stk mt ms tm rs vs,
      at_pc o pc (cexpr decls pc e) -> mrel rs ms -> trel rs tm ->
      match RefSem.eval E decls file line e rs with
      | ROk v rs' =>
          rs' = rs /\ vty v = t /\
          exists w, vrel v w /\
            nsteps E o (mklogline file line) (length (cexpr decls pc e)) (mkthread pc stk mt ms tm) vs =
            Some (mkthread (pc + length (cexpr decls pc e)) (w :: stk) mt ms tm, vs)
      | RAbort (AErr _) rs' =>
          rs' = rs /\
          exists n t1 e', nsteps E o (mklogline file line) n (mkthread pc stk mt ms tm) vs = Some (t1, vs) /\
                          Vm.step E o (mklogline file line) t1 vs = SEnd (Err e') vs
      | RAbort AStop _ => False
      end.
Proof. intros. exact (sim_expr E decls file line o e t H pc stk mt ms tm rs vs H0 H1 H2). Qed.

(* ---- source-level core of stage (d) ---- *)
Theorem C01_flags_coincide :
  forall (E : env) (decls : list mdecl) (file line : bytes) (b : block) (s : rstate),
    ok_block b false = true ->
    forget (gexec_block E decls file line b false s) = exec_block E decls file line b false s.
Proof. exact flags_coincide. Qed.

(* ---- errors keep the effects already made ---- *)
Theorem C01_error_keeps_effects :
  (* VM: the state returned with Err is the one reached by the instructions executed before *)
  (forall (E : env) (o : object) (ll : logline) fuel t s e s',
     Vm.run E o fuel ll t s = (Err e, s') ->
     exists n t1 s1, nsteps E o ll n t s = Some (t1, s1) /\ Vm.step E o ll t1 s1 = SEnd (Err e) s') /\
  (* and an instruction that reports its error through Er changes nothing itself *)
  (forall (E : env) (o : object) (ll : logline) t s i e,
     nth_error (o_prog o) (t_pc t) = Some i ->
     exec E o ll i (with_pc t (S (t_pc t))) s = Er e ->
     Vm.step E o ll t s = SEnd (Err e) s).
Proof. split; [exact run_err_prefix | exact step_er_keeps]. Qed.

(* ---- the unguarded statement is false: `otherwise` directly under `else` ---- *)

Theorem C01_otherwise_else_refuted :
  exists (E : env) (p : prog) (file : bytes) (lines : list bytes),
    scoped_otherwise p = false /\
    let r := run_lines E (codegen p) (map (mklogline file) lines) (init_vm (codegen p)) in
    let q := ref_lines E p file lines (init_rstore p) in
    map class_vm (fst r) = map class_ref (snd q) /\
    obs_vm (vs_store (snd r)) <> obs_ref (fst q).
Proof.
  exists wit_env, wit_prog, [102%N], [[120%N]]. vm_compute. repeat split; discriminate.
Qed.

(* ---- what is claimed ---- *)

Theorem C01_compile_correct_partial : C01_stage_a /\ C01_stage_d_source.
Proof. split; [exact sim_expr | exact flags_coincide]. Qed.

(* ---- non-vacuity ---- *)
Example C01_expr_pure_nonvacuous :
  tyof ex_obj ex_expr = Some TInt /\ at_pc ex_obj 0 (cexpr [] 0 ex_expr) /\
  mrel (mkrs [] None [(0%N, Some [[49%N]; [52%N; 50%N]])]) [(0, [[49%N]; [52%N; 50%N]])] /\
  trel (mkrs [] None []) zero_time.
Proof.
  split; [reflexivity|]. split; [intros k i H; exact H|]. split; [|reflexivity].
  intros pid. cbn. destruct (N.eqb 0 pid) eqn:Hp.
  - apply N.eqb_eq in Hp. subst pid. reflexivity.
  - destruct pid; [discriminate|]. reflexivity.
Qed.

Example C01_flags_nonvacuous :
  ok_block (BCons (SCond (EMatch 0) (BCons (SOtherwise (BCons (SInc 0 XNil) BNil)) BNil))
           (BCons (SOtherwise (BCons (SInc 1 XNil) BNil)) BNil)) false = true
  /\ scoped_otherwise wit_prog = false.
Proof. split; reflexivity. Qed.

Print Assumptions C01_expr_pure.
Print Assumptions C01_flags_coincide.
Print Assumptions C01_error_keeps_effects.
Print Assumptions C01_otherwise_else_refuted.
Print Assumptions C01_compile_correct_partial.
Print Assumptions C01_expr_pure_nonvacuous.
Print Assumptions C01_flags_nonvacuous.
