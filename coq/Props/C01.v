(* C01 — compiled programs compute what the language reference says.

   MAIN THEOREM (DESIGN §5, stage (e)) — PROVED for the fragment:
     C01_compile_correct : wt p -> in_fragment p -> scoped_otherwise p -> forall E file lines,
        observable store and per-line outcome classes of  run_lines E (codegen p) lines  (Vm.v)
        =  those of  ref_lines E p lines  (RefSem.v).
   Stages, each under its own name:
     C01_expr_pure (a, round 1)  C01_expr_all / C01_expr_logic / C01_expr_effect (b, c: every well-typed
     expression)  C01_stmt (c+d: every statement and block of the fragment at bytecode level:
     ++ -- = += settime strptime del del-after stop, conditionals with and without else, otherwise)
     C01_flags_coincide (single flag = block-local flag under the guard)  C01_stmt_skeleton (round 2)
     C01_error_keeps_effects  C01_otherwise_else_refuted (the guard is needed)
     C01_compile_correct_partial (conjunction of the general stage lemmas, kept).
   Round 4: x++/x-- as a value (EIncr) and `+=` on Float/text metrics (target emitted twice; index keys
   must be effect free: pure_keys) are inside the theorem; decorators are inlined by Lang/Expand.v
   (C01_compile_correct_surface; the correspondence runs both ties on expand of the generator's SURFACE
   tree).  Still outside: constant folding, the promotion/ConvExpr insertion of the checker (Elab.v not
   written: the generator's intended tree carries the promotions), parser and checker themselves. *)
From V Require Import Lang.RefSem Lang.Codegen Lang.Vm Lang.Observe Lang.Wt Lang.Expand
  Proofs.C01Sim Proofs.C01Expr Proofs.C01Flags Proofs.C01Witness
  Proofs.C01Store Proofs.C01Gen Proofs.C01Cases Proofs.C01Stmt Proofs.C01Simple Proofs.C01Line Proofs.C01Expand
  Lang.CapType Proofs.CapTypeProofs.
Local Open Scope Z_scope.

(* ---- stage (a) ---- *)
Theorem C01_expr_pure :
  forall (E : env) (decls : list mdecl) (file line : bytes) (o : object) (e : expr) (t : ty),
    tyof o e = Some t ->
    forall pc stk mt ms tm rs vs,
      at_pc o pc (cexpr decls pc e) -> mrel rs ms -> trel rs tm ->
      match RefSem.eval E decls file line e rs with
      | ROk v rs' =>
          rs' = rs /\ vty v = t /\
          exists w, vrel v w /\
            nsteps E o (mklogline file line) (length (cexpr decls pc e)) (mkthread pc stk mt ms tm) vs =
            Some (mkthread (pc + length (cexpr decls pc e)) (w :: stk) mt ms tm, vs)
      | RAbort (AErr _) rs' =>
          rs' = rs /\
          exists n t1 e', nsteps E o (mklogline file line) n (mkthread pc stk mt ms tm) vs = Some (t1, vs) /\
                          Vm.step E o (mklogline file line) t1 vs = SEnd (Err e') vs
      | RAbort AStop _ => False
      end.
Proof. intros. exact (sim_expr E decls file line o e t H pc stk mt ms tm rs vs H0 H1 H2). Qed.


(* ---- stages (b) and (c), expressions: EVERY well-typed expression ---- *)
(* comparisons (typed and generic cmp), && || with their forward jumps, =~ !~ and
   pattern matches (capture state), metric reads (the VM's heap-and-pointer store
   against the reference store, relation [srel]), strtol, subst (string and regexp),
   and everything of stage (a).  [rel] relates reference state and VM registers/state:
   captures ([mrel]), time register, stores ([srel]), strptime memo ([memo_ok]). *)
Theorem C01_expr_all :
  forall (E : env) (decls : list mdecl) (file line : bytes) (o : object),
    o_metrics o = map mdesc_of decls ->
    forall (e : expr) (t : ty), etype decls (o_strs o) (o_nre o) e = Some t ->
    forall pc stk mt ms tm rs vs,
      at_pc o pc (cexpr decls pc e) -> rel E decls rs ms tm vs ->
      match RefSem.eval E decls file line e rs with
      | ROk v rs' =>
          vty v = t /\
          exists stk' ms' vs' n,
            (exists w, wrel e v w /\ stk' = w :: stk) /\
            (n <= length (cexpr decls pc e))%nat /\
            nsteps E o (mklogline file line) n (mkthread pc stk mt ms tm) vs =
              Some (mkthread (pc + length (cexpr decls pc e)) stk' mt ms' tm, vs') /\
            rel E decls rs' ms' tm vs' /\ ext (vs_store vs) (vs_store vs')
      | RAbort (AErr _) rs' =>
          exists n t1 e' vs',
            (n < length (cexpr decls pc e))%nat /\
            nsteps E o (mklogline file line) n (mkthread pc stk mt ms tm) vs = Some (t1, vs') /\
            Vm.step E o (mklogline file line) t1 vs' = SEnd (Err e') vs' /\
            srel decls (rs_store rs') (vs_store vs') /\ memo_ok E (vs_memo vs')
      | RAbort AStop _ => False
      end.
Proof.
  intros E decls file line o Hm e t Ht.
  exact (proj1 (esim_all E decls file line o Hm) e t Ht).
Qed.

(* stage (b) by name: expressions with forward jumps and capture state *)
Theorem C01_expr_logic :
  forall (E : env) (decls : list mdecl) (file line : bytes) (o : object),
    o_metrics o = map mdesc_of decls ->
    forall e, (exists op t ty a b, e = ECmp op t ty a b) \/ (exists a b, e = EAnd a b) \/ (exists a b, e = EOr a b)
              \/ (exists pid, e = EMatch pid) \/ (exists neg a pid, e = ESMatch neg a pid) ->
    forall t, etype decls (o_strs o) (o_nre o) e = Some t -> esim E decls file line o e t.
Proof. intros E decls file line o Hm e _ t Ht. exact (proj1 (esim_all E decls file line o Hm) e t Ht). Qed.

(* stage (c), expression part: a metric read obtains (creating if absent) the datum
   on both sides and the store relation is kept; index keys are evaluated left to right *)
Theorem C01_expr_effect :
  forall (E : env) (decls : list mdecl) (file line : bytes) (o : object),
    o_metrics o = map mdesc_of decls ->
    (forall m ks t, etype decls (o_strs o) (o_nre o) (EGet m ks) = Some t -> esim E decls file line o (EGet m ks) t) /\
    (forall ks, keys_ok decls (o_strs o) (o_nre o) ks = true -> ksim E decls file line o ks) /\
    (forall rst st m ks, srel decls rst st -> metric_ok decls m (length ks) = true ->
       exists p st', get_datum o st (N.to_nat m) ks = Ok (p, st') /\
         srel decls (snd (obtain decls m ks rst)) st' /\ ext st st' /\ points st' (N.to_nat m) ks p).
Proof.
  intros E decls file line o Hm. split; [|split].
  - intros m ks t Ht. exact (proj1 (esim_all E decls file line o Hm) _ t Ht).
  - exact (proj2 (esim_all E decls file line o Hm)).
  - intros rst st m ks Hs Hk. destruct (get_datum_sim decls o Hm rst st m ks Hs Hk) as (p & st' & H1 & H2 & H3 & H4 & _).
    exists p, st'. auto.
Qed.

(* ---- source-level core of stage (d) ---- *)
Theorem C01_flags_coincide :
  forall (E : env) (decls : list mdecl) (file line : bytes) (b : block) (s : rstate),
    ok_block b false = true ->
    forget (gexec_block E decls file line b false s) = exec_block E decls file line b false s.
Proof. exact flags_coincide. Qed.

(* ---- stage (d) at bytecode level: the control-flow skeleton ---- *)
(* Conditionals, `otherwise` and statement sequencing (with the Jnm / Setmatched /
   Otherwise instructions and their forward jumps) are simulated by the VM with
   respect to the single-flag interpreter [gexec_block] — equal to the reference's
   block-local flag by C01_flags_coincide — for every else-free well-typed block,
   GIVEN the simulation [ssim] of the block-free statements it contains.  An error
   or `stop` inside ends the run with related stores ([run_post]). *)
Theorem C01_stmt_skeleton :
  forall (E : env) (decls : list mdecl) (file line : bytes) (o : object),
    o_metrics o = map mdesc_of decls ->
    (forall s, simple s = true -> wt_stmt decls (o_strs o) (o_nre o) s = true -> ssim E decls file line o s) ->
    forall b, wt_block decls (o_strs o) (o_nre o) b = true -> noelse_block b = true ->
      forall pc stk g ms tm rs vs,
        at_pc o pc (cblock decls pc b) -> rel E decls rs ms tm vs ->
        run_post E decls file line o (length (cblock decls pc b)) pc stk g ms tm vs
                 (gexec_block E decls file line b g rs).
Proof.
  intros E decls file line o Hm Hs b Hw Hn.
  exact (proj2 (skeleton E decls file line o Hm Hs) b Hw Hn).
Qed.

(* ---- stage (e): THE MAIN THEOREM for the proved fragment ---- *)
(* wt p          : the checker's output contract (Lang/Wt.v), evaluated on every generated program;
   in_fragment p : no `+=` on a Float or text metric (codegen emits the target twice);
   scoped_otherwise p : no `otherwise` at the top level of an else block, none after a
                        conditional with else (without it the statement is false:
                        C01_otherwise_else_refuted).
   Then compiling p and running the VM model on any lines, from the freshly loaded store,
   gives the same observable store (per metric: label tuples in order, values, time
   classes, expiry) and the same per-line outcome classes (next / stop / error) as the
   reference semantics — for every oracle environment. *)
Theorem C01_compile_correct :
  forall (E : env) (p : prog) (file : bytes),
    wt p = true -> in_fragment p = true -> scoped_otherwise p = true ->
    forall lines : list bytes,
      obs_vm (vs_store (snd (run_lines E (codegen p) (map (mklogline file) lines) (init_vm (codegen p))))) =
        obs_ref (fst (ref_lines E p file lines (init_rstore p))) /\
      map class_vm (fst (run_lines E (codegen p) (map (mklogline file) lines) (init_vm (codegen p)))) =
        map class_ref (snd (ref_lines E p file lines (init_rstore p))).
Proof. exact compile_correct. Qed.

(* stage (c)+(d) at bytecode level: every statement and block of the fragment *)
Theorem C01_stmt :
  forall (E : env) (decls : list mdecl) (file line : bytes) (o : object),
    o_metrics o = map mdesc_of decls ->
    (forall s, wt_stmt decls (o_strs o) (o_nre o) s = true -> frag_stmt s = true -> ssim E decls file line o s) /\
    (forall b, wt_block decls (o_strs o) (o_nre o) b = true -> frag_block b = true -> bsim E decls file line o b).
Proof. exact stmt_block_sim. Qed.

Example C01_compile_correct_nonvacuous :
  wt wit_ok_prog = true /\ in_fragment wit_ok_prog = true /\ scoped_otherwise wit_ok_prog = true.
Proof. repeat split; reflexivity. Qed.

(* ---- decorators: the surface program, inlined by Lang/Expand.v ---- *)
(* [expand] is the meaning docs/Language.md gives to `def` / `@deco` / `next` (the
   decorated block takes the place of `next`), with patterns and strings numbered in
   code-generation order.  Its result is a core program: no decorator construct is left
   (by typing).  The correspondence runs BOTH ties on [expand sp] for the surface tree
   the generator emits, so the generator's own inlining is not trusted. *)
Theorem C01_compile_correct_surface :
  forall (E : env) (sp : sprog) (p : prog) (file : bytes),
    expand sp = Some p ->
    wt p = true -> in_fragment p = true -> scoped_otherwise p = true ->
    forall lines : list bytes,
      obs_vm (vs_store (snd (run_lines E (codegen p) (map (mklogline file) lines) (init_vm (codegen p))))) =
        obs_ref (fst (ref_lines E p file lines (init_rstore p))) /\
      map class_vm (fst (run_lines E (codegen p) (map (mklogline file) lines) (init_vm (codegen p)))) =
        map class_ref (snd (ref_lines E p file lines (init_rstore p))).
Proof. intros E sp p file _. exact (compile_correct E p file). Qed.

Example C01_expand_example :
  expand wit_surface = Some wit_surface_core /\
  wt wit_surface_core = true /\ in_fragment wit_surface_core = true /\ scoped_otherwise wit_surface_core = true.
Proof. repeat split; vm_compute; reflexivity. Qed.

(* numbering inside [expand]: the pattern and string tables only grow, so an index handed
   out to an earlier occurrence stays valid in the final tables *)
Theorem C01_expand_tables_grow :
  forall (pats : list bytes),
    (forall e s, grows s (snd (rexpr pats e s))) /\ (forall ks s, grows s (snd (rexprs pats ks s))).
Proof. exact rexpr_grows. Qed.

(* ---- errors keep the effects already made ---- *)
Theorem C01_error_keeps_effects :
  (* VM: the state returned with Err is the one reached by the instructions executed before *)
  (forall (E : env) (o : object) (ll : logline) fuel t s e s',
     Vm.run E o fuel ll t s = (Err e, s') ->
     exists n t1 s1, nsteps E o ll n t s = Some (t1, s1) /\ Vm.step E o ll t1 s1 = SEnd (Err e) s') /\
  (* and an instruction that reports its error through Er changes nothing itself *)
  (forall (E : env) (o : object) (ll : logline) t s i e,
     nth_error (o_prog o) (t_pc t) = Some i ->
     exec E o ll i (with_pc t (S (t_pc t))) s = Er e ->
     Vm.step E o ll t s = SEnd (Err e) s).
Proof. split; [exact run_err_prefix | exact step_er_keeps]. Qed.

(* ---- the unguarded statement is false: `otherwise` directly under `else` ---- *)

Theorem C01_otherwise_else_refuted :
  exists (E : env) (p : prog) (file : bytes) (lines : list bytes),
    scoped_otherwise p = false /\
    let r := run_lines E (codegen p) (map (mklogline file) lines) (init_vm (codegen p)) in
    let q := ref_lines E p file lines (init_rstore p) in
    map class_vm (fst r) = map class_ref (snd q) /\
    obs_vm (vs_store (snd r)) <> obs_ref (fst q).
Proof.
  exists wit_env, wit_prog, [102%N], [[120%N]]. vm_compute. repeat split; discriminate.
Qed.

(* ---- the type of a capture group (Lang/CapType.v) ---- *)

(* The reference's rule (docs/Language.md: a group that can only match digits is
   an integer, one that only matches floating point numbers is a float, anything
   else a string), decided on the group's regular expression by cap_spec, is
   sound for EVERY regular expression and EVERY string of its language: a group
   the reference types Int matches only optionally signed runs of digits, one it
   types Float only decimal floating point numerals (the strings whose
   conversion cannot fail for a syntactic reason). *)
Theorem C01_capref_spec_sound :
  forall (r : re) (w : list N), matches r w ->
    (cap_spec r = TInt -> int_shape w = true) /\
    (cap_spec r = TFloat -> float_shape w = true).
Proof. exact cap_spec_sound. Qed.

(* The compiler's inference (infer_top: faithful model of types.InferCaprefType,
   compared with the real checker on every generated group) guarantees the
   character half of this: a group it types Int (Float) matches only strings
   over "+-0123456789" ("+-0123456789.eE"); a group that can match any other
   character is a String and keeps its text. *)
Theorem C01_capref_type_alphabet :
  forall (r : re) (w : list N), matches r w ->
    (infer_top r = TInt -> Forall (fun c => int_char c = true) w) /\
    (infer_top r = TFloat -> Forall (fun c => float_char c = true) w).
Proof. exact infer_alphabet. Qed.

(* FULL STATEMENT (what C01 demands of the inference), FALSE of the faithful model:
     forall r w, matches r w ->
       (infer_top r = TInt -> int_shape w = true) /\ (infer_top r = TFloat -> float_shape w = true).
   \d* is typed Int and matches the empty string, [0-9.]+ is typed Float and
   matches "." and "1.2.3": the conversion the compiler emits fails on them and
   the rest of the line is lost (known findings c01/capref-type/wrong-shape/...). *)
Theorem C01_capref_type_sound_refuted :
  (exists r w, matches r w /\ infer_top r = TInt /\ int_shape w = false) /\
  (exists r w, matches r w /\ infer_top r = TFloat /\ float_shape w = false).
Proof. split; [exact infer_int_unsound | exact infer_float_unsound]. Qed.

(* ---- what is claimed ---- *)

Theorem C01_compile_correct_partial :
  C01_stage_a /\ C01_stage_d_source /\
  (forall E decls file line o, o_metrics o = map mdesc_of decls ->
     (forall e t, etype decls (o_strs o) (o_nre o) e = Some t -> esim E decls file line o e t) /\
     (forall ks, keys_ok decls (o_strs o) (o_nre o) ks = true -> ksim E decls file line o ks)).
Proof. split; [exact sim_expr | split; [exact flags_coincide | exact esim_all]]. Qed.

(* ---- non-vacuity ---- *)
Example C01_expr_pure_nonvacuous :
  tyof ex_obj ex_expr = Some TInt /\ at_pc ex_obj 0 (cexpr [] 0 ex_expr) /\
  mrel (mkrs [] None [(0%N, Some [[49%N]; [52%N; 50%N]])]) [(0, [[49%N]; [52%N; 50%N]])] /\
  trel (mkrs [] None []) zero_time.
Proof.
  split; [reflexivity|]. split; [intros k i H; exact H|]. split; [|reflexivity].
  intros pid. cbn. destruct (N.eqb 0 pid) eqn:Hp.
  - apply N.eqb_eq in Hp. subst pid. reflexivity.
  - destruct pid; [discriminate|]. reflexivity.
Qed.

Example C01_flags_nonvacuous :
  ok_block (BCons (SCond (EMatch 0) (BCons (SOtherwise (BCons (SInc 0 XNil) BNil)) BNil))
           (BCons (SOtherwise (BCons (SInc 1 XNil) BNil)) BNil)) false = true
  /\ scoped_otherwise wit_prog = false.
Proof. split; reflexivity. Qed.

(* [0-9./]+ (one range '.'..'9', which contains '/'), \d+ and \d+\.\d+ *)
Example C01_capref_nonvacuous :
  let ip := RPlus (RClass [(46, 57)])%N in
  let int := RPlus (RClass [(48, 57)])%N in
  let flt := RCat (RCons int (RCons (RLit false [46%N]) (RCons int RNil))) in
  cap_spec ip = TStr /\ infer_top ip = TStr /\ matches ip ([49] ++ [47] ++ [56] ++ [])%N /\
  cap_spec int = TInt /\ infer_top int = TInt /\ matches int ([52] ++ [50] ++ [])%N /\
  cap_spec flt = TFloat /\ infer_top flt = TFloat.
Proof.
  cbv zeta. repeat split; try reflexivity.
  - apply MPlus; [apply (MClass _ 46 57 49)%N; [left; reflexivity | lia | lia]|].
    apply MStarS; [apply (MClass _ 46 57 47)%N; [left; reflexivity | lia | lia]|].
    apply MStarS; [apply (MClass _ 46 57 56)%N; [left; reflexivity | lia | lia]|]. constructor.
  - apply MPlus; [apply (MClass _ 48 57 52)%N; [left; reflexivity | lia | lia]|].
    apply MStarS; [apply (MClass _ 48 57 50)%N; [left; reflexivity | lia | lia]|]. constructor.
Qed.

Print Assumptions C01_expr_pure.
Print Assumptions C01_expr_all.
Print Assumptions C01_expr_logic.
Print Assumptions C01_expr_effect.
Print Assumptions C01_flags_coincide.
Print Assumptions C01_stmt_skeleton.
Print Assumptions C01_stmt.
Print Assumptions C01_compile_correct.
Print Assumptions C01_compile_correct_nonvacuous.
Print Assumptions C01_compile_correct_surface.
Print Assumptions C01_expand_example.
Print Assumptions C01_expand_tables_grow.
Print Assumptions C01_error_keeps_effects.
Print Assumptions C01_otherwise_else_refuted.
Print Assumptions C01_compile_correct_partial.
Print Assumptions C01_expr_pure_nonvacuous.
Print Assumptions C01_flags_nonvacuous.
Print Assumptions C01_capref_spec_sound.
Print Assumptions C01_capref_type_alphabet.
Print Assumptions C01_capref_type_sound_refuted.
Print Assumptions C01_capref_nonvacuous.
