(* C11 - Concurrent processing, export, reload and GC are race-free.
   Statements only; proofs live in Proofs/LockIRProofs.v.
   LEVEL: PARTIAL (see notes/C11.md): the theorems are about the lock model -
   threads are traces of the IR, mutexes are the RWMutex machine of
   Export/LockIR.v, happens-before through channels is covered only for the
   spawn-and-drain pattern (the emitter's reads are attributed to the exporter
   that holds the read lock around it), and the Go memory model is trusted to
   make lock-ordered and atomic accesses race-free. *)
From Coq Require Import List NArith ZArith Permutation.
Import ListNotations.
From V Require Import Export.LockIR Proofs.LockIRProofs.
Local Open Scope N_scope.

(* the static lockset is a sound description of the locks dynamically held:
   a function the checker accepts (entered with no lock held) only produces
   traces in which every access holds its guard, in every execution, for
   every binding of its object symbols *)
Theorem C11_lockset_sound :
  forall spec b, violations spec b = [] ->
  forall r tr r' f, run_block b r tr r' f -> guarded spec [] tr.
Proof. exact lockset_sound. Qed.

(* data-race freedom of the lock model over all schedules: any number of
   threads, each running any accepted function on any objects, under any
   interleaving the RWMutex rules allow, never reach a state in which two
   different threads are both about to perform conflicting accesses to the same
   (object, field) *)
Theorem C11_discipline_sound :
  forall spec T, disciplined spec T = true ->
  forall g0 : gstate,
    (forall i, th_H (g0 i) = [] /\
       (th_rest (g0 i) = [] \/
        exists b r r' f, In b T /\ run_block b r (th_rest (g0 i)) r' f)) ->
  forall g, reachable g0 g -> ~ race g.
Proof. exact discipline_sound. Qed.

(* indivisible atomic adds on one word: every interleaving ends at the sum *)
Theorem C11_no_lost_increment :
  forall (ds sched : list Z) (v0 : Z), Permutation ds sched ->
  fold_left Z.add sched v0 = (v0 + fold_right Z.add 0%Z ds)%Z.
Proof. exact no_lost_increment. Qed.

(* a value returned by an atomic load was the word's value in a state it went through *)
Theorem C11_export_sees_real_value :
  forall ops v x, In x (snd (aword v ops)) -> In x (snd (fst (aword v ops))).
Proof. exact load_sees_real_value. Qed.

(* the unchanged tree: Store.Gc reads m.LabelValues with no metric lock while
   GetDatum appends under the write lock.  The checker flags exactly that read,
   and the two-thread schedule is a race of the machine. *)
Theorem C11_gc_race_refuted :
  violations mtail_spec gc_shape = [2] /\
  violations mtail_spec getdatum_shape = [] /\
  run_block gc_shape (fun _ => 7) (th_rest (race_g0 0%nat)) (fun _ => 7) LFall /\
  run_block getdatum_shape (fun _ => 7) (th_rest (race_g0 1%nat)) (fun _ => 7) LFall /\
  exists g, reachable race_g0 g /\ race g.
Proof.
  split; [vm_compute; reflexivity|]. split; [vm_compute; reflexivity|].
  split; [exact gc_trace_runs|]. split; [exact gd_trace_runs|]. exact gc_race_reachable.
Qed.

(* non-vacuity: a table of an updater and a locked reader is accepted, so the
   system theorem applies to it *)
Example C11_disciplined_nontrivial :
  disciplined mtail_spec
    [getdatum_shape;
     lblock_of [LAcq 1 l_mu MR;
                LLoop (lblock_of [LAcc 1 f_LabelValues KRead 1; LAcc 1 f_Expiry KRead 2;
                                  LIf (lblock_of [LContinue]) LNil;
                                  LAcc 2 f_Time KAtomic 3]) 4;
                LRel 1 l_mu MR]] = true.
Proof. vm_compute. reflexivity. Qed.

Print Assumptions C11_lockset_sound.
Print Assumptions C11_discipline_sound.
Print Assumptions C11_no_lost_increment.
Print Assumptions C11_export_sees_real_value.
Print Assumptions C11_gc_race_refuted.
