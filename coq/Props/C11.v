(* C11 - Concurrent processing, export, reload and GC are race-free.
   Statements only; proofs live in Proofs/LockIRProofs.v.
   LEVEL: PARTIAL (see notes/C11.md): the theorems are about the lock model -
   threads are traces of the IR, mutexes are the RWMutex machine of
   Export/LockIR.v, happens-before through channels is covered only for the
   spawn-and-drain pattern (the emitter's reads are attributed to the exporter
   that holds the read lock around it), and the Go memory model is trusted to
   make lock-ordered and atomic accesses race-free. *)
From Coq Require Import List NArith ZArith Permutation.
Import ListNotations.
From V Require Import Export.LockIR Export.FirstTouch Export.SliceAlias Proofs.LockIRProofs
  Proofs.LockAtomicProofs Proofs.FirstTouchProofs Proofs.SliceAliasProofs.
Local Open Scope N_scope.

(* the static lockset is a sound description of the locks dynamically held:
   a function the checker accepts (entered with no lock held) only produces
   traces in which every access holds its guard, in every execution, for
   every binding of its object symbols *)
Theorem C11_lockset_sound :
  forall spec b, violations spec b = [] ->
  forall r tr r' f, run_block b r tr r' f -> guarded spec [] tr.
Proof. exact lockset_sound. Qed.

(* data-race freedom of the lock model over all schedules: any number of
   threads, each running any accepted function on any objects, under any
   interleaving the RWMutex rules allow, never reach a state in which two
   different threads are both about to perform conflicting accesses to the same
   (object, field) *)
Theorem C11_discipline_sound :
  forall spec T, disciplined spec T = true ->
  forall g0 : gstate,
    (forall i, th_H (g0 i) = [] /\
       (th_rest (g0 i) = [] \/
        exists b r r' f, In b T /\ run_block b r (th_rest (g0 i)) r' f)) ->
  forall g, reachable g0 g -> ~ race g.
Proof. exact discipline_sound. Qed.

(* isolation: in every reachable state of guarded threads, while one thread
   holds a lock in write mode no other thread is about to access a field that
   lock guards - so a critical section under the write lock acts as one step *)
Theorem C11_isolation :
  forall spec (g0 : gstate),
    (forall i, th_H (g0 i) = [] /\ guarded spec [] (th_rest (g0 i))) ->
  forall g, reachable g0 g ->
  forall i j x l f k r, i <> j -> In (x, l, MW) (th_H (g i)) ->
    th_rest (g j) = EvAcc x f k :: r -> spec f = GLock l -> False.
Proof. exact write_lock_isolates. Qed.

(* check-then-act: a function the analysis accepts never writes an (object,
   field) it read or wrote before releasing the guarding lock, unless it has
   read it again since - in every execution, for every binding of its objects
   (tracked inside loop-free stretches of work on one selection of objects) *)
Theorem C11_no_stale_write :
  forall spec b, stale_violations spec b = [] ->
  forall r tr r' f, run_block b r tr r' f -> atomic_trace spec tr.
Proof. exact stale_sound. Qed.

(* lookups-or-creations plus adds on one label set of one metric: with
   GetDatum's find-and-create in one critical section (one step, by
   C11_isolation) and an indivisible add, EVERY schedule of any number of
   goroutines that first-touch the same label set ends with exactly one label
   value, the index pointing at it, and its value the sum of all increments *)
Theorem C11_first_touch_no_lost_increment :
  forall (deltas : list Z) (sched : list nat), deltas <> [] ->
  let s := run_atomic sched (init deltas) in
  done_atomic s = true ->
  lvcount s = 1%nat /\ idx s = Some 0%nat /\ vals s = [zsum deltas] /\ exported s = Some (zsum deltas).
Proof. exact first_touch_atomic. Qed.

(* lookup under the read lock, creation under the write lock without looking
   again (the seeded fast path): every access is locked, the lockset checker
   accepts it, yet the check-then-act analysis flags the index write, a trace
   of the shape writes from stale knowledge, and a schedule of two goroutines
   ends with two label values and one of two increments lost *)
Theorem C11_split_getdatum_refuted :
  violations mtail_spec getdatum_split_shape = [] /\
  stale_violations mtail_spec getdatum_split_shape = [5] /\
  stale_violations mtail_spec getdatum_shape = [] /\
  stale_violations mtail_spec getdatum_recheck_shape = [] /\
  (exists tr, run_block getdatum_split_shape (fun _ => 7) tr (fun _ => 7) LFall /\
              ~ atomic_trace mtail_spec tr) /\
  (let s := run_split [0; 1; 0; 1; 0; 1]%nat (init [1%Z; 1%Z]) in
   done_split s = true /\ lvcount s = 2%nat /\ exported s = Some 1%Z /\ zsum [1%Z; 1%Z] = 2%Z).
Proof.
  split; [vm_compute; reflexivity|]. split; [vm_compute; reflexivity|].
  split; [vm_compute; reflexivity|]. split; [vm_compute; reflexivity|].
  split; [exact split_shape_not_atomic|exact first_touch_split_loses].
Qed.

(* round 4.  (i) An exporter may let its emitter goroutine read the metric only
   under its own read lock: the pseudo-lock l_emit ("no emitter I started runs
   unsupervised") is required at every release of the metric lock, is given up
   at the spawn and while a received item is handled, and is regained only at
   the receive loop - so every path from the spawn to the release runs that loop
   to the channel's close; the seeded push writer that leaves the loop on a write
   error without draining is flagged at the release.  (ii) Runtime.handles and the
   handles' input channels are guarded by handleMu (send = read use, close /
   replace = write): handing a line over on a snapshot taken before the unlock is
   flagged.  Both by the verified lockset checker, so C11_lockset_sound and
   C11_discipline_sound cover them. *)
Example C11_emitter_and_handles_shapes :
  violations mtail_spec exporter_drained_shape = [] /\
  violations mtail_spec exporter_undrained_shape = [5] /\
  violations mtail_spec lineloop_shape = [] /\
  violations mtail_spec lineloop_snapshot_shape = [6].
Proof. vm_compute. repeat split; reflexivity. Qed.

(* round 5: walks over the store's metric lists, and slice headers.
   (i) The read-lock half of isolation: in every reachable state of guarded
   threads, while a thread holds a lock (in either mode) no other thread is
   about to WRITE a field that lock guards - what a walker reads between
   searchMu.RLock and RUnlock is one content of the store. *)
Theorem C11_read_lock_excludes_writers :
  forall spec (g0 : gstate),
    (forall i, th_H (g0 i) = [] /\ guarded spec [] (th_rest (g0 i))) ->
  forall g, reachable g0 g ->
  forall i j x l m f r, i <> j -> In (x, l, m) (th_H (g i)) ->
    th_rest (g j) = EvAcc x f KWrite :: r -> spec f = GLock l -> False.
Proof. exact read_lock_excludes_writers. Qed.

(* (ii) Store.Range as it is (Adds attempted during the walk take effect after
   it, by (i)): for every store and every list of attempted Adds (new programs,
   reloads of any program) the walk visits exactly the content the store held
   when the walk began, and the store ends as if the Adds had come afterwards *)
Theorem C11_locked_walk_sees_held_content :
  forall s attempted, wf s ->
  fst (range_locked s attempted) = content s /\
  snd (range_locked s attempted) = adds attempted s.
Proof. exact locked_walk_sound. Qed.

(* (iii) a walker that copied the ELEMENTS (an array of its own) visits the
   content the store held at the copy, under every schedule of Adds and visits:
   Adds write only the store's current array or arrays they allocate *)
Theorem C11_copy_walk_sees_held_content :
  forall s sch, wf s -> fst (range_copy s sch) = firstn (visits sch) (content s).
Proof. exact copy_walk_sound. Qed.

(* (iv) whatever Adds take effect, every content the store holds has exactly one
   metric per program and every program that was loaded at the beginning: an
   export that shows a program twice, or lacks one loaded throughout, shows
   something the store never held *)
Theorem C11_store_keeps_one_metric_per_program :
  forall sch s, wf s -> NoDup (progs (content s)) ->
  forall c, In c (held s sch) ->
    NoDup (progs c) /\ (forall p, In p (progs (content s)) -> In p (progs c)).
Proof. exact held_one_per_program. Qed.

(* (v) the seeded Store.Range (list HEADERS copied under the lock, walked after
   the unlock) is refuted: three programs export one name (length 3, capacity 4);
   the walker has visited program 1's metric when program 1 is reloaded (append
   in place, shift down in place); it goes on to program 3's metric and the new
   metric of program 1.  Program 1 twice, program 2 - loaded throughout - never:
   no content the store held, in any order.  The element-copying and the locked
   walk of the same schedule visit the content at their beginning. *)
Theorem C11_header_walk_refuted :
  wf wit_store /\ NoDup (progs (content wit_store)) /\
  content wit_store = [(1, 1); (2, 1); (3, 1)] /\ cap_of wit_store = 4%nat /\
  visits wit_sched = length (content wit_store) /\
  let v := fst (range_hdr wit_store wit_sched) in
  v = [(1, 1); (3, 1); (1, 2)] /\
  ~ NoDup (progs v) /\
  In 2 (progs (content wit_store)) /\ ~ In 2 (progs v) /\
  (forall c, In c (held wit_store wit_sched) -> ~ Permutation (progs c) (progs v)) /\
  fst (range_copy wit_store wit_sched) = content wit_store /\
  fst (range_locked wit_store [(1, 2)]) = content wit_store.
Proof. exact header_walk_refuted. Qed.

(* non-vacuity: a store of five programs after reloads of the first and the
   middle one is well formed, holds one metric per program, has spare capacity
   (so the next reload shifts in place), and a walk interleaved with two reloads *)
Example C11_walks_nontrivial :
  let s := adds [(1, 1); (2, 1); (3, 1); (4, 1); (5, 1); (1, 2); (3, 2)] sempty in
  wf s /\ content s = [(2, 1); (4, 1); (5, 1); (1, 2); (3, 2)] /\ cap_of s = 8%nat /\
  fst (range_copy s [WVisit; WAdd (2, 2); WVisit; WVisit; WAdd (9, 1); WVisit; WVisit]) = content s /\
  fst (range_hdr s [WVisit; WAdd (2, 2); WVisit; WVisit; WAdd (9, 1); WVisit; WVisit]) =
    [(2, 1); (5, 1); (1, 2); (3, 2); (2, 2)].
Proof.
  cbv zeta. split; [apply adds_wf; exact sempty_wf|]. vm_compute. repeat split; reflexivity.
Qed.

(* indivisible atomic adds on one word: every interleaving ends at the sum *)
Theorem C11_no_lost_increment :
  forall (ds sched : list Z) (v0 : Z), Permutation ds sched ->
  fold_left Z.add sched v0 = (v0 + fold_right Z.add 0%Z ds)%Z.
Proof. exact no_lost_increment. Qed.

(* a value returned by an atomic load was the word's value in a state it went through *)
Theorem C11_export_sees_real_value :
  forall ops v x, In x (snd (aword v ops)) -> In x (snd (fst (aword v ops))).
Proof. exact load_sees_real_value. Qed.

(* the unchanged tree: Store.Gc reads m.LabelValues with no metric lock while
   GetDatum appends under the write lock.  The checker flags exactly that read,
   and the two-thread schedule is a race of the machine. *)
Theorem C11_gc_race_refuted :
  violations mtail_spec gc_shape = [2] /\
  violations mtail_spec getdatum_shape = [] /\
  run_block gc_shape (fun _ => 7) (th_rest (race_g0 0%nat)) (fun _ => 7) LFall /\
  run_block getdatum_shape (fun _ => 7) (th_rest (race_g0 1%nat)) (fun _ => 7) LFall /\
  exists g, reachable race_g0 g /\ race g.
Proof.
  split; [vm_compute; reflexivity|]. split; [vm_compute; reflexivity|].
  split; [exact gc_trace_runs|]. split; [exact gd_trace_runs|]. exact gc_race_reachable.
Qed.

(* non-vacuity: a table of an updater and a locked reader is accepted, so the
   system theorem applies to it *)
Example C11_disciplined_nontrivial :
  disciplined mtail_spec
    [getdatum_shape;
     lblock_of [LAcq 1 l_mu MR;
                LLoop (lblock_of [LAcc 1 f_LabelValues KRead 1; LAcc 1 f_Expiry KRead 2;
                                  LIf (lblock_of [LContinue]) LNil;
                                  LAcc 2 f_Time KAtomic 3]) 4;
                LRel 1 l_mu MR]] = true.
Proof. vm_compute. reflexivity. Qed.

Print Assumptions C11_lockset_sound.
Print Assumptions C11_discipline_sound.
Print Assumptions C11_isolation.
Print Assumptions C11_no_stale_write.
Print Assumptions C11_first_touch_no_lost_increment.
Print Assumptions C11_split_getdatum_refuted.
Print Assumptions C11_no_lost_increment.
Print Assumptions C11_export_sees_real_value.
Print Assumptions C11_gc_race_refuted.
Print Assumptions C11_read_lock_excludes_writers.
Print Assumptions C11_locked_walk_sees_held_content.
Print Assumptions C11_copy_walk_sees_held_content.
Print Assumptions C11_store_keeps_one_metric_per_program.
Print Assumptions C11_header_walk_refuted.
