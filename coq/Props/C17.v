(* C17 - Pipes and sockets deliver all bytes, never splice connections, then end.
   PARTIAL (see notes/C17.md): the theorems are about the model of
   Tail/Conn.v - one LineReader per connection / pipe, Finish when it ends, the
   channel carrying an interleaving of the handlers' outputs, one shared
   reader for a datagram socket, and the end automaton.  Kernel ordering
   between senders, datagram loss, the delivery of read deadlines and the
   accept/close race are runtime behaviour and are only exercised, not proved.
   Statements only; proofs live in Proofs/ConnProofs.v. *)
From V Require Import Base.Bytes Tail.LineReader Tail.Conn Proofs.LineReaderProofs Proofs.ConnProofs.
From Coq Require Import Permutation.

(* every connection's lines, in its own order, are exactly the framing of the
   bytes it carried - for every way the kernel cut them into reads, every
   buffer size >= 1, and every interleaving of the handlers on the channel.
   (C15 per reader + the interleaving lemma.) *)
Theorem C17_per_connection : forall sz cs out,
  1 <= sz -> socket_out sz cs out ->
  forall k, project k out = frame (concat (nth k cs [])).
Proof. exact per_connection. Qed.

(* the channel content is a permutation of the union of the handlers' outputs
   and every line on it is a line of the connection it is attributed to:
   nothing is merged across connections, lost or duplicated *)
Theorem C17_never_merged : forall sz cs out,
  1 <= sz -> socket_out sz cs out ->
  Permutation out (concat (tag_all sz 0 cs)) /\
  forall t, In t out ->
    fst t < length cs /\ In (snd t) (frame (concat (nth (fst t) cs []))).
Proof. exact never_merged. Qed.

(* datagram sockets share one reader: when every datagram consists of whole
   (newline-terminated) lines, the stream's lines are the datagrams' lines in
   arrival order, so each sender's lines come out in that sender's order *)
Theorem C17_dgram_whole_lines : forall sz arrivals,
  1 <= sz -> fits sz arrivals -> Forall (fun t => terminated (snd t)) arrivals ->
  dgram_lines sz arrivals = map snd (dgram_tagged arrivals) /\
  forall i, project i (dgram_tagged arrivals) = concat (map frame (project i arrivals)).
Proof. exact dgram_whole_lines. Qed.

(* [dgram_lines] is the concrete LineReader fed one datagram per Read, the
   kernel discarding what does not fit the space offered.  Every such Read is
   offered exactly the configured size (131072 in dgramstream.go), so what the
   stream frames is every datagram cut to that size ... *)
Theorem C17_dgram_reads_offered_size : forall sz dgs, 1 <= sz ->
  Forall (fun o => o_space o = sz) (fst (run_dg (new_lr sz) dgs)).
Proof. exact dg_reads_offered_size. Qed.

Theorem C17_dgram_lines_cut : forall sz arrivals, 1 <= sz ->
  dgram_lines sz arrivals = frame (concat (map (fun t => firstn sz (snd t)) arrivals)).
Proof. exact dgram_lines_is_spec. Qed.

(* ... hence the hypothesis [fits] above is needed: a datagram larger than the
   read buffer (possible on unixgram sockets; UDP is limited to 65507 bytes)
   loses its tail, and the line that was cut is glued to the next datagram.
   Known finding `dgram-larger-than-read-buffer-cut/unixgram`. *)
Theorem C17_dgram_oversize_cut_refuted :
  exists sz arrivals, 1 <= sz /\ Forall (fun t => terminated (snd t)) arrivals /\
    dgram_lines sz arrivals <> map snd (dgram_tagged arrivals).
Proof.
  exists 4, [(0, [97; 10; 98; 98; 98; 10]%N); (0, [99; 10]%N)].
  split; [lia|]. split; [repeat constructor; right; reflexivity|]. vm_compute. discriminate.
Qed.

(* a zero-length datagram, wherever it arrives, delivers nothing and changes
   nothing of what the stream delivers (in particular it does not end it) *)
Theorem C17_empty_datagram_harmless : forall sz a i b,
  1 <= sz -> dgram_lines sz (a ++ (i, []) :: b) = dgram_lines sz (a ++ b).
Proof. exact empty_datagram_harmless. Qed.

(* the channel is closed only after the flush, and the flush only happens once
   the writer has closed or the stream has been cancelled; nothing follows *)
Theorem C17_ends_after_flush : forall es,
  run_phase Open es = Some Closed ->
  exists pre q, es = pre ++ [EFinish; EClose] /\ run_phase Open pre = Some q /\
                (q = WriterClosed \/ q = Cancelled).
Proof. exact ends_after_flush. Qed.

Theorem C17_nothing_after_close : forall es e,
  run_phase Open es = Some Closed -> run_phase Open (es ++ [e]) = None.
Proof. exact nothing_after_close. Qed.

(* a cancelled socket stream shuts down whether or not anybody ever connected;
   before the repair a stream without connections never did *)
Theorem C17_cancelled_socket_shuts_down : forall accepted,
  closer_proceeds true accepted true = true.
Proof. reflexivity. Qed.

Theorem C17_never_connected_hangs_refuted :
  exists accepted, closer_proceeds false accepted true = false.
Proof. exists 0. reflexivity. Qed.

(* the executable check of the correspondence implies the per-connection
   statement for connections whose writer closed *)
Theorem C17_check_sound : forall sz cs out,
  conns_ok sz 0 (map (pair true) cs) out = true ->
  forall k, k < length cs -> project k out = conn_lines sz (nth k cs []).
Proof. intros sz cs out H k Hk. exact (conns_ok_closed sz cs 0 out H k Hk). Qed.

(* without whole-line datagrams the shared reader does merge senders: this is
   why the datagram statement carries the hypothesis (and why the property
   text promises non-merging for stream sockets only) *)
Theorem C17_dgram_partial_merges_refuted :
  exists arrivals, dgram_lines 8 arrivals <> map snd (dgram_tagged arrivals).
Proof. exists [(0, [97%N]); (1, [98%N; 10%N])]. vm_compute. discriminate. Qed.

(* non-vacuity: two connections whose reads cut a CRLF and a tag in the middle,
   interleaved line by line *)
Definition la : bytes := [48; 58; 97]%N.   (* "0:a" *)
Definition lb : bytes := [48; 58; 98]%N.   (* "0:b" *)
Definition lx : bytes := [49; 58; 120]%N.  (* "1:x" *)
Definition ly : bytes := [49; 58; 121]%N.  (* "1:y" *)
Example C17_nontrivial :
  let cs := [[[48; 58; 97; 13]; [10; 48; 58]; [98]]; [[49; 58]; [120; 10; 49; 58; 121; 10]]]%N in
  socket_out 4 cs [(1, lx); (0, la); (1, ly); (0, lb)] /\
  project 0 [(1, lx); (0, la); (1, ly); (0, lb)] = [la; lb].
Proof.
  cbv zeta. split; [|reflexivity]. unfold socket_out.
  change (Interleave [[(0, la); (0, lb)]; [(1, lx); (1, ly)]] [(1, lx); (0, la); (1, ly); (0, lb)]).
  apply (il_take [[(0, la); (0, lb)]] _ _ []).
  apply (il_take [] _ _ [[(1, ly)]]).
  apply (il_take [[(0, lb)]] _ _ []).
  apply (il_take [] _ _ [[]]).
  apply il_done. repeat constructor.
Qed.

Print Assumptions C17_per_connection.
Print Assumptions C17_never_merged.
Print Assumptions C17_dgram_whole_lines.
Print Assumptions C17_dgram_reads_offered_size.
Print Assumptions C17_dgram_lines_cut.
Print Assumptions C17_dgram_oversize_cut_refuted.
Print Assumptions C17_empty_datagram_harmless.
Print Assumptions C17_ends_after_flush.
Print Assumptions C17_nothing_after_close.
Print Assumptions C17_cancelled_socket_shuts_down.
Print Assumptions C17_never_connected_hangs_refuted.
Print Assumptions C17_check_sound.
Print Assumptions C17_dgram_partial_merges_refuted.
